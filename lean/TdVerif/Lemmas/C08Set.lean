/-
  C08 — TensorDict-level write refinement for `lazySetCore` (= `__setitem__`).
-/
import TdVerif.Lemmas.C08Write
namespace TdVerif.C08

theorem pos_le : ∀ (ix : List Ix) (sd : Nat) (sh so : Shape), sd ≤ sh.length → Plain sd ix →
    idxShape (splitRec sd ix).out sh = some so → (splitRec sd ix).pos ≤ so.length
  | [], sd, sh, so, hsd, _, h => by simp [splitRec, idxShape] at h ⊢; subst h; exact hsd
  | .none :: r, sd, sh, so, hsd, hp, h => by
    simp only [splitRec, idxShape, Option.map_eq_some_iff] at h ⊢
    obtain ⟨so', hso', rfl⟩ := h
    have := pos_le r sd sh so' hsd (by simpa [Plain] using hp) hso'
    simp; omega
  | .int i :: r, 0, sh, so, hsd, hp, h => by simp [splitRec]
  | .slice a b c :: r, 0, sh, so, hsd, hp, h => by simp [splitRec]
  | .tens t :: r, 0, sh, so, hsd, hp, h => by simp [splitRec]
  | .mask m :: r, 0, sh, so, hsd, hp, h => by simp [splitRec]
  | .ell :: r, 0, sh, so, hsd, hp, h => by simp [splitRec]
  | _ :: _, sd + 1, [], so, hsd, _, _ => by simp at hsd
  | .ell :: r, sd + 1, d :: sh, so, hsd, hp, h => by simp [Plain] at hp
  | .int i :: r, sd + 1, d :: sh, so, hsd, hp, h => by
    simp only [splitRec, idxShape] at h ⊢
    split at h
    · simpa using pos_le r sd sh so (by simpa using hsd) (by simpa [Plain] using hp) h
    · simp at h
  | .slice a b c :: r, sd + 1, d :: sh, so, hsd, hp, h => by
    simp only [splitRec, idxShape] at h ⊢
    split at h
    · split at h
      · simp only [Option.map_eq_some_iff] at h
        obtain ⟨so', hso', rfl⟩ := h
        have := pos_le r sd sh so' (by simpa using hsd) (by simpa [Plain] using hp) hso'
        simp; omega
      · simp at h
    · simp at h
  | .tens t :: r, sd + 1, d :: sh, so, hsd, hp, h => by
    simp only [splitRec, idxShape] at h ⊢
    split at h
    · simp only [Option.map_eq_some_iff] at h
      obtain ⟨so', hso', rfl⟩ := h
      have := pos_le r sd sh so' (by simpa using hsd) (by simpa [Plain] using hp) hso'
      simp; omega
    · simp at h
  | .mask m :: r, sd + 1, d :: sh, so, hsd, hp, h => by
    simp only [Plain] at hp
    obtain ⟨hk0, hk, hp'⟩ := hp
    simp only [splitRec, idxShape] at h ⊢
    split at h
    · simp only [Option.map_eq_some_iff] at h
      obtain ⟨so', hso', rfl⟩ := h
      have := pos_le r (sd + 1 - m.shape.length) _ so' (by simp at hsd ⊢; omega) hp' hso'
      simp; omega
    · simp at h

theorem pos_leM : ∀ (ix : List Ix) (sd : Nat) (sh so : Shape), sd ≤ sh.length → PlainM sd ix →
    idxShape (splitRec sd ix).out sh = some so → (splitRec sd ix).pos ≤ so.length
  | [], sd, sh, so, hsd, _, h => by simp [splitRec, idxShape] at h ⊢; subst h; exact hsd
  | .none :: r, sd, sh, so, hsd, hp, h => by
    simp only [splitRec, idxShape, Option.map_eq_some_iff] at h ⊢
    obtain ⟨so', hso', rfl⟩ := h
    have := pos_leM r sd sh so' hsd (by simpa [PlainM] using hp) hso'
    simp; omega
  | .int i :: r, 0, sh, so, hsd, hp, h => by simp [splitRec]
  | .slice a b c :: r, 0, sh, so, hsd, hp, h => by simp [splitRec]
  | .tens t :: r, 0, sh, so, hsd, hp, h => by simp [splitRec]
  | .mask m :: r, 0, sh, so, hsd, hp, h => by simp [splitRec]
  | .ell :: r, 0, sh, so, hsd, hp, h => by simp [splitRec]
  | _ :: _, sd + 1, [], so, hsd, _, _ => by simp at hsd
  | .ell :: r, sd + 1, d :: sh, so, hsd, hp, h => by simp [PlainM] at hp
  | .int i :: r, sd + 1, d :: sh, so, hsd, hp, h => by
    simp only [splitRec, idxShape] at h ⊢
    split at h
    · simpa using pos_leM r sd sh so (by simpa using hsd) (by simpa [PlainM] using hp) h
    · simp at h
  | .slice a b c :: r, sd + 1, d :: sh, so, hsd, hp, h => by
    simp only [splitRec, idxShape] at h ⊢
    split at h
    · split at h
      · simp only [Option.map_eq_some_iff] at h
        obtain ⟨so', hso', rfl⟩ := h
        have := pos_leM r sd sh so' (by simpa using hsd) (by simpa [PlainM] using hp) hso'
        simp; omega
      · simp at h
    · simp at h
  | .tens t :: r, sd + 1, d :: sh, so, hsd, hp, h => by
    simp only [splitRec, idxShape] at h ⊢
    split at h
    · simp only [Option.map_eq_some_iff] at h
      obtain ⟨so', hso', rfl⟩ := h
      have := pos_leM r sd sh so' (by simpa using hsd) (by simpa [PlainM] using hp) hso'
      simp; omega
    · simp at h
  | .mask m :: r, sd + 1, d :: sh, so, hsd, hp, h => by
    simp only [PlainM] at hp
    obtain ⟨hk0, hk, hp'⟩ := hp
    simp only [splitRec, idxShape] at h ⊢
    split at h
    · simp only [Option.map_eq_some_iff] at h
      obtain ⟨so', hso', rfl⟩ := h
      have := pos_leM r (sd + 1 - m.shape.length) _ so' (by simp at hsd ⊢; omega) hp' hso'
      simp; omega
    · simp at h


/-- effect of a sequence of member writes with pairwise distinct targets -/
theorem writeAll_spec (out : List Ix) : ∀ (ws : List (Nat × TD α)) (ms ms' : List (TD α)),
    writeAll out ws ms = some ms' → (ws.map Prod.fst).Nodup →
    ms'.length = ms.length ∧
    (∀ w ∈ ws, ∃ (h : w.1 < ms.length) (m' : TD α),
        (ms[w.1]).setitem out w.2 = some m' ∧ ms'[w.1]? = some m') ∧
    (∀ i, i ∉ ws.map Prod.fst → ms'[i]? = ms[i]?)
  | [], ms, ms', h, _ => by
    simp [writeAll] at h; subst h; simp
  | (i, v) :: r, ms, ms', h, hnd => by
    simp only [writeAll, memberSet] at h
    cases hm : ms[i]? with
    | none => simp [hm] at h
    | some m =>
      have hi : i < ms.length := by
        rcases Nat.lt_or_ge i ms.length with h' | h'
        · exact h'
        · simp [List.getElem?_eq_none h'] at hm
      have hmm : ms[i] = m := by
        rw [List.getElem?_eq_getElem hi] at hm; exact Option.some.inj hm
      simp only [hm, Option.bind_some] at h
      cases hs : m.setitem out v with
      | none => simp [hs] at h
      | some m' =>
        simp only [hs, Option.map_some, Option.bind_some] at h
        simp only [List.map_cons, List.nodup_cons] at hnd
        obtain ⟨ih1, ih2, ih3⟩ := writeAll_spec out r (ms.set i m') ms' h hnd.2
        refine ⟨by simpa using ih1, ?_, ?_⟩
        · intro w hw
          rcases List.mem_cons.mp hw with rfl | hw
          · refine ⟨hi, m', by rw [hmm]; exact hs, ?_⟩
            rw [ih3 i hnd.1]; simp [hi]
          · obtain ⟨h', m'', h1, h2⟩ := ih2 w hw
            have hne : i ≠ w.1 := by
              intro heq; exact hnd.1 (heq ▸ List.mem_map_of_mem hw)
            refine ⟨by simpa using h', m'', ?_, h2⟩
            simpa [List.getElem_set, hne] using h1
        · intro i' hi'
          simp only [List.map_cons, List.mem_cons, not_or] at hi'
          rw [ih3 i' hi'.2]
          simp [List.getElem?_set, Ne.symm hi'.1]

theorem nodup_map_range (f : Nat → Nat) (len : Nat)
    (hinj : ∀ j j', j < len → j' < len → f j = f j' → j = j') : ((List.range len).map f).Nodup := by
  rw [List.Nodup, List.pairwise_map]
  apply List.Pairwise.imp_of_mem _ (List.pairwise_lt_range (n := len))
  intro a b ha hb hab heq
  have := hinj a b (List.mem_range.mp ha) (List.mem_range.mp hb) heq
  omega

/-- the index `out` never sends two result coordinates to the same element (torch leaves the
result of a write with duplicate targets unspecified) -/
def NoDupTargets (out : List Ix) : Prop :=
  ∀ (sh s : Shape), idxShape out sh = some s →
    ∀ o o', InB o s → InB o' s → idxCoord out sh o = idxCoord out sh o' → o = o'

theorem noDupTargets_of_basic (out : List Ix) (h : Basic out) : NoDupTargets out :=
  fun sh s hs o o' ho ho' heq => idxCoord_inj_basic out sh s h hs o o' ho ho' heq

theorem TD.setitem_some (m : TD α) (out : List Ix) (v m' : TD α) (h : m.setitem out v = some m') :
    ∃ so, idxShape out m.batch = some so ∧ v.batch = so ∧ (∀ k ∈ v.keys, k ∈ m.keys) ∧
      m'.batch = m.batch ∧ m'.keys = m.keys ∧
      ∀ k, m'.leaf k = if v.keys.contains k then setT out (m.leaf k) (v.leaf k) else m.leaf k := by
  unfold TD.setitem at h
  cases hso : idxShape out m.batch with
  | none => simp [hso] at h
  | some so =>
    simp only [hso, Option.bind_some] at h
    split at h
    · rename_i hc
      simp only [Option.some.injEq] at h
      subst h
      refine ⟨so, rfl, hc.1, ?_, rfl, rfl, fun k => rfl⟩
      intro k hk
      have := List.all_eq_true.mp hc.2 k hk
      simpa using this
    · simp at h

/-- TensorDict-level write refinement for a one-dim stack item (slice / absent / rank-1 tensor
with distinct entries): every key of the dense stack becomes `IsSetT` of the written value, and
the stack stays uniform. -/
theorem set_one_case [Inhabited α] (L : Lazy α) (b : Shape) (keys : List String) (feat : String → Shape)
    (hU : Uniform L b keys feat) (hne : L.members ≠ []) (ix : List Ix) (hp : PlainM L.sd ix)
    (bd : Shape) (hbd : idxShape ix (b.insertIdx L.sd L.members.length) = some bd)
    (len : Nat) (ids : Nat → Nat)
    (hrank : ((splitRec L.sd ix).item.getD Ix.full).outRank = 1)
    (hishape : itemShape ((splitRec L.sd ix).item.getD Ix.full) L.members.length = some [len])
    (hmid : ∀ x, itemCoord ((splitRec L.sd ix).item.getD Ix.full) L.members.length [x] = ids x)
    (hinj : ∀ j j', j < len → j' < len → ids j = ids j' → j = j')
    (hnd : NoDupTargets (splitRec L.sd ix).out)
    (v : TD α) (hvk : v.keys = keys)
    (hvl : ∀ k ∈ keys, (v.leaf k).shape = bd ++ feat k)
    (ms' : List (TD α))
    (hw : writeAll (splitRec L.sd ix).out
      ((List.range len).map fun j => (ids j, v.select (splitRec L.sd ix).pos j)) L.members = some ms') :
    Uniform ⟨ms', L.sd⟩ b keys feat ∧ ms'.length = L.members.length ∧
    ∀ k ∈ keys, IsSetT ix ((absL L).leaf k) (v.leaf k) ((absL (⟨ms', L.sd⟩ : Lazy α)).leaf k) := by
  have hnodup : (((List.range len).map fun j => (ids j, v.select (splitRec L.sd ix).pos j)).map Prod.fst).Nodup := by
    rw [List.map_map]
    exact nodup_map_range _ len hinj
  obtain ⟨hlen', hsel, hnot⟩ := writeAll_spec _ _ _ _ hw hnodup
  -- per selected member
  have hselj : ∀ j, j < len → ∃ (h : ids j < L.members.length) (m' : TD α),
      (L.members[ids j]).setitem (splitRec L.sd ix).out (v.select (splitRec L.sd ix).pos j) = some m' ∧
      ms'[ids j]? = some m' := by
    intro j hj
    exact hsel (ids j, v.select (splitRec L.sd ix).pos j)
      (List.mem_map.mpr ⟨j, List.mem_range.mpr hj, rfl⟩)
  have hnotj : ∀ i, (∀ j, j < len → ids j ≠ i) → ms'[i]? = L.members[i]? := by
    intro i h
    apply hnot
    simp only [List.map_map, List.mem_map, List.mem_range, Function.comp, not_exists, not_and]
    intro j hj; exact h j hj
  -- the member result shape, from the dense side
  have hsplit := shape_splitM L.members.length ix L.sd b hU.hsd hp
  rw [hbd] at hsplit
  cases hso : idxShape (splitRec L.sd ix).out b with
  | none => simp [hso] at hsplit
  | some so =>
  have hpos := pos_leM ix L.sd b so hU.hsd hp hso
  -- what a selected member becomes
  have hselm : ∀ j (hj : j < len), ∃ (h : ids j < L.members.length) (m' : TD α),
      ms'[ids j]? = some m' ∧ m'.batch = b ∧ m'.keys = keys ∧
      ∀ k ∈ keys, m'.leaf k = setT (splitRec L.sd ix).out ((L.members[ids j]).leaf k)
        ((v.leaf k).select (splitRec L.sd ix).pos j) := by
    intro j hj
    obtain ⟨h, m', hset, hget⟩ := hselj j hj
    obtain ⟨so', _, _, _, hb', hk', hl'⟩ := TD.setitem_some _ _ _ _ hset
    have hmem : L.members[ids j] ∈ L.members := List.getElem_mem h
    refine ⟨h, m', hget, by rw [hb', hU.hbatch _ hmem], by rw [hk', hU.hkeys _ hmem], ?_⟩
    intro k hk
    rw [hl' k]
    have : (v.select (splitRec L.sd ix).pos j).keys.contains k = true := by
      show v.keys.contains k = true
      rw [hvk]; simpa using hk
    rw [if_pos this]; rfl
  have hmem' : ∀ m ∈ ms', m.batch = b ∧ m.keys = keys ∧ ∀ k ∈ keys, (m.leaf k).shape = b ++ feat k := by
    intro m hm
    obtain ⟨i, hi, rfl⟩ := List.getElem_of_mem hm
    have hi' : i < L.members.length := hlen' ▸ hi
    by_cases hex : ∃ j, j < len ∧ ids j = i
    · obtain ⟨j, hj, rfl⟩ := hex
      obtain ⟨h, m', hget, hb', hk', hl'⟩ := hselm j hj
      rw [List.getElem?_eq_getElem hi] at hget
      have hmm : ms'[ids j] = m' := Option.some.inj hget
      rw [hmm]
      refine ⟨hb', hk', ?_⟩
      intro k hk
      rw [hl' k hk]
      show ((L.members[ids j]).leaf k).shape = _
      exact hU.hleaf _ (List.getElem_mem h) k hk
    · have := hnotj i (fun j hj hij => hex ⟨j, hj, hij⟩)
      rw [List.getElem?_eq_getElem hi, List.getElem?_eq_getElem hi'] at this
      have hmm : ms'[i] = L.members[i] := Option.some.inj this
      rw [hmm]
      have hmem : L.members[i] ∈ L.members := List.getElem_mem hi'
      exact ⟨hU.hbatch _ hmem, hU.hkeys _ hmem, hU.hleaf _ hmem⟩
  refine ⟨⟨fun m hm => (hmem' m hm).1, fun m hm => (hmem' m hm).2.1, fun m hm => (hmem' m hm).2.2, hU.hsd⟩,
    hlen', ?_⟩
  intro k hk
  show IsSetT ix (T.stack (L.members.map fun m => m.leaf k) L.sd) (v.leaf k)
    (T.stack (ms'.map fun m => m.leaf k) L.sd)
  have hms : (L.members.map fun m => m.leaf k).length = L.members.length := by simp
  have hbdf : idxShape ix ((b ++ feat k).insertIdx L.sd (L.members.map fun m => m.leaf k).length)
      = some (bd ++ feat k) := by
    rw [hms, insertIdx_append_of_le _ _ _ _ hU.hsd]; exact idxShape_append _ _ _ _ hbd
  have hsof := idxShape_append (feat k) _ _ _ hso
  apply set_stack_one (L.members.map fun m => m.leaf k) (ms'.map fun m => m.leaf k) (b ++ feat k) L.sd ix
    (by
      intro t ht
      simp only [List.mem_map] at ht
      obtain ⟨m, hm, rfl⟩ := ht
      exact hU.hleaf m hm k hk)
    (by simpa using hne)
    (by simp; have := hU.hsd; omega) hp (bd ++ feat k) (so ++ feat k) hbdf hsof
    (by simp; omega) len ids hrank (by rw [hms]; exact hishape) (by rw [hms]; exact hmid)
    (v.leaf k) (hvl k hk) (by simp [hlen'])
  · intro j hj
    obtain ⟨h, m', hget, hb', hk', hl'⟩ := hselm j hj
    refine ⟨by rw [hms]; exact h, ?_⟩
    have hi : ids j < ms'.length := hlen' ▸ h
    rw [List.getElem?_eq_getElem hi] at hget
    have hmm : ms'[ids j] = m' := Option.some.inj hget
    simp only [List.getElem_map, hmm, hl' k hk]
    apply setT_isSet
    intro o o' ho ho' heq
    have hshape : ((L.members[ids j]).leaf k).shape = b ++ feat k := hU.hleaf _ (List.getElem_mem h) k hk
    rw [hshape] at heq
    have hvs : ((v.leaf k).select (splitRec L.sd ix).pos j).shape = so ++ feat k := by
      show (v.leaf k).shape.eraseIdx _ = _
      rw [hvl k hk]
      have hsp := hsplit
      rw [hso, hishape] at hsp
      simp only [Option.bind_some, Option.map_some, Option.some.injEq] at hsp
      rw [hsp, ← insertIdx_eq_take_drop _ _ _ hpos, ← insertIdx_append_of_le _ _ _ _ hpos,
        List.eraseIdx_insertIdx_self]
    rw [hvs] at ho ho'
    exact hnd _ _ hsof o o' ho ho' heq
  · intro i hi hno
    have hi' : i < L.members.length := by simpa using hi
    have := hnotj i hno
    rw [List.getElem?_eq_getElem (hlen' ▸ hi'), List.getElem?_eq_getElem hi'] at this
    simp only [List.getElem_map]
    rw [Option.some.inj this]

theorem set_int_case [Inhabited α] (L : Lazy α) (b : Shape) (keys : List String) (feat : String → Shape)
    (hU : Uniform L b keys feat) (ix : List Ix) (hp : Plain L.sd ix)
    (bd : Shape) (hbd : idxShape ix (b.insertIdx L.sd L.members.length) = some bd)
    (kk : Int) (hit : (splitRec L.sd ix).item.getD Ix.full = .int kk)
    (i : Nat) (hn : normInt kk L.members.length = some i)
    (hnd : NoDupTargets (splitRec L.sd ix).out)
    (v : TD α) (hvk : v.keys = keys) (hvl : ∀ k ∈ keys, (v.leaf k).shape = bd ++ feat k)
    (ms' : List (TD α)) (hw : memberSet L.members (splitRec L.sd ix).out i v = some ms') :
    Uniform ⟨ms', L.sd⟩ b keys feat ∧ ms'.length = L.members.length ∧
    ∀ k ∈ keys, IsSetT ix ((absL L).leaf k) (v.leaf k) ((absL (⟨ms', L.sd⟩ : Lazy α)).leaf k) := by
  unfold memberSet at hw
  cases hm : L.members[i]? with
  | none => simp [hm] at hw
  | some m =>
    have hi : i < L.members.length := by
      rcases Nat.lt_or_ge i L.members.length with h' | h'
      · exact h'
      · simp [List.getElem?_eq_none h'] at hm
    have hmm : L.members[i] = m := by
      rw [List.getElem?_eq_getElem hi] at hm; exact Option.some.inj hm
    simp only [hm, Option.bind_some, Option.map_eq_some_iff] at hw
    obtain ⟨m', hset, rfl⟩ := hw
    obtain ⟨so, hso, _, _, hb', hk', hl'⟩ := TD.setitem_some _ _ _ _ hset
    have hmem : m ∈ L.members := hmm ▸ List.getElem_mem hi
    rw [hU.hbatch m hmem] at hso
    have hne : L.members ≠ [] := by intro h; simp [h] at hi
    have hleaf' : ∀ k ∈ keys, m'.leaf k = setT (splitRec L.sd ix).out (m.leaf k) (v.leaf k) := by
      intro k hk
      rw [hl' k, if_pos (by rw [hvk]; simpa using hk)]
    have hmem' : ∀ x ∈ L.members.set i m', x.batch = b ∧ x.keys = keys ∧ ∀ k ∈ keys, (x.leaf k).shape = b ++ feat k := by
      intro x hx
      rcases List.mem_or_eq_of_mem_set hx with h | h
      · exact ⟨hU.hbatch x h, hU.hkeys x h, hU.hleaf x h⟩
      · subst h
        refine ⟨by rw [hb', hU.hbatch m hmem], by rw [hk', hU.hkeys m hmem], ?_⟩
        intro k hk
        rw [hleaf' k hk]; exact hU.hleaf m hmem k hk
    refine ⟨⟨fun x hx => (hmem' x hx).1, fun x hx => (hmem' x hx).2.1, fun x hx => (hmem' x hx).2.2, hU.hsd⟩,
      by simp, ?_⟩
    intro k hk
    show IsSetT ix (T.stack (L.members.map fun m => m.leaf k) L.sd) (v.leaf k)
      (T.stack ((L.members.set i m').map fun m => m.leaf k) L.sd)
    have hms : (L.members.map fun m => m.leaf k).length = L.members.length := by simp
    have hbdf : idxShape ix ((b ++ feat k).insertIdx L.sd (L.members.map fun m => m.leaf k).length)
        = some (bd ++ feat k) := by
      rw [hms, insertIdx_append_of_le _ _ _ _ hU.hsd]; exact idxShape_append _ _ _ _ hbd
    have hsof := idxShape_append (feat k) _ _ _ hso
    apply set_stack_int (L.members.map fun m => m.leaf k) ((L.members.set i m').map fun m => m.leaf k)
      (b ++ feat k) L.sd ix
      (by
        intro t ht
        simp only [List.mem_map] at ht
        obtain ⟨x, hx, rfl⟩ := ht
        exact hU.hleaf x hx k hk)
      (by simp; have := hU.hsd; omega) hp (bd ++ feat k) hbdf kk hit i (by rw [hms]; exact hn)
      (by rw [hms]; exact hi) (v.leaf k) (hvl k hk) (by simp)
    · simp only [List.getElem_map, List.getElem_set_self, hmm, hleaf' k hk]
      apply setT_isSet
      intro o o' ho ho' heq
      rw [hU.hleaf m hmem k hk] at heq
      have hsplit := shape_split L.members.length ix L.sd b hU.hsd hp
      rw [hbd, hso, hit] at hsplit
      simp [itemShape, hn] at hsplit
      rw [hvl k hk, hsplit] at ho ho'
      exact hnd _ _ hsof o o' ho ho' heq
    · intro i' hi' hne'
      simp only [List.getElem_map]
      rw [List.getElem_set_ne (Ne.symm hne')]

theorem tensOk_isSome (t : T Int) (n k j : Nat) (hk : t.shape = [k]) (hj : j < k) (h : tensOk t n = true) :
    ∃ i, normInt (t.get [j]) n = some i := by
  unfold tensOk at h
  rw [hk] at h
  have := List.all_eq_true.mp h [j] ((mem_allCoords_iff _ _).mpr (by simp [InB, hj]))
  exact Option.isSome_iff_exists.mp this

theorem countP_split : ∀ (ix : List Ix) (sd : Nat),
    ix.countP Ix.isAdv = (splitRec sd ix).out.countP Ix.isAdv +
      (match (splitRec sd ix).item with | some it => if it.isAdv then 1 else 0 | none => 0)
  | [], sd => by simp [splitRec]
  | .none :: r, sd => by
    have := countP_split r sd
    simp only [splitRec, List.countP_cons, Ix.isAdv] at this ⊢
    omega
  | .int k :: r, 0 => by simp [splitRec, List.countP_cons, Ix.isAdv]
  | .slice a b c :: r, 0 => by simp [splitRec, List.countP_cons, Ix.isAdv]
  | .tens t :: r, 0 => by simp [splitRec, List.countP_cons, Ix.isAdv]
  | .mask m :: r, 0 => by simp [splitRec, List.countP_cons, Ix.isAdv]
  | .ell :: r, 0 => by simp [splitRec, List.countP_cons, Ix.isAdv]
  | .int k :: r, sd + 1 => by
    have := countP_split r sd
    simp only [splitRec, List.countP_cons, Ix.isAdv] at this ⊢
    omega
  | .slice a b c :: r, sd + 1 => by
    have := countP_split r sd
    simp only [splitRec, List.countP_cons, Ix.isAdv] at this ⊢
    omega
  | .tens t :: r, sd + 1 => by
    have := countP_split r sd
    simp only [splitRec, List.countP_cons, Ix.isAdv] at this ⊢
    omega
  | .ell :: r, sd + 1 => by
    have := countP_split r sd
    simp only [splitRec, List.countP_cons, Ix.isAdv] at this ⊢
    omega
  | .mask m :: r, sd + 1 => by
    have := countP_split r (sd + 1 - m.shape.length)
    simp only [splitRec, List.countP_cons, Ix.isAdv] at this ⊢
    omega

theorem out_no_adv (ix : List Ix) (sd : Nat) (t : T Int) (hadv : AtMostOneAdv ix)
    (hitem : (splitRec sd ix).item = some (.tens t)) :
    (splitRec sd ix).out.any Ix.isAdv = false := by
  have := countP_split ix sd
  rw [hitem] at this
  simp only [Ix.isAdv, if_true] at this
  unfold AtMostOneAdv at hadv
  have h0 : (splitRec sd ix).out.countP Ix.isAdv = 0 := by omega
  rw [List.any_eq_false]
  intro x hx
  have := (List.countP_eq_zero.mp h0) x hx
  simpa using this

/-- Write refinement for an Ellipsis-free index whose masks do not touch the stack dim and whose
stack-dim item is absent / an int / a slice / a rank-1 integer tensor with distinct entries:
after `lazy[ix] = v` the dense stack of the members is the dense stack before with `v` written
at `ix` (hit + frame, for every key), and the stack keeps its shape. -/
theorem setitem_refines_core [Inhabited α] (L : Lazy α) (b : Shape) (keys : List String)
    (feat : String → Shape) (hU : Uniform L b keys feat) (hne0 : L.members ≠ []) (ix : List Ix)
    (hp : Plain L.sd ix) (hne : ∀ it ∈ ix, it ≠ Ix.ell) (hadv : AtMostOneAdv ix)
    (hnd : NoDupTargets (splitRec L.sd ix).out)
    (hdist : ∀ t, (splitRec L.sd ix).item = some (.tens t) → ∃ k, t.shape = [k] ∧
      ∀ j j', j < k → j' < k →
        normInt (t.get [j]) L.members.length = normInt (t.get [j']) L.members.length → j = j')
    (v : TD α) (hvk : v.keys = keys) (hvl : ∀ k ∈ keys, (v.leaf k).shape = v.batch ++ feat k)
    (bd : Shape) (hbd : idxShape ix (absL L).batch = some bd)
    (L' : Lazy α) (h : lazySetCore L ix v = some L') :
    L'.sd = L.sd ∧ Uniform L' b keys feat ∧ L'.members.length = L.members.length ∧
    ∀ k ∈ keys, IsSetT ix ((absL L).leaf k) (v.leaf k) ((absL L').leaf k) := by
  obtain ⟨hb, _⟩ := head_batch_of_uniform L b keys feat hU hne0
  have hbatch : (absL L).batch = b.insertIdx L.sd L.members.length := by
    show ((L.members.head?.map TD.batch).getD []).insertIdx L.sd L.members.length = _
    rw [hb]
  have hLb : L.batch = b.insertIdx L.sd L.members.length := hbatch
  rw [hbatch] at hbd
  have hB := splitLoop_before L.sd L.members.length L.batch ix L.sd 0 {} (by simp) hp hne
    (by simpa [AtMostOneAdv] using hadv) rfl rfl rfl rfl
  unfold lazySetCore splitIndex at h
  rw [hLb, hbd] at h
  simp only [Option.bind_some] at h
  split at h
  · simp at h
  rename_i hvb
  have hvb : v.batch = bd := by simpa using hvb
  rw [hvb] at hvl
  cases hsel : selOf L.members.length (splitRec L.sd ix).item with
  | none => rw [← hLb] at h; simp [hB.1 hsel] at h
  | some p =>
    obtain ⟨sel, ii, nd⟩ := p
    obtain ⟨st', hloop, hspec⟩ := hB.2 sel ii nd hsel
    have hq : (L.sd : Int) - st'.numSingle + st'.numNone - st'.numSquash = (splitRec L.sd ix).pos := by
      have := hspec.q; simp [Q] at this; omega
    rw [← hLb] at h
    simp only [hloop, Option.bind_some, hspec.hasBool, Bool.false_eq_true, if_false, hspec.isNd,
      hspec.isInteger, hspec.sel, hspec.out, List.nil_append, hq] at h
    have hneg : ¬ (((splitRec L.sd ix).pos : Int) < 0) := by omega
    simp only [hneg, if_false, Int.toNat_natCast] at h
    cases hitem : (splitRec L.sd ix).item with
    | none =>
      simp only [hitem, selOf, Option.some.injEq, Prod.mk.injEq] at hsel
      obtain ⟨rfl, rfl, rfl⟩ := hsel
      simp only [Bool.false_eq_true, if_false, Sel.ids, List.length_range] at h
      split at h
      · simp at h
      simp only [Option.map_eq_some_iff] at h
      obtain ⟨ms', hw, rfl⟩ := h
      have hw' : writeAll (splitRec L.sd ix).out ((List.range L.members.length).map fun j =>
          (j, v.select (splitRec L.sd ix).pos j)) L.members = some ms' := by
        rw [← hw]; congr 1
        apply List.map_congr_left
        intro j hj
        simp [List.mem_range.mp hj]
      obtain ⟨h1, h2, h3⟩ := set_one_case L b keys feat hU hne0 ix (Plain.toM ix L.sd hp) bd hbd L.members.length id
        (by simp [hitem]) (by simp [hitem, itemShape, Ix.full, sliceNorm_full])
        (by intro x; simp [hitem, itemCoord, Ix.full, sliceNormD_full, sliceAt, at0])
        (by intro j j' _ _ h; exact h) hnd v hvk hvl ms' hw'
      exact ⟨rfl, h1, h2, h3⟩
    | some it =>
      cases it with
      | int k =>
        simp only [hitem, selOf, Option.map_eq_some_iff, Prod.mk.injEq] at hsel
        obtain ⟨i, hi, rfl, rfl, rfl⟩ := hsel
        simp only [if_true, Option.map_eq_some_iff] at h
        obtain ⟨ms', hw, rfl⟩ := h
        obtain ⟨h1, h2, h3⟩ := set_int_case L b keys feat hU ix hp bd hbd k (by simp [hitem]) i hi hnd v hvk hvl ms' hw
        exact ⟨rfl, h1, h2, h3⟩
      | slice a bb c =>
        simp only [hitem, selOf, Option.map_eq_some_iff, Prod.mk.injEq] at hsel
        obtain ⟨⟨s0, stp, len⟩, hn, rfl, rfl, rfl⟩ := hsel
        simp only [Bool.false_eq_true, if_false, Sel.ids, List.length_map, List.length_range] at h
        split at h
        · simp at h
        simp only [Option.map_eq_some_iff] at h
        obtain ⟨ms', hw, rfl⟩ := h
        have hw' : writeAll (splitRec L.sd ix).out ((List.range len).map fun j =>
            (sliceAt s0 stp j, v.select (splitRec L.sd ix).pos j)) L.members = some ms' := by
          rw [← hw]; congr 1
          apply List.map_congr_left
          intro j hj
          simp [List.mem_range.mp hj]
        -- the dense side accepts the slice: positive step
        have hsplit := shape_split L.members.length ix L.sd b hU.hsd hp
        rw [hbd] at hsplit
        have hstp : 0 < stp := by
          cases hso : idxShape (splitRec L.sd ix).out b with
          | none => simp [hso] at hsplit
          | some so =>
            simp only [hso, hitem, Option.getD_some, itemShape, hn, Option.bind_some] at hsplit
            by_cases hh : 0 < stp
            · exact hh
            · simp [hh] at hsplit
        obtain ⟨h1, h2, h3⟩ := set_one_case L b keys feat hU hne0 ix (Plain.toM ix L.sd hp) bd hbd len (sliceAt s0 stp)
          (by simp [hitem]) (by simp [hitem, itemShape, hn, hstp])
          (by intro x; simp [hitem, itemCoord, sliceNormD, hn, at0])
          (by intro j j' _ _ h; exact sliceAt_inj (sliceNorm_start_nonneg hn hstp) hstp h)
          hnd v hvk hvl ms' hw'
        exact ⟨rfl, h1, h2, h3⟩
      | tens t =>
        simp only [hitem, selOf, Option.some.injEq, Prod.mk.injEq] at hsel
        obtain ⟨rfl, rfl, rfl⟩ := hsel
        obtain ⟨k, hk, hdis⟩ := hdist t hitem
        have hnm := tens_mem_no_mask ix t (by simpa [AtMostOneAdv] using hadv) (splitRec_item_mem ix L.sd _ hitem)
        have hsq : st'.numSquash = 0 := by
          have := splitLoop_numSquash L.sd L.members.length L.batch ix 0 {} st' hnm hloop
          simpa using this
        have hq' : (L.sd : Int) - st'.numSingle + st'.numNone - st'.numSquash = (splitRec L.sd ix).pos := hq
        have hnoadv := out_no_adv ix L.sd t hadv hitem
        simp only [if_true, hnoadv, Bool.false_eq_true, if_false, hk] at h
        split at h
        · simp at h
        simp only [Option.map_eq_some_iff] at h
        obtain ⟨ms', hw, rfl⟩ := h
        -- the dense side accepts the tensor: every entry is a valid member position
        have hsplit := shape_split L.members.length ix L.sd b hU.hsd hp
        rw [hbd] at hsplit
        have hok : tensOk t L.members.length = true := by
          cases hso : idxShape (splitRec L.sd ix).out b with
          | none => simp [hso] at hsplit
          | some so =>
            simp only [hso, hitem, Option.getD_some, itemShape, Option.bind_some] at hsplit
            by_cases hh : t.shape ≠ [] ∧ tensOk t L.members.length = true
            · exact hh.2
            · simp [hh] at hsplit
        have hsome : ∀ j, j < k → ∃ i, normInt (t.get [j]) L.members.length = some i :=
          fun j hj => tensOk_isSome t _ k j hk hj hok
        have hw' : writeAll (splitRec L.sd ix).out ((List.range k).map fun j =>
            ((normInt (t.get [j]) L.members.length).getD 0, v.select (splitRec L.sd ix).pos j)) L.members = some ms' := by
          rw [← hw]; congr 1
          apply List.map_congr_left
          intro j hj
          obtain ⟨i, hi⟩ := hsome j (List.mem_range.mp hj)
          simp [hi]
        obtain ⟨h1, h2, h3⟩ := set_one_case L b keys feat hU hne0 ix (Plain.toM ix L.sd hp) bd hbd k
          (fun j => (normInt (t.get [j]) L.members.length).getD 0)
          (by simp [hitem, hk])
          (by simp [hitem, itemShape, hk, hok])
          (by intro x; simp [hitem, itemCoord])
          (by
            intro j j' hj hj' heq
            obtain ⟨i, hi⟩ := hsome j hj
            obtain ⟨i', hi'⟩ := hsome j' hj'
            apply hdis j j' hj hj'
            rw [hi, hi'] at heq ⊢
            simpa using heq)
          hnd v hvk hvl ms' hw'
        exact ⟨rfl, h1, h2, h3⟩
      | none => simp [hitem, selOf] at hsel
      | ell => simp [hitem, selOf] at hsel
      | mask m => simp [hitem, selOf] at hsel

theorem IsSetT.unique {ix : List Ix} {t v t1 t2 : T α} (h1 : IsSetT ix t v t1) (h2 : IsSetT ix t v t2) :
    t1 ≈ₜ t2 := by
  refine ⟨by rw [h1.shape, h2.shape], ?_⟩
  intro c hc
  rw [h1.shape] at hc
  by_cases hex : ∃ o, InB o v.shape ∧ idxCoord ix t.shape o = c
  · obtain ⟨o, ho, rfl⟩ := hex
    rw [h1.hit o ho, h2.hit o ho]
  · have hno : ∀ o, InB o v.shape → idxCoord ix t.shape o ≠ c := fun o ho heq => hex ⟨o, ho, heq⟩
    rw [h1.frame c hc hno, h2.frame c hc hno]

end TdVerif.C08
