/-
  Obligations over the parts of the C07 tie that are regenerated from the working tree on every run
  (Gen/C07Api.lean, written by harness/c07_gen.py): kernel-evaluated, in a module of their own so that lake
  re-checks them exactly when the generated file or the table changes.
-/
import TdVerif.Model.C07Table
import TdVerif.Model.C07Shapes
import TdVerif.Gen.C07Api

namespace TdVerif.C07

theorem gen_api_rows_exist : ∀ p ∈ Gen.C07.apiRows, (classTable.lookup p.2).isSome = true := by decide +kernel

theorem gen_hints_agree : ∀ p ∈ Gen.C07.hints, hintOk p = true := by decide +kernel

theorem gen_shapes_unchanged : Gen.C07.shapes = expectedShapes := by decide +kernel

end TdVerif.C07
