/-
  C04 — select: when does a strict `select` raise? (Props/C04.lean `select_strict_raises_iff`)
-/
import TdVerif.Model.C04Tree
import TdVerif.Model.C04Spec
import TdVerif.Lemmas.C04

namespace TdVerif.C04
open TdVerif

/-- the first loop of a strict `_select` succeeds exactly when every key is non-empty and starts with a bound name -/
theorem selectScan_strict_ok_iff (kids : Kids) (keys : List Path) (src : Kids) (grp : List (String × List Path))
    (whole : List String) :
    (∃ r, selectScan true kids keys src grp whole = .ok r) ↔
      ∀ p ∈ keys, ∃ k sub, p = k :: sub ∧ (dget k kids).isSome = true := by
  induction keys generalizing src grp whole with
  | nil => simp [selectScan]
  | cons p ps ih =>
    cases p with
    | nil =>
      simp only [selectScan]
      constructor
      · rintro ⟨r, hr⟩; simp at hr
      · intro h; obtain ⟨k, sub, hk, _⟩ := h [] (by simp); simp at hk
    | cons k sub =>
      simp only [selectScan]
      cases hd : dget k kids with
      | none =>
        simp only [if_true]
        constructor
        · rintro ⟨r, hr⟩; simp at hr
        · intro h
          obtain ⟨k', sub', hk, hs⟩ := h (k :: sub) (by simp)
          simp at hk; obtain ⟨rfl, rfl⟩ := hk
          rw [hd] at hs; simp at hs
      | some v =>
        simp only []
        have key : ∀ (P : Prop), (P ↔ ∀ p ∈ ps, ∃ k sub, p = k :: sub ∧ (dget k kids).isSome = true) →
            (P ↔ ∀ p ∈ (k :: sub) :: ps, ∃ k' sub', p = k' :: sub' ∧ (dget k' kids).isSome = true) := by
          intro P hP
          rw [hP]
          constructor
          · intro h p hp
            rcases List.mem_cons.mp hp with rfl | hp
            · exact ⟨k, sub, rfl, by simp [hd]⟩
            · exact h p hp
          · intro h p hp; exact h p (List.mem_cons_of_mem _ hp)
        split
        · exact key _ (ih _ _ _)
        · exact key _ (ih _ _ _)

/-- the second loop of a strict out-of-place `_select` succeeds exactly when the recursive call of every group does -/
theorem selectGroups_strict_ok_iff (f : List Path → Bool → Bool → Entry → Entry × Except Err Entry)
    (whole : List String) (G : List (String × List Path)) (cur src : Kids) (hG : (G.map (·.1)).Nodup) :
    (∃ r, (selectGroups f true false whole G cur src).2 = .ok r) ↔
      ∀ k l child, (k, l) ∈ G → dget k src = some child → ∃ c, (f l true false child).2 = .ok c := by
  induction G generalizing cur src with
  | nil => simp [selectGroups]
  | cons a r ih =>
    obtain ⟨k, subs⟩ := a
    simp only [List.map_cons, List.nodup_cons] at hG
    have hfresh : ∀ l, (k, l) ∉ r := fun l hm => hG.1 (List.mem_map_of_mem (f := (·.1)) hm)
    simp only [selectGroups]
    cases hd : dget k src with
    | none =>
      simp only []
      rw [ih cur src hG.2]
      constructor
      · intro h k' l child hm hc
        simp only [List.mem_cons, Prod.mk.injEq] at hm
        rcases hm with ⟨rfl, rfl⟩ | hm
        · rw [hd] at hc; simp at hc
        · exact h k' l child hm hc
      · intro h k' l child hm hc; exact h k' l child (List.mem_cons_of_mem _ hm) hc
    | some child =>
      simp only []
      -- both branches call `f subs true false child`
      have step : ∀ (src' : Kids), (∀ k', k' ≠ k → dget k' src' = dget k' src) →
          ((∃ c, (f subs true false child).2 = .ok c) ∧ (∃ r', (selectGroups f true false whole r cur src').2 = .ok r') ↔
            ∀ k' l child', (k', l) ∈ (k, subs) :: r → dget k' src = some child' → ∃ c, (f l true false child').2 = .ok c) := by
        intro src' hsrc'
        rw [ih cur src' hG.2]
        constructor
        · rintro ⟨h1, h2⟩ k' l child' hm hc
          simp only [List.mem_cons, Prod.mk.injEq] at hm
          rcases hm with ⟨rfl, rfl⟩ | hm
          · rw [hd] at hc; simp at hc; subst hc; exact h1
          · have hne : k' ≠ k := fun e => by subst e; exact hfresh l hm
            exact h2 k' l child' hm (by rw [hsrc' k' hne]; exact hc)
        · intro h
          refine ⟨h k subs child (by simp) hd, fun k' l child' hm hc => ?_⟩
          have hne : k' ≠ k := fun e => by subst e; exact hfresh l hm
          exact h k' l child' (List.mem_cons_of_mem _ hm) (by rw [← hsrc' k' hne]; exact hc)
      by_cases hw : whole.contains k = true
      · simp only [hw, if_true]
        rw [← step src (fun _ _ => rfl)]
        cases hf : (f subs true false child).2 with
        | error e => simp
        | ok c => simp
      · have hw' : whole.contains k = false := by simpa using hw
        simp only [hw', Bool.false_eq_true, if_false]
        cases hf : f subs true false child with
        | mk child' o =>
          cases o with
          | error e =>
            simp only []
            rw [← step src (fun _ _ => rfl)]
            simp [hf]
          | ok c =>
            simp only []
            rw [← step (dset k c src) (fun k' hne => dget_dset_other _ (fun e => hne e.symm) _)]
            simp [hf]


theorem groupAdd_nonempty (k : String) (sub : Path) (grp : List (String × List Path))
    (h : ∀ kl ∈ grp, kl.2 ≠ []) : ∀ kl ∈ groupAdd k sub grp, kl.2 ≠ [] := by
  induction grp with
  | nil => intro kl hm; simp [groupAdd] at hm; subst hm; simp
  | cons a r ih =>
    obtain ⟨k', l⟩ := a
    intro kl hm
    simp only [groupAdd] at hm
    split at hm
    · simp only [List.mem_cons] at hm
      rcases hm with rfl | hm
      · simp
      · exact h kl (List.mem_cons_of_mem _ hm)
    · simp only [List.mem_cons] at hm
      rcases hm with rfl | hm
      · exact h _ (by simp)
      · exact ih (fun kl hkl => h kl (List.mem_cons_of_mem _ hkl)) kl hm

theorem selectScan_groups_nonempty (strict : Bool) (kids : Kids) (keys : List Path) (src : Kids)
    (grp : List (String × List Path)) (whole : List String) (hg : ∀ kl ∈ grp, kl.2 ≠ [])
    (src' : Kids) (grp' : List (String × List Path)) (whole' : List String)
    (h : selectScan strict kids keys src grp whole = .ok (src', grp', whole')) : ∀ kl ∈ grp', kl.2 ≠ [] := by
  induction keys generalizing src grp whole with
  | nil => simp [selectScan] at h; obtain ⟨_, rfl, _⟩ := h; exact hg
  | cons p ps ih =>
    cases p with
    | nil => simp [selectScan] at h
    | cons k sub =>
      simp only [selectScan] at h
      cases hd : dget k kids with
      | none =>
        simp only [hd] at h
        split at h
        · simp at h
        · exact ih _ _ _ hg h
      | some v =>
        simp only [hd] at h
        split at h
        · exact ih _ _ _ hg h
        · exact ih _ _ _ (groupAdd_nonempty k sub grp hg) h

theorem selectF_leaf (n : Nat) (keys : List Path) (s i : Bool) (nt : Bool) (v : Nat) :
    (selectF n keys s i (.leaf nt v)).2 = .error .attr := by
  cases n <;> simp [selectF]

theorem lookup_cons_isSome_dget {k : String} {sub : Path} {kids : Kids}
    (h : (lookup (k :: sub) (.node kids)).isSome = true) : (dget k kids).isSome = true := by
  rw [lookup_cons_node] at h
  cases hd : dget k kids with
  | none => simp [hd] at h
  | some c => rfl

/-- a strict out-of-place `_select` succeeds exactly when every key is non-empty and bound -/
theorem selectF_strict_ok_iff (n : Nat) : ∀ (keys : List Path) (kids : Kids), (∀ p ∈ keys, p.length ≤ n) →
    ((∃ r, (selectF (n + 1) keys true false (.node kids)).2 = .ok r) ↔
      ∀ p ∈ keys, p ≠ [] ∧ (lookup p (.node kids)).isSome = true) := by
  induction n with
  | zero =>
    intro keys kids hk
    cases keys with
    | nil => simp [selectF, selectScan, selectGroups]
    | cons p ps =>
      have : p = [] := by have := hk p (by simp); cases p <;> simp at this ⊢
      subst this
      simp [selectF, selectScan]
  | succ m ih =>
    intro keys kids hk
    simp only [selectF]
    have hscan_iff := selectScan_strict_ok_iff kids keys [] [] []
    cases hscan : selectScan true kids keys [] [] [] with
    | error e =>
      simp only []
      constructor
      · rintro ⟨r, hr⟩; simp at hr
      · intro h
        exfalso
        have : ∃ r, selectScan true kids keys [] [] [] = .ok r := by
          rw [hscan_iff]
          intro p hp
          obtain ⟨hne, hl⟩ := h p hp
          cases p with
          | nil => exact absurd rfl hne
          | cons k sub => exact ⟨k, sub, rfl, lookup_cons_isSome_dget hl⟩
        obtain ⟨r, hr⟩ := this
        rw [hscan] at hr; simp at hr
    | ok res =>
      obtain ⟨src0, G, whole⟩ := res
      simp only []
      have hheads := hscan_iff.mp ⟨_, hscan⟩
      have hne : ∀ p ∈ keys, p ≠ [] := by
        intro p hp; obtain ⟨k, sub, rfl, _⟩ := hheads p hp; simp
      obtain ⟨ha, hb, _, hd, _⟩ := selectScan_spec true kids keys [] [] [] hne src0 G whole hscan
      have hGn := hd (by simp)
      have hGne := selectScan_groups_nonempty true kids keys [] [] [] (by simp) src0 G whole hscan
      have hgr := selectGroups_strict_ok_iff (selectF (m + 1)) whole G kids src0 hGn
      -- facts about one name
      have hsrc : ∀ k child, dget k src0 = some child → dget k kids = some child := by
        intro k child h
        have := ha k
        simp only [dget] at this
        rw [h] at this
        by_cases hcond : k ∈ headsOf keys ∧ (dget k kids).isSome = true
        · simp [hcond] at this; exact this.symm
        · simp [hcond] at this
      have hgrp : ∀ k l, (k, l) ∈ G → (dget k kids).isSome = true → l = tailsOf k keys := by
        intro k l hm hs
        have h1 := mem_lookupG hGn hm
        have h2 := hb k
        simp only [lookupG, List.nil_append, hs, if_true] at h2
        rw [← h1, h2]
      have key : (∃ r, (selectGroups (selectF (m + 1)) true false whole G kids src0).2 = .ok r) ↔
          ∀ p ∈ keys, p ≠ [] ∧ (lookup p (.node kids)).isSome = true := by
        rw [hgr]
        constructor
        · intro h p hp
          refine ⟨hne p hp, ?_⟩
          obtain ⟨k, sub, rfl, hs⟩ := hheads p hp
          cases hdk : dget k kids with
          | none => rw [hdk] at hs; simp at hs
          | some v =>
            rw [lookup_cons_node, hdk]
            cases sub with
            | nil => simp [lookup]
            | cons s1 s2 =>
              -- a group exists for `k`
              have hmemt : (s1 :: s2) ∈ tailsOf k keys := mem_tailsOf_iff.mpr ⟨by simp, hp⟩
              have hlk : lookupG k G = tailsOf k keys := by
                have h2 := hb k
                simpa [lookupG, hdk] using h2
              have hkG : k ∈ G.map (·.1) := by
                by_cases hc : k ∈ G.map (·.1)
                · exact hc
                · rw [lookupG_absent k G hc] at hlk; rw [← hlk] at hmemt; simp at hmemt
              obtain ⟨⟨k0, l⟩, hm, hk0⟩ := List.mem_map.mp hkG
              simp only at hk0; subst hk0
              have hl := hgrp k0 l hm (by simp [hdk])
              have hsrc0 : dget k0 src0 = some v := by
                have := ha k0
                simp only [dget] at this
                have hh : k0 ∈ headsOf keys := mem_headsOf_iff.mpr ⟨_, hp⟩
                simp [hh, hdk] at this; exact this
              obtain ⟨c, hc⟩ := h k0 l v hm hsrc0
              cases v with
              | leaf nt x => rw [selectF_leaf] at hc; simp at hc
              | node vk =>
                have hlen : ∀ q ∈ l, q.length ≤ m := by
                  intro q hq
                  rw [hl] at hq
                  have := hk (k0 :: q) (mem_tailsOf_iff.mp hq).2
                  simp at this; omega
                have := (ih l vk hlen).mp ⟨c, hc⟩ (s1 :: s2) (by rw [hl]; exact hmemt)
                simpa using this.2
        · intro h k l child hm hsc
          have hdk := hsrc k child hsc
          have hl := hgrp k l hm (by simp [hdk])
          have hlne : l ≠ [] := hGne (k, l) hm
          have hbound : ∀ q ∈ l, q ≠ [] ∧ (lookup q child).isSome = true := by
            intro q hq
            rw [hl] at hq
            obtain ⟨hq1, hq2⟩ := mem_tailsOf_iff.mp hq
            refine ⟨hq1, ?_⟩
            have := (h (k :: q) hq2).2
            rw [lookup_cons_node, hdk] at this
            simpa using this
          cases child with
          | leaf nt x =>
            exfalso
            obtain ⟨q, hq⟩ := List.exists_mem_of_ne_nil l hlne
            obtain ⟨hq1, hq2⟩ := hbound q hq
            cases q with
            | nil => exact hq1 rfl
            | cons a b => simp [lookup] at hq2
          | node ck =>
            have hlen : ∀ q ∈ l, q.length ≤ m := by
              intro q hq
              rw [hl] at hq
              have := hk (k :: q) (mem_tailsOf_iff.mp hq).2
              simp at this; omega
            exact (ih l ck hlen).mpr hbound
      rw [← key]
      cases hg : selectGroups (selectF (m + 1)) true false whole G kids src0 with
      | mk cur R =>
        cases R with
        | error e => simp
        | ok srcF => simp

end TdVerif.C04
