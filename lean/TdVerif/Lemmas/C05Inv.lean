/-
  C05 — the lock-graph invariant is preserved by `lock_`, `unlock_` (both outcomes), `memmap_`,
  `share_memory_`, construction, garbage collection and every mutator the lock lets through.
-/
import TdVerif.Lemmas.C05Unlock

namespace TdVerif.C05

/-- below a live locked container everything is alive and locked -/
theorem closed_reach {h : Heap} (hinv : Inv h) {r : Nat} (hl : live h r = true) (hf : flagged h r = true) :
    ∀ n, Reach h r n → live h n = true ∧ flagged h n = true := by
  intro n hr
  induction hr with
  | refl => exact ⟨hl, hf⟩
  | step _ hc ih => exact ⟨hinv.kidsAlive _ _ ih.1 hc, (hinv.closed _ _ ih.1 ih.2 hc).1⟩

theorem not_reach_of_ge {h : Heap} (o : Ordered h) {i k : Nat} (hik : i < k) : ¬ Reach h i k :=
  fun r => by have := r.le o; omega

theorem Ue.parentsOf_eq {h h' : Heap} (u : Ue h h') (m x : Nat) : x ∈ parentsOf h' m ↔ x ∈ parentsOf h m :=
  ⟨parentsOfF_mem_congr h' h u.1.symm x (fun k hk => by rw [← u.2.1 k]; exact hk) (m + 1) m,
   parentsOfF_mem_congr h h' u.1 x (fun k hk => by rw [u.2.1 k]; exact hk) (m + 1) m⟩

/-! ### `lock_` -/

theorem inv_propLock_root {h : Heap} (hinv : Inv h) {i : Nat} (hi : i < h.size) :
    Inv (propLockF (i + 1) h none i) := by
  have le := propLockF_le (i + 1) h none i
  have post := propLockF_post (i + 1) h none i hinv.ordered hinv.nonEmptyLazy (by omega) (by simp)
  refine ⟨le.1.ordered hinv.ordered, le.1.kidsAlive hinv.kidsAlive, le.1.nonEmptyLazy hinv.nonEmptyLazy, ?_, ?_⟩
  · intro k hk
    rw [le.1.1] at hk
    rw [propLockF_frame _ _ _ _ _ (not_reach_of_ge hinv.ordered (by omega))]
    exact hinv.bounded k hk
  · intro p j hl hf hj
    rw [le.1.kidIds] at hj
    rw [le.1.live] at hl
    rcases propLockF_flagged_inv _ _ _ _ _ hf with hf0 | hr
    · obtain ⟨a, b⟩ := hinv.closed p j hl hf0 hj
      exact ⟨le.flagged j a, le.parentsOf j p b⟩
    · exact ⟨(post.2.2 j (hr.trans (Reach.kid hj))).1, (post.2.2 p hr).2 j hj⟩

theorem inv_lockEv {h : Heap} (hinv : Inv h) {i : Nat} (hi : i < h.size) : Inv (lockEv h i).1 := by
  unfold lockEv
  split
  · exact hinv
  · exact inv_propLock_root hinv hi

/-! ### `unlock_` -/

/-- the intermediate heaps of `unlock_` and what is known about them -/
structure UnlockFacts (h : Heap) (i : Nat) (h1 h2 : Heap) (subs : List Nat) (b : Bool) : Prop where
  ue : Ue h h1
  ce : Ce h1 h2
  frame1 : ∀ m, ¬ Reach h i m → h1.node m = h.node m
  frame2 : ∀ m, ¬ Reach h i m → h2.node m = h.node m
  cleared : ∀ m, Reach h i m → (h2.node m).flag = unflagVal (h2.node m)
  ok_iff : b = true ↔ ∀ m, m ∈ subs ++ [i] → hasLockedParent h1 m = false
  listed : ∀ m, Reach h i m → m ∈ subs ++ [i]
  sound : ∀ m, m ∈ subs ++ [i] → Reach h i m

theorem unlock_facts {h : Heap} (o : Ordered h) (i : Nat) :
    UnlockFacts h i (propUnlockF (i + 1) h i).1
      (checkAll (propUnlockF (i + 1) h i).1 ((propUnlockF (i + 1) h i).2 ++ [i])).1
      (propUnlockF (i + 1) h i).2
      (checkAll (propUnlockF (i + 1) h i).1 ((propUnlockF (i + 1) h i).2 ++ [i])).2 := by
  have ue := propUnlockF_ue (i + 1) h i
  have fr := propUnlockF_frame (i + 1) h i
  obtain ⟨c1, c2⟩ := propUnlockF_complete (i + 1) h i o (by omega)
  have snd := propUnlockF_subs_sound (i + 1) h i
  obtain ⟨ce, okiff, cfr⟩ := checkAll_spec ((propUnlockF (i + 1) h i).2 ++ [i]) (propUnlockF (i + 1) h i).1
  refine ⟨ue, ce, fr, fun m hm => ?_, fun m hm => ?_, okiff, fun m hm => ?_, fun m hmem => ?_⟩
  · rw [cfr m, fr m hm]
    intro hmem
    rcases List.mem_append.mp hmem with hmem | hmem
    · obtain ⟨j, hj, r⟩ := snd m hmem
      exact hm ((Reach.kid hj).trans r)
    · simp at hmem; exact hm (hmem ▸ Reach.refl _)
  · rw [ce.2.1 m, c1 m hm]
    unfold unflagVal
    rw [ce.1.lazy, ue.1.lazy]
  · by_cases hmi : m = i
    · simp [hmi]
    · exact List.mem_append_left _ (c2 m hm hmi)
  · rcases List.mem_append.mp hmem with hmem | hmem
    · obtain ⟨j, hj, r⟩ := snd m hmem
      exact (Reach.kid hj).trans r
    · simp at hmem; exact hmem ▸ Reach.refl _

theorem unlockEv_ok (h : Heap) (i : Nat) (h2 : Heap)
    (hck : checkAll (propUnlockF (i + 1) h i).1 ((propUnlockF (i + 1) h i).2 ++ [i]) = (h2, true)) :
    unlockEv h i = (h2, .ok) := by
  unfold unlockEv; simp only [hck]
theorem unlockEv_fail (h : Heap) (i : Nat) (h2 : Heap)
    (hck : checkAll (propUnlockF (i + 1) h i).1 ((propUnlockF (i + 1) h i).2 ++ [i]) = (h2, false)) :
    unlockEv h i = ((lockEv h2 i).1, .errLock) := by
  unfold unlockEv; simp only [hck]

/-- shape, order and bounds survive `unlock_`'s bookkeeping -/
theorem unlock_shape {h : Heap} (hinv : Inv h) {i : Nat} (hi : i < h.size) {h1 h2 : Heap} {subs : List Nat} {b : Bool}
    (f : UnlockFacts h i h1 h2 subs b) :
    SameShape h h2 ∧ Ordered h2 ∧ KidsAlive h2 ∧ NonEmptyLazy h2 ∧ Bounded h2 := by
  have s : SameShape h h2 := f.ue.1.trans f.ce.1
  refine ⟨s, s.ordered hinv.ordered, s.kidsAlive hinv.kidsAlive, s.nonEmptyLazy hinv.nonEmptyLazy, ?_⟩
  intro k hk
  rw [s.1] at hk
  rw [f.frame2 k (not_reach_of_ge hinv.ordered (by omega))]
  exact hinv.bounded k hk

/-- a live locked container outside the subtree being unlocked keeps its hold on its entries -/
theorem unlock_outside {h : Heap} (hinv : Inv h) {i : Nat} {h1 h2 : Heap} {subs : List Nat} {b : Bool}
    (f : UnlockFacts h i h1 h2 subs b) {p j : Nat} (hl : live h2 p = true) (hf : flagged h2 p = true)
    (hj : j ∈ kidIds h p) :
    ¬ Reach h i p ∧ live h p = true ∧ flagged h p = true ∧ flagged h j = true ∧
      hasLockedParent h1 j = true ∧ p ∈ parentsOf h2 j := by
  have s12 := f.ue.1.trans f.ce.1
  have hf1 : flagged h1 p = true := by rw [← f.ce.flagged]; exact hf
  have hnr : ¬ Reach h i p := by
    intro r
    have := f.cleared p r
    rw [flagged_iff] at hf
    rw [hf] at this
    unfold unflagVal at this
    split at this <;> cases this
  have hl0 : live h p = true := by rw [← s12.live]; exact hl
  have hf0 : flagged h p = true := by unfold flagged at hf1 ⊢; rw [← f.frame1 p hnr]; exact hf1
  obtain ⟨a, bb⟩ := hinv.closed p j hl0 hf0 hj
  have hl1 : live h1 p = true := by rw [f.ue.1.live]; exact hl0
  have hp1 : p ∈ parentsOf h1 j := (f.ue.parentsOf_eq j p).mpr bb
  refine ⟨hnr, hl0, hf0, a, ?_, f.ce.2.2.2 j p hl1 hf1 hp1⟩
  unfold hasLockedParent
  rw [List.any_eq_true]
  exact ⟨p, hp1, by simp [hl1, hf1]⟩

theorem inv_unlockEv {h : Heap} (hinv : Inv h) {i : Nat} (hi : i < h.size) : Inv (unlockEv h i).1 := by
  have f := unlock_facts hinv.ordered i
  obtain ⟨s, o2, ka2, ne2, bd2⟩ := unlock_shape hinv hi f
  unfold unlockEv
  generalize hh1 : (propUnlockF (i + 1) h i).1 = h1 at f
  generalize hsubs : (propUnlockF (i + 1) h i).2 = subs at f
  simp only [hh1, hsubs] at *
  rcases hck : checkAll h1 (subs ++ [i]) with ⟨h2, b⟩
  rw [hck] at f s o2 ka2 ne2 bd2
  simp only at f s o2 ka2 ne2 bd2
  cases b with
  | true =>
    simp only
    refine ⟨o2, ka2, ne2, bd2, ?_⟩
    intro p j hl hf hj
    rw [s.kidIds] at hj
    obtain ⟨hnr, hl0, hf0, fj, hlp, hpj⟩ := unlock_outside hinv f hl hf hj
    refine ⟨?_, hpj⟩
    have hnj : ¬ Reach h i j := by
      intro r
      have := (f.ok_iff.mp rfl) j (f.listed j r)
      rw [hlp] at this; cases this
    unfold flagged at fj ⊢
    rw [f.frame2 j hnj]; exact fj
  | false =>
    simp only
    have hnl : isLocked h2 i = false :=
      isLocked_false_of_cleared h2 o2 i (fun m hm => f.cleared m (s.symm.reach hm)) (i + 1) i (by omega) (Reach.refl i)
    have e : (lockEv h2 i).1 = propLockF (i + 1) h2 none i := by simp [lockEv, hnl]
    rw [e]
    have le := propLockF_le (i + 1) h2 none i
    have post := propLockF_post (i + 1) h2 none i o2 ne2 (by omega) (by simp)
    refine ⟨le.1.ordered o2, le.1.kidsAlive ka2, le.1.nonEmptyLazy ne2, ?_, ?_⟩
    · intro k hk
      rw [le.1.1, s.1] at hk
      rw [propLockF_frame _ _ _ _ _ (not_reach_of_ge o2 (by omega))]
      exact bd2 k (by rw [s.1]; exact hk)
    · intro p j hl hf hj
      rw [le.1.kidIds] at hj
      rw [le.1.live] at hl
      rcases propLockF_flagged_inv _ _ _ _ _ hf with hf2 | hr
      · have hj0 : j ∈ kidIds h p := by rw [← s.kidIds]; exact hj
        obtain ⟨hnr, hl0, hf0, fj, hlp, hpj⟩ := unlock_outside hinv f hl hf2 hj0
        refine ⟨?_, le.parentsOf j p hpj⟩
        by_cases rj : Reach h2 i j
        · exact (post.2.2 j rj).1
        · unfold flagged at fj ⊢
          rw [propLockF_frame _ _ _ _ _ rj, f.frame2 j (fun r => rj (s.reach r))]; exact fj
      · exact ⟨(post.2.2 j (hr.trans (Reach.kid hj))).1, (post.2.2 p hr).2 j hj⟩

end TdVerif.C05
