/-
  C01 — update(tensordict, update_batch_size=True): wherever it stops, the receiver is coherent again.

  Between the moment a nested tensordict is given the batch size of the payload and the final adjustment of the level above,
  the tree is NOT coherent; the proof follows it through a weaker invariant (`Weak`: entries coherent one by one and on the
  device of their container, without any claim on their leading dims) and shows that the adjustment
  (`batch_size = (); auto_batch_size_(batch_dims)`) — at the end of the loop or in the exception handler — restores coherence.
-/
import TdVerif.Lemmas.C01
import TdVerif.Lemmas.C01Lazy

namespace TdVerif.C01

/-- entries coherent one by one and on the container's device — no claim on their leading dims -/
def WeakK (dv : Option Nat) (kids : Kids) : Prop := ∀ k c, (k, c) ∈ kids → Coherent c ∧ DevOk dv c

def Weak : M → Prop
  | .leaf .. => True
  | .node bs dv ns kids => (∀ l, ns = some l → l.length = bs.length) ∧ WeakK dv kids

theorem weak_of_coherent {t : M} (h : Coherent t) : Weak t := by
  cases t with
  | leaf s d => trivial
  | node bs dv ns kids => exact ⟨h.names_len, fun k c hm => ⟨h.kid_coh k c hm, (h.kid_fits k c hm).2⟩⟩

theorem weakK_of_rel {dv : Option Nat} {kids kids' : Kids} (hr : KidsRel kids kids') (h : WeakK dv kids) : WeakK dv kids' := by
  intro k c' hm
  obtain ⟨c, hc, hle⟩ := hr k c' hm
  have := h k c hc
  exact ⟨hle.2.2 this.1, fun d hd => by rw [hle.2.1]; exact this.2 d hd⟩

theorem weakK_kset {dv : Option Nat} {kids : Kids} (h : WeakK dv kids) (k : String) {c : M} (hc : Coherent c) (hd : DevOk dv c) :
    WeakK dv (kset k c kids) := by
  intro k' c' hm
  rcases mem_kset hm with h1 | ⟨_, rfl⟩
  · exact h k' c' h1
  · exact ⟨hc, hd⟩

/-- the names setter on a weak node: still weak, same batch size and device -/
theorem setNamesM_weak (value : Option DimNames) (bs : Shape) (dv : Option Nat) (ns : Option DimNames) (kids : Kids)
    (hw : Weak (.node bs dv ns kids)) :
    ∃ ns' kids', (setNamesM value (.node bs dv ns kids)).1 = .node bs dv ns' kids' ∧ Weak (.node bs dv ns' kids') := by
  obtain ⟨hn, hk⟩ := hw
  cases value with
  | none => exact ⟨none, eraseSub kids, by simp [setNamesM], ⟨by simp, weakK_of_rel (eraseSub_rel kids) hk⟩⟩
  | some v =>
    simp only [setNamesM]
    cases hchk : namesCheck v bs.length with
    | erase => exact ⟨none, eraseSub kids, rfl, ⟨by simp, weakK_of_rel (eraseSub_rel kids) hk⟩⟩
    | bad => exact ⟨ns, kids, rfl, ⟨hn, hk⟩⟩
    | good =>
      simp only []
      have hrel := renameSub_rel v kids
      cases hr : renameSub v kids with
      | mk kids' o =>
        rw [hr] at hrel
        cases o with
        | err e => exact ⟨ns, kids', rfl, ⟨hn, weakK_of_rel hrel hk⟩⟩
        | ok =>
          refine ⟨some v, kids', rfl, ⟨?_, weakK_of_rel hrel hk⟩⟩
          intro l hl; simp at hl; subst hl; exact namesCheck_good_len hchk

theorem valNames_weak (bs : Shape) (dev : Option Nat) (names : Option DimNames) (kids : Kids) (v2 : M)
    (hw : Weak (.node bs dev names kids)) (hv : Coherent v2) (hd : DevOk dev v2) :
    let r := valNames bs dev names kids v2
    Weak (.node bs dev r.1 r.2.1) ∧ (∀ v', r.2.2 = .ok v' → Coherent v' ∧ DevOk dev v') := by
  intro r
  have keep : ∀ v' : M, MetaLe v2 v' → Coherent v' ∧ DevOk dev v' := by
    intro v' ⟨_, hd', hco⟩
    exact ⟨hco hv, fun d hdd => by rw [hd']; exact hd d hdd⟩
  by_cases hcond : bs ≠ [] ∧ v2.isNode = true
  · cases names with
    | some ns =>
      by_cases hne : v2.namesList.take bs.length ≠ ns
      · by_cases hr : (!refineOk ns v2.namesList) = true
        · have : r = (some ns, kids, .error .runtime) := by simp [r, valNames, hcond, hne, hr]
          rw [this]; exact ⟨hw, by simp⟩
        · have hm := setNamesM_metaLe (some ns) v2
          cases hs : setNamesM (some ns) v2 with
          | mk v3 o =>
            rw [hs] at hm
            cases o with
            | ok =>
              have : r = (some ns, kids, .ok v3) := by simp [r, valNames, hcond, hne, hr, hs]
              rw [this]; refine ⟨hw, fun v' hv' => ?_⟩
              simp at hv'; subst hv'; exact keep _ hm
            | err e =>
              have : r = (some ns, kids, .error e) := by simp [r, valNames, hcond, hne, hr, hs]
              rw [this]; exact ⟨hw, by simp⟩
      · have : r = (some ns, kids, .ok v2) := by simp [r, valNames, hcond, hne]
        rw [this]; refine ⟨hw, fun v' hv' => ?_⟩
        simp at hv'; subst hv'; exact ⟨hv, hd⟩
    | none =>
      by_cases hn : v2.hasNames = true
      · obtain ⟨ns', kids', hs1, hw'⟩ := setNamesM_weak (some (v2.namesList.take bs.length)) bs dev none kids hw
        cases hs : setNamesM (some (v2.namesList.take bs.length)) (.node bs dev none kids) with
        | mk t' o =>
          rw [hs] at hs1
          simp only at hs1
          subst hs1
          cases o with
          | ok =>
            have : r = (ns', kids', .ok v2) := by simp [r, valNames, hcond, hn, hs]
            rw [this]; refine ⟨hw', fun v' hv' => ?_⟩
            simp at hv'; subst hv'; exact ⟨hv, hd⟩
          | err e =>
            have : r = (ns', kids', .error e) := by simp [r, valNames, hcond, hn, hs]
            rw [this]; exact ⟨hw', by simp⟩
      · have : r = (none, kids, .ok v2) := by simp [r, valNames, hcond, hn]
        rw [this]; refine ⟨hw, fun v' hv' => ?_⟩
        simp at hv'; subst hv'; exact ⟨hv, hd⟩
  · have : r = (names, kids, .ok v2) := by simp only [r, valNames]; rw [if_neg hcond]
    rw [this]; refine ⟨hw, fun v' hv' => ?_⟩
    simp at hv'; subst hv'; exact ⟨hv, hd⟩

theorem validate_weak (bs : Shape) (dv : Option Nat) (names : Option DimNames) (kids : Kids) (value : M)
    (hw : Weak (.node bs dv names kids)) (hv : Coherent value) :
    let r := validate bs dv names kids value
    Weak (.node bs dv r.1 r.2.1) ∧ (∀ v', r.2.2 = .ok v' → Coherent v' ∧ DevOk dv v') := by
  intro r
  cases h1 : valShape bs value with
  | error e => have : r = (names, kids, .error e) := by simp [r, validate, h1]
               rw [this]; exact ⟨hw, by simp⟩
  | ok v1 =>
    obtain ⟨_, hc1⟩ := valShape_spec bs value v1 hv h1
    cases h2 : valDev dv v1 with
    | error e => have : r = (names, kids, .error e) := by simp [r, validate, h1, h2]
                 rw [this]; exact ⟨hw, by simp⟩
    | ok v2 =>
      obtain ⟨_, hd2, hc2⟩ := valDev_spec dv v1 v2 hc1 h2
      have : r = valNames bs dv names kids v2 := by simp [r, validate, h1, h2]
      rw [this]
      exact valNames_weak bs dv names kids v2 hw hc2 hd2

/-- `set(k, value)` (not validated) on a weak node: still weak, same batch size and device, whatever the outcome -/
theorem setPath1_weak (k : String) (v : M) (bs : Shape) (dv : Option Nat) (ns : Option DimNames) (kids : Kids)
    (hw : Weak (.node bs dv ns kids)) (hv : Coherent v) :
    ∃ ns' kids', (setPath false [k] v (.node bs dv ns kids)).1 = .node bs dv ns' kids' ∧ Weak (.node bs dv ns' kids') := by
  have h := validate_weak bs dv ns kids v hw hv
  simp only at h
  simp only [setPath]
  cases hval : validate bs dv ns kids v with
  | mk ns' rest =>
    obtain ⟨kids', res⟩ := rest
    rw [hval] at h
    cases res with
    | error e => exact ⟨ns', kids', rfl, h.1⟩
    | ok v' =>
      have hv' := h.2 v' rfl
      exact ⟨ns', kset k v' kids', rfl, ⟨h.1.1, weakK_kset h.1.2 k hv'.1 hv'.2⟩⟩

/-! ### node-ness is preserved -/

theorem restoreOnErr_isNode (o : M) (r : M × Out) (ho : o.isNode = true) (hr : r.1.isNode = true) : (restoreOnErr o r).1.isNode = true := by
  unfold restoreOnErr; split <;> assumption

theorem finishResize_isNode (new bs dv names grown) : (finishResize new bs dv names grown).1.isNode = true := by
  obtain ⟨kids', o⟩ := grown
  cases o with
  | err e => simp [finishResize, M.isNode]
  | ok =>
    cases names with
    | none => simp [finishResize, M.isNode]
    | some l => simp only [finishResize]; exact setNamesM_isNode _ _ rfl

theorem setBatchM_isNode (new : Shape) (t : M) (h : t.isNode = true) : (setBatchM new t).1.isNode = true := by
  cases t with
  | leaf s d => simp [M.isNode] at h
  | node bs dv ns kids =>
    simp only [setBatchM]
    split
    · rfl
    · exact restoreOnErr_isNode _ _ rfl (finishResize_isNode _ _ _ _ _)

theorem autoFinish_isNode (bd : Option Nat) (t : M) (h : t.isNode = true) : (autoFinish bd t).1.isNode = true := by
  cases t with
  | leaf s d => simp [M.isNode] at h
  | node bs dv ns kids =>
    cases kids with
    | nil =>
      cases bd with
      | none => simp [autoFinish, M.isNode]
      | some n =>
        simp only [autoFinish]
        split
        · rfl
        · exact setBatchM_isNode _ _ rfl
    | cons kv r =>
      obtain ⟨k, first⟩ := kv
      simp only [autoFinish]
      exact setBatchM_isNode _ _ rfl

theorem autoBatchM_isNode (bd : Option Nat) (t : M) (h : t.isNode = true) : (autoBatchM bd t).1.isNode = true := by
  cases t with
  | leaf s d => simp [M.isNode] at h
  | node bs dv ns kids =>
    simp only [autoBatchM]
    apply restoreOnErr_isNode _ _ rfl
    cases hak : autoKids bd kids with
    | mk kids' o =>
      cases o with
      | err e => rfl
      | ok => exact autoFinish_isNode bd _ rfl

/-! ### the adjustment `batch_size = (); auto_batch_size_(batch_dims)` -/

theorem growKids_nil (kids : Kids) : growKids [] kids = (kids, .ok) := by
  induction kids with
  | nil => simp [growKids]
  | cons kv r ih =>
    obtain ⟨k, c⟩ := kv
    cases c with
    | leaf s d => simp [growKids, ih]
    | node cbs cdv cn sub => simp [growKids, takeEq_nil, ih]

/-- `td.batch_size = ()` is never refused; the entries keep their batch sizes and devices -/
theorem setBatchM_nil (bs : Shape) (dv : Option Nat) (ns : Option DimNames) (kids : Kids) :
    ∃ kids', setBatchM [] (.node bs dv ns kids) = (.node [] dv none kids', .ok) ∧ KidsRel kids kids' := by
  have hchk : checkNewBs [] kids = true := checkNewBs_of_prefix [] kids (fun k c _ => Or.inr (takeEq_nil _))
  cases ns with
  | none => exact ⟨kids, by simp [setBatchM, hchk, growKids_nil, finishResize, restoreOnErr], KidsRel.refl _⟩
  | some l =>
    refine ⟨eraseSub kids, ?_, eraseSub_rel kids⟩
    simp [setBatchM, hchk, growKids_nil, finishResize, restoreOnErr, namesAfterResize, setNamesM, namesCheck, countNone]

theorem fixupBs_spec (bs : Shape) (dv : Option Nat) (ns : Option DimNames) (kids : Kids) (hw : Weak (.node bs dv ns kids)) :
    Coherent (fixupBs (.node bs dv ns kids)).1 ∧ (∀ d, (fixupBs (.node bs dv ns kids)).1.onDev d = (dv == some d)) ∧
    (fixupBs (.node bs dv ns kids)).1.isNode = true := by
  obtain ⟨kids', he, hrel⟩ := setBatchM_nil bs dv ns kids
  have hk' := weakK_of_rel hrel hw.2
  have hc1 : Coherent (.node [] dv none kids') :=
    Coherent.node _ _ _ _ (by simp) (fun k c hm => ⟨takeEq_nil _, (hk' k c hm).2⟩) (fun k c hm => (hk' k c hm).1)
  have hk := autoBatchM_keeps (some bs.length) _ hc1
  simp only [fixupBs, he]
  exact ⟨hk.1, fun d => by rw [hk.2]; rfl, autoBatchM_isNode _ _ rfl⟩

/-- a nested tensordict that is not "off" extends the batch size -/
theorem takeEq_of_not_off (bs : Shape) (c : M) (hn : c.isNode = true) (h : childOff bs c = false) : takeEq c.shape bs = true := by
  cases c with
  | leaf s d => simp [M.isNode] at hn
  | node cbs cdv cn sub => simpa [childOff, takeEq, M.shape] using h

theorem handlerBs_spec (changed : Bool) (bs : Shape) (dv : Option Nat) (ns : Option DimNames) (kids : Kids)
    (hw : Weak (.node bs dv ns kids))
    (hcoh : changed = false → kids.any (fun kv => childOff bs kv.2) = false → Coherent (.node bs dv ns kids)) :
    Coherent (handlerBs changed (.node bs dv ns kids)) ∧ (∀ d, (handlerBs changed (.node bs dv ns kids)).onDev d = (dv == some d)) ∧
    (handlerBs changed (.node bs dv ns kids)).isNode = true := by
  simp only [handlerBs]
  split
  · exact fixupBs_spec bs dv ns kids hw
  · rename_i hcond
    simp only [Bool.or_eq_true, not_or, Bool.not_eq_true] at hcond
    exact ⟨hcoh hcond.1 hcond.2, fun d => rfl, rfl⟩

/-! ### the mismatching-batch-size head -/

theorem setBatchM_res (new bs : Shape) (dv : Option Nat) (ns : Option DimNames) (kids : Kids) (hc : Coherent (.node bs dv ns kids)) :
    Coherent (setBatchM new (.node bs dv ns kids)).1 ∧ (∀ d, (setBatchM new (.node bs dv ns kids)).1.onDev d = (dv == some d)) ∧
    (setBatchM new (.node bs dv ns kids)).1.isNode = true := by
  have h := setBatchM_spec new bs dv ns kids hc
  simp only at h
  refine ⟨h.2.2.2, fun d => ?_, setBatchM_isNode _ _ rfl⟩
  cases ho : (setBatchM new (.node bs dv ns kids)).2 with
  | ok => exact (h.2.2.1 ho).2.2 d
  | err e => rw [h.2.1 (by rw [ho]; simp)]; rfl

theorem prepBs_spec (vbs : Shape) (vkeys : List Path) (bs : Shape) (dv : Option Nat) (ns : Option DimNames) (kids : Kids)
    (hc : Coherent (.node bs dv ns kids)) :
    Coherent (prepBs vbs vkeys (.node bs dv ns kids)).1 ∧ (∀ d, (prepBs vbs vkeys (.node bs dv ns kids)).1.onDev d = (dv == some d)) ∧
    (prepBs vbs vkeys (.node bs dv ns kids)).1.isNode = true := by
  simp only [prepBs]
  split
  · exact ⟨hc, fun d => rfl, rfl⟩
  · obtain ⟨kids', he, hrel⟩ := setBatchM_nil bs dv ns kids
    have hk' := weakK_of_rel hrel (weak_of_coherent hc).2
    have hc1 : Coherent (.node [] dv none kids') :=
      Coherent.node _ _ _ _ (by simp) (fun k c hm => ⟨takeEq_nil _, (hk' k c hm).2⟩) (fun k c hm => (hk' k c hm).1)
    rw [he]
    simp only [excludeM]
    have hc2 := (excludeM_spec ((leavesM kids' []).map (·.1)) _ hc1).2.2
    simp only [excludeM] at hc2
    exact setBatchM_res vbs [] dv none _ hc2

theorem prepIf_spec (vbs : Shape) (vkeys : List Path) (bs : Shape) (dv : Option Nat) (ns : Option DimNames) (kids : Kids)
    (hc : Coherent (.node bs dv ns kids)) :
    Coherent (prepIf vbs vkeys (.node bs dv ns kids)).1 ∧ (∀ d, (prepIf vbs vkeys (.node bs dv ns kids)).1.onDev d = (dv == some d)) ∧
    (prepIf vbs vkeys (.node bs dv ns kids)).1.isNode = true := by
  simp only [prepIf]
  split
  · exact prepBs_spec vbs vkeys bs dv ns kids hc
  · exact ⟨hc, fun d => rfl, rfl⟩

/-! ### the loop -/

/-- what every stage delivers: a coherent tensordict on the same device -/
def Res (t t' : M) : Prop := Coherent t' ∧ (∀ d, t'.onDev d = t.onDev d) ∧ t'.isNode = true

theorem Res.of_node {bs dv ns kids ns' kids'} {x : M} (h : Res (.node bs dv ns' kids') x) : Res (.node bs dv ns kids) x :=
  ⟨h.1, fun d => by rw [h.2.1]; rfl, h.2.2⟩

theorem setPath1_step (k : String) (v : M) (bs : Shape) (dv : Option Nat) (ns : Option DimNames) (kids : Kids) (changed : Bool)
    (hw : Weak (.node bs dv ns kids)) (hcoh : changed = false → Coherent (.node bs dv ns kids)) (hv : Coherent v) :
    ∃ ns' kids', (setPath false [k] v (.node bs dv ns kids)).1 = .node bs dv ns' kids' ∧ Weak (.node bs dv ns' kids') ∧
      (changed = false → Coherent (.node bs dv ns' kids')) := by
  obtain ⟨ns', kids', he, hw'⟩ := setPath1_weak k v bs dv ns kids hw hv
  refine ⟨ns', kids', he, hw', fun h => ?_⟩
  have := (setPath_false_spec [k] v _ (hcoh h) hv).2.2
  rw [he] at this; exact this

theorem child_step {bs : Shape} {dv : Option Nat} {ns : Option DimNames} {kids : Kids} {k : String} {tgt c : M}
    (hw : Weak (.node bs dv ns kids)) (hm : (k, tgt) ∈ kids) (hres : Res tgt c) :
    Weak (.node bs dv ns (kset k c kids)) ∧
    (Coherent (.node bs dv ns kids) → childOff bs c = false → Coherent (.node bs dv ns (kset k c kids))) := by
  have hdev : DevOk dv c := fun d hd => by rw [hres.2.1]; exact (hw.2 k tgt hm).2 d hd
  refine ⟨⟨hw.1, weakK_kset hw.2 k hres.1 hdev⟩, fun hc hoff => ?_⟩
  exact hc.kset k ⟨takeEq_of_not_off bs c hres.2.2 hoff, hdev⟩ hres.1

theorem handler_child {bs : Shape} {dv : Option Nat} {ns : Option DimNames} {kids : Kids} {k : String} {tgt c : M} (changed : Bool)
    (hw : Weak (.node bs dv ns kids)) (hcoh : changed = false → Coherent (.node bs dv ns kids)) (hm : (k, tgt) ∈ kids) (hres : Res tgt c) :
    Res (.node bs dv ns kids) (handlerBs changed (.node bs dv ns (kset k c kids))) := by
  obtain ⟨hw', hc'⟩ := child_step hw hm hres
  have := handlerBs_spec changed bs dv ns (kset k c kids) hw' (fun h hany => by
    refine hc' (hcoh h) ?_
    rw [List.any_eq_false] at hany
    have hmem : (k, c) ∈ kset k c kids := kget_mem (kget_kset_same k c kids)
    simpa using hany (k, c) hmem)
  exact ⟨this.1, fun d => by rw [this.2.1]; rfl, this.2.2⟩

theorem updateBsK_spec (items : Kids) (changed : Bool) (t : M)
    (hn : t.isNode = true) (hw : Weak t) (hcoh : changed = false → Coherent t) (hv : ∀ k c, (k, c) ∈ items → Coherent c) :
    Res t (updateBsK items changed t).1 := by
  fun_induction updateBsK items changed t
  · rename_i t
    cases t with
    | leaf s d => simp [M.isNode] at hn
    | node bs dv ns kids =>
      have := fixupBs_spec bs dv ns kids hw
      exact ⟨this.1, fun d => by rw [this.2.1]; rfl, this.2.2⟩
  · rename_i changed t hch
    exact ⟨hcoh (by simpa using hch), fun d => rfl, hn⟩
  · simp [M.isNode] at hn
  · rename_i k s d rest changed bs dv ns kids c' e hs
    obtain ⟨ns', kids', he, hw', hc'⟩ := setPath1_step k (.leaf s d) bs dv ns kids changed hw hcoh (Coherent.leaf _ _)
    rw [hs] at he; simp only at he; subst he
    have := handlerBs_spec changed bs dv ns' kids' hw' (fun h _ => hc' h)
    exact ⟨this.1, fun d => by rw [this.2.1]; rfl, this.2.2⟩
  · rename_i k s d rest changed bs dv ns kids c' hs ih
    obtain ⟨ns', kids', he, hw', hc'⟩ := setPath1_step k (.leaf s d) bs dv ns kids changed hw hcoh (Coherent.leaf _ _)
    rw [hs] at he; simp only at he; subst he
    exact (ih rfl hw' hc' (fun k c h => hv k c (List.mem_cons_of_mem _ h))).of_node
  · rename_i k vbs vdv vns vsub rest changed bs dv ns kids cbs cdv cns csub hk c' e hp
    have hm := kget_mem hk
    have hp' := prepIf_spec vbs (allKeysM vsub []) cbs cdv cns csub (hw.2 k _ hm).1
    rw [hp] at hp'
    exact handler_child changed hw hcoh hm ⟨hp'.1, hp'.2.1, hp'.2.2⟩
  · rename_i k vbs vdv vns vsub rest changed bs dv ns kids cbs cdv cns csub hk c0 hp c' e hu ih
    have hm := kget_mem hk
    have hp' := prepIf_spec vbs (allKeysM vsub []) cbs cdv cns csub (hw.2 k _ hm).1
    rw [hp] at hp'
    have hvv := hv k (.node vbs vdv vns vsub) (by simp)
    have hr := ih hp'.2.2 (weak_of_coherent hp'.1) (fun _ => hp'.1) hvv.kid_coh
    rw [hu] at hr
    exact handler_child changed hw hcoh hm ⟨hr.1, fun d => by rw [hr.2.1, hp'.2.1]; rfl, hr.2.2⟩
  · rename_i k vbs vdv vns vsub rest changed bs dv ns kids cbs cdv cns csub hk c0 hp c' hu ih2 ih1
    have hm := kget_mem hk
    have hp' := prepIf_spec vbs (allKeysM vsub []) cbs cdv cns csub (hw.2 k _ hm).1
    rw [hp] at hp'
    have hvv := hv k (.node vbs vdv vns vsub) (by simp)
    have hr := ih2 hp'.2.2 (weak_of_coherent hp'.1) (fun _ => hp'.1) hvv.kid_coh
    rw [hu] at hr
    have hres : Res (.node cbs cdv cns csub) c' := ⟨hr.1, fun d => by rw [hr.2.1, hp'.2.1]; rfl, hr.2.2⟩
    obtain ⟨hw', hc'⟩ := child_step hw hm hres
    refine (ih1 rfl hw' (fun h => ?_) (fun k c h => hv k c (List.mem_cons_of_mem _ h))).of_node
    simp only [Bool.or_eq_false_iff] at h
    exact hc' (hcoh h.1) h.2
  · rename_i k vbs vdv vns vsub rest changed bs dv ns kids c' e hs hx
    obtain ⟨ns', kids', he, hw', hc'⟩ := setPath1_step k (.node vbs vdv vns vsub) bs dv ns kids changed hw hcoh (hv k _ (by simp))
    rw [hs] at he; simp only at he; subst he
    have := handlerBs_spec changed bs dv ns' kids' hw' (fun h _ => hc' h)
    exact ⟨this.1, fun d => by rw [this.2.1]; rfl, this.2.2⟩
  · rename_i k vbs vdv vns vsub rest changed bs dv ns kids c' hs hx ih
    obtain ⟨ns', kids', he, hw', hc'⟩ := setPath1_step k (.node vbs vdv vns vsub) bs dv ns kids changed hw hcoh (hv k _ (by simp))
    rw [hs] at he; simp only at he; subst he
    exact (ih rfl hw' hc' (fun k c h => hv k c (List.mem_cons_of_mem _ h))).of_node

/-- `td.update(payload, update_batch_size=True)`: wherever it stops — accepted, refused at the head, refused in the middle of
the entries, at any depth — the receiver is a coherent tensordict on the same device -/
theorem updateBsM_keeps (m n : M) (hm : Coherent m) (hc : Coherent n) :
    Coherent (updateBsM m n).1 ∧ ∀ d, (updateBsM m n).1.onDev d = n.onDev d := by
  cases n with
  | leaf s d => exact ⟨hc, fun _ => rfl⟩
  | node bs dv ns kids =>
    cases m with
    | leaf s d => exact ⟨hc, fun _ => rfl⟩
    | node vbs vdv vns vsub =>
      simp only [updateBsM]
      have hp := prepIf_spec vbs (allKeysM vsub []) bs dv ns kids hc
      cases hpe : prepIf vbs (allKeysM vsub []) (.node bs dv ns kids) with
      | mk c0 o =>
        rw [hpe] at hp
        cases o with
        | err e => exact ⟨hp.1, fun d => by rw [hp.2.1]; rfl⟩
        | ok =>
          have hr := updateBsK_spec vsub false c0 hp.2.2 (weak_of_coherent hp.1) (fun _ => hp.1) hm.kid_coh
          exact ⟨hr.1, fun d => by rw [hr.2.1, hp.2.1]; rfl⟩

end TdVerif.C01
