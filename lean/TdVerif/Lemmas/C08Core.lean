/-
  C08 — core lemmas: how an index on the stacked shape decomposes into
  (index on a member) + (item addressed to the stack dim) + (position of the result dims).
-/
import TdVerif.Model.C08Index

namespace TdVerif.C08

/-- clean structural rendering of what `_split_index` computes for an Ellipsis-free index
whose masks do not touch the stack dim -/
structure Split where
  out : List Ix          -- the index handed to every selected member
  item : Option Ix       -- the item addressed to the stack dim (none: index too short)
  pos : Nat              -- result position of the stack dim

def splitRec : Nat → List Ix → Split
  | sd, [] => ⟨[], none, sd⟩
  | sd, .none :: r => let s := splitRec sd r; ⟨.none :: s.out, s.item, s.pos + 1⟩
  | 0, it :: r => ⟨r, some it, 0⟩
  | sd + 1, .mask m :: r =>
      let s := splitRec (sd + 1 - m.shape.length) r
      ⟨.mask m :: s.out, s.item, s.pos + 1⟩
  | sd + 1, it :: r => let s := splitRec sd r; ⟨it :: s.out, s.item, s.pos + it.outRank⟩

/-- items are plain w.r.t. stack dim `sd`: no Ellipsis left, the item at the stack dim is
not a mask and no mask before it spans it -/
def Plain : Nat → List Ix → Prop
  | _, [] => True
  | sd, .none :: r => Plain sd r
  | 0, it :: _ => (match it with | .mask _ => False | .ell => False | _ => True)
  | sd + 1, .mask m :: r => 0 < m.shape.length ∧ m.shape.length ≤ sd + 1 ∧ Plain (sd + 1 - m.shape.length) r
  | _ + 1, .ell :: _ => False
  | sd + 1, _ :: r => Plain sd r

/-- like `Plain`, but the item addressed to the stack dim may also be a rank-1 mask -/
def PlainM : Nat → List Ix → Prop
  | _, [] => True
  | sd, .none :: r => PlainM sd r
  | 0, it :: _ => (match it with | .mask m => m.shape.length = 1 | .ell => False | _ => True)
  | sd + 1, .mask m :: r => 0 < m.shape.length ∧ m.shape.length ≤ sd + 1 ∧ PlainM (sd + 1 - m.shape.length) r
  | _ + 1, .ell :: _ => False
  | sd + 1, _ :: r => PlainM sd r

theorem Plain.toM : ∀ (ix : List Ix) (sd : Nat), Plain sd ix → PlainM sd ix
  | [], _, _ => trivial
  | .none :: r, sd, h => by simpa [PlainM, Plain] using Plain.toM r sd (by simpa [Plain] using h)
  | .int _ :: _, 0, _ => by simp [PlainM]
  | .slice .. :: _, 0, _ => by simp [PlainM]
  | .tens _ :: _, 0, _ => by simp [PlainM]
  | .mask _ :: _, 0, h => by simp [Plain] at h
  | .ell :: _, 0, h => by simp [Plain] at h
  | .int _ :: r, sd + 1, h => by simpa [PlainM, Plain] using Plain.toM r sd (by simpa [Plain] using h)
  | .slice .. :: r, sd + 1, h => by simpa [PlainM, Plain] using Plain.toM r sd (by simpa [Plain] using h)
  | .tens _ :: r, sd + 1, h => by simpa [PlainM, Plain] using Plain.toM r sd (by simpa [Plain] using h)
  | .ell :: _, sd + 1, h => by simp [Plain] at h
  | .mask m :: r, sd + 1, h => by
    simp only [Plain] at h
    exact ⟨h.1, h.2.1, Plain.toM r _ h.2.2⟩

/-- the output coordinate is long enough / small enough for the items to read it -/
def Fits : List Ix → List Nat → Prop
  | [], _ => True
  | .none :: r, c => Fits r c.tail
  | .ell :: _, _ => True
  | .int _ :: r, c => Fits r c
  | .slice .. :: r, c => Fits r c.tail
  | .tens t :: r, c => t.shape.length ≤ c.length ∧ Fits r (c.drop t.shape.length)
  | .mask m :: r, c => at0 c 0 < (nonzero m).length ∧ Fits r c.tail

/-- member chosen by the stack-dim item for the result coordinates `mid` it produced -/
def itemCoord : Ix → Nat → List Nat → Nat
  | .int i, n, _ => (normInt i n).getD 0
  | .slice a b c, n, mid => sliceAt (sliceNormD a b c n).1 (sliceNormD a b c n).2.1 (at0 mid 0)
  | .tens t, n, mid => (normInt (t.get mid) n).getD 0
  | .mask m, _, mid => at0 ((nonzero m)[at0 mid 0]?.getD []) 0    -- rank-1 mask: the `mid[0]`-th true position
  | _, _, _ => 0

theorem at0_cons_succ (x : Nat) (l : List Nat) (i : Nat) : at0 (x :: l) (i + 1) = at0 l i := by
  simp [at0]

theorem at0_cons_zero (x : Nat) (l : List Nat) : at0 (x :: l) 0 = x := by simp [at0]

theorem at0_nil (i : Nat) : at0 [] i = 0 := by simp [at0]

theorem sliceNormD_full (n : Nat) : sliceNormD none none none n = (0, 1, n) := by
  simp [sliceNormD, sliceNorm, SliceSpec.indices, SliceSpec.rangeLen]
  omega

theorem mem_allCoords_length : ∀ (sh : Shape) (x : List Nat), x ∈ allCoords sh → x.length = sh.length
  | [], x, h => by simp [allCoords] at h; simp [h]
  | d :: ds, x, h => by
    simp only [allCoords, List.mem_flatMap, List.mem_map] at h
    obtain ⟨i, _, y, hy, rfl⟩ := h
    simp [mem_allCoords_length ds y hy]

theorem nonzero_getD_length (m : T Bool) (k : Nat) (h : k < (nonzero m).length) :
    ((nonzero m)[k]?.getD []).length = m.shape.length := by
  have hm : (nonzero m)[k] ∈ nonzero m := List.getElem_mem h
  simp only [List.getElem?_eq_getElem h, Option.getD_some]
  exact mem_allCoords_length _ _ (List.mem_filter.mp hm).1


theorem drop_succ_add {β} (p k : Nat) (o : β) (c' : List β) :
    List.drop (p + 1 + k) (o :: c') = List.drop (p + k) c' := by
  rw [Nat.add_right_comm]; rfl

theorem take_drop_split {β} (c : List β) (k p q : Nat) (hk : k ≤ c.length) :
    (c.take (p + k) ++ c.drop (p + k + q)).take k = c.take k ∧
    (c.take (p + k) ++ c.drop (p + k + q)).drop k = (c.drop k).take p ++ (c.drop k).drop (p + q) := by
  have h1 : k ≤ (c.take (p + k)).length := by simp; omega
  constructor
  · rw [List.take_append_of_le_length h1, List.take_take]; congr 1; omega
  · rw [List.drop_append_of_le_length h1, List.drop_take, List.drop_drop]
    congr 2 <;> omega

theorem drop_insertIdx_of_le {β} (x : β) : ∀ (l : List β) (k i : Nat), k ≤ i → i ≤ l.length →
    (l.insertIdx i x).drop k = (l.drop k).insertIdx (i - k) x
  | l, 0, i, _, _ => by simp
  | [], k + 1, i + 1, _, h => by simp at h
  | a :: l, k + 1, i + 1, h, h' => by
    simp only [List.insertIdx_succ_cons, List.drop_succ_cons]
    rw [drop_insertIdx_of_le x l k i (by omega) (by simpa using h')]
    congr 1; omega

theorem at0_append_right (a l : List Nat) (i : Nat) (h : a.length ≤ i) :
    at0 (a ++ l) i = at0 l (i - a.length) := by
  simp [at0, List.getElem?_append_right h]

theorem coord_splitM (n : Nat) : ∀ (ix : List Ix) (sd : Nat) (sh : Shape) (c : List Nat),
    sd ≤ sh.length → PlainM sd ix → Fits ix c →
    at0 (idxCoord ix (sh.insertIdx sd n) c) sd
        = itemCoord ((splitRec sd ix).item.getD Ix.full) n
            ((c.drop (splitRec sd ix).pos).take ((splitRec sd ix).item.getD Ix.full).outRank)
    ∧ (idxCoord ix (sh.insertIdx sd n) c).eraseIdx sd
        = idxCoord (splitRec sd ix).out sh
            (c.take (splitRec sd ix).pos ++ c.drop ((splitRec sd ix).pos + ((splitRec sd ix).item.getD Ix.full).outRank))
  | [], sd, sh, c, hsd, _, _ => by
    simp only [splitRec, idxCoord, Option.getD_none, Ix.full, itemCoord]
    constructor
    · have := sliceNormD_full n
      simp [this, sliceAt, at0, List.getElem?_drop]
    · exact List.eraseIdx_eq_take_drop_succ ..
  | .none :: r, sd, sh, c, hsd, hp, hf => by
    have ih := coord_splitM n r sd sh c.tail hsd (by simpa [PlainM] using hp) (by simpa [Fits] using hf)
    cases c with
    | nil => simpa [splitRec, idxCoord] using ih
    | cons o c' => simpa [splitRec, idxCoord, drop_succ_add] using ih
  -- the item addressed to the stack dim
  | .int i :: r, 0, sh, c, hsd, hp, hf => by
    simp [splitRec, idxCoord, itemCoord, at0]
  | .slice a b c' :: r, 0, sh, c, hsd, hp, hf => by
    simp [splitRec, idxCoord, itemCoord]
    cases c <;> simp [at0]
  | .tens t :: r, 0, sh, c, hsd, hp, hf => by
    simp [splitRec, idxCoord, itemCoord, at0]
  | .mask m :: r, 0, sh, c, hsd, hp, hf => by
    simp only [PlainM] at hp
    simp only [Fits] at hf
    have hlen := nonzero_getD_length m (at0 c 0) hf.1
    rw [hp] at hlen
    obtain ⟨x, hx⟩ : ∃ x, (nonzero m)[at0 c 0]?.getD [] = [x] := by
      match h : (nonzero m)[at0 c 0]?.getD [] with
      | [x] => exact ⟨x, rfl⟩
      | [] => simp [h] at hlen
      | _ :: _ :: _ => simp [h] at hlen
    simp only [splitRec, idxCoord, itemCoord, Option.getD_some, Ix.outRank_mask, hp, List.insertIdx_zero,
      List.drop_succ_cons, List.drop_zero, hx]
    cases c with
    | nil => simp [at0] at hx ⊢; simp [hx, at0]
    | cons o c' => simp [at0] at hx ⊢; simp [hx, at0]
  | .ell :: r, 0, sh, c, hsd, hp, hf => by simp [PlainM] at hp
  | _ :: _, sd + 1, [], c, hsd, _, _ => by simp at hsd
  | .ell :: r, sd + 1, d :: sh, c, hsd, hp, hf => by simp [PlainM] at hp
  | .int i :: r, sd + 1, d :: sh, c, hsd, hp, hf => by
    have ih := coord_splitM n r sd sh c (by simpa using hsd) (by simpa [PlainM] using hp) (by simpa [Fits] using hf)
    simpa [splitRec, idxCoord, at0_cons_succ] using ih
  | .slice a b c' :: r, sd + 1, d :: sh, c, hsd, hp, hf => by
    have ih := coord_splitM n r sd sh c.tail (by simpa using hsd) (by simpa [PlainM] using hp) (by simpa [Fits] using hf)
    cases c with
    | nil => simpa [splitRec, idxCoord, at0_cons_succ, at0_nil] using ih
    | cons o c'' => simpa [splitRec, idxCoord, at0_cons_succ, at0_cons_zero, drop_succ_add] using ih
  | .tens t :: r, sd + 1, d :: sh, c, hsd, hp, hf => by
    simp only [Fits] at hf
    have ih := coord_splitM n r sd sh (c.drop t.shape.length) (by simpa using hsd) (by simpa [PlainM] using hp) hf.2
    obtain ⟨h1, h2⟩ := take_drop_split c t.shape.length (splitRec sd r).pos
      ((splitRec sd r).item.getD Ix.full).outRank hf.1
    simp only [splitRec, Ix.outRank_tens]
    generalize ((splitRec sd r).item.getD Ix.full).outRank = q at *
    simp only [idxCoord, List.insertIdx_succ_cons, at0_cons_succ,
      List.eraseIdx_cons_succ, h1, h2, ih.1, ih.2, List.drop_drop]
    simp [Nat.add_comm]
  | .mask m :: r, sd + 1, d :: sh, c, hsd, hp, hf => by
    simp only [PlainM] at hp
    simp only [Fits] at hf
    obtain ⟨hk0, hk, hp'⟩ := hp
    have hlen := nonzero_getD_length m (at0 c 0) hf.1
    have hsd' : sd + 1 - m.shape.length ≤ ((d :: sh).drop m.shape.length).length := by
      simp at hsd ⊢; omega
    have ih := coord_splitM n r (sd + 1 - m.shape.length) ((d :: sh).drop m.shape.length) c.tail hsd' hp' hf.2
    simp only [splitRec]
    generalize ((splitRec (sd + 1 - m.shape.length) r).item.getD Ix.full).outRank = q at *
    simp only [idxCoord, drop_insertIdx_of_le n (d :: sh) _ _ hk hsd]
    rw [at0_append_right _ _ _ (by omega), List.eraseIdx_append_of_length_le (by omega), hlen, ih.1, ih.2]
    cases c with
    | nil => simp
    | cons o c'' => simp [at0_cons_zero, drop_succ_add]


theorem coord_split (n : Nat) (ix : List Ix) (sd : Nat) (sh : Shape) (c : List Nat)
    (hsd : sd ≤ sh.length) (hp : Plain sd ix) (hf : Fits ix c) :
    at0 (idxCoord ix (sh.insertIdx sd n) c) sd
        = itemCoord ((splitRec sd ix).item.getD Ix.full) n
            ((c.drop (splitRec sd ix).pos).take ((splitRec sd ix).item.getD Ix.full).outRank)
    ∧ (idxCoord ix (sh.insertIdx sd n) c).eraseIdx sd
        = idxCoord (splitRec sd ix).out sh
            (c.take (splitRec sd ix).pos ++ c.drop ((splitRec sd ix).pos + ((splitRec sd ix).item.getD Ix.full).outRank)) :=
  coord_splitM n ix sd sh c hsd (Plain.toM ix sd hp) hf

def itemShape : Ix → Nat → Option Shape
  | .int i, n => if (normInt i n).isSome then some [] else none
  | .slice a b c, n =>
      match sliceNorm a b c n with
      | some (_, st, len) => if 0 < st then some [len] else none
      | none => none
  | .tens t, n => if t.shape ≠ [] ∧ tensOk t n then some t.shape else none
  | .mask m, n => if m.shape = [n] then some [(nonzero m).length] else none   -- rank-1 mask on the stack dim
  | _, _ => none

theorem insertIdx_eq_take_drop {β} (x : β) : ∀ (l : List β) (i : Nat), i ≤ l.length →
    l.insertIdx i x = l.take i ++ [x] ++ l.drop i
  | l, 0, _ => by simp
  | [], i + 1, h => by simp at h
  | a :: l, i + 1, h => by
    simp [insertIdx_eq_take_drop x l i (by simpa using h)]

theorem take_insertIdx_of_le {β} (x : β) : ∀ (l : List β) (k i : Nat), k ≤ i →
    (l.insertIdx i x).take k = l.take k
  | l, 0, i, _ => by simp
  | [], k + 1, i + 1, _ => by simp
  | a :: l, k + 1, i + 1, h => by
    simp [take_insertIdx_of_le x l k i (by omega)]

theorem sliceNorm_full (n : Nat) : sliceNorm none none none n = some (0, 1, n) := by
  simp [sliceNorm, SliceSpec.indices, SliceSpec.rangeLen]
  omega

theorem shape_splitM (n : Nat) : ∀ (ix : List Ix) (sd : Nat) (sh : Shape),
    sd ≤ sh.length → PlainM sd ix →
    idxShape ix (sh.insertIdx sd n) =
      (idxShape (splitRec sd ix).out sh).bind fun so =>
        (itemShape ((splitRec sd ix).item.getD Ix.full) n).map fun ish =>
          so.take (splitRec sd ix).pos ++ ish ++ so.drop (splitRec sd ix).pos
  | [], sd, sh, hsd, _ => by
    simp [splitRec, idxShape, itemShape, Ix.full, sliceNorm_full, insertIdx_eq_take_drop n sh sd hsd]
  | .none :: r, sd, sh, hsd, hp => by
    have ih := shape_splitM n r sd sh hsd (by simpa [PlainM] using hp)
    simp only [splitRec, idxShape, ih]
    cases idxShape (splitRec sd r).out sh <;> simp
    cases itemShape ((splitRec sd r).item.getD Ix.full) n <;> simp
  | .int i :: r, 0, sh, hsd, hp => by
    simp only [splitRec, idxShape, itemShape, List.insertIdx_zero, Option.getD_some]
    cases idxShape r sh <;> cases (normInt i n) <;> simp
  | .slice a b c :: r, 0, sh, hsd, hp => by
    simp only [splitRec, idxShape, itemShape, List.insertIdx_zero, Option.getD_some]
    cases idxShape r sh <;> rcases sliceNorm a b c n with _ | ⟨s, st, len⟩ <;> simp
    all_goals split <;> simp
  | .tens t :: r, 0, sh, hsd, hp => by
    simp only [splitRec, idxShape, itemShape, List.insertIdx_zero, Option.getD_some]
    cases idxShape r sh <;> split <;> simp
  | .mask m :: r, 0, sh, hsd, hp => by
    simp only [PlainM] at hp
    simp only [splitRec, idxShape, itemShape, List.insertIdx_zero, Option.getD_some, hp, List.take_succ_cons,
      List.take_zero, List.drop_succ_cons, List.drop_zero]
    by_cases hm : m.shape = [n]
    · have hne : m.shape ≠ [] := by rw [hm]; simp
      simp only [hm, hne, ne_eq, not_false_eq_true, and_self, if_true]
      cases idxShape r sh <;> simp
    · have : ¬ (m.shape ≠ [] ∧ m.shape = [n]) := fun h => hm h.2
      simp only [this, hm, if_false]
      cases idxShape r sh <;> simp
  | .ell :: r, 0, sh, hsd, hp => by simp [PlainM] at hp
  | _ :: _, sd + 1, [], hsd, _ => by simp at hsd
  | .ell :: r, sd + 1, d :: sh, hsd, hp => by simp [PlainM] at hp
  | .int i :: r, sd + 1, d :: sh, hsd, hp => by
    have ih := shape_splitM n r sd sh (by simpa using hsd) (by simpa [PlainM] using hp)
    simp only [splitRec, idxShape, List.insertIdx_succ_cons, ih, Ix.outRank_int, Nat.add_zero]
    split <;> simp
  | .slice a b c :: r, sd + 1, d :: sh, hsd, hp => by
    have ih := shape_splitM n r sd sh (by simpa using hsd) (by simpa [PlainM] using hp)
    simp only [splitRec, idxShape, List.insertIdx_succ_cons, ih, Ix.outRank_slice]
    rcases sliceNorm a b c d with _ | ⟨s, st, len⟩ <;> simp
    split
    · cases idxShape (splitRec sd r).out sh <;> simp
      cases itemShape ((splitRec sd r).item.getD Ix.full) n <;> simp
    · simp
  | .tens t :: r, sd + 1, d :: sh, hsd, hp => by
    have ih := shape_splitM n r sd sh (by simpa using hsd) (by simpa [PlainM] using hp)
    simp only [splitRec, idxShape, List.insertIdx_succ_cons, ih, Ix.outRank_tens]
    split
    · cases idxShape (splitRec sd r).out sh <;> simp
      cases itemShape ((splitRec sd r).item.getD Ix.full) n <;> simp
      rw [Nat.add_comm, List.take_length_add_append, List.drop_length_add_append]
      simp
    · simp
  | .mask m :: r, sd + 1, d :: sh, hsd, hp => by
    simp only [PlainM] at hp
    obtain ⟨hk0, hk, hp'⟩ := hp
    have hsd' : sd + 1 - m.shape.length ≤ ((d :: sh).drop m.shape.length).length := by
      simp at hsd ⊢; omega
    have ih := shape_splitM n r (sd + 1 - m.shape.length) ((d :: sh).drop m.shape.length) hsd' hp'
    simp only [splitRec, idxShape, drop_insertIdx_of_le n (d :: sh) _ _ hk hsd,
      take_insertIdx_of_le n (d :: sh) _ _ hk, ih]
    split
    · cases idxShape (splitRec (sd + 1 - m.shape.length) r).out (List.drop m.shape.length (d :: sh)) <;> simp
      cases itemShape ((splitRec (sd + 1 - m.shape.length) r).item.getD Ix.full) n <;> simp
    · simp


theorem shape_split (n : Nat) (ix : List Ix) (sd : Nat) (sh : Shape)
    (hsd : sd ≤ sh.length) (hp : Plain sd ix) :
    idxShape ix (sh.insertIdx sd n) =
      (idxShape (splitRec sd ix).out sh).bind fun so =>
        (itemShape ((splitRec sd ix).item.getD Ix.full) n).map fun ish =>
          so.take (splitRec sd ix).pos ++ ish ++ so.drop (splitRec sd ix).pos :=
  shape_splitM n ix sd sh hsd (Plain.toM ix sd hp)

theorem InB.length : ∀ {c : List Nat} {s : Shape}, InB c s → c.length = s.length
  | [], [], _ => rfl
  | _ :: _, _ :: _, h => by simp [InB.length h.2]
  | [], _ :: _, h => by simp [InB] at h
  | _ :: _, [], h => by simp [InB] at h

theorem InB.drop_append : ∀ (a : Shape) {c : List Nat} {s : Shape}, InB c (a ++ s) → InB (c.drop a.length) s
  | [], c, s, h => by simpa using h
  | x :: a, [], s, h => by simp [InB] at h
  | x :: a, o :: c, s, h => by
    simp only [List.cons_append, InB] at h
    simpa using InB.drop_append a h.2

theorem fits_of_inB : ∀ (ix : List Ix) (sh s : Shape) (c : List Nat),
    idxShape ix sh = some s → InB c s → Fits ix c
  | [], _, _, _, _, _ => trivial
  | .none :: r, sh, s, c, h, hc => by
    simp only [idxShape, Option.map_eq_some_iff] at h
    obtain ⟨s', hs', rfl⟩ := h
    cases c with
    | nil => simp [InB] at hc
    | cons o c' => exact fits_of_inB r sh s' c' hs' hc.2
  | .ell :: r, sh, s, c, h, hc => trivial
  | .mask m :: r, sh, s, c, h, hc => by
    simp only [idxShape] at h
    split at h
    · simp only [Option.map_eq_some_iff] at h
      obtain ⟨s', hs', rfl⟩ := h
      cases c with
      | nil => simp [InB] at hc
      | cons o c' => exact ⟨by simpa [at0] using hc.1, fits_of_inB r _ s' c' hs' hc.2⟩
    · simp at h
  | .int _ :: _, [], _, _, h, _ => by simp [idxShape] at h
  | .slice .. :: _, [], _, _, h, _ => by simp [idxShape] at h
  | .tens _ :: _, [], _, _, h, _ => by simp [idxShape] at h
  | .int i :: r, d :: sh, s, c, h, hc => by
    simp only [idxShape] at h
    split at h
    · exact fits_of_inB r sh s c h hc
    · simp at h
  | .slice a b c' :: r, d :: sh, s, c, h, hc => by
    simp only [idxShape] at h
    split at h
    · split at h
      · simp only [Option.map_eq_some_iff] at h
        obtain ⟨s', hs', rfl⟩ := h
        cases c with
        | nil => simp [InB] at hc
        | cons o c'' => exact fits_of_inB r sh s' c'' hs' hc.2
      · simp at h
    · simp at h
  | .tens t :: r, d :: sh, s, c, h, hc => by
    simp only [idxShape] at h
    split at h
    · simp only [Option.map_eq_some_iff] at h
      obtain ⟨s', hs', rfl⟩ := h
      have hl := InB.length hc
      refine ⟨by simp at hl; omega, fits_of_inB r sh s' _ hs' (InB.drop_append _ hc)⟩
    · simp at h

end TdVerif.C08
