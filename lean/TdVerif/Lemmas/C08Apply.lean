/-
  C08 — pointwise operations through a lazy stack (`_apply_nest`): applying member by member and
  re-stacking is applying to the dense stack, also with a second operand unbound along the stack dim.
-/
import TdVerif.Model.C08Apply
import TdVerif.Lemmas.C08CatN
namespace TdVerif.C08

/-- `lazy.apply(fn)` for a pointwise `fn` is `dense.apply(fn)` -/
theorem apply1_refines [Inhabited α] [Inhabited β] (L : Lazy α) (b : Shape) (keys : List String) (feat : String → Shape)
    (hU : Uniform L b keys feat) (hne : L.members ≠ []) (g : α → β) :
    absL (lazyApply1 L g) ≈ (absL L).apply1 g := by
  obtain ⟨m0, r0, hm⟩ : ∃ m r, L.members = m :: r := by
    cases h : L.members with
    | nil => exact absurd h hne
    | cons m r => exact ⟨m, r, rfl⟩
  obtain ⟨_, hk0⟩ := head_batch_of_uniform L b keys feat hU hne
  refine ⟨?_, ?_, ?_⟩
  · simp [TD.apply1, absL, stackTD, lazyApply1, hm]
  · simp [TD.apply1, absL, stackTD, lazyApply1, hm]
  · intro k hk
    have hkk : k ∈ keys := by
      have : (absL (lazyApply1 L g)).keys = keys := by
        simpa [TD.apply1, absL, stackTD, lazyApply1, hm] using hU.hkeys m0 (by simp [hm])
      rw [← this]; exact hk
    show T.stack ((L.members.map (TD.apply1 g)).map fun m => m.leaf k) L.sd ≈ₜ T.map1 g (T.stack (L.members.map fun m => m.leaf k) L.sd)
    refine ⟨?_, ?_⟩
    · simp [T.stack, T.map1, TD.apply1, hm]
    · intro c hc
      have hc' : InB c ((b ++ feat k).insertIdx L.sd L.members.length) := by
        have h0 : (m0.leaf k).shape = b ++ feat k := hU.hleaf m0 (by simp [hm]) k hkk
        have : InB c (List.insertIdx (m0.leaf k).shape L.sd (r0.length + 1)) := by
          simpa [T.stack, T.map1, TD.apply1, hm] using hc
        rw [h0] at this
        simpa [hm] using this
      have hlt := InB.at0_lt_of_insert c _ L.sd _ (by simp; have := hU.hsd; omega) hc'
      simp only [T.stack, T.map1, List.map_map, List.getElem?_map]
      simp [List.getElem?_eq_getElem hlt, TD.apply1, T.map1]

end TdVerif.C08
namespace TdVerif.C08

/-- `lazy.apply(fn, other)` for a pointwise `fn` and an operand of the stack's batch size is
`dense.apply(fn, other)`: piece `i` of `other` along the stack dim meets member `i` -/
theorem apply2_refines [Inhabited α] [Inhabited β] [Inhabited γ] (L : Lazy α) (b : Shape) (keys : List String) (feat : String → Shape)
    (hU : Uniform L b keys feat) (hne : L.members ≠ []) (other : TD β)
    (hob : other.batch = (absL L).batch) (g : α → β → γ)
    (L' : Lazy γ) (h : lazyApply2 L other g = some L') :
    L'.sd = L.sd ∧ L'.members.length = L.members.length ∧ absL L' ≈ (absL L).apply2 g other := by
  obtain ⟨m0, r0, hm⟩ : ∃ m r, L.members = m :: r := by
    cases h' : L.members with
    | nil => exact absurd h' hne
    | cons m r => exact ⟨m, r, rfl⟩
  have hB := absL_batch_eq L b keys feat hU hne
  have hn : (other.unbind L.sd).length = L.members.length := by
    simp [TD.unbind, hob, hB, List.getElem?_insertIdx_self, hU.hsd]
  unfold lazyApply2 at h
  simp only [hn, ne_eq, not_true_eq_false, if_false, Option.some.injEq] at h
  subst h
  refine ⟨rfl, by simp [hn], ?_⟩
  obtain ⟨o0, ro, ho⟩ : ∃ o r, other.unbind L.sd = o :: r := by
    cases h' : other.unbind L.sd with
    | nil => rw [h', hm] at hn; simp at hn
    | cons o r => exact ⟨o, r, rfl⟩
  refine ⟨?_, ?_, ?_⟩
  · have hro : ro.length = r0.length := by rw [ho] at hn; simpa [hm] using hn
    simp [absL, stackTD, TD.apply2, hm, ho, hro]
  · simp [absL, stackTD, TD.apply2, hm, ho]
  · intro k hk
    have hkk : k ∈ keys := by
      have : m0.keys = keys := hU.hkeys m0 (by simp [hm])
      rw [← this]
      simpa [absL, stackTD, TD.apply2, hm, ho] using hk
    have h0 : (m0.leaf k).shape = b ++ feat k := hU.hleaf m0 (by simp [hm]) k hkk
    show T.stack (((L.members.zip (other.unbind L.sd)).map fun p => TD.apply2 g p.1 p.2).map fun m => m.leaf k) L.sd
      ≈ₜ T.map2 g (T.stack (L.members.map fun m => m.leaf k) L.sd) (other.leaf k)
    refine ⟨?_, ?_⟩
    · have hro : ro.length = r0.length := by rw [ho] at hn; simpa [hm] using hn
      simp [T.stack, T.map2, TD.apply2, hm, ho, hro]
    · intro c hc
      have hc' : InB c ((b ++ feat k).insertIdx L.sd L.members.length) := by
        have : InB c (List.insertIdx (m0.leaf k).shape L.sd (min (r0.length + 1) (ro.length + 1))) := by
          simpa [T.stack, T.map2, TD.apply2, hm, ho] using hc
        rw [h0] at this
        rw [ho] at hn; simp [hm] at hn
        simpa [hm, hn] using this
      have hsdl : L.sd ≤ (b ++ feat k).length := by simp; have := hU.hsd; omega
      have hlt := InB.at0_lt_of_insert c _ L.sd _ hsdl hc'
      have hlen : c.length = (b ++ feat k).length + 1 := by
        rw [InB_len c _ hc', List.length_insertIdx_of_le_length hsdl]
      have hlt2 : at0 c L.sd < (other.unbind L.sd).length := by rw [hn]; exact hlt
      simp only [T.stack, T.map2, List.map_map, List.getElem?_map]
      have hz : (L.members.zip (other.unbind L.sd))[at0 c L.sd]? =
          some (L.members[at0 c L.sd], (other.unbind L.sd)[at0 c L.sd]) := by
        rw [List.getElem?_eq_getElem (by simp; omega)]
        simp
      simp only [hz, Option.map_some, Option.getD_some, Function.comp, TD.apply2, T.map2,
        List.getElem?_eq_getElem hlt]
      congr 1
      have hu : ((other.unbind L.sd)[at0 c L.sd]).leaf k = (other.leaf k).select L.sd (at0 c L.sd) := by
        simp [TD.unbind, TD.mapLeaves]
      rw [hu]
      show (other.leaf k).get ((c.eraseIdx L.sd).insertIdx L.sd (at0 c L.sd)) = _
      rw [insertIdx_eraseIdx_self c L.sd (by omega)]

end TdVerif.C08
