/-
  C13 helper lemmas: Python-dict laws, the cell view of `_set_tensor_dict`, frame and involution of
  the `_to_module` traversal.
-/
import TdVerif.Model.C13Module

namespace TdVerif.C13

namespace Dict
variable {α : Type}

theorem get?_set (d : Dict α) (k k' : Name) (v : α) :
    (d.set k v).get? k' = if k = k' then some v else d.get? k' := by
  induction d with
  | nil => simp [set, get?]
  | cons e r ih =>
    obtain ⟨k0, v0⟩ := e
    simp only [set]
    by_cases h0 : k0 = k
    · subst h0; simp only [if_true, get?]; split <;> rfl
    · simp only [h0, if_false, get?, ih]
      by_cases h1 : k0 = k'
      · subst h1; simp [Ne.symm h0]
      · simp [h1]

theorem get?_pop (d : Dict α) (k k' : Name) :
    (d.pop k).get? k' = if k = k' then none else d.get? k' := by
  induction d with
  | nil => simp [pop, get?]
  | cons e r ih =>
    obtain ⟨k0, v0⟩ := e
    simp only [pop]
    by_cases h0 : k0 = k
    · subst h0; simp only [if_true, ih, get?]; split <;> simp_all
    · simp only [h0, if_false, get?, ih]
      by_cases h1 : k0 = k'
      · subst h1; simp [Ne.symm h0]
      · simp [h1]

end Dict

/-! ### the cell view of `_set_tensor_dict` -/

/-- re-insertion by kind, on one cell -/
def cellPlace (c : Cell) (t : Tn) (wasBuffer : Bool) : Cell :=
  if wasBuffer then { c with b := some (some t) }
  else if t.isParam then { c with p := some (some t) }
  else { c with d := some t }

/-- `_set_tensor_dict` seen on the one attribute name it is called for -/
def cellSwap (c : Cell) (t : Tn) : Option (Cell × Tn) :=
  match c.p.join with
  | some out => some (cellPlace { c with p := none } t false, out)
  | none =>
    match c.b.join with
    | some out => some ({ c with b := some (some t) }, out)
    | none =>
      match c.d with
      | some out => some (cellPlace { c with d := none } t false, out)
      | none => none

theorem place_cell (md : Mod) (n n' : Name) (t : Tn) (wb : Bool) :
    (place md n t wb).cell n' = if n = n' then cellPlace (md.cell n) t wb else md.cell n' := by
  unfold place cellPlace Mod.cell
  by_cases h : n = n' <;> cases wb <;> cases ht : t.isParam <;> simp [Dict.get?_set, h, ht]

theorem place_kids (md : Mod) (n : Name) (t : Tn) (wb : Bool) : (place md n t wb).kids = md.kids := by
  unfold place; split
  · rfl
  · split <;> rfl

/-- the result of `setTensor` on the cell `n`, and only there -/
theorem setTensorNative_ok {md md' : Mod} {n : Name} {t out : Tn} (h : setTensorNative md n t = .ok (md', out)) :
    cellSwap (md.cell n) t = some (md'.cell n, out) ∧ (∀ n', n' ≠ n → md'.cell n' = md.cell n') ∧ md'.kids = md.kids := by
  unfold setTensorNative at h
  unfold cellSwap
  cases hp : (Dict.get? md.params n).join with
  | some o =>
    simp only [hp] at h
    cases ht : t.isParam <;> simp only [ht, if_true, if_false, Bool.false_eq_true] at h <;>
      (injection h with h; injection h with h1 h2; subst h1 h2;
       refine ⟨?_, ?_, rfl⟩
       · simp [Mod.cell, hp, cellPlace, ht, Dict.get?_set, Dict.get?_pop]
       · intro n' hn; simp [Mod.cell, Dict.get?_set, Dict.get?_pop, Ne.symm hn])
  | none =>
    simp only [hp] at h
    cases hb : (Dict.get? md.buffers n).join with
    | some o =>
      simp only [hb] at h
      injection h with h; injection h with h1 h2; subst h1 h2
      refine ⟨?_, ?_, rfl⟩
      · simp [Mod.cell, hp, hb, Dict.get?_set]
      · intro n' hn; simp [Mod.cell, Dict.get?_set, Ne.symm hn]
    | none =>
      simp only [hb] at h
      cases hd : Dict.get? md.plain n with
      | some o =>
        simp only [hd] at h
        injection h with h; injection h with h1 h2; subst h1 h2
        refine ⟨?_, ?_, ?_⟩
        · simp only [place_cell, if_true]; simp [Mod.cell, hp, hb, hd, Dict.get?_pop]
        · intro n' hn; simp only [place_cell, Ne.symm hn, if_false]; simp [Mod.cell, Dict.get?_pop, Ne.symm hn]
        · simp [place_kids]
      | none => simp [hd] at h


/-- the custom-`__setattr__` branch has the same effect on the cell (it differs from the native branch only in
where inside the dicts the entries end up) -/
theorem setTensorCustom_ok {md md' : Mod} {n : Name} {t out : Tn} (h : setTensorCustom md n t = .ok (md', out)) :
    cellSwap (md.cell n) t = some (md'.cell n, out) ∧ (∀ n', n' ≠ n → md'.cell n' = md.cell n') ∧ md'.kids = md.kids := by
  unfold setTensorCustom at h
  unfold cellSwap cellPlace
  cases hp : Dict.get? md.params n with
  | some v =>
    cases v with
    | none => simp [hp] at h
    | some o =>
      simp only [hp] at h
      cases ht : t.isParam <;> simp only [ht, if_true, if_false, Bool.false_eq_true] at h <;>
        (injection h with h; injection h with h1 h2; subst h1 h2;
         refine ⟨?_, ?_, rfl⟩
         · simp [Mod.cell, hp, Option.join, ht, Dict.get?_set, Dict.get?_pop]
         · intro n' hn; simp [Mod.cell, Dict.get?_set, Dict.get?_pop, Ne.symm hn])
  | none =>
    simp only [hp] at h
    cases hb : Dict.get? md.buffers n with
    | some v =>
      cases v with
      | none => simp [hb] at h
      | some o =>
        simp only [hb] at h
        injection h with h; injection h with h1 h2; subst h1 h2
        refine ⟨?_, ?_, rfl⟩
        · simp [Mod.cell, hp, hb, Option.join, Dict.get?_set]
        · intro n' hn; simp [Mod.cell, Dict.get?_set, Ne.symm hn]
    | none =>
      simp only [hb] at h
      cases hd : Dict.get? md.plain n with
      | none => simp [hd] at h
      | some o =>
        simp only [hd] at h
        cases ht : t.isParam <;> simp only [ht, if_true, if_false, Bool.false_eq_true] at h <;>
          (injection h with h; injection h with h1 h2; subst h1 h2;
           refine ⟨?_, ?_, rfl⟩
           · simp [Mod.cell, hp, hb, hd, Option.join, ht, Dict.get?_set, Dict.get?_pop]
           · intro n' hn; simp [Mod.cell, Dict.get?_set, Dict.get?_pop, Ne.symm hn])

/-- the result of the leaf step on the cell `n`, and only there — whichever branch the module's class selects -/
theorem setTensor_ok {md md' : Mod} {n : Name} {t out : Tn} (h : setTensor md n t = .ok (md', out)) :
    cellSwap (md.cell n) t = some (md'.cell n, out) ∧ (∀ n', n' ≠ n → md'.cell n' = md.cell n') ∧ md'.kids = md.kids := by
  unfold setTensor at h
  split at h
  · exact setTensorCustom_ok h
  · exact setTensorNative_ok h

/-- the three dicts are consistent about one name (torch's registration invariants): at most one of
them binds it; `_parameters` holds `nn.Parameter`s, tensors in `__dict__` are not Parameters -/
def CellWF (c : Cell) : Prop :=
  match c.p, c.b, c.d with
  | some (some v), none, none => v.isParam = true
  | none, some (some _), none => True
  | none, none, some v => v.isParam = false
  | some none, none, none => True
  | none, some none, none => True
  | none, none, none => True
  | _, _, _ => False

instance (c : Cell) : Decidable (CellWF c) := by unfold CellWF; split <;> infer_instance

/-- swapping back what came out restores the cell (and hands back what was put in) -/
theorem cellSwap_involutive {c c' : Cell} {t out : Tn} (hwf : CellWF c)
    (h : cellSwap c t = some (c', out)) : CellWF c' ∧ cellSwap c' out = some (c, t) := by
  obtain ⟨p, b, d⟩ := c
  unfold CellWF at hwf
  unfold cellSwap cellPlace at h
  rcases p with _ | _ | v <;> rcases b with _ | _ | w <;> rcases d with _ | u <;>
    simp at hwf <;> simp [Option.join] at h
  · -- plain attribute
    obtain ⟨h1, h2⟩ := h; subst h2
    cases ht : t.isParam <;> simp [ht] at h1 <;> subst h1 <;>
      simp [CellWF, cellSwap, cellPlace, Option.join, ht, hwf]
  · -- buffer
    obtain ⟨h1, h2⟩ := h; subst h2; subst h1
    simp [CellWF, cellSwap, cellPlace, Option.join]
  · -- parameter
    obtain ⟨h1, h2⟩ := h; subst h2
    cases ht : t.isParam <;> simp [ht] at h1 <;> subst h1 <;>
      simp [CellWF, cellSwap, cellPlace, Option.join, ht, hwf]


/-! ### the `_to_module` traversal -/

def cellAt (h : Heap) (c : MId) (n : Name) : Cell := (h c).cell n

theorem cellAt_upd (h : Heap) (m c : MId) (md : Mod) (n : Name) :
    cellAt (h.upd m md) c n = if c = m then md.cell n else cellAt h c n := by
  unfold cellAt Heap.upd; split <;> rfl

def leafKeys : List (Name × PTree) → List Name
  | [] => []
  | (k, .leaf _) :: r => k :: leafKeys r
  | (_, .node _) :: r => leafKeys r

/-- keys and leaf/node kind of the entries of one tensordict node -/
def shape : List (Name × PTree) → List (Name × Bool)
  | [] => []
  | (k, .leaf _) :: r => (k, true) :: shape r
  | (k, .node _) :: r => (k, false) :: shape r

theorem leafKeys_of_shape : ∀ {a b : List (Name × PTree)}, shape a = shape b → leafKeys a = leafKeys b
  | [], [], _ => rfl
  | [], (_, .leaf _) :: _, h => by simp [shape] at h
  | [], (_, .node _) :: _, h => by simp [shape] at h
  | (_, .leaf _) :: _, [], h => by simp [shape] at h
  | (_, .node _) :: _, [], h => by simp [shape] at h
  | (k, .leaf _) :: r, (k', .leaf _) :: r', h => by
      simp [shape] at h; simp [leafKeys, h.1, leafKeys_of_shape h.2]
  | (k, .leaf _) :: r, (k', .node _) :: r', h => by simp [shape] at h
  | (k, .node _) :: r, (k', .leaf _) :: r', h => by simp [shape] at h
  | (k, .node _) :: r, (k', .node _) :: r', h => by
      simp [shape] at h; simp [leafKeys, leafKeys_of_shape h.2]

theorem swapEntries_nil (h : Heap) (memo : Memo) (m : MId) :
    swapEntries h memo m [] = .ok (h, memo, []) := by
  simp [swapEntries, swapEntriesWith]

theorem swapEntries_leaf_inv {h : Heap} {memo : Memo} {m : MId} {k : Name} {t : Tn} {rest}
    {h1 : Heap} {memo1 : Memo} {outs}
    (hr : swapEntries h memo m ((k, .leaf t) :: rest) = .ok (h1, memo1, outs)) :
    ∃ md out outs', setTensor (h m) k t = .ok (md, out) ∧
      swapEntries (h.upd m md) memo m rest = .ok (h1, memo1, outs') ∧ outs = (k, .leaf out) :: outs' := by
  simp only [swapEntries, swapEntriesWith] at hr
  split at hr
  · simp at hr
  · rename_i md out hst
    split at hr
    · simp at hr
    · rename_i h' memo' outs' hrest
      injection hr with hr; injection hr with e1 hr; injection hr with e2 e3
      subst e1 e2 e3
      exact ⟨md, out, outs', hst, hrest, rfl⟩

theorem swapEntries_leaf_intro {h : Heap} {memo : Memo} {m : MId} {k : Name} {t : Tn} {rest}
    {h1 : Heap} {memo1 : Memo} {md out outs'}
    (hst : setTensor (h m) k t = .ok (md, out))
    (hrest : swapEntries (h.upd m md) memo m rest = .ok (h1, memo1, outs')) :
    swapEntries h memo m ((k, .leaf t) :: rest) = .ok (h1, memo1, (k, .leaf out) :: outs') := by
  simp only [swapEntries] at hrest
  simp only [swapEntries, swapEntriesWith, hst, hrest]

theorem swapEntries_node_inv {h : Heap} {memo : Memo} {m : MId} {k : Name} {es rest}
    {h1 : Heap} {memo1 : Memo} {outs}
    (hr : swapEntries h memo m ((k, .node es) :: rest) = .ok (h1, memo1, outs)) :
    ∃ c, Dict.get? (h m).kids k = some (some c) ∧
      ((∃ sw outs', memo.find c = some (some sw) ∧
          swapEntries h memo m rest = .ok (h1, memo1, outs') ∧ outs = (k, .node sw) :: outs') ∨
       (∃ h2 memo2 sw outs', memo.find c = none ∧
          swapEntries h ((c, none) :: memo) c es = .ok (h2, memo2, sw) ∧
          swapEntries h2 ((c, some sw) :: memo2) m rest = .ok (h1, memo1, outs') ∧
          outs = (k, .node sw) :: outs')) := by
  simp only [swapEntries, swapEntriesWith] at hr
  split at hr
  · simp at hr
  · simp at hr
  · rename_i c hk
    refine ⟨c, hk, ?_⟩
    split at hr
    · simp at hr
    · rename_i sw hm
      left
      split at hr
      · simp at hr
      · rename_i h' memo' outs' hrest
        injection hr with hr; injection hr with e1 hr; injection hr with e2 e3
        subst e1 e2 e3
        exact ⟨sw, outs', hm, hrest, rfl⟩
    · rename_i hm
      right
      split at hr
      · simp at hr
      · rename_i h2 memo2 sw hchild
        split at hr
        · simp at hr
        · rename_i h' memo' outs' hrest
          injection hr with hr; injection hr with e1 hr; injection hr with e2 e3
          subst e1 e2 e3
          exact ⟨h2, memo2, sw, outs', hm, hchild, hrest, rfl⟩

theorem swapEntries_hit_intro {h : Heap} {memo : Memo} {m c : MId} {k : Name} {es rest sw}
    {h1 : Heap} {memo1 : Memo} {outs'}
    (hk : Dict.get? (h m).kids k = some (some c)) (hm : memo.find c = some (some sw))
    (hrest : swapEntries h memo m rest = .ok (h1, memo1, outs')) :
    swapEntries h memo m ((k, .node es) :: rest) = .ok (h1, memo1, (k, .node sw) :: outs') := by
  simp only [swapEntries] at hrest
  simp only [swapEntries, swapEntriesWith, hk, hm, hrest]

theorem swapEntries_fresh_intro {h : Heap} {memo : Memo} {m c : MId} {k : Name} {es rest sw}
    {h1 h2 : Heap} {memo1 memo2 : Memo} {outs'}
    (hk : Dict.get? (h m).kids k = some (some c)) (hm : memo.find c = none)
    (hchild : swapEntries h ((c, none) :: memo) c es = .ok (h2, memo2, sw))
    (hrest : swapEntries h2 ((c, some sw) :: memo2) m rest = .ok (h1, memo1, outs')) :
    swapEntries h memo m ((k, .node es) :: rest) = .ok (h1, memo1, (k, .node sw) :: outs') := by
  simp only [swapEntries] at hrest hchild
  simp only [swapEntries, swapEntriesWith, hk, hm, hchild, hrest]


theorem find_cons (c' : MId) (v) (r : Memo) (c : MId) :
    Memo.find ((c', v) :: r) c = if c' = c then some v else Memo.find r c := by
  simp [Memo.find]

/-- what one run of the loop may have changed -/
structure Frame (h : Heap) (memo : Memo) (m : MId) (es : List (Name × PTree))
    (h1 : Heap) (memo1 : Memo) (outs : List (Name × PTree)) : Prop where
  keep : ∀ c v, memo.find c = some v → memo1.find c = some v
  fresh : ∀ c, memo.find c = none → memo1.find c = none ∨ ∃ sw, memo1.find c = some (some sw)
  others : ∀ c, c ≠ m → (memo.find c ≠ none ∨ memo1.find c = none) → h1 c = h c
  names : ∀ n, n ∉ leafKeys es → cellAt h1 m n = cellAt h m n
  kids : ∀ c, (h1 c).kids = (h c).kids
  shp : shape outs = shape es

theorem swap_frame : ∀ (es : List (Name × PTree)) (h : Heap) (memo : Memo) (m : MId) (h1 : Heap)
    (memo1 : Memo) (outs : List (Name × PTree)),
    swapEntries h memo m es = .ok (h1, memo1, outs) → memo.find m = some none →
    Frame h memo m es h1 memo1 outs
  | [], h, memo, m, h1, memo1, outs, hr, _ => by
    rw [swapEntries_nil] at hr
    injection hr with hr; injection hr with e1 hr; injection hr with e2 e3
    subst e1 e2 e3
    exact ⟨fun _ _ h => h, fun _ h => Or.inl h, fun _ _ _ => rfl, fun _ _ => rfl, fun _ => rfl, rfl⟩
  | (k, .leaf t) :: rest, h, memo, m, h1, memo1, outs, hr, hm => by
    obtain ⟨md, out, outs', hst, hrest, rfl⟩ := swapEntries_leaf_inv hr
    have ih := swap_frame rest (h.upd m md) memo m h1 memo1 outs' hrest hm
    obtain ⟨_, hfr, hkids⟩ := setTensor_ok hst
    refine ⟨ih.keep, ih.fresh, ?_, ?_, ?_, ?_⟩
    · intro c hc hs
      rw [ih.others c hc hs]; simp [Heap.upd, hc]
    · intro n hn
      simp only [leafKeys, List.mem_cons, not_or] at hn
      rw [ih.names n hn.2, cellAt_upd]; simp [cellAt, hfr n hn.1]
    · intro c
      rw [ih.kids c]; unfold Heap.upd; split
      · rename_i hc; rw [hkids, hc]
      · rfl
    · simp [shape, ih.shp]
  | (k, .node es) :: rest, h, memo, m, h1, memo1, outs, hr, hm => by
    obtain ⟨c, hk, hcase⟩ := swapEntries_node_inv hr
    rcases hcase with ⟨sw, outs', hhit, hrest, rfl⟩ | ⟨h2, memo2, sw, outs', hmiss, hchild, hrest, rfl⟩
    · have ih := swap_frame rest h memo m h1 memo1 outs' hrest hm
      exact ⟨ih.keep, ih.fresh, ih.others, fun n hn => ih.names n (by simpa [leafKeys] using hn),
        ih.kids, by simp [shape, ih.shp]⟩
    · have hcm : c ≠ m := by intro e; subst e; rw [hmiss] at hm; cases hm
      have ih1 := swap_frame es h ((c, none) :: memo) c h2 memo2 sw hchild (by simp [find_cons])
      have hm2 : Memo.find ((c, some sw) :: memo2) m = some none := by
        rw [find_cons, if_neg hcm]; apply ih1.keep; rw [find_cons, if_neg hcm]; exact hm
      have ih2 := swap_frame rest h2 ((c, some sw) :: memo2) m h1 memo1 outs' hrest hm2
      refine ⟨?_, ?_, ?_, ?_, ?_, ?_⟩
      · intro x v hx
        have hxc : c ≠ x := by intro e; subst e; rw [hmiss] at hx; cases hx
        apply ih2.keep; rw [find_cons, if_neg hxc]; apply ih1.keep; rw [find_cons, if_neg hxc]; exact hx
      · intro x hx
        by_cases hxc : c = x
        · subst hxc; right; exact ⟨sw, ih2.keep _ _ (by simp [find_cons])⟩
        · rcases ih1.fresh x (by rw [find_cons, if_neg hxc]; exact hx) with h0 | ⟨sw', h0⟩
          · exact ih2.fresh x (by rw [find_cons, if_neg hxc]; exact h0)
          · right; exact ⟨sw', ih2.keep _ _ (by rw [find_cons, if_neg hxc]; exact h0)⟩
      · intro x hxm hs
        have hxc : c ≠ x := by
          intro e; subst e
          rcases hs with hs | hs
          · exact hs hmiss
          · have := ih2.keep c (some sw) (by simp [find_cons]); rw [hs] at this; cases this
        have h2none : (Memo.find memo x ≠ none ∨ Memo.find memo2 x = none) := by
          rcases hs with hs | hs
          · left; exact hs
          · right
            cases h0 : Memo.find memo2 x with
            | none => rfl
            | some v =>
              have := ih2.keep x v (by rw [find_cons, if_neg hxc]; exact h0)
              rw [hs] at this; cases this
        have e1 : h2 x = h x := by
          apply ih1.others x (Ne.symm hxc)
          rcases h2none with h0 | h0
          · left; rw [find_cons, if_neg hxc]; exact h0
          · right; exact h0
        have e2 : h1 x = h2 x := by
          apply ih2.others x hxm
          rcases hs with hs | hs
          · left; rw [find_cons, if_neg hxc]
            cases h0 : Memo.find memo x with
            | none => exact absurd h0 hs
            | some v =>
              have := ih1.keep x v (by rw [find_cons, if_neg hxc]; exact h0)
              rw [this]; simp
          · right; exact hs
        rw [e2, e1]
      · intro n hn
        have hn' : n ∉ leafKeys rest := by simpa [leafKeys] using hn
        rw [ih2.names n hn']
        have : h2 m = h m := ih1.others m (Ne.symm hcm) (Or.inl (by rw [find_cons, if_neg hcm, hm]; simp))
        simp [cellAt, this]
      · intro x; rw [ih2.kids, ih1.kids]
      · simp [shape, ih2.shp]


theorem setTensorNative_err {md : Mod} {n : Name} {t : Tn} {e} (h : setTensorNative md n t = .error e) :
    cellSwap (md.cell n) t = none := by
  unfold setTensorNative at h
  unfold cellSwap
  cases hp : (Dict.get? md.params n).join with
  | some o => simp only [hp] at h; split at h <;> cases h
  | none =>
    simp only [hp] at h
    cases hb : (Dict.get? md.buffers n).join with
    | some o => simp [hb] at h
    | none =>
      simp only [hb] at h
      cases hd : Dict.get? md.plain n with
      | some o => simp [hd] at h
      | none => simp [Mod.cell, hp, hb, hd]

theorem setTensorCustom_err {md : Mod} {n : Name} {t : Tn} {e} (hwf : CellWF (md.cell n))
    (h : setTensorCustom md n t = .error e) : cellSwap (md.cell n) t = none := by
  unfold setTensorCustom at h
  unfold CellWF Mod.cell at hwf
  unfold cellSwap Mod.cell
  cases hp : Dict.get? md.params n with
  | some v =>
    cases v with
    | some o => simp only [hp] at h; split at h <;> cases h
    | none =>
      simp only [hp] at hwf
      cases hb : Dict.get? md.buffers n <;> cases hd : Dict.get? md.plain n <;> simp [hb, hd] at hwf
      simp [hp, hb, hd, Option.join]
  | none =>
    simp only [hp] at h hwf
    cases hb : Dict.get? md.buffers n with
    | some v =>
      cases v with
      | some o => simp [hb] at h
      | none =>
        simp only [hb] at hwf
        cases hd : Dict.get? md.plain n <;> simp [hd] at hwf
        simp [hp, hb, hd, Option.join]
    | none =>
      simp only [hb] at h
      cases hd : Dict.get? md.plain n with
      | some o => simp only [hd] at h; split at h <;> cases h
      | none => simp [hp, hb, hd, Option.join]

theorem setTensor_err {md : Mod} {n : Name} {t : Tn} {e} (hwf : CellWF (md.cell n))
    (h : setTensor md n t = .error e) : cellSwap (md.cell n) t = none := by
  unfold setTensor at h
  split at h
  · exact setTensorCustom_err hwf h
  · exact setTensorNative_err h

/-- the leaf step succeeds exactly when the cell view does, with that result -/
theorem setTensor_of_cell {md : Mod} {n : Name} {t out : Tn} {c' : Cell} (hwf : CellWF (md.cell n))
    (h : cellSwap (md.cell n) t = some (c', out)) :
    ∃ md', setTensor md n t = .ok (md', out) ∧ md'.cell n = c' := by
  cases hs : setTensor md n t with
  | error e => rw [setTensor_err hwf hs] at h; cases h
  | ok r =>
    obtain ⟨md', out'⟩ := r
    have := (setTensor_ok hs).1
    rw [h] at this; injection this with this; injection this with e1 e2
    subst e1 e2; exact ⟨md', rfl, rfl⟩

def HeapWF (h : Heap) : Prop := ∀ c n, CellWF (cellAt h c n)

/-- leaf keys of every node are pairwise distinct (tensordict keys are dict keys) -/
def LeafNodup : List (Name × PTree) → Prop
  | [] => True
  | (k, .leaf _) :: r => k ∉ leafKeys r ∧ LeafNodup r
  | (_, .node es) :: r => LeafNodup es ∧ LeafNodup r

theorem upd_wf {h : Heap} {m : MId} {md' : Mod} {n : Name} {t out : Tn} (hwf : HeapWF h)
    (hst : setTensor (h m) n t = .ok (md', out)) : HeapWF (h.upd m md') := by
  intro c n'
  rw [cellAt_upd]
  split
  · rename_i hc; subst hc
    obtain ⟨h1, h2, _⟩ := setTensor_ok hst
    by_cases hn : n' = n
    · subst hn; exact (cellSwap_involutive (hwf c n') h1).1
    · rw [h2 n' hn]; exact hwf c n'
  · exact hwf c n'

theorem swap_wf : ∀ (es : List (Name × PTree)) (h : Heap) (memo : Memo) (m : MId) (h1 : Heap)
    (memo1 : Memo) (outs : List (Name × PTree)),
    swapEntries h memo m es = .ok (h1, memo1, outs) → HeapWF h → HeapWF h1
  | [], h, memo, m, h1, memo1, outs, hr, hwf => by
    rw [swapEntries_nil] at hr
    injection hr with hr; injection hr with e1 hr; subst e1; exact hwf
  | (k, .leaf t) :: rest, h, memo, m, h1, memo1, outs, hr, hwf => by
    obtain ⟨md, out, outs', hst, hrest, rfl⟩ := swapEntries_leaf_inv hr
    exact swap_wf rest _ memo m h1 memo1 outs' hrest (upd_wf hwf hst)
  | (k, .node es) :: rest, h, memo, m, h1, memo1, outs, hr, hwf => by
    obtain ⟨c, hk, hcase⟩ := swapEntries_node_inv hr
    rcases hcase with ⟨sw, outs', hhit, hrest, rfl⟩ | ⟨h2, memo2, sw, outs', hmiss, hchild, hrest, rfl⟩
    · exact swap_wf rest h memo m h1 memo1 outs' hrest hwf
    · exact swap_wf rest h2 _ m h1 memo1 outs' hrest (swap_wf es h _ c h2 memo2 sw hchild hwf)

/-- the two memos have the same modules in the same state (absent / being processed / done) -/
def MemoSim (a b : Memo) : Prop := ∀ c, (a.find c).map Option.isSome = (b.find c).map Option.isSome

theorem MemoSim.cons {a b : Memo} (hs : MemoSim a b) (c : MId) (v w) (hvw : v.isSome = w.isSome) :
    MemoSim ((c, v) :: a) ((c, w) :: b) := by
  intro x; rw [find_cons, find_cons]; split
  · simp [hvw]
  · exact hs x

theorem MemoSim.none_iff {a b : Memo} (hs : MemoSim a b) (c : MId) : a.find c = none ↔ b.find c = none := by
  have := hs c
  cases ha : a.find c <;> cases hb : b.find c <;> simp [ha, hb] at this ⊢

theorem MemoSim.done {a b : Memo} (hs : MemoSim a b) {c : MId} {sw} (h : a.find c = some (some sw)) :
    ∃ sw', b.find c = some (some sw') := by
  have := hs c
  rw [h] at this
  cases hb : b.find c with
  | none => simp [hb] at this
  | some v => cases v with
    | none => simp [hb] at this
    | some sw' => exact ⟨sw', rfl⟩

/-- the tensordict gives every submodule one sub-tensordict: whatever nested entry is addressed to module `c`
(through any of its names, at any depth) is `pm c` — what `from_module` produces, and what makes the memo of
`_to_module` harmless -/
def ConsP (pm : MId → List (Name × PTree)) (h : Heap) : MId → List (Name × PTree) → Prop
  | _, [] => True
  | m, (_, .leaf _) :: r => ConsP pm h m r
  | m, (k, .node es) :: r =>
    (∀ c, Dict.get? (h m).kids k = some (some c) → es = pm c ∧ ConsP pm h c es) ∧ ConsP pm h m r

def MemoP (pm : MId → List (Name × PTree)) (gm : Memo) : Prop := ∀ c sw, gm.find c = some (some sw) → sw = pm c

theorem ConsP_kids (pm : MId → List (Name × PTree)) {h h' : Heap} (hk : ∀ c, (h' c).kids = (h c).kids) :
    ∀ (es : List (Name × PTree)) (m : MId), ConsP pm h m es → ConsP pm h' m es
  | [], _, _ => by simp [ConsP]
  | (_, .leaf _) :: r, m, hc => by
    simp only [ConsP] at hc ⊢; exact ConsP_kids pm hk r m hc
  | (k, .node es) :: r, m, hc => by
    simp only [ConsP] at hc ⊢
    refine ⟨?_, ConsP_kids pm hk r m hc.2⟩
    intro c hkc
    rw [hk m] at hkc
    obtain ⟨h1, h2⟩ := hc.1 c hkc
    exact ⟨h1, ConsP_kids pm hk es c h2⟩

/-- what the second (restoring) run achieves -/
structure Back (h : Heap) (memo : Memo) (m : MId) (es : List (Name × PTree)) (memo1 : Memo)
    (g1 : Heap) (gm1 : Memo) (gm : Memo) (outs' : List (Name × PTree)) : Prop where
  sim : MemoSim memo1 gm1
  mods : ∀ c, memo.find c = none → memo1.find c ≠ none → ∀ n, cellAt g1 c n = cellAt h c n
  names : ∀ n, n ∈ leafKeys es → cellAt g1 m n = cellAt h m n
  /-- when every submodule is given one sub-tensordict, the restoring run hands back the very tensordict that was put in -/
  same : ∀ pm, ConsP pm h m es → MemoP pm gm → outs' = es ∧ MemoP pm gm1


theorem find_ne_none_of_some {mm : Memo} {c : MId} {v} (h : mm.find c = some v) : mm.find c ≠ none := by
  rw [h]; simp

/-- **The restoring run.** If a run of the loop on `es` took `(h, memo)` to `(h1, memo1)` with swap `outs`,
then running the loop on `outs`, from any heap `g` that agrees with `h1` on the cells the first run wrote
(and any memo in the same state), succeeds and puts back in those cells what `h` had. -/
theorem swap_back : ∀ (es : List (Name × PTree)) (h : Heap) (memo : Memo) (m : MId) (h1 : Heap)
    (memo1 : Memo) (outs : List (Name × PTree)),
    swapEntries h memo m es = .ok (h1, memo1, outs) → memo.find m = some none → HeapWF h → LeafNodup es →
    ∀ (g : Heap) (gm : Memo), gm.find m = some none → MemoSim memo gm →
      (∀ c, memo.find c = none → memo1.find c ≠ none → ∀ n, cellAt g c n = cellAt h1 c n) →
      (∀ n, n ∈ leafKeys es → cellAt g m n = cellAt h1 m n) →
      (∀ c, (g c).kids = (h c).kids) →
      ∃ g1 gm1 outs', swapEntries g gm m outs = .ok (g1, gm1, outs') ∧ Back h memo m es memo1 g1 gm1 gm outs'
  | [], h, memo, m, h1, memo1, outs, hr, _, _, _ => by
    intro g gm _ hsim _ _ _
    rw [swapEntries_nil] at hr
    injection hr with hr; injection hr with e1 hr; injection hr with e2 e3
    subst e1 e2 e3
    refine ⟨g, gm, [], swapEntries_nil _ _ _, hsim, ?_, ?_, fun _ _ hmp => ⟨rfl, hmp⟩⟩
    · intro c h0 h1; exact absurd h0 h1
    · intro n hn; simp [leafKeys] at hn
  | (k, .leaf t) :: rest, h, memo, m, h1, memo1, outs, hr, hm, hwf, hnd => by
    intro g gm hgm hsim hmods hnames hkids
    obtain ⟨md, out, outs', hst, hrest, rfl⟩ := swapEntries_leaf_inv hr
    simp only [LeafNodup] at hnd
    obtain ⟨hknot, hnd'⟩ := hnd
    have fr1 := swap_frame rest (h.upd m md) memo m h1 memo1 outs' hrest hm
    obtain ⟨hcs, hfr, hkd⟩ := setTensor_ok hst
    -- the cell (m, k) in g is what the first run left there
    have hgk : cellAt g m k = md.cell k := by
      rw [hnames k (by simp [leafKeys]), fr1.names k hknot, cellAt_upd]; simp
    have hinv := cellSwap_involutive (hwf m k) hcs
    have hback := hinv.2
    rw [← hgk] at hback
    obtain ⟨md2, hst2, hmd2⟩ := setTensor_of_cell (md := g m) (by
      have : (g m).cell k = md.cell k := hgk
      rw [this]; exact hinv.1) hback
    obtain ⟨_, hfr2, hkd2⟩ := setTensor_ok hst2
    have ih := swap_back rest (h.upd m md) memo m h1 memo1 outs' hrest hm (upd_wf hwf hst) hnd'
      (g.upd m md2) gm hgm hsim
      (by
        intro c h0 h1' n
        have hcm : c ≠ m := by intro e; subst e; rw [hm] at h0; cases h0
        rw [cellAt_upd, if_neg hcm]; exact hmods c h0 h1' n)
      (by
        intro n hn
        have hnk : n ≠ k := by intro e; subst e; exact hknot hn
        rw [cellAt_upd, if_pos rfl, hfr2 n hnk]
        exact hnames n (by simp [leafKeys, hn]))
      (by
        intro c; unfold Heap.upd; split
        · rename_i hc; subst hc; rw [hkd2, hkd]; exact hkids c
        · exact hkids c)
    obtain ⟨g1, gm1, outs2, hrun2, hb⟩ := ih
    have fr2 := swap_frame outs' (g.upd m md2) gm m g1 gm1 outs2 hrun2 hgm
    refine ⟨g1, gm1, (k, .leaf t) :: outs2, swapEntries_leaf_intro hst2 hrun2, hb.sim, ?_, ?_, ?_⟩
    rotate_right
    · intro pm hc hmp
      simp only [ConsP] at hc
      have hkids' : ∀ c, ((h.upd m md) c).kids = (h c).kids := by
        intro c; unfold Heap.upd; split
        · rename_i hcm; rw [hkd, hcm]
        · rfl
      obtain ⟨e1, e2⟩ := hb.same pm (ConsP_kids pm hkids' rest m hc) hmp
      exact ⟨by rw [e1], e2⟩
    · intro c h0 h1' n
      have hcm : c ≠ m := by intro e; subst e; rw [hm] at h0; cases h0
      rw [hb.mods c h0 h1' n, cellAt_upd, if_neg hcm]
    · intro n hn
      by_cases hnk : n = k
      · subst hnk
        have : n ∉ leafKeys outs' := by rw [leafKeys_of_shape fr1.shp]; exact hknot
        rw [fr2.names n this, cellAt_upd, if_pos rfl, hmd2]
      · have hn' : n ∈ leafKeys rest := by simpa [leafKeys, hnk] using hn
        rw [hb.names n hn', cellAt_upd, if_pos rfl, hfr n hnk]; rfl
  | (k, .node es) :: rest, h, memo, m, h1, memo1, outs, hr, hm, hwf, hnd => by
    intro g gm hgm hsim hmods hnames hkids
    simp only [LeafNodup] at hnd
    obtain ⟨hnd1, hnd2⟩ := hnd
    obtain ⟨c, hk, hcase⟩ := swapEntries_node_inv hr
    have hkg : Dict.get? (g m).kids k = some (some c) := by rw [hkids m]; exact hk
    rcases hcase with ⟨sw, outs', hhit, hrest, rfl⟩ | ⟨h2, memo2, sw, outs', hmiss, hchild, hrest, rfl⟩
    · -- shared submodule, already swapped by the first run
      obtain ⟨sw', hhit'⟩ := hsim.done hhit
      obtain ⟨g1, gm1, outs2, hrun2, hb⟩ := swap_back rest h memo m h1 memo1 outs' hrest hm hwf hnd2
        g gm hgm hsim hmods (fun n hn => hnames n (by simpa [leafKeys] using hn)) hkids
      refine ⟨g1, gm1, (k, .node sw') :: outs2, swapEntries_hit_intro hkg hhit' hrun2, hb.sim, hb.mods,
        fun n hn => hb.names n (by simpa [leafKeys] using hn), ?_⟩
      intro pm hc hmp
      simp only [ConsP] at hc
      obtain ⟨e1, e2⟩ := hb.same pm hc.2 hmp
      have hes : es = pm c := (hc.1 c hk).1
      have hsw : sw' = pm c := hmp c sw' hhit'
      exact ⟨by rw [e1, hsw, hes], e2⟩
    · have hcm : c ≠ m := by intro e; subst e; rw [hmiss] at hm; cases hm
      have frc := swap_frame es h ((c, none) :: memo) c h2 memo2 sw hchild (by simp [find_cons])
      have hm2 : Memo.find ((c, some sw) :: memo2) m = some none := by
        rw [find_cons, if_neg hcm]; apply frc.keep; rw [find_cons, if_neg hcm]; exact hm
      have frr := swap_frame rest h2 ((c, some sw) :: memo2) m h1 memo1 outs' hrest hm2
      have hc1 : memo1.find c ≠ none := find_ne_none_of_some (frr.keep c (some sw) (by simp [find_cons]))
      have h1c : h1 c = h2 c := frr.others c hcm (Or.inl (by simp [find_cons]))
      have hgmc : gm.find c = none := (hsim.none_iff c).1 hmiss
      -- the child run, backwards
      have ihc := swap_back es h ((c, none) :: memo) c h2 memo2 sw hchild (by simp [find_cons]) hwf hnd1
        g ((c, none) :: gm) (by simp [find_cons]) (hsim.cons c none none rfl)
        (by
          intro x h0 h1' n
          have hxc : c ≠ x := by intro e; subst e; simp [find_cons] at h0
          rw [find_cons, if_neg hxc] at h0
          have hxm : x ≠ m := by intro e; subst e; rw [hm] at h0; cases h0
          have hx1 : memo1.find x ≠ none := by
            cases hv : memo2.find x with
            | none => exact absurd hv h1'
            | some v => exact find_ne_none_of_some (frr.keep x v (by rw [find_cons, if_neg hxc]; exact hv))
          rw [hmods x h0 hx1 n]
          have : h1 x = h2 x := frr.others x hxm (Or.inl (by rw [find_cons, if_neg hxc]; exact h1'))
          simp [cellAt, this])
        (by
          intro n _
          rw [hmods c hmiss hc1 n]; simp [cellAt, h1c])
        hkids
      obtain ⟨g2, gm2, sw', hrunc, hbc⟩ := ihc
      have frc2 := swap_frame sw g ((c, none) :: gm) c g2 gm2 sw' hrunc (by simp [find_cons])
      have hgm2 : Memo.find ((c, some sw') :: gm2) m = some none := by
        rw [find_cons, if_neg hcm]; apply frc2.keep; rw [find_cons, if_neg hcm]; exact hgm
      have g2m : g2 m = g m := frc2.others m (Ne.symm hcm) (Or.inl (by rw [find_cons, if_neg hcm, hgm]; simp))
      have h2m : h2 m = h m := frc.others m (Ne.symm hcm) (Or.inl (by rw [find_cons, if_neg hcm, hm]; simp))
      -- the rest of the loop, backwards
      have ihr := swap_back rest h2 ((c, some sw) :: memo2) m h1 memo1 outs' hrest hm2
        (swap_wf es h _ c h2 memo2 sw hchild hwf) hnd2
        g2 ((c, some sw') :: gm2) hgm2 (hbc.sim.cons c (some sw) (some sw') rfl)
        (by
          intro x h0 h1' n
          have hxc : c ≠ x := by intro e; subst e; simp [find_cons] at h0
          rw [find_cons, if_neg hxc] at h0
          have h00 : memo.find x = none := by
            cases hv : memo.find x with
            | none => rfl
            | some v =>
              have := frc.keep x v (by rw [find_cons, if_neg hxc]; exact hv)
              rw [h0] at this; cases this
          have hxc' : x ≠ c := Ne.symm hxc
          have : g2 x = g x := frc2.others x hxc' (Or.inr ((hbc.sim.none_iff x).1 h0))
          rw [← hmods x h00 h1' n]; simp [cellAt, this])
        (by
          intro n hn
          rw [← hnames n (by simpa [leafKeys] using hn)]; simp [cellAt, g2m])
        (by intro x; rw [frc2.kids, frc.kids]; exact hkids x)
      obtain ⟨g1, gm1, outs2, hrunr, hbr⟩ := ihr
      have frr2 := swap_frame outs' g2 ((c, some sw') :: gm2) m g1 gm1 outs2 hrunr hgm2
      refine ⟨g1, gm1, (k, .node sw') :: outs2, swapEntries_fresh_intro hkg hgmc hrunc hrunr, hbr.sim, ?_, ?_, ?_⟩
      rotate_right
      · intro pm hc hmp
        simp only [ConsP] at hc
        obtain ⟨hes, hcc⟩ := hc.1 c hk
        obtain ⟨e1, e2⟩ := hbc.same pm hcc (by
          intro x sw0 hx
          have hxc : c ≠ x := by intro e; subst e; simp [find_cons] at hx
          rw [find_cons, if_neg hxc] at hx
          exact hmp x sw0 hx)
        obtain ⟨e3, e4⟩ := hbr.same pm (ConsP_kids pm frc.kids rest m hc.2) (by
          intro x sw0 hx
          by_cases hxc : c = x
          · subst hxc; simp [find_cons] at hx; subst hx; rw [e1]; exact hes
          · rw [find_cons, if_neg hxc] at hx; exact e2 x sw0 hx)
        exact ⟨by rw [e3, e1], e4⟩
      · intro x h0 h1' n
        have hxm : x ≠ m := by intro e; subst e; rw [hm] at h0; cases h0
        by_cases hxc : c = x
        · subst hxc
          have e1 : g1 c = g2 c := frr2.others c hcm (Or.inl (by simp [find_cons]))
          have : cellAt g1 c n = cellAt g2 c n := by simp [cellAt, e1]
          rw [this]
          by_cases hn : n ∈ leafKeys es
          · exact hbc.names n hn
          · have hn' : n ∉ leafKeys sw := by rw [leafKeys_of_shape frc.shp]; exact hn
            rw [frc2.names n hn', hmods c hmiss hc1 n, ← frc.names n hn]; simp [cellAt, h1c]
        · cases hv : memo2.find x with
          | some v =>
            have e1 : g1 x = g2 x := frr2.others x hxm (Or.inl (by
              rw [find_cons, if_neg hxc]
              intro hcontra
              have := (hbc.sim.none_iff x).2 hcontra
              rw [hv] at this; cases this))
            have : cellAt g1 x n = cellAt g2 x n := by simp [cellAt, e1]
            rw [this]
            exact hbc.mods x (by rw [find_cons, if_neg hxc]; exact h0) (find_ne_none_of_some hv) n
          | none =>
            rw [hbr.mods x (by rw [find_cons, if_neg hxc]; exact hv) h1' n]
            have : h2 x = h x := frc.others x (Ne.symm hxc) (Or.inr hv)
            simp [cellAt, this]
      · intro n hn
        rw [hbr.names n (by simpa [leafKeys] using hn)]; simp [cellAt, h2m]


/-- two heaps bind the same objects under the same names in the same dicts, module by module
(the order of the entries inside `_parameters` / `_buffers` / `__dict__` is not compared) -/
def HeapEq (a b : Heap) : Prop := ∀ c, (∀ n, cellAt a c n = cellAt b c n) ∧ (a c).kids = (b c).kids

theorem HeapEq.refl (a : Heap) : HeapEq a a := fun _ => ⟨fun _ => rfl, rfl⟩
theorem HeapEq.symm {a b : Heap} (h : HeapEq a b) : HeapEq b a :=
  fun c => ⟨fun n => ((h c).1 n).symm, (h c).2.symm⟩
theorem HeapEq.trans {a b c : Heap} (h1 : HeapEq a b) (h2 : HeapEq b c) : HeapEq a c :=
  fun x => ⟨fun n => ((h1 x).1 n).trans ((h2 x).1 n), (h1 x).2.trans (h2 x).2⟩
theorem HeapEq.wf {a b : Heap} (h : HeapEq a b) (hb : HeapWF b) : HeapWF a :=
  fun c n => by rw [(h c).1 n]; exact hb c n

theorem swap_inv {h h' : Heap} {m : MId} {p s} (hs : swap h m p = .ok (h', s)) :
    ∃ memo1, swapEntries h [(m, none)] m p = .ok (h', memo1, s) := by
  unfold swap at hs
  split at hs
  · cases hs
  · rename_i h2 memo1 s2 hrun
    injection hs with hs; injection hs with e1 e2; subst e1 e2
    exact ⟨memo1, hrun⟩

/-- **Restoration.** After `swap h m p = (h', s)`, swapping `s` into the module from any heap that
binds what `h'` binds gives back a heap that binds what `h` bound. -/
theorem swap_restores {h h' g : Heap} {m : MId} {p s : List (Name × PTree)} (hwf : HeapWF h)
    (hnd : LeafNodup p) (hs : swap h m p = .ok (h', s)) (hg : HeapEq g h') :
    ∃ g' p', swap g m s = .ok (g', p') ∧ HeapEq g' h := by
  obtain ⟨memo1, hrun⟩ := swap_inv hs
  have hm0 : Memo.find [(m, none)] m = some none := by simp [find_cons]
  have fr1 := swap_frame p h _ m h' memo1 s hrun hm0
  obtain ⟨g1, gm1, p', hrun2, hb⟩ := swap_back p h _ m h' memo1 s hrun hm0 hwf hnd g [(m, none)] hm0
    (fun _ => rfl) (fun c _ _ n => (hg c).1 n) (fun n _ => (hg m).1 n)
    (fun c => by rw [(hg c).2, fr1.kids])
  have fr2 := swap_frame s g _ m g1 gm1 p' hrun2 hm0
  refine ⟨g1, p', ?_, ?_⟩
  · unfold swap; rw [hrun2]
  · intro c
    refine ⟨?_, by rw [fr2.kids, (hg c).2, fr1.kids]⟩
    intro n
    by_cases hcm : c = m
    · subst hcm
      by_cases hn : n ∈ leafKeys p
      · exact hb.names n hn
      · rw [fr2.names n (by rw [leafKeys_of_shape fr1.shp]; exact hn), (hg c).1 n, fr1.names n hn]
    · have h0 : Memo.find [(m, none)] c = none := by
        rw [find_cons, if_neg (Ne.symm hcm)]; rfl
      cases hv : memo1.find c with
      | some v => exact hb.mods c h0 (find_ne_none_of_some hv) n
      | none =>
        have e1 : g1 c = g c := fr2.others c hcm (Or.inr ((hb.sim.none_iff c).1 hv))
        have e2 : h' c = h c := fr1.others c hcm (Or.inr hv)
        have := (hg c).1 n
        simp only [cellAt, e1, e2] at this ⊢
        exact this


/-! ### with-blocks -/

mutual
/-- every parameter tensordict used by the program has pairwise distinct leaf keys in each node -/
def StmtOK : Stmt → Prop
  | .nop => True
  | .raise => True
  | .raiseBase => True
  | .block p _ _ body => LeafNodup p ∧ ProgOK body
  | .tryExcept body => ProgOK body
def ProgOK : List Stmt → Prop
  | [] => True
  | x :: xs => StmtOK x ∧ ProgOK xs
end

/-- what a run of a program fragment guarantees -/
structure ExecSpec (σ σ' : State) (st : Status) : Prop where
  noExitFail : st ≠ .exitFailed
  restored : st ≠ .entryFailed → HeapEq σ'.heap σ.heap
  store : st ≠ .entryFailed → ∃ new : List TdObj, σ'.tds = σ.tds ++ new ∧ ∀ td ∈ new, td.queue = []

theorem toModule_ok {σ σ1 : State} {p m i} {temp : Bool} (h : toModule σ p m temp = .ok (σ1, i)) :
    ∃ sw, swap σ.heap m p = .ok (σ1.heap, sw) ∧ i = σ.tds.length ∧
      σ1.tds = σ.tds ++ [{ tree := sw, lastOp := some (m, if temp then none else some p) }] := by
  unfold toModule at h
  split at h
  · cases h
  · rename_i h1 sw hsw
    injection h with h; injection h with e1 e2; subst e1 e2
    exact ⟨sw, hsw, rfl, rfl⟩

theorem getD_append_mid (a new : List TdObj) (x : TdObj) :
    (a ++ [x] ++ new).getD a.length default = x := by
  simp [List.getD, List.getElem?_append_left, List.getElem?_append_right]

theorem set_append_mid (a new : List TdObj) (x y : TdObj) :
    (a ++ [x] ++ new).set a.length y = a ++ [y] ++ new := by
  simp [List.set_append]


theorem exit_ok {σ3 : State} {a new : List TdObj} {sw p : List (Name × PTree)} {m : MId} {h0 h1 : Heap}
    (r : Bool) (src : Option (List (Name × PTree)))
    (htds : σ3.tds = a ++ [{ tree := sw, lastOp := some (m, src), queue := [some (m, src)] }] ++ new)
    (hwf : HeapWF h0) (hnd : LeafNodup p) (hs : swap h0 m p = .ok (h1, sw)) (hg : HeapEq σ3.heap h1) :
    ∃ σ4 res, exitBlock σ3 a.length r = (σ4, res) ∧ res ≠ .failed ∧ HeapEq σ4.heap h0 ∧
      σ4.tds = a ++ [{ tree := sw, lastOp := some (m, src), queue := [] }] ++ new := by
  obtain ⟨g', p', hsw, heq⟩ := swap_restores hwf hnd hs hg
  cases src with
  | none =>
    refine ⟨{ heap := g', tds := a ++ [{ tree := sw, lastOp := some (m, none), queue := [] }] ++ new }, .ok, ?_, by simp, heq, rfl⟩
    unfold exitBlock
    simp only [State.td, htds, getD_append_mid, State.setTd, set_append_mid]
    rw [hsw]
  | some sp =>
    cases hq : quickSet p' sp with
    | ok v =>
      refine ⟨{ heap := g', tds := a ++ [{ tree := sw, lastOp := some (m, some sp), queue := [] }] ++ new }, .ok, ?_, by simp, heq, rfl⟩
      unfold exitBlock
      simp only [State.td, htds, getD_append_mid, State.setTd, set_append_mid]
      rw [hsw]; simp only [hq]
    | error e =>
      refine ⟨{ heap := g', tds := a ++ [{ tree := sw, lastOp := some (m, some sp), queue := [] }] ++ new }, .raised, ?_, by simp, heq, rfl⟩
      unfold exitBlock
      simp only [State.td, htds, getD_append_mid, State.setTd, set_append_mid]
      rw [hsw]; simp only [hq]

mutual
theorem execStmt_spec : ∀ (x : Stmt) (σ : State), HeapWF σ.heap → StmtOK x →
    ExecSpec σ (execStmt exitBlock σ x).1 (execStmt exitBlock σ x).2
  | .nop, σ, _, _ => by
    simp only [execStmt]
    exact ⟨by simp, fun _ => HeapEq.refl _, fun _ => ⟨[], by simp, by simp⟩⟩
  | .raise, σ, _, _ => by
    simp only [execStmt]
    exact ⟨by simp, fun _ => HeapEq.refl _, fun _ => ⟨[], by simp, by simp⟩⟩
  | .raiseBase, σ, _, _ => by
    simp only [execStmt]
    exact ⟨by simp, fun _ => HeapEq.refl _, fun _ => ⟨[], by simp, by simp⟩⟩
  | .tryExcept body, σ, hwf, hok => by
    have ih := execList_spec body σ hwf (by simpa [StmtOK] using hok)
    simp only [execStmt]
    generalize execList exitBlock σ body = r at ih
    obtain ⟨σ', st⟩ := r
    cases st
    · exact ih
    · exact ⟨by simp, fun _ => ih.restored (by simp), fun _ => ih.store (by simp)⟩
    · exact ih
    · exact ih
    · exact ih
  | .block p m temp body, σ, hwf, hok => by
    simp only [StmtOK] at hok
    obtain ⟨hnd, hbody⟩ := hok
    simp only [execStmt]
    cases htm : toModule σ p m temp with
    | error σ' => exact ⟨by simp, fun h => absurd rfl h, fun h => absurd rfl h⟩
    | ok r =>
      obtain ⟨σ1, i⟩ := r
      obtain ⟨sw, hsw, hi, htds1⟩ := toModule_ok htm
      subst hi
      have hwf1 : HeapWF σ1.heap := by
        obtain ⟨memo1, hrun⟩ := swap_inv hsw
        exact swap_wf p _ _ m _ memo1 sw hrun hwf
      -- the state after __enter__
      have henter : (enterBlock σ1 σ.tds.length).tds =
          σ.tds ++ [{ tree := sw, lastOp := some (m, if temp then none else some p),
                      queue := [some (m, if temp then none else some p)] }] ++ [] := by
        have := getD_append_mid σ.tds [] { tree := sw, lastOp := some (m, if temp then none else some p) }
        have h2 := set_append_mid σ.tds [] { tree := sw, lastOp := some (m, if temp then none else some p) }
        simp only [List.append_nil] at this h2
        simp only [enterBlock, State.td, State.setTd, htds1, this, h2, List.append_nil]
      have hheap : (enterBlock σ1 σ.tds.length).heap = σ1.heap := rfl
      have ih := execList_spec body (enterBlock σ1 σ.tds.length) (by rw [hheap]; exact hwf1) hbody
      simp only
      generalize execList exitBlock (enterBlock σ1 σ.tds.length) body = rb at ih
      obtain ⟨σ3, st⟩ := rb
      have hexit : st ≠ .entryFailed → ∀ r, ∃ σ4 res, exitBlock σ3 σ.tds.length r = (σ4, res) ∧ res ≠ .failed ∧ HeapEq σ4.heap σ.heap ∧
          ∃ new : List TdObj, σ4.tds = σ.tds ++ new ∧ ∀ td ∈ new, td.queue = [] := by
        intro hst r
        obtain ⟨new, hnew, hq⟩ := ih.store hst
        rw [henter, List.append_nil] at hnew
        have hg : HeapEq σ3.heap σ1.heap := by have := ih.restored hst; rw [hheap] at this; exact this
        obtain ⟨σ4, res, he, hres, heq, htd4⟩ := exit_ok r _ hnew hwf hnd hsw hg
        refine ⟨σ4, res, he, hres, heq, { tree := sw, lastOp := some (m, if temp then none else some p), queue := [] } :: new, by rw [htd4]; simp, ?_⟩
        intro td htd
        simp only [List.mem_cons] at htd
        rcases htd with rfl | htd
        · rfl
        · exact hq td htd
      cases st
      · obtain ⟨σ4, res, he, hres, heq, hst4⟩ := hexit (by simp) (Status.normal == Status.raised)
        simp only [he]
        cases res
        · exact ⟨by simp, fun _ => heq, fun _ => hst4⟩
        · exact ⟨by simp, fun _ => heq, fun _ => hst4⟩
        · exact absurd rfl hres
      · obtain ⟨σ4, res, he, hres, heq, hst4⟩ := hexit (by simp) (Status.raised == Status.raised)
        simp only [he]
        cases res
        · exact ⟨by simp, fun _ => heq, fun _ => hst4⟩
        · exact ⟨by simp, fun _ => heq, fun _ => hst4⟩
        · exact absurd rfl hres
      · obtain ⟨σ4, res, he, hres, heq, hst4⟩ := hexit (by simp) (Status.raisedBase == Status.raised)
        simp only [he]
        cases res
        · exact ⟨by simp, fun _ => heq, fun _ => hst4⟩
        · exact ⟨by simp, fun _ => heq, fun _ => hst4⟩
        · exact absurd rfl hres
      · exact ⟨by simp, fun h => absurd rfl h, fun h => absurd rfl h⟩
      · exact absurd rfl ih.noExitFail
theorem execList_spec : ∀ (xs : List Stmt) (σ : State), HeapWF σ.heap → ProgOK xs →
    ExecSpec σ (execList exitBlock σ xs).1 (execList exitBlock σ xs).2
  | [], σ, _, _ => by
    simp only [execList]
    exact ⟨by simp, fun _ => HeapEq.refl _, fun _ => ⟨[], by simp, by simp⟩⟩
  | x :: xs, σ, hwf, hok => by
    simp only [ProgOK] at hok
    have ih1 := execStmt_spec x σ hwf hok.1
    simp only [execList]
    generalize execStmt exitBlock σ x = r1 at ih1
    obtain ⟨σ', st⟩ := r1
    cases st
    · have heq := ih1.restored (by simp)
      have ih2 := execList_spec xs σ' (HeapEq.wf heq hwf) hok.2
      simp only
      refine ⟨ih2.noExitFail, fun h => (ih2.restored h).trans heq, fun h => ?_⟩
      obtain ⟨n1, h1, q1⟩ := ih1.store (by simp)
      obtain ⟨n2, h2, q2⟩ := ih2.store h
      refine ⟨n1 ++ n2, by rw [h2, h1, List.append_assoc], ?_⟩
      intro td htd
      rcases List.mem_append.1 htd with h | h
      · exact q1 td h
      · exact q2 td h
    · exact ih1
    · exact ih1
    · exact ih1
    · exact ih1
end


/-! ### from_module -/

theorem Dict.set_fresh {α : Type} (d : Dict α) (k : Name) (v : α) (h : k ∉ Dict.keys d) :
    Dict.set d k v = d ++ [(k, v)] := by
  induction d with
  | nil => rfl
  | cons e r ih =>
    obtain ⟨k0, v0⟩ := e
    simp only [Dict.keys, List.map_cons, List.mem_cons, not_or] at h
    simp only [Dict.set, if_neg (Ne.symm h.1), List.cons_append]
    rw [ih (by simpa [Dict.keys] using h.2)]

theorem foldl_set_fresh {α : Type} : ∀ (l d : Dict α), (Dict.keys (d ++ l)).Nodup →
    l.foldl (fun d e => Dict.set d e.1 e.2) d = d ++ l
  | [], d, _ => by simp
  | (k, v) :: l, d, h => by
    have hk : k ∉ Dict.keys d := by
      simp only [Dict.keys, List.map_append, List.map_cons] at h
      have := (List.nodup_append.1 h).2.2
      intro hin
      exact this k hin k (by simp) rfl
    simp only [List.foldl_cons]
    rw [Dict.set_fresh d k v hk, foldl_set_fresh l (d ++ [(k, v)]) (by simpa [List.append_assoc] using h)]
    simp [List.append_assoc]

theorem flatten_append : ∀ (a b : List (Name × PTree)), flatten (a ++ b) = flatten a ++ flatten b
  | [], b => by simp [flatten]
  | (k, .leaf t) :: a, b => by simp [flatten, flatten_append a b]
  | (k, .node es) :: a, b => by simp [flatten, flatten_append a b, List.append_assoc]

theorem flatten_someEntries (d : Dict (Option Tn)) :
    flatten (someEntries d) = d.filterMap (fun e => e.2.map (fun t => ([e.1], t))) := by
  induction d with
  | nil => simp [someEntries, flatten]
  | cons e r ih =>
    obtain ⟨k, v⟩ := e
    cases v with
    | none => simpa [someEntries, List.filterMap_cons] using ih
    | some t =>
      simp only [someEntries, List.filterMap_cons, Option.map_some, flatten] at ih ⊢
      rw [ih]

theorem keys_someEntries_sublist (d : Dict (Option Tn)) :
    List.Sublist (Dict.keys (someEntries d)) (Dict.keys d) := by
  induction d with
  | nil => simp [someEntries, Dict.keys]
  | cons e r ih =>
    obtain ⟨k, v⟩ := e
    cases v with
    | none =>
      simp only [someEntries, List.filterMap_cons, Option.map_none, Dict.keys, List.map_cons] at ih ⊢
      exact List.Sublist.cons _ ih
    | some t =>
      simp only [someEntries, List.filterMap_cons, Option.map_some, Dict.keys, List.map_cons] at ih ⊢
      exact List.Sublist.cons_cons _ ih

/-- torch's registration invariant: one name is used at most once among the parameters, buffers
and children of a module -/
def NamesWF (md : Mod) : Prop := (Dict.keys md.params ++ Dict.keys md.buffers ++ Dict.keys md.kids).Nodup

theorem own_eq (md : Mod) (hwf : NamesWF md) :
    ((someEntries md.params) ++ (someEntries md.buffers)).foldl (fun d e => Dict.set d e.1 e.2) ([] : Dict PTree)
      = someEntries md.params ++ someEntries md.buffers := by
  have := foldl_set_fresh (someEntries md.params ++ someEntries md.buffers) [] (by
    simp only [List.nil_append, Dict.keys, List.map_append]
    have h1 : ((Dict.keys md.params) ++ (Dict.keys md.buffers)).Nodup := (List.nodup_append.1 hwf).1
    exact List.Nodup.sublist (List.Sublist.append (keys_someEntries_sublist _) (keys_someEntries_sublist _)) h1)
  simpa using this

theorem fromKids_spec (h : Heap) (fuel : Nat)
    (ihm : ∀ c r, fromModule h fuel c = .ok r → namedTensors h fuel c = .ok (flatten (r.getD []))) :
    ∀ (kids : List (Name × Option MId)) (dest d' : Dict PTree), fromKids h fuel kids dest = .ok d' →
      (Dict.keys dest ++ Dict.keys kids).Nodup →
      ∃ l, namedKids h fuel kids = .ok l ∧ flatten d' = flatten dest ++ l
  | [], dest, d', hk, _ => by
    simp only [fromKids] at hk; injection hk with hk; subst hk
    exact ⟨[], by simp [namedKids], by simp⟩
  | (k, none) :: rest, dest, d', hk, hnd => by
    simp only [fromKids] at hk
    have hnd' : (Dict.keys dest ++ Dict.keys rest).Nodup := by
      simp only [Dict.keys, List.map_cons] at hnd ⊢
      exact List.Nodup.sublist (List.Sublist.append (List.Sublist.refl _) (List.Sublist.cons _ (List.Sublist.refl _))) hnd
    obtain ⟨l, h1, h2⟩ := fromKids_spec h fuel ihm rest dest d' hk hnd'
    exact ⟨l, by simp [namedKids, h1], h2⟩
  | (k, some c) :: rest, dest, d', hk, hnd => by
    simp only [fromKids] at hk
    have hkd : k ∉ Dict.keys dest := by
      simp only [Dict.keys, List.map_cons] at hnd
      have := (List.nodup_append.1 hnd).2.2
      intro hin; exact this k hin k (by simp) rfl
    have hnd0 : (Dict.keys dest ++ Dict.keys rest).Nodup := by
      simp only [Dict.keys, List.map_cons] at hnd ⊢
      exact List.Nodup.sublist (List.Sublist.append (List.Sublist.refl _) (List.Sublist.cons _ (List.Sublist.refl _))) hnd
    cases hc : fromModule h fuel c with
    | error e => simp [hc] at hk
    | ok r =>
      have hn := ihm c r hc
      cases r with
      | none =>
        simp only [hc] at hk
        obtain ⟨l, h1, h2⟩ := fromKids_spec h fuel ihm rest dest d' hk hnd0
        refine ⟨l, ?_, h2⟩
        simp only [namedKids, hn, h1]; simp [flatten]
      | some sub =>
        simp only [hc] at hk
        rw [Dict.set_fresh dest k _ hkd] at hk
        have hnd1 : (Dict.keys (dest ++ [(k, PTree.node sub)]) ++ Dict.keys rest).Nodup := by
          simp only [Dict.keys, List.map_cons, List.map_append, List.map_nil, List.append_assoc] at hnd ⊢
          simpa using hnd
        obtain ⟨l, h1, h2⟩ := fromKids_spec h fuel ihm rest _ d' hk hnd1
        refine ⟨(flatten sub).map (fun e => (k :: e.1, e.2)) ++ l, ?_, ?_⟩
        · simp only [namedKids, hn, h1]; rfl
        · rw [h2, flatten_append]; simp [flatten, List.append_assoc]

theorem fromModule_spec (h : Heap) (hwf : ∀ c, NamesWF (h c)) :
    ∀ (fuel : Nat) (m : MId) r, fromModule h fuel m = .ok r → namedTensors h fuel m = .ok (flatten (r.getD []))
  | 0, m, r, hr => by simp [fromModule] at hr
  | fuel + 1, m, r, hr => by
    simp only [fromModule] at hr
    rw [own_eq (h m) (hwf m)] at hr
    cases hk : fromKids h fuel (h m).kids (someEntries (h m).params ++ someEntries (h m).buffers) with
    | error e => simp [hk] at hr
    | ok dest =>
      simp only [hk] at hr
      have hnd : (Dict.keys (someEntries (h m).params ++ someEntries (h m).buffers) ++ Dict.keys (h m).kids).Nodup := by
        have := hwf m
        unfold NamesWF at this
        simp only [Dict.keys, List.map_append] at this ⊢
        exact List.Nodup.sublist (List.Sublist.append
          (List.Sublist.append (keys_someEntries_sublist _) (keys_someEntries_sublist _)) (List.Sublist.refl _)) this
      obtain ⟨l, h1, h2⟩ := fromKids_spec h fuel (fromModule_spec h hwf fuel) (h m).kids _ dest hk hnd
      have hown : flatten (someEntries (h m).params ++ someEntries (h m).buffers) = ownTensors (h m) := by
        rw [flatten_append, flatten_someEntries, flatten_someEntries]; simp [ownTensors, List.filterMap_append]
      simp only [namedTensors, h1]
      split at hr
      · injection hr with hr; subst hr
        rename_i hemp
        have : dest = [] := by simpa using hemp
        subst this
        simp only [Option.getD_none]
        rw [← hown, ← h2]
      · injection hr with hr; subst hr
        simp only [Option.getD_some]
        rw [h2, hown]


/-! ### what a swap returns / installs -/

/-- the cell binds the object `t` (in `_parameters`, `_buffers` or `__dict__`) -/
def Holds (c : Cell) (t : Tn) : Prop := c.p = some (some t) ∨ c.b = some (some t) ∨ c.d = some t

/-- every leaf of the tree is bound, under its key, in the module found by following `_modules` along
the nested keys -/
def Installs (h : Heap) : MId → List (Name × PTree) → Prop
  | _, [] => True
  | m, (k, .leaf t) :: r => Holds (cellAt h m k) t ∧ Installs h m r
  | m, (k, .node es) :: r =>
    (∃ c, Dict.get? (h m).kids k = some (some c) ∧ Installs h c es) ∧ Installs h m r

theorem cellSwap_out_held {c c' : Cell} {t out : Tn} (h : cellSwap c t = some (c', out)) : Holds c out := by
  obtain ⟨p, b, d⟩ := c
  unfold cellSwap at h
  rcases p with _ | _ | v <;> rcases b with _ | _ | w <;> rcases d with _ | u <;>
    simp [Option.join] at h <;> simp [Holds, h.2]

theorem cellSwap_in_held {c c' : Cell} {t out : Tn} (h : cellSwap c t = some (c', out)) : Holds c' t := by
  have hp : ∀ (c : Cell) (wb : Bool), Holds (cellPlace c t wb) t := by
    intro c wb; unfold cellPlace Holds; cases wb <;> cases t.isParam <;> simp
  unfold cellSwap at h
  split at h
  · injection h with h; injection h with h1 _; subst h1; exact hp _ _
  · split at h
    · injection h with h; injection h with h1 _; subst h1; simp [Holds]
    · split at h
      · injection h with h; injection h with h1 _; subst h1; exact hp _ _
      · cases h

/-- **What a run returns.** The swap computed by a run consists of the objects that the heap bound at
the visited places before the run (stated for any heap `hi` agreeing with the start heap on the cells
the run writes). -/
theorem swap_outs_held : ∀ (es : List (Name × PTree)) (h : Heap) (memo : Memo) (m : MId) (h1 : Heap)
    (memo1 : Memo) (outs : List (Name × PTree)),
    swapEntries h memo m es = .ok (h1, memo1, outs) → memo.find m = some none → LeafNodup es →
    ∀ hi : Heap, (∀ c sw, memo.find c = some (some sw) → Installs hi c sw) →
      (∀ c, memo.find c = none → memo1.find c ≠ none → ∀ n, cellAt hi c n = cellAt h c n) →
      (∀ n, n ∈ leafKeys es → cellAt hi m n = cellAt h m n) →
      (∀ c, (hi c).kids = (h c).kids) →
      Installs hi m outs ∧ (∀ c sw, memo1.find c = some (some sw) → Installs hi c sw)
  | [], h, memo, m, h1, memo1, outs, hr, _, _ => by
    intro hi hmemo _ _ _
    rw [swapEntries_nil] at hr
    injection hr with hr; injection hr with e1 hr; injection hr with e2 e3
    subst e1 e2 e3
    exact ⟨by simp [Installs], hmemo⟩
  | (k, .leaf t) :: rest, h, memo, m, h1, memo1, outs, hr, hm, hnd => by
    intro hi hmemo hmods hnames hkids
    obtain ⟨md, out, outs', hst, hrest, rfl⟩ := swapEntries_leaf_inv hr
    simp only [LeafNodup] at hnd
    obtain ⟨hknot, hnd'⟩ := hnd
    obtain ⟨hcs, hfr, hkd⟩ := setTensor_ok hst
    have ih := swap_outs_held rest (h.upd m md) memo m h1 memo1 outs' hrest hm hnd' hi hmemo
      (by
        intro c h0 h1' n
        have hcm : c ≠ m := by intro e; subst e; rw [hm] at h0; cases h0
        rw [cellAt_upd, if_neg hcm]; exact hmods c h0 h1' n)
      (by
        intro n hn
        have hnk : n ≠ k := by intro e; subst e; exact hknot hn
        rw [cellAt_upd, if_pos rfl, hfr n hnk]
        exact hnames n (by simp [leafKeys, hn]))
      (by
        intro c; unfold Heap.upd; split
        · rename_i hc; subst hc; rw [hkd]; exact hkids c
        · exact hkids c)
    refine ⟨?_, ih.2⟩
    simp only [Installs]
    refine ⟨?_, ih.1⟩
    rw [hnames k (by simp [leafKeys])]
    exact cellSwap_out_held hcs
  | (k, .node es) :: rest, h, memo, m, h1, memo1, outs, hr, hm, hnd => by
    intro hi hmemo hmods hnames hkids
    simp only [LeafNodup] at hnd
    obtain ⟨hnd1, hnd2⟩ := hnd
    obtain ⟨c, hk, hcase⟩ := swapEntries_node_inv hr
    have hki : Dict.get? (hi m).kids k = some (some c) := by rw [hkids m]; exact hk
    rcases hcase with ⟨sw, outs', hhit, hrest, rfl⟩ | ⟨h2, memo2, sw, outs', hmiss, hchild, hrest, rfl⟩
    · have ih := swap_outs_held rest h memo m h1 memo1 outs' hrest hm hnd2 hi hmemo hmods
        (fun n hn => hnames n (by simpa [leafKeys] using hn)) hkids
      refine ⟨?_, ih.2⟩
      simp only [Installs]
      exact ⟨⟨c, hki, hmemo c sw hhit⟩, ih.1⟩
    · have hcm : c ≠ m := by intro e; subst e; rw [hmiss] at hm; cases hm
      have frc := swap_frame es h ((c, none) :: memo) c h2 memo2 sw hchild (by simp [find_cons])
      have hm2 : Memo.find ((c, some sw) :: memo2) m = some none := by
        rw [find_cons, if_neg hcm]; apply frc.keep; rw [find_cons, if_neg hcm]; exact hm
      have frr := swap_frame rest h2 ((c, some sw) :: memo2) m h1 memo1 outs' hrest hm2
      have hc1 : memo1.find c ≠ none := find_ne_none_of_some (frr.keep c (some sw) (by simp [find_cons]))
      have h2m : h2 m = h m := frc.others m (Ne.symm hcm) (Or.inl (by rw [find_cons, if_neg hcm, hm]; simp))
      have ihc := swap_outs_held es h ((c, none) :: memo) c h2 memo2 sw hchild (by simp [find_cons]) hnd1 hi
        (by
          intro x sw' hx
          have hxc : c ≠ x := by intro e; subst e; simp [find_cons] at hx
          rw [find_cons, if_neg hxc] at hx
          exact hmemo x sw' hx)
        (by
          intro x h0 h1' n
          have hxc : c ≠ x := by intro e; subst e; simp [find_cons] at h0
          rw [find_cons, if_neg hxc] at h0
          have hx1 : memo1.find x ≠ none := by
            cases hv : memo2.find x with
            | none => exact absurd hv h1'
            | some v => exact find_ne_none_of_some (frr.keep x v (by rw [find_cons, if_neg hxc]; exact hv))
          exact hmods x h0 hx1 n)
        (fun n _ => hmods c hmiss hc1 n)
        hkids
      have ihr := swap_outs_held rest h2 ((c, some sw) :: memo2) m h1 memo1 outs' hrest hm2 hnd2 hi
        (by
          intro x sw' hx
          by_cases hxc : c = x
          · subst hxc
            simp [find_cons] at hx; subst hx
            exact ihc.1
          · rw [find_cons, if_neg hxc] at hx
            exact ihc.2 x sw' hx)
        (by
          intro x h0 h1' n
          have hxc : c ≠ x := by intro e; subst e; simp [find_cons] at h0
          rw [find_cons, if_neg hxc] at h0
          have h00 : memo.find x = none := by
            cases hv : memo.find x with
            | none => rfl
            | some v =>
              have := frc.keep x v (by rw [find_cons, if_neg hxc]; exact hv)
              rw [h0] at this; cases this
          have : h2 x = h x := frc.others x (Ne.symm hxc) (Or.inr h0)
          rw [hmods x h00 h1' n]; simp [cellAt, this])
        (by
          intro n hn
          rw [hnames n (by simpa [leafKeys] using hn)]; simp [cellAt, h2m])
        (by intro x; rw [frc.kids]; exact hkids x)
      refine ⟨?_, ihr.2⟩
      simp only [Installs]
      exact ⟨⟨c, hki, ihc.1⟩, ihr.1⟩


theorem swap_outs_nodup : ∀ (es : List (Name × PTree)) (h : Heap) (memo : Memo) (m : MId) (h1 : Heap)
    (memo1 : Memo) (outs : List (Name × PTree)),
    swapEntries h memo m es = .ok (h1, memo1, outs) → memo.find m = some none → LeafNodup es →
    (∀ c sw, memo.find c = some (some sw) → LeafNodup sw) →
    LeafNodup outs ∧ (∀ c sw, memo1.find c = some (some sw) → LeafNodup sw)
  | [], h, memo, m, h1, memo1, outs, hr, _, _, hmemo => by
    rw [swapEntries_nil] at hr
    injection hr with hr; injection hr with e1 hr; injection hr with e2 e3
    subst e1 e2 e3
    exact ⟨by simp [LeafNodup], hmemo⟩
  | (k, .leaf t) :: rest, h, memo, m, h1, memo1, outs, hr, hm, hnd, hmemo => by
    obtain ⟨md, out, outs', hst, hrest, rfl⟩ := swapEntries_leaf_inv hr
    simp only [LeafNodup] at hnd
    have fr := swap_frame rest (h.upd m md) memo m h1 memo1 outs' hrest hm
    have ih := swap_outs_nodup rest _ memo m h1 memo1 outs' hrest hm hnd.2 hmemo
    refine ⟨?_, ih.2⟩
    simp only [LeafNodup]
    exact ⟨by rw [leafKeys_of_shape fr.shp]; exact hnd.1, ih.1⟩
  | (k, .node es) :: rest, h, memo, m, h1, memo1, outs, hr, hm, hnd, hmemo => by
    simp only [LeafNodup] at hnd
    obtain ⟨c, hk, hcase⟩ := swapEntries_node_inv hr
    rcases hcase with ⟨sw, outs', hhit, hrest, rfl⟩ | ⟨h2, memo2, sw, outs', hmiss, hchild, hrest, rfl⟩
    · have ih := swap_outs_nodup rest h memo m h1 memo1 outs' hrest hm hnd.2 hmemo
      refine ⟨?_, ih.2⟩
      simp only [LeafNodup]
      exact ⟨hmemo c sw hhit, ih.1⟩
    · have hcm : c ≠ m := by intro e; subst e; rw [hmiss] at hm; cases hm
      have frc := swap_frame es h ((c, none) :: memo) c h2 memo2 sw hchild (by simp [find_cons])
      have hm2 : Memo.find ((c, some sw) :: memo2) m = some none := by
        rw [find_cons, if_neg hcm]; apply frc.keep; rw [find_cons, if_neg hcm]; exact hm
      have ihc := swap_outs_nodup es h ((c, none) :: memo) c h2 memo2 sw hchild (by simp [find_cons]) hnd.1
        (by
          intro x sw' hx
          have hxc : c ≠ x := by intro e; subst e; simp [find_cons] at hx
          rw [find_cons, if_neg hxc] at hx
          exact hmemo x sw' hx)
      have ihr := swap_outs_nodup rest h2 ((c, some sw) :: memo2) m h1 memo1 outs' hrest hm2 hnd.2
        (by
          intro x sw' hx
          by_cases hxc : c = x
          · subst hxc; simp [find_cons] at hx; subst hx; exact ihc.1
          · rw [find_cons, if_neg hxc] at hx; exact ihc.2 x sw' hx)
      refine ⟨?_, ihr.2⟩
      simp only [LeafNodup]
      exact ⟨ihc.1, ihr.1⟩

theorem swap_nodup {h h' : Heap} {m : MId} {p s} (hs : swap h m p = .ok (h', s)) (hnd : LeafNodup p) :
    LeafNodup s := by
  obtain ⟨memo1, hrun⟩ := swap_inv hs
  exact (swap_outs_nodup p h _ m h' memo1 s hrun (by simp [find_cons]) hnd (by
    intro c sw hc
    rw [find_cons] at hc
    split at hc
    · cases hc
    · simp [Memo.find] at hc)).1

theorem swap_held {h h' : Heap} {m : MId} {p s} (hs : swap h m p = .ok (h', s)) (hnd : LeafNodup p) :
    Installs h m s := by
  obtain ⟨memo1, hrun⟩ := swap_inv hs
  exact (swap_outs_held p h _ m h' memo1 s hrun (by simp [find_cons]) hnd h (by
    intro c sw hc
    rw [find_cons] at hc
    split at hc
    · cases hc
    · simp [Memo.find] at hc) (fun _ _ _ _ => rfl) (fun _ _ => rfl) (fun _ => rfl)).1


/-! ### use_state_dict=True -/

theorem nodesRenest_node (k : Name) (es r : List (Name × PTree)) :
    nodesRenest ((k, .node es) :: r) =
      (if pruneEmpty es = [] then nodesRenest r else (k, .node (pruneEmpty es)) :: nodesRenest r) := by
  by_cases h : pruneEmpty es = []
  · rw [if_pos h]
    have h' : leavesOf es ++ nodesRenest es = [] := h
    simp only [nodesRenest, h']
  · rw [if_neg h]
    have h' : ¬ (leavesOf es ++ nodesRenest es = []) := h
    simp only [nodesRenest]
    rfl

theorem leafKeys_append (a b : List (Name × PTree)) : leafKeys (a ++ b) = leafKeys a ++ leafKeys b := by
  induction a with
  | nil => rfl
  | cons x a ih =>
    obtain ⟨k, v⟩ := x
    cases v <;> simp [leafKeys, ih]

theorem leafKeys_leavesOf : ∀ (es : List (Name × PTree)), leafKeys (leavesOf es) = leafKeys es
  | [] => by simp [leavesOf, leafKeys]
  | (k, .leaf t) :: r => by simp [leavesOf, leafKeys, leafKeys_leavesOf r]
  | (k, .node es) :: r => by simp [leavesOf, leafKeys, leafKeys_leavesOf r]

theorem leafKeys_nodesRenest : ∀ (es : List (Name × PTree)), leafKeys (nodesRenest es) = []
  | [] => by simp [nodesRenest, leafKeys]
  | (k, .leaf t) :: r => by simp [nodesRenest, leafKeys_nodesRenest r]
  | (k, .node es) :: r => by
    rw [nodesRenest_node]; split <;> simp [leafKeys, leafKeys_nodesRenest r]

theorem leafKeys_prune (es : List (Name × PTree)) : leafKeys (pruneEmpty es) = leafKeys es := by
  simp [pruneEmpty, leafKeys_append, leafKeys_leavesOf, leafKeys_nodesRenest]

/-- leaves first, then nested entries; no nested entry without content — at every depth -/
def Normal : List (Name × PTree) → Prop
  | [] => True
  | (_, .leaf _) :: r => Normal r
  | (_, .node es) :: r => es ≠ [] ∧ Normal es ∧ Normal r ∧ leafKeys r = []

theorem leafNodup_leaves_nodes : ∀ (a b : List (Name × PTree)), LeafNodup a → LeafNodup b → leafKeys b = [] →
    LeafNodup (a ++ b)
  | [], b, _, hb, _ => hb
  | (k, .leaf t) :: a, b, ha, hb, hlb => by
    simp only [LeafNodup] at ha
    simp only [List.cons_append, LeafNodup, leafKeys_append, hlb, List.append_nil]
    exact ⟨ha.1, leafNodup_leaves_nodes a b ha.2 hb hlb⟩
  | (k, .node es) :: a, b, ha, hb, hlb => by
    simp only [LeafNodup] at ha
    simp only [List.cons_append, LeafNodup]
    exact ⟨ha.1, leafNodup_leaves_nodes a b ha.2 hb hlb⟩

theorem leafNodup_leavesOf : ∀ (es : List (Name × PTree)), LeafNodup es → LeafNodup (leavesOf es)
  | [], _ => by simp [leavesOf, LeafNodup]
  | (k, .leaf t) :: r, h => by
    simp only [LeafNodup] at h
    simp only [leavesOf, LeafNodup, leafKeys_leavesOf]
    exact ⟨h.1, leafNodup_leavesOf r h.2⟩
  | (k, .node es) :: r, h => by
    simp only [LeafNodup] at h
    simp only [leavesOf]; exact leafNodup_leavesOf r h.2

theorem leafNodup_nodesRenest : ∀ (es : List (Name × PTree)), LeafNodup es → LeafNodup (nodesRenest es)
  | [], _ => by simp [nodesRenest, LeafNodup]
  | (k, .leaf t) :: r, h => by
    simp only [LeafNodup] at h
    simp only [nodesRenest]; exact leafNodup_nodesRenest r h.2
  | (k, .node es) :: r, h => by
    simp only [LeafNodup] at h
    rw [nodesRenest_node]
    split
    · exact leafNodup_nodesRenest r h.2
    · simp only [LeafNodup, pruneEmpty]
      exact ⟨leafNodup_leaves_nodes _ _ (leafNodup_leavesOf es h.1) (leafNodup_nodesRenest es h.1) (leafKeys_nodesRenest es),
        leafNodup_nodesRenest r h.2⟩

theorem leafNodup_prune (es : List (Name × PTree)) (h : LeafNodup es) : LeafNodup (pruneEmpty es) :=
  leafNodup_leaves_nodes _ _ (leafNodup_leavesOf es h) (leafNodup_nodesRenest es h) (leafKeys_nodesRenest es)

theorem normal_leaves_nodes : ∀ (a b : List (Name × PTree)), (∀ x ∈ a, ∃ k t, x = (k, PTree.leaf t)) → Normal b →
    Normal (a ++ b)
  | [], b, _, hb => hb
  | x :: a, b, ha, hb => by
    obtain ⟨k, t, rfl⟩ := ha x (by simp)
    simp only [List.cons_append, Normal]
    exact normal_leaves_nodes a b (fun y hy => ha y (List.mem_cons_of_mem _ hy)) hb

theorem leavesOf_leaves : ∀ (es : List (Name × PTree)), ∀ x ∈ leavesOf es, ∃ k t, x = (k, PTree.leaf t)
  | [], x, h => by simp [leavesOf] at h
  | (k, .leaf t) :: r, x, h => by
    simp only [leavesOf, List.mem_cons] at h
    rcases h with rfl | h
    · exact ⟨k, t, rfl⟩
    · exact leavesOf_leaves r x h
  | (k, .node es) :: r, x, h => by
    simp only [leavesOf] at h; exact leavesOf_leaves r x h

theorem normal_nodesRenest : ∀ (es : List (Name × PTree)), Normal (nodesRenest es)
  | [] => by simp [nodesRenest, Normal]
  | (k, .leaf t) :: r => by simp only [nodesRenest]; exact normal_nodesRenest r
  | (k, .node es) :: r => by
    rw [nodesRenest_node]
    split
    · exact normal_nodesRenest r
    · rename_i hne
      simp only [Normal]
      exact ⟨hne, normal_leaves_nodes _ _ (leavesOf_leaves es) (normal_nodesRenest es), normal_nodesRenest r,
        leafKeys_nodesRenest r⟩

theorem normal_prune (es : List (Name × PTree)) : Normal (pruneEmpty es) :=
  normal_leaves_nodes _ _ (leavesOf_leaves es) (normal_nodesRenest es)

theorem leavesOf_of_noLeaf : ∀ (r : List (Name × PTree)), leafKeys r = [] → leavesOf r = []
  | [], _ => by simp [leavesOf]
  | (k, .leaf t) :: r, h => by simp [leafKeys] at h
  | (k, .node es) :: r, h => by
    simp only [leafKeys] at h; simp only [leavesOf]; exact leavesOf_of_noLeaf r h

/-- re-nesting a tensordict that is already in that form changes nothing -/
theorem prune_id : ∀ (es : List (Name × PTree)), Normal es → pruneEmpty es = es
  | [], _ => by simp [pruneEmpty, leavesOf, nodesRenest]
  | (k, .leaf t) :: r, h => by
    simp only [Normal] at h
    have := prune_id r h
    simp only [pruneEmpty, leavesOf, nodesRenest, List.cons_append] at this ⊢
    rw [this]
  | (k, .node es) :: r, h => by
    simp only [Normal] at h
    obtain ⟨hne, hes, hr, hnl⟩ := h
    have ihr := prune_id r hr
    have ihe := prune_id es hes
    simp only [pruneEmpty] at ihr
    rw [leavesOf_of_noLeaf r hnl, List.nil_append] at ihr
    simp only [pruneEmpty, leavesOf, leavesOf_of_noLeaf r hnl, List.nil_append]
    rw [nodesRenest_node, ihe, ihr]
    simp [hne]

theorem shape_nil_iff {a b : List (Name × PTree)} (h : shape a = shape b) : a = [] ↔ b = [] := by
  cases a with
  | nil => cases b with
    | nil => simp
    | cons y b => obtain ⟨k, v⟩ := y; cases v <;> simp [shape] at h
  | cons x a =>
    obtain ⟨k, v⟩ := x
    cases b with
    | nil => cases v <;> simp [shape] at h
    | cons y b => simp

/-- the swap of a tensordict without empty nested entries has none either -/
theorem swap_outs_normal : ∀ (es : List (Name × PTree)) (h : Heap) (memo : Memo) (m : MId) (h1 : Heap)
    (memo1 : Memo) (outs : List (Name × PTree)),
    swapEntries h memo m es = .ok (h1, memo1, outs) → memo.find m = some none → Normal es →
    (∀ c sw, memo.find c = some (some sw) → sw ≠ [] ∧ Normal sw) →
    Normal outs ∧ (∀ c sw, memo1.find c = some (some sw) → sw ≠ [] ∧ Normal sw)
  | [], h, memo, m, h1, memo1, outs, hr, _, _, hmemo => by
    rw [swapEntries_nil] at hr
    injection hr with hr; injection hr with e1 hr; injection hr with e2 e3
    subst e1 e2 e3
    exact ⟨by simp [Normal], hmemo⟩
  | (k, .leaf t) :: rest, h, memo, m, h1, memo1, outs, hr, hm, hne, hmemo => by
    obtain ⟨md, out, outs', hst, hrest, rfl⟩ := swapEntries_leaf_inv hr
    simp only [Normal] at hne ⊢
    exact swap_outs_normal rest _ memo m h1 memo1 outs' hrest hm hne hmemo
  | (k, .node es) :: rest, h, memo, m, h1, memo1, outs, hr, hm, hne, hmemo => by
    simp only [Normal] at hne
    obtain ⟨c, hk, hcase⟩ := swapEntries_node_inv hr
    rcases hcase with ⟨sw, outs', hhit, hrest, rfl⟩ | ⟨h2, memo2, sw, outs', hmiss, hchild, hrest, rfl⟩
    · have ih := swap_outs_normal rest h memo m h1 memo1 outs' hrest hm hne.2.2.1 hmemo
      have fr := swap_frame rest h memo m h1 memo1 outs' hrest hm
      simp only [Normal]
      exact ⟨⟨(hmemo c sw hhit).1, (hmemo c sw hhit).2, ih.1, by rw [leafKeys_of_shape fr.shp]; exact hne.2.2.2⟩, ih.2⟩
    · have hcm : c ≠ m := by intro e; subst e; rw [hmiss] at hm; cases hm
      have frc := swap_frame es h ((c, none) :: memo) c h2 memo2 sw hchild (by simp [find_cons])
      have hm2 : Memo.find ((c, some sw) :: memo2) m = some none := by
        rw [find_cons, if_neg hcm]; apply frc.keep; rw [find_cons, if_neg hcm]; exact hm
      have ihc := swap_outs_normal es h ((c, none) :: memo) c h2 memo2 sw hchild (by simp [find_cons]) hne.2.1
        (by
          intro x sw' hx
          have hxc : c ≠ x := by intro e; subst e; simp [find_cons] at hx
          rw [find_cons, if_neg hxc] at hx
          exact hmemo x sw' hx)
      have hswne : sw ≠ [] := fun e => hne.1 ((shape_nil_iff frc.shp).1 e)
      have hmemo2 : ∀ x sw', Memo.find ((c, some sw) :: memo2) x = some (some sw') → sw' ≠ [] ∧ Normal sw' := by
        intro x sw' hx
        by_cases hxc : c = x
        · subst hxc; simp [find_cons] at hx; subst hx; exact ⟨hswne, ihc.1⟩
        · rw [find_cons, if_neg hxc] at hx; exact ihc.2 x sw' hx
      have ihr := swap_outs_normal rest h2 ((c, some sw) :: memo2) m h1 memo1 outs' hrest hm2 hne.2.2.1 hmemo2
      have frr := swap_frame rest h2 ((c, some sw) :: memo2) m h1 memo1 outs' hrest hm2
      simp only [Normal]
      exact ⟨⟨hswne, ihc.1, ihr.1, by rw [leafKeys_of_shape frr.shp]; exact hne.2.2.2⟩, ihr.2⟩

theorem swap_normal {h h' : Heap} {m : MId} {p s} (hs : swap h m p = .ok (h', s)) (hne : Normal p) : Normal s := by
  obtain ⟨memo1, hrun⟩ := swap_inv hs
  exact (swap_outs_normal p h _ m h' memo1 s hrun (by simp [find_cons]) hne (by
    intro c sw hc
    rw [find_cons] at hc
    split at hc
    · cases hc
    · simp [Memo.find] at hc)).1

theorem namesWF_sdView (md : Mod) (h : NamesWF md) : NamesWF (sdView md) := by
  unfold NamesWF at h ⊢
  have hp : Dict.keys (sdView md).params = Dict.keys md.params := by
    simp [sdView, Dict.keys, List.map_map, Function.comp_def]
  have hb : List.Sublist (Dict.keys (sdView md).buffers) (Dict.keys md.buffers) := by
    simp only [sdView, Dict.keys, List.map_map, Function.comp_def]
    exact List.Sublist.map _ (List.filter_sublist)
  have hk : (sdView md).kids = md.kids := rfl
  rw [hp, hk]
  exact List.Nodup.sublist (List.Sublist.append (List.Sublist.append (List.Sublist.refl _) hb) (List.Sublist.refl _)) h

end TdVerif.C13
