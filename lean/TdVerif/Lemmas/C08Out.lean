/-
  C08 — torch.cat / torch.stack of lazy stacks with out=<lazy stack> (model: Model/C08Out.lean).
-/
import TdVerif.Model.C08Out
import TdVerif.Lemmas.C08CatN
namespace TdVerif.C08

/-- `torch.stack(items, dim, out=O)` with `dim = O.stack_dim`: member `i` of `O` is updated in
place with item `i`; `O` then materialises to the dense stack of the items (by definition). -/
theorem stack_out_same_dim [Inhabited α] (out : Lazy α) (items : List (TD α)) (out' : Lazy α)
    (h : lazyStackOnto out items out.sd = some out') :
    out'.sd = out.sd ∧ out'.members.length = out.members.length ∧ absL out' = stackTD items out.sd := by
  unfold lazyStackOnto at h
  simp only [if_true] at h
  split at h
  · simp at h
  rename_i hl
  simp only [Option.some.injEq] at h
  subst h
  exact ⟨rfl, Decidable.not_not.mp hl, rfl⟩

/-- **`torch.cat([L1, …, Lk], dim, out=O)` along the common stack dim of the operands and of `O`**:
the members of `O`, in order, receive the members of the operands; `O` then materialises to the
dense cat (the repaired branch: on the pinned tree `O` was left unchanged). -/
theorem cat_out_along_stack_dim [Inhabited α] (L0 : Lazy α) (rest : List (Lazy α)) (keys : List String)
    (feat : String → Shape)
    (hU : ∀ L ∈ L0 :: rest, Uniform L L0.mb keys feat ∧ L.members ≠ [])
    (out : Lazy α) (dim : Int) (out' : Lazy α)
    (hd : (if dim < 0 then (L0.batch.length : Int) + dim else dim) = (L0.sd : Int))
    (hout : out.sd = L0.sd)
    (h : lazyCatOut (L0 :: rest) dim out = some out') :
    out'.sd = out.sd ∧ out'.members = (L0 :: rest).flatMap Lazy.members ∧
      absL out' ≈ TD.catList ((L0 :: rest).map absL) L0.sd := by
  unfold lazyCatOut at h
  dsimp only at h
  rw [hd] at h
  split at h
  · simp at h
  split at h
  · simp at h
  rename_i hany
  have hsds : ∀ L ∈ L0 :: rest, L.sd = L0.sd := by
    intro L hL
    by_cases hs : L.sd = L0.sd
    · exact hs
    · exact absurd (List.any_eq_true.mpr ⟨L, hL, by simpa using hs⟩) hany
  split at h
  · simp at h
  simp only [Int.toNat_natCast] at h
  rw [if_neg (by rw [hout]; simp)] at h
  have hp : ((L0 :: rest).flatMap fun L => (lazyUnbind L L0.sd).map absR) = (L0 :: rest).flatMap Lazy.members := by
    have hone : ∀ L ∈ L0 :: rest, (lazyUnbind L L0.sd).map absR = L.members := by
      intro L hL
      unfold lazyUnbind
      rw [if_pos (hsds L hL).symm, List.map_map]
      apply List.map_id''
      intro m; rfl
    generalize (L0 :: rest) = Ls at hone
    induction Ls with
    | nil => rfl
    | cons a r ih =>
      simp only [List.flatMap_cons]
      rw [hone a (by simp), ih (fun L hL => hone L (List.mem_cons_of_mem _ hL))]
  rw [hp] at h
  split at h
  · simp at h
  simp only [Option.some.injEq] at h
  subst h
  refine ⟨rfl, rfl, ?_⟩
  rw [hout]
  exact cat_same_nary L0.mb keys feat L0.sd rest L0
    (fun L hL => ⟨(hU L hL).1, (hU L hL).2, hsds L hL⟩)

end TdVerif.C08
