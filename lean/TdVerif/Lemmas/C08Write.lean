/-
  C08 — write refinement (tensor level): writing through the dense stack = writing the slices of
  the value into the selected members through the member index.
-/
import TdVerif.Lemmas.C08Get
import TdVerif.Lemmas.C08Basic
namespace TdVerif.C08

theorem InB_cons {o d : Nat} {c : List Nat} {s : Shape} : InB (o :: c) (d :: s) ↔ o < d ∧ InB c s := Iff.rfl

theorem mem_allCoords_iff : ∀ (sh : Shape) (o : List Nat), o ∈ allCoords sh ↔ InB o sh
  | [], o => by cases o <;> simp [allCoords, InB]
  | d :: ds, [] => by simp [allCoords, InB]
  | d :: ds, x :: o => by
    simp only [allCoords, List.mem_flatMap, List.mem_range, List.mem_map, List.cons.injEq, InB]
    constructor
    · rintro ⟨i, hi, y, hy, rfl, rfl⟩
      exact ⟨hi, (mem_allCoords_iff ds _).mp hy⟩
    · rintro ⟨h1, h2⟩
      exact ⟨x, h1, o, (mem_allCoords_iff ds o).mpr h2, rfl, rfl⟩

theorem InB.eraseIdx : ∀ {c : List Nat} {s : Shape} (p : Nat), InB c s → InB (c.eraseIdx p) (s.eraseIdx p)
  | [], [], p, _ => by simp [InB]
  | o :: c, d :: s, 0, h => by simpa using h.2
  | o :: c, d :: s, p + 1, h => by
    simp only [List.eraseIdx_cons_succ]
    exact ⟨h.1, InB.eraseIdx p h.2⟩
  | [], _ :: _, _, h => by simp [InB] at h
  | _ :: _, [], _, h => by simp [InB] at h

theorem InB.insertIdx : ∀ {c : List Nat} {s : Shape} (p j len : Nat), p ≤ s.length → j < len → InB c s →
    InB (c.insertIdx p j) (s.insertIdx p len)
  | c, s, 0, j, len, _, hj, h => by simpa using ⟨hj, h⟩
  | [], [], p + 1, j, len, hp, _, _ => by simp at hp
  | o :: c, d :: s, p + 1, j, len, hp, hj, h => by
    simp only [List.insertIdx_succ_cons]
    exact ⟨h.1, InB.insertIdx p j len (by simpa using hp) hj h.2⟩
  | [], _ :: _, _ + 1, _, _, _, _, h => by simp [InB] at h
  | _ :: _, [], _ + 1, _, _, _, _, h => by simp [InB] at h

theorem eq_of_at0_eraseIdx : ∀ (a b : List Nat) (sd : Nat), a.length = b.length → sd < a.length →
    at0 a sd = at0 b sd → a.eraseIdx sd = b.eraseIdx sd → a = b
  | [], _, _, _, h, _, _ => by simp at h
  | _ :: _, [], _, h, _, _, _ => by simp at h
  | x :: a, y :: b, 0, hl, _, h1, h2 => by
    simp [at0] at h1; simp at h2; rw [h1, h2]
  | x :: a, y :: b, sd + 1, hl, hs, h1, h2 => by
    simp only [List.eraseIdx_cons_succ, List.cons.injEq] at h2
    rw [at0_cons_succ, at0_cons_succ] at h1
    rw [h2.1, eq_of_at0_eraseIdx a b sd (by simpa using hl) (by simpa using hs) h1 h2.2]

theorem idxCoord_length : ∀ (ix : List Ix) (sh s : Shape) (c : List Nat),
    idxShape ix sh = some s → InB c s → (idxCoord ix sh c).length = sh.length
  | [], sh, s, c, h, hc => by
    simp [idxShape] at h; subst h; simpa [idxCoord] using InB.length hc
  | .none :: r, sh, s, c, h, hc => by
    simp only [idxShape, Option.map_eq_some_iff] at h
    obtain ⟨s', hs', rfl⟩ := h
    cases c with
    | nil => simp [InB] at hc
    | cons o c' => simpa [idxCoord] using idxCoord_length r sh s' c' hs' hc.2
  | .ell :: r, sh, s, c, h, hc => by simp [idxShape] at h
  | .mask m :: r, sh, s, c, h, hc => by
    simp only [idxShape] at h
    split at h
    case isFalse => simp at h
    rename_i hm
    simp only [Option.map_eq_some_iff] at h
    obtain ⟨s', hs', rfl⟩ := h
    cases c with
    | nil => simp [InB] at hc
    | cons o c' =>
      have hk : m.shape.length ≤ sh.length := by
        have := congrArg List.length hm.2
        simp at this; omega
      have h1 := nonzero_getD_length m o hc.1
      have h2 := idxCoord_length r _ s' c' hs' hc.2
      simp only [idxCoord, at0_cons_zero, List.tail_cons, List.length_append, h1, h2, List.length_drop]
      omega
  | .int _ :: _, [], _, _, h, _ => by simp [idxShape] at h
  | .slice .. :: _, [], _, _, h, _ => by simp [idxShape] at h
  | .tens _ :: _, [], _, _, h, _ => by simp [idxShape] at h
  | .int i :: r, d :: sh, s, c, h, hc => by
    simp only [idxShape] at h
    split at h
    · simpa [idxCoord] using idxCoord_length r sh s c h hc
    · simp at h
  | .slice a b c' :: r, d :: sh, s, c, h, hc => by
    simp only [idxShape] at h
    split at h
    · split at h
      · simp only [Option.map_eq_some_iff] at h
        obtain ⟨s', hs', rfl⟩ := h
        cases c with
        | nil => simp [InB] at hc
        | cons o c'' => simpa [idxCoord] using idxCoord_length r sh s' c'' hs' hc.2
      · simp at h
    · simp at h
  | .tens t :: r, d :: sh, s, c, h, hc => by
    simp only [idxShape] at h
    split at h
    · simp only [Option.map_eq_some_iff] at h
      obtain ⟨s', hs', rfl⟩ := h
      simpa [idxCoord] using idxCoord_length r sh s' _ hs' (InB.drop_append _ hc)
    · simp at h

/-- `t'` is `t` after `t[ix] = v` (torch `index_put_` without duplicate targets): every value
coordinate lands where the index sends it, everything else is untouched. -/
structure IsSetT (ix : List Ix) (t v t' : T α) : Prop where
  shape : t'.shape = t.shape
  hit : ∀ o, InB o v.shape → t'.get (idxCoord ix t.shape o) = v.get o
  frame : ∀ c, InB c t.shape → (∀ o, InB o v.shape → idxCoord ix t.shape o ≠ c) → t'.get c = t.get c

/-- the executable spec `setT` satisfies the relational one when no two value coordinates
target the same place -/
theorem setT_isSet (ix : List Ix) (t v : T α)
    (hinj : ∀ o o', InB o v.shape → InB o' v.shape →
      idxCoord ix t.shape o = idxCoord ix t.shape o' → o = o') :
    IsSetT ix t v (setT ix t v) := by
  refine ⟨rfl, ?_, ?_⟩
  · intro o ho
    show (match (allCoords v.shape).reverse.find? (fun o' => idxCoord ix t.shape o' == idxCoord ix t.shape o) with
      | some o' => v.get o' | none => t.get _) = v.get o
    cases hf : (allCoords v.shape).reverse.find? (fun o' => idxCoord ix t.shape o' == idxCoord ix t.shape o) with
    | none =>
      have := List.find?_eq_none.mp hf o (by simpa using (mem_allCoords_iff _ _).mpr ho)
      simp at this
    | some o' =>
      have hm := List.mem_of_find?_eq_some hf
      have hp := List.find?_some hf
      simp only [beq_iff_eq] at hp
      have := hinj o' o ((mem_allCoords_iff _ _).mp (by simpa using hm)) ho hp
      simp [this]
  · intro c _ hno
    show (match (allCoords v.shape).reverse.find? (fun o' => idxCoord ix t.shape o' == c) with
      | some o' => v.get o' | none => t.get c) = t.get c
    cases hf : (allCoords v.shape).reverse.find? (fun o' => idxCoord ix t.shape o' == c) with
    | none => rfl
    | some o' =>
      have hm := List.mem_of_find?_eq_some hf
      have hp := List.find?_some hf
      simp only [beq_iff_eq] at hp
      exact absurd hp (hno o' ((mem_allCoords_iff _ _).mp (by simpa using hm)))

theorem InB.at0_lt_of_insert (c : List Nat) (sh : Shape) (sd n : Nat) (hsd : sd ≤ sh.length)
    (hc : InB c (sh.insertIdx sd n)) : at0 c sd < n := by
  apply InB.at0_lt hc
  simp [List.getElem?_insertIdx_self, hsd]

/-- T-level write refinement for a stack-dim item that produces ONE result dim (a slice, an
absent item, or a rank-1 integer tensor without duplicates): writing `v` through the index on
the dense stack is writing the `j`-th slice of `v` (along the result position of the stack
dim) into member `ids j` through the member index — and leaving the other members alone. -/
theorem set_stack_one [Inhabited α] (ms ms' : List (T α)) (sh : Shape) (sd : Nat) (ix : List Ix)
    (hsh : ∀ m ∈ ms, m.shape = sh) (hne : ms ≠ []) (hsd : sd ≤ sh.length) (hp : PlainM sd ix)
    (s so : Shape) (hs : idxShape ix (sh.insertIdx sd ms.length) = some s)
    (hso : idxShape (splitRec sd ix).out sh = some so) (hpos : (splitRec sd ix).pos ≤ so.length)
    (len : Nat) (ids : Nat → Nat)
    (hrank : ((splitRec sd ix).item.getD Ix.full).outRank = 1)
    (hishape : itemShape ((splitRec sd ix).item.getD Ix.full) ms.length = some [len])
    (hmid : ∀ x, itemCoord ((splitRec sd ix).item.getD Ix.full) ms.length [x] = ids x)
    (v : T α) (hv : v.shape = s)
    (hlen' : ms'.length = ms.length)
    (hsel : ∀ j, j < len → ∃ (h : ids j < ms.length),
      IsSetT (splitRec sd ix).out (ms[ids j]) (v.select (splitRec sd ix).pos j) (ms'[ids j]'(hlen' ▸ h)))
    (hnot : ∀ i (h : i < ms.length), (∀ j, j < len → ids j ≠ i) → ms'[i]'(hlen' ▸ h) = ms[i]) :
    IsSetT ix (T.stack ms sd) v (T.stack ms' sd) := by
  have hhead := head_shape_of_all ms sh hsh hne
  have hsplit := shape_splitM ms.length ix sd sh hsd hp
  rw [hs, hso, hishape] at hsplit
  simp only [Option.bind_some, Option.map_some, Option.some.injEq] at hsplit
  have hsins : s = so.insertIdx (splitRec sd ix).pos len := by
    rw [hsplit, insertIdx_eq_take_drop _ _ _ hpos]
  -- every member keeps its shape
  have hshape' : ∀ i (h : i < ms.length), (ms'[i]'(hlen' ▸ h)).shape = sh := by
    intro i h
    by_cases hex : ∃ j, j < len ∧ ids j = i
    · obtain ⟨j, hj, rfl⟩ := hex
      obtain ⟨h', hset⟩ := hsel j hj
      rw [hset.shape]; exact hsh _ (List.getElem_mem _)
    · rw [hnot i h (fun j hj hij => hex ⟨j, hj, hij⟩)]; exact hsh _ (List.getElem_mem _)
  have hne' : ms' ≠ [] := by
    intro h; rw [h] at hlen'; exact hne (List.length_eq_zero_iff.mp hlen'.symm)
  have hhead' : (ms'.head?.map T.shape).getD [] = sh := by
    apply head_shape_of_all ms' sh _ hne'
    intro m hm
    obtain ⟨i, hi, rfl⟩ := List.getElem_of_mem hm
    exact hshape' i (hlen' ▸ hi)
  have hSt : (T.stack ms sd).shape = sh.insertIdx sd ms.length := by rw [T.stack_shape, hhead]
  refine ⟨by rw [T.stack_shape, T.stack_shape, hhead, hhead', hlen'], ?_, ?_⟩
  · -- hit
    intro o ho
    rw [hv] at ho
    rw [hSt]
    have hfit := fits_of_inB ix _ s o hs ho
    obtain ⟨h1, h2⟩ := coord_splitM ms.length ix sd sh o hsd hp hfit
    have hcl : (splitRec sd ix).pos < o.length := by
      rw [InB.length ho, hsins, List.length_insertIdx_of_le_length hpos]; omega
    have hj : at0 o (splitRec sd ix).pos < len := by
      apply InB.at0_lt ho
      rw [hsins]; simp [List.getElem?_insertIdx_self, hpos]
    rw [hrank, take_one_drop o _ hcl, hmid] at h1
    rw [hrank, ← List.eraseIdx_eq_take_drop_succ] at h2
    obtain ⟨hlt, hset⟩ := hsel _ hj
    rw [T.stack_get, h1, h2, List.getElem?_eq_getElem (hlen' ▸ hlt), Option.getD_some]
    have ho' : InB (o.eraseIdx (splitRec sd ix).pos) (v.select (splitRec sd ix).pos (at0 o (splitRec sd ix).pos)).shape := by
      show InB _ (v.shape.eraseIdx _)
      rw [hv]; exact InB.eraseIdx _ ho
    have := hset.hit _ ho'
    rw [hsh _ (List.getElem_mem _)] at this
    rw [this]
    show v.get ((o.eraseIdx (splitRec sd ix).pos).insertIdx (splitRec sd ix).pos (at0 o (splitRec sd ix).pos)) = v.get o
    rw [insertIdx_eraseIdx_self o _ hcl]
  · -- frame
    intro c hc hno
    rw [hSt] at hc hno
    have hi : at0 c sd < ms.length := InB.at0_lt_of_insert c sh sd ms.length hsd hc
    have hc' : InB (c.eraseIdx sd) sh := by
      have := InB.eraseIdx sd hc
      rwa [List.eraseIdx_insertIdx_self] at this
    rw [T.stack_get, T.stack_get, List.getElem?_eq_getElem (hlen' ▸ hi), List.getElem?_eq_getElem hi,
      Option.getD_some, Option.getD_some]
    by_cases hex : ∃ j, j < len ∧ ids j = at0 c sd
    · obtain ⟨j, hj, hij⟩ := hex
      obtain ⟨hlt, hset⟩ := hsel j hj
      have hfr := hset.frame (c.eraseIdx sd) (by rw [hsh _ (List.getElem_mem _)]; exact hc') (by
        intro o' ho' heq
        have ho'' : InB o' so := by
          have : (v.select (splitRec sd ix).pos j).shape = so := by
            show v.shape.eraseIdx _ = so
            rw [hv, hsins, List.eraseIdx_insertIdx_self]
          rwa [this] at ho'
        -- the value coordinate that would hit `c`
        have hoI : InB (o'.insertIdx (splitRec sd ix).pos j) s := by
          rw [hsins]; exact InB.insertIdx _ _ _ hpos hj ho''
        apply hno _ (hv ▸ hoI)
        have hfit := fits_of_inB ix _ s _ hs hoI
        obtain ⟨h1, h2⟩ := coord_splitM ms.length ix sd sh _ hsd hp hfit
        have hol : (splitRec sd ix).pos ≤ o'.length := by rw [InB.length ho'']; exact hpos
        have hcl : (splitRec sd ix).pos < (o'.insertIdx (splitRec sd ix).pos j).length := by
          rw [List.length_insertIdx_of_le_length hol]; omega
        rw [hrank, take_one_drop _ _ hcl, hmid] at h1
        rw [hrank, ← List.eraseIdx_eq_take_drop_succ, List.eraseIdx_insertIdx_self] at h2
        have hat : at0 (o'.insertIdx (splitRec sd ix).pos j) (splitRec sd ix).pos = j := by
          simp [at0, List.getElem?_insertIdx_self, hol]
        rw [hat] at h1
        rw [hsh _ (List.getElem_mem _)] at heq
        apply eq_of_at0_eraseIdx _ _ sd
        · rw [idxCoord_length ix _ s _ hs hoI, InB.length hc]
        · rw [idxCoord_length ix _ s _ hs hoI, List.length_insertIdx_of_le_length hsd]; omega
        · rw [h1, hij]
        · rw [h2, heq])
      have e1 : ms'[at0 c sd]'(hlen' ▸ hi) = ms'[ids j]'(hlen' ▸ hlt) := by congr 1; exact hij.symm
      have e2 : ms[at0 c sd] = ms[ids j] := by congr 1; exact hij.symm
      rw [e1, e2]; exact hfr
    · rw [hnot _ hi (fun j hj hij => hex ⟨j, hj, hij⟩)]

/-- T-level write refinement, stack-dim item = int: the whole value goes to that member -/
theorem set_stack_int [Inhabited α] (ms ms' : List (T α)) (sh : Shape) (sd : Nat) (ix : List Ix)
    (hsh : ∀ m ∈ ms, m.shape = sh) (hsd : sd ≤ sh.length) (hp : Plain sd ix)
    (s : Shape) (hs : idxShape ix (sh.insertIdx sd ms.length) = some s)
    (k : Int) (hit : (splitRec sd ix).item.getD Ix.full = .int k)
    (i : Nat) (hn : normInt k ms.length = some i) (hi : i < ms.length)
    (v : T α) (hv : v.shape = s)
    (hlen' : ms'.length = ms.length)
    (hset : IsSetT (splitRec sd ix).out (ms[i]) v (ms'[i]'(hlen' ▸ hi)))
    (hnot : ∀ i' (h : i' < ms.length), i' ≠ i → ms'[i']'(hlen' ▸ h) = ms[i']) :
    IsSetT ix (T.stack ms sd) v (T.stack ms' sd) := by
  have hne : ms ≠ [] := by intro h; simp [h] at hi
  have hhead := head_shape_of_all ms sh hsh hne
  have hshape' : ∀ i' (h : i' < ms.length), (ms'[i']'(hlen' ▸ h)).shape = sh := by
    intro i' h
    by_cases hii : i' = i
    · subst hii; rw [hset.shape]; exact hsh _ (List.getElem_mem _)
    · rw [hnot i' h hii]; exact hsh _ (List.getElem_mem _)
  have hne' : ms' ≠ [] := by
    intro h; rw [h] at hlen'; exact hne (List.length_eq_zero_iff.mp hlen'.symm)
  have hhead' : (ms'.head?.map T.shape).getD [] = sh := by
    apply head_shape_of_all ms' sh _ hne'
    intro m hm
    obtain ⟨i', hi', rfl⟩ := List.getElem_of_mem hm
    exact hshape' i' (hlen' ▸ hi')
  have hSt : (T.stack ms sd).shape = sh.insertIdx sd ms.length := by rw [T.stack_shape, hhead]
  refine ⟨by rw [T.stack_shape, T.stack_shape, hhead, hhead', hlen'], ?_, ?_⟩
  · intro o ho
    rw [hv] at ho
    rw [hSt]
    have hfit := fits_of_inB ix _ s o hs ho
    obtain ⟨h1, h2⟩ := coord_split ms.length ix sd sh o hsd hp hfit
    rw [hit] at h1 h2
    simp only [itemCoord, hn, Option.getD_some, Ix.outRank_int, Nat.add_zero, List.take_append_drop] at h1 h2
    rw [T.stack_get, h1, h2, List.getElem?_eq_getElem (hlen' ▸ hi), Option.getD_some]
    have := hset.hit o (hv ▸ ho)
    rwa [hsh _ (List.getElem_mem _)] at this
  · intro c hc hno
    rw [hSt] at hc hno
    have hi' : at0 c sd < ms.length := InB.at0_lt_of_insert c sh sd ms.length hsd hc
    have hc' : InB (c.eraseIdx sd) sh := by
      have := InB.eraseIdx sd hc
      rwa [List.eraseIdx_insertIdx_self] at this
    rw [T.stack_get, T.stack_get, List.getElem?_eq_getElem (hlen' ▸ hi'), List.getElem?_eq_getElem hi',
      Option.getD_some, Option.getD_some]
    by_cases hii : at0 c sd = i
    · have hfr := hset.frame (c.eraseIdx sd) (by rw [hsh _ (List.getElem_mem _)]; exact hc') (by
        intro o ho heq
        apply hno o ho
        have ho' : InB o s := hv ▸ ho
        have hfit := fits_of_inB ix _ s o hs ho'
        obtain ⟨h1, h2⟩ := coord_split ms.length ix sd sh o hsd hp hfit
        rw [hit] at h1 h2
        simp only [itemCoord, hn, Option.getD_some, Ix.outRank_int, Nat.add_zero, List.take_append_drop] at h1 h2
        rw [hsh _ (List.getElem_mem _)] at heq
        apply eq_of_at0_eraseIdx _ _ sd
        · rw [idxCoord_length ix _ s _ hs ho', InB.length hc]
        · rw [idxCoord_length ix _ s _ hs ho', List.length_insertIdx_of_le_length hsd]; omega
        · rw [h1, hii]
        · rw [h2, heq])
      have e1 : ms'[at0 c sd]'(hlen' ▸ hi') = ms'[i]'(hlen' ▸ hi) := by congr 1
      have e2 : ms[at0 c sd] = ms[i] := by congr 1
      rw [e1, e2]; exact hfr
    · rw [hnot _ hi' hii]

theorem sliceNorm_start_nonneg {a b c : Option Int} {d : Nat} {s st : Int} {len : Nat}
    (h : sliceNorm a b c d = some (s, st, len)) (hst : 0 < st) : 0 ≤ s := by
  unfold sliceNorm SliceSpec.indices at h
  simp only [] at h
  split at h
  · rename_i s' e' st' heq
    split at heq
    · simp at heq
    · simp only [Except.ok.injEq, Prod.mk.injEq] at heq
      simp only [Option.some.injEq, Prod.mk.injEq] at h
      obtain ⟨h1, _, h2⟩ := heq
      obtain ⟨h3, h4, _⟩ := h
      subst h3 h4
      have hpos : ¬ (c.getD 1 < 0) := by rw [h2]; omega
      rw [← h1]
      cases a with
      | none => simp [hpos]
      | some x => simp only [hpos, if_false]; split <;> split <;> omega
  · simp at h

/-- the items are basic (ints, slices, None) -/
def Basic (ix : List Ix) : Prop := ∀ it ∈ ix, it.isAdv = false ∧ it ≠ Ix.ell

theorem sliceAt_inj {s st : Int} (hs : 0 ≤ s) (hst : 0 < st) {a a' : Nat}
    (h : sliceAt s st a = sliceAt s st a') : a = a' := by
  unfold sliceAt at h
  have h1 : 0 ≤ s + st * a := by have := Int.mul_nonneg (Int.le_of_lt hst) (Int.natCast_nonneg a); omega
  have h2 : 0 ≤ s + st * a' := by have := Int.mul_nonneg (Int.le_of_lt hst) (Int.natCast_nonneg a'); omega
  have : s + st * a = s + st * a' := by
    have := congrArg (Int.ofNat) h
    simp only [Int.ofNat_eq_natCast, Int.toNat_of_nonneg h1, Int.toNat_of_nonneg h2] at this
    exact this
  have h3 : st * (a : Int) = st * (a' : Int) := by omega
  have := Int.eq_of_mul_eq_mul_left (Int.ne_of_gt hst) h3
  exact Int.ofNat_inj.mp this

/-- a basic index never sends two result coordinates to the same element -/
theorem idxCoord_inj_basic : ∀ (ix : List Ix) (sh s : Shape), Basic ix → idxShape ix sh = some s →
    ∀ o o', InB o s → InB o' s → idxCoord ix sh o = idxCoord ix sh o' → o = o'
  | [], sh, s, _, _, o, o', _, _, h => by simpa [idxCoord] using h
  | .none :: r, sh, s, hb, hs, o, o', ho, ho', h => by
    simp only [idxShape, Option.map_eq_some_iff] at hs
    obtain ⟨s', hs', rfl⟩ := hs
    cases o with
    | nil => simp [InB] at ho
    | cons a c =>
      cases o' with
      | nil => simp [InB] at ho'
      | cons a' c' =>
        have := idxCoord_inj_basic r sh s' (fun it hit => hb it (by simp [hit])) hs' c c' ho.2 ho'.2
          (by simpa [idxCoord] using h)
        have ha : a = 0 := by have := ho.1; omega
        have ha' : a' = 0 := by have := ho'.1; omega
        rw [this, ha, ha']
  | .ell :: r, sh, s, hb, hs, o, o', ho, ho', h => by simp [idxShape] at hs
  | .mask m :: r, sh, s, hb, hs, o, o', ho, ho', h => by
    have := (hb (.mask m) (by simp)).1; simp [Ix.isAdv] at this
  | .tens t :: r, sh, s, hb, hs, o, o', ho, ho', h => by
    have := (hb (.tens t) (by simp)).1; simp [Ix.isAdv] at this
  | .int _ :: _, [], _, _, hs, _, _, _, _, _ => by simp [idxShape] at hs
  | .slice .. :: _, [], _, _, hs, _, _, _, _, _ => by simp [idxShape] at hs
  | .int i :: r, d :: sh, s, hb, hs, o, o', ho, ho', h => by
    simp only [idxShape] at hs
    split at hs
    · simp only [idxCoord, List.cons.injEq, true_and] at h
      exact idxCoord_inj_basic r sh s (fun it hit => hb it (by simp [hit])) hs o o' ho ho' h
    · simp at hs
  | .slice a b c :: r, d :: sh, s, hb, hs, o, o', ho, ho', h => by
    simp only [idxShape] at hs
    split at hs
    · rename_i s0 st len heq
      split at hs
      · rename_i hst
        simp only [Option.map_eq_some_iff] at hs
        obtain ⟨s', hs', rfl⟩ := hs
        cases o with
        | nil => simp [InB] at ho
        | cons x c' =>
          cases o' with
          | nil => simp [InB] at ho'
          | cons x' c'' =>
            simp only [idxCoord, sliceNormD, heq, Option.getD_some, at0_cons_zero, List.tail_cons,
              List.cons.injEq] at h
            have h1 := sliceAt_inj (sliceNorm_start_nonneg heq hst) hst h.1
            have h2 := idxCoord_inj_basic r sh s' (fun it hit => hb it (by simp [hit])) hs' c' c'' ho.2 ho'.2 h.2
            rw [h1, h2]
      · simp at hs
    · simp at hs
end TdVerif.C08
