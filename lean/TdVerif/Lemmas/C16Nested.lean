/-
  C16 — `_from_list` (memmap / pickle rebuild) and `_cat_non_tensor` (torch.cat) on nested lists.
-/
import TdVerif.Lemmas.C16Reshape
import TdVerif.Lemmas.C16Tolist

namespace TdVerif.C16
namespace NT
variable {O : Type}

theorem range_map_append {β : Type} (f g : Nat → β) (n m : Nat) :
    (List.range n).map f ++ (List.range m).map g = (List.range (n + m)).map (fun i => if i < n then f i else g (i - n)) := by
  apply List.ext_getElem?
  intro k
  rw [getElem?_range_map]
  by_cases hk : k < n
  · rw [List.getElem?_append_left (by simp; exact hk), getElem?_range_map, if_pos hk, if_pos (by omega), if_pos hk]
  · rw [List.getElem?_append_right (by simp; omega), getElem?_range_map]
    simp only [List.length_map, List.length_range]
    by_cases hk2 : k - n < m
    · rw [if_pos hk2, if_pos (by omega), if_neg hk]
    · rw [if_neg hk2, if_neg (by omega)]

theorem nestOf_shift (g : List Nat → Option O) (dflt : O) (s : Shape) (pre : List Nat) :
    nestOf g dflt s pre = nestOf (fun c => g (pre ++ c)) dflt s [] :=
  nestOf_congr dflt s pre [] g (fun c => g (pre ++ c)) (fun c _ => by simp)

theorem nestOf_items' (get : List Nat → Option O) (dflt : O) (n : Nat) (s : Shape) :
    (nestOf get dflt (n :: s) []).items = (List.range n).map (fun i => nestOf (fun c => get (i :: c)) dflt s []) := by
  simp only [nestOf, Nest.items, List.nil_append]
  apply List.map_congr_left
  intro i _
  rw [nestOf_shift]
  rfl

/-- level 0: concatenating the top-level lists is the nested list of the concatenated array -/
theorem catNest_zero (dflt : O) (post : Shape) : ∀ (arrs : List ((List Nat → Option O) × Nat)),
    catNest 0 (arrs.map (fun a => (nestOf a.1 dflt (a.2 :: post) []).items))
      = (nestOf (catGet arrs) dflt (sumN (arrs.map Prod.snd) :: post) []).items
  | [] => by simp [catNest, sumN, nestOf, Nest.items]
  | (g, n) :: rest => by
    have ih := catNest_zero dflt post rest
    simp only [catNest, List.map_cons, List.flatten_cons, sumN] at ih ⊢
    rw [ih, nestOf_items', nestOf_items', nestOf_items', range_map_append]
    apply List.map_congr_left
    intro i _
    by_cases hi : i < n
    · rw [if_pos hi]
      apply nestOf_congr
      intro c _
      simp [catGet, hi]
    · rw [if_neg hi]
      apply nestOf_congr
      intro c _
      simp [catGet, hi]

theorem transposeLists_range_map {α β : Type} (f : α → Nat → β) (p : Nat) : ∀ (rows : List α), rows ≠ [] →
    transposeLists (rows.map (fun r => (List.range p).map (f r))) = (List.range p).map (fun i => rows.map (fun r => f r i)) := by
  intro rows hne
  have hk : ∀ row ∈ rows.map (fun r => (List.range p).map (f r)), row.length = p := by
    intro row hrow
    obtain ⟨r, _, rfl⟩ := List.mem_map.mp hrow
    simp
  obtain ⟨hlen, hel⟩ := transposeLists_spec _ p hk (by simpa using hne)
  apply List.ext_getElem?
  intro j
  rw [getElem?_range_map]
  by_cases hj : j < p
  · rw [if_pos hj]
    have hjl : j < (transposeLists (rows.map (fun r => (List.range p).map (f r)))).length := by rw [hlen]; exact hj
    rw [List.getElem?_eq_getElem hjl]
    congr 1
    apply List.ext_getElem?
    intro i
    have := hel j i
    rw [List.getElem?_eq_getElem hjl] at this
    simp only [Option.bind_some, List.getElem?_map] at this
    rw [this, List.getElem?_map]
    cases rows[i]? with
    | none => rfl
    | some r => simp [List.getElem?_range hj]
  · rw [if_neg hj, List.getElem?_eq_none_iff, hlen]; omega

/-- the recursive `cat(lists, d)` of `_cat_non_tensor` on the nested lists of arrays that agree outside dim `d` is the
nested list of the abstract concatenation along `d` -/
theorem catNest_spec (dflt : O) (post : Shape) : ∀ (pre : Shape) (arrs : List ((List Nat → Option O) × Nat)), arrs ≠ [] →
    (∀ p ∈ pre, 0 < p) →
    catNest pre.length (arrs.map (fun a => (nestOf a.1 dflt (pre ++ a.2 :: post) []).items))
      = (nestOf (catGetD pre.length arrs) dflt (pre ++ sumN (arrs.map Prod.snd) :: post) []).items
  | [], arrs, _, _ => by
    simpa [catGetD] using catNest_zero dflt post arrs
  | p :: pre, arrs, hne, hpos => by
    have hp : 0 < p := hpos p (by simp)
    have hpos' : ∀ q ∈ pre, 0 < q := fun q hq => hpos q (by simp [hq])
    simp only [List.length_cons, catNest, List.cons_append]
    have hrows : arrs.map (fun a => (nestOf a.1 dflt (p :: (pre ++ a.2 :: post)) []).items)
        = arrs.map (fun a => (List.range p).map ((fun (a : (List Nat → Option O) × Nat) i => nestOf (fun c => a.1 (i :: c)) dflt (pre ++ a.2 :: post) []) a)) := by
      apply List.map_congr_left
      intro a _
      rw [nestOf_items']
    rw [hrows, transposeLists_range_map _ p arrs hne, nestOf_items', List.map_map]
    apply List.map_congr_left
    intro i _
    simp only [Function.comp, List.map_map]
    have ih := catNest_spec dflt post pre (arrs.map (fun a => ((fun x => a.1 (i :: x)), a.2))) (by simpa using hne) hpos'
    have e1 : List.map (Nest.items ∘ fun (r : (List Nat → Option O) × Nat) => nestOf (fun c => r.fst (i :: c)) dflt (pre ++ r.snd :: post) []) arrs
        = (arrs.map (fun a => ((fun x => a.1 (i :: x)), a.2))).map (fun a => (nestOf a.1 dflt (pre ++ a.2 :: post) []).items) := by
      rw [List.map_map]
      rfl
    rw [e1, ih]
    have e2 : (arrs.map (fun a => ((fun x => a.1 (i :: x)), a.2))).map Prod.snd = arrs.map Prod.snd := by
      rw [List.map_map]; rfl
    rw [e2]
    -- `.list X.items = X` for a nest with at least one level
    have hsh : ∀ (g : List Nat → Option O) (s : Shape), s ≠ [] → Nest.list (nestOf g dflt s []).items = nestOf g dflt s [] := by
      intro g s hs
      cases s with
      | nil => exact absurd rfl hs
      | cons a t => simp [nestOf, Nest.items]
    rw [hsh _ _ (by simp)]
    apply nestOf_congr
    intro c _
    simp [catGetD]

theorem nestOf_items (get : List Nat → Option O) (dflt : O) (n : Nat) (s : Shape) (pre : List Nat) :
    (nestOf get dflt (n :: s) pre).items = (List.range n).map (fun i => nestOf get dflt s (pre ++ [i])) := by
  simp [nestOf, Nest.items]

theorem nestOf_isList (get : List Nat → Option O) (dflt : O) (s : Shape) (pre : List Nat) :
    (nestOf get dflt s pre).isList = !s.isEmpty := by
  cases s <;> simp [nestOf, Nest.isList]

theorem nestOf_len (get : List Nat → Option O) (dflt : O) (s : Shape) (pre : List Nat) :
    (nestOf get dflt s pre).len = s.headD 0 := by
  cases s <;> simp [nestOf, Nest.len]

/-- rebuilding from the row-major nested list of an array with atomic payloads gives the array back -/
theorem fromListN_nestOf (get : List Nat → Option O) (dflt : O) : ∀ (s : Shape) (n fuel : Nat) (pre : List Nat),
    0 < n → (∀ k ∈ s, 0 < k) → s.length < fuel + 1 →
    wf (fromListN fuel ((List.range n).map (fun i => nestOf get dflt s (pre ++ [i])))) = true
    ∧ shape (fromListN fuel ((List.range n).map (fun i => nestOf get dflt s (pre ++ [i])))) = n :: s
    ∧ ∀ (i : Nat) (c : List Nat), i < n → inB c s = true →
        getAt (fromListN fuel ((List.range n).map (fun i => nestOf get dflt s (pre ++ [i])))) (i :: c)
          = some (.leaf ((get (pre ++ i :: c)).getD dflt))
  | [], n, fuel, pre, hn, _, _ => by
    -- a level of payloads
    have hitems : ∀ (i : Nat), nestOf get dflt [] (pre ++ [i]) = .leaf ((get (pre ++ [i])).getD dflt) := fun i => rfl
    have hnot : ((List.range n).map (fun i => nestOf get dflt [] (pre ++ [i]))).all Nest.isList = false := by
      rw [List.all_eq_false]
      refine ⟨nestOf get dflt [] (pre ++ [0]), List.mem_map.mpr ⟨0, List.mem_range.mpr hn, rfl⟩, by simp [hitems, Nest.isList]⟩
    have hform : fromListN fuel ((List.range n).map (fun i => nestOf get dflt [] (pre ++ [i])))
        = .stack (((List.range n).map (fun i => nestOf get dflt [] (pre ++ [i]))).map (fun it => NT.shared it [])) 0 := by
      cases fuel with
      | zero => rfl
      | succ f => simp only [fromListN, hnot, Bool.false_and, Bool.false_eq_true, ↓reduceIte]
    rw [hform]
    have hne : ((List.range n).map (fun i => nestOf get dflt [] (pre ++ [i]))).map (fun it => NT.shared it ([] : Shape)) ≠ [] := by
      intro h
      have := congrArg List.length h
      simp at this; omega
    obtain ⟨hw1, hs1⟩ := wf_stack_intro _ 0 [] hne (by simp) (by
      intro m hm
      obtain ⟨it, _, rfl⟩ := List.mem_map.mp hm
      exact ⟨rfl, rfl⟩)
    refine ⟨hw1, by rw [hs1]; simp, ?_⟩
    intro i c hi hc
    have hc0 : c = [] := by cases c <;> simp_all [inB]
    subst hc0
    rw [getAt_stack]
    simp [List.getElem?_map, List.getElem?_range hi, getAt_shared, inB, hitems]
  | m :: s, n, fuel, pre, hn, hpos, hfuel => by
    cases fuel with
    | zero => simp at hfuel
    | succ f =>
      have hm : 0 < m := hpos m (by simp)
      have hposs : ∀ k ∈ s, 0 < k := fun k hk => hpos k (by simp [hk])
      have hall : ((List.range n).map (fun i => nestOf get dflt (m :: s) (pre ++ [i]))).all Nest.isList = true := by
        rw [List.all_eq_true]
        intro it hit
        obtain ⟨i, _, rfl⟩ := List.mem_map.mp hit
        simp [nestOf_isList]
      have hlen : ((List.range n).map (fun i => nestOf get dflt (m :: s) (pre ++ [i]))).all
          (fun it => it.len == (((List.range n).map (fun i => nestOf get dflt (m :: s) (pre ++ [i]))).headD (.list [])).len) = true := by
        rw [List.all_eq_true]
        intro it hit
        obtain ⟨i, _, rfl⟩ := List.mem_map.mp hit
        have hh : ((List.range n).map (fun i => nestOf get dflt (m :: s) (pre ++ [i]))).headD (.list [])
            = nestOf get dflt (m :: s) (pre ++ [0]) := by
          cases n with
          | zero => omega
          | succ n' => simp [List.range_succ_eq_map]
        rw [hh]
        simp [nestOf_len]
      have hform : fromListN (f + 1) ((List.range n).map (fun i => nestOf get dflt (m :: s) (pre ++ [i])))
          = .stack ((List.range n).map (fun i => fromListN f ((List.range m).map (fun j => nestOf get dflt s ((pre ++ [i]) ++ [j]))))) 0 := by
        simp only [fromListN, hall, hlen, Bool.and_self, ↓reduceIte, List.map_map]
        congr 1
      have ih := fun i => fromListN_nestOf get dflt s m f (pre ++ [i]) hm hposs (by simp at hfuel ⊢; omega)
      rw [hform]
      have hne : (List.range n).map (fun i => fromListN f ((List.range m).map (fun j => nestOf get dflt s ((pre ++ [i]) ++ [j])))) ≠ [] := by
        intro h
        have := congrArg List.length h
        simp at this; omega
      obtain ⟨hw1, hs1⟩ := wf_stack_intro _ 0 (m :: s) hne (by simp) (by
        intro y hy
        obtain ⟨i, _, rfl⟩ := List.mem_map.mp hy
        exact ⟨(ih i).1, (ih i).2.1⟩)
      refine ⟨hw1, by rw [hs1]; simp, ?_⟩
      intro i c hi hc
      cases c with
      | nil => simp [inB] at hc
      | cons j c' =>
        obtain ⟨hj, hc'⟩ := (inB_cons_iff j c' m s).mp hc
        rw [getAt_stack]
        simp only [List.getElem?_cons_zero, Option.bind_some, List.eraseIdx_cons_zero, List.getElem?_map,
          List.getElem?_range hi, Option.map_some]
        rw [(ih i).2.2 j c' hj hc']
        simp

/-- the general branch of `_cat_non_tensor`: entries that agree outside dim `d` (no zero-size dim), whatever their
representations: the result has the concatenated shape and shows at every position the object the abstract concatenation
`catGetD` puts there -/
theorem catGeneral_spec (dflt : O) (l : List (NT O)) (pre post : Shape) (hne : l ≠ [])
    (hw : ∀ r ∈ l, wf r = true) (hsh : ∀ r ∈ l, ∃ n, 0 < n ∧ shape r = pre ++ n :: post)
    (hpre : ∀ p ∈ pre, 0 < p) (hpost : ∀ p ∈ post, 0 < p) :
    let u := fromListN (pre.length + post.length) (catNest pre.length (l.map (fun r => (tolist r).items)))
    let arrs := l.map (fun r => (getAt r, (shape r).getD pre.length 0))
    wf u = true ∧ shape u = pre ++ sumN (arrs.map Prod.snd) :: post
    ∧ ∀ c, inB c (pre ++ sumN (arrs.map Prod.snd) :: post) = true →
        getAt u c = some (.leaf ((catGetD pre.length arrs c).getD dflt)) := by
  intro u arrs
  -- every item's nested list is the row-major nest of its abstraction
  have hitems : l.map (fun r => (tolist r).items)
      = arrs.map (fun a => (nestOf a.1 dflt (pre ++ a.2 :: post) []).items) := by
    simp only [arrs, List.map_map]
    apply List.map_congr_left
    intro r hr
    obtain ⟨n, _, hs⟩ := hsh r hr
    simp only [Function.comp]
    have htl : tolist r = nestOf (getAt r) dflt (shape r) [] := tolistN_spec dflt (shape r).length r (hw r hr) rfl
    rw [htl, hs]
    congr 3
    simp [List.getD_eq_getElem?_getD]
  have harrs : arrs ≠ [] := by simpa [arrs] using hne
  have hcat := catNest_spec dflt post pre arrs harrs hpre
  have hsum : 0 < sumN (arrs.map Prod.snd) := by
    obtain ⟨r0, rest, rfl⟩ := List.exists_cons_of_ne_nil hne
    obtain ⟨n, hn, hs⟩ := hsh r0 (by simp)
    simp only [arrs, List.map_cons, sumN]
    rw [hs]
    have : (pre ++ n :: post).getD pre.length 0 = n := by simp [List.getD_eq_getElem?_getD]
    rw [this]; omega
  -- the concatenated shape, head and tail
  cases hq : pre ++ sumN (arrs.map Prod.snd) :: post with
  | nil => simp at hq
  | cons q tl =>
    have hqpos : 0 < q ∧ ∀ k ∈ tl, 0 < k := by
      have hall : ∀ k ∈ pre ++ sumN (arrs.map Prod.snd) :: post, 0 < k := by
        intro k hk
        rcases List.mem_append.mp hk with h | h
        · exact hpre k h
        · rcases List.mem_cons.mp h with h | h
          · rw [h]; exact hsum
          · exact hpost k h
      rw [hq] at hall
      exact ⟨hall q (by simp), fun k hk => hall k (by simp [hk])⟩
    have htl : tl.length = pre.length + post.length := by
      have := congrArg List.length hq
      simp only [List.length_append, List.length_cons] at this
      omega
    have hu : u = fromListN (pre.length + post.length)
        ((List.range q).map (fun i => nestOf (catGetD pre.length arrs) dflt tl ([] ++ [i]))) := by
      simp only [u]
      rw [hitems, hcat, hq, nestOf_items]
    obtain ⟨h1, h2, h3⟩ := fromListN_nestOf (catGetD pre.length arrs) dflt tl q (pre.length + post.length) [] hqpos.1 hqpos.2 (by omega)
    rw [hu]
    refine ⟨h1, h2, ?_⟩
    intro c hc
    cases c with
    | nil => simp [inB] at hc
    | cons i c' =>
      obtain ⟨hi, hc'⟩ := (inB_cons_iff i c' q tl).mp hc
      have := h3 i c' hi hc'
      simpa using this

end NT
end TdVerif.C16
