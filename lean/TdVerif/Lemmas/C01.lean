/-
  C01 helper lemmas: storage dict, meta-preservation of the names setter, the batch-size setter, validation.
-/
import TdVerif.Model.C01Coherence

namespace TdVerif.C01

/-! ### storage dict -/

theorem kget_mem {k : String} {v : M} {l : Kids} (h : kget k l = some v) : (k, v) ∈ l := by
  induction l with
  | nil => simp [kget] at h
  | cons a r ih => obtain ⟨k', v'⟩ := a; simp only [kget] at h; split at h <;> simp_all

theorem mem_kset {k : String} {v : M} {l : Kids} {k' : String} {v' : M}
    (h : (k', v') ∈ kset k v l) : (k', v') ∈ l ∨ (k' = k ∧ v' = v) := by
  induction l with
  | nil => simp [kset] at h; exact Or.inr h
  | cons a r ih =>
    obtain ⟨k'', v''⟩ := a
    simp only [kset] at h; split at h <;> simp_all <;> grind

theorem mem_kdel {k : String} {l : Kids} {kv : String × M} (h : kv ∈ kdel k l) : kv ∈ l := by
  induction l with
  | nil => simp [kdel] at h
  | cons a r ih =>
    obtain ⟨k'', v''⟩ := a
    simp only [kdel] at h; split at h <;> simp_all <;> grind

/-! ### basic facts about `takeEq`, `fits` -/

theorem takeEq_self (s : Shape) : takeEq s s = true := by simp [takeEq]

theorem takeEq_nil (s : Shape) : takeEq s [] = true := by simp [takeEq]

theorem takeEq_append (a b : Shape) : takeEq (a ++ b) a = true := by simp [takeEq]

/-- prefix transitivity: `a` starts with `b`, `b` starts with `c` ⇒ `a` starts with `c` -/
theorem takeEq_trans {a b c : Shape} (h1 : takeEq a b = true) (h2 : takeEq b c = true) : takeEq a c = true := by
  simp only [takeEq, beq_iff_eq] at *
  have hlen : c.length ≤ b.length := by
    have := congrArg List.length h2; simp at this; omega
  calc a.take c.length = (a.take b.length).take c.length := by rw [List.take_take]; congr 1; omega
    _ = b.take c.length := by rw [h1]
    _ = c := h2

/-! ### coherence: constructors and destructors -/

theorem Coherent.names_len {bs dv ns kids} (h : Coherent (.node bs dv ns kids)) :
    ∀ l, ns = some l → l.length = bs.length := by cases h; assumption

theorem Coherent.kid_fits {bs dv ns kids} (h : Coherent (.node bs dv ns kids)) :
    ∀ k c, (k, c) ∈ kids → fits bs dv c := by cases h; assumption

theorem Coherent.kid_coh {bs dv ns kids} (h : Coherent (.node bs dv ns kids)) :
    ∀ k c, (k, c) ∈ kids → Coherent c := by cases h; assumption

theorem Coherent.kset {bs dv ns kids} (h : Coherent (.node bs dv ns kids)) (k : String) {c : M}
    (hf : fits bs dv c) (hc : Coherent c) : Coherent (.node bs dv ns (kset k c kids)) := by
  refine Coherent.node _ _ _ _ h.names_len ?_ ?_
  · intro k' c' hm; rcases mem_kset hm with h1 | ⟨_, rfl⟩
    · exact h.kid_fits k' c' h1
    · exact hf
  · intro k' c' hm; rcases mem_kset hm with h1 | ⟨_, rfl⟩
    · exact h.kid_coh k' c' h1
    · exact hc

theorem Coherent.kdel {bs dv ns kids} (h : Coherent (.node bs dv ns kids)) (k : String) :
    Coherent (.node bs dv ns (kdel k kids)) :=
  Coherent.node _ _ _ _ h.names_len (fun k' c' hm => h.kid_fits k' c' (mem_kdel hm)) (fun k' c' hm => h.kid_coh k' c' (mem_kdel hm))

theorem Coherent.empty_like {bs dv ns kids} (h : Coherent (.node bs dv ns kids)) : Coherent (.node bs dv ns []) :=
  Coherent.node _ _ _ _ h.names_len (by simp) (by simp)

theorem Coherent.set_names {bs dv ns kids} (h : Coherent (.node bs dv ns kids)) (ns' : Option DimNames)
    (hl : ∀ l, ns' = some l → l.length = bs.length) : Coherent (.node bs dv ns' kids) :=
  Coherent.node _ _ _ _ hl h.kid_fits h.kid_coh

theorem fits_empty_like (bs : Shape) (dv : Option Nat) (ns : Option DimNames) (kids : Kids) :
    fits bs dv (.node bs dv ns kids) := by
  refine ⟨by simp [M.shape, takeEq_self], ?_⟩
  intro d hd; subst hd; simp [M.onDev]

/-! ### names -/

/-- entry-wise: same key, same shape, same device, coherence not lost -/
def MetaLe (c c' : M) : Prop :=
  c'.shape = c.shape ∧ (∀ d, c'.onDev d = c.onDev d) ∧ (Coherent c → Coherent c')

def KidsRel (kids kids' : Kids) : Prop :=
  ∀ k c', (k, c') ∈ kids' → ∃ c, (k, c) ∈ kids ∧ MetaLe c c'

theorem MetaLe.refl (c : M) : MetaLe c c := ⟨rfl, fun _ => rfl, id⟩

theorem KidsRel.refl (kids : Kids) : KidsRel kids kids := fun k c' h => ⟨c', h, MetaLe.refl c'⟩

theorem KidsRel.cons {k : String} {c c' : M} {r r' : Kids} (h1 : MetaLe c c') (h2 : KidsRel r r') :
    KidsRel ((k, c) :: r) ((k, c') :: r') := by
  intro k0 c0 hm
  simp at hm
  rcases hm with ⟨rfl, rfl⟩ | hm
  · exact ⟨c, by simp, h1⟩
  · obtain ⟨c1, hc1, hm1⟩ := h2 k0 c0 hm
    exact ⟨c1, List.mem_cons_of_mem _ hc1, hm1⟩

theorem namesCheck_good_len {v : DimNames} {n : Nat} (h : namesCheck v n = .good) : v.length = n := by
  unfold namesCheck at h
  simp only at h
  by_cases h1 : countNone v = n
  · simp [h1] at h
  · simp only [h1, if_false] at h
    by_cases h2 : v.length = n
    · exact h2
    · simp [h2] at h

/-- a node keeps shape/device and coherence when only its names (of the right length, or none) and its
entries (entry-wise `MetaLe`) change -/
theorem metaLe_node {bs : Shape} {dv : Option Nat} {ns ns' : Option DimNames} {kids kids' : Kids}
    (hl : (∀ l, ns = some l → l.length = bs.length) → ∀ l, ns' = some l → l.length = bs.length)
    (hk : KidsRel kids kids') :
    MetaLe (.node bs dv ns kids) (.node bs dv ns' kids') := by
  refine ⟨rfl, fun _ => rfl, fun hc => ?_⟩
  refine Coherent.node _ _ _ _ (hl hc.names_len) ?_ ?_
  · intro k c' hm
    obtain ⟨c, hc1, hs, hd, _⟩ := hk k c' hm
    have hf := hc.kid_fits k c hc1
    exact ⟨by rw [hs]; exact hf.1, fun d hd' => by rw [hd]; exact hf.2 d hd'⟩
  · intro k c' hm
    obtain ⟨c, hc1, _, _, hcoh⟩ := hk k c' hm
    exact hcoh (hc.kid_coh k c hc1)

theorem eraseSub_rel (kids : Kids) : KidsRel kids (eraseSub kids) := by
  fun_induction eraseSub kids
  · exact KidsRel.refl _
  · rename_i ih; exact KidsRel.cons (MetaLe.refl _) ih
  · rename_i ih
    refine KidsRel.cons ?_ ih
    exact metaLe_node (by simp) (KidsRel.refl _)

theorem renameSub_rel (v : DimNames) (kids : Kids) : KidsRel kids (renameSub v kids).1 := by
  fun_induction renameSub v kids <;> simp_all
  · exact KidsRel.refl _
  · rename_i ih; exact KidsRel.cons (MetaLe.refl _) ih
  · rename_i ih; exact KidsRel.cons (metaLe_node (by simp) (eraseSub_rel _)) ih
  · exact KidsRel.refl _
  · rename_i ih; exact KidsRel.cons (metaLe_node (fun h => h) ih) (KidsRel.refl _)
  · rename_i ih2 ih1
    refine KidsRel.cons (metaLe_node (fun _ l hl => ?_) ih2) ih1
    simp at hl; subst hl; apply namesCheck_good_len; assumption

/-- `td.names = value` never changes a batch size or a device, and keeps the tree coherent — also when it raises -/
theorem setNamesM_metaLe (value : Option DimNames) (t : M) : MetaLe t (setNamesM value t).1 := by
  cases t with
  | leaf s d => exact MetaLe.refl _
  | node bs dv ns kids =>
    simp only [setNamesM]
    cases value with
    | none => exact metaLe_node (by simp) (eraseSub_rel _)
    | some v =>
      simp only []
      split
      · exact metaLe_node (by simp) (eraseSub_rel _)
      · exact MetaLe.refl _
      · rename_i hg
        split
        · rename_i kids' e he
          have := renameSub_rel v kids; rw [he] at this
          exact metaLe_node (fun h => h) this
        · rename_i kids' he
          have := renameSub_rel v kids; rw [he] at this
          refine metaLe_node (fun _ l hl => ?_) this
          simp at hl; subst hl; exact namesCheck_good_len hg


/-! ### batch size -/

theorem checkNewBs_of_empty (n : Shape) (sub : Kids) (h : isEmptyK sub = true) : checkNewBs n sub = true := by
  fun_induction isEmptyK sub <;> simp_all [checkNewBs]

/-- errors of the names machinery are ValueErrors -/
theorem renameSub_err (v : DimNames) (kids : Kids) (e : Err) (h : (renameSub v kids).2 = .err e) : e = .value := by
  fun_induction renameSub v kids <;> simp_all

theorem setNamesM_err_node (value : Option DimNames) (bs dv ns kids) (e : Err)
    (h : (setNamesM value (.node bs dv ns kids)).2 = .err e) : e = .value := by
  simp only [setNamesM] at h
  cases value with
  | none => simp at h
  | some v =>
    simp only [] at h
    split at h
    · simp at h
    · simp at h; exact h.symm
    · split at h
      · rename_i kids' e' he
        have := renameSub_err v kids e' (by rw [he])
        simp at h; subst h; exact this
      · simp at h

/-- what `finishResize` delivers when the entries were processed successfully and now fit the new size -/
theorem finishResize_spec (new bs : Shape) (dv : Option Nat) (names : Option DimNames) (kids' : Kids)
    (hf : ∀ k c, (k, c) ∈ kids' → fits new dv c) (hc : ∀ k c, (k, c) ∈ kids' → Coherent c) :
    let r := finishResize new bs dv names (kids', .ok)
    (r.2 = .ok ∨ r.2 = .err .value) ∧ Coherent r.1 ∧ r.1.shape = new ∧ (∀ d, r.1.onDev d = (dv == some d)) := by
  have hbase : Coherent (.node new dv none kids') := Coherent.node _ _ _ _ (by simp) hf hc
  cases names with
  | none => simp [finishResize, hbase, M.shape, M.onDev]
  | some ns =>
    simp only [finishResize]
    have hm := setNamesM_metaLe (some (namesAfterResize ns new)) (.node new dv none kids')
    obtain ⟨hs, hd, hcoh⟩ := hm
    refine ⟨?_, hcoh hbase, by rw [hs]; rfl, fun d => by rw [hd]; rfl⟩
    cases ho : (setNamesM (some (namesAfterResize ns new)) (.node new dv none kids')).2 with
    | ok => exact Or.inl rfl
    | err e => rw [setNamesM_err_node _ _ _ _ _ e ho]; exact Or.inr rfl



def Grown (new : Shape) (dv : Option Nat) (kids' : Kids) : Prop :=
  (∀ k c, (k, c) ∈ kids' → fits new dv c) ∧ (∀ k c, (k, c) ∈ kids' → Coherent c)

theorem Grown.cons {new dv k c r} (h1 : fits new dv c) (h2 : Coherent c) (h3 : Grown new dv r) :
    Grown new dv ((k, c) :: r) := by
  constructor
  · intro k' c' hm; simp at hm; rcases hm with ⟨_, rfl⟩ | hm
    · exact h1
    · exact h3.1 k' c' hm
  · intro k' c' hm; simp at hm; rcases hm with ⟨_, rfl⟩ | hm
    · exact h2
    · exact h3.2 k' c' hm

theorem takeEq_childNew (new cbs : Shape) : takeEq (childNew new cbs) new = true := by
  unfold childNew; split
  · exact takeEq_self _
  · exact takeEq_append _ _

/-- one nested tensordict inside the loop of `_batch_size_setter` -/
theorem growChild_spec (new cbs : Shape) (cdv : Option Nat) (cnames : Option DimNames) (sub : Kids)
    (bs : Shape) (dv : Option Nat)
    (hfit : fits bs dv (.node cbs cdv cnames sub)) (hcoh : Coherent (.node cbs cdv cnames sub))
    (hchk : (if decide (cbs.length < new.length) = true ∧ (!isEmptyK sub) = true then checkNewBs new sub
      else takeEq cbs new || isEmptyK sub) = true)
    (hneed : (decide (cbs.length < new.length) || !takeEq cbs new) = true)
    (ih : checkNewBs (childNew new cbs) sub = true →
      ((growKids (childNew new cbs) sub).2 = .ok ∨ (growKids (childNew new cbs) sub).2 = .err .value) ∧
      ((growKids (childNew new cbs) sub).2 = .ok → Grown (childNew new cbs) cdv (growKids (childNew new cbs) sub).1)) :
    let child : M × Out :=
      if childNew new cbs = cbs then (.node cbs cdv cnames sub, .ok)
      else if !checkNewBs (childNew new cbs) sub then (.node cbs cdv cnames sub, .err .runtime)
      else finishResize (childNew new cbs) cbs cdv cnames (growKids (childNew new cbs) sub)
    (child.2 = .ok ∨ child.2 = .err .value) ∧ (child.2 = .ok → fits new dv child.1 ∧ Coherent child.1) := by
  intro child
  have hdev : ∀ d, dv = some d → cdv = some d := by
    intro d hd; have := hfit.2 d hd; simpa [M.onDev] using this
  -- the child's own check cannot fail
  have hsub : checkNewBs (childNew new cbs) sub = true := by
    by_cases hlt : cbs.length < new.length
    · have hcn : childNew new cbs = new := by simp [childNew, hlt]
      rw [hcn]
      by_cases he : isEmptyK sub = true
      · exact checkNewBs_of_empty _ _ he
      · simp [hlt, he] at hchk; exact hchk
    · have hte : takeEq cbs new = false := by simpa [hlt] using hneed
      have he : isEmptyK sub = true := by simpa [hlt, hte] using hchk
      exact checkNewBs_of_empty _ _ he
  by_cases h1 : childNew new cbs = cbs
  · have : child = (.node cbs cdv cnames sub, .ok) := by simp [child, h1]
    rw [this]
    refine ⟨Or.inl rfl, fun _ => ⟨⟨?_, ?_⟩, hcoh⟩⟩
    · simp only [M.shape]; rw [← h1]; exact takeEq_childNew _ _
    · intro d hd; simp [M.onDev, hdev d hd]
  · have : child = finishResize (childNew new cbs) cbs cdv cnames (growKids (childNew new cbs) sub) := by
      simp [child, h1, hsub]
    rw [this]
    obtain ⟨ih1, ih2⟩ := ih hsub
    cases hg : growKids (childNew new cbs) sub with
    | mk sub' o =>
      rw [hg] at ih1 ih2
      cases o with
      | err e =>
        simp at ih1; subst ih1
        simp [finishResize]
      | ok =>
        have hG := ih2 rfl
        have hspec := finishResize_spec (childNew new cbs) cbs cdv cnames sub' hG.1 hG.2
        simp only at hspec
        obtain ⟨ho, hco, hsh, hdv'⟩ := hspec
        refine ⟨ho, fun _ => ⟨⟨?_, ?_⟩, hco⟩⟩
        · rw [hsh]; exact takeEq_childNew _ _
        · intro d hd; rw [hdv']; simp [hdev d hd]


theorem growKids_spec (new : Shape) (kids : Kids) (bs : Shape) (dv : Option Nat)
    (hf : ∀ k c, (k, c) ∈ kids → fits bs dv c) (hc : ∀ k c, (k, c) ∈ kids → Coherent c)
    (hchk : checkNewBs new kids = true) :
    ((growKids new kids).2 = .ok ∨ (growKids new kids).2 = .err .value) ∧
    ((growKids new kids).2 = .ok → Grown new dv (growKids new kids).1) := by
  fun_induction growKids new kids generalizing bs dv
  · exact ⟨Or.inl rfl, fun _ => ⟨by simp, by simp⟩⟩
  · -- a leaf
    rename_i new k s d tail r' o hx ih
    simp only [checkNewBs, Bool.and_eq_true] at hchk
    have ih' := ih bs dv (fun k c h => hf k c (List.mem_cons_of_mem _ h)) (fun k c h => hc k c (List.mem_cons_of_mem _ h)) hchk.2
    rw [hx] at ih'
    refine ⟨ih'.1, fun ho => Grown.cons ⟨hchk.1, (hf k (M.leaf s d) (by simp)).2⟩ (Coherent.leaf _ _) (ih'.2 ho)⟩
  · -- a nested tensordict whose own assignment raises
    rename_i new k cbs cdv cnames sub r hneed cnew child c' e hx ih
    simp only [checkNewBs, Bool.and_eq_true] at hchk
    have hcc := hc k (M.node cbs cdv cnames sub) (by simp)
    have hsp := growChild_spec new cbs cdv cnames sub bs dv (hf k (M.node cbs cdv cnames sub) (by simp)) hcc hchk.1 hneed
      (fun h => ih cbs cdv hcc.kid_fits hcc.kid_coh h)
    simp only at hsp
    have : child = (c', .err e) := hx
    simp only [child, cnew, dite_eq_ite] at this
    rw [this] at hsp
    rcases hsp.1 with h | h
    · simp at h
    · simp at h; subst h; exact ⟨Or.inr rfl, by simp⟩
  · -- a nested tensordict that follows, then the rest
    rename_i new k cbs cdv cnames sub r hneed cnew child c' hx r' o hxr ih2 ih1
    simp only [checkNewBs, Bool.and_eq_true] at hchk
    have hcc := hc k (M.node cbs cdv cnames sub) (by simp)
    have hsp := growChild_spec new cbs cdv cnames sub bs dv (hf k (M.node cbs cdv cnames sub) (by simp)) hcc hchk.1 hneed
      (fun h => ih2 cbs cdv hcc.kid_fits hcc.kid_coh h)
    simp only at hsp
    have : child = (c', .ok) := hx
    simp only [child, cnew, dite_eq_ite] at this
    rw [this] at hsp
    have ih' := ih1 bs dv (fun k c h => hf k c (List.mem_cons_of_mem _ h)) (fun k c h => hc k c (List.mem_cons_of_mem _ h)) hchk.2
    rw [hxr] at ih'
    obtain ⟨hfit, hcoh⟩ := hsp.2 rfl
    exact ⟨ih'.1, fun ho => Grown.cons hfit hcoh (ih'.2 ho)⟩
  · -- a nested tensordict that already extends the new size
    rename_i new k cbs cdv cnames sub r hneed r' o hxr ih
    simp only [checkNewBs, Bool.and_eq_true] at hchk
    have ih' := ih bs dv (fun k c h => hf k c (List.mem_cons_of_mem _ h)) (fun k c h => hc k c (List.mem_cons_of_mem _ h)) hchk.2
    rw [hxr] at ih'
    have hte : takeEq cbs new = true := by
      simp only [Bool.or_eq_true, decide_eq_true_eq, Bool.not_eq_true', not_or, Bool.not_eq_false] at hneed
      exact hneed.2
    exact ⟨ih'.1, fun ho => Grown.cons ⟨hte, (hf k (M.node cbs cdv cnames sub) (by simp)).2⟩ (hc k (M.node cbs cdv cnames sub) (by simp)) (ih'.2 ho)⟩



theorem restoreOnErr_snd (o : M) (r : M × Out) : (restoreOnErr o r).2 = r.2 := by
  unfold restoreOnErr; cases h : r.2 <;> simp [h]

theorem restoreOnErr_ok (o : M) (r : M × Out) (h : r.2 = .ok) : restoreOnErr o r = r := by
  unfold restoreOnErr; simp [h]

theorem restoreOnErr_err (o : M) (r : M × Out) (e : Err) (h : r.2 = .err e) : restoreOnErr o r = (o, .err e) := by
  unfold restoreOnErr; simp [h]

/-- `td.batch_size = new`: what the call delivers on a coherent node -/
theorem setBatchM_spec (new bs : Shape) (dv : Option Nat) (ns : Option DimNames) (kids : Kids)
    (hc : Coherent (.node bs dv ns kids)) :
    let r := setBatchM new (.node bs dv ns kids)
    (r.2 = .ok ∨ r.2 = .err .runtime ∨ r.2 = .err .value) ∧
    (r.2 ≠ .ok → r.1 = .node bs dv ns kids) ∧
    (r.2 = .ok → Coherent r.1 ∧ r.1.shape = new ∧ ∀ d, r.1.onDev d = (dv == some d)) ∧
    Coherent r.1 := by
  intro r
  by_cases hchk : checkNewBs new kids = true
  · have hr : r = restoreOnErr (.node bs dv ns kids) (finishResize new bs dv ns (growKids new kids)) := by
      simp [r, setBatchM, hchk]
    have hg := growKids_spec new kids bs dv hc.kid_fits hc.kid_coh hchk
    cases hgk : growKids new kids with
    | mk kids' o =>
      rw [hgk] at hg hr
      cases o with
      | err e =>
        have he : e = .value := by rcases hg.1 with h | h <;> simp at h; exact h
        subst he
        have : r = (.node bs dv ns kids, .err .value) := by
          rw [hr]; exact restoreOnErr_err _ _ _ (by simp [finishResize])
        rw [this]; simp [hc]
      | ok =>
        have hG := hg.2 rfl
        have hspec := finishResize_spec new bs dv ns kids' hG.1 hG.2
        simp only at hspec
        obtain ⟨ho, hco, hsh, hdv⟩ := hspec
        rcases ho with ho | ho
        · have : r = finishResize new bs dv ns (kids', .ok) := by rw [hr]; exact restoreOnErr_ok _ _ ho
          rw [this]
          exact ⟨Or.inl ho, fun h => absurd ho h, fun _ => ⟨hco, hsh, hdv⟩, hco⟩
        · have : r = (.node bs dv ns kids, .err .value) := by rw [hr]; exact restoreOnErr_err _ _ _ ho
          rw [this]; simp [hc]
  · have hr : r = (.node bs dv ns kids, .err .runtime) := by simp [r, setBatchM, hchk]
    rw [hr]; simp [hc]


/-! ### validation -/

theorem toDevK_spec (d : Nat) (sub : Kids) (bs : Shape)
    (hs : ∀ k c, (k, c) ∈ sub → takeEq c.shape bs = true) (hc : ∀ k c, (k, c) ∈ sub → Coherent c) :
    ∀ k c', (k, c') ∈ toDevK d sub → takeEq c'.shape bs = true ∧ c'.onDev d = true ∧ Coherent c' := by
  fun_induction toDevK d sub generalizing bs
  · simp
  · rename_i k s dv r ih
    intro k' c' hm; simp at hm
    rcases hm with ⟨_, rfl⟩ | hm
    · exact ⟨hs k (.leaf s dv) (by simp), by simp [M.onDev], Coherent.leaf _ _⟩
    · exact ih bs (fun k c h => hs k c (List.mem_cons_of_mem _ h)) (fun k c h => hc k c (List.mem_cons_of_mem _ h)) k' c' hm
  · rename_i k cbs cdv ns sub2 r ih2 ih1
    intro k' c' hm; simp at hm
    rcases hm with ⟨_, rfl⟩ | hm
    · have hcc := hc k (.node cbs cdv ns sub2) (by simp)
      have h2 := ih2 cbs (fun k c h => (hcc.kid_fits k c h).1) hcc.kid_coh
      refine ⟨hs k (.node cbs cdv ns sub2) (by simp), by simp [M.onDev], ?_⟩
      refine Coherent.node _ _ _ _ hcc.names_len ?_ ?_
      · intro k2 c2 hm2
        obtain ⟨a, b, _⟩ := h2 k2 c2 hm2
        exact ⟨a, fun d' hd' => by simp at hd'; subst hd'; exact b⟩
      · intro k2 c2 hm2; exact (h2 k2 c2 hm2).2.2
    · exact ih1 bs (fun k c h => hs k c (List.mem_cons_of_mem _ h)) (fun k c h => hc k c (List.mem_cons_of_mem _ h)) k' c' hm

/-- `value.to(d)`: on the requested device, same shape, still coherent -/
theorem toDev_spec (d : Nat) (v v' : M) (h : toDev d v = .ok v') (hc : Coherent v) :
    v'.onDev d = true ∧ v'.shape = v.shape ∧ Coherent v' := by
  cases v with
  | leaf s dv =>
    simp only [toDev] at h; split at h <;> simp at h
    subst h; exact ⟨by simp [M.onDev], rfl, Coherent.leaf _ _⟩
  | node bs dv ns sub =>
    simp only [toDev] at h; split at h <;> simp at h
    subst h
    have h2 := toDevK_spec d sub bs (fun k c h => (hc.kid_fits k c h).1) hc.kid_coh
    refine ⟨by simp [M.onDev], rfl, Coherent.node _ _ _ _ hc.names_len ?_ (fun k c hm => (h2 k c hm).2.2)⟩
    intro k c hm
    obtain ⟨a, b, _⟩ := h2 k c hm
    exact ⟨a, fun d' hd' => by simp at hd'; subst hd'; exact b⟩


theorem takeEq_of_nil_bs (s bs : Shape) (h : ¬ bs ≠ []) : takeEq s bs = true := by
  have : bs = [] := by simpa using h
  subst this; exact takeEq_nil _

theorem valShape_spec (bs : Shape) (value v1 : M) (hv : Coherent value) (h : valShape bs value = .ok v1) :
    takeEq v1.shape bs = true ∧ Coherent v1 := by
  unfold valShape at h
  split at h
  · cases value with
    | leaf s d => simp at h
    | node vbs vdv vns vkids =>
      simp only at h
      have hsp := setBatchM_spec bs vbs vdv vns vkids hv
      simp only at hsp
      split at h
      · rename_i v ho
        simp at h; subst h
        have : (setBatchM bs (.node vbs vdv vns vkids)).2 = .ok := by rw [ho]
        obtain ⟨hco, hsh, _⟩ := hsp.2.2.1 this
        rw [ho] at hco hsh
        exact ⟨by rw [hsh]; exact takeEq_self _, hco⟩
      · simp at h
  · rename_i hcond
    simp at h; subst h
    refine ⟨?_, hv⟩
    by_cases hb : bs ≠ []
    · simp [hb] at hcond; exact hcond
    · exact takeEq_of_nil_bs _ _ hb

theorem valDev_spec (dev : Option Nat) (v1 v2 : M) (hv : Coherent v1) (h : valDev dev v1 = .ok v2) :
    v2.shape = v1.shape ∧ (∀ d, dev = some d → v2.onDev d = true) ∧ Coherent v2 := by
  unfold valDev at h
  cases dev with
  | none => simp at h; subst h; exact ⟨rfl, by simp, hv⟩
  | some d =>
    simp only at h
    split at h
    · rename_i hon; simp at h; subst h
      exact ⟨rfl, fun d' hd' => by simp at hd'; subst hd'; exact hon, hv⟩
    · obtain ⟨a, b, c⟩ := toDev_spec d v1 v2 h hv
      exact ⟨b, fun d' hd' => by simp at hd'; subst hd'; exact a, c⟩

theorem valNames_spec (bs : Shape) (dev : Option Nat) (names : Option DimNames) (kids : Kids) (v2 : M)
    (hc : Coherent (.node bs dev names kids)) (hv : Coherent v2) (hfit : fits bs dev v2) :
    let r := valNames bs dev names kids v2
    Coherent (.node bs dev r.1 r.2.1) ∧ (∀ v', r.2.2 = .ok v' → fits bs dev v' ∧ Coherent v') := by
  intro r
  have keep : ∀ v' : M, MetaLe v2 v' → fits bs dev v' ∧ Coherent v' := by
    intro v' ⟨hs, hd, hco⟩
    exact ⟨⟨by rw [hs]; exact hfit.1, fun d hd' => by rw [hd]; exact hfit.2 d hd'⟩, hco hv⟩
  by_cases hcond : bs ≠ [] ∧ v2.isNode = true
  · cases names with
    | some ns =>
      by_cases hne : v2.namesList.take bs.length ≠ ns
      · by_cases hr : (!refineOk ns v2.namesList) = true
        · have : r = (some ns, kids, .error .runtime) := by simp [r, valNames, hcond, hne, hr]
          rw [this]; exact ⟨hc, by simp⟩
        · have hm := setNamesM_metaLe (some ns) v2
          cases hs : setNamesM (some ns) v2 with
          | mk v3 o =>
            rw [hs] at hm
            cases o with
            | ok =>
              have : r = (some ns, kids, .ok v3) := by simp [r, valNames, hcond, hne, hr, hs]
              rw [this]; refine ⟨hc, fun v' hv' => ?_⟩
              simp at hv'; subst hv'; exact keep _ hm
            | err e =>
              have : r = (some ns, kids, .error e) := by simp [r, valNames, hcond, hne, hr, hs]
              rw [this]; exact ⟨hc, by simp⟩
      · have : r = (some ns, kids, .ok v2) := by simp [r, valNames, hcond, hne]
        rw [this]; refine ⟨hc, fun v' hv' => ?_⟩
        simp at hv'; subst hv'; exact ⟨hfit, hv⟩
    | none =>
      by_cases hn : v2.hasNames = true
      · have hm := setNamesM_metaLe (some (v2.namesList.take bs.length)) (.node bs dev none kids)
        cases hs : setNamesM (some (v2.namesList.take bs.length)) (.node bs dev none kids) with
        | mk t' o =>
          rw [hs] at hm
          cases t' with
          | leaf s d =>
            have := hm.1; simp [M.shape] at this
            -- a node stays a node
            simp only [setNamesM] at hs
            split at hs <;> (try split at hs) <;> simp at hs
          | node bs' dv' ns' kids' =>
            have hbs : bs' = bs := by have := hm.1; simpa [M.shape] using this
            have hdv : dv' = dev := by
              simp only [setNamesM] at hs
              split at hs <;> (try split at hs) <;> simp at hs <;> exact hs.1.2.1.symm
            subst hbs; subst hdv
            have hco := hm.2.2 hc
            cases o with
            | ok =>
              have : r = (ns', kids', .ok v2) := by simp [r, valNames, hcond, hn, hs]
              rw [this]; refine ⟨hco, fun v' hv' => ?_⟩
              simp at hv'; subst hv'; exact ⟨hfit, hv⟩
            | err e =>
              have : r = (ns', kids', .error e) := by simp [r, valNames, hcond, hn, hs]
              rw [this]; exact ⟨hco, by simp⟩
      · have : r = (none, kids, .ok v2) := by simp [r, valNames, hcond, hn]
        rw [this]; refine ⟨hc, fun v' hv' => ?_⟩
        simp at hv'; subst hv'; exact ⟨hfit, hv⟩
  · have : r = (names, kids, .ok v2) := by simp only [r, valNames]; rw [if_neg hcond]
    rw [this]; refine ⟨hc, fun v' hv' => ?_⟩
    simp at hv'; subst hv'; exact ⟨hfit, hv⟩

/-- `_validate_value`: whatever happens the container stays coherent; an accepted value fits the container -/
theorem validate_spec (bs : Shape) (dv : Option Nat) (names : Option DimNames) (kids : Kids) (value : M)
    (hc : Coherent (.node bs dv names kids)) (hv : Coherent value) :
    let r := validate bs dv names kids value
    Coherent (.node bs dv r.1 r.2.1) ∧ (∀ v', r.2.2 = .ok v' → fits bs dv v' ∧ Coherent v') := by
  intro r
  cases h1 : valShape bs value with
  | error e => have : r = (names, kids, .error e) := by simp [r, validate, h1]
               rw [this]; exact ⟨hc, by simp⟩
  | ok v1 =>
    obtain ⟨hs1, hc1⟩ := valShape_spec bs value v1 hv h1
    cases h2 : valDev dv v1 with
    | error e => have : r = (names, kids, .error e) := by simp [r, validate, h1, h2]
                 rw [this]; exact ⟨hc, by simp⟩
    | ok v2 =>
      obtain ⟨hs2, hd2, hc2⟩ := valDev_spec dv v1 v2 hc1 h2
      have : r = valNames bs dv names kids v2 := by simp [r, validate, h1, h2]
      rw [this]
      exact valNames_spec bs dv names kids v2 hc hc2 ⟨by rw [hs2]; exact hs1, hd2⟩


/-! ### keyed writes -/

/-- same node metadata (batch size and device), coherent: still fits wherever it was stored -/
def KeepsMeta (t t' : M) : Prop :=
  t'.shape = t.shape ∧ (∀ d, t'.onDev d = t.onDev d) ∧ Coherent t'

theorem KeepsMeta.fits {t t' : M} {bs dv} (h : KeepsMeta t t') (hf : fits bs dv t) : fits bs dv t' :=
  ⟨by rw [h.1]; exact hf.1, fun d hd => by rw [h.2.1]; exact hf.2 d hd⟩

theorem keepsMeta_node {bs dv ns ns' kids kids'} (h : Coherent (.node bs dv ns' kids')) :
    KeepsMeta (.node bs dv ns kids) (.node bs dv ns' kids') := ⟨rfl, fun _ => rfl, h⟩

/-- `set(key, value)` (not validated): whatever happens — also when the value is rejected after nested
tensordicts were auto-created — the receiver stays coherent and keeps its batch size and device -/
theorem setPath_false_spec (p : Path) (v t : M) (hc : Coherent t) (hv : Coherent v) :
    KeepsMeta t (setPath false p v t).1 := by
  fun_induction setPath false p v t
  · exact ⟨rfl, fun _ => rfl, hc⟩
  · exact ⟨rfl, fun _ => rfl, hc⟩
  · rename_i hfalse; simp at hfalse
  · -- [k], validation raises
    rename_i k v bs dv ns kids _ ns' kids' e hval
    have := validate_spec bs dv ns kids v hc hv
    simp only at this; rw [hval] at this
    exact keepsMeta_node this.1
  · -- [k], accepted
    rename_i k v bs dv ns kids _ ns' kids' v' hval
    have := validate_spec bs dv ns kids v hc hv
    simp only at this; rw [hval] at this
    obtain ⟨hf, hcv⟩ := this.2 v' rfl
    exact keepsMeta_node (this.1.kset k hf hcv)
  · -- auto-created nested tensordict
    rename_i k k2 rest v bs dv ns kids hk c o hx ih
    have ih' := ih hc.empty_like hv
    rw [hx] at ih'
    exact keepsMeta_node (hc.kset k (ih'.fits (fits_empty_like bs dv ns [])) ih'.2.2)
  · -- existing nested tensordict
    rename_i k k2 rest v bs dv ns kids cbs cdv cns sub hk c o hx ih
    have hm := kget_mem hk
    have ih' := ih (hc.kid_coh k _ hm) hv
    rw [hx] at ih'
    exact keepsMeta_node (hc.kset k (ih'.fits (hc.kid_fits k _ hm)) ih'.2.2)
  · exact ⟨rfl, fun _ => rfl, hc⟩



theorem KeepsMeta.refl {t : M} (h : Coherent t) : KeepsMeta t t := ⟨rfl, fun _ => rfl, h⟩

theorem delPath_spec (p : Path) (t : M) (hc : Coherent t) : KeepsMeta t (delPath p t).1 := by
  fun_induction delPath p t
  · exact KeepsMeta.refl hc
  · exact KeepsMeta.refl hc
  · exact keepsMeta_node (hc.kdel _)
  · exact KeepsMeta.refl hc
  · exact KeepsMeta.refl hc
  · rename_i k k2 rest bs dv ns kids c hk c' o hx ih
    have hm := kget_mem hk
    have ih' := ih (hc.kid_coh k _ hm)
    rw [hx] at ih'
    exact keepsMeta_node (hc.kset k (ih'.fits (hc.kid_fits k _ hm)) ih'.2.2)

theorem createNested_spec (p : Path) (t : M) (hc : Coherent t) : KeepsMeta t (createNested p t).1 := by
  fun_induction createNested p t
  · exact KeepsMeta.refl hc
  · exact KeepsMeta.refl hc
  · exact keepsMeta_node (hc.kset _ (fits_empty_like _ _ _ _) hc.empty_like)
  · rename_i k k2 rest bs dv ns kids c o hx ih
    have ih' := ih hc.empty_like
    rw [hx] at ih'
    exact keepsMeta_node (hc.kset k (ih'.fits (fits_empty_like bs dv ns [])) ih'.2.2)

theorem clearM_spec (t : M) (hc : Coherent t) : KeepsMeta t (clearM t).1 := by
  cases t with
  | leaf s d => exact KeepsMeta.refl hc
  | node bs dv ns kids => exact keepsMeta_node hc.empty_like

theorem setNamesM_spec (v : Option DimNames) (t : M) (hc : Coherent t) : KeepsMeta t (setNamesM v t).1 := by
  obtain ⟨a, b, c⟩ := setNamesM_metaLe v t
  exact ⟨a, b, c hc⟩

/-- an operation applied through a nested handle: if it keeps the addressed node's batch size and device
(and coherence), the whole tree stays coherent -/
theorem atPath_keeps (f : M → M × Out) (hf : ∀ n, Coherent n → KeepsMeta n (f n).1) (h : Path) (t : M)
    (hc : Coherent t) : KeepsMeta t (atPath f h t).1 := by
  fun_induction atPath f h t
  · exact hf _ hc
  · rename_i k rest bs dv ns kids c hk c' o hx ih
    have hm := kget_mem hk
    have ih' := ih (hc.kid_coh k _ hm)
    rw [hx] at ih'
    exact keepsMeta_node (hc.kset k (ih'.fits (hc.kid_fits k _ hm)) ih'.2.2)
  · exact KeepsMeta.refl hc
  · exact KeepsMeta.refl hc

/-- the scope condition of the property for `batch_size` assigned through a nested handle: the new size still
extends the batch size of the node that holds the addressed tensordict -/
def handleOk (new : Shape) : Path → M → Prop
  | [], _ => True
  | _ :: _, .leaf .. => True
  | [_], .node bs _ _ _ => takeEq new bs = true
  | k :: k2 :: rest, .node _ _ _ kids =>
    match kget k kids with
    | some c => handleOk new (k2 :: rest) c
    | none => True

theorem setBatch_leaf (new : Shape) (s : Shape) (d : Nat) : setBatchM new (.leaf s d) = (.leaf s d, .err .attr) := rfl

/-- `batch_size` assigned through a nested handle (in scope): the tree stays coherent, whatever the outcome -/
theorem atPath_setBatch_nested (new : Shape) (h : Path) (hne : h ≠ []) (t : M) (hc : Coherent t)
    (hok : handleOk new h t) :
    KeepsMeta t (atPath (setBatchM new) h t).1 := by
  induction h generalizing t with
  | nil => exact absurd rfl hne
  | cons k rest ih =>
    cases t with
    | leaf s d => exact KeepsMeta.refl hc
    | node bs dv ns kids =>
      simp only [atPath]
      cases hk : kget k kids with
      | none => simp; exact KeepsMeta.refl hc
      | some c =>
        simp only []
        have hm := kget_mem hk
        have hcc := hc.kid_coh k c hm
        have hcf := hc.kid_fits k c hm
        cases rest with
        | nil =>
          -- the addressed tensordict itself
          simp only [atPath]
          cases c with
          | leaf s d => simp [setBatch_leaf]; exact keepsMeta_node (hc.kset k hcf hcc)
          | node cbs cdv cns ckids =>
            have hsp := setBatchM_spec new cbs cdv cns ckids hcc
            simp only at hsp
            have hok' : takeEq new bs = true := by simpa [handleOk] using hok
            cases hr : setBatchM new (.node cbs cdv cns ckids) with
            | mk c' o =>
              rw [hr] at hsp
              cases o with
              | ok =>
                obtain ⟨hco, hsh, hdv⟩ := hsp.2.2.1 rfl
                refine keepsMeta_node (hc.kset k ⟨by rw [hsh]; exact hok', fun d hd => ?_⟩ hco)
                rw [hdv]; have := hcf.2 d hd; simpa [M.onDev] using this
              | err e =>
                have := hsp.2.1 (by simp)
                simp only at this; subst this
                exact keepsMeta_node (hc.kset k hcf hcc)
        | cons k2 rest2 =>
          have hok' : handleOk new (k2 :: rest2) c := by simpa [handleOk, hk] using hok
          cases hr : atPath (setBatchM new) (k2 :: rest2) c with
          | mk c' o =>
            have ih' := ih (by simp) c hcc hok'
            rw [hr] at ih'
            exact keepsMeta_node (hc.kset k (ih'.fits hcf) ih'.2.2)



def witT : M := .node [2] none none [("c", .node [2] none (some [some "x"]) [("g", .node [2, 2] none (some [none, some "x"]) [])])]

/-- formerly the counter-example (known finding C01-batch-size-names-conflict): the refused assignment now leaves the tree as it was -/
theorem wit_eval : step witT (.setBatch [] [3]) = (witT, .err .value) := by
  simp [witT, step, atPath, setBatchM, restoreOnErr, checkNewBs, growKids, finishResize, childNew, takeEq, isEmptyK, setNamesM, namesCheck, countNone, renameSub, namesAfterResize, distinct]

theorem not_coherent_of_child (t c : M) (k : String) (h : getPath [k] t = some c) (hs : takeEq c.shape t.shape = false) :
    ¬ Coherent t := by
  intro hc
  cases t with
  | leaf s d => simp [getPath] at h
  | node bs dv ns kids =>
    simp only [getPath] at h
    cases hk : kget k kids with
    | none => simp [hk] at h
    | some c' =>
      simp [hk, getPath] at h; subst h
      have := (hc.kid_fits k c' (kget_mem hk)).1
      simp [M.shape] at hs this; rw [this] at hs; simp at hs



/-- the observable "what is stored where": key, shape and device of every entry of a node -/
def entryMeta (kids : Kids) : List (String × Shape × Bool) := kids.map fun kv => (kv.1, kv.2.shape, kv.2.isNode)

theorem eraseSub_entryMeta (kids : Kids) : entryMeta (eraseSub kids) = entryMeta kids := by
  fun_induction eraseSub kids <;> simp_all [entryMeta, M.shape, M.isNode]

theorem renameSub_entryMeta (v : DimNames) (kids : Kids) : entryMeta (renameSub v kids).1 = entryMeta kids := by
  fun_induction renameSub v kids <;> simp_all [entryMeta, M.shape, M.isNode]

theorem setNamesM_entryMeta (v : Option DimNames) (bs dv ns kids) :
    ∃ ns' kids', (setNamesM v (.node bs dv ns kids)).1 = .node bs dv ns' kids' ∧ entryMeta kids' = entryMeta kids := by
  simp only [setNamesM]
  cases v with
  | none => exact ⟨_, _, rfl, eraseSub_entryMeta kids⟩
  | some v =>
    simp only []
    split
    · exact ⟨_, _, rfl, eraseSub_entryMeta kids⟩
    · exact ⟨_, _, rfl, rfl⟩
    · split
      · rename_i kids' e he
        have := renameSub_entryMeta v kids; rw [he] at this
        exact ⟨_, _, rfl, this⟩
      · rename_i kids' he
        have := renameSub_entryMeta v kids; rw [he] at this
        exact ⟨_, _, rfl, this⟩

theorem valNames_entryMeta (bs dv names kids v2) : entryMeta (valNames bs dv names kids v2).2.1 = entryMeta kids := by
  unfold valNames
  split
  · split
    · split
      · split
        · rfl
        · split <;> rfl
      · rfl
    · split
      · obtain ⟨ns', kids', h1, h2⟩ := setNamesM_entryMeta (some (v2.namesList.take bs.length)) bs dv none kids
        rename_i hnone _
        split
        · rename_i heq; rw [heq] at h1; simp at h1; obtain ⟨_, _, _, rfl⟩ := h1; exact h2
        · rename_i heq; rw [heq] at h1; simp at h1; obtain ⟨_, _, _, rfl⟩ := h1; exact h2
        · rename_i heq; rw [heq] at h1
      · rfl
  · rfl

theorem validate_entryMeta (bs dv names kids value) : entryMeta (validate bs dv names kids value).2.1 = entryMeta kids := by
  unfold validate
  split
  · rfl
  · split
    · rfl
    · exact valNames_entryMeta _ _ _ _ _


/-! ### rename_key_ -/

theorem kget_kdel_same (k : String) (l : Kids) : kget k (kdel k l) = none := by
  induction l with
  | nil => simp [kdel, kget]
  | cons a r ih => obtain ⟨k', v'⟩ := a; simp only [kdel]; split <;> simp_all [kget]

theorem kget_kset_same (k : String) (v : M) (l : Kids) : kget k (kset k v l) = some v := by
  induction l with
  | nil => simp [kset, kget]
  | cons a r ih => obtain ⟨k', v'⟩ := a; simp only [kset]; split <;> simp_all [kget]

theorem KeepsMeta.trans {a b c : M} (h1 : KeepsMeta a b) (h2 : KeepsMeta b c) : KeepsMeta a c :=
  ⟨by rw [h2.1, h1.1], fun d => by rw [h2.2.1, h1.2.1], h2.2.2⟩

/-- where a validated write along `p` lands, the value fits: the landing node is the existing node at the end of
the path, or a chain of auto-created copies of the deepest existing node -/
def FitsAlong : Path → M → M → Prop
  | [], _, _ => True
  | _ :: _, _, .leaf .. => True
  | [_], v, .node bs dv _ _ => fits bs dv v
  | k :: k2 :: rest, v, .node bs dv _ kids =>
    match kget k kids with
    | none => fits bs dv v
    | some c => FitsAlong (k2 :: rest) v c

theorem fitsAlong_empty (p : Path) (v : M) (bs dv ns) (hp : p ≠ []) (hf : fits bs dv v) :
    FitsAlong p v (.node bs dv ns []) := by
  match p with
  | [] => simp at hp
  | [_] => simpa [FitsAlong] using hf
  | _ :: _ :: _ => simpa [FitsAlong, kget] using hf

/-- a validated write (`_set_tuple(validated=True)`) keeps the receiver coherent when the value fits where it lands -/
theorem setPath_true_spec (p : Path) (v t : M) (hc : Coherent t) (hv : Coherent v) (hfa : FitsAlong p v t) :
    KeepsMeta t (setPath true p v t).1 := by
  fun_induction setPath true p v t
  · exact KeepsMeta.refl hc
  · exact KeepsMeta.refl hc
  · rename_i k v bs dv ns kids _
    exact keepsMeta_node (hc.kset k (by simpa [FitsAlong] using hfa) hv)
  · rename_i h _ _ _ _; simp at h
  · rename_i h _ _ _ _; simp at h
  · rename_i k k2 rest v bs dv ns kids hk c o hx ih
    have hf : fits bs dv v := by simpa [FitsAlong, hk] using hfa
    have ih' := ih hc.empty_like hv (fitsAlong_empty _ _ _ _ _ (by simp) hf)
    rw [hx] at ih'
    exact keepsMeta_node (hc.kset k (ih'.fits (fits_empty_like bs dv ns [])) ih'.2.2)
  · rename_i k k2 rest v bs dv ns kids cbs cdv cns sub hk c o hx ih
    have hm := kget_mem hk
    have hfa' : FitsAlong (k2 :: rest) v (.node cbs cdv cns sub) := by simpa [FitsAlong, hk] using hfa
    have ih' := ih (hc.kid_coh k _ hm) hv hfa'
    rw [hx] at ih'
    exact keepsMeta_node (hc.kset k (ih'.fits (hc.kid_fits k _ hm)) ih'.2.2)
  · exact KeepsMeta.refl hc

/-- an entry found anywhere below a coherent node fits that node (batch-size prefixes and devices chain) -/
theorem fits_of_getPath (p : Path) (t v : M) (hc : Coherent t) (hp : p ≠ []) (h : getPath p t = some v) :
    fits t.shape (match t with | .node _ dv _ _ => dv | .leaf .. => none) v ∧ Coherent v := by
  induction p generalizing t with
  | nil => simp at hp
  | cons k rest ih =>
    cases t with
    | leaf s d => simp [getPath] at h
    | node bs dv ns kids =>
      simp only [getPath] at h
      cases hk : kget k kids with
      | none => simp [hk] at h
      | some c =>
        simp only [hk] at h
        have hm := kget_mem hk
        have hcf := hc.kid_fits k c hm
        have hcc := hc.kid_coh k c hm
        cases rest with
        | nil => simp [getPath] at h; subst h; exact ⟨hcf, hcc⟩
        | cons k2 rest2 =>
          have ih' := ih c hcc (by simp) h
          cases c with
          | leaf s d => simp [getPath] at h
          | node cbs cdv cns csub =>
            simp only [M.shape] at ih' hcf ⊢
            refine ⟨⟨takeEq_trans ih'.1.1 hcf.1, fun d hd => ?_⟩, ih'.2⟩
            have := hcf.2 d hd; simp [M.onDev] at this
            exact ih'.1.2 d this



/-- (C) the entry stays in its nested tensordict or moves to one of its parents -/
theorem fitsAlong_up (new old : Path) (t v : M) (hc : Coherent t) (h : getPath old t = some v)
    (hpre : isPrefix new.dropLast old = true) (hne : isPrefix old new = false) (hn : new ≠ []) :
    FitsAlong new v t := by
  induction new generalizing old t with
  | nil => simp at hn
  | cons k rest ih =>
    cases t with
    | leaf s d => cases rest <;> simp [FitsAlong]
    | node bs dv ns kids =>
      have hold : old ≠ [] := by intro e; subst e; simp [isPrefix] at hne
      cases rest with
      | nil =>
        have := (fits_of_getPath old _ v hc hold h).1
        simpa [FitsAlong, M.shape] using this
      | cons k2 rest2 =>
        simp only [FitsAlong]
        cases old with
        | nil => exact absurd rfl hold
        | cons ko old' =>
          have hd : (k :: k2 :: rest2).dropLast = k :: (k2 :: rest2).dropLast := by simp [List.dropLast]
          rw [hd] at hpre
          simp only [isPrefix, Bool.and_eq_true, beq_iff_eq] at hpre
          obtain ⟨rfl, hpre'⟩ := hpre
          simp only [isPrefix, beq_self_eq_true, Bool.true_and] at hne
          simp only [getPath] at h
          cases hk : kget k kids with
          | none => simp [hk] at h
          | some c =>
            simp only [hk] at h ⊢
            exact ih old' c (hc.kid_coh k c (kget_mem hk)) h hpre' hne (by simp)

/-- (D) the new key extends the old one: after detaching the entry, the write lands in auto-created copies of
the node that held it -/
theorem fitsAlong_extend (old ext : Path) (t v : M) (hc : Coherent t) (h : getPath old t = some v) (ho : old ≠ [])
    (hext : ext ≠ []) : FitsAlong (old ++ ext) v (delPath old t).1 := by
  induction old generalizing t with
  | nil => exact absurd rfl ho
  | cons k rest ih =>
    cases t with
    | leaf s d => simp [getPath] at h
    | node bs dv ns kids =>
      simp only [getPath] at h
      cases hk : kget k kids with
      | none => simp [hk] at h
      | some c =>
        simp only [hk] at h
        cases rest with
        | nil =>
          simp [getPath] at h; subst h
          cases ext with
          | nil => exact absurd rfl hext
          | cons e1 e2 =>
            have hf := hc.kid_fits k c (kget_mem hk)
            simp [delPath, hk, FitsAlong, kget_kdel_same, hf]
        | cons k2 rest2 =>
          have hcc := hc.kid_coh k c (kget_mem hk)
          have ih' := ih c hcc h (by simp)
          simp only [delPath, hk, List.cons_append]
          cases hd : delPath (k2 :: rest2) c with
          | mk c' o =>
            rw [hd] at ih'
            simp only [FitsAlong, kget_kset_same]
            exact ih'



theorem isPrefix_iff_append (p q : Path) : isPrefix p q = true ↔ ∃ ext, q = p ++ ext := by
  induction p generalizing q with
  | nil => simp [isPrefix]
  | cons a p ih =>
    cases q with
    | nil => simp [isPrefix]
    | cons b q =>
      simp [isPrefix, ih]
      intro _ _; exact eq_comm

/-- `rename_key_` (repaired): whatever the keys and whatever the outcome, the tree stays coherent -/
theorem renamePath_spec (old new : Path) (t : M) (hc : Coherent t) : KeepsMeta t (renamePath old new t).1 := by
  unfold renamePath
  by_cases h0 : old = [] ∨ new = []
  · simp [h0]; exact KeepsMeta.refl hc
  · simp only [h0, if_false]
    have ho : old ≠ [] := fun e => h0 (Or.inl e)
    have hn : new ≠ [] := fun e => h0 (Or.inr e)
    by_cases heq : old = new
    · simp only [heq, if_true]; split <;> exact KeepsMeta.refl hc
    · simp only [heq, if_false]
      by_cases htl : throughLeaf old t = true
      · simp [htl]; exact KeepsMeta.refl hc
      · simp only [htl, Bool.false_eq_true, if_false]
        cases hg : getPath old t with
        | none => exact KeepsMeta.refl hc
        | some v =>
          simp only []
          have hvc : Coherent v := (fits_of_getPath old t v hc ho hg).2
          by_cases hpre : isPrefix old new = true
          · -- the new key extends the old one: detach, then write below the auto-created copies
            simp only [hpre, if_true]
            obtain ⟨ext, hext⟩ := (isPrefix_iff_append old new).mp hpre
            have hext' : ext ≠ [] := by intro e; subst e; simp at hext; exact heq hext.symm
            have hd := delPath_spec old t hc
            have hfa := fitsAlong_extend old ext t v hc hg ho hext'
            cases hdel : delPath old t with
            | mk t1 o =>
              rw [hdel] at hd hfa
              cases o with
              | err e => exact hd
              | ok =>
                simp only []
                rw [hext]
                exact hd.trans (setPath_true_spec _ v t1 hd.2.2 hvc hfa)
          · have hpre' : isPrefix old new = false := by simpa using hpre
            simp only [hpre', Bool.false_eq_true, if_false]
            -- the write
            have hset : KeepsMeta t (setPath (decide (new.length = 1) || isPrefix new.dropLast old) new v t).1 := by
              by_cases hval : (decide (new.length = 1) || isPrefix new.dropLast old) = true
              · rw [hval]
                have hup : isPrefix new.dropLast old = true := by
                  rcases Bool.or_eq_true_iff.mp hval with h1 | h1
                  · have : new.length = 1 := by simpa using h1
                    match new, this with
                    | [k], _ => simp [List.dropLast, isPrefix]
                  · exact h1
                exact setPath_true_spec new v t hc hvc (fitsAlong_up new old t v hc hg hup hpre' hn)
              · have : (decide (new.length = 1) || isPrefix new.dropLast old) = false := by simpa using hval
                rw [this]
                exact setPath_false_spec new v t hc hvc
            cases hs : setPath (decide (new.length = 1) || isPrefix new.dropLast old) new v t with
            | mk t1 o =>
              rw [hs] at hset
              cases o with
              | err e => exact hset
              | ok =>
                simp only []
                split
                · exact hset
                · exact hset.trans (delPath_spec old t1 hset.2.2)



theorem popPath_spec (p : Path) (t : M) (hc : Coherent t) : KeepsMeta t (popPath p t).1 := by
  unfold popPath
  split
  · exact KeepsMeta.refl hc
  · split
    · exact KeepsMeta.refl hc
    · split
      · exact KeepsMeta.refl hc
      · exact delPath_spec p t hc

theorem popItem_spec (t : M) (hc : Coherent t) : KeepsMeta t (popItem t).1 := by
  cases t with
  | leaf s d => exact KeepsMeta.refl hc
  | node bs dv ns kids =>
    simp only [popItem]
    split
    · exact KeepsMeta.refl hc
    · refine keepsMeta_node (Coherent.node _ _ _ _ hc.names_len ?_ ?_)
      · intro k c hm; exact hc.kid_fits k c (List.dropLast_subset _ hm)
      · intro k c hm; exact hc.kid_coh k c (List.dropLast_subset _ hm)

theorem setDefaultPath_spec (p : Path) (v t : M) (hc : Coherent t) (hv : Coherent v) :
    KeepsMeta t (setDefaultPath p v t).1 := by
  unfold setDefaultPath
  split
  · exact KeepsMeta.refl hc
  · split
    · exact KeepsMeta.refl hc
    · exact setPath_false_spec p v t hc hv

theorem refineNamesM_spec (names : DimNames) (t : M) (hc : Coherent t) : KeepsMeta t (refineNamesM names t).1 := by
  cases t with
  | leaf s d => exact KeepsMeta.refl hc
  | node bs dv ns kids =>
    simp only [refineNamesM]
    split
    · exact KeepsMeta.refl hc
    · exact setNamesM_spec _ _ hc


/-! ### update -/

/-- `_convert_to_tensordict`: what the constructor builds from a dict payload fits the metadata it was given -/
theorem convertKids_spec (bs : Shape) (dv : Option Nat) (ns : Option DimNames) (pv : List (String × PV)) (acc : Kids)
    (hc : Coherent (.node bs dv ns acc)) (r : Kids) (h : convertKids bs dv ns pv acc = .ok r) :
    Coherent (.node bs dv ns r) := by
  fun_induction convertKids bs dv ns pv acc generalizing r
  · simp at h; subst h; exact hc
  · simp at h
  · rename_i k s d rest acc x acc' v' hval ih
    have hv := validate_spec bs dv ns acc (.leaf s d) hc (Coherent.leaf _ _)
    simp only at hv; rw [hval] at hv
    obtain ⟨hco, hfit⟩ := hv
    obtain ⟨hf, hcv⟩ := hfit v' rfl
    -- the names returned by validate are not used for a tensor value: the container's names are unchanged
    have hco' : Coherent (.node bs dv ns acc') := Coherent.node _ _ _ _ hc.names_len hco.kid_fits hco.kid_coh
    exact ih (hco'.kset k hf hcv) r h
  · simp at h
  · rename_i k sub rest acc ckids hsub ih2 ih1
    have hck := ih2 hc.empty_like ckids hsub
    exact ih1 (hc.kset k (fits_empty_like bs dv ns ckids) hck) r h

theorem setPathPV_spec (p : Path) (v : PV) (t : M) (hc : Coherent t) : KeepsMeta t (setPathPV p v t).1 := by
  fun_induction setPathPV p v t
  · exact KeepsMeta.refl hc
  · exact KeepsMeta.refl hc
  · rename_i k s d bs dv ns kids ns' kids' e hval
    have := validate_spec bs dv ns kids (.leaf s d) hc (Coherent.leaf _ _)
    simp only at this; rw [hval] at this
    exact keepsMeta_node this.1
  · rename_i k s d bs dv ns kids ns' kids' v' hval
    have := validate_spec bs dv ns kids (.leaf s d) hc (Coherent.leaf _ _)
    simp only at this; rw [hval] at this
    obtain ⟨hf, hcv⟩ := this.2 v' rfl
    exact keepsMeta_node (this.1.kset k hf hcv)
  · exact KeepsMeta.refl hc
  · rename_i k sub bs dv ns kids ckids hconv
    have hck := convertKids_spec bs dv ns sub [] hc.empty_like ckids hconv
    exact keepsMeta_node (hc.kset k (fits_empty_like bs dv ns ckids) hck)
  · rename_i k k2 rest v bs dv ns kids hk c o hx ih
    have ih' := ih hc.empty_like
    rw [hx] at ih'
    exact keepsMeta_node (hc.kset k (ih'.fits (fits_empty_like bs dv ns [])) ih'.2.2)
  · rename_i k k2 rest v bs dv ns kids cbs cdv cns sub hk c o hx ih
    have hm := kget_mem hk
    have ih' := ih (hc.kid_coh k _ hm)
    rw [hx] at ih'
    exact keepsMeta_node (hc.kset k (ih'.fits (hc.kid_fits k _ hm)) ih'.2.2)
  · exact KeepsMeta.refl hc

/-- `update(payload)`: whatever the payload and wherever it stops, the receiver stays coherent -/
theorem updateC_spec (n : Nat) (items : List (Path × PV)) (t : M) (hc : Coherent t) : KeepsMeta t (updateC n items t).1 := by
  induction n generalizing items t with
  | zero => cases items <;> simp [updateC] <;> exact KeepsMeta.refl hc
  | succ n ih =>
    cases items with
    | nil => simp [updateC]; exact KeepsMeta.refl hc
    | cons a rest =>
      obtain ⟨p, v⟩ := a
      cases t with
      | leaf s d => simp [updateC]; exact KeepsMeta.refl hc
      | node bs dv ns kids =>
        cases p with
        | nil => simp [updateC]; exact KeepsMeta.refl hc
        | cons k sub =>
          have hdirect : KeepsMeta (.node bs dv ns kids)
              (match setPathPV (k :: sub) v (.node bs dv ns kids) with
                | (t', .err e) => (t', Out.err e)
                | (t', .ok) => updateC n rest t').1 := by
            have h1 := setPathPV_spec (k :: sub) v _ hc
            cases hs : setPathPV (k :: sub) v (.node bs dv ns kids) with
            | mk t' o =>
              rw [hs] at h1
              cases o with
              | err e => exact h1
              | ok => exact h1.trans (ih rest t' h1.2.2)
          simp only [updateC]
          cases hk : kget k kids with
          | none => exact hdirect
          | some c =>
            cases c with
            | leaf s d => exact hdirect
            | node cbs cdv cns csub =>
              cases v with
              | leaf s d => exact hdirect
              | dict pv =>
                simp only []
                have hm := kget_mem hk
                have hin := ih (if sub = [] then pv.map (fun kv => ([kv.1], kv.2)) else [(sub, PV.dict pv)])
                  (.node cbs cdv cns csub) (hc.kid_coh k _ hm)
                cases hu : updateC n (if sub = [] then pv.map (fun kv => ([kv.1], kv.2)) else [(sub, PV.dict pv)]) (.node cbs cdv cns csub) with
                | mk c' o =>
                  rw [hu] at hin
                  have hnode := keepsMeta_node (ns := ns) (kids := kids) (hc.kset k (hin.fits (hc.kid_fits k _ hm)) hin.2.2)
                  cases o with
                  | err e => exact hnode
                  | ok => exact hnode.trans (ih rest _ hnode.2.2)


/-! ### auto_batch_size_ -/

theorem takeEq_iff_prefix (s new : Shape) : takeEq s new = true ↔ new <+: s := by
  unfold takeEq
  rw [List.prefix_iff_eq_take]
  constructor
  · intro h; exact (beq_iff_eq.mp h).symm
  · intro h; exact beq_iff_eq.mpr h.symm

theorem autoPrefix_spec (bd : Option Nat) : ∀ (first acc pre : Shape) (others : List (Shape × Bool)),
    acc <+: pre → (hasRoom bd acc = true → acc = pre) →
    autoPrefix bd acc first others <+: pre ++ first ∧
    ∀ sb ∈ others, sb.2 = false → autoPrefix bd acc first others <+: pre ++ sb.1 := by
  intro first
  induction first with
  | nil =>
    intro acc pre others h1 _
    simp only [autoPrefix, List.append_nil]
    exact ⟨h1, fun sb _ _ => h1.trans (List.prefix_append _ _)⟩
  | cons d rest ih =>
    intro acc pre others h1 h2
    simp only [autoPrefix]
    split
    · rename_i hall
      have hacc' : (if hasRoom bd acc then acc ++ [d] else acc) <+: pre ++ [d] ∧
          (hasRoom bd (if hasRoom bd acc then acc ++ [d] else acc) = true →
            (if hasRoom bd acc then acc ++ [d] else acc) = pre ++ [d]) := by
        by_cases hr : hasRoom bd acc = true
        · have := h2 hr; subst this; simp [hr]
        · simp only [hr]
          exact ⟨h1.trans (List.prefix_append _ _), fun h => absurd h hr⟩
      have := ih _ (pre ++ [d]) (others.map fun sb => (sb.1.tail, sb.2)) hacc'.1 hacc'.2
      refine ⟨by simpa using this.1, ?_⟩
      intro sb hsb hf
      have h3 := this.2 (sb.1.tail, sb.2) (List.mem_map.mpr ⟨sb, hsb, rfl⟩) hf
      have hd : sb.1.head? = some d := by
        have := List.all_eq_true.mp hall sb hsb
        simpa [hf] using this
      have : sb.1 = d :: sb.1.tail := by
        cases hs : sb.1 with
        | nil => rw [hs] at hd; simp at hd
        | cons x xs => rw [hs] at hd; simp at hd; simp [hd]
      rw [this]; simpa using h3
    · exact ⟨h1.trans (List.prefix_append _ _), fun sb _ _ => h1.trans (List.prefix_append _ _)⟩


/-- an entry lives on the container's device when one is set -/
def DevOk (dv : Option Nat) (c : M) : Prop := ∀ d, dv = some d → c.onDev d = true

theorem checkNewBs_of_prefix (new : Shape) (kids : Kids)
    (h : ∀ k c, (k, c) ∈ kids → c.isEmpty = true ∨ takeEq c.shape new = true) : checkNewBs new kids = true := by
  induction kids with
  | nil => simp [checkNewBs]
  | cons kv r ih =>
    obtain ⟨k, c⟩ := kv
    have ihr := ih (fun k c hm => h k c (List.mem_cons_of_mem _ hm))
    have hc := h k c (by simp)
    cases c with
    | leaf s d =>
      simp only [checkNewBs, Bool.and_eq_true]
      rcases hc with hc | hc
      · simp [M.isEmpty] at hc
      · exact ⟨hc, ihr⟩
    | node cbs cdv cn sub =>
      simp only [checkNewBs, Bool.and_eq_true]
      refine ⟨?_, ihr⟩
      rcases hc with hc | hc
      · simp only [M.isEmpty] at hc; simp [hc]
      · simp only [M.shape] at hc
        have hle : ¬ cbs.length < new.length := by
          have := ((takeEq_iff_prefix _ _).mp hc).length_le; omega
        simp [hle, hc]

/-- `td.batch_size = new` on a node whose entries are coherent one by one and on its device — but need not fit the node's
current batch size (the situation inside `_set_max_batch_size`) — when the entries allow `new` -/
theorem setBatchM_weak (new bs : Shape) (dv : Option Nat) (ns : Option DimNames) (kids : Kids)
    (hd : ∀ k c, (k, c) ∈ kids → DevOk dv c) (hc : ∀ k c, (k, c) ∈ kids → Coherent c)
    (hchk : checkNewBs new kids = true) :
    let r := setBatchM new (.node bs dv ns kids)
    (r.2 = .ok ∨ r.2 = .err .value) ∧
    (r.2 = .ok → Coherent r.1 ∧ r.1.shape = new ∧ ∀ d, r.1.onDev d = (dv == some d)) := by
  intro r
  have hr : r = restoreOnErr (.node bs dv ns kids) (finishResize new bs dv ns (growKids new kids)) := by
    simp [r, setBatchM, hchk]
  have hg := growKids_spec new kids [] dv (fun k c hm => ⟨takeEq_nil _, hd k c hm⟩) hc hchk
  cases hgk : growKids new kids with
  | mk kids' o =>
    rw [hgk] at hg hr
    cases o with
    | err e =>
      have he : e = .value := by rcases hg.1 with h | h <;> simp at h; exact h
      subst he
      have : r = (.node bs dv ns kids, .err .value) := by
        rw [hr]; exact restoreOnErr_err _ _ _ (by simp [finishResize])
      rw [this]; simp
    | ok =>
      have hG := hg.2 rfl
      have hspec := finishResize_spec new bs dv ns kids' hG.1 hG.2
      simp only at hspec
      obtain ⟨ho, hco, hsh, hdv⟩ := hspec
      rcases ho with ho | ho
      · have : r = finishResize new bs dv ns (kids', .ok) := by rw [hr]; exact restoreOnErr_ok _ _ ho
        rw [this]
        exact ⟨Or.inl ho, fun _ => ⟨hco, hsh, hdv⟩⟩
      · have : r = (.node bs dv ns kids, .err .value) := by rw [hr]; exact restoreOnErr_err _ _ _ ho
        rw [this]; simp

theorem autoFinish_spec (bd : Option Nat) (bs : Shape) (dv : Option Nat) (ns : Option DimNames) (kids : Kids)
    (hn : ∀ l, ns = some l → l.length = bs.length)
    (hd : ∀ k c, (k, c) ∈ kids → DevOk dv c) (hc : ∀ k c, (k, c) ∈ kids → Coherent c) :
    let r := autoFinish bd (.node bs dv ns kids)
    (r.2 = .ok ∨ r.2 = .err .value) ∧
    (r.2 = .ok → Coherent r.1 ∧ ∀ d, r.1.onDev d = (dv == some d)) := by
  intro r
  cases kids with
  | nil =>
    have hsame : Coherent (.node bs dv ns []) := Coherent.node _ _ _ _ hn (by simp) (by simp)
    cases bd with
    | none => simp [r, autoFinish, hsame, M.onDev]
    | some n =>
      by_cases hq : n = 0 ∨ bs.take n = bs
      · simp [r, autoFinish, hq, hsame, M.onDev]
      · have hr : r = setBatchM (bs.take n) (.node bs dv ns []) := by simp [r, autoFinish, hq]
        have := setBatchM_weak (bs.take n) bs dv ns [] (by simp) (by simp) (by simp [checkNewBs])
        simp only at this
        rw [← hr] at this
        exact ⟨this.1, fun h => ⟨(this.2 h).1, (this.2 h).2.2⟩⟩
  | cons kv others =>
    obtain ⟨k, first⟩ := kv
    have hp := autoPrefix_spec bd first.shape [] [] (others.map fun kv => (kv.2.shape, kv.2.isEmpty))
      (List.prefix_refl _) (fun _ => rfl)
    simp only [List.nil_append] at hp
    have hchk : checkNewBs (autoPrefix bd [] first.shape (others.map fun kv => (kv.2.shape, kv.2.isEmpty)))
        ((k, first) :: others) = true := by
      apply checkNewBs_of_prefix
      intro k' c hm
      simp only [List.mem_cons, Prod.mk.injEq] at hm
      rcases hm with ⟨_, rfl⟩ | hm
      · exact Or.inr ((takeEq_iff_prefix _ _).mpr hp.1)
      · by_cases he : c.isEmpty = true
        · exact Or.inl he
        · refine Or.inr ((takeEq_iff_prefix _ _).mpr ?_)
          exact hp.2 (c.shape, c.isEmpty) (List.mem_map.mpr ⟨(k', c), hm, rfl⟩) (by simpa using he)
    have := setBatchM_weak _ bs dv ns ((k, first) :: others) hd hc hchk
    simp only at this
    have hr : r = setBatchM (autoPrefix bd [] first.shape (others.map fun kv => (kv.2.shape, kv.2.isEmpty)))
        (.node bs dv ns ((k, first) :: others)) := by simp [r, autoFinish]
    rw [← hr] at this
    exact ⟨this.1, fun h => ⟨(this.2 h).1, (this.2 h).2.2⟩⟩


theorem devOk_of_fits {bs dv c} (h : fits bs dv c) : DevOk dv c := h.2

theorem autoKids_spec (bd : Option Nat) (kids : Kids) (dv : Option Nat)
    (hd : ∀ k c, (k, c) ∈ kids → DevOk dv c) (hc : ∀ k c, (k, c) ∈ kids → Coherent c) :
    ((autoKids bd kids).2 = .ok ∨ (autoKids bd kids).2 = .err .value) ∧
    ((autoKids bd kids).2 = .ok → ∀ k c, (k, c) ∈ (autoKids bd kids).1 → DevOk dv c ∧ Coherent c) := by
  fun_induction autoKids bd kids generalizing dv
  · exact ⟨Or.inl rfl, fun _ => by simp⟩
  · rename_i k s d r r' o hx ih
    have ih' := ih dv (fun k c h => hd k c (List.mem_cons_of_mem _ h)) (fun k c h => hc k c (List.mem_cons_of_mem _ h))
    rw [hx] at ih'
    refine ⟨ih'.1, fun ho k' c' hm => ?_⟩
    simp only [List.mem_cons, Prod.mk.injEq] at hm
    rcases hm with ⟨_, rfl⟩ | hm
    · exact ⟨hd k _ (by simp), Coherent.leaf _ _⟩
    · exact ih'.2 ho k' c' hm
  · -- a nested tensordict below raises
    rename_i k cbs cdv cnames sub r sub' e hx ih
    have hcc := hc k (M.node cbs cdv cnames sub) (by simp)
    have ih' := ih cdv (fun k c h => (hcc.kid_fits k c h).2) hcc.kid_coh
    rw [hx] at ih'
    rcases ih'.1 with h | h
    · simp at h
    · simp at h; subst h; exact ⟨Or.inr rfl, by simp⟩
  · -- its own batch size assignment raises
    rename_i k cbs cdv cnames sub r sub' hx c' e hf ih
    have hcc := hc k (M.node cbs cdv cnames sub) (by simp)
    have ih' := ih cdv (fun k c h => (hcc.kid_fits k c h).2) hcc.kid_coh
    rw [hx] at ih'
    have hsub := ih'.2 rfl
    have hfin := autoFinish_spec bd cbs cdv cnames sub' hcc.names_len (fun k c h => (hsub k c h).1) (fun k c h => (hsub k c h).2)
    simp only at hfin
    rw [hf] at hfin
    rcases hfin.1 with h | h
    · simp at h
    · simp at h; subst h; exact ⟨Or.inr rfl, by simp⟩
  · rename_i k cbs cdv cnames sub r sub' hx c' hf r' o hxr ih2 ih1
    have hcc := hc k (M.node cbs cdv cnames sub) (by simp)
    have ihs := ih2 cdv (fun k c h => (hcc.kid_fits k c h).2) hcc.kid_coh
    rw [hx] at ihs
    have hsub := ihs.2 rfl
    have hfin := autoFinish_spec bd cbs cdv cnames sub' hcc.names_len (fun k c h => (hsub k c h).1) (fun k c h => (hsub k c h).2)
    simp only at hfin
    rw [hf] at hfin
    have ihr := ih1 dv (fun k c h => hd k c (List.mem_cons_of_mem _ h)) (fun k c h => hc k c (List.mem_cons_of_mem _ h))
    rw [hxr] at ihr
    refine ⟨ihr.1, fun ho k' c'' hm => ?_⟩
    simp only [List.mem_cons, Prod.mk.injEq] at hm
    rcases hm with ⟨_, rfl⟩ | hm
    · obtain ⟨hco, hdev⟩ := hfin.2 rfl
      refine ⟨fun d hdv => ?_, hco⟩
      have := hd k (M.node cbs cdv cnames sub) (by simp) d hdv
      rw [hdev]; simpa [M.onDev] using this
    · exact ihr.2 ho k' c'' hm

/-- `auto_batch_size_(batch_dims)` on a coherent tensordict: it answers ok or ValueError (a dim-name conflict while the
names follow a new batch size) — the batch size it computes is never refused as incompatible with an entry; when it
returns normally the whole tree is coherent again, when it raises nothing has changed. -/
theorem autoBatchM_spec (bd : Option Nat) (bs : Shape) (dv : Option Nat) (ns : Option DimNames) (kids : Kids)
    (hc : Coherent (.node bs dv ns kids)) :
    let r := autoBatchM bd (.node bs dv ns kids)
    (r.2 = .ok ∨ r.2 = .err .value) ∧ (r.2 = .ok → Coherent r.1 ∧ ∀ d, r.1.onDev d = (dv == some d)) ∧
    (r.2 ≠ .ok → r.1 = .node bs dv ns kids) ∧ Coherent r.1 := by
  intro r
  have hk := autoKids_spec bd kids dv (fun k c h => (hc.kid_fits k c h).2) hc.kid_coh
  cases hak : autoKids bd kids with
  | mk kids' o =>
    rw [hak] at hk
    cases o with
    | err e =>
      have he : e = .value := by rcases hk.1 with h | h <;> simp at h; exact h
      subst he
      have : r = (.node bs dv ns kids, .err .value) := by
        simp only [r, autoBatchM, hak]; exact restoreOnErr_err _ _ _ rfl
      rw [this]; simp [hc]
    | ok =>
      have hsub := hk.2 rfl
      have hfin := autoFinish_spec bd bs dv ns kids' hc.names_len (fun k c h => (hsub k c h).1) (fun k c h => (hsub k c h).2)
      simp only at hfin
      rcases hfin.1 with ho | ho
      · have : r = autoFinish bd (.node bs dv ns kids') := by
          simp only [r, autoBatchM, hak]; exact restoreOnErr_ok _ _ ho
        rw [this]
        exact ⟨Or.inl ho, hfin.2, fun h => absurd ho h, (hfin.2 ho).1⟩
      · have : r = (.node bs dv ns kids, .err .value) := by
          simp only [r, autoBatchM, hak]; exact restoreOnErr_err _ _ _ ho
        rw [this]; simp [hc]

/-! ### restructuring in place -/

theorem removeIfPresent_node (p : Path) (bs : Shape) (dv : Option Nat) (ns : Option DimNames) (kids : Kids)
    (hc : Coherent (.node bs dv ns kids)) : Coherent (.node bs dv ns (removeIfPresent p kids)) := by
  fun_induction removeIfPresent p kids generalizing bs dv ns
  · exact hc
  · exact hc.kdel _
  · rename_i k k2 rest kids cbs cdv cns sub hk ih
    have hm := kget_mem hk
    have hcc := ih cbs cdv cns (hc.kid_coh k _ hm)
    have hf := hc.kid_fits k _ hm
    exact hc.kset k ⟨hf.1, hf.2⟩ hcc
  · exact hc

theorem excludeM_spec (keys : List Path) (t : M) (hc : Coherent t) : KeepsMeta t (excludeM keys t).1 := by
  cases t with
  | leaf s d => exact KeepsMeta.refl hc
  | node bs dv ns kids =>
    simp only [excludeM]
    refine keepsMeta_node ?_
    induction keys generalizing kids with
    | nil => exact hc
    | cons p r ih => simp only [List.foldl_cons]; exact ih _ (removeIfPresent_node p bs dv ns kids hc)

/-- every leaf below a coherent node fits that node: leading dims by transitivity of the prefix relation along
the nested batch sizes, device because a device set on a node is shared by everything below -/
theorem leavesM_fit (kids : Kids) (pre : Path) (bs : Shape) (dv : Option Nat)
    (hf : ∀ k c, (k, c) ∈ kids → fits bs dv c) (hc : ∀ k c, (k, c) ∈ kids → Coherent c) :
    ∀ p v, (p, v) ∈ leavesM kids pre → fits bs dv v ∧ Coherent v := by
  fun_induction leavesM kids pre generalizing bs dv
  · simp
  · rename_i k s d r pre ih
    intro p v hm
    simp only [List.mem_cons, Prod.mk.injEq] at hm
    rcases hm with ⟨_, rfl⟩ | hm
    · exact ⟨hf k _ (by simp), Coherent.leaf _ _⟩
    · exact ih bs dv (fun k c h => hf k c (List.mem_cons_of_mem _ h)) (fun k c h => hc k c (List.mem_cons_of_mem _ h)) p v hm
  · rename_i k cbs cdv cns sub r pre ih2 ih1
    intro p v hm
    rcases List.mem_append.mp hm with hm | hm
    · have hcc := hc k (.node cbs cdv cns sub) (by simp)
      have hfc := hf k (.node cbs cdv cns sub) (by simp)
      obtain ⟨hfv, hcv⟩ := ih2 cbs cdv hcc.kid_fits hcc.kid_coh p v hm
      refine ⟨⟨takeEq_trans hfv.1 hfc.1, fun d hd => ?_⟩, hcv⟩
      have : cdv = some d := by have := hfc.2 d hd; simpa [M.onDev] using this
      exact hfv.2 d this
    · exact ih1 bs dv (fun k c h => hf k c (List.mem_cons_of_mem _ h)) (fun k c h => hc k c (List.mem_cons_of_mem _ h)) p v hm

theorem mem_foldl_kset (l : List (String × M)) (acc : Kids) (k : String) (c : M)
    (h : (k, c) ∈ l.foldl (fun d kv => kset kv.1 kv.2 d) acc) : (k, c) ∈ acc ∨ (k, c) ∈ l := by
  induction l generalizing acc with
  | nil => exact Or.inl h
  | cons a r ih =>
    simp only [List.foldl_cons] at h
    rcases ih _ h with h' | h'
    · rcases mem_kset h' with h'' | ⟨rfl, rfl⟩
      · exact Or.inl h''
      · exact Or.inr (by simp)
    · exact Or.inr (List.mem_cons_of_mem _ h')

/-- `flatten_keys(sep, inplace=True)`: the leaves are written at the root with `validated=True` (no check) — they fit -/
theorem flattenM_spec (sep : String) (t : M) (hc : Coherent t) : KeepsMeta t (flattenM sep t).1 := by
  cases t with
  | leaf s d => exact KeepsMeta.refl hc
  | node bs dv ns kids =>
    simp only [flattenM]
    split
    · exact KeepsMeta.refl hc
    · refine keepsMeta_node (Coherent.node _ _ _ _ hc.names_len ?_ ?_)
      all_goals
        intro k c hm
        rcases mem_foldl_kset _ _ k c hm with h | h
        · simp at h
        · have hv := (List.of_mem_zip h).2
          obtain ⟨pv, hpv, rfl⟩ := List.mem_map.mp hv
          have := leavesM_fit kids [] bs dv hc.kid_fits hc.kid_coh pv.1 pv.2 hpv
          first | exact this.1 | exact this.2

theorem renameSafe_spec (old new : Path) (t : M) (hc : Coherent t) : KeepsMeta t (renameSafe old new t).1 := by
  simp only [renameSafe]
  split
  · exact KeepsMeta.refl hc
  · exact renamePath_spec old new t hc

theorem unflattenLoopM_spec (sep : String) (ks : List String) (t : M) (hc : Coherent t) :
    KeepsMeta t (unflattenLoopM sep ks t).1 := by
  induction ks generalizing t with
  | nil => exact KeepsMeta.refl hc
  | cons k r ih =>
    simp only [unflattenLoopM]
    split
    · have h1 := renameSafe_spec [k] (C04.splitKeyS sep k) t hc
      cases hr : renameSafe [k] (C04.splitKeyS sep k) t with
      | mk t' o =>
        rw [hr] at h1
        cases o with
        | err e => exact h1
        | ok => exact h1.trans (ih t' h1.2.2)
    · exact ih t hc

theorem unflattenM_spec (sep : String) (t : M) (hc : Coherent t) : KeepsMeta t (unflattenM sep t).1 := by
  cases t with
  | leaf s d => exact KeepsMeta.refl hc
  | node bs dv ns kids =>
    simp only [unflattenM]
    split
    · exact KeepsMeta.refl hc
    · exact unflattenLoopM_spec sep _ _ hc



/-- an operation that may change the batch size of the node it is applied to, issued through a nested handle: when
the resulting batch size still extends the batch size of the node that holds the addressed tensordict (`handleOk`)
and the device is kept, the whole tree stays coherent -/
theorem atPath_resize (f : M → M × Out)
    (hf : ∀ n, Coherent n → Coherent (f n).1 ∧ ∀ d, (f n).1.onDev d = n.onDev d)
    (h : Path) (hne : h ≠ []) (t : M) (hc : Coherent t)
    (hok : ∀ n, getPath h t = some n → handleOk (f n).1.shape h t) :
    KeepsMeta t (atPath f h t).1 := by
  induction h generalizing t with
  | nil => exact absurd rfl hne
  | cons k rest ih =>
    cases t with
    | leaf s d => exact KeepsMeta.refl hc
    | node bs dv ns kids =>
      simp only [atPath]
      cases hk : kget k kids with
      | none => simp; exact KeepsMeta.refl hc
      | some c =>
        simp only []
        have hm := kget_mem hk
        have hcc := hc.kid_coh k c hm
        have hcf := hc.kid_fits k c hm
        cases rest with
        | nil =>
          simp only [atPath]
          have hfc := hf c hcc
          have hok' := hok c (by simp [getPath, hk])
          have hte : takeEq (f c).1.shape bs = true := by simpa [handleOk] using hok'
          refine keepsMeta_node (hc.kset k ⟨hte, fun d hd => ?_⟩ hfc.1)
          rw [hfc.2]; exact hcf.2 d hd
        | cons k2 rest2 =>
          have hok' : ∀ n, getPath (k2 :: rest2) c = some n → handleOk (f n).1.shape (k2 :: rest2) c := by
            intro n hn
            have := hok n (by simp only [getPath, hk]; exact hn)
            simpa [handleOk, hk] using this
          cases hr : atPath f (k2 :: rest2) c with
          | mk c' o =>
            have ih' := ih (by simp) c hcc hok'
            rw [hr] at ih'
            exact keepsMeta_node (hc.kset k (ih'.fits hcf) ih'.2.2)

theorem autoBatchM_keeps (bd : Option Nat) (n : M) (hc : Coherent n) :
    Coherent (autoBatchM bd n).1 ∧ ∀ d, (autoBatchM bd n).1.onDev d = n.onDev d := by
  cases n with
  | leaf s d => exact ⟨hc, fun _ => rfl⟩
  | node bs dv ns kids =>
    have h := autoBatchM_spec bd bs dv ns kids hc
    simp only at h
    refine ⟨h.2.2.2, fun d => ?_⟩
    cases ho : (autoBatchM bd (.node bs dv ns kids)).2 with
    | ok => rw [(h.2.1 ho).2]; rfl
    | err e => rw [h.2.2.1 (by rw [ho]; simp)]



/-- `update(tensordict)`: wherever it stops the receiver stays coherent (the payload's entries are coherent values) -/
theorem updateTdK_spec (items : Kids) (t : M) (hc : Coherent t) (hv : ∀ k c, (k, c) ∈ items → Coherent c) :
    KeepsMeta t (updateTdK items t).1 := by
  fun_induction updateTdK items t
  · exact KeepsMeta.refl hc
  · exact KeepsMeta.refl hc
  · rename_i k s d rest bs dv ns kids t' e hs
    have := setPath_false_spec [k] (.leaf s d) _ hc (Coherent.leaf _ _)
    rw [hs] at this; exact this
  · rename_i k s d rest bs dv ns kids t' hs ih
    have h1 := setPath_false_spec [k] (.leaf s d) _ hc (Coherent.leaf _ _)
    rw [hs] at h1
    exact h1.trans (ih h1.2.2 (fun k c h => hv k c (List.mem_cons_of_mem _ h)))
  · exact KeepsMeta.refl hc
  · rename_i k vbs vdv vns vsub rest bs dv ns kids cbs cdv cns csub hk hloose c e hu ih
    have hm := kget_mem hk
    have hvv := hv k (.node vbs vdv vns vsub) (by simp)
    have hin := ih (hc.kid_coh k _ hm) hvv.kid_coh
    rw [hu] at hin
    exact keepsMeta_node (hc.kset k (hin.fits (hc.kid_fits k _ hm)) hin.2.2)
  · rename_i k vbs vdv vns vsub rest bs dv ns kids cbs cdv cns csub hk hloose c hu ih2 ih1
    have hm := kget_mem hk
    have hvv := hv k (.node vbs vdv vns vsub) (by simp)
    have hin := ih2 (hc.kid_coh k _ hm) hvv.kid_coh
    rw [hu] at hin
    have hnode := keepsMeta_node (ns := ns) (kids := kids) (hc.kset k (hin.fits (hc.kid_fits k _ hm)) hin.2.2)
    exact hnode.trans (ih1 hnode.2.2 (fun k c h => hv k c (List.mem_cons_of_mem _ h)))
  · rename_i k vbs vdv vns vsub rest bs dv ns kids t' e hs hx
    have := setPath_false_spec [k] (.node vbs vdv vns vsub) _ hc (hv k _ (by simp))
    rw [hs] at this; exact this
  · rename_i k vbs vdv vns vsub rest bs dv ns kids t' hs hx ih
    have h1 := setPath_false_spec [k] (.node vbs vdv vns vsub) _ hc (hv k _ (by simp))
    rw [hs] at h1
    exact h1.trans (ih h1.2.2 (fun k c h => hv k c (List.mem_cons_of_mem _ h)))

theorem updateTdM_spec (m t : M) (hc : Coherent t) (hm : Coherent m) : KeepsMeta t (updateTdM m t).1 := by
  cases t with
  | leaf s d => exact KeepsMeta.refl hc
  | node bs dv ns kids =>
    cases m with
    | leaf s d => exact KeepsMeta.refl hc
    | node vbs vdv vns vsub =>
      simp only [updateTdM]
      split
      · exact KeepsMeta.refl hc
      · exact updateTdK_spec vsub _ hc hm.kid_coh


/-! ### writes into existing storage -/

theorem coherentK_sound (bs : Shape) (dv : Option Nat) (kids : Kids) (h : coherentK bs dv kids = true) :
    ∀ k c, (k, c) ∈ kids → fits bs dv c ∧ Coherent c := by
  fun_induction coherentK bs dv kids
  · simp
  · rename_i bs dv k s d r ih
    simp only [Bool.and_eq_true, Bool.or_eq_true] at h
    obtain ⟨⟨h1, h2⟩, h3⟩ := h
    intro k' c hm
    simp only [List.mem_cons, Prod.mk.injEq] at hm
    rcases hm with ⟨_, rfl⟩ | hm
    · refine ⟨⟨h1, fun d' hd' => ?_⟩, Coherent.leaf _ _⟩
      subst hd'
      rcases h2 with h2 | h2
      · simp at h2
      · simp at h2; simp [M.onDev, h2]
    · exact ih h3 k' c hm
  · rename_i bs dv k cbs cdv cns sub r ih2 ih1
    simp only [Bool.and_eq_true, Bool.or_eq_true] at h
    obtain ⟨⟨⟨⟨h1, h2⟩, h3⟩, h4⟩, h5⟩ := h
    intro k' c hm
    simp only [List.mem_cons, Prod.mk.injEq] at hm
    rcases hm with ⟨_, rfl⟩ | hm
    · have hsub := ih2 h4
      refine ⟨⟨h1, fun d' hd' => ?_⟩, Coherent.node _ _ _ _ ?_ (fun k c h => (hsub k c h).1) (fun k c h => (hsub k c h).2)⟩
      · subst hd'
        rcases h2 with h2 | h2
        · simp at h2
        · simp at h2; simp [M.onDev, h2]
      · intro l hl; subst hl; simpa using h3
    · exact ih1 h5 k' c hm

theorem growsK_sound (an : Bool) (bs : Shape) (dv : Option Nat) (kids kids' : Kids) (h : growsK an bs dv kids kids' = true)
    (hf : ∀ k c, (k, c) ∈ kids → fits bs dv c) (hc : ∀ k c, (k, c) ∈ kids → Coherent c) :
    ∀ k c, (k, c) ∈ kids' → fits bs dv c ∧ Coherent c := by
  fun_induction growsK an bs dv kids kids'
  · rename_i bs dv new
    simp only [Bool.and_eq_true] at h
    exact coherentK_sound bs dv new h.2
  · rename_i bs dv k s d r k' s' d' r' ih
    simp only [Bool.and_eq_true, beq_iff_eq] at h
    obtain ⟨⟨⟨rfl, rfl⟩, rfl⟩, h4⟩ := h
    intro k2 c hm
    simp only [List.mem_cons, Prod.mk.injEq] at hm
    rcases hm with ⟨_, rfl⟩ | hm
    · exact ⟨hf k _ (by simp), Coherent.leaf _ _⟩
    · exact ih h4 (fun k c h => hf k c (List.mem_cons_of_mem _ h)) (fun k c h => hc k c (List.mem_cons_of_mem _ h)) k2 c hm
  · rename_i bs dv k cbs cdv cns sub r k' cbs' cdv' cns' sub' r' ih2 ih1
    simp only [Bool.and_eq_true, beq_iff_eq] at h
    obtain ⟨⟨⟨⟨⟨rfl, rfl⟩, rfl⟩, rfl⟩, h5⟩, h6⟩ := h
    intro k2 c hm
    simp only [List.mem_cons, Prod.mk.injEq] at hm
    rcases hm with ⟨_, rfl⟩ | hm
    · have hcc := hc k (.node cbs cdv cns sub) (by simp)
      have hfc := hf k (.node cbs cdv cns sub) (by simp)
      have hsub := ih2 h5 hcc.kid_fits hcc.kid_coh
      exact ⟨⟨hfc.1, hfc.2⟩, Coherent.node _ _ _ _ hcc.names_len (fun k c h => (hsub k c h).1) (fun k c h => (hsub k c h).2)⟩
    · exact ih1 h6 (fun k c h => hf k c (List.mem_cons_of_mem _ h)) (fun k c h => hc k c (List.mem_cons_of_mem _ h)) k2 c hm
  · simp at h

/-- a write into existing storage whose observed effect is inside the envelope keeps the node coherent (and its metadata) -/
theorem writeM_spec (an : Bool) (obs t : M) (hc : Coherent t) : KeepsMeta t (writeM an obs t).1 := by
  cases t with
  | leaf s d => exact KeepsMeta.refl hc
  | node bs dv ns kids =>
    cases obs with
    | leaf s d => exact KeepsMeta.refl hc
    | node bs' dv' ns' kids' =>
      simp only [writeM]
      split
      · rename_i h
        simp only [Bool.and_eq_true] at h
        have hk := growsK_sound an bs dv kids kids' h.2 hc.kid_fits hc.kid_coh
        exact keepsMeta_node (Coherent.node _ _ _ _ hc.names_len (fun k c h => (hk k c h).1) (fun k c h => (hk k c h).2))
      · exact KeepsMeta.refl hc


/-! ### select in place -/

theorem shrinksK_sound (kids kids' : Kids) (h : shrinksK kids kids' = true) (bs : Shape) (dv : Option Nat)
    (hf : ∀ k c, (k, c) ∈ kids → fits bs dv c) (hc : ∀ k c, (k, c) ∈ kids → Coherent c) :
    ∀ k c, (k, c) ∈ kids' → fits bs dv c ∧ Coherent c := by
  fun_induction shrinksK kids kids' generalizing bs dv
  · simp
  · rename_i kids k s d r ih
    simp only [Bool.and_eq_true] at h
    obtain ⟨h1, h2⟩ := h
    intro k' c hm
    simp only [List.mem_cons, Prod.mk.injEq] at hm
    rcases hm with ⟨_, rfl⟩ | hm
    · cases hk : kget k kids with
      | none => rw [hk] at h1; simp at h1
      | some c0 =>
        rw [hk] at h1
        cases c0 with
        | node b0 d0 n0 s0 => simp at h1
        | leaf s0 d0 =>
          simp only [Bool.and_eq_true, beq_iff_eq] at h1
          obtain ⟨rfl, rfl⟩ := h1
          exact ⟨hf k _ (kget_mem hk), Coherent.leaf _ _⟩
    · exact ih h2 bs dv hf hc k' c hm
  · rename_i kids k cbs cdv cns sub' r ih2 ih1
    simp only [Bool.and_eq_true] at h
    obtain ⟨h1, h2⟩ := h
    intro k' c hm
    simp only [List.mem_cons, Prod.mk.injEq] at hm
    rcases hm with ⟨_, rfl⟩ | hm
    · cases hk : kget k kids with
      | none => rw [hk] at h1; simp at h1
      | some c0 =>
        rw [hk] at h1
        cases c0 with
        | leaf s0 d0 => simp at h1
        | node b0 d0 n0 sub0 =>
          simp only [Bool.and_eq_true, beq_iff_eq] at h1
          obtain ⟨⟨⟨rfl, rfl⟩, rfl⟩, h4⟩ := h1
          have hm0 := kget_mem hk
          have hcc := hc k _ hm0
          have hfc := hf k _ hm0
          have hsub := ih2 sub0 h4 cbs cdv hcc.kid_fits hcc.kid_coh
          exact ⟨⟨hfc.1, hfc.2⟩, Coherent.node _ _ _ _ hcc.names_len (fun k c h => (hsub k c h).1) (fun k c h => (hsub k c h).2)⟩
    · exact ih1 h2 bs dv hf hc k' c hm

theorem selectInM_spec (obs t : M) (hc : Coherent t) : KeepsMeta t (selectInM obs t).1 := by
  cases t with
  | leaf s d => exact KeepsMeta.refl hc
  | node bs dv ns kids =>
    cases obs with
    | leaf s d => exact KeepsMeta.refl hc
    | node bs' dv' ns' kids' =>
      simp only [selectInM]
      split
      · rename_i h
        simp only [Bool.and_eq_true] at h
        have hk := shrinksK_sound kids kids' h.2 bs dv hc.kid_fits hc.kid_coh
        exact keepsMeta_node (Coherent.node _ _ _ _ hc.names_len (fun k c h => (hk k c h).1) (fun k c h => (hk k c h).2))
      · exact KeepsMeta.refl hc


end TdVerif.C01
