/-
  C04 — sorted views: `sorted(keys, key=".".join)` is ordered (Props/C04.lean `views_sorted_*`)
-/
import TdVerif.Model.C04Tree
import TdVerif.Lemmas.C04

namespace TdVerif.C04
open TdVerif

theorem insertBefore_sorted {α} (f : α → String) (x : α) (l : List α)
    (h : l.Pairwise (fun a b => f a ≤ f b)) : (sortBy.insertBefore f x l).Pairwise (fun a b => f a ≤ f b) := by
  induction l with
  | nil => simp [sortBy.insertBefore]
  | cons y r ih =>
    rw [List.pairwise_cons] at h
    simp only [sortBy.insertBefore]
    split
    · rename_i hlt
      rw [List.pairwise_cons]
      refine ⟨fun z hz => ?_, ih h.2⟩
      have hz' := (insertBefore_perm f x r).mem_iff.mp hz
      rcases List.mem_cons.mp hz' with rfl | hz'
      · exact String.not_lt.mp (String.lt_asymm hlt)
      · exact h.1 z hz'
    · rename_i hnlt
      have hxy : f x ≤ f y := String.not_lt.mp hnlt
      rw [List.pairwise_cons]
      refine ⟨fun z hz => ?_, List.pairwise_cons.mpr h⟩
      rcases List.mem_cons.mp hz with rfl | hz
      · exact hxy
      · exact String.le_trans hxy (h.1 z hz)

theorem sortBy_sorted {α} (f : α → String) (l : List α) : (sortBy f l).Pairwise (fun a b => f a ≤ f b) := by
  induction l with
  | nil => simp [sortBy]
  | cons x r ih =>
    have : sortBy f (x :: r) = sortBy.insertBefore f x (sortBy f r) := by simp [sortBy]
    rw [this]; exact insertBefore_sorted f x _ ih

end TdVerif.C04
