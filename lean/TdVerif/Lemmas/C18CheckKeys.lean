/-
  `_check_keys`: helper lemmas (membership in the two set builders, set equality, the loop on both branches).
-/
import TdVerif.Model.CheckKeys

namespace TdVerif.CheckKeys

theorem mem_pySet (x : String) : ∀ l : List String, x ∈ pySet l ↔ x ∈ l
  | [] => by simp [pySet]
  | y :: ys => by
    simp only [pySet, List.mem_cons, List.mem_filter, mem_pySet x ys]
    by_cases h : x = y <;> simp [h]

theorem mem_foldl_insert (x : String) : ∀ (l acc : List String),
    x ∈ l.foldl (fun acc x => if x ∈ acc then acc else acc ++ [x]) acc ↔ x ∈ acc ∨ x ∈ l
  | [], acc => by simp
  | y :: ys, acc => by
    simp only [List.foldl_cons, mem_foldl_insert x ys, List.mem_cons]
    by_cases h : y ∈ acc
    · simp only [h, if_true]
      constructor
      · rintro (h1 | h1)
        · exact .inl h1
        · exact .inr (.inr h1)
      · rintro (h1 | h1 | h1)
        · exact .inl h1
        · subst h1; exact .inl h
        · exact .inr h1
    · simp only [h, if_false, List.mem_append, List.mem_singleton]
      constructor
      · rintro ((h1 | h1) | h1)
        · exact .inl h1
        · exact .inr (.inl h1)
        · exact .inr (.inr h1)
      · rintro (h1 | h1 | h1)
        · exact .inl (.inl h1)
        · exact .inl (.inr h1)
        · exact .inr h1

theorem mem_pySetComp (x : String) (l : List String) : x ∈ pySetComp l ↔ x ∈ l := by
  simp [pySetComp, mem_foldl_insert]

theorem setEq_iff (a b : List String) : setEq a b = true ↔ ∀ x, x ∈ a ↔ x ∈ b := by
  simp only [setEq, Bool.and_eq_true, List.all_eq_true, decide_eq_true_eq]
  constructor
  · rintro ⟨h1, h2⟩ x; exact ⟨h1 x, h2 x⟩
  · intro h; exact ⟨fun x hx => (h x).1 hx, fun x hx => (h x).2 hx⟩

theorem setEq_congr (a a' b b' : List String) (ha : ∀ x, x ∈ a ↔ x ∈ a') (hb : ∀ x, x ∈ b ↔ x ∈ b') :
    setEq a b = setEq a' b' := by
  rw [Bool.eq_iff_iff, setEq_iff, setEq_iff]
  constructor
  · intro h x; rw [← ha, ← hb]; exact h x
  · intro h x; rw [ha, hb]; exact h x

/-- the two loops, started on sets with the same members, both raise or end on sets with the same members
(and, when strict, leave their set untouched) -/
theorem loops_agree (strict : Bool) : ∀ (rest : List (List String)) (ks ks' : List String),
    (∀ x, x ∈ ks ↔ x ∈ ks') →
      (loopCompile strict rest ks = none ∧ loopEager strict rest ks' = none) ∨
      (∃ r r', loopCompile strict rest ks = some r ∧ loopEager strict rest ks' = some r' ∧ ∀ x, x ∈ r ↔ x ∈ r')
  | [], ks, ks', h => .inr ⟨ks, ks', rfl, rfl, h⟩
  | k :: rest, ks, ks', h => by
    simp only [loopCompile, loopEager]
    cases strict with
    | false =>
      simp only [Bool.not_false, if_true]
      exact loops_agree false rest _ _ (by intro x; simp [List.mem_filter, h x])
    | true =>
      simp only [Bool.not_true, Bool.false_eq_true, if_false]
      have e : setEq (pySetComp k) ks = setEq (pySet k) ks' :=
        setEq_congr _ _ _ _ (fun x => by rw [mem_pySetComp, mem_pySet]) h
      rw [e]
      cases setEq (pySet k) ks' with
      | false => exact .inl ⟨by simp, by simp⟩
      | true => simpa using loops_agree true rest ks ks' h

/-- strict loop in closed form: it keeps its set and succeeds exactly when every later operand has
exactly the members of the set -/
theorem loopEager_strict : ∀ (rest : List (List String)) (ks : List String),
    (loopEager true rest ks = some ks ∧ ∀ k ∈ rest, ∀ x, x ∈ k ↔ x ∈ ks) ∨
    (loopEager true rest ks = none ∧ ¬ ∀ k ∈ rest, ∀ x, x ∈ k ↔ x ∈ ks)
  | [], ks => by simp [loopEager]
  | k :: rest, ks => by
    simp only [loopEager, Bool.not_true, Bool.false_eq_true, if_false, List.mem_cons, forall_eq_or_imp]
    have hk : setEq (pySet k) ks = true ↔ ∀ x, x ∈ k ↔ x ∈ ks := by
      rw [setEq_iff]; constructor
      · intro h x; rw [← mem_pySet]; exact h x
      · intro h x; rw [mem_pySet]; exact h x
    by_cases h : setEq (pySet k) ks = true
    · have h' := hk.1 h
      simp only [h, Bool.not_true, Bool.false_eq_true, if_false]
      rcases loopEager_strict rest ks with ⟨h1, h2⟩ | ⟨h1, h2⟩
      · exact .inl ⟨h1, h', h2⟩
      · exact .inr ⟨h1, fun hh => h2 hh.2⟩
    · have h' : ¬ ∀ x, x ∈ k ↔ x ∈ ks := fun hh => h (hk.2 hh)
      have hf : setEq (pySet k) ks = false := by simpa using h
      simp only [hf, Bool.not_false, if_true]
      exact .inr ⟨trivial, fun hh => h' hh.1⟩

/-- non-strict loop: never raises, ends on the running intersection -/
theorem loopEager_nonstrict : ∀ (rest : List (List String)) (ks : List String),
    ∃ r, loopEager false rest ks = some r ∧ ∀ x, x ∈ r ↔ (x ∈ ks ∧ ∀ k ∈ rest, x ∈ k)
  | [], ks => ⟨ks, rfl, by simp⟩
  | k :: rest, ks => by
    obtain ⟨r, hr, hm⟩ := loopEager_nonstrict rest (ks.filter (· ∈ k))
    refine ⟨r, by simp [loopEager, hr], ?_⟩
    intro x; rw [hm x]
    simp only [List.mem_filter, decide_eq_true_eq, List.mem_cons, forall_eq_or_imp]
    constructor
    · rintro ⟨⟨h1, h2⟩, h3⟩; exact ⟨h1, h2, h3⟩
    · rintro ⟨h1, h2, h3⟩; exact ⟨⟨h1, h2⟩, h3⟩

end TdVerif.CheckKeys
