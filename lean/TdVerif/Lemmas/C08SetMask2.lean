/-
  C08 — writes with a rank-2 mask on the stack dim (model: Model/C08SetMask2.lean `lazySetCoreM`):
  member `i` is written through row `i` of the mask with its share of the value.  Tensor level:
  `mask2_coord` (where the mask sends a result coordinate), `set_stack_mask2` (hit + frame);
  `noDupTargets_pre_mask1` (a rank-1 mask between basic items has no duplicate targets);
  `setitem_refines_mask2_on`.
-/
import TdVerif.Lemmas.C08Mask2Span
import TdVerif.Lemmas.C08Resize
import TdVerif.Lemmas.C08Write
import TdVerif.Lemmas.C08Set
import TdVerif.Model.C08SetMask2
namespace TdVerif.C08

theorem basicPre_basic : ∀ (pre : List Ix), BasicPre pre → Basic pre
  | [], _ => by intro it h; simp at h
  | .none :: r, hb => by
    intro it hit
    simp only [List.mem_cons] at hit
    rcases hit with rfl | hit
    · simp [Ix.isAdv]
    · exact basicPre_basic r (by simpa [BasicPre] using hb) it hit
  | .int k :: r, hb => by
    intro it hit
    simp only [List.mem_cons] at hit
    rcases hit with rfl | hit
    · simp [Ix.isAdv]
    · exact basicPre_basic r (by simpa [BasicPre] using hb) it hit
  | .slice a b c :: r, hb => by
    intro it hit
    simp only [List.mem_cons] at hit
    rcases hit with rfl | hit
    · simp [Ix.isAdv]
    · exact basicPre_basic r (by simpa [BasicPre] using hb) it hit
  | .tens _ :: _, hb => by simp [BasicPre] at hb
  | .mask _ :: _, hb => by simp [BasicPre] at hb
  | .ell :: _, hb => by simp [BasicPre] at hb

/-- an accepted index with a basic prefix: the prefix does not run past the shape -/
theorem preDims_le_of_idxShape : ∀ (pre rest : List Ix) (sh s : Shape), BasicPre pre →
    idxShape (pre ++ rest) sh = some s → preDims pre ≤ sh.length
  | [], _, _, _, _, _ => by simp [preDims]
  | .none :: r, rest, sh, s, hb, h => by
    simp only [List.cons_append, idxShape, Option.map_eq_some_iff] at h
    obtain ⟨s', hs', _⟩ := h
    simpa [preDims] using preDims_le_of_idxShape r rest sh s' (by simpa [BasicPre] using hb) hs'
  | .int k :: r, rest, [], s, hb, h => by simp [idxShape] at h
  | .int k :: r, rest, d :: sh, s, hb, h => by
    simp only [List.cons_append, idxShape] at h
    split at h
    · have := preDims_le_of_idxShape r rest sh s (by simpa [BasicPre] using hb) h
      simp [preDims]; omega
    · simp at h
  | .slice a b c :: r, rest, [], s, hb, h => by simp [idxShape] at h
  | .slice a b c :: r, rest, d :: sh, s, hb, h => by
    simp only [List.cons_append, idxShape] at h
    cases hsn : sliceNorm a b c d with
    | none => simp [hsn] at h
    | some p =>
      obtain ⟨s0, st, len⟩ := p
      simp only [hsn] at h
      split at h
      · simp only [Option.map_eq_some_iff] at h
        obtain ⟨s', hs', _⟩ := h
        have := preDims_le_of_idxShape r rest sh s' (by simpa [BasicPre] using hb) hs'
        simp [preDims]; omega
      · simp at h
  | .tens _ :: _, _, _, _, hb, _ => by simp [BasicPre] at hb
  | .mask _ :: _, _, _, _, hb, _ => by simp [BasicPre] at hb
  | .ell :: _, _, _, _, hb, _ => by simp [BasicPre] at hb


/-- **a rank-1 mask between basic items never sends two result coordinates to the same element**
(the positions a mask keeps are distinct) -/
theorem noDupTargets_pre_mask1 (pre post : List Ix) (row : T Bool) (hpre : BasicPre pre) (hpost : Basic post)
    (hrow : row.shape.length = 1) : NoDupTargets (pre ++ .mask row :: post) := by
  intro sh s hs o o' ho ho' heq
  obtain ⟨n, hn⟩ : ∃ n, row.shape = [n] := by
    match h : row.shape with
    | [n] => exact ⟨n, rfl⟩
    | [] => simp [h] at hrow
    | _ :: _ :: _ => simp [h] at hrow
  have hle := preDims_le_of_idxShape pre _ sh s hpre hs
  have hfac := idxShape_pre pre (.mask row :: post) sh hpre hle
  rw [hs] at hfac
  cases hps : idxShape pre (sh.take (preDims pre)) with
  | none => simp [hps] at hfac
  | some ps =>
  simp only [hps, Option.bind_some] at hfac
  have hplen : ps.length = outRank pre :=
    idxShape_pre_length pre _ ps hpre (by simp [hle]) hps
  simp only [idxShape, hn] at hfac
  split at hfac
  case isFalse => simp at hfac
  simp only [List.length_cons, List.length_nil, Nat.zero_add, List.drop_drop] at hfac
  cases hqs : idxShape post (sh.drop (preDims pre + 1)) with
  | none => simp [hqs] at hfac
  | some qs =>
  simp only [hqs, Option.map_some, Option.some.injEq] at hfac
  have hs' : s = ps ++ ((nonzero row).length :: qs) := by simpa using hfac
  rw [hs'] at ho ho'
  have hol : o.length = ps.length + 1 + qs.length := by rw [InB.length ho]; simp; omega
  have hol' : o'.length = ps.length + 1 + qs.length := by rw [InB.length ho']; simp; omega
  have hsp := (InB_append_iff ps _ o).mp ho
  have hsp' := (InB_append_iff ps _ o').mp ho'
  rw [idxCoord_pre pre _ sh o hpre hle (by omega), idxCoord_pre pre _ sh o' hpre hle (by omega)] at heq
  have hL : (idxCoord pre (sh.take (preDims pre)) (o.take (outRank pre))).length
      = (idxCoord pre (sh.take (preDims pre)) (o'.take (outRank pre))).length := by
    rw [idxCoord_length pre _ ps _ hps (by rw [← hplen]; exact hsp.1),
      idxCoord_length pre _ ps _ hps (by rw [← hplen]; exact hsp'.1)]
  obtain ⟨h1, h2⟩ := List.append_inj heq hL
  -- the prefix
  have htake : o.take (outRank pre) = o'.take (outRank pre) :=
    idxCoord_inj_basic pre _ ps (basicPre_basic pre hpre) hps _ _ (by rw [← hplen]; exact hsp.1)
      (by rw [← hplen]; exact hsp'.1) h1
  -- the mask position
  obtain ⟨k, r, hod⟩ : ∃ k r, o.drop (outRank pre) = k :: r := by
    cases h : o.drop (outRank pre) with
    | nil => have := congrArg List.length h; simp at this; omega
    | cons k r => exact ⟨k, r, rfl⟩
  obtain ⟨k', r', hod'⟩ : ∃ k' r', o'.drop (outRank pre) = k' :: r' := by
    cases h : o'.drop (outRank pre) with
    | nil => have := congrArg List.length h; simp at this; omega
    | cons k r => exact ⟨k, r, rfl⟩
  have hk : k < (nonzero row).length ∧ InB r qs := by
    have := hsp.2; rw [hplen, hod] at this; exact this
  have hk' : k' < (nonzero row).length ∧ InB r' qs := by
    have := hsp'.2; rw [hplen, hod'] at this; exact this
  rw [hod, hod'] at h2
  simp only [idxCoord, at0, List.getElem?_cons_zero, Option.getD_some, List.tail_cons, hn,
    List.length_cons, List.length_nil, Nat.zero_add] at h2
  have hnz := nonzero_rank1 row n hn
  have hnd : (nonzero row).Nodup := by
    rw [hnz, List.nodup_iff_pairwise_ne]
    apply List.Pairwise.map (fun i => [i]) (R := fun a b => a ≠ b)
    · intro a b hab h; exact hab (by simpa using h)
    · exact List.nodup_iff_pairwise_ne.mp (List.Nodup.sublist List.filter_sublist List.nodup_range)
  have hlen1 : ∀ j (hj : j < (nonzero row).length), ((nonzero row)[j]).length = 1 := by
    intro j hj
    have hmem : ∀ x ∈ nonzero row, x.length = 1 := by
      intro x hx
      rw [hnz] at hx
      simp only [List.mem_map] at hx
      obtain ⟨i, _, hi⟩ := hx
      rw [← hi]; rfl
    exact hmem _ (List.getElem_mem _)
  rw [List.getElem?_eq_getElem hk.1, List.getElem?_eq_getElem hk'.1] at h2
  simp only [Option.getD_some] at h2
  obtain ⟨h3, h4⟩ := List.append_inj h2 (by rw [hlen1 k hk.1, hlen1 k' hk'.1])
  have hkk : k = k' := (List.getElem_inj hnd).mp h3
  have hrr : r = r' := by
    rw [List.drop_drop] at h4
    exact idxCoord_inj_basic post _ qs hpost hqs r r' hk.2 hk'.2 h4
  have e1 : o = o.take (outRank pre) ++ o.drop (outRank pre) := (List.take_append_drop _ _).symm
  have e2 : o' = o'.take (outRank pre) ++ o'.drop (outRank pre) := (List.take_append_drop _ _).symm
  rw [e1, e2, htake, hod, hod', hkk, hrr]

end TdVerif.C08

namespace TdVerif.C08

theorem pieceStarts_get : ∀ (l : List Nat) (s i : Nat), i < l.length →
    (pieceStarts l s)[i]? = some (s + (l.take i).sum)
  | [], _, _, h => by simp at h
  | x :: r, s, 0, _ => by simp [pieceStarts]
  | x :: r, s, i + 1, h => by
    simp only [pieceStarts, List.getElem?_cons_succ, List.take_succ_cons, List.sum_cons]
    rw [pieceStarts_get r (s + x) i (by simpa using h)]
    congr 1; omega

theorem blockOf_inv : ∀ (sizes : List Nat) (i k' : Nat), i < sizes.length → k' < sizes[i]?.getD 0 →
    blockOf sizes ((sizes.take i).sum + k') = (i, k')
  | [], _, _, h, _ => by simp at h
  | s :: r, 0, k', _, hk => by
    have : k' < s := by simpa using hk
    simp [blockOf, this]
  | s :: r, i + 1, k', h, hk => by
    have e : ((s :: r).take (i + 1)).sum + k' = s + ((r.take i).sum + k') := by
      simp only [List.take_succ_cons, List.sum_cons]; omega
    rw [e]
    simp only [blockOf]
    have h1 : ¬ s + ((r.take i).sum + k') < s := by omega
    rw [if_neg h1]
    have h2 : s + ((r.take i).sum + k') - s = (r.take i).sum + k' := by omega
    rw [h2, blockOf_inv r i k' (by simpa using h) (by simpa using hk)]


/-- the shapes behind an index with a rank-2 mask on the stack dim -/
theorem mask2_shapes (sh : Shape) (sd n w : Nat) (pre post : List Ix) (m : T Bool)
    (hsd : sd < sh.length) (hpre : BasicPre pre) (hpd : preDims pre = sd) (hm : m.shape = [n, w])
    (s : Shape) (hs : idxShape (pre ++ .mask m :: post) (sh.insertIdx sd n) = some s) :
    ∃ ps qs, idxShape pre (sh.take sd) = some ps ∧ idxShape post (sh.drop (sd + 1)) = some qs ∧
      ps.length = outRank pre ∧ s = ps ++ (nonzero m).length :: qs ∧
      (∀ i, idxShape (pre ++ .mask (m.select 0 i) :: post) sh = some (ps ++ (nonzero (m.select 0 i)).length :: qs)) := by
  have hsdle : sd ≤ sh.length := Nat.le_of_lt hsd
  have hS1 := take_insertIdx_self sh sd n hsdle
  have hS2 := drop_insertIdx_self sh sd n hsdle
  have hdrop := drop_eq_cons_of_lt sh sd hsd
  have hfac := idxShape_pre pre (.mask m :: post) (sh.insertIdx sd n) hpre
    (by rw [hpd, List.length_insertIdx_of_le_length hsdle]; omega)
  rw [hs, hpd, hS1, hS2] at hfac
  cases hps : idxShape pre (sh.take sd) with
  | none => simp [hps] at hfac
  | some ps =>
  simp only [hps, Option.bind_some] at hfac
  have hplen : ps.length = outRank pre :=
    idxShape_pre_length pre (sh.take sd) ps hpre (by rw [hpd]; simp [hsdle]) hps
  simp only [idxShape, hm] at hfac
  rw [hdrop] at hfac
  simp only [List.take_succ_cons, List.take_zero, List.drop_succ_cons, List.drop_zero, ne_eq,
    List.cons_ne_self, not_false_eq_true, true_and, List.length_cons, List.length_nil] at hfac
  split at hfac
  case isFalse => simp at hfac
  rename_i hcond
  have hw : w = at0 sh sd := by
    have := hcond.2
    simp at this
    exact this
  cases hqs : idxShape post (sh.drop (sd + 1)) with
  | none => simp [hqs] at hfac
  | some qs =>
  simp only [hqs, Option.map_some, Option.some.injEq] at hfac
  have hrow : ∀ i, (m.select 0 i).shape = [w] := by intro i; simp [T.select, hm]
  refine ⟨ps, qs, rfl, rfl, hplen, by simpa using hfac, ?_⟩
  intro i
  rw [idxShape_pre pre _ sh hpre (by rw [hpd]; exact hsdle), hpd, hps]
  simp only [Option.bind_some, idxShape, hrow, hdrop, hw]
  simp [hqs]

/-- **where a rank-2 mask on the stack dim sends a result coordinate**: position `k` of the mask's
result dim lies in row `i` (block `i` of the per-row counts), at place `k'` of that row; the
coordinate read in the stack is the coordinate read in member `i` by the row index, with `i`
inserted at the stack dim -/
theorem mask2_coord (sh : Shape) (sd n w : Nat) (pre post : List Ix) (m : T Bool)
    (hsd : sd < sh.length) (hpre : BasicPre pre) (hpd : preDims pre = sd) (hm : m.shape = [n, w])
    (s : Shape) (hs : idxShape (pre ++ .mask m :: post) (sh.insertIdx sd n) = some s)
    (c : List Nat) (hc : InB c s) :
    ∃ ps qs, idxShape pre (sh.take sd) = some ps ∧ idxShape post (sh.drop (sd + 1)) = some qs ∧
      ps.length = outRank pre ∧ s = ps ++ (nonzero m).length :: qs ∧
      (∀ i, idxShape (pre ++ .mask (m.select 0 i) :: post) sh = some (ps ++ (nonzero (m.select 0 i)).length :: qs)) ∧
      (blockOf ((List.range n).map fun i => (nonzero (m.select 0 i)).length) (at0 c (outRank pre))).1 < n ∧
      (blockOf ((List.range n).map fun i => (nonzero (m.select 0 i)).length) (at0 c (outRank pre))).2
        < (nonzero (m.select 0 (blockOf ((List.range n).map fun i => (nonzero (m.select 0 i)).length) (at0 c (outRank pre))).1)).length ∧
      idxCoord (pre ++ .mask m :: post) (sh.insertIdx sd n) c =
        (idxCoord (pre ++ .mask (m.select 0 (blockOf ((List.range n).map fun i => (nonzero (m.select 0 i)).length) (at0 c (outRank pre))).1) :: post) sh
          (c.set (outRank pre) (blockOf ((List.range n).map fun i => (nonzero (m.select 0 i)).length) (at0 c (outRank pre))).2)).insertIdx sd
          (blockOf ((List.range n).map fun i => (nonzero (m.select 0 i)).length) (at0 c (outRank pre))).1 := by
  have hsdle : sd ≤ sh.length := Nat.le_of_lt hsd
  have hS1 := take_insertIdx_self sh sd n hsdle
  have hS2 := drop_insertIdx_self sh sd n hsdle
  have hdrop := drop_eq_cons_of_lt sh sd hsd
  have hfac := idxShape_pre pre (.mask m :: post) (sh.insertIdx sd n) hpre
    (by rw [hpd, List.length_insertIdx_of_le_length hsdle]; omega)
  rw [hs, hpd, hS1, hS2] at hfac
  cases hps : idxShape pre (sh.take sd) with
  | none => simp [hps] at hfac
  | some ps =>
  simp only [hps, Option.bind_some] at hfac
  have hplen : ps.length = outRank pre :=
    idxShape_pre_length pre (sh.take sd) ps hpre (by rw [hpd]; simp [hsdle]) hps
  simp only [idxShape, hm] at hfac
  rw [hdrop] at hfac
  simp only [List.take_succ_cons, List.take_zero, List.drop_succ_cons, List.drop_zero, ne_eq,
    List.cons_ne_self, not_false_eq_true, true_and, List.length_cons, List.length_nil] at hfac
  split at hfac
  case isFalse => simp at hfac
  rename_i hcond
  have hw : w = at0 sh sd := by
    have := hcond.2
    simp at this
    exact this
  cases hqs : idxShape post (sh.drop (sd + 1)) with
  | none => simp [hqs] at hfac
  | some qs =>
  simp only [hqs, Option.map_some, Option.some.injEq] at hfac
  have hrow : ∀ i, (m.select 0 i).shape = [w] := by intro i; simp [T.select, hm]
  have hpiece : ∀ i, idxShape (pre ++ .mask (m.select 0 i) :: post) sh
      = some (ps ++ (nonzero (m.select 0 i)).length :: qs) := by
    intro i
    rw [idxShape_pre pre _ sh hpre (by rw [hpd]; exact hsdle), hpd, hps]
    simp only [Option.bind_some, idxShape, hrow, hdrop, hw]
    simp [hqs]
  have hs' : s = ps ++ ((nonzero m).length :: qs) := by simpa using hfac
  rw [hs'] at hc
  have hclen : c.length = ps.length + 1 + qs.length := by rw [InB.length hc]; simp; omega
  have hcpos : outRank pre < c.length := by omega
  have hcsplit := (InB_append_iff ps ((nonzero m).length :: qs) c).mp hc
  have hk : at0 c (outRank pre) < (nonzero m).length := by
    apply InB.at0_lt hc
    rw [← hplen]; simp
  obtain ⟨hi, hk', hget⟩ := mask2_dec m n w hm _ hk
  refine ⟨ps, qs, rfl, rfl, hplen, hs', hpiece, hi, hk', ?_⟩
  generalize hbi : (blockOf ((List.range n).map fun i => (nonzero (m.select 0 i)).length) (at0 c (outRank pre))).1 = i at hi hk' hget ⊢
  generalize hbk : (blockOf ((List.range n).map fun i => (nonzero (m.select 0 i)).length) (at0 c (outRank pre))).2 = k' at hk' hget ⊢
  rw [idxCoord_pre pre _ sh _ hpre (by rw [hpd]; exact hsdle) (by simp; omega),
    idxCoord_pre pre _ (sh.insertIdx sd n) c hpre
      (by rw [hpd, List.length_insertIdx_of_le_length hsdle]; omega) (by omega)]
  rw [hpd, hS1, hS2, hdrop]
  have htk : (c.set (outRank pre) k').take (outRank pre) = c.take (outRank pre) := by
    rw [List.take_set_of_le (Nat.le_refl _)]
  have hdr : (c.set (outRank pre) k').drop (outRank pre) = k' :: c.drop (outRank pre + 1) := by
    exact drop_set_self c _ k' hcpos
  rw [htk, hdr, List.drop_eq_getElem_cons hcpos]
  have hck : c[outRank pre] = at0 c (outRank pre) := by simp [at0, List.getElem?_eq_getElem hcpos]
  rw [hck]
  simp only [idxCoord, hm, hrow, List.length_cons, List.length_nil, at0, List.getElem?_cons_zero,
    Option.getD_some, List.tail_cons, List.drop_succ_cons, List.drop_zero]
  obtain ⟨r, hr⟩ : ∃ r, (nonzero (m.select 0 i))[k']? = some r := ⟨_, List.getElem?_eq_getElem hk'⟩
  have hgetm : (nonzero m)[c[outRank pre]?.getD 0]? = some (i :: r) := by
    have := hget
    simp only [at0] at this
    rw [this, hr]; rfl
  rw [hr, hgetm]
  simp only [Option.getD_some]
  have hP : (idxCoord pre (sh.take sd) (c.take (outRank pre))).length = sd := by
    have hin : InB (c.take (outRank pre)) ps := by rw [← hplen]; exact hcsplit.1
    rw [idxCoord_length pre (sh.take sd) ps _ hps hin]; simp [hsdle]
  rw [insertIdx_append_mid _ _ _ sd hP]
  simp


theorem set_set_self (c : List Nat) (d x : Nat) (h : d < c.length) : (c.set d x).set d (at0 c d) = c := by
  rw [List.set_set]; exact set_at0_self c d h

/-- **T-level write refinement, rank-2 mask on the stack dim**: when member `i` is written through
row `i` of the mask with its share of the value (the `cnt_i` positions from `start_i` along the
result dim of the mask), the stack is written through the whole mask with the whole value -/
theorem set_stack_mask2 [Inhabited α] (ms ms' : List (T α)) (sh : Shape) (sd : Nat) (pre post : List Ix)
    (m : T Bool) (w : Nat)
    (hsh : ∀ t ∈ ms, t.shape = sh) (hne : ms ≠ []) (hsd : sd < sh.length)
    (hpre : BasicPre pre) (hpd : preDims pre = sd) (hm : m.shape = [ms.length, w])
    (v : T α) (hs : idxShape (pre ++ .mask m :: post) (sh.insertIdx sd ms.length) = some v.shape)
    (hlen' : ms'.length = ms.length)
    (hset : ∀ i (h1 : i < ms.length) (h2 : i < ms'.length),
      IsSetT (pre ++ .mask (m.select 0 i) :: post) ms[i]
        (v.narrow (outRank pre)
          (((List.range ms.length).map fun i => (nonzero (m.select 0 i)).length).take i).sum
          (nonzero (m.select 0 i)).length) ms'[i]) :
    IsSetT (pre ++ .mask m :: post) (T.stack ms sd) v (T.stack ms' sd) := by
  have hnpos : 0 < ms.length := List.length_pos_iff.mpr hne
  have hsdle : sd ≤ sh.length := Nat.le_of_lt hsd
  have hhead := head_shape_of_all ms sh hsh hne
  have hstk : (T.stack ms sd).shape = sh.insertIdx sd ms.length := by rw [T.stack_shape, hhead]
  have hsh' : ∀ t ∈ ms', t.shape = sh := by
    intro t ht
    obtain ⟨i, hi, rfl⟩ := List.getElem_of_mem ht
    rw [(hset i (by omega) hi).shape]
    exact hsh _ (List.getElem_mem _)
  have hne' : ms' ≠ [] := by
    intro hh; rw [hh] at hlen'; simp at hlen'; omega
  have hstk' : (T.stack ms' sd).shape = sh.insertIdx sd ms.length := by
    rw [T.stack_shape, head_shape_of_all ms' sh hsh' hne', hlen']
  obtain ⟨cnts, hcnts⟩ : ∃ cnts, cnts = (List.range ms.length).map fun i => (nonzero (m.select 0 i)).length := ⟨_, rfl⟩
  rw [← hcnts] at hset
  obtain ⟨ps, qs, _, _, hplen, hs', hpiece⟩ := mask2_shapes sh sd ms.length w pre post m hsd hpre hpd hm v.shape hs
  have hcdv : outRank pre < v.shape.length := by rw [hs']; simp; omega
  have hnz : (nonzero m).length = cnts.sum := by
    rw [nonzero_rank2 m _ w hm, length_flatMap_sum, hcnts]; simp
  refine ⟨by rw [hstk', hstk], ?_, ?_⟩
  · -- hit
    intro o ho
    rw [hstk]
    obtain ⟨_, _, _, _, _, _, _, hi, hk', hcoord⟩ :=
      mask2_coord sh sd ms.length w pre post m hsd hpre hpd hm v.shape hs o ho
    rw [← hcnts] at hi hk' hcoord
    have hcd : outRank pre < o.length := by rw [InB.length ho]; exact hcdv
    have hkk : at0 o (outRank pre) < cnts.sum := by
      rw [← hnz]; apply InB.at0_lt ho; rw [hs', ← hplen]; simp
    obtain ⟨_, _, hsum⟩ := blockOf_spec cnts _ hkk
    generalize hbi : (blockOf cnts (at0 o (outRank pre))).1 = i at hi hk' hcoord hsum
    generalize hbk : (blockOf cnts (at0 o (outRank pre))).2 = k' at hk' hcoord hsum
    have hi' : i < ms'.length := by omega
    have hoset : InB (o.set (outRank pre) k') (ps ++ (nonzero (m.select 0 i)).length :: qs) := by
      have h1 := InB_set o v.shape (outRank pre) k' (nonzero (m.select 0 i)).length ho hk'
      rw [hs', ← hplen, set_append_at_len] at h1
      rw [← hplen]; exact h1
    have hlenY : (idxCoord (pre ++ .mask (m.select 0 i) :: post) sh (o.set (outRank pre) k')).length = sh.length :=
      idxCoord_length _ sh _ _ (hpiece i) hoset
    rw [hcoord, T.stack_get, at0_insertIdx_self _ _ _ (by rw [hlenY]; exact hsdle),
      List.eraseIdx_insertIdx_self, List.getElem?_eq_getElem hi', Option.getD_some]
    have hmem := hset i hi hi'
    have hin : InB (o.set (outRank pre) k') (v.narrow (outRank pre) (cnts.take i).sum (nonzero (m.select 0 i)).length).shape := by
      show InB _ (v.shape.set (outRank pre) _)
      exact InB_set o v.shape (outRank pre) k' _ ho hk'
    have hhit := hmem.hit (o.set (outRank pre) k') hin
    rw [hsh _ (List.getElem_mem _)] at hhit
    rw [hhit]
    show v.get ((o.set (outRank pre) k').set (outRank pre) (at0 (o.set (outRank pre) k') (outRank pre) + (cnts.take i).sum)) = v.get o
    have hat : at0 (o.set (outRank pre) k') (outRank pre) = k' := by simp [at0, hcd]
    rw [hat, List.set_set, Nat.add_comm, hsum, set_at0_self o _ hcd]
  · -- frame
    intro c hc hnot
    rw [hstk] at hc hnot
    have hcl : c.length = sh.length + 1 := by rw [InB.length hc, List.length_insertIdx_of_le_length hsdle]
    have hi : at0 c sd < ms.length := InB.at0_lt_of_insert c sh sd ms.length hsdle hc
    have hi' : at0 c sd < ms'.length := by omega
    rw [T.stack_get, T.stack_get, List.getElem?_eq_getElem hi, List.getElem?_eq_getElem hi']
    simp only [Option.getD_some]
    have hmem := hset _ hi hi'
    have hc' : InB (c.eraseIdx sd) sh := by
      have := InB.eraseIdx sd hc
      rwa [List.eraseIdx_insertIdx_self] at this
    apply hmem.frame (c.eraseIdx sd) (by rw [hsh _ (List.getElem_mem _)]; exact hc')
    intro o' ho' heq
    rw [hsh _ (List.getElem_mem _)] at heq
    have ho'2 : InB o' (v.shape.set (outRank pre) (nonzero (m.select 0 (at0 c sd))).length) := ho'
    have hcd' : outRank pre < o'.length := by rw [InB.length ho'2, List.length_set]; exact hcdv
    have hk'lt : at0 o' (outRank pre) < (nonzero (m.select 0 (at0 c sd))).length := by
      apply InB.at0_lt ho'2
      simp [hcdv]
    -- the value coordinate that would hit `c`
    obtain ⟨o, hodef⟩ : ∃ o, o = o'.set (outRank pre) ((cnts.take (at0 c sd)).sum + at0 o' (outRank pre)) := ⟨_, rfl⟩
    have hcnt_i : cnts[at0 c sd]?.getD 0 = (nonzero (m.select 0 (at0 c sd))).length := by
      rw [hcnts, List.getElem?_map, List.getElem?_range hi]; rfl
    have hblock := blockOf_inv cnts (at0 c sd) (at0 o' (outRank pre)) (by rw [hcnts]; simpa using hi)
      (by rw [hcnt_i]; exact hk'lt)
    have hpos_lt : (cnts.take (at0 c sd)).sum + at0 o' (outRank pre) < cnts.sum := by
      have h1 : cnts.sum = (cnts.take (at0 c sd)).sum + (cnts.drop (at0 c sd)).sum := by
        rw [← List.sum_append, List.take_append_drop]
      have hil : at0 c sd < cnts.length := by rw [hcnts]; simpa using hi
      have h2 : (cnts.drop (at0 c sd)).sum ≥ cnts[at0 c sd]?.getD 0 := by
        rw [List.drop_eq_getElem_cons hil, List.sum_cons, List.getElem?_eq_getElem hil]
        simp
      omega
    have ho : InB o v.shape := by
      rw [hodef]
      have := InB_set o' _ (outRank pre) ((cnts.take (at0 c sd)).sum + at0 o' (outRank pre)) (nonzero m).length ho'2
        (by rw [hnz]; exact hpos_lt)
      rw [List.set_set] at this
      have e : v.shape.set (outRank pre) (nonzero m).length = v.shape := by
        rw [hs', ← hplen, set_append_at_len]
      rwa [e] at this
    apply hnot o ho
    obtain ⟨_, _, _, _, _, _, _, _, _, hcoord⟩ :=
      mask2_coord sh sd ms.length w pre post m hsd hpre hpd hm v.shape hs o ho
    rw [← hcnts] at hcoord
    have hato : at0 o (outRank pre) = (cnts.take (at0 c sd)).sum + at0 o' (outRank pre) := by
      rw [hodef]; simp [at0, hcd']
    rw [hato, hblock] at hcoord
    simp only at hcoord
    have hoset : o.set (outRank pre) (at0 o' (outRank pre)) = o' := by
      rw [hodef, List.set_set]; exact set_at0_self o' _ hcd'
    rw [hoset, heq, insertIdx_eraseIdx_self c sd (by omega)] at hcoord
    exact hcoord


theorem writeEach_spec : ∀ (ws : List (Nat × List Ix × TD α)) (ms ms' : List (TD α)),
    writeEach ws ms = some ms' → (ws.map Prod.fst).Nodup →
    ms'.length = ms.length ∧
    (∀ w ∈ ws, ∃ (h : w.1 < ms.length) (m' : TD α),
        (ms[w.1]).setitem w.2.1 w.2.2 = some m' ∧ ms'[w.1]? = some m') ∧
    (∀ i, i ∉ ws.map Prod.fst → ms'[i]? = ms[i]?)
  | [], ms, ms', h, _ => by
    simp [writeEach] at h; subst h; simp
  | (i, out, v) :: r, ms, ms', h, hnd => by
    simp only [writeEach, memberSet] at h
    cases hm : ms[i]? with
    | none => simp [hm] at h
    | some m =>
      have hi : i < ms.length := by
        rcases Nat.lt_or_ge i ms.length with h' | h'
        · exact h'
        · simp [List.getElem?_eq_none h'] at hm
      have hmm : ms[i] = m := by
        rw [List.getElem?_eq_getElem hi] at hm; exact Option.some.inj hm
      simp only [hm, Option.bind_some] at h
      cases hs : m.setitem out v with
      | none => simp [hs] at h
      | some m' =>
        simp only [hs, Option.map_some, Option.bind_some] at h
        simp only [List.map_cons, List.nodup_cons] at hnd
        obtain ⟨ih1, ih2, ih3⟩ := writeEach_spec r (ms.set i m') ms' h hnd.2
        refine ⟨by simpa using ih1, ?_, ?_⟩
        · intro w hw
          rcases List.mem_cons.mp hw with rfl | hw
          · refine ⟨hi, m', by rw [hmm]; exact hs, ?_⟩
            rw [ih3 i hnd.1]; simp [hi]
          · obtain ⟨h', m'', h1, h2⟩ := ih2 w hw
            have hne : i ≠ w.1 := by
              intro heq; exact hnd.1 (heq ▸ List.mem_map_of_mem hw)
            refine ⟨by simpa using h', m'', ?_, h2⟩
            simpa [List.getElem_set, hne] using h1
        · intro i' hi'
          simp only [List.map_cons, List.mem_cons, not_or] at hi'
          rw [ih3 i' hi'.2]
          simp [List.getElem?_set, Ne.symm hi'.1]

/-- once `has_bool` is set, `split_dim` is `mask_loc - num_single` (both are fixed at the mask and
`num_single` no longer changes past the stack dim) -/
theorem splitLoop_pre_mask_splitDim (sd n : Nat) (shape : Shape) (m : T Bool) (post : List Ix)
    (hpost : ∀ it ∈ post, it ≠ Ix.ell) : ∀ (pre : List Ix) (i : Nat) (st st' : SplitSt),
    BasicPre pre → st.cursor + preDims pre = sd →
    splitLoop sd n shape (pre ++ .mask m :: post) i st = some st' →
    st'.splitDim = (st'.maskLoc : Int) - st'.numSingle
  | [], i, st, st', _, hc, h => by
    have hc0 : st.cursor = sd := by simpa [preDims] using hc
    obtain ⟨st2, h1, _, h3⟩ := splitLoop_after sd n shape post (i + 1)
      { st with hasBool := true, sel := .range 0 1 n, out := st.out ++ [.mask m],
                splitDim := (i : Int) - st.numSingle, maskLoc := i, maskDim := st.cursor,
                cursor := st.cursor + 1 } (by simp; omega) hpost
    have hh : splitLoop sd n shape (.mask m :: post) i st = some st2 := by
      simpa [splitLoop, splitStep, hc0] using h1
    simp only [List.nil_append] at h
    rw [hh] at h
    obtain rfl := Option.some.inj h
    rw [h3.splitDim, h3.maskLoc, h3.numSingle]
  | .none :: r, i, st, st', hb, hc, h => by
    simp only [List.cons_append, splitLoop, splitStep, Option.bind_some] at h
    exact splitLoop_pre_mask_splitDim sd n shape m post hpost r (i + 1) _ st'
      (by simpa [BasicPre] using hb) (by simpa [preDims] using hc) h
  | .int k :: r, i, st, st', hb, hc, h => by
    have hc0 : ¬ st.cursor = sd := by simp [preDims] at hc; omega
    simp only [List.cons_append, splitLoop, splitStep, hc0, if_false, Option.bind_some] at h
    exact splitLoop_pre_mask_splitDim sd n shape m post hpost r (i + 1) _ st'
      (by simpa [BasicPre] using hb) (by simp [preDims] at hc ⊢; omega) h
  | .slice a b c :: r, i, st, st', hb, hc, h => by
    have hc0 : ¬ st.cursor = sd := by simp [preDims] at hc; omega
    simp only [List.cons_append, splitLoop, splitStep, hc0, if_false, Option.bind_some] at h
    exact splitLoop_pre_mask_splitDim sd n shape m post hpost r (i + 1) _ st'
      (by simpa [BasicPre] using hb) (by simp [preDims] at hc ⊢; omega) h
  | .tens _ :: _, _, _, _, hb, _, _ => by simp [BasicPre] at hb
  | .mask _ :: _, _, _, _, hb, _, _ => by simp [BasicPre] at hb
  | .ell :: _, _, _, _, hb, _, _ => by simp [BasicPre] at hb


/-- **Writes with a rank-2 mask on the stack dim** (`lazy[pre…, mask2d, post…] = v`): member `i` is
written through row `i` of the mask with the `cnt_i` positions of the value (along
`split_dim = mask_loc - num_single`) that belong to it; the dense stack of the members afterwards
is `IsSetT` of the dense stack before.  (`hnd`: the row indices have no duplicate targets.) -/
theorem setitem_refines_mask2_on [Inhabited α] (L : Lazy α) (b : Shape) (keys : List String) (feat : String → Shape)
    (hU : Uniform L b keys feat) (hne0 : L.members ≠ []) (pre post : List Ix) (m : T Bool) (w : Nat)
    (hpre : BasicPre pre) (hpd : preDims pre = L.sd) (hpost : ∀ it ∈ post, it ≠ Ix.ell)
    (hsdlt : L.sd < b.length) (hm : m.shape = [L.members.length, w])
    (hnd : ∀ i, NoDupTargets (pre ++ .mask (m.select 0 i) :: post))
    (v : TD α) (hvk : v.keys = keys) (hvl : ∀ k ∈ keys, (v.leaf k).shape = v.batch ++ feat k)
    (hbd : idxShape (pre ++ .mask m :: post) (absL L).batch = some v.batch)
    (L' : Lazy α) (h : lazySetCoreM L (pre ++ .mask m :: post) v = some L') :
    L'.sd = L.sd ∧ Uniform L' b keys feat ∧ L'.members.length = L.members.length ∧
    ∀ k ∈ keys, IsSetT (pre ++ .mask m :: post) ((absL L).leaf k) (v.leaf k) ((absL L').leaf k) := by
  have hB : (absL L).batch = b.insertIdx L.sd L.members.length := absL_batch_eq L b keys feat hU hne0
  have hLB : L.batch = b.insertIdx L.sd L.members.length := hB
  obtain ⟨st', hloop, hout, hhb, hml, hmd, hsel, hcat⟩ :=
    splitLoop_pre_mask L.sd L.members.length L.batch m post hpost pre 0 {} hpre (by simpa using hpd) rfl
  have hsdim := splitLoop_pre_mask_splitDim L.sd L.members.length L.batch m post hpost pre 0 {} st' hpre
    (by simpa using hpd) hloop
  simp only [List.nil_append, Nat.zero_add] at hout hml
  have hmaskAt : st'.out[st'.maskLoc]? = some (.mask m) := by rw [hout, hml]; simp
  have hids : (st'.sel.ids L.members.length).length = L.members.length := by rw [hsel]; simp [Sel.ids]
  have hsplit : splitIndex L (pre ++ .mask m :: post) = some st' := by
    unfold splitIndex
    simp [hloop, hhb, hmaskAt, hids, hm]
  have hcat' : (st'.maskLoc : Int) - st'.numSingle = (outRank pre : Int) := by
    have := hcat; simpa using this
  have hsd' : st'.splitDim = (outRank pre : Int) := by rw [hsdim, hcat']
  rw [hB, ← hLB] at hbd
  have hcdb : outRank pre < v.batch.length := by
    obtain ⟨ps, qs, _, _, hplen, hs', _⟩ := mask2_shapes b L.sd L.members.length w pre post m hsdlt hpre hpd hm v.batch
      (by rw [← hLB]; exact hbd)
    rw [hs']; simp; omega
  unfold lazySetCoreM at h
  simp only [hsplit, hhb, if_true, hmaskAt, hm, hbd, Option.bind_some, hsd', hmd] at h
  have hneg : ¬ ((outRank pre : Int) < 0) := by omega
  simp only [ne_eq, not_true_eq_false, hneg, or_self, if_false, if_true, Int.toNat_natCast] at h
  have hsub : ∀ i, subMaskIdx st'.out st'.maskLoc m i = pre ++ .mask (m.select 0 i) :: post := by
    intro i; unfold subMaskIdx; rw [hout, hml, set_append_mid]
  simp only [hsub, Option.map_eq_some_iff] at h
  obtain ⟨ms', hw, rfl⟩ := h
  obtain ⟨cnts, hcnts⟩ : ∃ cnts, cnts = (List.range L.members.length).map fun i => (nonzero (m.select 0 i)).length := ⟨_, rfl⟩
  rw [← hcnts] at hw
  obtain ⟨hl, hwr, _⟩ := writeEach_spec _ _ _ hw (by
    rw [List.map_map]
    have : (Prod.fst ∘ fun i => (i, pre ++ Ix.mask (m.select 0 i) :: post,
        v.narrow (outRank pre) ((pieceStarts cnts 0)[i]?.getD 0) (cnts[i]?.getD 0))) = id := by
      funext i; rfl
    rw [this, List.map_id]; exact List.nodup_range)
  -- member `i` afterwards
  have hmem : ∀ i (hi : i < L.members.length), ∃ m' : TD α,
      (L.members[i]).setitem (pre ++ .mask (m.select 0 i) :: post)
        (v.narrow (outRank pre) (cnts.take i).sum (nonzero (m.select 0 i)).length) = some m' ∧
      ms'[i]? = some m' := by
    intro i hi
    obtain ⟨_, m', h1, h2⟩ := hwr (i, pre ++ .mask (m.select 0 i) :: post,
      v.narrow (outRank pre) ((pieceStarts cnts 0)[i]?.getD 0) (cnts[i]?.getD 0))
      (List.mem_map.mpr ⟨i, List.mem_range.mpr hi, rfl⟩)
    have hil : i < cnts.length := by rw [hcnts]; simpa using hi
    rw [pieceStarts_get cnts 0 i hil] at h1
    have hc : cnts[i]?.getD 0 = (nonzero (m.select 0 i)).length := by
      rw [hcnts, List.getElem?_map, List.getElem?_range hi]; rfl
    simp only [Option.getD_some, Nat.zero_add, hc] at h1
    exact ⟨m', h1, h2⟩
  have hfacts : ∀ i (hi : i < L.members.length) (hi' : i < ms'.length),
      (ms'[i]).batch = b ∧ (ms'[i]).keys = keys ∧
      ∀ k ∈ keys, (ms'[i]).leaf k = setT (pre ++ .mask (m.select 0 i) :: post) ((L.members[i]).leaf k)
        ((v.leaf k).narrow (outRank pre) (cnts.take i).sum (nonzero (m.select 0 i)).length) := by
    intro i hi hi'
    obtain ⟨m', h1, h2⟩ := hmem i hi
    have hm' : ms'[i] = m' := by
      rw [List.getElem?_eq_getElem hi'] at h2; exact Option.some.inj h2
    obtain ⟨so, _, _, _, hb', hk', hl'⟩ := TD.setitem_some _ _ _ _ h1
    have hmi : L.members[i] ∈ L.members := List.getElem_mem _
    rw [hm']
    refine ⟨by rw [hb']; exact hU.hbatch _ hmi, by rw [hk']; exact hU.hkeys _ hmi, ?_⟩
    intro k hk
    rw [hl' k]
    have : (v.narrow (outRank pre) (cnts.take i).sum (nonzero (m.select 0 i)).length).keys.contains k = true := by
      show v.keys.contains k = true
      rw [hvk]; simpa using hk
    rw [if_pos this]
    rfl
  have hne' : ms' ≠ [] := by
    intro hh; rw [hh] at hl; exact hne0 (List.length_eq_zero_iff.mp hl.symm)
  have hU' : Uniform (⟨ms', L.sd⟩ : Lazy α) b keys feat := by
    refine ⟨?_, ?_, ?_, hU.hsd⟩
    · intro x hx
      obtain ⟨i, hi, rfl⟩ := List.getElem_of_mem hx
      have hi2 : i < ms'.length := hi
      exact (hfacts i (by omega) hi2).1
    · intro x hx
      obtain ⟨i, hi, rfl⟩ := List.getElem_of_mem hx
      have hi2 : i < ms'.length := hi
      exact (hfacts i (by omega) hi2).2.1
    · intro x hx k hk
      obtain ⟨i, hi, rfl⟩ := List.getElem_of_mem hx
      have hi2 : i < ms'.length := hi
      rw [(hfacts i (by omega) hi2).2.2 k hk]
      show ((L.members[i]).leaf k).shape = _
      exact hU.hleaf _ (List.getElem_mem _) k hk
  refine ⟨rfl, hU', hl, ?_⟩
  intro k hk
  show IsSetT _ (T.stack (L.members.map fun x => x.leaf k) L.sd) (v.leaf k) (T.stack (ms'.map fun x => x.leaf k) L.sd)
  have key := set_stack_mask2 (L.members.map fun x => x.leaf k) (ms'.map fun x => x.leaf k) (b ++ feat k) L.sd pre post m w
    (leaf_shapes L b keys feat hU k hk) (by simpa using hne0) (by simp; omega) hpre hpd (by simpa using hm)
    (v.leaf k)
    (by
      rw [List.length_map, hvl k hk, insertIdx_append_left _ _ _ _ hU.hsd]
      apply idxShape_append
      rw [← hLB]; exact hbd)
    (by simp [hl])
    (by
      intro i h1 h2
      simp only [List.length_map] at h1 h2
      simp only [List.getElem_map, List.length_map]
      rw [← hcnts, (hfacts i h1 h2).2.2 k hk]
      apply setT_isSet
      have hish : idxShape (pre ++ .mask (m.select 0 i) :: post) ((L.members[i]).leaf k).shape
          = some ((v.leaf k).narrow (outRank pre) (cnts.take i).sum (nonzero (m.select 0 i)).length).shape := by
        obtain ⟨m', hs1, _⟩ := hmem i h1
        obtain ⟨so, hso, hvb, _⟩ := TD.setitem_some _ _ _ _ hs1
        rw [hU.hleaf _ (List.getElem_mem _) k hk, hU.hbatch _ (List.getElem_mem _)] at *
        rw [idxShape_append (feat k) _ _ _ hso]
        show some (so ++ feat k) = some ((v.leaf k).shape.set (outRank pre) _)
        rw [hvl k hk, ← hvb]
        show _ = some ((v.batch ++ feat k).set (outRank pre) _)
        have : (v.narrow (outRank pre) (cnts.take i).sum (nonzero (m.select 0 i)).length).batch
            = v.batch.set (outRank pre) (nonzero (m.select 0 i)).length := rfl
        rw [this, List.set_append_left _ _ hcdb]
      intro o o' ho ho' heq
      exact hnd i _ _ hish o o' ho ho' heq)
  simpa using key

end TdVerif.C08
