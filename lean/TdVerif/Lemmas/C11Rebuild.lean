import TdVerif.Model.C11Rebuild

namespace TdVerif.C11

theorem rebuildLoop_flatten {α} : ∀ (items : List (Item α)) (nv nl : Option α),
    rebuildLoop nv nl (flattenItems items) = some items := by
  intro items
  induction items with
  | nil => intro nv nl; rfl
  | cons it rest ih =>
    intro nv nl
    cases it with
    | plain k v => simp [flattenItems, flattenItem, rebuildLoop, ih]
    | njt k v l o =>
      cases l with
      | none => simp [flattenItems, flattenItem, rebuildLoop, ih]
      | some l => simp [flattenItems, flattenItem, rebuildLoop, ih]

/-- decimal notation is injective -/
theorem toString_nat_inj {a b : Nat} (h : toString a = toString b) : a = b := by
  have := congrArg (fun s : String => Nat.ofDigitChars 10 s.toList 0) h
  simpa [Nat.toString_eq_repr, Nat.toList_repr] using this

theorem lookup_lazyToDictFrom {α} : ∀ (ms : List α) (i0 j : Nat),
    (lazyToDictFrom i0 ms).lookup (toString (i0 + j)) = ms[j]? := by
  intro ms
  induction ms with
  | nil => intro i0 j; simp [lazyToDictFrom]
  | cons m rest ih =>
    intro i0 j
    cases j with
    | zero => simp [lazyToDictFrom]
    | succ j =>
      have hne : (toString (i0 + (j + 1)) == toString i0) = false := by
        apply beq_false_of_ne
        intro h
        have := toString_nat_inj h
        omega
      simp only [lazyToDictFrom, List.lookup, hne, List.getElem?_cons_succ]
      have := ih (i0 + 1) j
      rwa [show i0 + 1 + j = i0 + (j + 1) by omega] at this

theorem length_lazyToDictFrom {α} : ∀ (ms : List α) (i0 : Nat), (lazyToDictFrom i0 ms).length = ms.length := by
  intro ms
  induction ms with
  | nil => intro _; rfl
  | cons m rest ih => intro i0; simp [lazyToDictFrom, ih]

theorem keys_lazyToDictFrom_nodup {α} : ∀ (ms : List α) (i0 : Nat),
    ((lazyToDictFrom i0 ms).map (·.1)).Nodup ∧ ∀ k ∈ (lazyToDictFrom i0 ms).map (·.1), ∃ j, i0 ≤ j ∧ k = toString j := by
  intro ms
  induction ms with
  | nil => intro _; simp [lazyToDictFrom]
  | cons m rest ih =>
    intro i0
    obtain ⟨hn, hk⟩ := ih (i0 + 1)
    refine ⟨?_, ?_⟩
    · simp only [lazyToDictFrom, List.map_cons, List.nodup_cons]
      refine ⟨?_, hn⟩
      intro hmem
      obtain ⟨j, hj, he⟩ := hk _ hmem
      have := toString_nat_inj he
      omega
    · intro k hk'
      simp only [lazyToDictFrom, List.map_cons, List.mem_cons] at hk'
      rcases hk' with rfl | hk'
      · exact ⟨i0, Nat.le_refl _, rfl⟩
      · obtain ⟨j, hj, he⟩ := hk k hk'
        exact ⟨j, by omega, he⟩

theorem fetchFrom_of_lookup {α} (d : List (String × α)) : ∀ (suffix : List α) (i : Nat),
    (∀ j, d.lookup (toString (i + j)) = suffix[j]?) → fetchFrom d i suffix.length = some suffix := by
  intro suffix
  induction suffix with
  | nil => intro i _; rfl
  | cons m rest ih =>
    intro i h
    have h0 := h 0
    simp only [Nat.add_zero, List.getElem?_cons_zero] at h0
    simp only [List.length_cons, fetchFrom, h0]
    rw [ih (i + 1) (by
      intro j
      have := h (j + 1)
      simp only [List.getElem?_cons_succ] at this
      rwa [show i + 1 + j = i + (j + 1) by omega])]
    rfl

/-- in a dict (distinct keys) the lookup does not depend on the insertion order -/
theorem lookup_perm {α} (k : String) : ∀ (d d' : List (String × α)), d.Perm d' → (d.map (·.1)).Nodup →
    d.lookup k = d'.lookup k := by
  intro d d' hp
  induction hp with
  | nil => intro _; rfl
  | cons x _ ih =>
    intro hn
    simp only [List.map_cons, List.nodup_cons] at hn
    obtain ⟨a, b⟩ := x
    simp only [List.lookup]
    cases k == a <;> simp [ih hn.2]
  | swap x y l =>
    intro hn
    obtain ⟨a, b⟩ := x
    obtain ⟨c, e⟩ := y
    simp only [List.map_cons, List.nodup_cons, List.mem_cons, not_or] at hn
    simp only [List.lookup]
    cases h1 : k == a <;> cases h2 : k == c <;> simp
    exfalso
    have e1 : k = a := by simpa using h1
    have e2 : k = c := by simpa using h2
    exact hn.1.1 (e2 ▸ e1 ▸ rfl)
  | trans h1 h2 ih1 ih2 =>
    intro hn
    rw [ih1 hn]
    apply ih2
    exact (h1.map (·.1)).nodup_iff.1 hn

end TdVerif.C11
