/-
  C08 — torch.cat of ANY number of lazy stacks (the two-operand theorems of C08Cat composed by
  induction over the operand list; `cat2` congruence; bookkeeping of the concatenated sizes).
-/
import TdVerif.Lemmas.C08Stack
namespace TdVerif.C08

theorem InB_len : ∀ (c : List Nat) (s : Shape), InB c s → c.length = s.length
  | [], [], _ => rfl
  | _ :: cs, _ :: ds, h => by simp [InB_len cs ds h.2]
  | [], _ :: _, h => by simp [InB] at h
  | _ :: _, [], h => by simp [InB] at h

/-- a coordinate of the concatenation that falls in the second operand, shifted back, is in its bounds -/
theorem InB_cat_right : ∀ (s : Shape) (c : List Nat) (d x y : Nat), d < s.length →
    InB c (s.set d (x + y)) → ¬ at0 c d < x → InB (c.set d (at0 c d - x)) (s.set d y)
  | [], _, _, _, _, hd, _, _ => by simp at hd
  | _ :: _, [], _, _, _, _, h, _ => by simp [InB] at h
  | a :: s, c0 :: c, 0, x, y, _, h, hx => by
    simp only [List.set_cons_zero, InB, at0, List.getElem?_cons_zero, Option.getD_some] at h hx ⊢
    exact ⟨by omega, h.2⟩
  | a :: s, c0 :: c, d + 1, x, y, hd, h, hx => by
    simp only [List.set_cons_succ, InB] at h ⊢
    have hx' : ¬ at0 c d < x := by simpa [at0] using hx
    have := InB_cat_right s c d x y (by simpa using hd) h.2 hx'
    refine ⟨h.1, ?_⟩
    simpa [at0] using this

theorem InB_cat_left : ∀ (s : Shape) (c : List Nat) (d x y : Nat), d < s.length → at0 s d = x →
    InB c (s.set d (x + y)) → at0 c d < x → InB c s
  | [], _, _, _, _, hd, _, _, _ => by simp at hd
  | _ :: _, [], _, _, _, _, _, h, _ => by simp [InB] at h
  | a :: s, c0 :: c, 0, x, y, _, ha, h, hx => by
    simp only [List.set_cons_zero, InB, at0, List.getElem?_cons_zero, Option.getD_some] at h hx ha ⊢
    exact ⟨by omega, h.2⟩
  | a :: s, c0 :: c, d + 1, x, y, hd, ha, h, hx => by
    simp only [List.set_cons_succ, InB] at h ⊢
    exact ⟨h.1, InB_cat_left s c d x y (by simpa using hd) (by simpa [at0] using ha) h.2 (by simpa [at0] using hx)⟩

/-- `cat2` respects `≈ₜ` in both operands (operands that agree off `d`) -/
theorem T.cat2_congr (a a' b b' : T α) (d : Nat) (hd : d < a.shape.length)
    (hsh : b.shape = a.shape.set d (at0 b.shape d)) (ha : a ≈ₜ a') (hb : b ≈ₜ b') :
    T.cat2 a b d ≈ₜ T.cat2 a' b' d := by
  refine ⟨by simp [T.cat2, ha.1, hb.1], ?_⟩
  intro c hc
  simp only [T.cat2] at hc ⊢
  rw [← ha.1]
  by_cases hx : at0 c d < at0 a.shape d
  · simp only [hx, if_true]
    exact ha.2 c (InB_cat_left a.shape c d _ _ hd rfl hc hx)
  · simp only [hx, if_false]
    apply hb.2
    rw [hsh]
    exact InB_cat_right a.shape c d _ _ hd hc hx

theorem TD.cat2_congr (a a' b b' : TD α) (d : Nat)
    (hd : ∀ k ∈ a.keys, d < (a.leaf k).shape.length)
    (hsh : ∀ k ∈ a.keys, (b.leaf k).shape = (a.leaf k).shape.set d (at0 (b.leaf k).shape d))
    (ha : a ≈ a') (hb : b ≈ b') (hbk : b.keys = a.keys) :
    TD.cat2 a b d ≈ TD.cat2 a' b' d := by
  refine ⟨by simp [TD.cat2, ha.1, hb.1], ha.2.1, ?_⟩
  intro k hk
  exact T.cat2_congr _ _ _ _ d (hd k hk) (hsh k hk) (ha.2.2 k hk) (hb.2.2 k (hbk ▸ hk))

end TdVerif.C08
namespace TdVerif.C08

theorem insertIdx_set_self {β} (l : List β) (i : Nat) (x y : β) (hi : i ≤ l.length) :
    (l.insertIdx i x).set i y = l.insertIdx i y := by
  apply List.ext_getElem?
  intro j
  simp only [List.getElem?_set, List.getElem?_insertIdx, List.length_insertIdx_of_le_length hi]
  by_cases h : i = j
  · subst h
    have h1 : i < l.length + 1 := by omega
    simp [h1, hi]
  · have : ¬ j = i := fun h' => h h'.symm
    simp [h, this]

theorem at0_insertIdx_self (l : List Nat) (i x : Nat) (hi : i ≤ l.length) : at0 (l.insertIdx i x) i = x := by
  simp [at0, List.getElem?_insertIdx_self, hi]

theorem absL_leaf_shape [Inhabited α] (L : Lazy α) (b : Shape) (keys : List String) (feat : String → Shape)
    (hU : Uniform L b keys feat) (hne : L.members ≠ []) (k : String) (hk : k ∈ keys) :
    ((absL L).leaf k).shape = (b ++ feat k).insertIdx L.sd L.members.length := by
  show (T.stack (L.members.map fun m => m.leaf k) L.sd).shape = _
  rw [T.stack_shape, head_shape_of_all _ _ (leaf_shapes L b keys feat hU k hk) (by simpa using hne), List.length_map]

/-- **cat of any number of lazy stacks along the common stack dim**: the concatenated member
list materialises to `torch.cat` of the dense stacks -/
theorem cat_same_nary [Inhabited α] (b : Shape) (keys : List String) (feat : String → Shape) (sd : Nat) :
    ∀ (Ls : List (Lazy α)) (L0 : Lazy α),
      (∀ L ∈ L0 :: Ls, Uniform L b keys feat ∧ L.members ≠ [] ∧ L.sd = sd) →
      absL (⟨(L0 :: Ls).flatMap Lazy.members, sd⟩ : Lazy α) ≈ TD.catList ((L0 :: Ls).map absL) sd
  | [], L0, h => by
    obtain ⟨_, _, hsd⟩ := h L0 (by simp)
    simp only [List.flatMap_cons, List.flatMap_nil, List.append_nil, List.map_cons, List.map_nil, TD.catList]
    subst hsd
    exact TD.Eqv.refl _
  | L1 :: Ls, L0, h => by
    obtain ⟨hU0, hne0, hsd0⟩ := h L0 (by simp)
    obtain ⟨hU1, hne1, hsd1⟩ := h L1 (by simp)
    have ih := cat_same_nary b keys feat sd Ls L1 (fun L hL => h L (List.mem_cons_of_mem _ hL))
    let L' : Lazy α := ⟨(L1 :: Ls).flatMap Lazy.members, sd⟩
    have hU' : Uniform L' b keys feat := by
      refine ⟨?_, ?_, ?_, (by show sd ≤ b.length; rw [← hsd1]; exact hU1.hsd)⟩
      · intro m hm
        obtain ⟨L, hL, hmL⟩ := List.mem_flatMap.mp hm
        exact (h L (List.mem_cons_of_mem _ hL)).1.hbatch m hmL
      · intro m hm
        obtain ⟨L, hL, hmL⟩ := List.mem_flatMap.mp hm
        exact (h L (List.mem_cons_of_mem _ hL)).1.hkeys m hmL
      · intro m hm
        obtain ⟨L, hL, hmL⟩ := List.mem_flatMap.mp hm
        exact (h L (List.mem_cons_of_mem _ hL)).1.hleaf m hmL
    have hne' : L'.members ≠ [] := by
      show (L1 :: Ls).flatMap Lazy.members ≠ []
      simp [hne1]
    have h2 := cat2_refines_same L0 L' b keys feat hU0 hU' hne0 hne' (by show sd = L0.sd; exact hsd0.symm)
    rw [hsd0] at h2
    have hfl : (L0 :: L1 :: Ls).flatMap Lazy.members = L0.members ++ L'.members := by
      simp [L']
    rw [hfl]
    refine TD.Eqv.trans h2 ?_
    show TD.cat2 (absL L0) (absL L') sd ≈ TD.cat2 (absL L0) (TD.catList ((L1 :: Ls).map absL) sd) sd
    obtain ⟨_, hk0⟩ := head_batch_of_uniform L0 b keys feat hU0 hne0
    obtain ⟨_, hk'⟩ := head_batch_of_uniform L' b keys feat hU' hne'
    have hsdb : sd ≤ b.length := by rw [← hsd0]; exact hU0.hsd
    apply TD.cat2_congr _ _ _ _ sd ?_ ?_ (TD.Eqv.refl _) ih (hk'.trans hk0.symm)
    · intro k hk
      have hkk : k ∈ keys := by rw [← hk0]; exact hk
      rw [absL_leaf_shape L0 b keys feat hU0 hne0 k hkk, hsd0, List.length_insertIdx_of_le_length (by simp; omega)]
      simp; omega
    · intro k hk
      have hkk : k ∈ keys := by rw [← hk0]; exact hk
      rw [absL_leaf_shape L0 b keys feat hU0 hne0 k hkk, absL_leaf_shape L' b keys feat hU' hne' k hkk, hsd0]
      show (b ++ feat k).insertIdx sd _ = _
      have hsd' : L'.sd = sd := rfl
      rw [hsd', at0_insertIdx_self _ _ _ (by simp; omega), insertIdx_set_self _ _ _ _ (by simp; omega)]

end TdVerif.C08
namespace TdVerif.C08

theorem set_insertIdx_other (sh : Shape) (n sd dim nd y : Nat) (hsd : sd ≤ sh.length)
    (hne : dim ≠ sd) (hnd1 : dim > sd → nd + 1 = dim) (hnd2 : ¬ dim > sd → nd = dim) :
    (sh.set nd y).insertIdx sd n = (sh.insertIdx sd n).set dim y := by
  apply List.ext_getElem?
  intro i
  simp only [List.getElem?_set, List.getElem?_insertIdx, List.length_set,
    List.length_insertIdx_of_le_length hsd]
  by_cases hgt : dim > sd
  · have := hnd1 hgt
    by_cases hi1 : i < sd <;> by_cases hi2 : i = sd <;> by_cases hi3 : i = dim <;>
      simp [hi1, hi2, hi3] <;> grind
  · have := hnd2 hgt
    by_cases hi1 : i < sd <;> by_cases hi2 : i = sd <;> by_cases hi3 : i = dim <;>
      simp [hi1, hi2, hi3] <;> grind

theorem set_append_left (b f : Shape) (nd y : Nat) (h : nd < b.length) : (b ++ f).set nd y = b.set nd y ++ f := by
  apply List.ext_getElem?
  intro i
  simp only [List.getElem?_set, List.getElem?_append, List.length_append, List.length_set]
  by_cases h1 : nd = i
  · subst h1; simp [h]; omega
  · simp [h1]

theorem at0_set_append (b f : Shape) (nd y : Nat) (h : nd < b.length) : at0 (b.set nd y ++ f) nd = y := by
  simp [at0, List.getElem?_append, h]

theorem at0_set_self (b : Shape) (nd y : Nat) (h : nd < b.length) : at0 (b.set nd y) nd = y := by
  simp [at0, h]

theorem range_map_getD {β} [Inhabited β] (l : List β) (n : Nat) (h : l.length = n) :
    (List.range n).map (fun i => l[i]?.getD default) = l := by
  apply List.ext_getElem
  · simp [h]
  · intro i h1 h2
    simp [List.getElem?_eq_getElem h2]

/-- the `i`-th members of the operands -/
def catCol [Inhabited α] (Ls : List (Lazy α)) (i : Nat) : List (TD α) := Ls.map fun L => L.members[i]?.getD default

/-- what `_lazy_cat` builds along a dim other than the stack dim -/
def catOther [Inhabited α] (Ls : List (Lazy α)) (n nd sd : Nat) : Lazy α :=
  ⟨(List.range n).map fun i => TD.catList (catCol Ls i) nd, sd⟩

/-- batch size of the members of an operand -/
def Lazy.mb (L : Lazy α) : Shape := (L.members.head?.map TD.batch).getD []

/-- total size along the cat dim -/
def catSize (Ls : List (Lazy α)) (nd : Nat) : Nat := (Ls.map fun L => at0 L.mb nd).sum

/-- **cat of any number of lazy stacks along a dim other than the common stack dim** -/
theorem cat_other_nary [Inhabited α] (b : Shape) (keys : List String) (feat : String → Shape)
    (n sd dim nd : Nat) (hn : 0 < n) (hsd : sd ≤ b.length) (hnd : nd < b.length)
    (hne : dim ≠ sd) (hnd1 : dim > sd → nd + 1 = dim) (hnd2 : ¬ dim > sd → nd = dim) :
    ∀ (Ls : List (Lazy α)) (L0 : Lazy α),
      (∀ L ∈ L0 :: Ls, Uniform L L.mb keys feat ∧ L.mb = b.set nd (at0 L.mb nd) ∧
        L.members.length = n ∧ L.sd = sd) →
      Uniform (catOther (L0 :: Ls) n nd sd) (b.set nd (catSize (L0 :: Ls) nd)) keys feat ∧
      absL (catOther (L0 :: Ls) n nd sd) ≈ TD.catList ((L0 :: Ls).map absL) dim
  | [], L0, h => by
    obtain ⟨hU, hmb, hlen, hsd0⟩ := h L0 (by simp)
    have hL : catOther [L0] n nd sd = L0 := by
      simp only [catOther, catCol, List.map_cons, List.map_nil, TD.catList]
      rw [range_map_getD _ _ hlen, ← hsd0]
    rw [hL]
    refine ⟨?_, by simp [TD.catList]; exact TD.Eqv.refl _⟩
    simp only [catSize, List.map_cons, List.map_nil, List.sum_cons, List.sum_nil, Nat.add_zero]
    rw [← hmb]; exact hU
  | L1 :: Ls, L0, h => by
    obtain ⟨hU0, hmb0, hlen0, hsd0⟩ := h L0 (by simp)
    obtain ⟨hU', ih⟩ := cat_other_nary b keys feat n sd dim nd hn hsd hnd hne hnd1 hnd2 Ls L1
      (fun L hL => h L (List.mem_cons_of_mem _ hL))
    generalize hL' : catOther (L1 :: Ls) n nd sd = L' at hU' ih
    have hL'm : L'.members.length = n := by rw [← hL']; simp [catOther]
    have hL'sd : L'.sd = sd := by rw [← hL']; rfl
    have hne0 : L0.members ≠ [] := by
      intro hh; rw [hh] at hlen0; simp at hlen0; omega
    have hne' : L'.members ≠ [] := by
      intro hh; rw [hh] at hL'm; simp at hL'm; omega
    -- the members of the result are the pairwise cats of L0's members with the tail's result
    have hmem : (catOther (L0 :: L1 :: Ls) n nd sd).members
        = (L0.members.zip L'.members).map fun p => TD.cat2 p.1 p.2 nd := by
      apply List.ext_getElem
      · simp [catOther, hlen0, hL'm]
      · intro i h1 h2
        have hi : i < n := by simpa [catOther] using h1
        have hi0 : i < L0.members.length := by omega
        have hi' : i < L'.members.length := by omega
        have hL'i : L'.members[i] = TD.catList (catCol (L1 :: Ls) i) nd := by
          have : L'.members = (catOther (L1 :: Ls) n nd sd).members := by rw [hL']
          simp [this, catOther]
        simp only [catOther, List.getElem_map, List.getElem_range, List.getElem_zip, hL'i]
        simp [catCol, TD.catList, List.getElem?_eq_getElem hi0]
    obtain ⟨x0, hx0⟩ : ∃ x0, x0 = at0 L0.mb nd := ⟨_, rfl⟩
    obtain ⟨S', hS'⟩ : ∃ S', S' = catSize (L1 :: Ls) nd := ⟨_, rfl⟩
    have hS : catSize (L0 :: L1 :: Ls) nd = x0 + S' := by simp [catSize, hx0, hS']
    rw [← hx0] at hmb0
    rw [← hS'] at hU'
    have hUres : Uniform (catOther (L0 :: L1 :: Ls) n nd sd) (b.set nd (x0 + S')) keys feat := by
      refine ⟨?_, ?_, ?_, by simpa [catOther] using hsd⟩
      · intro m hm
        rw [hmem] at hm
        simp only [List.mem_map] at hm
        obtain ⟨⟨m0, m'⟩, hp, rfl⟩ := hm
        have h0 := hU0.hbatch m0 (List.of_mem_zip hp).1
        have h' := hU'.hbatch m' (List.of_mem_zip hp).2
        show m0.batch.set nd (at0 m0.batch nd + at0 m'.batch nd) = _
        rw [h0, h', hmb0, List.set_set, at0_set_self _ _ _ hnd, at0_set_self _ _ _ hnd]
      · intro m hm
        rw [hmem] at hm
        simp only [List.mem_map] at hm
        obtain ⟨⟨m0, m'⟩, hp, rfl⟩ := hm
        exact hU0.hkeys m0 (List.of_mem_zip hp).1
      · intro m hm k hk
        rw [hmem] at hm
        simp only [List.mem_map] at hm
        obtain ⟨⟨m0, m'⟩, hp, rfl⟩ := hm
        have h0 := hU0.hleaf m0 (List.of_mem_zip hp).1 k hk
        have h' := hU'.hleaf m' (List.of_mem_zip hp).2 k hk
        show (m0.leaf k).shape.set nd (at0 (m0.leaf k).shape nd + at0 (m'.leaf k).shape nd) = _
        rw [h0, h', hmb0, at0_set_append _ _ _ _ hnd, at0_set_append _ _ _ _ hnd,
          set_append_left _ _ _ _ (by simpa using hnd), List.set_set]
    refine ⟨by rw [hS]; exact hUres, ?_⟩
    -- refinement: two-operand theorem, then congruence with the induction hypothesis
    have hnd' : nd = (if dim > L0.sd then dim - 1 else dim) := by
      rw [hsd0]
      by_cases hgt : dim > sd
      · rw [if_pos hgt]; have := hnd1 hgt; omega
      · rw [if_neg hgt]; exact hnd2 hgt
    have hdim : dim < L0.mb.length + 1 := by
      rw [hmb0, List.length_set]
      by_cases hgt : dim > sd
      · have := hnd1 hgt; omega
      · have := hnd2 hgt; omega
    have h2 := cat2_refines_other L0 L' L0.mb (b.set nd S') keys feat hU0 hU' hne0 (by omega)
      (by rw [hL'sd, hsd0]) (by rw [hmb0]; simp) dim hdim (by rw [hsd0]; exact hne)
    rw [← hnd', hsd0] at h2
    have hres : catOther (L0 :: L1 :: Ls) n nd sd
        = ⟨(L0.members.zip L'.members).map fun p => TD.cat2 p.1 p.2 nd, sd⟩ := by
      rw [← hmem]; rfl
    rw [hres]
    refine TD.Eqv.trans h2 ?_
    show TD.cat2 (absL L0) (absL L') dim ≈ TD.cat2 (absL L0) (TD.catList ((L1 :: Ls).map absL) dim) dim
    obtain ⟨_, hk0⟩ := head_batch_of_uniform L0 L0.mb keys feat hU0 hne0
    obtain ⟨_, hk'⟩ := head_batch_of_uniform L' _ keys feat hU' hne'
    apply TD.cat2_congr _ _ _ _ dim ?_ ?_ (TD.Eqv.refl _) ih (hk'.trans hk0.symm)
    · intro k hk
      have hkk : k ∈ keys := by rw [← hk0]; exact hk
      rw [absL_leaf_shape L0 _ keys feat hU0 hne0 k hkk, hsd0,
        List.length_insertIdx_of_le_length (by rw [hmb0]; simp; omega)]
      simp; omega
    · intro k hk
      have hkk : k ∈ keys := by rw [← hk0]; exact hk
      rw [absL_leaf_shape L0 _ keys feat hU0 hne0 k hkk, absL_leaf_shape L' _ keys feat hU' hne' k hkk,
        hsd0, hL'sd, hlen0, hL'm, hmb0]
      have e1 : b.set nd S' ++ feat k = (b.set nd x0 ++ feat k).set nd S' := by
        rw [set_append_left _ _ _ _ (by simpa using hnd), List.set_set]
      rw [e1, set_insertIdx_other _ n sd dim nd S' (by simp; omega) hne hnd1 hnd2]
      rw [at0_set_self _ dim S' (by
        rw [List.length_insertIdx_of_le_length (by simp; omega)]
        simp
        by_cases hgt : dim > sd
        · have := hnd1 hgt; omega
        · have := hnd2 hgt; omega)]

end TdVerif.C08
namespace TdVerif.C08

theorem allSome_col [Inhabited α] (Ls : List (Lazy α)) (i n : Nat) (hi : i < n)
    (hlen : ∀ L ∈ Ls, L.members.length = n) :
    allSome (Ls.map fun L => L.members[i]?) = some (catCol Ls i) := by
  rw [allSome_eq_some]
  simp only [catCol, List.map_map]
  apply List.map_congr_left
  intro L hL
  have : i < L.members.length := by rw [hlen L hL]; exact hi
  simp [List.getElem?_eq_getElem this]

/-- **`torch.cat([L1, …, Lk], dim)` (no `out=`) of any number of lazy stacks is the dense cat.** -/
theorem cat_refines_nary [Inhabited α] (L0 : Lazy α) (rest : List (Lazy α)) (keys : List String) (feat : String → Shape)
    (hU : ∀ L ∈ L0 :: rest, Uniform L L.mb keys feat ∧ L.members ≠ [])
    (dim : Int) (L' : Lazy α) (h : lazyCat (L0 :: rest) dim = some L') :
    ∃ d : Nat, (d : Int) = (if dim < 0 then (L0.batch.length : Int) + dim else dim) ∧ d < L0.batch.length ∧
      (∀ L ∈ L0 :: rest, L.sd = L0.sd) ∧
      (d = L0.sd → (∀ L ∈ L0 :: rest, L.mb = L0.mb) → absL L' ≈ TD.catList ((L0 :: rest).map absL) d) ∧
      (d ≠ L0.sd →
        (∀ L ∈ L0 :: rest, L.members.length = L0.members.length ∧
          L.mb = L0.mb.set (if d > L0.sd then d - 1 else d) (at0 L.mb (if d > L0.sd then d - 1 else d))) →
        absL L' ≈ TD.catList ((L0 :: rest).map absL) d) := by
  obtain ⟨hU0, hne0⟩ := hU L0 (by simp)
  have hB0 := absL_batch_eq L0 _ keys feat hU0 hne0
  have hr : L0.batch.length = L0.mb.length + 1 := by
    show (absL L0).batch.length = _
    rw [hB0, List.length_insertIdx_of_le_length hU0.hsd]
  unfold lazyCat at h
  dsimp only at h
  generalize hd : (if dim < 0 then (L0.batch.length : Int) + dim else dim) = d at h ⊢
  by_cases hrange : d ≥ (L0.batch.length : Int) ∨ d < 0
  · rw [if_pos hrange] at h; simp at h
  rw [if_neg hrange] at h
  by_cases hany : ((L0 :: rest).any fun L => L.sd != L0.sd) = true
  · rw [if_pos hany] at h; simp at h
  rw [if_neg hany] at h
  have hsds : ∀ L ∈ L0 :: rest, L.sd = L0.sd := by
    intro L hL
    by_cases hs : L.sd = L0.sd
    · exact hs
    · exact absurd (List.any_eq_true.mpr ⟨L, hL, by simpa using hs⟩) hany
  refine ⟨d.toNat, by omega, by omega, hsds, ?_, ?_⟩
  · intro hds hmb
    rw [if_pos hds] at h
    have hfil : ((L0 :: rest).filter fun L => L.members.length != 0) = L0 :: rest := by
      apply List.filter_eq_self.mpr
      intro L hL
      have := (hU L hL).2
      simpa using this
    rw [hfil] at h
    obtain ⟨rfl, _⟩ := lazyStack_some' _ _ _ h
    rw [hds]
    exact cat_same_nary L0.mb keys feat L0.sd rest L0
      (fun L hL => ⟨hmb L hL ▸ (hU L hL).1, (hU L hL).2, hsds L hL⟩)
  · intro hds hall
    rw [if_neg hds] at h
    obtain ⟨nd, hnd⟩ : ∃ nd, nd = (if d.toNat > L0.sd then d.toNat - 1 else d.toNat) := ⟨_, rfl⟩
    rw [← hnd] at h hall
    have hn : 0 < L0.members.length := List.length_pos_iff.mpr hne0
    have hcols : allSome ((List.range L0.members.length).map fun i =>
          (allSome ((L0 :: rest).map fun L => L.members[i]?)).map fun col => TD.catList col nd)
        = some ((List.range L0.members.length).map fun i => TD.catList (catCol (L0 :: rest) i) nd) := by
      rw [allSome_eq_some]
      simp only [List.map_map]
      apply List.map_congr_left
      intro i hi
      have hi' : i < L0.members.length := by simpa using hi
      have hc := allSome_col (L0 :: rest) i _ hi' (fun L hL => (hall L hL).1)
      rw [hc]; rfl
    rw [hcols] at h
    simp only [Option.bind_some] at h
    obtain ⟨rfl, _⟩ := lazyStack_some' _ _ _ h
    have hnd1 : d.toNat > L0.sd → nd + 1 = d.toNat := by intro hh; rw [hnd, if_pos hh]; omega
    have hnd2 : ¬ d.toNat > L0.sd → nd = d.toNat := by intro hh; rw [hnd, if_neg hh]
    have hndlt : nd < L0.mb.length := by
      by_cases hh : d.toNat > L0.sd
      · have := hnd1 hh; omega
      · have := hnd2 hh; have := hU0.hsd; omega
    exact (cat_other_nary L0.mb keys feat L0.members.length L0.sd d.toNat nd hn hU0.hsd hndlt hds hnd1 hnd2
      rest L0 (fun L hL => ⟨(hU L hL).1, (hall L hL).2, (hall L hL).1, hsds L hL⟩)).2

end TdVerif.C08
