/-
  C03 lemmas, part 9: TorchSpec never reads outside the tensor — every coordinate of the result maps to a coordinate of the source.
-/
import TdVerif.Lemmas.C03NamesAdv

namespace TdVerif.C03
open TorchSpec Td

/-- a positive-step slice only visits positions of the dim -/
theorem slice_in_bounds (a b c : Option Int) (n : Nat) (s e st : Int)
    (hc : 0 < c.getD 1) (hi : SliceSpec.indices a b c n = .ok (s, e, st)) :
    0 ≤ s ∧ 0 < st ∧ ∀ k : Nat, k < (SliceSpec.rangeLen s e st).toNat → s.toNat + st.toNat * k < n := by
  unfold SliceSpec.indices at hi
  have hst : ¬ c.getD 1 = 0 := by omega
  have hneg : ¬ c.getD 1 < 0 := by omega
  simp only [hst, hneg, if_false] at hi
  -- start and stop are clamped into [0, n]
  have key : 0 ≤ s ∧ s ≤ n ∧ e ≤ n ∧ st = c.getD 1 := by
    cases a <;> cases b <;> simp at hi <;> obtain ⟨h1, h2, h3⟩ := hi <;> subst h1 h2 h3 <;>
      refine ⟨?_, ?_, ?_, rfl⟩ <;> (try split) <;> (try split) <;> omega
  obtain ⟨hs0, hsn, hen, hstv⟩ := key
  have hstp : 0 < st := by omega
  refine ⟨hs0, hstp, ?_⟩
  intro k hk
  unfold SliceSpec.rangeLen at hk
  simp only [hstp, if_true] at hk
  split at hk
  · rename_i hlt
    -- k ≤ (e - s - 1) / st  →  k * st ≤ e - s - 1
    have hk' : (k : Int) ≤ (e - s - 1) / st := by omega
    have := (Int.le_ediv_iff_mul_le hstp).mp hk'
    have h1 : s.toNat = s := Int.toNat_of_nonneg hs0
    have h2 : (st.toNat : Int) = st := Int.toNat_of_nonneg (Int.le_of_lt hstp)
    have : (s.toNat : Int) + (st.toNat : Int) * (k : Int) < n := by
      rw [h1, h2, Int.mul_comm]; omega
    exact_mod_cast this
  · simp at hk

end TdVerif.C03

namespace TdVerif.C03
open TorchSpec Td

/-- coordinate `c` is inside shape `s`: same length, componentwise smaller -/
def InB (c : List Nat) (s : Shape) : Prop := Forall2 (fun x n => x < n) c s

theorem inB_nil : InB [] [] := Forall2.nil

theorem inB_cons {x n : Nat} {c : List Nat} {s : Shape} : InB (x :: c) (n :: s) ↔ x < n ∧ InB c s := by
  constructor
  · intro h; cases h with | cons h1 h2 => exact ⟨h1, h2⟩
  · intro ⟨h1, h2⟩; exact Forall2.cons h1 h2

theorem mem_coords_iff_inB (s : Shape) : ∀ c, c ∈ coords s ↔ InB c s := by
  induction s with
  | nil =>
    intro c
    constructor
    · intro h; simp [coords] at h; subst h; exact inB_nil
    · intro h; cases h; simp [coords]
  | cons n r ih =>
    intro c
    rw [mem_coords_cons]
    constructor
    · rintro ⟨i, hi, t, ht, rfl⟩; exact inB_cons.mpr ⟨hi, (ih t).mp ht⟩
    · intro h
      cases h with
      | cons h1 h2 => exact ⟨_, h1, _, (ih _).mpr h2, rfl⟩

theorem inB_append {a b : List Nat} {s t : Shape} (h1 : InB a s) (h2 : InB b t) : InB (a ++ b) (s ++ t) := by
  induction h1 with
  | nil => exact h2
  | cons hx _ ih => exact Forall2.cons hx ih

theorem inB_length {c : List Nat} {s : Shape} (h : InB c s) : c.length = s.length := h.length_eq

/-- split an in-bounds coordinate of `s ++ t` -/
theorem inB_split (s t : Shape) : ∀ (c : List Nat), InB c (s ++ t) → InB (c.take s.length) s ∧ InB (c.drop s.length) t := by
  induction s with
  | nil => intro c h; exact ⟨inB_nil, by simpa using h⟩
  | cons n r ih =>
    intro c h
    cases c with
    | nil => cases h
    | cons x c' =>
      obtain ⟨hx, hr⟩ := inB_cons.mp h
      obtain ⟨h1, h2⟩ := ih c' hr
      exact ⟨by simpa using inB_cons.mpr ⟨hx, h1⟩, by simpa using h2⟩

end TdVerif.C03

namespace TdVerif.C03
open TorchSpec Td

/-- source dims a plan addresses, in order -/
def dimsOf : List Piece → Shape
  | [] => []
  | .sel n _ :: r => n :: dimsOf r
  | .sl n _ _ _ :: r => n :: dimsOf r
  | .new :: r => dimsOf r
  | .adv ns _ _ :: r => ns ++ dimsOf r

/-- every piece stays inside its dim(s) -/
def PiecesOk : List Piece → Prop
  | [] => True
  | .sel n i :: r => i < n ∧ PiecesOk r
  | .sl n st sp len :: r => (∀ k, k < len → st + sp * k < n) ∧ PiecesOk r
  | .new :: r => PiecesOk r
  | .adv ns sh cols :: r =>
    (cols.length = ns.length ∧ ∀ b, InB (List.zipWith (fun n col => advValue n sh col b) ns cols) ns) ∧ PiecesOk r

theorem walkSrc_inB (b : List Nat) (B : Shape) (P : List Piece) : ∀ (s : List Nat), PiecesOk P →
    InB s (outDims B true P) → InB (walkSrc b P s) (dimsOf P) := by
  induction P with
  | nil => intro s _ _; exact inB_nil
  | cons p r ih =>
    intro s hok hs
    cases p with
    | sel n i =>
      obtain ⟨h1, h2⟩ := hok
      exact inB_cons.mpr ⟨h1, ih s h2 (by simpa [outDims] using hs)⟩
    | sl n st sp len =>
      obtain ⟨h1, h2⟩ := hok
      simp only [outDims] at hs
      cases s with
      | nil => cases hs
      | cons x s' =>
        obtain ⟨hx, hr⟩ := inB_cons.mp hs
        exact inB_cons.mpr ⟨by simpa using h1 x hx, by simpa using ih s' h2 hr⟩
    | new =>
      simp only [outDims] at hs
      cases s with
      | nil => cases hs
      | cons x s' =>
        obtain ⟨_, hr⟩ := inB_cons.mp hs
        simpa [walkSrc, dimsOf] using ih s' hok hr
    | adv ns sh cols =>
      obtain ⟨⟨_, h1⟩, h2⟩ := hok
      simp only [walkSrc, dimsOf]
      exact inB_append (h1 b) (ih s h2 (by simpa [outDims] using hs))

/-- with index arrays, the output dims are the other dims with the broadcast block inserted after the first `preLen` of them -/
theorem outDims_false_split (B : Shape) (P : List Piece) (h : hasAdv P = true) :
    outDims B false P = (outDims B true P).take (preLen P) ++ B ++ (outDims B true P).drop (preLen P) := by
  induction P with
  | nil => simp [hasAdv, advShapes] at h
  | cons p r ih =>
    cases p with
    | adv ns s cols => simp [outDims, preLen]
    | sel n i => simpa [outDims, preLen] using ih (by simpa [hasAdv, advShapes] using h)
    | sl n a b c =>
      have := ih (by simpa [hasAdv, advShapes] using h)
      simp only [outDims, preLen, this, Nat.add_comm 1, List.take_succ_cons, List.drop_succ_cons, List.cons_append]
    | new =>
      have := ih (by simpa [hasAdv, advShapes] using h)
      simp only [outDims, preLen, this, Nat.add_comm 1, List.take_succ_cons, List.drop_succ_cons, List.cons_append]

end TdVerif.C03

namespace TdVerif.C03
open TorchSpec Td

theorem srcCoord_inB (P : List Piece) (B : Shape) (c : List Nat) (hok : PiecesOk P)
    (hB : hasAdv P = false → B = []) (hc : InB c (outShape P B)) : InB (srcCoord P B c) (dimsOf P) := by
  cases hA : hasAdv P
  · have hB' := hB hA; subst hB'
    rw [srcCoord_noAdv P c hA]
    apply walkSrc_inB [] [] P c hok
    have : outShape P [] = outDims [] true P := by
      unfold outShape; split
      · exact outDims_false_of_noAdv [] P hA
      · simp
    rwa [this] at hc
  · unfold srcCoord
    unfold outShape at hc
    by_cases hcg : contiguous (kinds P) = true
    · simp only [hcg, if_true] at hc ⊢
      rw [outDims_false_split B P hA] at hc
      have hk : preLen P ≤ (outDims B true P).length := by rw [outDims_true_length]; exact preLen_le P
      have hlen1 : ((outDims B true P).take (preLen P)).length = preLen P := by simp [List.length_take]; omega
      rw [List.append_assoc] at hc
      obtain ⟨h1, h23⟩ := inB_split _ _ c hc
      obtain ⟨h2, h3⟩ := inB_split _ _ _ h23
      rw [hlen1] at h1 h23 h2 h3
      apply walkSrc_inB _ B P _ hok
      have : outDims B true P = (outDims B true P).take (preLen P) ++ (outDims B true P).drop (preLen P) :=
        (List.take_append_drop _ _).symm
      rw [this]
      refine inB_append h1 ?_
      simpa [List.drop_drop, Nat.add_comm] using h3
    · simp only [hcg, Bool.false_eq_true, if_false] at hc ⊢
      obtain ⟨_, h2⟩ := inB_split _ _ c hc
      exact walkSrc_inB _ B P _ hok h2

end TdVerif.C03

namespace TdVerif.C03
open TorchSpec Td

/-- every index value of every index array is inside its (non-empty) dim -/
def AdvBound : List Piece → Prop
  | [] => True
  | .adv ns _ cols :: r => InRangeCols ns cols ∧ AdvBound r
  | _ :: r => AdvBound r
where
  InRangeCols : List Nat → List (List Int) → Prop
    | n :: ns, col :: cols => (0 < n ∧ ∀ v ∈ col, -(n : Int) ≤ v ∧ v < n) ∧ InRangeCols ns cols
    | _, _ => True

theorem normIdx_lt (v : Int) (n : Nat) (hn : 0 < n) (h : -(n : Int) ≤ v ∧ v < n) : normIdx v n < n := by
  unfold normIdx
  split <;> omega

theorem zipWith_inB (sh : Shape) (b : List Nat) : ∀ (ns : List Nat) (cols : List (List Int)), cols.length = ns.length →
    AdvBound.InRangeCols ns cols → InB (List.zipWith (fun n col => advValue n sh col b) ns cols) ns := by
  intro ns
  induction ns with
  | nil => intro cols h _; cases cols <;> simp_all [inB_nil]
  | cons n r ih =>
    intro cols hl hr
    cases cols with
    | nil => simp at hl
    | cons col cs =>
      obtain ⟨⟨hn, hv⟩, hrest⟩ := hr
      refine inB_cons.mpr ⟨?_, ih cs (by simpa using hl) hrest⟩
      unfold advValue
      apply normIdx_lt _ _ hn
      by_cases hj : ravel sh (bcCoord sh b) < col.length
      · rw [List.getD_eq_getElem?_getD, List.getElem?_eq_getElem hj]
        exact hv _ (List.getElem_mem hj)
      · rw [List.getD_eq_getElem?_getD, List.getElem?_eq_none (by omega)]
        simp; omega

/-- what the first pass guarantees: the plan addresses exactly the dims of the tensor, ints and slices stay inside their dim -/
theorem walk_piecesOk (items : List Ix) : ∀ (e : Nat) (dims : Shape) (P : List Piece),
    walk e dims items = .ok P → dimsOf P = dims ∧ (AdvBound P → PiecesOk P) := by
  have fulls : ∀ dims : Shape, dimsOf (dims.map Piece.full) = dims ∧ PiecesOk (dims.map Piece.full) ∧
      ∀ Q, dimsOf (dims.map Piece.full ++ Q) = dims ++ dimsOf Q := by
    intro dims
    induction dims with
    | nil => exact ⟨rfl, trivial, fun _ => rfl⟩
    | cons n r ih =>
      refine ⟨by simp [dimsOf, Piece.full, ih.1], ⟨by intro k hk; simpa using hk, ih.2.1⟩, fun Q => by simp [dimsOf, Piece.full, ih.2.2 Q]⟩
  have fullsOk : ∀ (dims : Shape) (Q : List Piece), (AdvBound Q → PiecesOk Q) → AdvBound (dims.map Piece.full ++ Q) →
      PiecesOk (dims.map Piece.full ++ Q) := by
    intro dims
    induction dims with
    | nil => intro Q h hb; exact h hb
    | cons n r ih =>
      intro Q h hb
      exact ⟨by intro k hk; simpa using hk, ih Q h (by simpa [AdvBound, Piece.full] using hb)⟩
  intro e dims P
  induction items generalizing dims P with
  | nil =>
    intro h; simp [walk] at h; subst h
    exact ⟨(fulls dims).1, fun _ => (fulls dims).2.1⟩
  | cons x r ih =>
    intro h
    cases x with
    | none =>
      simp only [walk] at h
      obtain ⟨P', h1, rfl⟩ := map_ok h
      obtain ⟨d1, d2⟩ := ih dims P' h1
      exact ⟨by simpa [dimsOf] using d1, fun hb => d2 (by simpa [AdvBound] using hb)⟩
    | ell =>
      simp only [walk] at h
      obtain ⟨P', h1, rfl⟩ := map_ok h
      obtain ⟨d1, d2⟩ := ih (dims.drop e) P' h1
      refine ⟨by rw [(fulls (dims.take e)).2.2, d1, List.take_append_drop], fun hb => fullsOk _ _ d2 hb⟩
    | mask s d =>
      simp only [walk] at h
      split at h
      · rename_i hs
        obtain ⟨P', h1, rfl⟩ := map_ok h
        obtain ⟨d1, d2⟩ := ih (dims.drop s.length) P' h1
        refine ⟨?_, fun hb => ?_⟩
        · simp only [dimsOf, maskPiece, d1]
          conv => rhs; rw [← List.take_append_drop s.length dims, hs.2]
        · simp only [maskPiece, AdvBound] at hb
          refine ⟨⟨by simp, fun b => zipWith_inB _ b s _ (by simp) hb.1⟩, d2 hb.2⟩
      · cases h
    | int i =>
      cases dims with
      | nil => simp [walk] at h
      | cons n ds =>
        simp only [walk] at h
        obtain ⟨P', h1, rfl, hb⟩ := consSel_ok h
        obtain ⟨d1, d2⟩ := ih ds P' h1
        refine ⟨by simp [dimsOf, d1], fun hbd => ⟨normIdx_lt i n (by omega) hb, d2 (by simpa [AdvBound] using hbd)⟩⟩
    | slice a b c =>
      cases dims with
      | nil => simp [walk] at h
      | cons n ds =>
        simp only [walk] at h
        obtain ⟨P', s, e', st', h1, hc, hi, rfl⟩ := consSlice_ok h
        obtain ⟨d1, d2⟩ := ih ds P' h1
        obtain ⟨_, _, hk⟩ := slice_in_bounds a b c n s e' st' hc hi
        exact ⟨by simp [dimsOf, d1], fun hbd => ⟨hk, d2 (by simpa [AdvBound] using hbd)⟩⟩
    | list l =>
      cases dims with
      | nil => simp [walk] at h
      | cons n ds =>
        simp only [walk] at h
        obtain ⟨P', h1, rfl⟩ := consAdv_ok h
        obtain ⟨d1, d2⟩ := ih ds P' h1
        refine ⟨by simp [dimsOf, d1], fun hbd => ?_⟩
        simp only [AdvBound] at hbd
        exact ⟨⟨rfl, fun b => zipWith_inB _ b [n] [l] rfl hbd.1⟩, d2 hbd.2⟩
    | range a b c =>
      cases dims with
      | nil => simp [walk] at h
      | cons n ds =>
        simp only [walk] at h
        obtain ⟨P', h1, rfl⟩ := consAdv_ok h
        obtain ⟨d1, d2⟩ := ih ds P' h1
        refine ⟨by simp [dimsOf, d1], fun hbd => ?_⟩
        simp only [AdvBound] at hbd
        exact ⟨⟨rfl, fun b' => zipWith_inB _ b' [n] [rangeData a b c] rfl hbd.1⟩, d2 hbd.2⟩
    | tensor s d =>
      cases dims with
      | nil => cases s <;> simp [walk] at h
      | cons n ds =>
        cases s with
        | nil =>
          simp only [walk] at h
          obtain ⟨P', h1, rfl, hb⟩ := consSel_ok h
          obtain ⟨d1, d2⟩ := ih ds P' h1
          refine ⟨by simp [dimsOf, d1], fun hbd => ⟨normIdx_lt _ n (by omega) hb, d2 (by simpa [AdvBound] using hbd)⟩⟩
        | cons m s' =>
          simp only [walk] at h
          obtain ⟨P', h1, rfl⟩ := consAdv_ok h
          obtain ⟨d1, d2⟩ := ih ds P' h1
          refine ⟨by simp [dimsOf, d1], fun hbd => ?_⟩
          simp only [AdvBound] at hbd
          exact ⟨⟨rfl, fun b' => zipWith_inB _ b' [n] [d] rfl hbd.1⟩, d2 hbd.2⟩

end TdVerif.C03

namespace TdVerif.C03
open TorchSpec Td

theorem numel_pos_iff (s : Shape) : numel s > 0 ↔ 0 ∉ s := by
  induction s with
  | nil => simp [numel]
  | cons n r ih =>
    simp only [numel, List.mem_cons, not_or]
    constructor
    · intro h
      have h1 : 0 < n := Nat.pos_of_mul_pos_right h
      have h2 : 0 < numel r := Nat.pos_of_mul_pos_left h
      exact ⟨by omega, ih.mp h2⟩
    · intro ⟨h1, h2⟩
      exact Nat.mul_pos (by omega) (ih.mpr h2)

theorem inRangeCols_of (ns : List Nat) : ∀ (cols : List (List Int)), 0 ∉ ns →
    (List.zipWith (fun (n : Nat) (col : List Int) => col.all (fun v => decide (-(n : Int) ≤ v ∧ v < n))) ns cols).all id = true →
    AdvBound.InRangeCols ns cols := by
  induction ns with
  | nil => intro cols _ _; cases cols <;> trivial
  | cons n r ih =>
    intro cols h0 h
    cases cols with
    | nil => trivial
    | cons col cs =>
      simp only [List.mem_cons, not_or] at h0
      simp only [List.zipWith_cons_cons, List.all_cons, id, Bool.and_eq_true, List.all_eq_true, decide_eq_true_eq] at h
      exact ⟨⟨by omega, h.1⟩, ih cs h0.2 (by simpa [List.all_eq_true] using h.2)⟩

theorem advBound_of (P : List Piece) (h1 : advInRange P = true) (h2 : hasZeroIndexedDim P = false) : AdvBound P := by
  induction P with
  | nil => trivial
  | cons p r ih =>
    cases p with
    | adv ns sh cols =>
      simp only [advInRange, Bool.and_eq_true] at h1
      simp only [hasZeroIndexedDim, Bool.or_eq_false_iff] at h2
      exact ⟨inRangeCols_of ns cols (by simpa using h2.1) h1.1, ih h1.2 h2.2⟩
    | sel n i => exact ih (by simpa [advInRange] using h1) (by simpa [hasZeroIndexedDim] using h2)
    | sl n a b c => exact ih (by simpa [advInRange] using h1) (by simpa [hasZeroIndexedDim] using h2)
    | new => exact ih (by simpa [advInRange] using h1) (by simpa [hasZeroIndexedDim] using h2)

/-- the broadcast dims are dims of the result -/
theorem mem_outShape_of_mem_B (P : List Piece) (B : Shape) (h : hasAdv P = true) (x : Nat) (hx : x ∈ B) : x ∈ outShape P B := by
  unfold outShape
  split
  · rw [outDims_false_split B P h]; simp [hx]
  · simp [hx]

/-- **TorchSpec never reads outside the tensor**: for an accepted index, every coordinate of the result maps to a coordinate
    of the source -/
theorem index_src_inB (dims : Shape) (items : List Ix) (R : IndexResult) (h : index dims items = .ok R)
    (c : List Nat) (hc : c ∈ coords R.shape) : R.src c ∈ coords dims := by
  obtain ⟨-, P, hw, hf⟩ := index_inv h
  obtain ⟨B, hB, hshape, hsrc, -⟩ := finalize_ok hf
  obtain ⟨hd, hok⟩ := walk_piecesOk items _ dims P hw
  have hchk : ¬ (hasZeroIndexedDim P && !B.contains 0) = true ∧ ¬ (decide (numel (outShape P B) > 0) && !advInRange P) = true := by
    unfold finalize at hf
    simp only [hB] at hf
    split at hf
    · cases hf
    · split at hf
      · cases hf
      · constructor <;> assumption
  -- the result is non-empty
  have hpos : numel (outShape P B) > 0 := by
    rw [numel_pos_iff]
    intro h0
    rw [hshape] at hc
    have hin := (mem_coords_iff_inB _ c).mp hc
    -- a coordinate cannot be below 0
    have : ∀ (s : Shape) (c : List Nat), InB c s → 0 ∉ s := by
      intro s
      induction s with
      | nil => intro c _; simp
      | cons n r ih =>
        intro c hc
        cases c with
        | nil => cases hc
        | cons x c' =>
          obtain ⟨hx, hr⟩ := inB_cons.mp hc
          simp only [List.mem_cons, not_or]
          exact ⟨by omega, ih c' hr⟩
    exact this _ _ hin h0
  have hrange : advInRange P = true := by
    have := hchk.2
    simp only [Bool.and_eq_true, decide_eq_true_eq, not_and, Bool.not_eq_true', Bool.not_eq_false] at this
    cases h : advInRange P
    · have := this hpos; simp [h] at this
    · rfl
  have hzero : hasZeroIndexedDim P = false := by
    cases hz : hasZeroIndexedDim P
    · rfl
    · exfalso
      have hnc : B.contains 0 = true := by
        cases hb : B.contains 0
        · exfalso; apply hchk.1; rw [hz, hb]; rfl
        · rfl
      have hadv : hasAdv P = true := by
        cases ha : hasAdv P
        · -- no index array, so no indexed dim at all
          have : ∀ P : List Piece, hasAdv P = false → hasZeroIndexedDim P = false := by
            intro P; induction P with
            | nil => intro _; rfl
            | cons p r ih => cases p <;> simp_all [hasAdv, advShapes, hasZeroIndexedDim]
          rw [this P ha] at hz; cases hz
        · rfl
      have h0B : 0 ∈ B := by simpa using hnc
      exact (numel_pos_iff _).mp hpos (mem_outShape_of_mem_B P B hadv 0 h0B)
  have hbound := advBound_of P hrange hzero
  rw [hsrc, ← hd]
  apply (mem_coords_iff_inB _ _).mpr
  apply srcCoord_inB P B c (hok hbound)
  · intro hA
    have : advShapes P = [] := by simpa [hasAdv] using hA
    rw [this] at hB; simpa [broadcastAll] using hB.symm
  · rw [← hshape]; exact (mem_coords_iff_inB _ c).mp hc

end TdVerif.C03

namespace TdVerif.C03
open TorchSpec Td

/-- write-back, frame: a position none of whose window cells was written keeps its content -/
theorem writeThrough_frame (R : IndexResult) (w : List Nat → Option (List Nat)) (p : List Nat)
    (h : ∀ q ∈ coords R.shape, R.src q = p → w q = none) : writeThrough R w p = none := by
  unfold writeThrough
  cases hf : (coords R.shape).reverse.find? (fun q => R.src q == p) with
  | none => rfl
  | some q =>
    have hq := List.mem_of_find?_eq_some hf
    have hs := List.find?_some hf
    simp only [Option.bind_some]
    exact h q (by simpa using hq) (by simpa using hs)

/-- write-back, hit: when the window does not repeat an element, the source position of a window cell receives that cell -/
theorem writeThrough_hit (R : IndexResult) (w : List Nat → Option (List Nat)) (q : List Nat)
    (hinj : ∀ q1 ∈ coords R.shape, ∀ q2 ∈ coords R.shape, R.src q1 = R.src q2 → q1 = q2)
    (hq : q ∈ coords R.shape) : writeThrough R w (R.src q) = w q := by
  unfold writeThrough
  cases hf : (coords R.shape).reverse.find? (fun q' => R.src q' == R.src q) with
  | none =>
    rw [List.find?_eq_none] at hf
    exact absurd (by simp) (hf q (by simpa using hq))
  | some q' =>
    have hq' := List.mem_of_find?_eq_some hf
    have hs := List.find?_some hf
    have : q' = q := hinj q' (by simpa using hq') q hq (by simpa using hs)
    subst this; rfl

theorem mapM_ok_inv {α β : Type} {f : α → Except Err β} : ∀ (l : List α) (bs : List β),
    l.mapM f = .ok bs → Forall2 (fun a b => f a = .ok b) l bs := by
  intro l
  induction l with
  | nil => intro bs h; simp [pure, Except.pure] at h; subst h; exact Forall2.nil
  | cons x r ih =>
    intro bs h
    simp only [List.mapM_cons, bind, Except.bind] at h
    cases hx : f x with
    | error e => simp [hx] at h
    | ok b =>
      simp only [hx] at h
      cases hr : r.mapM f with
      | error e => simp [hr] at h
      | ok bs' =>
        simp only [hr, pure, Except.pure, Except.ok.injEq] at h
        subst h
        exact Forall2.cons hx (ih bs' hr)

theorem Forall2.imp {α β : Type} {R S : α → β → Prop} {l₁ : List α} {l₂ : List β}
    (h : Forall2 R l₁ l₂) (hi : ∀ a b, R a b → S a b) : Forall2 S l₁ l₂ := by
  induction h with
  | nil => exact Forall2.nil
  | cons hab _ ih => exact Forall2.cons (hi _ _ hab) ih


end TdVerif.C03
