/-
  C15 — lemmas about `fromTensordict` and association lists used by Props/C15.lean.
-/
import TdVerif.Model.C15Tensorclass

namespace TdVerif.C15

variable {V : Type}

theorem mem_keys_iff {α : Type} {l : List (String × α)} {k : String} :
    k ∈ l.map Prod.fst ↔ ∃ v, (k, v) ∈ l := by
  simp [List.mem_map]

/-- when `_from_tensordict` accepts: no clash with a non-None value, and every key is a declared field -/
def Matching (fields tdKeys : List String) (nt : NT V) : Prop :=
  (∀ kv ∈ nt, kv.1 ∈ tdKeys → kv.2 = none) ∧ (∀ k ∈ tdKeys, k ∈ fields) ∧ (∀ k ∈ nt.keys, k ∈ fields)

theorem fromTensordict_ok_of_matching {fields tdKeys : List String} {nt : NT V}
    (h : Matching fields tdKeys nt) :
    fromTensordict fields tdKeys nt =
      .ok (nt.filter (fun kv => !tdKeys.contains kv.1)
          ++ (fields.filter (fun f => !tdKeys.contains f && !nt.keys.contains f)).map (fun f => (f, none))) := by
  obtain ⟨h1, h2, h3⟩ := h
  unfold fromTensordict
  have c1 : (nt.any (fun kv => tdKeys.contains kv.1 && kv.2.isSome)) = false := by
    rw [List.any_eq_false]
    intro kv hkv
    simp only [Bool.and_eq_true, List.contains_iff_mem, not_and, Bool.not_eq_true, Option.isSome_eq_false_iff, Option.isNone_iff_eq_none]
    intro hk
    exact h1 kv hkv hk
  have c2 : ((tdKeys ++ nt.keys).any (fun k => !fields.contains k)) = false := by
    rw [List.any_eq_false]
    intro k hk
    simp only [List.mem_append] at hk
    rcases hk with hk | hk
    · simpa using h2 k hk
    · simpa using h3 k hk
  simp only [c1, c2, Bool.false_eq_true, ↓reduceIte]

theorem fromTensordict_error_key {fields tdKeys : List String} {nt : NT V}
    (h : ∃ kv ∈ nt, kv.1 ∈ tdKeys ∧ kv.2 ≠ none) : fromTensordict fields tdKeys nt = .error .key := by
  obtain ⟨kv, hkv, hk, hv⟩ := h
  unfold fromTensordict
  have c1 : (nt.any (fun kv => tdKeys.contains kv.1 && kv.2.isSome)) = true := by
    rw [List.any_eq_true]
    refine ⟨kv, hkv, ?_⟩
    simp only [Bool.and_eq_true, List.contains_iff_mem]
    exact ⟨hk, by cases h' : kv.2 <;> simp_all⟩
  simp only [c1, ↓reduceIte]

theorem fromTensordict_error_value {fields tdKeys : List String} {nt : NT V}
    (h1 : ∀ kv ∈ nt, kv.1 ∈ tdKeys → kv.2 = none)
    (h : ∃ k, (k ∈ tdKeys ∨ k ∈ nt.keys) ∧ k ∉ fields) : fromTensordict fields tdKeys nt = .error .value := by
  obtain ⟨k, hk, hf⟩ := h
  unfold fromTensordict
  have c1 : (nt.any (fun kv => tdKeys.contains kv.1 && kv.2.isSome)) = false := by
    rw [List.any_eq_false]
    intro kv hkv
    simp only [Bool.and_eq_true, List.contains_iff_mem, not_and, Bool.not_eq_true, Option.isSome_eq_false_iff, Option.isNone_iff_eq_none]
    intro hk
    exact h1 kv hkv hk
  have c2 : ((tdKeys ++ nt.keys).any (fun k => !fields.contains k)) = true := by
    rw [List.any_eq_true]
    refine ⟨k, by simpa [List.mem_append] using hk, ?_⟩
    simpa using hf
  simp only [c1, c2, Bool.false_eq_true, ↓reduceIte]

/-- `_from_tensordict` succeeds exactly on matching structures -/
theorem fromTensordict_ok_iff {fields tdKeys : List String} {nt : NT V} :
    (∃ nt', fromTensordict fields tdKeys nt = .ok nt') ↔ Matching fields tdKeys nt := by
  constructor
  · rintro ⟨nt', h⟩
    by_cases c : ∃ kv ∈ nt, kv.1 ∈ tdKeys ∧ kv.2 ≠ none
    · rw [fromTensordict_error_key c] at h; cases h
    · have h1 : ∀ kv ∈ nt, kv.1 ∈ tdKeys → kv.2 = none := by
        intro kv hkv hk
        by_cases hv : kv.2 = none
        · exact hv
        · exact absurd ⟨kv, hkv, hk, hv⟩ c
      by_cases c2 : ∃ k, (k ∈ tdKeys ∨ k ∈ nt.keys) ∧ k ∉ fields
      · rw [fromTensordict_error_value h1 c2] at h; cases h
      · refine ⟨h1, ?_, ?_⟩
        · intro k hk
          by_cases hf : k ∈ fields
          · exact hf
          · exact absurd ⟨k, Or.inl hk, hf⟩ c2
        · intro k hk
          by_cases hf : k ∈ fields
          · exact hf
          · exact absurd ⟨k, Or.inr hk, hf⟩ c2
  · intro h
    exact ⟨_, fromTensordict_ok_of_matching h⟩

/-- what a successful `_from_tensordict` returns: the placeholders cover exactly the declared
fields that are not tensor keys; every non-tensor entry that does not clash is kept; nothing but
`None` placeholders is invented. -/
theorem fromTensordict_spec {fields tdKeys : List String} {nt nt' : NT V}
    (h : fromTensordict fields tdKeys nt = .ok nt') :
    (∀ k, k ∈ nt'.keys ↔ (k ∈ fields ∧ k ∉ tdKeys))
    ∧ (∀ kv ∈ nt, kv.1 ∉ tdKeys → kv ∈ nt')
    ∧ (∀ kv ∈ nt', kv ∈ nt ∨ kv.2 = none) := by
  have hm : Matching fields tdKeys nt := fromTensordict_ok_iff.mp ⟨nt', h⟩
  rw [fromTensordict_ok_of_matching hm] at h
  injection h with h
  subst h
  obtain ⟨_, _, h3⟩ := hm
  refine ⟨?_, ?_, ?_⟩
  · intro k
    simp only [NT.keys, List.map_append, List.mem_append, List.mem_map, List.mem_filter,
      Bool.and_eq_true]
    constructor
    · rintro (⟨kv, ⟨hkv, hnk⟩, rfl⟩ | ⟨kv, ⟨f, ⟨hf, hnk, _⟩, rfl⟩, rfl⟩)
      · exact ⟨h3 kv.1 (List.mem_map.mpr ⟨kv, hkv, rfl⟩), by simpa using hnk⟩
      · exact ⟨hf, by simpa using hnk⟩
    · rintro ⟨hf, hnk⟩
      by_cases hin : k ∈ nt.keys
      · obtain ⟨kv, hkv, rfl⟩ := List.mem_map.mp hin
        exact Or.inl ⟨kv, ⟨hkv, by simpa using hnk⟩, rfl⟩
      · exact Or.inr ⟨(k, none), ⟨k, ⟨hf, by simpa using hnk, by simpa [NT.keys] using hin⟩, rfl⟩, rfl⟩
  · intro kv hkv hnk
    simp only [List.mem_append, List.mem_filter]
    exact Or.inl ⟨hkv, by simpa using hnk⟩
  · intro kv hkv
    simp only [List.mem_append, List.mem_filter, List.mem_map] at hkv
    rcases hkv with ⟨hkv, _⟩ | ⟨f, _, rfl⟩
    · exact Or.inl hkv
    · exact Or.inr rfl

/-! association lists -/

theorem lookup_cons {α : Type} (k k0 : String) (v0 : α) (r : List (String × α)) :
    ((k0, v0) :: r).lookup k = if k = k0 then some v0 else r.lookup k := by
  by_cases h : k = k0
  · subst h; simp [List.lookup]
  · have : (k == k0) = false := by simpa using h
    simp [List.lookup, this, h]

theorem lookup_assocSet {α : Type} (k k' : String) (v : α) :
    ∀ l : List (String × α), (assocSet k v l).lookup k' = if k' = k then some v else l.lookup k'
  | [] => by simp [assocSet, lookup_cons]
  | (k0, v0) :: r => by
    unfold assocSet
    by_cases h0 : k0 = k
    · subst h0
      simp only [if_true, lookup_cons]
      by_cases h : k' = k0 <;> simp [h]
    · simp only [h0, if_false, lookup_cons, lookup_assocSet k k' v r]
      by_cases h : k' = k
      · subst h
        have : k' ≠ k0 := fun h' => h0 h'.symm
        simp [this]
      · simp [h]

theorem lookup_assocDel {α : Type} (k k' : String) :
    ∀ l : List (String × α), (assocDel k l).lookup k' = if k' = k then none else l.lookup k'
  | [] => by simp [assocDel]
  | (k0, v0) :: r => by
    have ih := lookup_assocDel k k' r
    unfold assocDel at ih ⊢
    by_cases h0 : k0 = k
    · subst h0
      have hb : ((k0, v0).1 != k0) = false := by simp
      simp only [List.filter, hb, ih, lookup_cons]
      by_cases h : k' = k0 <;> simp [h]
    · have hne : ((k0, v0).1 != k) = true := by simpa using h0
      simp only [List.filter, hne, lookup_cons, ih]
      by_cases h : k' = k
      · subst h
        have : k' ≠ k0 := fun h' => h0 h'.symm
        simp [this]
      · simp [h]

theorem keys_assocSet {α : Type} (k : String) (v : α) :
    ∀ l : List (String × α), ∀ x, x ∈ (assocSet k v l).map Prod.fst ↔ x = k ∨ x ∈ l.map Prod.fst
  | [], x => by simp [assocSet]
  | (k0, v0) :: r, x => by
    unfold assocSet
    by_cases h0 : k0 = k
    · subst h0; simp
    · simp only [h0, if_false, List.map_cons, List.mem_cons, keys_assocSet k v r x]
      constructor
      · rintro (h | h | h) <;> simp_all
      · rintro (h | h | h) <;> simp_all

theorem keys_assocDel {α : Type} (k : String) (l : List (String × α)) (x : String) :
    x ∈ (assocDel k l).map Prod.fst ↔ x ≠ k ∧ x ∈ l.map Prod.fst := by
  simp only [assocDel, List.mem_map, List.mem_filter, bne_iff_ne, ne_eq]
  constructor
  · rintro ⟨kv, ⟨hkv, hne⟩, rfl⟩
    exact ⟨hne, kv, hkv, rfl⟩
  · rintro ⟨hne, kv, hkv, rfl⟩
    exact ⟨kv, ⟨hkv, hne⟩, rfl⟩

theorem lookup_eq_none_iff_not_mem_keys {α : Type} (k : String) :
    ∀ l : List (String × α), l.lookup k = none ↔ k ∉ l.map Prod.fst
  | [] => by simp
  | (k0, v0) :: r => by
    rw [lookup_cons]
    by_cases h : k = k0
    · simp [h]
    · simp [h, lookup_eq_none_iff_not_mem_keys k r]

/-- `set_non_tensor` of every `_non_tensordict` entry on top of the tensor entries -/
theorem lookup_foldl_assocSet {α β : Type} (g : β → α) (k : String) :
    ∀ (nt : List (String × β)) (es : List (String × α)), (nt.map Prod.fst).Nodup →
      (nt.foldl (fun es kv => assocSet kv.1 (g kv.2) es) es).lookup k
        = match nt.lookup k with
          | some v => some (g v)
          | none => es.lookup k
  | [], es, _ => by simp
  | (k0, v0) :: r, es, hnd => by
    simp only [List.map_cons, List.nodup_cons] at hnd
    simp only [List.foldl_cons]
    rw [lookup_foldl_assocSet g k r _ hnd.2, lookup_cons]
    by_cases h : k = k0
    · subst h
      have : r.lookup k = none := (lookup_eq_none_iff_not_mem_keys k r).mpr hnd.1
      simp [this, lookup_assocSet]
    · simp only [h, if_false, lookup_assocSet]

section deliver
variable {TD V X : Type} (fields : List String) (keys : TD → List String)

theorem deliverAll_spec (self : TC TD V) : ∀ (l : List (Item TD X)) (os : List (OutItem TD V X)),
    deliverAll fields keys self l = .ok os →
      os.length = l.length ∧ ∀ p ∈ l.zip os, deliver fields keys self p.1 = .ok p.2
  | [], os, h => by
    simp only [deliverAll] at h; injection h with h; subst h; simp
  | i :: r, os, h => by
    simp only [deliverAll] at h
    cases hd : deliver fields keys self i with
    | error e => simp [hd] at h
    | ok o =>
      simp only [hd] at h
      cases hr : deliverAll fields keys self r with
      | error e => simp [hr, Except.map] at h
      | ok os' =>
        simp only [hr, Except.map] at h
        injection h with h; subst h
        have ih := deliverAll_spec self r os' hr
        refine ⟨by simp [ih.1], ?_⟩
        intro p hp
        simp only [List.zip_cons_cons, List.mem_cons] at hp
        rcases hp with rfl | hp
        · exact hd
        · exact ih.2 p hp

end deliver

end TdVerif.C15
