/-
  C08 — `lazy[index] = tensor_or_number` writes the broadcast value through to the members.
-/
import TdVerif.Model.C08SetTensor
import TdVerif.Lemmas.C08UpdateAt
import TdVerif.Lemmas.C08Set
import TdVerif.Lemmas.C08Shape2
namespace TdVerif.C08

theorem bcastValue_shape (t : T α) (target : Shape) (x : T α) (h : bcastValue t target = some x) :
    x.shape = target := by
  unfold bcastValue at h
  simp only at h
  split at h
  · rename_i hs
    simp only [Option.some.injEq] at h
    rw [← h]; exact hs
  · split at h
    · split at h
      · simp only [Option.some.injEq] at h
        rw [← h]
        simp [T.expandTo]
      · simp at h
    · simp at h

theorem find_map_pair {β} (keys : List String) (g : String → β) (k : String) (hk : k ∈ keys) :
    ((keys.map fun k' => (k', g k')).find? (·.1 == k)).map (·.2) = some (g k) := by
  induction keys with
  | nil => simp at hk
  | cons a r ih =>
    simp only [List.map_cons, List.find?_cons]
    by_cases ha : a = k
    · subst ha; simp
    · have : (a == k) = false := by simpa using ha
      simp only [this]
      exact ih (by simpa [Ne.symm ha] using hk)

/-- **`lazy[index] = tensor_or_number`** (the path repaired by "lazy[idx] = tensor did not
broadcast"): every entry receives the value broadcast to its indexed shape; the dense stack of the
members afterwards is the dense stack before with that broadcast value written at `index` —
the statement of `setitem_write_through` for the value `__setitem__` builds. -/
theorem setitem_tensor_refines [Inhabited α] (L : Lazy α) (b : Shape) (keys : List String)
    (feat : String → Shape) (hU : Uniform L b keys feat) (hne0 : L.members ≠ []) (ix0 ix : List Ix)
    (hix : convertEllipsis ix0 L.batch.length = some ix)
    (hp : Plain L.sd ix) (hne : ∀ it ∈ ix, it ≠ Ix.ell) (hadv : AtMostOneAdv ix)
    (hnd : NoDupTargets (splitRec L.sd ix).out)
    (hdist : ∀ t, (splitRec L.sd ix).item = some (.tens t) → ∃ k, t.shape = [k] ∧
      ∀ j j', j < k → j' < k →
        normInt (t.get [j]) L.members.length = normInt (t.get [j']) L.members.length → j = j')
    (t : T α) (L' : Lazy α) (h : lazySetTensor L keys feat ix0 t = some L') :
    ∃ ibs, idxShape ix (absL L).batch = some ibs ∧
      L'.sd = L.sd ∧ Uniform L' b keys feat ∧ L'.members.length = L.members.length ∧
      ∀ k ∈ keys, ∃ x, bcastValue t (ibs ++ feat k) = some x ∧ x.shape = ibs ++ feat k ∧
        IsSetT ix ((absL L).leaf k) x ((absL L').leaf k) := by
  unfold lazySetTensor at h
  rw [hix] at h
  simp only [Option.bind_some] at h
  cases hibs : idxShape ix L.batch with
  | none => rw [hibs] at h; simp at h
  | some ibs =>
    rw [hibs] at h
    simp only [Option.bind_some] at h
    obtain ⟨kvs, hkvs, hset⟩ := Option.bind_eq_some_iff.mp h
    obtain ⟨hl, hget⟩ := allSome_map_getElem keys _ kvs hkvs
    obtain ⟨g, hg⟩ : ∃ g : String → T α, ∀ k ∈ keys, bcastValue t (ibs ++ feat k) = some (g k) := by
      refine ⟨fun k => (bcastValue t (ibs ++ feat k)).getD default, ?_⟩
      intro k hk
      obtain ⟨j, hj, rfl⟩ := List.getElem_of_mem hk
      have := hget j (by omega) hj
      simp only [Option.map_eq_some_iff] at this
      obtain ⟨x, hx, _⟩ := this
      simp [hx]
    have hkvs' : kvs = keys.map fun k => (k, g k) := by
      apply List.ext_getElem
      · simp [hl]
      · intro j h1 h2
        simp only [List.length_map] at h2
        have := hget j h1 h2
        rw [hg _ (List.getElem_mem _)] at this
        simp only [Option.map_some, Option.some.injEq] at this
        simp only [List.getElem_map]
        exact this.symm
    have hnb := plain_noBool L ix hp hne hadv
    have hcore : lazySetCore L ix (tensorValueTD ibs keys kvs t) = some L' := by
      unfold lazySetCoreM at hset
      cases hst : splitIndex L ix with
      | none => rw [hst] at hset; simp at hset
      | some st =>
        rw [hst] at hset
        simp only [hnb st hst, Bool.false_eq_true, if_false] at hset
        exact hset
    have hleaf : ∀ k ∈ keys, (tensorValueTD ibs keys kvs t).leaf k = g k := by
      intro k hk
      show ((kvs.find? (·.1 == k)).map (·.2)).getD t = g k
      rw [hkvs', find_map_pair keys g k hk]; rfl
    have hB : (absL L).batch = L.batch := rfl
    obtain ⟨h1, h2, h3, h4⟩ := setitem_refines_core L b keys feat hU hne0 ix hp hne hadv hnd hdist
      (tensorValueTD ibs keys kvs t) rfl
      (by
        intro k hk
        rw [hleaf k hk]
        exact bcastValue_shape t _ _ (hg k hk)) ibs (by rw [hB]; exact hibs) L' hcore
    refine ⟨ibs, by rw [hB]; exact hibs, h1, h2, h3, ?_⟩
    intro k hk
    refine ⟨g k, hg k hk, bcastValue_shape t _ _ (hg k hk), ?_⟩
    have := h4 k hk
    rw [hleaf k hk] at this
    exact this

end TdVerif.C08
