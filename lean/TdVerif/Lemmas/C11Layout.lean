/-
  Helper lemmas for C11: layout arithmetic, decode∘encode, commuting writer tasks.
-/
import TdVerif.Model.C11Consolidate

namespace TdVerif.C11


theorem padOf_eq (n : Nat) : padOf n = if n % 16 = 0 then 0 else 16 - n % 16 := by
  unfold padOf
  by_cases h : n % 16 = 0 <;> simp [h]

theorem padOf_lt (n : Nat) : padOf n < 16 := by
  rw [padOf_eq]; split <;> omega

theorem padOf_aligned (n : Nat) : (n + padOf n) % 16 = 0 := by
  rw [padOf_eq]; split <;> omega

theorem padded_length (b : List Nat) : (padded b).length = b.length + padOf b.length := by
  simp [padded]

/-- `layout_contiguous`, recursive form -/
def Chained (start : Nat) : List Nat → List Slot → Prop
  | [], [] => True
  | n :: ns, s :: ss => s.start = start ∧ s.stop = start + n + padOf n ∧ s.pad = padOf n ∧ Chained s.stop ns ss
  | _, _ => False

theorem layoutFrom_chained (start : Nat) (ns : List Nat) : Chained start ns (layoutFrom start ns) := by
  induction ns generalizing start with
  | nil => simp [layoutFrom, layoutFromWith, Chained]
  | cons n ns ih =>
    simp only [layoutFrom, layoutFromWith, Chained]
    refine ⟨trivial, by omega, trivial, ?_⟩
    have := ih (start + (n + padOf n))
    simpa [layoutFrom] using this

theorem layoutFrom_aligned (start : Nat) (hs : start % 16 = 0) (ns : List Nat) :
    ∀ s ∈ layoutFrom start ns, s.start % 16 = 0 ∧ (s.stop - s.start) % 16 = 0 ∧ s.start ≤ s.stop := by
  induction ns generalizing start with
  | nil => intro s hs'; simp [layoutFrom, layoutFromWith] at hs'
  | cons n ns ih =>
    intro s hmem
    simp only [layoutFrom, layoutFromWith, List.mem_cons] at hmem
    have ha := padOf_aligned n
    rcases hmem with h | h
    · subst h
      simp only
      refine ⟨hs, ?_, by omega⟩
      have : start + (n + padOf n) - start = n + padOf n := by omega
      rw [this]; exact ha
    · exact ih (start + (n + padOf n)) (by omega) s (by simpa [layoutFrom] using h)

theorem layoutFrom_length (start : Nat) (ns : List Nat) : (layoutFrom start ns).length = ns.length := by
  induction ns generalizing start with
  | nil => rfl
  | cons n ns ih => simp [layoutFrom, layoutFromWith] at ih ⊢; exact ih _


/-- a leaf whose dtype torch can view out of a 16-byte aligned slice -/
def Leaf.Viewable (l : Leaf) : Prop := 0 < l.lm.itemsize ∧ l.lm.itemsize ∣ 16

theorem mod_of_dvd16 {k x : Nat} (hk : k ∣ 16) (hx : x % 16 = 0) : x % k = 0 :=
  Nat.mod_eq_zero_of_dvd (Nat.dvd_trans hk (Nat.dvd_of_mod_eq_zero hx))

theorem decodeLeaf_padded (pre post : List Nat) (l : Leaf) (hwf : l.WF) (hv : l.Viewable)
    (hpre : pre.length % 16 = 0) :
    decodeLeaf (pre ++ padded l.bytes ++ post) l.lm
      ⟨pre.length, pre.length + (l.bytes.length + padOf l.bytes.length), padOf l.bytes.length⟩ = some l := by
  unfold decodeLeaf
  simp only
  have hslice : ((pre ++ padded l.bytes ++ post).drop pre.length).take
      (pre.length + (l.bytes.length + padOf l.bytes.length) - pre.length) = padded l.bytes := by
    rw [List.append_assoc, List.drop_left]
    have : pre.length + (l.bytes.length + padOf l.bytes.length) - pre.length = (padded l.bytes).length := by
      simp [padded]
    rw [this, List.take_left]
  rw [hslice]
  have h0 : ¬ l.lm.itemsize = 0 := by have := hv.1; omega
  have hlen : (padded l.bytes).length = l.bytes.length + padOf l.bytes.length := by simp [padded]
  have h1 : (padded l.bytes).length % l.lm.itemsize = 0 := by
    rw [hlen]; exact mod_of_dvd16 hv.2 (padOf_aligned _)
  have h2 : pre.length % l.lm.itemsize = 0 := mod_of_dvd16 hv.2 hpre
  simp only [h0, if_false, h1, h2, ne_eq, not_true_eq_false, or_self]
  have hb : l.bytes.length = l.lm.nbytes := hwf
  by_cases hp : padOf l.bytes.length = 0
  · simp only [hp, not_true_eq_false, if_false]
    have : padded l.bytes = l.bytes := by simp [padded, hp]
    rw [this]
    simp [hb]
  · simp only [hp, not_false_eq_true, if_true]
    have : (padded l.bytes).take l.lm.nbytes = l.bytes := by
      rw [← hb]; simp [padded]
    rw [this]
    simp [hb]

theorem decodeAll_encode : ∀ (ls : List Leaf) (pre : List Nat),
    (∀ l ∈ ls, l.WF ∧ l.Viewable) → pre.length % 16 = 0 →
    decodeAll (pre ++ encodeCat (ls.map (·.bytes))) (ls.map (·.lm))
      (layoutFrom pre.length (ls.map (·.bytes.length))) = some ls := by
  intro ls
  induction ls with
  | nil => intro pre _ _; simp [decodeAll, layoutFrom, layoutFromWith]
  | cons l ls ih =>
    intro pre h hpre
    have hl := h l List.mem_cons_self
    simp only [List.map_cons, layoutFrom, layoutFromWith, decodeAll, encodeCat, List.flatMap_cons]
    have h1 := decodeLeaf_padded pre (List.flatMap padded (ls.map (·.bytes))) l hl.1 hl.2 hpre
    rw [← List.append_assoc, h1]
    have hpre' : (pre ++ padded l.bytes).length % 16 = 0 := by
      have := padOf_aligned l.bytes.length
      simp [padded]; omega
    have := ih (pre ++ padded l.bytes) (fun x hx => h x (List.mem_cons_of_mem _ hx)) hpre'
    have hlen : (pre ++ padded l.bytes).length = pre.length + (l.bytes.length + padOf l.bytes.length) := by
      simp [padded]
    rw [hlen] at this
    simp only [encodeCat, layoutFrom] at this
    rw [this]




def Disjoint (a b : Nat × List Nat) : Prop := a.1 + a.2.length ≤ b.1 ∨ b.1 + b.2.length ≤ a.1

theorem writeRange_comm (st : Bytes) (a b : Nat × List Nat) (h : a = b ∨ Disjoint a b) :
    writeRange (writeRange st a.1 a.2) b.1 b.2 = writeRange (writeRange st b.1 b.2) a.1 a.2 := by
  rcases h with h | h
  · subst h; rfl
  · funext j
    unfold Disjoint at h
    simp only [writeRange]
    by_cases h1 : b.1 ≤ j ∧ j < b.1 + b.2.length
    · have h2 : ¬ (a.1 ≤ j ∧ j < a.1 + a.2.length) := by omega
      simp [h1, h2]
    · by_cases h2 : a.1 ≤ j ∧ j < a.1 + a.2.length
      · simp [h1, h2]
      · simp [h1, h2]

theorem mem_pairwise_symm {R : α → α → Prop} (hsymm : ∀ a b, R a b → R b a) :
    ∀ (l : List α), l.Pairwise R → ∀ x ∈ l, ∀ y ∈ l, x = y ∨ R x y := by
  intro l
  induction l with
  | nil => intro _ x hx; simp at hx
  | cons w ws ih =>
    intro hd x hx y hy
    rw [List.pairwise_cons] at hd
    rcases List.mem_cons.1 hx with hx | hx <;> rcases List.mem_cons.1 hy with hy | hy
    · left; rw [hx, hy]
    · right; rw [hx]; exact hd.1 y hy
    · right; rw [hy]; exact hsymm _ _ (hd.1 x hx)
    · exact ih hd.2 x hx y hy

theorem tasksFrom_start_le (start : Nat) (bs : List (List Nat)) :
    ∀ t ∈ tasksFrom start bs, start ≤ t.1 := by
  induction bs generalizing start with
  | nil => intro t ht; simp [tasksFrom] at ht
  | cons b bs ih =>
    intro t ht
    simp only [tasksFrom, List.mem_cons] at ht
    rcases ht with h | h
    · subst h; simp
    · have := ih _ t h; omega

theorem tasksFrom_disjoint (start : Nat) (bs : List (List Nat)) :
    (tasksFrom start bs).Pairwise Disjoint := by
  induction bs generalizing start with
  | nil => simp [tasksFrom]
  | cons b bs ih =>
    simp only [tasksFrom, List.pairwise_cons]
    refine ⟨?_, ih _⟩
    intro t ht
    left
    exact tasksFrom_start_le _ bs t ht

/-- any execution order of the `assign` tasks leaves the same bytes -/
theorem runAssign_perm (st : Bytes) (bs : List (List Nat)) (ts : List (Nat × List Nat))
    (hp : (tasksFrom 0 bs).Perm ts) : runAssign st ts = runAssign st (tasksFrom 0 bs) := by
  unfold runAssign
  symm
  apply hp.foldl_eq'
  intro x hx y hy z
  exact writeRange_comm z x y
    (mem_pairwise_symm (fun a b h => by unfold Disjoint at *; omega) _ (tasksFrom_disjoint 0 bs) x hx y hy)

theorem encodeCat_cons (b : List Nat) (bs : List (List Nat)) : encodeCat (b :: bs) = padded b ++ encodeCat bs := by
  simp [encodeCat]

/-- the tasks in submission order write exactly `encodeCat` at `[start, start + total)` -/
theorem runAssign_seq : ∀ (bs : List (List Nat)) (start : Nat) (st : Bytes) (j : Nat),
    runAssign st (tasksFrom start bs) j =
      if start ≤ j ∧ j < start + (encodeCat bs).length then (encodeCat bs).getD (j - start) 0 else st j := by
  intro bs
  induction bs with
  | nil =>
    intro start st j
    simp only [tasksFrom, runAssign, encodeCat, List.foldl_nil, List.flatMap_nil, List.length_nil]
    split
    · omega
    · rfl
  | cons b bs ih =>
    intro start st j
    have : runAssign st (tasksFrom start (b :: bs))
        = runAssign (writeRange st start (padded b)) (tasksFrom (start + (padded b).length) bs) := rfl
    rw [this, ih, encodeCat_cons, List.length_append]
    by_cases h1 : start + (padded b).length ≤ j ∧ j < start + (padded b).length + (encodeCat bs).length
    · have h2 : start ≤ j ∧ j < start + ((padded b).length + (encodeCat bs).length) := by omega
      simp only [h1, h2, and_self, if_true]
      rw [List.getD_eq_getElem?_getD, List.getD_eq_getElem?_getD,
        List.getElem?_append_right (by omega)]
      congr 2; omega
    · simp only [h1, if_false]
      by_cases h2 : start ≤ j ∧ j < start + (padded b).length
      · have h3 : start ≤ j ∧ j < start + ((padded b).length + (encodeCat bs).length) := by omega
        simp only [writeRange, h2, h3, and_self, if_true]
        rw [List.getD_eq_getElem?_getD, List.getD_eq_getElem?_getD,
          List.getElem?_append_left (by omega)]
      · have h3 : ¬ (start ≤ j ∧ j < start + ((padded b).length + (encodeCat bs).length)) := by omega
        simp [writeRange, h2, h3]

theorem toList_eq (st : Bytes) (l : List Nat) (h : ∀ j, j < l.length → st j = l.getD j 0) :
    st.toList l.length = l := by
  apply List.ext_getElem
  · simp [Bytes.toList]
  · intro i h1 h2
    simp only [Bytes.toList, List.getElem_map, List.getElem_range]
    rw [h i h2]
    simp [List.getD_eq_getElem?_getD, List.getElem?_eq_getElem h2]


end TdVerif.C11
