/-
  C03 lemmas, part 8: `_get_names_idx` on advanced indices — where the names of the sliced dims and the broadcast block end up.
-/
import TdVerif.Lemmas.C03Names

namespace TdVerif.C03
open TorchSpec Td

/-- `idx_to_take` for any items: index arrays contribute nothing and advance `count` by the dims they index -/
def takeAll : List Ix → Nat → List (Option Nat)
  | [], _ => []
  | x :: r, k =>
    if x = Ix.none then none :: takeAll r k
    else if isNumber x then takeAll r (k + 1)
    else match advInfo x with
      | some (_, c, _) => takeAll r (k + c)
      | none => some k :: takeAll r (k + 1)

theorem namesStep_take (x : Ix) (st : NamesSt) :
    (namesStep x st).take = st.take ++ takeAll [x] st.count := by
  have adv : ∀ nd c m, (advStep nd c m st).take = st.take := by
    intro nd c m; unfold advStep; split <;> (try split) <;> rfl
  cases x with
  | none => simp [namesStep, takeAll]
  | int i => simp [namesStep, takeAll, isNumber]
  | slice a b c => simp [namesStep, takeAll, isNumber, advInfo, sepStep]
  | ell => simp [namesStep, takeAll, isNumber, advInfo, sepStep]
  | list l => simp [namesStep, takeAll, isNumber, advInfo, adv]
  | range a b c => simp [namesStep, takeAll, isNumber, advInfo, adv]
  | tensor s d => cases s <;> simp [namesStep, takeAll, isNumber, advInfo, adv]
  | mask s d => cases s <;> simp [namesStep, takeAll, isNumber, advInfo, adv]

theorem takeAll_cons (x : Ix) (r : List Ix) (k : Nat) :
    takeAll (x :: r) k = takeAll [x] k ++ takeAll r (k + nmConsumed x) := by
  cases x with
  | none => simp [takeAll, nmConsumed]
  | int i => simp [takeAll, isNumber, nmConsumed]
  | slice a b c => simp [takeAll, isNumber, advInfo, nmConsumed]
  | ell => simp [takeAll, isNumber, advInfo, nmConsumed]
  | list l => simp [takeAll, isNumber, advInfo, nmConsumed]
  | range a b c => simp [takeAll, isNumber, advInfo, nmConsumed]
  | tensor s d => cases s <;> simp [takeAll, isNumber, advInfo, nmConsumed]
  | mask s d => cases s <;> simp [takeAll, isNumber, advInfo, nmConsumed]

/-- the loop's `idx_to_take` -/
theorem namesLoop_take (items : List Ix) : ∀ st, (namesLoop items st).take = st.take ++ takeAll items st.count := by
  induction items with
  | nil => intro st; simp [namesLoop, takeAll]
  | cons x r ih =>
    intro st
    rw [namesLoop, ih, namesStep_take, namesStep_count, takeAll_cons x r, List.append_assoc]

end TdVerif.C03

namespace TdVerif.C03
open TorchSpec Td

theorem takeAll_replicate_slAll (k : Nat) : ∀ p, takeAll (List.replicate k slAll) p = takeOf (List.replicate k slAll) p := by
  induction k with
  | zero => intro p; rfl
  | succ k ih => intro p; simp [List.replicate_succ, takeAll, takeOf, slAll, isNumber, advInfo]; exact ih (p + 1)

/-- the names looked up along `idx_to_take` are the names of torch's sliced / new dims, in order; the dims taken by ints and
    index arrays lose theirs -/
theorem takeAll_walk (items : List Ix) : ∀ (e : Nat) (dims : Shape) (P : List Piece) (names pre ns : Names),
    noEll items = true → walk e dims items = .ok P → names = pre ++ ns → ns.length = dims.length →
    lookNames names (takeAll (items ++ List.replicate (dims.length - specified items) slAll) pre.length)
      = .ok (pieceNames P ns) := by
  induction items with
  | nil =>
    intro e dims P names pre ns _ h hnames hlen
    simp [walk] at h; subst h
    simp only [List.nil_append, specified, Nat.sub_zero, takeAll_replicate_slAll]
    exact takeOf_fulls names pre dims ns hnames hlen
  | cons x r ih =>
    intro e dims P names pre ns hn h hnames hlen
    simp only [noEll_cons, Bool.and_eq_true] at hn
    obtain ⟨hx, hr⟩ := hn
    -- an item that takes the leading dim without producing a name
    have skip1 : ∀ (n : Nat) (ds : Shape) (P' : List Piece) (x : Ix), dims = n :: ds → walk e ds r = .ok P' →
        (∀ rest k, takeAll (x :: rest) k = takeAll rest (k + 1)) →
        ∀ (Q : List Piece), (∀ ns', pieceNames Q ns' = pieceNames P' (ns'.drop 1)) →
        lookNames names (takeAll (x :: (r ++ List.replicate ((n :: ds).length - (1 + specified r)) slAll)) pre.length)
          = .ok (pieceNames Q ns) := by
      intro n ds P' x hd h1 htk Q hQ
      subst hd
      cases ns with
      | nil => simp at hlen
      | cons nm ns' =>
        have := ih e ds P' names (pre ++ [nm]) ns' hr h1 (by rw [hnames]; simp) (by simpa using hlen)
        rw [htk, hQ, show (n :: ds).length - (1 + specified r) = ds.length - specified r by simp only [List.length_cons]; omega]
        simpa using this
    cases x with
    | ell => simp at hx
    | none =>
      simp only [walk] at h
      obtain ⟨P', h1, rfl⟩ := map_ok h
      simp only [List.cons_append, takeAll, specified, if_true]
      rw [lookNames_cons_none, ih e dims P' names pre ns hr h1 hnames hlen]
      simp [Except.map, pieceNames]
    | int i =>
      cases dims with
      | nil => simp [walk] at h
      | cons n ds =>
        simp only [walk] at h
        obtain ⟨P', h1, rfl, -⟩ := consSel_ok h
        simp only [List.cons_append, specified]
        exact skip1 n ds P' _ rfl h1 (fun rest k => by simp [takeAll, isNumber]) _ (fun _ => rfl)
    | list l =>
      cases dims with
      | nil => simp [walk] at h
      | cons n ds =>
        simp only [walk] at h
        obtain ⟨P', h1, rfl⟩ := consAdv_ok h
        simp only [List.cons_append, specified]
        exact skip1 n ds P' _ rfl h1 (fun rest k => by simp [takeAll, isNumber, advInfo]) _ (fun _ => by simp [pieceNames])
    | range a b c =>
      cases dims with
      | nil => simp [walk] at h
      | cons n ds =>
        simp only [walk] at h
        obtain ⟨P', h1, rfl⟩ := consAdv_ok h
        simp only [List.cons_append, specified]
        exact skip1 n ds P' _ rfl h1 (fun rest k => by simp [takeAll, isNumber, advInfo]) _ (fun _ => by simp [pieceNames])
    | tensor s d =>
      cases dims with
      | nil => cases s <;> simp [walk] at h
      | cons n ds =>
        cases s with
        | nil =>
          simp only [walk] at h
          obtain ⟨P', h1, rfl, -⟩ := consSel_ok h
          simp only [List.cons_append, specified]
          exact skip1 n ds P' _ rfl h1 (fun rest k => by simp [takeAll, isNumber]) _ (fun _ => rfl)
        | cons m s' =>
          simp only [walk] at h
          obtain ⟨P', h1, rfl⟩ := consAdv_ok h
          simp only [List.cons_append, specified]
          exact skip1 n ds P' _ rfl h1 (fun rest k => by simp [takeAll, isNumber, advInfo]) _ (fun _ => by simp [pieceNames])
    | slice a b c =>
      cases dims with
      | nil => simp [walk] at h
      | cons n ds =>
        cases ns with
        | nil => simp at hlen
        | cons nm ns' =>
          simp only [walk] at h
          obtain ⟨P', s, e', st', h1, -, -, rfl⟩ := consSlice_ok h
          have hget : names[pre.length]? = some nm := by rw [hnames]; simp
          have := ih e ds P' names (pre ++ [nm]) ns' hr h1 (by rw [hnames]; simp) (by simpa using hlen)
          simp only [List.cons_append, takeAll, specified, List.length_cons, pieceNames, List.drop_succ_cons, List.drop_zero,
            isNumber, advInfo, Bool.false_eq_true, if_false]
          rw [show ds.length + 1 - (1 + specified r) = ds.length - specified r by omega]
          simp only [show (Ix.slice a b c = Ix.none) = False by simp, if_false]
          rw [lookNames_cons_some names _ _ nm hget]
          simp only [List.length_append, List.length_cons, List.length_nil] at this
          simp [this, Except.map]
    | mask s d =>
      simp only [walk] at h
      split at h
      · rename_i hs
        obtain ⟨P', h1, rfl⟩ := map_ok h
        cases s with
        | nil => exact absurd rfl hs.1
        | cons m s' =>
          have hlen' : (m :: s').length ≤ dims.length := by
            have := congrArg List.length hs.2; simp at this; simp; omega
          have hns : ns = ns.take (m :: s').length ++ ns.drop (m :: s').length := (List.take_append_drop _ _).symm
          have := ih e (dims.drop (m :: s').length) P' names (pre ++ ns.take (m :: s').length) (ns.drop (m :: s').length) hr h1
            (by rw [hnames, List.append_assoc, List.take_append_drop])
            (by simp [List.length_drop, hlen])
          simp only [List.cons_append, takeAll, specified, isNumber, advInfo, Bool.false_eq_true, if_false,
            show (Ix.mask (m :: s') d = Ix.none) = False by simp, pieceNames, maskPiece]
          have e1 : dims.length - ((m :: s').length + specified r) = (dims.drop (m :: s').length).length - specified r := by
            rw [List.length_drop]; omega
          have e2 : pre.length + (m :: s').length = (pre ++ ns.take (m :: s').length).length := by
            rw [List.length_append, List.length_take]; omega
          rw [e1, e2]
          exact this
      · cases h

end TdVerif.C03

namespace TdVerif.C03
open TorchSpec Td

/-- the `sep_after_adv` / `disjoint` automaton of `_get_names_idx` on the dims that survive the ints -/
def nmDisj : (seen sep disj : Bool) → List Bool → Bool
  | _, _, d, [] => d
  | seen, _, d, false :: r => nmDisj seen seen d r
  | seen, sep, d, true :: r => nmDisj true sep (d || (seen && sep)) r

theorem nmDisj_true (s p : Bool) (k : List Bool) : nmDisj s p true k = true := by
  induction k generalizing s p with
  | nil => rfl
  | cons b r ih => cases b <;> simp [nmDisj, ih]

theorem nmDisj_sep (k : List Bool) : nmDisj true true false k = k.any id := by
  induction k with
  | nil => rfl
  | cons b r ih => cases b <;> simp [nmDisj, ih, nmDisj_true]

theorem nmDisj_run (k : List Bool) : nmDisj true false false k = !afterRun k := by
  induction k with
  | nil => rfl
  | cons b r ih =>
    cases b
    · simp only [nmDisj, afterRun, nmDisj_sep]; exact any_id_eq_not_all_not r
    · simp [nmDisj, afterRun, ih]

/-- the names automaton decides torch's placement rule, like the one of `_getitem_batch_size` -/
theorem nmDisj_start (k : List Bool) : nmDisj false false false k = !contiguous k := by
  induction k with
  | nil => rfl
  | cons b r ih => cases b <;> simp [nmDisj, contiguous, ih, nmDisj_run]

theorem nmDisj_falses (n : Nat) (s p d : Bool) : nmDisj s p d (List.replicate n false) = d := by
  induction n generalizing p with
  | zero => rfl
  | succ m ih => simp [List.replicate_succ, nmDisj, ih]

theorem advStep_fields (nd c : Nat) (m : Bool) (st : NamesSt) :
    (advStep nd c m st).take = st.take ∧
    (advStep nd c m st).advPos = (match st.advPos with | some p => some p | none => some st.take.length) ∧
    (advStep nd c m st).sepAfterAdv = st.sepAfterAdv ∧
    (advStep nd c m st).disjoint = (st.disjoint || (st.advPos.isSome && st.sepAfterAdv)) := by
  unfold advStep
  cases hp : st.advPos with
  | none => simp
  | some p =>
    simp only [Option.isNone_some, Bool.false_eq_true, if_false, Option.isSome_some, Bool.true_and]
    cases hs : st.sepAfterAdv <;> simp [hp, hs]

/-- where the loop decides to put the broadcast dims, and whether it found the index arrays separated, in torch's terms -/
theorem namesLoop_adv (items : List Ix) : ∀ (e : Nat) (dims : Shape) (P : List Piece) (st : NamesSt),
    noEll items = true → walk e dims items = .ok P →
    (namesLoop items st).advPos = (match st.advPos with
      | some p => some p
      | none => if hasAdv P then some (st.take.length + preLen P) else none) ∧
    (namesLoop items st).disjoint = nmDisj st.advPos.isSome st.sepAfterAdv st.disjoint (kinds P) := by
  induction items with
  | nil =>
    intro e dims P st _ h
    simp [walk] at h; subst h
    simp only [namesLoop, kinds_map_full, nmDisj_falses, hasAdv, advShapes_map_full]
    cases st.advPos <;> simp
  | cons x r ih =>
    intro e dims P st hn h
    simp only [noEll_cons, Bool.and_eq_true] at hn
    obtain ⟨hx, hr⟩ := hn
    -- the three kinds of step
    have numStep : ∀ (P' : List Piece) (Q : List Piece) (ds : Shape), walk e ds r = .ok P' →
        namesStep x st = { st with count := st.count + 1 } →
        hasAdv Q = hasAdv P' → preLen Q = preLen P' → kinds Q = kinds P' →
        (namesLoop (x :: r) st).advPos = (match st.advPos with
          | some p => some p | none => if hasAdv Q then some (st.take.length + preLen Q) else none) ∧
        (namesLoop (x :: r) st).disjoint = nmDisj st.advPos.isSome st.sepAfterAdv st.disjoint (kinds Q) := by
      intro P' Q ds h1 hstep hA hL hK
      obtain ⟨a1, a2⟩ := ih e ds P' { st with count := st.count + 1 } hr h1
      simp only [namesLoop, hstep, hA, hL, hK]
      exact ⟨a1, a2⟩
    have sepStepCase : ∀ (P' : List Piece) (Q : List Piece) (ds : Shape) (S : NamesSt), walk e ds r = .ok P' →
        namesStep x st = S → S.take.length = st.take.length + 1 → S.advPos = st.advPos →
        S.sepAfterAdv = st.advPos.isSome → S.disjoint = st.disjoint →
        hasAdv Q = hasAdv P' → preLen Q = 1 + preLen P' → kinds Q = false :: kinds P' →
        (namesLoop (x :: r) st).advPos = (match st.advPos with
          | some p => some p | none => if hasAdv Q then some (st.take.length + preLen Q) else none) ∧
        (namesLoop (x :: r) st).disjoint = nmDisj st.advPos.isSome st.sepAfterAdv st.disjoint (kinds Q) := by
      intro P' Q ds S h1 hstep hT hP hS hD hA hL hK
      obtain ⟨a1, a2⟩ := ih e ds P' S hr h1
      simp only [namesLoop, hstep, hA, hL, hK, nmDisj]
      rw [a1, a2, hP, hS, hD, hT]
      refine ⟨?_, rfl⟩
      cases st.advPos with
      | some p => rfl
      | none => simp only []; split <;> simp <;> omega
    have advStepCase : ∀ (P' : List Piece) (Q : List Piece) (ds : Shape) (nd c : Nat) (m : Bool), walk e ds r = .ok P' →
        namesStep x st = advStep nd c m st →
        hasAdv Q = true → preLen Q = 0 → kinds Q = true :: kinds P' →
        (namesLoop (x :: r) st).advPos = (match st.advPos with
          | some p => some p | none => if hasAdv Q then some (st.take.length + preLen Q) else none) ∧
        (namesLoop (x :: r) st).disjoint = nmDisj st.advPos.isSome st.sepAfterAdv st.disjoint (kinds Q) := by
      intro P' Q ds nd c m h1 hstep hA hL hK
      obtain ⟨a1, a2⟩ := ih e ds P' (advStep nd c m st) hr h1
      obtain ⟨f1, f2, f3, f4⟩ := advStep_fields nd c m st
      simp only [namesLoop, hstep, hA, hL, hK, nmDisj, if_true, Nat.add_zero]
      rw [a1, a2, f2, f3, f4]
      cases hp : st.advPos with
      | some p => simp
      | none => simp
    cases x with
    | ell => simp at hx
    | none =>
      simp only [walk] at h
      obtain ⟨P', h1, rfl⟩ := map_ok h
      exact sepStepCase P' _ dims { st with take := st.take ++ [none], sepAfterAdv := st.advPos.isSome } h1 rfl (by simp) rfl rfl rfl
        (by simp [hasAdv, advShapes]) (by simp [preLen]) (by simp [kinds])
    | int i =>
      cases dims with
      | nil => simp [walk] at h
      | cons n ds =>
        simp only [walk] at h
        obtain ⟨P', h1, rfl, -⟩ := consSel_ok h
        exact numStep P' _ ds h1 (by simp [namesStep, isNumber]) (by simp [hasAdv, advShapes]) (by simp [preLen]) (by simp [kinds])
    | slice a b c =>
      cases dims with
      | nil => simp [walk] at h
      | cons n ds =>
        simp only [walk] at h
        obtain ⟨P', s, e', st', h1, -, -, rfl⟩ := consSlice_ok h
        exact sepStepCase P' _ ds (sepStep st) h1 (by simp [namesStep, isNumber, advInfo]) (by simp [sepStep]) rfl rfl rfl
          (by simp [hasAdv, advShapes]) (by simp [preLen]) (by simp [kinds])
    | list l =>
      cases dims with
      | nil => simp [walk] at h
      | cons n ds =>
        simp only [walk] at h
        obtain ⟨P', h1, rfl⟩ := consAdv_ok h
        exact advStepCase P' _ ds 1 1 false h1 (by simp [namesStep, isNumber, advInfo]) (by simp [hasAdv, advShapes]) (by simp [preLen]) (by simp [kinds])
    | range a b c =>
      cases dims with
      | nil => simp [walk] at h
      | cons n ds =>
        simp only [walk] at h
        obtain ⟨P', h1, rfl⟩ := consAdv_ok h
        exact advStepCase P' _ ds 1 1 false h1 (by simp [namesStep, isNumber, advInfo]) (by simp [hasAdv, advShapes]) (by simp [preLen]) (by simp [kinds])
    | tensor s d =>
      cases dims with
      | nil => cases s <;> simp [walk] at h
      | cons n ds =>
        cases s with
        | nil =>
          simp only [walk] at h
          obtain ⟨P', h1, rfl, -⟩ := consSel_ok h
          exact numStep P' _ ds h1 (by simp [namesStep, isNumber]) (by simp [hasAdv, advShapes]) (by simp [preLen]) (by simp [kinds])
        | cons m s' =>
          simp only [walk] at h
          obtain ⟨P', h1, rfl⟩ := consAdv_ok h
          exact advStepCase P' _ ds (m :: s').length 1 false h1 (by simp [namesStep, isNumber, advInfo]) (by simp [hasAdv, advShapes]) (by simp [preLen]) (by simp [kinds])
    | mask s d =>
      simp only [walk] at h
      split at h
      · rename_i hs
        obtain ⟨P', h1, rfl⟩ := map_ok h
        cases s with
        | nil => exact absurd rfl hs.1
        | cons m s' =>
          exact advStepCase P' _ _ 1 (m :: s').length true h1 (by simp [namesStep, isNumber, advInfo])
            (by simp [hasAdv, advShapes, maskPiece]) (by simp [preLen, maskPiece]) (by simp [kinds, maskPiece])
      · cases h

end TdVerif.C03

namespace TdVerif.C03
open TorchSpec Td

/-- the names of an indexed result, given the name `nm` carried by the broadcast dims: the names of torch's sliced / new dims in
    order (`pieceNames`), with `B.length` copies of `nm` where torch puts the broadcast dims (in place if the index arrays are
    contiguous, else in front) -/
def namesSpec (P : List Piece) (B : Shape) (names : Names) (nm : Option String) : Names :=
  if hasAdv P then
    let pos := if contiguous (kinds P) then preLen P else 0
    (pieceNames P names).take pos ++ List.replicate B.length nm ++ (pieceNames P names).drop pos
  else pieceNames P names

/-- total version of `names[i] if i is not None else None` -/
def lookD (names : Names) (o : Option Nat) : Option String :=
  match lookOne names o with
  | .ok v => v
  | .error _ => none

theorem lookNames_eq_map (names : Names) (t : List (Option Nat)) (h : ∀ i, some i ∈ t → i < names.length) :
    lookNames names t = .ok (t.map (lookD names)) := by
  induction t with
  | nil => simp [lookNames, pure, Except.pure]
  | cons x r ih =>
    have hr := ih (fun i hi => h i (by simp [hi]))
    cases x with
    | none => rw [lookNames_cons_none, hr]; simp [Except.map, lookD, lookOne]
    | some i =>
      have hi := h i (by simp)
      have hget : names[i]? = some names[i] := List.getElem?_eq_getElem hi
      rw [lookNames_cons_some names r i _ hget, hr]
      simp [Except.map, lookD, lookOne, hget]

/-- **the names of an indexed result** (general branch of `_get_names_idx`, any Ellipsis-free tuple torch accepts): the sliced and
    new dims carry the names torch's plan gives them, and the broadcast dims — all carrying one and the same name `nm` (the
    convention: the indexed dim's name for a single index array, `None` for a mask or several arrays) — sit exactly where torch
    puts them -/
theorem namesTake_spec (names : Names) (bs : Shape) (items : List Ix) (R : IndexResult) (P : List Piece) (B : Shape)
    (hn : noEll items = true) (hlen : names.length = bs.length)
    (hs : specified items ≤ bs.length) (hw : walk (bs.length - specified items) bs items = .ok P)
    (hB : broadcastAll (advShapes P) = some B) :
    ∃ nm, namesTake names bs.length items = .ok (namesSpec P B names nm) := by
  have hc := namesItems_convert_eq bs items _ P hn hs hw
  have hwc : walk (bs.length - specified items) bs (items ++ List.replicate (bs.length - specified items) slAll) = .ok P := by
    rw [walk_append_slAll items _ _ bs hn (by omega)]; exact hw
  have hnc : noEll (items ++ List.replicate (bs.length - specified items) slAll) = true := by
    rw [noEll_append, hn, noEll_replicate_slAll]; rfl
  generalize hconv : items ++ List.replicate (bs.length - specified items) slAll = conv at hc hwc hnc
  obtain ⟨hinv, hcount⟩ := namesLoop_inv conv NamesSt.init NmInv_init
  have hcnt : (namesLoop conv NamesSt.init).count ≤ bs.length := by
    rw [hcount, ← hconv, nmConsumedAll_append, nmConsumedAll_replicate_slAll, nmConsumedAll_eq_specified items _ bs P hn hw]
    simp [NamesSt.init]; omega
  have hlt : ∀ i, some i ∈ namesFinish (namesLoop conv NamesSt.init) → i < names.length := by
    intro i hi; have := namesFinish_lt _ hinv i hi; omega
  have htake : (namesLoop conv NamesSt.init).take = takeAll conv 0 := by
    rw [namesLoop_take]; simp [NamesSt.init]
  -- the looked-up base names are torch's
  have hbase : (takeAll conv 0).map (lookD names) = pieceNames P names := by
    have h1 := takeAll_walk items _ bs P names [] names hn hw rfl hlen
    simp only [List.length_nil, hconv] at h1
    have hlt' : ∀ i, some i ∈ takeAll conv 0 → i < names.length := by
      intro i hi
      have := hinv.1 i (by rw [htake]; exact hi)
      omega
    rw [lookNames_eq_map names _ hlt'] at h1
    injection h1
  obtain ⟨a1, a2⟩ := namesLoop_adv conv _ bs P NamesSt.init hnc hwc
  obtain ⟨-, w2, -⟩ := namesLoop_walk conv _ bs P NamesSt.init hnc hwc
  have hBl := broadcastAll_length _ B hB
  have i1 : NamesSt.init.advPos = none := rfl
  have i2 : NamesSt.init.take = [] := rfl
  have i3 : NamesSt.init.sepAfterAdv = false := rfl
  have i4 : NamesSt.init.disjoint = false := rfl
  have i5 : NamesSt.init.advNdim = 0 := rfl
  rw [i1, i2] at a1
  rw [i1, i3, i4] at a2
  rw [i5] at w2
  simp only [Option.isSome_none, List.length_nil, Nat.zero_add, Nat.zero_max] at a1 a2 w2
  rw [nmDisj_start] at a2
  refine ⟨lookD names (if (namesLoop conv NamesSt.init).nAdv = 1 ∧ (!(namesLoop conv NamesSt.init).advIsMask) = true
      then some (namesLoop conv NamesSt.init).advDim else none), ?_⟩
  simp only [namesTake, hc, PyIndex.items]
  rw [lookNames_eq_map names _ hlt]
  congr 1
  unfold namesFinish namesSpec
  cases hA : hasAdv P
  · simp only [hA, Bool.false_eq_true, if_false] at a1 ⊢
    rw [a1]; simp only []
    rw [htake, hbase]
  · simp only [hA, if_true] at a1 ⊢
    rw [a1]; simp only []
    rw [a2, w2, ← hBl, htake]
    cases hcg : contiguous (kinds P)
    · simp only [Bool.not_false, if_true, Bool.false_eq_true, if_false, List.take_zero, List.nil_append, List.drop_zero,
        List.map_append, List.map_replicate, hbase]
    · simp only [Bool.not_true, Bool.false_eq_true, if_false, if_true, List.map_append, List.map_replicate, List.map_take,
        List.map_drop, hbase]

end TdVerif.C03

namespace TdVerif.C03
open TorchSpec Td

theorem pieceNames_fulls (dims : Shape) : ∀ (ns : Names), ns.length = dims.length → pieceNames (dims.map Piece.full) ns = ns := by
  induction dims with
  | nil => intro ns h; cases ns <;> simp_all [pieceNames]
  | cons n r ih =>
    intro ns h
    cases ns with
    | nil => simp at h
    | cons nm ns' => simp [pieceNames, Piece.full, ih ns' (by simpa using h)]

/-- **names follow the index**, every branch of `_get_names_idx`: for an Ellipsis-free tuple torch accepts on the batch shape
    (plan `P`, broadcast shape `B`) the result names are `namesSpec P B names nm` for some block name `nm` -/
theorem namesIdx_spec (names : Names) (bs : Shape) (items : List Ix) (R : IndexResult)
    (hn : noEll items = true) (hlen : names.length = bs.length) (h : index bs items = .ok R) :
    ∃ P B nm, walk (bs.length - specified items) bs items = .ok P ∧ broadcastAll (advShapes P) = some B ∧
      namesIdx (some names) bs.length (.tuple items) = .ok (normNames (namesSpec P B names nm)) := by
  obtain ⟨hs, P, hw, hf⟩ := index_inv h
  obtain ⟨B, hB, -, -, -⟩ := finalize_ok hf
  obtain ⟨nm, htake⟩ := namesTake_spec names bs items R P B hn hlen hs hw hB
  have general : namesIdx (some names) bs.length (.tuple items) = .ok (normNames (namesSpec P B names nm)) ∨
      ∃ k, isBoolean (.tuple items) = some (k + 1) := by
    cases hb : isBoolean (.tuple items) with
    | none => left; simp only [namesIdx, hb, PyIndex.items, htake, normNames]; split <;> rfl
    | some k =>
      cases k with
      | zero => left; simp only [namesIdx, hb, PyIndex.items, htake, normNames]; split <;> rfl
      | succ k => right; exact ⟨k, rfl⟩
  rcases general with hg | ⟨k, hb⟩
  · exact ⟨P, B, nm, hw, hB, hg⟩
  · -- a lone mask of rank k + 1: `[None] + names[k + 1:]`
    have hitems : ∃ s d, items = [Ix.mask s d] ∧ s.length = k + 1 := by
      match items, hb with
      | [Ix.mask s d], hb => exact ⟨s, d, rfl, by simpa [isBoolean] using hb⟩
    obtain ⟨s, d, rfl, hsl⟩ := hitems
    refine ⟨P, B, none, hw, hB, ?_⟩
    simp only [walk] at hw
    split at hw
    · rename_i hsm
      simp only [walk, Except.map] at hw
      cases hw
      have hle : s.length ≤ bs.length := by
        have := congrArg List.length hsm.2; simp at this; omega
      have hBl := broadcastAll_length _ B hB
      simp only [advShapes, maskPiece, advShapes_map_full, maxRank] at hBl
      have hB1 : B.length = 1 := by simpa using hBl
      have hpn : pieceNames (maskPiece s d :: (bs.drop s.length).map Piece.full) names = names.drop (k + 1) := by
        simp only [pieceNames, maskPiece]
        rw [hsl]
        exact pieceNames_fulls _ _ (by simp [List.length_drop, hlen, hsl])
      have hspec : namesSpec (maskPiece s d :: (bs.drop s.length).map Piece.full) B names none = none :: names.drop (k + 1) := by
        simp only [namesSpec, hasAdv, advShapes, maskPiece, advShapes_map_full, kinds, kinds_map_full, contiguous, preLen]
        simp only [List.isEmpty_cons, Bool.not_false, if_true]
        have hc : afterRun (List.replicate (bs.drop s.length).length false) = true := by
          generalize (bs.drop s.length).length = n
          cases n with
          | zero => rfl
          | succ n => simp [List.replicate_succ, afterRun]
        simp only [hc, if_true, List.take_zero, List.nil_append, List.drop_zero, hB1, List.replicate_one]
        have := hpn; simp only [maskPiece] at this
        rw [this]; rfl
      simp only [namesIdx, hb, hspec, normNames]
      split <;> rfl
    · cases hw

end TdVerif.C03
