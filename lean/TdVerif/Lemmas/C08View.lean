/-
  C08 — view / reshape / flatten of a lazy stack (model: Model/C08View.lean): the lazily stacked
  pieces of the flatten loop materialise to the dense stack flattened over the merged dims.
  Tensor level: `catList_flatten`, `stack_flatten_base`, `stack_flatten_step`; pieces:
  `good_unbind`, `flatten_pieces`; result: `view_flatten_refines`.
-/
import TdVerif.Model.C08View
import TdVerif.Lemmas.C08Out2
import TdVerif.Lemmas.C08ShapeOps
namespace TdVerif.C08

/-! ### flatten as a coordinate map -/

theorem foldl_mul (l : List Nat) : ∀ a : Nat, l.foldl (· * ·) a = a * l.foldl (· * ·) 1 := by
  induction l with
  | nil => intro a; simp
  | cons x r ih =>
    intro a
    simp only [List.foldl_cons]
    rw [ih (a * x), ih (1 * x)]
    simp [Nat.mul_assoc]

theorem numel_cons (d : Nat) (ds : Shape) : numel (d :: ds) = d * numel ds := by
  unfold numel
  simp only [List.foldl_cons]
  rw [foldl_mul ds (1 * d)]
  simp

theorem numel_nil : numel [] = 1 := rfl

theorem blockOf_const (M : Nat) (hM : 0 < M) : ∀ (n k : Nat), k < n * M →
    blockOf (List.replicate n M) k = (k / M, k % M)
  | 0, k, h => by simp at h
  | n + 1, k, h => by
    simp only [List.replicate_succ, blockOf]
    by_cases hk : k < M
    · simp [hk, Nat.div_eq_of_lt hk, Nat.mod_eq_of_lt hk]
    · simp only [hk, if_false]
      have hk' : k - M < n * M := by rw [Nat.succ_mul] at h; omega
      rw [blockOf_const M hM n (k - M) hk']
      have h1 : k / M = (k - M) / M + 1 := by
        rw [Nat.div_eq_sub_div hM (by omega)]
      have h2 : k % M = (k - M) % M := by
        rw [Nat.mod_eq_sub_mod (by omega)]
      simp [h1, h2]

theorem T.select_congr {a b : T α} (h : a ≈ₜ b) (d i : Nat) (hd : d < a.shape.length) (hi : i < at0 a.shape d) :
    a.select d i ≈ₜ b.select d i := by
  refine ⟨by simp [T.select, h.1], ?_⟩
  intro c hc
  simp only [T.select] at hc ⊢
  apply h.2
  have hl : d ≤ c.length := by
    rw [InB.length hc, List.length_eraseIdx_of_lt hd]; omega
  have := InB.insertIdx (c := c) (s := a.shape.eraseIdx d) d i (at0 a.shape d)
    (by rw [List.length_eraseIdx_of_lt hd]; omega) hi hc
  rwa [insertIdx_eraseIdx_self a.shape d hd] at this


theorem take_eraseIdx_self {β} (l : List β) (i : Nat) : (l.eraseIdx i).take i = l.take i := by
  induction l generalizing i with
  | nil => simp
  | cons a r ih =>
    cases i with
    | zero => simp
    | succ i => simp [ih]

theorem drop_eraseIdx_self {β} (l : List β) (i : Nat) : (l.eraseIdx i).drop i = l.drop (i + 1) := by
  induction l generalizing i with
  | nil => simp
  | cons a r ih =>
    cases i with
    | zero => simp
    | succ i => simp [ih]

theorem drop_take_succ (sh : Shape) (i m : Nat) (hi : i < sh.length) :
    (sh.drop i).take (m + 1) = at0 sh i :: (sh.drop (i + 1)).take m := by
  rw [List.drop_eq_getElem_cons hi, List.take_succ_cons]
  congr 1
  simp [at0, List.getElem?_eq_getElem hi]

theorem take_set_self {β} (c : List β) (i : Nat) (x : β) : (c.set i x).take i = c.take i := by
  induction c generalizing i with
  | nil => simp
  | cons a r ih =>
    cases i with
    | zero => simp
    | succ i => simp [ih]

theorem drop_set_succ {β} (c : List β) (i : Nat) (x : β) : (c.set i x).drop (i + 1) = c.drop (i + 1) := by
  induction c generalizing i with
  | nil => simp
  | cons a r ih =>
    cases i with
    | zero => simp
    | succ i => simp [ih]

theorem insertIdx_append_mid {β} (a b : List β) (x : β) (i : Nat) (h : a.length = i) :
    (a ++ b).insertIdx i x = a ++ x :: b := by
  subst h
  induction a with
  | nil => simp
  | cons y r ih => simp [ih]

theorem sum_replicate' (n M : Nat) : (List.replicate n M).sum = n * M := by
  induction n with
  | zero => simp
  | succ n ih => simp [List.replicate_succ, ih, Nat.succ_mul]; omega

/-- the shape of a slice of `t` along `i`, flattened over the next `m` dims -/
theorem flattenAt_select_shape (t : T α) (i m a : Nat) :
    ((t.select i a).flattenAt i m).shape
      = t.shape.take i ++ [numel ((t.shape.drop (i + 1)).take m)] ++ t.shape.drop (i + 1 + m) := by
  simp only [T.flattenAt, T.select]
  rw [take_eraseIdx_self, drop_eraseIdx_self]
  congr 1
  rw [show i + m = i + m from rfl, ← List.drop_drop (i := m) (j := i), drop_eraseIdx_self, List.drop_drop]

/-- **flatten, one more dim**: concatenating along `i` the slices of `t` along `i`, each flattened
over the next `m` dims, flattens `t` over `m + 1` dims from `i` -/
theorem catList_flatten [Inhabited α] (t : T α) (i m : Nat) (hi : i < t.shape.length)
    (hs : 0 < at0 t.shape i) (hM : 0 < numel ((t.shape.drop (i + 1)).take m)) :
    T.catList ((List.range (at0 t.shape i)).map fun a => (t.select i a).flattenAt i m) i
      ≈ₜ t.flattenAt i (m + 1) := by
  obtain ⟨M, hMd⟩ : ∃ M, M = numel ((t.shape.drop (i + 1)).take m) := ⟨_, rfl⟩
  obtain ⟨s, hsd⟩ : ∃ s, s = at0 t.shape i := ⟨_, rfl⟩
  rw [← hsd]
  let base : Shape := t.shape.take i ++ [M] ++ t.shape.drop (i + 1 + m)
  have hbi : i < base.length := by simp [base]; omega
  have hne : ((List.range s).map fun a => (t.select i a).flattenAt i m) ≠ [] := by
    simp; omega
  have hsizes : (((List.range s).map fun a => (t.select i a).flattenAt i m).map fun u => at0 u.shape i)
      = List.replicate s M := by
    apply List.ext_getElem
    · simp
    · intro j h1 h2
      simp only [List.getElem_map, List.getElem_range, List.getElem_replicate]
      rw [flattenAt_select_shape, ← hMd]
      simp only [at0]
      rw [List.append_assoc, List.getElem?_append_right (by simp; omega)]
      simp [List.length_take, Nat.min_eq_left (Nat.le_of_lt hi)]
  have hshapeL : (T.catList ((List.range s).map fun a => (t.select i a).flattenAt i m) i).shape
      = base.set i (s * M) := by
    have := T.catList_shape base i hbi ((List.range s).map fun a => (t.select i a).flattenAt i m)
      (List.replicate s M) hne (by simp)
      (by
        intro j h1 h2
        simp only [List.getElem_map, List.getElem_range, List.getElem_replicate]
        rw [flattenAt_select_shape, ← hMd]
        show base = base.set i M
        simp only [base]
        rw [List.append_assoc, List.set_append_right _ _ (by simp; omega)]
        simp [List.length_take, Nat.min_eq_left (Nat.le_of_lt hi)])
    rw [this, sum_replicate']
  have hshapeR : (t.flattenAt i (m + 1)).shape = base.set i (s * M) := by
    simp only [T.flattenAt]
    rw [drop_take_succ t.shape i m hi, numel_cons, ← hMd, ← hsd]
    simp only [base]
    rw [List.append_assoc, List.append_assoc, List.set_append_right _ _ (by simp; omega)]
    simp [List.length_take, Nat.min_eq_left (Nat.le_of_lt hi)]
    congr 1; omega
  refine ⟨by rw [hshapeL, hshapeR], ?_⟩
  intro c hc
  rw [hshapeL] at hc
  have hcl : c.length = base.length := by rw [InB.length hc, List.length_set]
  have hic : i < c.length := by omega
  have hk : at0 c i < s * M := by
    apply InB.at0_lt hc i
    simp [hbi]
  rw [T.catList_get _ i c hne (by rw [hsizes, sum_replicate']; exact hk) hic, hsizes,
    blockOf_const M (by rw [hMd]; exact hM) s (at0 c i) hk]
  have ha : at0 c i / M < s := by
    rw [Nat.div_lt_iff_lt_mul (by rw [hMd]; exact hM)]; exact hk
  simp only [List.getElem?_map, List.getElem?_range ha, Option.map_some, Option.getD_some]
  simp only [T.flattenAt, T.select]
  rw [drop_eraseIdx_self, take_set_self, drop_set_succ,
    drop_take_succ t.shape i m hi, ← hsd]
  have hset : at0 (c.set i (at0 c i % M)) i = at0 c i % M := by simp [at0, hic]
  rw [hset]
  simp only [unravel]
  rw [← hMd]
  rw [List.append_assoc, insertIdx_append_mid _ _ _ i (by simp [List.length_take]; omega)]
  simp


theorem T.Eqv.symm' {a b : T α} (h : a ≈ₜ b) : b ≈ₜ a :=
  ⟨h.1.symm, fun c hc => (h.2 c (h.1 ▸ hc)).symm⟩

theorem unravel_single (d k : Nat) : unravel [d] k = [k] := by
  simp [unravel, numel_nil]

theorem take_append_drop_succ (c : List Nat) (i : Nat) (hi : i < c.length) :
    c.take i ++ [at0 c i] ++ c.drop (i + 1) = c := by
  have : [at0 c i] = [c[i]] := by simp [at0, List.getElem?_eq_getElem hi]
  rw [this, List.append_assoc]
  simp

/-- flattening a single dim is the identity -/
theorem flattenAt_one (t : T α) (i : Nat) (hi : i < t.shape.length) : t.flattenAt i 1 ≈ₜ t := by
  have hsh : (t.flattenAt i 1).shape = t.shape := by
    simp only [T.flattenAt]
    rw [drop_take_succ t.shape i 0 hi]
    simp only [List.take_zero, numel_cons, numel_nil, Nat.mul_one]
    exact take_append_drop_succ t.shape i hi
  refine ⟨hsh, ?_⟩
  intro c hc
  rw [hsh] at hc
  have hic : i < c.length := by rw [InB.length hc]; exact hi
  simp only [T.flattenAt]
  rw [drop_take_succ t.shape i 0 hi]
  simp only [List.take_zero, unravel_single]
  rw [take_append_drop_succ c i hic]

/-- **flatten, base**: stacking along `i` pieces that are the slices of `t` along `i` gives `t`
(= `t` with the single dim `i` "flattened") -/
theorem stack_flatten_base [Inhabited α] (t : T α) (i : Nat) (hi : i < t.shape.length) (hs : 0 < at0 t.shape i)
    (P : List (T α)) (hlen : P.length = at0 t.shape i)
    (hP : ∀ p (hp : p < P.length), P[p] ≈ₜ t.select i p) :
    T.stack P i ≈ₜ t.flattenAt i 1 := by
  refine T.Eqv.trans ?_ (T.Eqv.symm' (flattenAt_one t i hi))
  refine T.Eqv.trans ?_ (stack_unbind t i hi hs)
  apply T.stack_congr P (t.unbind i) (t.shape.eraseIdx i) i (by simp [T.unbind, hlen, at0])
    (by simp [T.unbind]; unfold at0 at hs; omega)
    (by intro y hy; simp only [T.unbind, List.mem_map] at hy; obtain ⟨a, _, rfl⟩ := hy; rfl)
    (by rw [List.length_eraseIdx_of_lt hi]; omega)
  intro p h1 h2
  simp only [T.unbind, List.getElem_map, List.getElem_range]
  exact hP p h1

/-- **flatten, step**: if, for every slice `a` of `t` along `i`, the pieces `X a` stack (along `i`)
to that slice flattened over `m` dims, then all the pieces, in order, stack to `t` flattened over
`m + 1` dims -/
theorem stack_flatten_step [Inhabited α] (t : T α) (i m : Nat) (hi : i < t.shape.length)
    (hs : 0 < at0 t.shape i) (hM : 0 < numel ((t.shape.drop (i + 1)).take m))
    (ps : Shape) (hps : i ≤ ps.length) (X : Nat → List (T α))
    (hXs : ∀ a < at0 t.shape i, ∀ x ∈ X a, x.shape = ps)
    (hXl : ∀ a < at0 t.shape i, (X a).length = numel ((t.shape.drop (i + 1)).take m))
    (hX : ∀ a < at0 t.shape i, T.stack (X a) i ≈ₜ (t.select i a).flattenAt i m) :
    T.stack ((List.range (at0 t.shape i)).flatMap X) i ≈ₜ t.flattenAt i (m + 1) := by
  refine T.Eqv.trans ?_ (catList_flatten t i m hi hs hM)
  let base : Shape := t.shape.take i ++ [numel ((t.shape.drop (i + 1)).take m)] ++ t.shape.drop (i + 1 + m)
  have hbi : i < base.length := by simp [base]; omega
  have hat : ∀ a, at0 ((t.select i a).flattenAt i m).shape i = numel ((t.shape.drop (i + 1)).take m) := by
    intro a
    rw [flattenAt_select_shape]
    simp only [at0]
    rw [List.append_assoc, List.getElem?_append_right (by simp; omega)]
    simp [List.length_take, Nat.min_eq_left (Nat.le_of_lt hi)]
  have := stack_pieces_catList base i hbi (List.range (at0 t.shape i))
    (fun a => (t.select i a).flattenAt i m) X (by simp; omega)
    (by
      intro a _
      show ((t.select i a).flattenAt i m).shape = _
      rw [hat a, flattenAt_select_shape]
      simp only [base]
      rw [List.append_assoc, List.set_append_right _ _ (by simp; omega)]
      simp [List.length_take, Nat.min_eq_left (Nat.le_of_lt hi)])
    (by intro a ha; rw [hXl a (by simpa using ha)]; exact (hat a).symm)
    (by
      intro a ha p hp
      have ha' : a < at0 t.shape i := by simpa using ha
      have h1 := select_stack (X a) ps i p (hXs a ha') hps hp
      have hshape : (T.stack (X a) i).shape = ps.insertIdx i (X a).length := by
        rw [T.stack_shape, head_shape_of_all _ _ (hXs a ha') (by intro hh; rw [hh] at hp; simp at hp)]
      have h2 := T.select_congr (hX a ha') i p
        (by rw [hshape, List.length_insertIdx_of_le_length hps]; omega)
        (by rw [hshape]; simp [at0, List.getElem?_insertIdx_self, hps]; exact hp)
      exact T.Eqv.trans (T.Eqv.symm' h1) h2)
    (by
      have : (List.range (at0 t.shape i)).map (fun a => at0 ((t.select i a).flattenAt i m).shape i)
          = List.replicate (at0 t.shape i) (numel ((t.shape.drop (i + 1)).take m)) := by
        apply List.ext_getElem
        · simp
        · intro j h1 h2; simp [hat]
      rw [this, sum_replicate']
      exact Nat.mul_pos hs hM)
  exact this

end TdVerif.C08

namespace TdVerif.C08

theorem iterUnbindR_succ' (r : LRes α) (i : Nat) : ∀ n,
    iterUnbindR r i (n + 1) = (resUnbind r i).flatMap (fun p => iterUnbindR p i n)
  | 0 => by simp [iterUnbindR]
  | n + 1 => by
    show (iterUnbindR r i (n + 1)).flatMap (resUnbind · i) = _
    rw [iterUnbindR_succ' r i n, List.flatMap_assoc]
    rfl

/-- what `unbind` pieces look like: a plain tensordict or a non-empty uniform lazy stack, of batch
size `B` -/
def GoodR [Inhabited α] (B : Shape) (keys : List String) (feat : String → Shape) : LRes α → Prop
  | .member m => m.batch = B ∧ m.keys = keys ∧ ∀ k ∈ keys, (m.leaf k).shape = B ++ feat k
  | .lazy L => (∃ b, Uniform L b keys feat) ∧ L.members ≠ [] ∧ L.batch = B
  | _ => False

theorem GoodR.facts [Inhabited α] {B : Shape} {keys : List String} {feat : String → Shape} {r : LRes α}
    (h : GoodR B keys feat r) :
    (absR r).batch = B ∧ (absR r).keys = keys ∧ ∀ k ∈ keys, ((absR r).leaf k).shape = B ++ feat k := by
  cases r with
  | member m => exact h
  | «lazy» L =>
    obtain ⟨⟨b, hU⟩, hne, hB⟩ := h
    refine ⟨hB, absL_keys L b keys feat hU hne, ?_⟩
    intro k hk
    rw [← hB]
    exact absL_leaf_shape' L b keys feat hU hne k hk
  | lazy2 sd rows => exact absurd h (by simp [GoodR])
  | empty b => exact absurd h (by simp [GoodR])


theorem T.Eqv.refl' (a : T α) : a ≈ₜ a := ⟨rfl, fun _ _ => rfl⟩
theorem T.Eqv.symm'' {a b : T α} (h : a ≈ₜ b) : b ≈ₜ a :=
  ⟨h.1.symm, fun c hc => (h.2 c (h.1 ▸ hc)).symm⟩

/-- one `unbind(i)` of a good piece: as many good pieces as dim `i` is long, piece `a` holding slice
`a` along `i` of every entry -/
theorem good_unbind [Inhabited α] (B : Shape) (keys : List String) (feat : String → Shape) (r : LRes α)
    (h : GoodR B keys feat r) (i : Nat) (hi : i < B.length) :
    (resUnbind r i).length = at0 B i ∧
    ∀ a (ha : a < (resUnbind r i).length),
      GoodR (B.eraseIdx i) keys feat (resUnbind r i)[a] ∧
      ∀ k ∈ keys, (absR (resUnbind r i)[a]).leaf k ≈ₜ ((absR r).leaf k).select i a := by
  cases r with
  | lazy2 sd rows => exact absurd h (by simp [GoodR])
  | empty b => exact absurd h (by simp [GoodR])
  | member m =>
    obtain ⟨hb, hk, hl⟩ := h
    have hlen : (resUnbind (.member m) i).length = at0 B i := by
      simp [resUnbind, TD.unbind, hb, at0]
    refine ⟨hlen, ?_⟩
    intro a ha
    have he : (resUnbind (.member m) i)[a] = .member (m.mapLeaves (m.batch.eraseIdx i) (fun t => t.select i a)) := by
      simp [resUnbind, TD.unbind]
    rw [he]
    refine ⟨⟨by simp [TD.mapLeaves, hb], by simp [TD.mapLeaves, hk], ?_⟩, ?_⟩
    · intro k hkk
      show ((m.leaf k).shape).eraseIdx i = _
      rw [hl k hkk, List.eraseIdx_append_of_lt_length hi]
    · intro k _
      exact T.Eqv.refl' _
  | «lazy» L =>
    obtain ⟨⟨b, hU⟩, hne, hB⟩ := h
    have hLB : L.batch = b.insertIdx L.sd L.members.length := absL_batch_eq L b keys feat hU hne
    have hBl : B.length = b.length + 1 := by
      rw [← hB, hLB, List.length_insertIdx_of_le_length hU.hsd]
    by_cases hsd : i = L.sd
    · -- the stack dim: the members
      have hlen : (resUnbind (.lazy L) i).length = at0 B i := by
        simp only [resUnbind, lazyUnbind, if_pos hsd, List.length_map]
        rw [← hB, hLB, hsd]
        simp [at0, List.getElem?_insertIdx_self, hU.hsd]
      refine ⟨hlen, ?_⟩
      intro a ha
      have ha' : a < L.members.length := by
        simp only [resUnbind, lazyUnbind, if_pos hsd, List.length_map] at ha; exact ha
      have he : (resUnbind (.lazy L) i)[a] = .member (L.members[a]) := by
        simp [resUnbind, lazyUnbind, hsd]
      rw [he]
      have hmem : L.members[a] ∈ L.members := List.getElem_mem _
      have hBe : B.eraseIdx i = b := by
        rw [← hB, hLB, hsd, List.eraseIdx_insertIdx_self]
      refine ⟨⟨by rw [hBe]; exact hU.hbatch _ hmem, hU.hkeys _ hmem, ?_⟩, ?_⟩
      · intro k hk; rw [hBe]; exact hU.hleaf _ hmem k hk
      · intro k hk
        have := select_stack (L.members.map fun m => m.leaf k) (b ++ feat k) L.sd a
          (leaf_shapes L b keys feat hU k hk) (by simp; have := hU.hsd; omega) (by simpa using ha')
        rw [hsd]
        show (L.members[a]).leaf k ≈ₜ (T.stack (L.members.map fun m => m.leaf k) L.sd).select L.sd a
        have h2 : (L.members.map fun m => m.leaf k)[a]'(by simpa using ha') = (L.members[a]).leaf k := by simp
        rw [h2] at this
        exact T.Eqv.symm'' this
    · -- another dim: lazy stacks of the members' slices
      have hiL : i < L.batch.length := by rw [hB]; exact hi
      have hcnt : L.batch[i]?.getD 0 = at0 B i := by rw [hB]
      have hlen : (resUnbind (.lazy L) i).length = at0 B i := by
        simp only [resUnbind, lazyUnbind, if_neg hsd, List.length_map, List.length_range]
        exact hcnt
      refine ⟨hlen, ?_⟩
      intro a ha
      have ha' : a < L.batch[i]?.getD 0 := by rw [hcnt, ← hlen]; exact ha
      obtain ⟨r', hr', hrr⟩ := unbind_refines L b keys feat hU hne i hiL hsd a ha'
      have he : (resUnbind (.lazy L) i)[a] = r' := by
        have h1 : (resUnbind (.lazy L) i)[a]? = some r' := hr'
        rw [List.getElem?_eq_getElem ha] at h1
        exact Option.some.inj h1
      rw [he]
      -- the piece, explicitly
      have hr2 : r' = .lazy ⟨L.members.map fun m => m.mapLeaves (m.batch.eraseIdx (if i < L.sd then i else i - 1))
          (fun t => t.select (if i < L.sd then i else i - 1) a), if i > L.sd then L.sd else L.sd - 1⟩ := by
        have : (lazyUnbind L i)[a]? = some r' := hr'
        simp only [lazyUnbind, if_neg hsd, List.getElem?_map, List.getElem?_range ha', Option.map_some,
          Option.some.injEq] at this
        exact this.symm
      refine ⟨?_, ?_⟩
      · rw [hr2]
        have hnd : (if i < L.sd then i else i - 1) < b.length := by
          have := hU.hsd
          split <;> omega
        refine ⟨⟨b.eraseIdx (if i < L.sd then i else i - 1), ?_⟩, by simpa using hne, ?_⟩
        · refine ⟨?_, ?_, ?_, ?_⟩
          · intro m' hm'
            simp only [List.mem_map] at hm'
            obtain ⟨m, hm, rfl⟩ := hm'
            simp [TD.mapLeaves, hU.hbatch m hm]
          · intro m' hm'
            simp only [List.mem_map] at hm'
            obtain ⟨m, hm, rfl⟩ := hm'
            simp [TD.mapLeaves, hU.hkeys m hm]
          · intro m' hm' k hk
            simp only [List.mem_map] at hm'
            obtain ⟨m, hm, rfl⟩ := hm'
            show ((m.leaf k).shape).eraseIdx _ = _
            rw [hU.hleaf m hm k hk, List.eraseIdx_append_of_lt_length hnd]
          · show (if i > L.sd then L.sd else L.sd - 1) ≤ (b.eraseIdx _).length
            rw [List.length_eraseIdx_of_lt hnd]
            have := hU.hsd
            split <;> omega
        · have := hrr.1
          rw [hr2] at this
          show (absL _).batch = _
          refine Eq.trans this ?_
          show L.batch.eraseIdx i = _
          rw [hB]
      · intro k hk
        have hkk : k ∈ (absR r').keys := by
          rw [hrr.2.1]
          show k ∈ (absL L).keys
          rw [absL_keys L b keys feat hU hne]; exact hk
        exact hrr.2.2 k hkk

end TdVerif.C08


namespace TdVerif.C08

theorem flatMap_eq_range {β γ} (g : β → List γ) : ∀ (l : List β),
    l.flatMap g = (List.range l.length).flatMap (fun a => ((l[a]?).map g).getD [])
  | [] => by simp
  | x :: l => by
    rw [List.length_cons, List.range_succ_eq_map, List.flatMap_cons, List.flatMap_cons, List.flatMap_map]
    simp only [List.getElem?_cons_zero, Option.map_some, Option.getD_some, List.getElem?_cons_succ]
    rw [← flatMap_eq_range g l]

theorem take_drop_append (B F : Shape) (i m : Nat) (h : i + m ≤ B.length) :
    ((B ++ F).drop i).take m = (B.drop i).take m := by
  rw [List.drop_append_of_le_length (by omega), List.take_append_of_le_length (by simp; omega)]

theorem numel_pos_cons (d : Nat) (ds : Shape) (h : 0 < numel (d :: ds)) : 0 < d ∧ 0 < numel ds := by
  rw [numel_cons] at h
  exact ⟨Nat.pos_of_mul_pos_right h |> fun _ => Nat.pos_of_ne_zero (by intro h0; rw [h0] at h; simp at h),
         Nat.pos_of_ne_zero (by intro h0; rw [h0] at h; simp at h)⟩

/-- **the flatten loop**: `n + 1` rounds of `unbind(i)` on a good piece of batch size `B` yield, in
row-major order of the dims `i … i+n`, as many good pieces as these dims have positions; stacked
along `i` they are every entry flattened over these dims -/
theorem flatten_pieces [Inhabited α] (keys : List String) (feat : String → Shape) (i : Nat) :
    ∀ (n : Nat) (r : LRes α) (B : Shape), GoodR B keys feat r → i + (n + 1) ≤ B.length →
      0 < numel ((B.drop i).take (n + 1)) →
      (iterUnbindR r i (n + 1)).length = numel ((B.drop i).take (n + 1)) ∧
      (∀ x ∈ iterUnbindR r i (n + 1), GoodR (B.take i ++ B.drop (i + (n + 1))) keys feat x) ∧
      ∀ k ∈ keys, ∀ t' : T α, (absR r).leaf k ≈ₜ t' →
        T.stack ((iterUnbindR r i (n + 1)).map fun x => (absR x).leaf k) i ≈ₜ t'.flattenAt i (n + 1)
  | 0, r, B, hg, hle, hpos => by
    have hi : i < B.length := by omega
    have hP : iterUnbindR r i 1 = resUnbind r i := by
      rw [iterUnbindR_succ']; simp [iterUnbindR]
    obtain ⟨hlen, hpieces⟩ := good_unbind B keys feat r hg i hi
    have hdt : (B.drop i).take 1 = [at0 B i] := by
      have := drop_take_succ B i 0 hi
      simpa using this
    have hnum : numel ((B.drop i).take 1) = at0 B i := by rw [hdt, numel_cons, numel_nil, Nat.mul_one]
    rw [hP]
    refine ⟨by rw [hlen, hnum], ?_, ?_⟩
    · intro x hx
      obtain ⟨a, ha, rfl⟩ := List.getElem_of_mem hx
      rw [← List.eraseIdx_eq_take_drop_succ]
      exact (hpieces a ha).1
    · intro k hk t' ht'
      have hsh : t'.shape = B ++ feat k := by rw [← ht'.1]; exact hg.facts.2.2 k hk
      have hit : i < t'.shape.length := by rw [hsh, List.length_append]; omega
      have hat : at0 t'.shape i = at0 B i := by
        rw [hsh]; simp only [at0]; rw [List.getElem?_append_left hi]
      apply stack_flatten_base t' i hit (by rw [hat, ← hnum]; exact hpos)
      · rw [List.length_map, hlen, hat]
      · intro p hp
        have hp' : p < (resUnbind r i).length := by simpa using hp
        simp only [List.getElem_map]
        refine T.Eqv.trans ((hpieces p hp').2 k hk) ?_
        apply T.select_congr ht' i p
        · rw [ht'.1]; exact hit
        · rw [ht'.1, hat, ← hlen]; exact hp'
  | n + 1, r, B, hg, hle, hpos => by
    have hi : i < B.length := by omega
    obtain ⟨hlen, hpieces⟩ := good_unbind B keys feat r hg i hi
    have hdt := drop_take_succ B i (n + 1) hi
    rw [hdt] at hpos ⊢
    obtain ⟨hs, hM⟩ := numel_pos_cons _ _ hpos
    let B' := B.eraseIdx i
    have hB'l : B'.length = B.length - 1 := List.length_eraseIdx_of_lt hi
    have hB'dt : (B'.drop i).take (n + 1) = (B.drop (i + 1)).take (n + 1) := by
      simp only [B']; rw [drop_eraseIdx_self]
    have hB'take : B'.take i ++ B'.drop (i + (n + 1)) = B.take i ++ B.drop (i + (n + 1 + 1)) := by
      simp only [B']
      rw [take_eraseIdx_self, show i + (n + 1) = i + (n + 1) from rfl,
        ← List.drop_drop (i := n + 1) (j := i), drop_eraseIdx_self, List.drop_drop]
      congr 2; omega
    have ih := fun (a : Nat) (ha : a < (resUnbind r i).length) =>
      flatten_pieces keys feat i n (resUnbind r i)[a] B' (hpieces a ha).1 (by omega)
        (by rw [hB'dt]; exact hM)
    rw [iterUnbindR_succ']
    refine ⟨?_, ?_, ?_⟩
    · rw [List.length_flatMap, numel_cons]
      have : ((resUnbind r i).map fun p => (iterUnbindR p i (n + 1)).length)
          = List.replicate (at0 B i) (numel ((B.drop (i + 1)).take (n + 1))) := by
        apply List.ext_getElem
        · simp [hlen]
        · intro a h1 h2
          simp only [List.getElem_map, List.getElem_replicate]
          rw [(ih a (by simpa using h1)).1, hB'dt]
      rw [this, sum_replicate']
    · intro x hx
      simp only [List.mem_flatMap] at hx
      obtain ⟨p, hp, hxp⟩ := hx
      obtain ⟨a, ha, rfl⟩ := List.getElem_of_mem hp
      have := (ih a ha).2.1 x hxp
      rw [hB'take] at this
      exact this
    · intro k hk t' ht'
      have hsh : t'.shape = B ++ feat k := by rw [← ht'.1]; exact hg.facts.2.2 k hk
      have hit : i < t'.shape.length := by rw [hsh, List.length_append]; omega
      have hat : at0 t'.shape i = at0 B i := by
        rw [hsh]; simp only [at0]; rw [List.getElem?_append_left hi]
      have htd : (t'.shape.drop (i + 1)).take (n + 1) = (B.drop (i + 1)).take (n + 1) := by
        rw [hsh]; exact take_drop_append B (feat k) (i + 1) (n + 1) (by omega)
      rw [List.map_flatMap, flatMap_eq_range, hlen, ← hat]
      apply stack_flatten_step t' i (n + 1) hit (by rw [hat]; exact hs) (by rw [htd]; exact hM)
        ((B.take i ++ B.drop (i + (n + 1 + 1))) ++ feat k)
        (by simp [List.length_take]; omega)
      · intro a ha x hx
        have ha' : a < (resUnbind r i).length := by rw [hlen, ← hat]; exact ha
        rw [List.getElem?_eq_getElem ha'] at hx
        simp only [Option.map_some, Option.getD_some, List.mem_map] at hx
        obtain ⟨y, hy, rfl⟩ := hx
        have := ((ih a ha').2.1 y hy).facts.2.2 k hk
        rw [hB'take] at this
        exact this
      · intro a ha
        have ha' : a < (resUnbind r i).length := by rw [hlen, ← hat]; exact ha
        rw [List.getElem?_eq_getElem ha']
        simp only [Option.map_some, Option.getD_some, List.length_map]
        rw [(ih a ha').1, hB'dt, htd]
      · intro a ha
        have ha' : a < (resUnbind r i).length := by rw [hlen, ← hat]; exact ha
        rw [List.getElem?_eq_getElem ha']
        simp only [Option.map_some, Option.getD_some]
        apply (ih a ha').2.2 k hk
        refine T.Eqv.trans ((hpieces a ha').2 k hk) ?_
        apply T.select_congr ht' i a
        · rw [ht'.1]; exact hit
        · rw [ht'.1]; exact ha

end TdVerif.C08

namespace TdVerif.C08

theorem checkIsFlatten_spec (new old : Shape) (i j : Nat) (h : checkIsFlatten new old = some (i, j)) :
    i ≤ j ∧ j < old.length ∧
      new = old.take i ++ [numel ((old.drop i).take (j - i + 1))] ++ old.drop (j + 1) := by
  unfold checkIsFlatten at h
  split at h
  · simp at h
  rename_i hc
  dsimp only at h
  generalize hnm : old.length - new.length = nm at h
  simp only [Option.map_eq_some_iff, Prod.mk.injEq] at h
  obtain ⟨i', hf, rfl, rfl⟩ := h
  have hp := List.find?_some hf
  have hmem := List.mem_of_find?_eq_some hf
  simp only [List.mem_range] at hmem
  simp only [Bool.and_eq_true, beq_iff_eq] at hp
  obtain ⟨⟨h1, h2⟩, h3⟩ := hp
  have hlen : new.length ≤ old.length := by
    have : ¬ old.length < new.length := fun hh => hc (Or.inr hh)
    omega
  refine ⟨by omega, by omega, ?_⟩
  have hnew : new = new.take i' ++ [at0 new i'] ++ new.drop (i' + 1) := (take_append_drop_succ new i' hmem).symm
  have e1 : i' + nm - i' + 1 = nm + 1 := by omega
  rw [e1]
  calc new = new.take i' ++ [at0 new i'] ++ new.drop (i' + 1) := hnew
    _ = _ := by rw [h1, h2, h3]

theorem numel_pos_iff : ∀ (s : Shape), 0 < numel s ↔ ∀ x ∈ s, 0 < x
  | [] => by simp [numel_nil]
  | d :: ds => by
    rw [numel_cons]
    constructor
    · intro h x hx
      have hd : 0 < d := Nat.pos_of_ne_zero (by intro h0; rw [h0] at h; simp at h)
      have hds : 0 < numel ds := Nat.pos_of_ne_zero (by intro h0; rw [h0] at h; simp at h)
      simp only [List.mem_cons] at hx
      rcases hx with rfl | hx
      · exact hd
      · exact (numel_pos_iff ds).mp hds x hx
    · intro h
      exact Nat.mul_pos (h d (by simp)) ((numel_pos_iff ds).mpr fun x hx => h x (by simp [hx]))

/-- **view / reshape / flatten of a lazy stack (flatten branch)**: the lazily stacked pieces
materialise to the dense stack with every entry flattened over the merged dims -/
theorem view_flatten_refines [Inhabited α] (L : Lazy α) (b : Shape) (keys : List String) (feat : String → Shape)
    (hU : Uniform L b keys feat) (hne0 : L.members ≠ []) (hpos : 0 < numel L.batch)
    (shape : Shape) (r : LRes2 α) (h : lazyView L shape = some r) :
    ∃ i m, 1 ≤ m ∧ i + m ≤ L.batch.length ∧
      shape = L.batch.take i ++ [numel ((L.batch.drop i).take m)] ++ L.batch.drop (i + m) ∧
      absR2 r ≈ (absL L).mapLeaves shape (fun t => t.flattenAt i m) := by
  unfold lazyView at h
  simp only [Option.map_eq_some_iff] at h
  obtain ⟨⟨i, j⟩, hc, rfl⟩ := h
  obtain ⟨hij, hj, hshape⟩ := checkIsFlatten_spec _ _ _ _ hc
  obtain ⟨n, hn⟩ : ∃ n, j - i + 1 = n + 1 := ⟨j - i, rfl⟩
  have hjn : j + 1 = i + (n + 1) := by omega
  refine ⟨i, n + 1, by omega, by omega, by rw [hshape, hn, hjn], ?_⟩
  have hgood : GoodR L.batch keys feat (.lazy L) := ⟨⟨b, hU⟩, hne0, rfl⟩
  have hsub : 0 < numel ((L.batch.drop i).take (n + 1)) := by
    rw [numel_pos_iff] at hpos ⊢
    intro x hx
    exact hpos x (List.mem_of_mem_drop (List.mem_of_mem_take hx))
  obtain ⟨hlen, hgoodP, hleaf⟩ := flatten_pieces keys feat i n (.lazy L) L.batch hgood (by omega) hsub
  simp only [hn]
  have hPne : iterUnbindR (.lazy L) i (n + 1) ≠ [] := by
    intro hh; rw [hh] at hlen; simp at hlen; omega
  have hi : i ≤ (L.batch.take i ++ L.batch.drop (i + (n + 1))).length := by
    simp [List.length_take]; omega
  show stackTD ((iterUnbindR (.lazy L) i (n + 1)).map absR) i ≈ _
  refine ⟨?_, ?_, ?_⟩
  · show (((iterUnbindR (.lazy L) i (n + 1)).map absR).head?.map TD.batch |>.getD []).insertIdx i _ = shape
    rw [head_of_all TD.batch [] (L.batch.take i ++ L.batch.drop (i + (n + 1))) _ (by simpa using hPne)
      (by
        intro y hy
        simp only [List.mem_map] at hy
        obtain ⟨x, hx, rfl⟩ := hy
        exact (hgoodP x hx).facts.1),
      List.length_map, hlen, insertIdx_append_mid _ _ _ i (by simp [List.length_take]; omega), hshape, hn, hjn]
    simp
  · show (((iterUnbindR (.lazy L) i (n + 1)).map absR).head?.map TD.keys |>.getD []) = (absL L).keys
    rw [head_of_all TD.keys [] keys _ (by simpa using hPne)
      (by
        intro y hy
        simp only [List.mem_map] at hy
        obtain ⟨x, hx, rfl⟩ := hy
        exact (hgoodP x hx).facts.2.1), absL_keys L b keys feat hU hne0]
  · intro k hk
    have hk' : k ∈ keys := by
      have : (stackTD ((iterUnbindR (.lazy L) i (n + 1)).map absR) i).keys = keys :=
        head_of_all TD.keys [] keys _ (by simpa using hPne)
          (by
            intro y hy
            simp only [List.mem_map] at hy
            obtain ⟨x, hx, rfl⟩ := hy
            exact (hgoodP x hx).facts.2.1)
      rw [this] at hk; exact hk
    show T.stack (((iterUnbindR (.lazy L) i (n + 1)).map absR).map fun m => m.leaf k) i ≈ₜ _
    rw [List.map_map]
    exact hleaf k hk' _ (T.Eqv.refl' _)

end TdVerif.C08
