/-
  C04 — flatten_keys followed by unflatten_keys: lemmas for `flatten_unflatten_roundtrip` (Props/C04.lean).
  Part 1: `key.split(sep)` undoes `sep.join(path)` when no component contains the separator.
  Part 2: the loop of renames of `unflatten_keys`, followed on the set of bound paths.
-/
import TdVerif.Model.C04Tree
import TdVerif.Model.C04Spec
import TdVerif.Lemmas.C04

namespace TdVerif.C04
open TdVerif

/-! ### split ∘ join -/

theorem splitOnChar_nosep (sep : Char) (l : List Char) (h : sep ∉ l) : splitOnChar sep l = [l] := by
  induction l with
  | nil => simp [splitOnChar]
  | cons c r ih =>
    simp only [List.mem_cons, not_or] at h
    have hc : (c == sep) = false := by simpa using fun e => h.1 e.symm
    simp [splitOnChar, hc, ih h.2]

theorem splitOnChar_append (sep : Char) (l r : List Char) (h : sep ∉ l) :
    splitOnChar sep (l ++ sep :: r) = l :: splitOnChar sep r := by
  induction l with
  | nil => simp [splitOnChar]
  | cons c t ih =>
    simp only [List.mem_cons, not_or] at h
    have hc : (c == sep) = false := by simpa using fun e => h.1 e.symm
    simp [splitOnChar, hc, ih h.2]

theorem intercalate_cons_cons' {α} (s : List α) (a b : List α) (r : List (List α)) :
    s.intercalate (a :: b :: r) = a ++ s ++ s.intercalate (b :: r) := by
  simp [List.intercalate, List.intersperse]

theorem splitOnChar_intercalate (sep : Char) (ls : List (List Char)) (hne : ls ≠ [])
    (h : ∀ l ∈ ls, sep ∉ l) : splitOnChar sep ([sep].intercalate ls) = ls := by
  induction ls with
  | nil => exact absurd rfl hne
  | cons a r ih =>
    cases r with
    | nil => simpa [List.intercalate] using splitOnChar_nosep sep a (h a (by simp))
    | cons b r' =>
      rw [intercalate_cons_cons']
      have := splitOnChar_append sep a ([sep].intercalate (b :: r')) (h a (by simp))
      simp only [List.append_assoc, List.singleton_append]
      rw [this, ih (by simp) (fun l hl => h l (List.mem_cons_of_mem _ hl))]

/-! ### a one-character separator seen as a string -/

theorem hasInfix_singleton (c : Char) (l : List Char) : hasInfix [c] l = l.contains c := by
  induction l with
  | nil => simp [hasInfix]
  | cons x r ih =>
    simp only [hasInfix, ih, List.contains_cons]
    have : [c].isPrefixOf (x :: r) = (c == x) := by simp [List.isPrefixOf]
    rw [this]

theorem sepIn_singleton (c : Char) (k : String) : sepIn (String.singleton c) k = k.toList.contains c := by
  simp [sepIn, hasInfix_singleton]

theorem splitOnChar_ne_nil (c : Char) (l : List Char) : splitOnChar c l ≠ [] := by
  induction l with
  | nil => simp [splitOnChar]
  | cons x r ih =>
    simp only [splitOnChar]
    split
    · simp
    · split <;> simp

theorem splitOnStr_singleton (c : Char) : ∀ (l : List Char) (n : Nat) (cur : List Char), l.length < n →
    splitOnStr [c] n l cur = match splitOnChar c l with
      | h :: t => (cur.reverse ++ h) :: t
      | [] => [cur.reverse] := by
  intro l
  induction l with
  | nil =>
    intro n cur hn
    cases n with
    | zero => simp at hn
    | succ m => simp [splitOnStr, splitOnChar]
  | cons x r ih =>
    intro n cur hn
    cases n with
    | zero => simp at hn
    | succ m =>
      have hm : r.length < m := by simp at hn; omega
      simp only [splitOnStr, splitOnChar]
      have hp : [c].isPrefixOf (x :: r) = (c == x) := by simp [List.isPrefixOf]
      rw [hp]
      by_cases h : c = x
      · subst h
        simp only [beq_self_eq_true, if_true, List.length_singleton, List.drop_succ_cons, List.drop_zero]
        rw [ih m [] hm]
        cases hs : splitOnChar c r with
        | nil => exact absurd hs (splitOnChar_ne_nil c r)
        | cons h t => simp
      · have h1 : (c == x) = false := by simpa using h
        have h2 : (x == c) = false := by simpa using fun e => h e.symm
        simp only [h1, h2, Bool.false_eq_true, if_false]
        rw [ih m (x :: cur) hm]
        cases hs : splitOnChar c r with
        | nil => exact absurd hs (splitOnChar_ne_nil c r)
        | cons h t => simp

theorem splitKeyS_singleton (c : Char) (k : String) : splitKeyS (String.singleton c) k = splitKey c k := by
  simp only [splitKeyS, splitKey]
  have : (String.singleton c).toList = [c] := by simp
  rw [this, splitOnStr_singleton c k.toList (k.length + 1) [] (by rw [String.length_toList]; omega)]
  cases hs : splitOnChar c k.toList with
  | nil => exact absurd hs (splitOnChar_ne_nil c _)
  | cons h t => simp

/-- no component of the path contains the separator -/
def SepFreeP (sep : Char) (p : Path) : Prop := ∀ c ∈ p, sep ∉ c.toList

theorem splitKey_join (sep : Char) (p : Path) (hne : p ≠ []) (h : SepFreeP sep p) :
    splitKey sep (joinWith (String.singleton sep) p) = p := by
  simp only [splitKey, joinWith, String.toList_intercalate]
  have : (String.singleton sep).toList = [sep] := by simp
  rw [this, splitOnChar_intercalate sep (p.map String.toList) (by simpa using hne)
    (by intro l hl; obtain ⟨c, hc, rfl⟩ := List.mem_map.mp hl; exact h c hc)]
  simp [List.map_map, Function.comp_def, String.ofList_toList]

theorem join_inj (sep : Char) (p q : Path) (hp : p ≠ []) (hq : q ≠ []) (h1 : SepFreeP sep p) (h2 : SepFreeP sep q)
    (h : joinWith (String.singleton sep) p = joinWith (String.singleton sep) q) : p = q := by
  rw [← splitKey_join sep p hp h1, ← splitKey_join sep q hq h2, h]

theorem join_singleton (s c : String) : joinWith s [c] = c := by simp [joinWith]

theorem join_contains_sep (sep : Char) (p : Path) (hne : p ≠ []) (h : SepFreeP sep p) :
    (joinWith (String.singleton sep) p).toList.contains sep = decide (2 ≤ p.length) := by
  cases p with
  | nil => exact absurd rfl hne
  | cons a r =>
    cases r with
    | nil =>
      have : sep ∉ a.toList := h a (by simp)
      simp [join_singleton, this]
    | cons b r' =>
      simp [joinWith, String.intercalate_cons_cons, String.toList_append]


/-! ### the renames of `unflatten_keys`, followed on the bound paths -/

theorem lookup_append (q r : Path) (t : Entry) : lookup (q ++ r) t = (lookup q t).bind (lookup r) := by
  induction q generalizing t with
  | nil => simp [lookup]
  | cons k rest ih =>
    cases t with
    | leaf nt v => simp [lookup]
    | node kids =>
      simp only [List.cons_append, lookup_cons_node]
      cases dget k kids with
      | none => simp
      | some c => simp [ih]

theorem throughLeaf_witness (p : Path) (t : Entry) (h : throughLeaf p t = true) :
    ∃ q r nt x, p = q ++ r ∧ r ≠ [] ∧ lookup q t = some (.leaf nt x) := by
  fun_induction throughLeaf p t
  · simp at h
  · rename_i a r nt x
    exact ⟨[], a :: r, nt, x, by simp, by simp, by simp [lookup]⟩
  · simp at h
  · rename_i k k2 rest kids c hc ih
    obtain ⟨q, r, nt, x, hp, hr, hl⟩ := ih h
    exact ⟨k :: q, r, nt, x, by simp [hp], hr, by rw [lookup_cons_node, hc]; simpa using hl⟩
  · simp at h

theorem insert_node_isNode (p : Path) (v : Entry) (kids : Kids) (t' : Entry) (h : insert p v (.node kids) = some t') :
    ∃ kids', t' = .node kids' := by
  cases p with
  | nil => simp [C04.insert] at h
  | cons k r =>
    cases r with
    | nil => simp [C04.insert] at h; exact ⟨_, h.symm⟩
    | cons k2 r' =>
      simp only [C04.insert] at h
      split at h
      · simp at h; obtain ⟨c, _, rfl⟩ := h; exact ⟨_, rfl⟩
      · simp at h; obtain ⟨c, _, rfl⟩ := h; exact ⟨_, rfl⟩
      · simp at h

theorem nodup_map_on {α β} (f : α → β) (l : List α) (hinj : ∀ a ∈ l, ∀ b ∈ l, f a = f b → a = b) (h : l.Nodup) :
    (l.map f).Nodup := by
  induction l with
  | nil => simp
  | cons x r ih =>
    rw [List.nodup_cons] at h
    rw [List.map_cons, List.nodup_cons]
    refine ⟨?_, ih (fun a ha b hb => hinj a (List.mem_cons_of_mem _ ha) b (List.mem_cons_of_mem _ hb)) h.2⟩
    intro hm
    obtain ⟨y, hy, hxy⟩ := List.mem_map.mp hm
    have := hinj y (List.mem_cons_of_mem _ hy) x (by simp) hxy
    subst this; exact h.1 hy

theorem views_leaves_nodup (kids : Kids) (hw : WF (.node kids)) : ((leavesOf (.node kids)).map (·.1)).Nodup := by
  rw [← keysView_leaves]
  have h : (iterHelper true true (.node kids) []).Nodup := by
    simp only [iterHelper]; exact iterHelper_go_nodup true true kids [] hw
  simpa [keysView] using h

/-- the facts about the leaves of the original tree that the argument uses -/
structure Glob (sep : Char) (L : List (Path × Entry)) : Prop where
  ne : ∀ pv ∈ L, pv.1 ≠ []
  sf : ∀ pv ∈ L, SepFreeP sep pv.1
  lf : ∀ pv ∈ L, ∃ nt x, pv.2 = .leaf nt x
  pf : ∀ pv ∈ L, ∀ qw ∈ L, isPrefix pv.1 qw.1 = true → pv = qw
  nd : (L.map (·.1)).Nodup

/-- `D`: the leaves already moved to their nested place; `P`: the leaves still stored under their flat name -/
structure Inv (sep : Char) (S : Entry) (D P : List (Path × Entry)) : Prop where
  wf : WF S
  nd : ∃ kids, S = .node kids
  done : ∀ pv ∈ D, lookup pv.1 S = some pv.2
  pend : ∀ pv ∈ P, lookup [joinWith (String.singleton sep) pv.1] S = some pv.2
  all : ∀ q e, q ≠ [] → lookup q S = some e →
    (∃ pv ∈ D, isPrefix q pv.1 = true) ∨ (∃ pv ∈ P, q = [joinWith (String.singleton sep) pv.1])

theorem isPrefix_refl (p : Path) : isPrefix p p = true := (isPrefix_iff_append p p).mpr ⟨[], by simp⟩

/-- a sep-free component that is a joined name comes from a one-component path -/
theorem join_eq_sepfree (sep : Char) (p : Path) (c : String) (hne : p ≠ []) (hs : SepFreeP sep p) (hc : sep ∉ c.toList)
    (h : joinWith (String.singleton sep) p = c) : p = [c] := by
  have hcont := join_contains_sep sep p hne hs
  rw [h] at hcont
  have : ¬ 2 ≤ p.length := by
    intro h2
    have : c.toList.contains sep = true := by rw [hcont]; simpa using h2
    exact hc (by simpa using this)
  cases p with
  | nil => exact absurd rfl hne
  | cons a r =>
    cases r with
    | nil => rw [join_singleton] at h; rw [h]
    | cons b r' => simp at this


theorem lookup_ddel_head_same (k : String) (r : Path) (kids : Kids) (hn : (kids.map (·.1)).Nodup) :
    lookup (k :: r) (.node (ddel k kids)) = none := by
  rw [lookup_cons_node, dget_ddel_same k kids hn]; rfl

theorem lookup_ddel_head_other (k a : String) (r : Path) (kids : Kids) (h : k ≠ a) :
    lookup (a :: r) (.node (ddel k kids)) = lookup (a :: r) (.node kids) := by
  rw [lookup_cons_node, lookup_cons_node, dget_ddel_other h]

/-- one flat name without separator: nothing to rename -/
theorem inv_skip (sep : Char) (S : Entry) (D P' : List (Path × Entry)) (c : String) (v : Entry)
    (h : Inv sep S D (([c], v) :: P')) : Inv sep S (D ++ [([c], v)]) P' := by
  refine ⟨h.wf, h.nd, ?_, fun pv hm => h.pend pv (List.mem_cons_of_mem _ hm), ?_⟩
  · intro pv hm
    rcases List.mem_append.mp hm with hm | hm
    · exact h.done pv hm
    · simp at hm; subst hm
      have := h.pend ([c], v) (by simp)
      simpa [join_singleton] using this
  · intro q e hq hl
    rcases h.all q e hq hl with ⟨pv, hm, hp⟩ | ⟨pv, hm, hp⟩
    · exact Or.inl ⟨pv, List.mem_append_left _ hm, hp⟩
    · rcases List.mem_cons.mp hm with rfl | hm
      · refine Or.inl ⟨([c], v), by simp, ?_⟩
        rw [hp]; simp [join_singleton, isPrefix_refl]
      · exact Or.inr ⟨pv, hm, hp⟩

/-- one flat name with separators: `rename_key_(name, name.split(sep), safe=True)` is accepted and moves the leaf -/
theorem inv_rename (sep : Char) (S : Entry) (D P' : List (Path × Entry)) (p : Path) (v : Entry)
    (hlen : 2 ≤ p.length) (hg : Glob sep (D ++ (p, v) :: P')) (h : Inv sep S D ((p, v) :: P')) :
    ∃ S2, specRename [joinWith (String.singleton sep) p] p true S = (S2, .ok) ∧ Inv sep S2 (D ++ [(p, v)]) P' := by
  obtain ⟨kids, rfl⟩ := h.nd
  have hmem : (p, v) ∈ D ++ (p, v) :: P' := by simp
  have hpne : p ≠ [] := hg.ne _ hmem
  have hpsf : SepFreeP sep p := hg.sf _ hmem
  obtain ⟨nt, x, hv0⟩ := hg.lf _ hmem
  have hv : v = .leaf nt x := hv0
  clear hv0
  -- p is neither in D nor in P'
  have hnd := hg.nd
  rw [List.map_append, List.map_cons] at hnd
  have hndD : p ∉ D.map (·.1) := fun hc => (List.nodup_append.mp hnd).2.2 p hc p (by simp) rfl
  have hndP : p ∉ P'.map (·.1) := (List.nodup_cons.mp (List.nodup_append.mp hnd).2.1).1
  obtain ⟨c, c2, rest, rfl⟩ : ∃ c c2 rest, p = c :: c2 :: rest := by
    match p, hlen with
    | c :: c2 :: rest, _ => exact ⟨c, c2, rest, rfl⟩
  generalize hk : joinWith (String.singleton sep) (c :: c2 :: rest) = k at *
  have hkc : k.toList.contains sep = true := by
    rw [← hk, join_contains_sep sep _ hpne hpsf]; simp
  have hck : k ≠ c := by
    intro e; subst e
    exact hpsf k (by simp) (by simpa using hkc)
  -- heads of leaf paths differ from k
  have head_ne : ∀ pv ∈ D ++ (c :: c2 :: rest, v) :: P', ∀ a r, pv.1 = a :: r → k ≠ a := by
    intro pv hm a r hpa e; subst e
    have := hg.sf pv hm k (by rw [hpa]; simp)
    exact this (by simpa using hkc)
  have hlk : lookup [k] (.node kids) = some v := by have := h.pend _ (List.mem_cons_self ..); rwa [hk] at this
  -- the target is free
  have hfree : lookup (c :: c2 :: rest) (.node kids) = none := by
    cases hl : lookup (c :: c2 :: rest) (.node kids) with
    | none => rfl
    | some e =>
      exfalso
      rcases h.all _ e (by simp) hl with ⟨pv, hm, hp⟩ | ⟨pv, hm, hp⟩
      · have := hg.pf _ hmem pv (List.mem_append_left _ hm) hp
        exact hndD (List.mem_map.mpr ⟨pv, hm, by rw [← this]⟩)
      · simp at hp
  have hkn := h.wf.kids_nodup
  have hrem : remove [k] (.node kids) = some (.node (ddel k kids)) := by
    have : (dget k kids).isSome = true := by
      rw [lookup_cons_node] at hlk
      cases hd : dget k kids with
      | none => simp [hd] at hlk
      | some _ => rfl
    simp [remove, this]
  have hwf1 : WF (.node (ddel k kids)) := h.wf.ddel k
  -- the write does not run through a leaf
  have hthrough : throughLeaf (c :: c2 :: rest) (.node (ddel k kids)) = false := by
    cases ht : throughLeaf (c :: c2 :: rest) (.node (ddel k kids)) with
    | false => rfl
    | true =>
      exfalso
      obtain ⟨q, r, nt', x', hp, hr, hl⟩ := throughLeaf_witness _ _ ht
      cases q with
      | nil => simp [lookup] at hl
      | cons a q' =>
        have ha : a = c := by simp at hp; exact hp.1.symm
        subst ha
        rw [lookup_ddel_head_other k a q' kids hck] at hl
        rcases h.all _ _ (by simp) hl with ⟨pv, hm, hpre⟩ | ⟨pv, hm, hq⟩
        · obtain ⟨ext, hext⟩ := (isPrefix_iff_append _ _).mp hpre
          have hd := h.done pv hm
          have hext' : ext = [] := by
            cases ext with
            | nil => rfl
            | cons e1 e2 =>
              have := lookup_below_leaf (a :: q') (e1 :: e2) (.node kids) nt' x' (by simp) hl
              rw [← hext, hd] at this; simp at this
          subst hext'
          simp at hext
          have hpp : isPrefix pv.1 (a :: c2 :: rest) = true := by
            rw [hext]; exact (isPrefix_iff_append _ _).mpr ⟨r, hp⟩
          have := hg.pf pv (List.mem_append_left _ hm) _ hmem hpp
          exact hndD (List.mem_map.mpr ⟨pv, hm, by rw [this]⟩)
        · simp at hq
          obtain ⟨ha, _⟩ := hq
          have hmL : pv ∈ D ++ (a :: c2 :: rest, v) :: P' := List.mem_append_right _ hm
          have hone := join_eq_sepfree sep pv.1 a (hg.ne pv hmL) (hg.sf pv hmL) (hpsf _ (by simp)) ha.symm
          have hpp : isPrefix pv.1 (a :: c2 :: rest) = true := by rw [hone]; simp [isPrefix]
          have := hg.pf pv hmL _ hmem hpp
          rw [this] at hone
          simp at hone
  have hins : ∃ S2, insert (c :: c2 :: rest) v (.node (ddel k kids)) = some S2 := by
    cases hi : insert (c :: c2 :: rest) v (.node (ddel k kids)) with
    | some S2 => exact ⟨S2, rfl⟩
    | none =>
      rcases (insert_eq_none_iff _ _ _).mp hi with h0 | h0
      · simp at h0
      · rw [hthrough] at h0; simp at h0
  obtain ⟨S2, hS2⟩ := hins
  refine ⟨S2, ?_, ?_⟩
  · have hne1 : ¬ ([k] = ([] : Path) ∨ (c :: c2 :: rest) = []) := by simp
    have hne2 : [k] ≠ c :: c2 :: rest := by simp
    simp [specRename, hlk, has, hfree, hrem, hS2]
  · have hsame := lookup_insert_same _ _ _ _ hS2
    have hother := lookup_insert_other _ _ _ _ hS2
    refine ⟨wf_insert _ _ _ _ hwf1 (by rw [hv]; exact WF.leaf nt x) hS2, insert_node_isNode _ _ _ _ hS2, ?_, ?_, ?_⟩
    · intro pv hm
      rcases List.mem_append.mp hm with hm | hm
      · have hmL : pv ∈ D ++ (c :: c2 :: rest, v) :: P' := List.mem_append_left _ hm
        have hne : pv.1 ≠ c :: c2 :: rest := fun e => hndD (List.mem_map.mpr ⟨pv, hm, e⟩)
        have h1 : isPrefix (c :: c2 :: rest) pv.1 = false := by
          cases hb : isPrefix (c :: c2 :: rest) pv.1 with
          | false => rfl
          | true => exact absurd (congrArg Prod.fst (hg.pf _ hmem pv hmL hb)).symm hne
        have h2 : isPrefix pv.1 (c :: c2 :: rest) = false := by
          cases hb : isPrefix pv.1 (c :: c2 :: rest) with
          | false => rfl
          | true => exact absurd (congrArg Prod.fst (hg.pf pv hmL _ hmem hb)) hne
        rw [hother pv.1 h1 h2]
        cases hpv : pv.1 with
        | nil => exact absurd hpv (hg.ne pv hmL)
        | cons a r =>
          rw [lookup_ddel_head_other k a r kids (head_ne pv hmL a r hpv), ← hpv]
          exact h.done pv hm
      · simp at hm; subst hm; exact hsame
    · intro pv hm
      have hmL : pv ∈ D ++ (c :: c2 :: rest, v) :: P' := List.mem_append_right _ (List.mem_cons_of_mem _ hm)
      have hne : pv.1 ≠ c :: c2 :: rest := fun e => hndP (List.mem_map.mpr ⟨pv, hm, e⟩)
      have hj : joinWith (String.singleton sep) pv.1 ≠ c := by
        intro e
        have hone := join_eq_sepfree sep pv.1 c (hg.ne pv hmL) (hg.sf pv hmL) (hpsf c (by simp)) e
        have hpp : isPrefix pv.1 (c :: c2 :: rest) = true := by rw [hone]; simp [isPrefix]
        exact hne (congrArg Prod.fst (hg.pf pv hmL _ hmem hpp))
      have hjk : k ≠ joinWith (String.singleton sep) pv.1 := by
        intro e
        rw [← hk] at e
        exact hne (join_inj sep _ _ hpne (hg.ne pv hmL) hpsf (hg.sf pv hmL) e).symm
      rw [hother [joinWith (String.singleton sep) pv.1] (by simp [isPrefix]) (by simp [isPrefix, hj])]
      rw [lookup_ddel_head_other k _ [] kids hjk]
      exact h.pend pv (List.mem_cons_of_mem _ hm)
    · intro q e hq hl
      by_cases hqp : isPrefix q (c :: c2 :: rest) = true
      · exact Or.inl ⟨(c :: c2 :: rest, v), by simp, hqp⟩
      · by_cases hpq : isPrefix (c :: c2 :: rest) q = true
        · exfalso
          obtain ⟨ext, rfl⟩ := (isPrefix_iff_append _ _).mp hpq
          cases ext with
          | nil => simp [isPrefix_refl] at hqp
          | cons e1 e2 =>
            have := lookup_below_leaf (c :: c2 :: rest) (e1 :: e2) S2 nt x (by simp) (by rw [hsame, hv])
            rw [this] at hl; simp at hl
        · rw [hother q (by simpa using hpq) (by simpa using hqp)] at hl
          cases q with
          | nil => exact absurd rfl hq
          | cons a r =>
            by_cases hak : k = a
            · subst hak; rw [lookup_ddel_head_same k r kids hkn] at hl; simp at hl
            · rw [lookup_ddel_head_other k a r kids hak] at hl
              rcases h.all _ e (by simp) hl with ⟨pv, hm, hp⟩ | ⟨pv, hm, hp⟩
              · exact Or.inl ⟨pv, List.mem_append_left _ hm, hp⟩
              · rcases List.mem_cons.mp hm with rfl | hm
                · simp [hk] at hp; exact absurd hp.1.symm hak
                · exact Or.inr ⟨pv, hm, hp⟩


/-- the whole loop: every pending leaf ends at its nested place, no rename is refused -/
theorem unflatten_loop_inv (sep : Char) : ∀ (P D : List (Path × Entry)) (S : Entry),
    Glob sep (D ++ P) → Inv sep S D P →
    ∃ S', specUnflattenLoop (String.singleton sep) (P.map fun pv => joinWith (String.singleton sep) pv.1) S = (S', .ok) ∧
      Inv sep S' (D ++ P) [] := by
  intro P
  induction P with
  | nil => intro D S _ h; exact ⟨S, by simp [specUnflattenLoop], by simpa using h⟩
  | cons pv P' ih =>
    intro D S hg h
    obtain ⟨p, v⟩ := pv
    have hmem : (p, v) ∈ D ++ (p, v) :: P' := by simp
    have hpne : p ≠ [] := hg.ne _ hmem
    have hpsf : SepFreeP sep p := hg.sf _ hmem
    have hassoc : (D ++ [(p, v)]) ++ P' = D ++ (p, v) :: P' := by simp
    by_cases hlen : 2 ≤ p.length
    · obtain ⟨S2, hr, hinv⟩ := inv_rename sep S D P' p v hlen hg h
      obtain ⟨S', hl, hfin⟩ := ih (D ++ [(p, v)]) S2 (by rw [hassoc]; exact hg) hinv
      refine ⟨S', ?_, by rw [hassoc] at hfin; exact hfin⟩
      simp only [List.map_cons, specUnflattenLoop, sepIn_singleton, splitKeyS_singleton]
      rw [join_contains_sep sep p hpne hpsf, splitKey_join sep p hpne hpsf]
      simp only [hlen, decide_true, if_true, hr]
      exact hl
    · obtain ⟨c, rfl⟩ : ∃ c, p = [c] := by
        match p, hpne, hlen with
        | [c], _, _ => exact ⟨c, rfl⟩
        | _ :: _ :: _, _, h => simp at h
      obtain ⟨S', hl, hfin⟩ := ih (D ++ [([c], v)]) S (by rw [hassoc]; exact hg) (inv_skip sep S D P' c v h)
      refine ⟨S', ?_, by rw [hassoc] at hfin; exact hfin⟩
      simp only [List.map_cons, specUnflattenLoop, sepIn_singleton]
      rw [join_contains_sep sep [c] hpne hpsf]
      simpa using hl

/-- the flat dict `flatten_keys` produced satisfies the invariant with every leaf pending -/
theorem inv_init (sep : Char) (L : List (Path × Entry)) (hg : Glob sep L) :
    Inv sep (.node (L.map fun pv => (joinWith (String.singleton sep) pv.1, pv.2))) [] L := by
  have hkeys : ((L.map fun pv => (joinWith (String.singleton sep) pv.1, pv.2)).map (·.1)).Nodup := by
    rw [List.map_map]
    have : ((fun x : String × Entry => x.1) ∘ fun pv : Path × Entry => (joinWith (String.singleton sep) pv.1, pv.2))
        = (fun q => joinWith (String.singleton sep) q) ∘ (fun pv : Path × Entry => pv.1) := rfl
    rw [this, ← List.map_map]
    refine nodup_map_on _ _ ?_ hg.nd
    intro a ha b hb hab
    obtain ⟨pa, hpa, rfl⟩ := List.mem_map.mp ha
    obtain ⟨pb, hpb, rfl⟩ := List.mem_map.mp hb
    exact join_inj sep _ _ (hg.ne _ hpa) (hg.ne _ hpb) (hg.sf _ hpa) (hg.sf _ hpb) hab
  refine ⟨WF.node _ hkeys ?_, ⟨_, rfl⟩, by simp, ?_, ?_⟩
  · intro k e hm
    obtain ⟨pv, hpv, heq⟩ := List.mem_map.mp hm
    obtain ⟨nt, x, hl⟩ := hg.lf pv hpv
    simp at heq; rw [← heq.2, hl]; exact WF.leaf nt x
  · intro pv hm
    rw [lookup_cons_node]
    have : dget (joinWith (String.singleton sep) pv.1) (L.map fun pv => (joinWith (String.singleton sep) pv.1, pv.2)) = some pv.2 :=
      (mem_kids_iff_dget hkeys).mp (List.mem_map.mpr ⟨pv, hm, rfl⟩)
    rw [this]; simp [lookup]
  · intro q e hq hl
    cases q with
    | nil => exact absurd rfl hq
    | cons a r =>
      rw [lookup_cons_node] at hl
      cases hd : dget a (L.map fun pv => (joinWith (String.singleton sep) pv.1, pv.2)) with
      | none => simp [hd] at hl
      | some c =>
        obtain ⟨pv, hpv, heq⟩ := List.mem_map.mp (dget_mem hd)
        simp at heq
        obtain ⟨nt, x, hlf⟩ := hg.lf pv hpv
        refine Or.inr ⟨pv, hpv, ?_⟩
        cases r with
        | nil => rw [heq.1]
        | cons r1 r2 =>
          rw [hd, ← heq.2, hlf] at hl; simp [lookup] at hl

/-- the leaves of a well-formed tree whose leaf paths are separator-free -/
theorem glob_leavesOf (sep : Char) (kids : Kids) (hw : WF (.node kids))
    (hs : ∀ p e, bound p e kids → e.isLeafFor true = true → SepFreeP sep p) : Glob sep (leavesOf (.node kids)) := by
  have hm := mem_leavesOf kids hw
  refine ⟨?_, ?_, ?_, ?_, ?_⟩
  · intro pv h; exact ((hm pv.1 pv.2).mp h).1.1
  · intro pv h; exact hs pv.1 pv.2 ((hm pv.1 pv.2).mp h).1 ((hm pv.1 pv.2).mp h).2
  · intro pv h
    have := ((hm pv.1 pv.2).mp h).2
    cases hv : pv.2 with
    | leaf nt x => exact ⟨nt, x, rfl⟩
    | node sub => rw [hv] at this; simp [Entry.isLeafFor] at this
  · intro pv h qw h' hpre
    obtain ⟨ext, hext⟩ := (isPrefix_iff_append _ _).mp hpre
    have h1 := (hm pv.1 pv.2).mp h
    have h2 := (hm qw.1 qw.2).mp h'
    have hlf : ∃ nt x, pv.2 = .leaf nt x := by
      cases hv : pv.2 with
      | leaf nt x => exact ⟨nt, x, rfl⟩
      | node sub => have := h1.2; rw [hv] at this; simp [Entry.isLeafFor] at this
    obtain ⟨nt, x, hv⟩ := hlf
    cases ext with
    | nil =>
      simp at hext
      have : some qw.2 = some pv.2 := by rw [← h2.1.2, ← h1.1.2, hext]
      simp at this
      exact Prod.ext hext.symm this.symm
    | cons e1 e2 =>
      have := lookup_below_leaf pv.1 (e1 :: e2) (.node kids) nt x (by simp) (by rw [h1.1.2, hv])
      rw [← hext, h2.1.2] at this; simp at this
  · have := views_leaves_nodup kids hw
    exact this

end TdVerif.C04
