/-
  C08 — the `_split_index` loop (Model.C08Lazy.splitLoop) computes the clean structural split
  (Lemmas.C08Core.splitRec): same member index, same stack-dim item, and
  `stack_dim - num_single + num_none - num_squash` is the result position of the stack dim.
-/
import TdVerif.Model.C08Lazy
import TdVerif.Lemmas.C08Read
namespace TdVerif.C08

def Q (sd : Nat) (st : SplitSt) : Int := (sd : Int) - st.numSingle + st.numNone - st.numSquash

/-- fields the loop no longer touches once the cursor is past the stack dim -/
structure Same (st st' : SplitSt) : Prop where
  numSingle : st'.numSingle = st.numSingle
  numNone : st'.numNone = st.numNone
  numSquash : st'.numSquash = st.numSquash
  isInteger : st'.isInteger = st.isInteger
  isNd : st'.isNd = st.isNd
  hasBool : st'.hasBool = st.hasBool
  sel : st'.sel = st.sel
  maskLoc : st'.maskLoc = st.maskLoc
  splitDim : st'.splitDim = st.splitDim

theorem splitLoop_after (sd n : Nat) (shape : Shape) : ∀ (ix : List Ix) (i : Nat) (st : SplitSt),
    sd < st.cursor → (∀ it ∈ ix, it ≠ Ix.ell) →
    ∃ st', splitLoop sd n shape ix i st = some st' ∧ st'.out = st.out ++ ix ∧ Same st st'
  | [], i, st, _, _ => ⟨st, rfl, by simp, ⟨rfl, rfl, rfl, rfl, rfl, rfl, rfl, rfl, rfl⟩⟩
  | it :: r, i, st, hc, hne => by
    have hne' : ∀ it ∈ r, it ≠ Ix.ell := fun x hx => hne x (by simp [hx])
    have hc1 : ¬ st.cursor = sd := by omega
    have hc2 : ¬ st.cursor < sd := by omega
    have hc3 : ¬ st.cursor ≤ sd := by omega
    cases it with
    | ell => exact absurd rfl (hne _ (by simp))
    | none =>
      obtain ⟨st', h1, h2, h3⟩ := splitLoop_after sd n shape r (i + 1)
        { st with out := st.out ++ [.none], numNone := st.numNone + (if st.cursor ≤ sd then 1 else 0) } hc hne'
      refine ⟨st', by simpa [splitLoop, splitStep] using h1, by simpa using h2, ?_⟩
      obtain ⟨a, b, c, d, e, f, g, hh, hs⟩ := h3
      exact ⟨a, by simpa [hc3] using b, c, d, e, f, g, hh, hs⟩
    | int k =>
      obtain ⟨st', h1, h2, h3⟩ := splitLoop_after sd n shape r (i + 1)
        { st with numSingle := if st.cursor < sd then st.numSingle + 1 else st.numSingle,
                  out := st.out ++ [.int k], cursor := st.cursor + 1 } (by simp; omega) hne'
      refine ⟨st', by simpa [splitLoop, splitStep, hc1] using h1, by simpa using h2, ?_⟩
      obtain ⟨a, b, c, d, e, f, g, hh, hs⟩ := h3
      exact ⟨by simpa [hc2] using a, b, c, d, e, f, g, hh, hs⟩
    | slice a b c =>
      obtain ⟨st', h1, h2, h3⟩ := splitLoop_after sd n shape r (i + 1)
        { st with out := st.out ++ [.slice a b c], cursor := st.cursor + 1 } (by simp; omega) hne'
      exact ⟨st', by simpa [splitLoop, splitStep, hc1] using h1, by simpa using h2, ⟨h3.1, h3.2, h3.3, h3.4, h3.5, h3.6, h3.7, h3.8, h3.9⟩⟩
    | tens t =>
      obtain ⟨st', h1, h2, h3⟩ := splitLoop_after sd n shape r (i + 1)
        { st with out := st.out ++ [.tens t], cursor := st.cursor + 1 } (by simp; omega) hne'
      exact ⟨st', by simpa [splitLoop, splitStep, hc1, hc2] using h1, by simpa using h2, ⟨h3.1, h3.2, h3.3, h3.4, h3.5, h3.6, h3.7, h3.8, h3.9⟩⟩
    | mask m =>
      obtain ⟨st', h1, h2, h3⟩ := splitLoop_after sd n shape r (i + 1)
        { st with out := st.out ++ [.mask m], cursor := st.cursor + m.shape.length } (by simp; omega) hne'
      exact ⟨st', by simpa [splitLoop, splitStep, hc1, hc2] using h1, by simpa using h2, ⟨h3.1, h3.2, h3.3, h3.4, h3.5, h3.6, h3.7, h3.8, h3.9⟩⟩

/-- what the stack-dim item makes of the selection: (selected, isinteger, is_nd_tensor); `none` = raises -/
def selOf (n : Nat) : Option Ix → Option (Sel × Bool × Bool)
  | none => some (.all, false, false)
  | some (.int k) => (normInt k n).map fun j => (.single j, true, false)
  | some (.slice a b c) => (sliceNorm a b c n).map fun p => (.range p.1 p.2.1 p.2.2, false, false)
  | some (.tens t) => some (.tens t, false, true)
  | some _ => none

/-- result of the loop started in `st` with `rem` dims left before the stack dim -/
structure LoopSpec (sd : Nat) (st st' : SplitSt) (S : Split) (rem : Nat) (sel : Sel) (ii nd : Bool) : Prop where
  out : st'.out = st.out ++ S.out
  q : Q sd st' = Q sd st - rem + S.pos
  hasBool : st'.hasBool = false
  sel : st'.sel = sel
  isInteger : st'.isInteger = ii
  isNd : st'.isNd = nd

theorem splitLoop_before (sd n : Nat) (shape : Shape) : ∀ (ix : List Ix) (rem i : Nat) (st : SplitSt),
    st.cursor + rem = sd → Plain rem ix → (∀ it ∈ ix, it ≠ Ix.ell) →
    ix.countP Ix.isAdv + (if st.encountered then 1 else 0) ≤ 1 →
    st.hasBool = false → st.isInteger = false → st.isNd = false → st.sel = .all →
    (selOf n (splitRec rem ix).item = none → splitLoop sd n shape ix i st = none) ∧
    (∀ sel ii nd, selOf n (splitRec rem ix).item = some (sel, ii, nd) →
      ∃ st', splitLoop sd n shape ix i st = some st' ∧ LoopSpec sd st st' (splitRec rem ix) rem sel ii nd)
  | [], rem, i, st, hc, _, _, _, hb, hi, hnd, hsel => by
    simp only [splitRec, selOf]
    refine ⟨by simp, ?_⟩
    intro sel ii nd h
    simp at h
    obtain ⟨rfl, rfl, rfl⟩ := h
    exact ⟨st, rfl, ⟨by simp, by simp, hb, hsel, hi, hnd⟩⟩
  | .none :: r, rem, i, st, hc, hp, hne, hbud, hb, hi, hnd, hsel => by
    have hle : st.cursor ≤ sd := by omega
    have ih := splitLoop_before sd n shape r rem (i + 1)
      { st with out := st.out ++ [.none], numNone := st.numNone + (if st.cursor ≤ sd then 1 else 0) }
      hc (by simpa [Plain] using hp) (fun x hx => hne x (by simp [hx])) (by simpa [Ix.isAdv] using hbud) hb hi hnd hsel
    simp only [splitRec]
    refine ⟨fun h => by simpa [splitLoop, splitStep] using ih.1 h, ?_⟩
    intro sel ii nd h
    obtain ⟨st', h1, h2⟩ := ih.2 sel ii nd h
    refine ⟨st', by simpa [splitLoop, splitStep] using h1, ?_⟩
    obtain ⟨a, b, c, d, e, f⟩ := h2
    refine ⟨by simpa using a, ?_, c, d, e, f⟩
    simp [Q, hle] at b ⊢
    omega
  -- the item addressed to the stack dim
  | .ell :: r, 0, i, st, hc, hp, hne, hbud, hb, hi, hnd, hsel => by simp [Plain] at hp
  | .mask m :: r, 0, i, st, hc, hp, hne, hbud, hb, hi, hnd, hsel => by simp [Plain] at hp
  | .int k :: r, 0, i, st, hc, hp, hne, hbud, hb, hi, hnd, hsel => by
    have hc0 : st.cursor = sd := by omega
    have hne' : ∀ it ∈ r, it ≠ Ix.ell := fun x hx => hne x (by simp [hx])
    simp only [splitRec, selOf]
    cases hk : normInt k n with
    | none => simp [splitLoop, splitStep, hc0, hk]
    | some j =>
      refine ⟨by simp, ?_⟩
      intro sel ii nd h
      simp at h
      obtain ⟨rfl, rfl, rfl⟩ := h
      obtain ⟨st', h1, h2, h3⟩ := splitLoop_after sd n shape r (i + 1)
        { st with sel := .single j, isInteger := true, cursor := st.cursor + 1 } (by simp; omega) hne'
      refine ⟨st', by simpa [splitLoop, splitStep, hc0, hk] using h1, ?_⟩
      obtain ⟨a, b, c, d, e, f, g⟩ := h3
      exact ⟨by simpa using h2, by simp [Q, a, b, c], by simpa [hb] using f, by simpa using g, by simpa using d,
        by simpa [hnd] using e⟩
  | .slice a b c :: r, 0, i, st, hc, hp, hne, hbud, hb, hi, hnd, hsel => by
    have hc0 : st.cursor = sd := by omega
    have hne' : ∀ it ∈ r, it ≠ Ix.ell := fun x hx => hne x (by simp [hx])
    simp only [splitRec, selOf]
    cases hk : sliceNorm a b c n with
    | none => simp [splitLoop, splitStep, hc0, hk]
    | some p =>
      obtain ⟨s0, stp, len⟩ := p
      refine ⟨by simp, ?_⟩
      intro sel ii nd h
      simp at h
      obtain ⟨rfl, rfl, rfl⟩ := h
      obtain ⟨st', h1, h2, h3⟩ := splitLoop_after sd n shape r (i + 1)
        { st with sel := .range s0 stp len, cursor := st.cursor + 1 } (by simp; omega) hne'
      refine ⟨st', by simpa [splitLoop, splitStep, hc0, hk] using h1, ?_⟩
      obtain ⟨a', b', c', d, e, f, g⟩ := h3
      exact ⟨by simpa using h2, by simp [Q, a', b', c'], by simpa [hb] using f, by simpa using g,
        by simpa [hi] using d, by simpa [hnd] using e⟩
  | .tens t :: r, 0, i, st, hc, hp, hne, hbud, hb, hi, hnd, hsel => by
    have hc0 : st.cursor = sd := by omega
    have hne' : ∀ it ∈ r, it ≠ Ix.ell := fun x hx => hne x (by simp [hx])
    have henc : st.encountered = false := by
      cases h : st.encountered
      · rfl
      · simp [Ix.isAdv, h] at hbud
    simp only [splitRec, selOf]
    refine ⟨by simp, ?_⟩
    intro sel ii nd h
    simp at h
    obtain ⟨rfl, rfl, rfl⟩ := h
    obtain ⟨st', h1, h2, h3⟩ := splitLoop_after sd n shape r (i + 1)
      { st with isNd := true, encountered := true,
                numSingle := if st.encountered then st.numSingle + 1 else st.numSingle,
                sel := .tens t, cursor := st.cursor + 1 } (by simp; omega) hne'
    refine ⟨st', by simpa [splitLoop, splitStep, hc0] using h1, ?_⟩
    obtain ⟨a', b', c', d, e, f, g⟩ := h3
    exact ⟨by simpa using h2, by simp [Q, a', b', c', henc], by simpa [hb] using f, by simpa using g,
      by simpa [hi] using d, by simpa using e⟩
  -- items before the stack dim
  | .ell :: r, rem + 1, i, st, hc, hp, hne, hbud, hb, hi, hnd, hsel => by simp [Plain] at hp
  | .int k :: r, rem + 1, i, st, hc, hp, hne, hbud, hb, hi, hnd, hsel => by
    have hc0 : ¬ st.cursor = sd := by omega
    have hc1 : st.cursor < sd := by omega
    have ih := splitLoop_before sd n shape r rem (i + 1)
      { st with numSingle := if st.cursor < sd then st.numSingle + 1 else st.numSingle,
                out := st.out ++ [.int k], cursor := st.cursor + 1 }
      (by simp; omega) (by simpa [Plain] using hp) (fun x hx => hne x (by simp [hx]))
      (by simpa [Ix.isAdv] using hbud) hb hi hnd hsel
    simp only [splitRec]
    refine ⟨fun h => by simpa [splitLoop, splitStep, hc0] using ih.1 h, ?_⟩
    intro sel ii nd h
    obtain ⟨st', h1, h2⟩ := ih.2 sel ii nd h
    refine ⟨st', by simpa [splitLoop, splitStep, hc0] using h1, ?_⟩
    obtain ⟨a, b, c, d, e, f⟩ := h2
    refine ⟨by simpa using a, ?_, c, d, e, f⟩
    simp [Q, hc1] at b ⊢
    omega
  | .slice x y z :: r, rem + 1, i, st, hc, hp, hne, hbud, hb, hi, hnd, hsel => by
    have hc0 : ¬ st.cursor = sd := by omega
    have ih := splitLoop_before sd n shape r rem (i + 1)
      { st with out := st.out ++ [.slice x y z], cursor := st.cursor + 1 }
      (by simp; omega) (by simpa [Plain] using hp) (fun x hx => hne x (by simp [hx]))
      (by simpa [Ix.isAdv] using hbud) hb hi hnd hsel
    simp only [splitRec]
    refine ⟨fun h => by simpa [splitLoop, splitStep, hc0] using ih.1 h, ?_⟩
    intro sel ii nd h
    obtain ⟨st', h1, h2⟩ := ih.2 sel ii nd h
    refine ⟨st', by simpa [splitLoop, splitStep, hc0] using h1, ?_⟩
    obtain ⟨a, b, c, d, e, f⟩ := h2
    refine ⟨by simpa using a, ?_, c, d, e, f⟩
    simp [Q] at b ⊢
    omega
  | .tens t :: r, rem + 1, i, st, hc, hp, hne, hbud, hb, hi, hnd, hsel => by
    have hc0 : ¬ st.cursor = sd := by omega
    have hc1 : st.cursor < sd := by omega
    have henc : st.encountered = false := by
      cases h : st.encountered
      · rfl
      · simp [Ix.isAdv, h] at hbud
    have hr0 : r.countP Ix.isAdv = 0 := by
      have := hbud
      simp only [List.countP_cons, Ix.isAdv, henc] at this
      simp at this
      simpa [List.countP_eq_zero] using this
    have ih := splitLoop_before sd n shape r rem (i + 1)
      { st with numSingle := st.numSingle - ((t.shape.length : Int) - 1), encountered := true,
                out := st.out ++ [.tens t], cursor := st.cursor + 1 }
      (by simp; omega) (by simpa [Plain] using hp) (fun x hx => hne x (by simp [hx]))
      (by simp [hr0]) hb hi hnd hsel
    simp only [splitRec]
    refine ⟨fun h => by simpa [splitLoop, splitStep, hc0, hc1, henc] using ih.1 h, ?_⟩
    intro sel ii nd h
    obtain ⟨st', h1, h2⟩ := ih.2 sel ii nd h
    refine ⟨st', by simpa [splitLoop, splitStep, hc0, hc1, henc] using h1, ?_⟩
    obtain ⟨a, b, c, d, e, f⟩ := h2
    refine ⟨by simpa using a, ?_, c, d, e, f⟩
    simp [Q] at b ⊢
    omega
  | .mask m :: r, rem + 1, i, st, hc, hp, hne, hbud, hb, hi, hnd, hsel => by
    have hc0 : ¬ st.cursor = sd := by omega
    have hc1 : st.cursor < sd := by omega
    simp only [Plain] at hp
    obtain ⟨hk0, hk, hp'⟩ := hp
    have hspan : ¬ (sd < st.cursor + m.shape.length) := by omega
    have ih := splitLoop_before sd n shape r (rem + 1 - m.shape.length) (i + 1)
      { st with numSquash := st.numSquash + (m.shape.length - 1),
                out := st.out ++ [.mask m], cursor := st.cursor + m.shape.length }
      (by simp; omega) hp' (fun x hx => hne x (by simp [hx]))
      (by simp only [List.countP_cons, Ix.isAdv] at hbud; simp at hbud ⊢; omega) hb hi hnd hsel
    simp only [splitRec]
    refine ⟨fun h => by simpa [splitLoop, splitStep, hc0, hc1, hspan] using ih.1 h, ?_⟩
    intro sel ii nd h
    obtain ⟨st', h1, h2⟩ := ih.2 sel ii nd h
    refine ⟨st', by simpa [splitLoop, splitStep, hc0, hc1, hspan] using h1, ?_⟩
    obtain ⟨a, b, c, d, e, f⟩ := h2
    refine ⟨by simpa using a, ?_, c, d, e, f⟩
    simp [Q] at b ⊢
    omega
end TdVerif.C08
