/-
  C03 lemmas, part 6: `tensor[index] = value` on a leaf of shape `bs ++ feat`.
-/
import TdVerif.Lemmas.C03Get

namespace TdVerif.C03
open TorchSpec Td

theorem mem_coords_cons (n : Nat) (r : Shape) (x : List Nat) :
    x ∈ coords (n :: r) ↔ ∃ i, i < n ∧ ∃ t ∈ coords r, x = i :: t := by
  simp only [coords, List.mem_flatMap, List.mem_range, List.mem_map]
  constructor
  · rintro ⟨i, hi, t, ht, rfl⟩; exact ⟨i, hi, t, ht, rfl⟩
  · rintro ⟨i, hi, t, ht, rfl⟩; exact ⟨i, hi, t, ht, rfl⟩

/-- the coordinates of `a ++ b` are the concatenations of a coordinate of `a` and a coordinate of `b` -/
theorem mem_coords_append (a b : Shape) (x : List Nat) :
    x ∈ coords (a ++ b) ↔ ∃ c ∈ coords a, ∃ f ∈ coords b, x = c ++ f := by
  induction a generalizing x with
  | nil => simp [coords]
  | cons n r ih =>
    rw [List.cons_append, mem_coords_cons]
    constructor
    · rintro ⟨i, hi, t, ht, rfl⟩
      obtain ⟨c, hc, f, hf, rfl⟩ := (ih t).mp ht
      exact ⟨i :: c, (mem_coords_cons n r _).mpr ⟨i, hi, c, hc, rfl⟩, f, hf, rfl⟩
    · rintro ⟨c, hc, f, hf, rfl⟩
      obtain ⟨i, hi, t, ht, rfl⟩ := (mem_coords_cons n r c).mp hc
      exact ⟨i, hi, t ++ f, (ih _).mpr ⟨t, ht, f, hf, rfl⟩, rfl⟩

theorem length_of_mem_coords (s : Shape) (c : List Nat) (h : c ∈ coords s) : c.length = s.length := by
  induction s generalizing c with
  | nil => simp [coords] at h; subst h; rfl
  | cons n r ih =>
    obtain ⟨i, _, t, ht, rfl⟩ := (mem_coords_cons n r c).mp h
    simp [ih t ht]

theorem setIndex_ok {dims : Shape} {items : List Ix} {v : Shape} {w : List Nat → Option (List Nat)}
    (h : setIndex dims items v = .ok w) :
    ∃ R, index dims items = .ok R ∧ valueOk v R.shape = true ∧
      w = fun c' => ((coords R.shape).reverse.find? (fun c => R.src c == c')).map (valueCoord v R.shape) := by
  unfold setIndex at h
  cases hR : index dims items with
  | error e => simp [hR] at h
  | ok R =>
    simp only [hR] at h
    by_cases hv : valueOk v R.shape = true
    · simp only [hv, if_true] at h; cases h; exact ⟨R, rfl, hv, rfl⟩
    · simp [hv] at h

end TdVerif.C03

namespace TdVerif.C03
open TorchSpec Td

/-- basic (view-producing) index items: ints, 0-d integer tensors, slices, None, Ellipsis -/
def isBasic : Ix → Bool
  | .int _ => true
  | .slice .. => true
  | .none => true
  | .ell => true
  | .tensor [] _ => true
  | _ => false

theorem advShapes_walk_iff (items : List Ix) : ∀ (e : Nat) (dims : Shape) (P : List Piece),
    walk e dims items = .ok P → ((advShapes P).isEmpty = items.all isBasic) := by
  induction items with
  | nil => intro e dims P h; simp [walk] at h; subst h; simp
  | cons x r ih =>
    intro e dims P h
    cases x with
    | none =>
      simp only [walk] at h
      obtain ⟨P', h1, rfl⟩ := map_ok h
      simpa [advShapes, isBasic] using ih _ _ _ h1
    | ell =>
      simp only [walk] at h
      obtain ⟨P', h1, rfl⟩ := map_ok h
      simpa [advShapes_append, isBasic] using ih _ _ _ h1
    | mask s d =>
      simp only [walk] at h
      split at h
      · obtain ⟨P', h1, rfl⟩ := map_ok h
        simp [advShapes, maskPiece, isBasic]
      · cases h
    | int i =>
      cases dims with
      | nil => simp [walk] at h
      | cons n ds =>
        simp only [walk] at h
        obtain ⟨P', h1, rfl, -⟩ := consSel_ok h
        simpa [advShapes, isBasic] using ih _ _ _ h1
    | slice a b c =>
      cases dims with
      | nil => simp [walk] at h
      | cons n ds =>
        simp only [walk] at h
        obtain ⟨P', s, e', st', h1, -, -, rfl⟩ := consSlice_ok h
        simpa [advShapes, isBasic] using ih _ _ _ h1
    | list l =>
      cases dims with
      | nil => simp [walk] at h
      | cons n ds =>
        simp only [walk] at h
        obtain ⟨P', h1, rfl⟩ := consAdv_ok h
        simp [advShapes, isBasic]
    | range a b c =>
      cases dims with
      | nil => simp [walk] at h
      | cons n ds =>
        simp only [walk] at h
        obtain ⟨P', h1, rfl⟩ := consAdv_ok h
        simp [advShapes, isBasic]
    | tensor s d =>
      cases dims with
      | nil => cases s <;> simp [walk] at h
      | cons n ds =>
        cases s with
        | nil =>
          simp only [walk] at h
          obtain ⟨P', h1, rfl, -⟩ := consSel_ok h
          simpa [advShapes, isBasic] using ih _ _ _ h1
        | cons m s =>
          simp only [walk] at h
          obtain ⟨P', h1, rfl⟩ := consAdv_ok h
          simp [advShapes, isBasic]

end TdVerif.C03
