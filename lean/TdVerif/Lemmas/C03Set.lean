/-
  C03 lemmas, part 6: `tensor[index] = value` on a leaf of shape `bs ++ feat`.
-/
import TdVerif.Lemmas.C03Get

namespace TdVerif.C03
open TorchSpec Td

theorem mem_coords_cons (n : Nat) (r : Shape) (x : List Nat) :
    x ∈ coords (n :: r) ↔ ∃ i, i < n ∧ ∃ t ∈ coords r, x = i :: t := by
  simp only [coords, List.mem_flatMap, List.mem_range, List.mem_map]
  constructor
  · rintro ⟨i, hi, t, ht, rfl⟩; exact ⟨i, hi, t, ht, rfl⟩
  · rintro ⟨i, hi, t, ht, rfl⟩; exact ⟨i, hi, t, ht, rfl⟩

/-- the coordinates of `a ++ b` are the concatenations of a coordinate of `a` and a coordinate of `b` -/
theorem mem_coords_append (a b : Shape) (x : List Nat) :
    x ∈ coords (a ++ b) ↔ ∃ c ∈ coords a, ∃ f ∈ coords b, x = c ++ f := by
  induction a generalizing x with
  | nil => simp [coords]
  | cons n r ih =>
    rw [List.cons_append, mem_coords_cons]
    constructor
    · rintro ⟨i, hi, t, ht, rfl⟩
      obtain ⟨c, hc, f, hf, rfl⟩ := (ih t).mp ht
      exact ⟨i :: c, (mem_coords_cons n r _).mpr ⟨i, hi, c, hc, rfl⟩, f, hf, rfl⟩
    · rintro ⟨c, hc, f, hf, rfl⟩
      obtain ⟨i, hi, t, ht, rfl⟩ := (mem_coords_cons n r c).mp hc
      exact ⟨i, hi, t ++ f, (ih _).mpr ⟨t, ht, f, hf, rfl⟩, rfl⟩

theorem length_of_mem_coords (s : Shape) (c : List Nat) (h : c ∈ coords s) : c.length = s.length := by
  induction s generalizing c with
  | nil => simp [coords] at h; subst h; rfl
  | cons n r ih =>
    obtain ⟨i, _, t, ht, rfl⟩ := (mem_coords_cons n r c).mp h
    simp [ih t ht]

theorem setIndex_ok {dims : Shape} {items : List Ix} {v : Shape} {w : List Nat → Option (List Nat)}
    (h : setIndex dims items v = .ok w) :
    ∃ R, index dims items = .ok R ∧ valueOk v R.shape = true ∧
      w = fun c' => ((coords R.shape).reverse.find? (fun c => R.src c == c')).map (valueCoord v R.shape) := by
  unfold setIndex at h
  cases hR : index dims items with
  | error e => simp [hR] at h
  | ok R =>
    simp only [hR] at h
    by_cases hv : valueOk v R.shape = true
    · simp only [hv, if_true] at h; cases h; exact ⟨R, rfl, hv, rfl⟩
    · simp [hv] at h

end TdVerif.C03

namespace TdVerif.C03
open TorchSpec Td

/-- basic (view-producing) index items: ints, 0-d integer tensors, slices, None, Ellipsis -/
def isBasic : Ix → Bool
  | .int _ => true
  | .slice .. => true
  | .none => true
  | .ell => true
  | .tensor [] _ => true
  | _ => false

theorem advShapes_walk_iff (items : List Ix) : ∀ (e : Nat) (dims : Shape) (P : List Piece),
    walk e dims items = .ok P → ((advShapes P).isEmpty = items.all isBasic) := by
  induction items with
  | nil => intro e dims P h; simp [walk] at h; subst h; simp
  | cons x r ih =>
    intro e dims P h
    cases x with
    | none =>
      simp only [walk] at h
      obtain ⟨P', h1, rfl⟩ := map_ok h
      simpa [advShapes, isBasic] using ih _ _ _ h1
    | ell =>
      simp only [walk] at h
      obtain ⟨P', h1, rfl⟩ := map_ok h
      simpa [advShapes_append, isBasic] using ih _ _ _ h1
    | mask s d =>
      simp only [walk] at h
      split at h
      · obtain ⟨P', h1, rfl⟩ := map_ok h
        simp [advShapes, maskPiece, isBasic]
      · cases h
    | int i =>
      cases dims with
      | nil => simp [walk] at h
      | cons n ds =>
        simp only [walk] at h
        obtain ⟨P', h1, rfl, -⟩ := consSel_ok h
        simpa [advShapes, isBasic] using ih _ _ _ h1
    | slice a b c =>
      cases dims with
      | nil => simp [walk] at h
      | cons n ds =>
        simp only [walk] at h
        obtain ⟨P', s, e', st', h1, -, -, rfl⟩ := consSlice_ok h
        simpa [advShapes, isBasic] using ih _ _ _ h1
    | list l =>
      cases dims with
      | nil => simp [walk] at h
      | cons n ds =>
        simp only [walk] at h
        obtain ⟨P', h1, rfl⟩ := consAdv_ok h
        simp [advShapes, isBasic]
    | range a b c =>
      cases dims with
      | nil => simp [walk] at h
      | cons n ds =>
        simp only [walk] at h
        obtain ⟨P', h1, rfl⟩ := consAdv_ok h
        simp [advShapes, isBasic]
    | tensor s d =>
      cases dims with
      | nil => cases s <;> simp [walk] at h
      | cons n ds =>
        cases s with
        | nil =>
          simp only [walk] at h
          obtain ⟨P', h1, rfl, -⟩ := consSel_ok h
          simpa [advShapes, isBasic] using ih _ _ _ h1
        | cons m s =>
          simp only [walk] at h
          obtain ⟨P', h1, rfl⟩ := consAdv_ok h
          simp [advShapes, isBasic]

end TdVerif.C03

namespace TdVerif.C03
open TorchSpec Td

theorem mapM_ok_of_forall {α β : Type} {f : α → Except Err β} :
    ∀ (l : List α), (∀ a ∈ l, ∃ b, f a = .ok b) → ∃ bs, l.mapM f = .ok bs ∧ bs.length = l.length := by
  intro l h
  obtain ⟨bs, h1, h2⟩ := mapM_ok_forall₂ (Q := fun _ _ => True) l (fun a ha => by
    obtain ⟨b, hb⟩ := h a ha; exact ⟨b, hb, trivial⟩)
  exact ⟨bs, h1, h2.length_eq.symm⟩

/-- a write through an Ellipsis-free tuple is accepted only if torch accepts the index on the batch shape
    (one entry has exactly the batch shape) -/
theorem setitem_tuple_ok_inv (td : TD) (items : List Ix) (v : Shape) (ws) (hstrict : [] ∈ td.leaves)
    (hn : noEll items = true) (h : setitem td (.tuple items) v = .ok ws) : ∃ R, index td.bs items = .ok R := by
  have hany : items.any (· = Ix.ell) = false := by
    simp only [noEll, List.all_eq_true, bne_iff_ne, ne_eq] at hn
    simpa using hn
  simp only [setitem, hany, Bool.false_eq_true, if_false, bind, Except.bind, PyIndex.items] at h
  split at h
  · cases h
  · split at h
    · cases h
    · rename_i direct hd
      obtain ⟨w, hw⟩ := mapM_ok_mem td.leaves direct hd [] hstrict
      obtain ⟨R, hR, -, -⟩ := setIndex_ok hw
      exact ⟨R, by simpa using hR⟩

/-- a write through an Ellipsis-free tuple succeeds when torch accepts the index on the batch shape and the value can be
    broadcast to the indexed region of every entry -/
theorem setitem_tuple_ok (td : TD) (items : List Ix) (v : Shape) (R : IndexResult)
    (hn : noEll items = true) (h : index td.bs items = .ok R)
    (hv : ∀ feat ∈ td.leaves, valueOk v (R.shape ++ feat) = true)
    (hvn : ∀ nd ∈ td.nested, ∀ feat ∈ nd.leaves, valueOk v (R.shape ++ (nd.extra ++ feat)) = true) :
    ∃ ws, setitem td (.tuple items) v = .ok ws ∧
      ws.length = td.leaves.length + (td.nested.map (·.leaves.length)).sum := by
  have hany : items.any (· = Ix.ell) = false := by
    simp only [noEll, List.all_eq_true, bne_iff_ne, ne_eq] at hn
    simpa using hn
  have hs := (index_inv h).1
  have hc : checkIndexNdim (.tuple items) td.bs.length = .ok () := (checkIndexNdim_ok_iff items _).mpr hs
  have leafOk : ∀ feat, valueOk v (R.shape ++ feat) = true → ∃ w, setIndex (td.bs ++ feat) items v = .ok w := by
    intro feat hvf
    obtain ⟨R', hR', hshape, -, -⟩ := leaf_commutes td.bs feat items R hn h
    refine ⟨fun c' => ((coords R'.shape).reverse.find? (fun c => R'.src c == c')).map (valueCoord v R'.shape), ?_⟩
    simp only [setIndex, hR']
    rw [if_pos (by rw [hshape]; exact hvf)]
  obtain ⟨direct, hd, hdl⟩ := mapM_ok_of_forall (f := fun feat => setIndex (td.bs ++ feat) items v) td.leaves
    (fun feat hf => leafOk feat (hv feat hf))
  obtain ⟨nested, hnd, hndq⟩ := mapM_ok_forall₂
    (f := fun (nd : Nested) => nd.leaves.mapM (fun feat => setIndex (td.bs ++ nd.extra ++ feat) items v))
    (Q := fun (nd : Nested) (r : List (List Nat → Option (List Nat))) => r.length = nd.leaves.length) td.nested
    (fun nd hndm => by
      obtain ⟨ls, h1, h2⟩ := mapM_ok_of_forall (f := fun feat => setIndex (td.bs ++ nd.extra ++ feat) items v) nd.leaves
        (fun feat hf => by
          have := leafOk (nd.extra ++ feat) (hvn nd hndm feat hf)
          simpa [List.append_assoc] using this)
      exact ⟨ls, h1, h2⟩)
  refine ⟨direct ++ nested.flatten, ?_, ?_⟩
  · simp only [setitem, hany, Bool.false_eq_true, if_false, bind, Except.bind, PyIndex.items, hc, hd, hnd, pure, Except.pure]
  · have : ∀ (l : List Nested) (r : List (List (List Nat → Option (List Nat)))),
        Forall2 (fun (nd : Nested) r => r.length = nd.leaves.length) l r →
        r.flatten.length = (l.map (·.leaves.length)).sum := by
      intro l r hf
      induction hf with
      | nil => rfl
      | cons hab _ ih => simp [hab, ih]
    simp [hdl, this _ _ hndq]

end TdVerif.C03

namespace TdVerif.C03
open TorchSpec Td

/-- `value.expand(indexed_bs)` (what `__setitem__` does to a value whose batch is a trailing part of the indexed
    batch) followed by torch's write selects, for every coordinate of the indexed region, the same element of the
    original value as torch's own right-aligned broadcast of the unexpanded value -/
theorem valueCoord_expand_left (out pre v : Shape) (c : List Nat) (hlen : (pre ++ v).length ≤ out.length) :
    (valueCoord (pre ++ v) out c).drop pre.length = valueCoord v out c := by
  have h1 : (pre ++ v).length - out.length = 0 := by omega
  have h2 : v.length - out.length = 0 := by simp at hlen; omega
  simp only [valueCoord, h1, h2, List.replicate_zero, List.nil_append, List.drop_zero]
  rw [List.drop_zipWith, List.drop_append_of_le_length (Nat.le_refl _)]
  simp only [List.drop_drop]
  have e1 : List.drop pre.length pre = [] := by simp
  have e2 : out.length - (pre ++ v).length + pre.length = out.length - v.length := by
    simp only [List.length_append] at hlen ⊢; omega
  rw [e1, e2, List.nil_append]

end TdVerif.C03

namespace TdVerif.C03
open TorchSpec Td

/-- number of source dims a plan addresses -/
def consumed : List Piece → Nat
  | [] => 0
  | .sel .. :: r => 1 + consumed r
  | .sl .. :: r => 1 + consumed r
  | .new :: r => consumed r
  | .adv ns _ cols :: r => min ns.length cols.length + consumed r

theorem walkSrc_length (b : List Nat) (P : List Piece) : ∀ s, (walkSrc b P s).length = consumed P := by
  induction P with
  | nil => intro s; rfl
  | cons p r ih => intro s; cases p <;> simp [walkSrc, consumed, ih] <;> omega

theorem consumed_append (P Q : List Piece) : consumed (P ++ Q) = consumed P + consumed Q := by
  induction P with
  | nil => simp [consumed]
  | cons p r ih => cases p <;> simp [consumed, ih] <;> omega

theorem consumed_fulls (dims : Shape) : consumed (dims.map Piece.full) = dims.length := by
  induction dims with
  | nil => rfl
  | cons n r ih => simp [consumed, Piece.full, ih]; omega

/-- torch's plan addresses every source dim exactly once -/
theorem walk_consumed (items : List Ix) : ∀ (e : Nat) (dims : Shape) (P : List Piece),
    walk e dims items = .ok P → consumed P = dims.length := by
  induction items with
  | nil => intro e dims P h; simp [walk] at h; subst h; exact consumed_fulls dims
  | cons x r ih =>
    intro e dims P h
    cases x with
    | none =>
      simp only [walk] at h
      obtain ⟨P', h1, rfl⟩ := map_ok h
      simpa [consumed] using ih _ _ _ h1
    | ell =>
      simp only [walk] at h
      obtain ⟨P', h1, rfl⟩ := map_ok h
      have := ih _ _ _ h1
      rw [consumed_append, consumed_fulls, this]
      simp; omega
    | mask s d =>
      simp only [walk] at h
      split at h
      · rename_i hs
        obtain ⟨P', h1, rfl⟩ := map_ok h
        have := ih _ _ _ h1
        have hlen : s.length ≤ dims.length := by
          have := congrArg List.length hs.2; simp at this; omega
        simp [consumed, maskPiece, this]; omega
      · cases h
    | int i =>
      cases dims with
      | nil => simp [walk] at h
      | cons n ds =>
        simp only [walk] at h
        obtain ⟨P', h1, rfl, -⟩ := consSel_ok h
        simp [consumed, ih _ _ _ h1]; omega
    | slice a b c =>
      cases dims with
      | nil => simp [walk] at h
      | cons n ds =>
        simp only [walk] at h
        obtain ⟨P', s, e', st', h1, -, -, rfl⟩ := consSlice_ok h
        simp [consumed, ih _ _ _ h1]; omega
    | list l =>
      cases dims with
      | nil => simp [walk] at h
      | cons n ds =>
        simp only [walk] at h
        obtain ⟨P', h1, rfl⟩ := consAdv_ok h
        simp [consumed, ih _ _ _ h1]; omega
    | range a b c =>
      cases dims with
      | nil => simp [walk] at h
      | cons n ds =>
        simp only [walk] at h
        obtain ⟨P', h1, rfl⟩ := consAdv_ok h
        simp [consumed, ih _ _ _ h1]; omega
    | tensor s d =>
      cases dims with
      | nil => cases s <;> simp [walk] at h
      | cons n ds =>
        cases s with
        | nil =>
          simp only [walk] at h
          obtain ⟨P', h1, rfl, -⟩ := consSel_ok h
          simp [consumed, ih _ _ _ h1]; omega
        | cons m s =>
          simp only [walk] at h
          obtain ⟨P', h1, rfl⟩ := consAdv_ok h
          simp [consumed, ih _ _ _ h1]; omega

end TdVerif.C03

namespace TdVerif.C03
open TorchSpec Td

theorem mapM_zip_map {α β γ : Type} (f : α → β) (g : α × β → Except Err γ) (l : List α) :
    (l.zip (l.map f)).mapM g = l.mapM (fun a => g (a, f a)) := by
  induction l with
  | nil => rfl
  | cons a r ih => simp [List.mapM_cons, ih]

/-- `__setitem__` with a collection value on an Ellipsis-free tuple torch accepts on the batch shape: the batch handling
    `collPlan` against torch's result shape, then one `entryWriteK` per key -/
theorem setitemColl_spec (td : TD) (items : List Ix) (R : IndexResult) (isDict : Bool) (vb : Shape) (entries : List VEntry)
    (hn : noEll items = true) (h : index td.bs items = .ok R) :
    setitemColl td (.tuple items) isDict vb entries =
      (match collPlan isDict vb R.shape entries with
       | .error e => .error e
       | .ok (k, shapes) => (entries.zip shapes).mapM (fun (e, sh) => entryWriteK td R.shape items k e sh)) := by
  have hany : items.any (· = Ix.ell) = false := by
    simp only [noEll, List.all_eq_true, bne_iff_ne, ne_eq] at hn
    simpa using hn
  obtain ⟨hs, P, hw, hf⟩ := index_inv h
  have hc : checkIndexNdim (.tuple items) td.bs.length = .ok () := (checkIndexNdim_ok_iff items _).mpr hs
  have hb := getitemBatchSize_tuple td.bs items _ P R hn hw hf
  simp only [setitemColl, hany, Bool.false_eq_true, if_false, bind, Except.bind, hc, hb, PyIndex.items]
  cases collPlan isDict vb R.shape entries with
  | error e => rfl
  | ok p => rfl

end TdVerif.C03

namespace TdVerif.C03
open TorchSpec Td

theorem collPlan_exact (ibs : Shape) (entries : List VEntry) :
    collPlan false ibs ibs entries = .ok (0, entries.map (·.shape)) := by
  simp [collPlan]

theorem collPlan_dict (vb ibs : Shape) (entries : List VEntry) :
    collPlan true vb ibs entries =
      if entries.all (fun e => hasPrefix ibs e.shape) then .ok (0, entries.map (·.shape)) else .error .runtime := by
  unfold collPlan
  by_cases h : entries.all (fun e => hasPrefix ibs e.shape) = true <;> simp [h]

/-- `value.expand(indexed_bs)`: the value's batch `vb` is a non-empty proper trailing part of `pre ++ vb` -/
theorem collPlan_expand (pre vb : Shape) (entries : List VEntry) (hpre : pre ≠ []) (hvb : vb ≠ []) :
    collPlan false vb (pre ++ vb) entries =
      .ok (pre.length, entries.map (fun e => (pre ++ vb) ++ e.shape.drop vb.length)) := by
  have h1 : vb ≠ pre ++ vb := by
    intro h; have := congrArg List.length h; simp at this
    exact hpre this
  have h2 : vb.length ≠ 0 := by intro h; exact hvb (List.length_eq_zero_iff.mp h)
  have h3 : (pre ++ vb).drop ((pre ++ vb).length - vb.length) = vb := by simp
  simp only [collPlan, Bool.false_eq_true, if_false, h1, h2, h3, if_true]
  simp

/-- `value.batch_size = indexed_bs`: neither equal nor a trailing part -/
theorem collPlan_reassign (vb ibs : Shape) (entries : List VEntry) (h1 : vb ≠ ibs)
    (h2 : vb ≠ (if vb.length = 0 then ibs else ibs.drop (ibs.length - vb.length))) :
    collPlan false vb ibs entries =
      if entries.all (fun e => hasPrefix ibs e.shape) then .ok (0, entries.map (·.shape)) else .error .runtime := by
  simp only [collPlan, Bool.false_eq_true, if_false, h1, h2]

theorem zipWith_all_self (l : List Nat) : (List.zipWith (fun a b => a == b || a == 1) l l).all id = true := by
  induction l with
  | nil => rfl
  | cons a r ih => simp [ih]

/-- expanding the value on the left by the dims it lacks does not change whether torch can broadcast it -/
theorem valueOk_expand_left (pre w out' : Shape) (hlen : w.length = out'.length) :
    valueOk (pre ++ w) (pre ++ out') = valueOk w (pre ++ out') := by
  have e1 : (pre ++ w).length - (pre ++ out').length = 0 := by simp; omega
  have e2 : w.length - (pre ++ out').length = 0 := by simp; omega
  simp only [valueOk, e1, e2, List.take_zero, List.all_nil, Bool.true_and, List.drop_zero, List.reverse_append]
  have hl : w.reverse.length = out'.reverse.length := by simpa using hlen
  rw [List.zipWith_append hl]
  have hz : List.zipWith (fun a b => a == b || a == 1) w.reverse (out'.reverse ++ pre.reverse)
      = List.zipWith (fun a b => a == b || a == 1) w.reverse out'.reverse := by
    have := List.zipWith_append (f := fun (a b : Nat) => a == b || a == 1) (l₁ := w.reverse) (l₁' := [])
      (l₂ := out'.reverse) (l₂' := pre.reverse) hl
    simpa using this
  rw [hz, List.all_append, zipWith_all_self, Bool.and_true]
  congr 1
  simp; omega

/-- **the manual `expand` of `__setitem__` is torch's broadcast**: writing the left-expanded item `pre ++ w` and forgetting the
    added coordinates is writing the original item `w` — same acceptance, same element at every position -/
theorem setIndex_expand_left (dims : Shape) (items : List Ix) (pre w out' : Shape) (R' : IndexResult)
    (h : index dims items = .ok R') (hshape : R'.shape = pre ++ out') (hlen : w.length = out'.length) :
    (setIndex dims items (pre ++ w)).map (fun wr c => (wr c).map (·.drop pre.length)) = setIndex dims items w := by
  simp only [setIndex, h, hshape, valueOk_expand_left pre w out' hlen]
  split
  · simp only [Except.map]
    congr 1
    funext c
    simp only [Option.map_map]
    congr 1
    funext x
    exact valueCoord_expand_left (pre ++ out') pre w x (by simp; omega)
  · rfl

end TdVerif.C03

namespace TdVerif.C03
open TorchSpec Td

/-- `td[idx] = TensorDict({nested: child})`: the batch handling of the child (`childBatch` against torch's shape), then the very
    same `__setitem__` on the nested tensordict (to which `setitemColl_spec` applies with torch's shape followed by the extra
    batch dims, by `leaf_commutes`) -/
theorem setitemCollNested_spec (td : TD) (items : List Ix) (R : IndexResult) (vb cbx : Shape) (j : Nat) (nd : Nested)
    (entries : List VEntry) (hn : noEll items = true) (h : index td.bs items = .ok R) (hj : td.nested[j]? = some nd) :
    setitemCollNested td (.tuple items) vb j cbx entries =
      (match childBatch vb R.shape cbx entries with
       | .error e => .error e
       | .ok (k, cb) =>
         (setitemColl { bs := td.bs ++ nd.extra, names := none, leaves := nd.leaves, nested := [] } (.tuple items) false cb
            (childEntries k vb R.shape entries)).map (dropWritten k)) := by
  have hany : items.any (· = Ix.ell) = false := by
    simp only [noEll, List.all_eq_true, bne_iff_ne, ne_eq] at hn
    simpa using hn
  obtain ⟨hs, P, hw, hf⟩ := index_inv h
  have hc : checkIndexNdim (.tuple items) td.bs.length = .ok () := (checkIndexNdim_ok_iff items _).mpr hs
  have hb := getitemBatchSize_tuple td.bs items _ P R hn hw hf
  simp only [setitemCollNested, hany, Bool.false_eq_true, if_false, bind, Except.bind, hc, hb, TD.nestedAsTd, hj, Option.map_some]
  cases hcb : childBatch vb R.shape cbx entries with
  | error e => rfl
  | ok p => rfl

end TdVerif.C03

namespace TdVerif.C03
open TorchSpec Td

theorem any_ell_false_of_noEll (l : List Ix) (h : noEll l = true) : l.any (· = Ix.ell) = false := by
  induction l with
  | nil => rfl
  | cons x r ih =>
    simp only [noEll_cons, Bool.and_eq_true, bne_iff_ne, ne_eq] at h
    simp [h.1, ih h.2]

/-- writes through `pre ++ (...,) ++ post` are writes through the converted, Ellipsis-free index (so every write theorem stated
    for Ellipsis-free tuples applies) -/
theorem setitem_ellipsis_reduce (td : TD) (pre post : List Ix) (v : Shape)
    (hpre : noEll pre = true) (hpost : noEll post = true) (hs : specified pre + specified post ≤ td.bs.length) :
    setitem td (.tuple (pre ++ Ix.ell :: post)) v =
      setitem td (.tuple (pre ++ List.replicate (td.bs.length - specified pre - specified post) slAll ++ post)) v := by
  have hany : (pre ++ Ix.ell :: post).any (· = Ix.ell) = true := by simp
  have hn' := noEll_convert pre post (td.bs.length - specified pre - specified post) hpre hpost
  have hany' := any_ell_false_of_noEll _ hn'
  simp only [setitem, hany, if_true, hany', Bool.false_eq_true, if_false,
    convertEllipsis_one pre post td.bs.length hpre hpost hs]

theorem setitemColl_ellipsis_reduce (td : TD) (pre post : List Ix) (isDict : Bool) (vb : Shape) (entries : List VEntry)
    (hpre : noEll pre = true) (hpost : noEll post = true) (hs : specified pre + specified post ≤ td.bs.length) :
    setitemColl td (.tuple (pre ++ Ix.ell :: post)) isDict vb entries =
      setitemColl td (.tuple (pre ++ List.replicate (td.bs.length - specified pre - specified post) slAll ++ post)) isDict vb entries := by
  have hany : (pre ++ Ix.ell :: post).any (· = Ix.ell) = true := by simp
  have hn' := noEll_convert pre post (td.bs.length - specified pre - specified post) hpre hpost
  have hany' := any_ell_false_of_noEll _ hn'
  simp only [setitemColl, hany, if_true, hany', Bool.false_eq_true, if_false,
    convertEllipsis_one pre post td.bs.length hpre hpost hs]

/-- a bare (non-tuple) index other than `...` writes like the 1-tuple holding it -/
theorem setitem_single (td : TD) (x : Ix) (v : Shape) (hx : x ≠ Ix.ell) :
    setitem td (.single x) v = setitem td (.tuple [x]) v := by
  have hany : [x].any (· = Ix.ell) = false := by simp [hx]
  cases x <;> first | exact absurd rfl hx | simp [setitem, PyIndex.items, checkIndexNdim, bind, Except.bind, pure, Except.pure]

end TdVerif.C03
