/-
  C05 — basic facts about the heap model: reachability, shape preservation, monotonicity,
  fuel irrelevance on ordered heaps.
-/
import TdVerif.Model.C05Lock

namespace TdVerif.C05

/-! ### predicates used by the property theorems -/

/-- reachability along tensor-collection entries (reflexive) -/
inductive Reach (h : Heap) : Nat → Nat → Prop
  | refl (a : Nat) : Reach h a a
  | step {a b c : Nat} : Reach h a b → c ∈ kidIds h b → Reach h a c

/-- a container adopts only objects that already exist: kid ids are smaller (no cycles) -/
def Ordered (h : Heap) : Prop := ∀ i j, j ∈ kidIds h i → j < i
/-- strong references: the entries of a live container are alive -/
def KidsAlive (h : Heap) : Prop := ∀ i j, live h i = true → j ∈ kidIds h i → live h j = true
/-- no empty lazy stack (an empty stack has no members to derive its lock parents from) -/
def NonEmptyLazy (h : Heap) : Prop := ∀ i, (h.node i).lazy = true → kidIds h i ≠ []
/-- ids beyond `size` are unallocated -/
def Bounded (h : Heap) : Prop := ∀ i, h.size ≤ i → h.node i = {}

/-- **the lock-graph invariant**: every entry of a live locked (flag set) container is itself locked and
lists that container among its lock parents. -/
def LockClosed (h : Heap) : Prop :=
  ∀ p j, live h p = true → flagged h p = true → j ∈ kidIds h p → flagged h j = true ∧ p ∈ parentsOf h j

structure Inv (h : Heap) : Prop where
  ordered : Ordered h
  kidsAlive : KidsAlive h
  nonEmptyLazy : NonEmptyLazy h
  bounded : Bounded h
  closed : LockClosed h

/-- same graph of tensor collections, same liveness (lock bookkeeping and leaves may differ) -/
def SameShape (h h' : Heap) : Prop :=
  h'.size = h.size ∧ ∀ i, (h'.node i).kids = (h.node i).kids ∧ (h'.node i).lazy = (h.node i).lazy ∧
    (h'.node i).alive = (h.node i).alive

/-- `h'` has the shape of `h`, at least its flags and at least its registered parents -/
def Le (h h' : Heap) : Prop :=
  SameShape h h' ∧ (∀ m, flagged h m = true → flagged h' m = true) ∧
    (∀ m x, x ∈ (h.node m).parents → x ∈ (h'.node m).parents)

/-! ### shape -/

theorem SameShape.refl (h : Heap) : SameShape h h := ⟨rfl, fun _ => ⟨rfl, rfl, rfl⟩⟩
theorem SameShape.trans {a b c : Heap} (h1 : SameShape a b) (h2 : SameShape b c) : SameShape a c := by
  refine ⟨by rw [h2.1, h1.1], fun i => ?_⟩
  have x := h1.2 i; have y := h2.2 i
  exact ⟨by rw [y.1, x.1], by rw [y.2.1, x.2.1], by rw [y.2.2, x.2.2]⟩
theorem SameShape.symm {a b : Heap} (h1 : SameShape a b) : SameShape b a := by
  refine ⟨h1.1.symm, fun i => ?_⟩
  have x := h1.2 i
  exact ⟨x.1.symm, x.2.1.symm, x.2.2.symm⟩

theorem SameShape.kidIds {h h' : Heap} (s : SameShape h h') (i : Nat) : kidIds h' i = kidIds h i := by
  unfold C05.kidIds; rw [(s.2 i).1]
theorem SameShape.live {h h' : Heap} (s : SameShape h h') (i : Nat) : live h' i = live h i := by
  unfold C05.live; rw [(s.2 i).2.2]
theorem SameShape.lazy {h h' : Heap} (s : SameShape h h') (i : Nat) : (h'.node i).lazy = (h.node i).lazy :=
  (s.2 i).2.1

theorem Le.refl (h : Heap) : Le h h := ⟨SameShape.refl h, fun _ x => x, fun _ _ x => x⟩
theorem Le.trans {a b c : Heap} (h1 : Le a b) (h2 : Le b c) : Le a c :=
  ⟨h1.1.trans h2.1, fun m x => h2.2.1 m (h1.2.1 m x), fun m x y => h2.2.2 m x (h1.2.2 m x y)⟩

/-- updating only lock bookkeeping of one node keeps the shape -/
theorem sameShape_upd (h : Heap) (i : Nat) (f : LNode → LNode)
    (hf : ∀ x, (f x).kids = x.kids ∧ (f x).lazy = x.lazy ∧ (f x).alive = x.alive) :
    SameShape h (h.upd i f) := by
  refine ⟨rfl, fun j => ?_⟩
  simp only [Heap.upd]
  by_cases hj : j = i
  · subst hj; simp [hf]
  · simp [hj]

theorem SameShape.reach {h h' : Heap} (s : SameShape h h') {a b : Nat} (r : Reach h a b) : Reach h' a b := by
  induction r with
  | refl => exact .refl _
  | step _ hc ih => exact .step ih (by rw [s.kidIds]; exact hc)

theorem SameShape.reach_iff {h h' : Heap} (s : SameShape h h') (a b : Nat) : Reach h' a b ↔ Reach h a b :=
  ⟨s.symm.reach, s.reach⟩

theorem SameShape.ordered {h h' : Heap} (s : SameShape h h') (o : Ordered h) : Ordered h' :=
  fun i j hj => o i j (by rw [← s.kidIds]; exact hj)
theorem SameShape.kidsAlive {h h' : Heap} (s : SameShape h h') (o : KidsAlive h) : KidsAlive h' :=
  fun i j hi hj => by rw [s.live]; exact o i j (by rw [← s.live]; exact hi) (by rw [← s.kidIds]; exact hj)
theorem SameShape.nonEmptyLazy {h h' : Heap} (s : SameShape h h') (o : NonEmptyLazy h) : NonEmptyLazy h' :=
  fun i hi => by rw [s.kidIds]; exact o i (by rw [← s.lazy]; exact hi)

/-! ### reachability -/

theorem Reach.trans {h : Heap} {a b c : Nat} (r1 : Reach h a b) (r2 : Reach h b c) : Reach h a c := by
  induction r2 with
  | refl => exact r1
  | step _ hc ih => exact .step ih hc

theorem Reach.kid {h : Heap} {a b : Nat} (hb : b ∈ kidIds h a) : Reach h a b := .step (.refl a) hb

/-- decomposition at the root end -/
theorem Reach.cases_left {h : Heap} {a c : Nat} (r : Reach h a c) :
    a = c ∨ ∃ b, b ∈ kidIds h a ∧ Reach h b c := by
  induction r with
  | refl => exact .inl rfl
  | step r hc ih =>
    rcases ih with rfl | ⟨b, hb, rb⟩
    · exact .inr ⟨_, hc, .refl _⟩
    · exact .inr ⟨b, hb, .step rb hc⟩

theorem Reach.le {h : Heap} (o : Ordered h) {a b : Nat} (r : Reach h a b) : b ≤ a := by
  induction r with
  | refl => exact Nat.le_refl _
  | step _ hc ih => exact Nat.le_trans (Nat.le_of_lt (o _ _ hc)) ih

theorem Reach.lt {h : Heap} (o : Ordered h) {a b : Nat} (r : Reach h a b) (hne : b ≠ a) : b < a := by
  rcases r.cases_left with rfl | ⟨c, hc, rc⟩
  · exact absurd rfl hne
  · exact Nat.lt_of_le_of_lt (rc.le o) (o _ _ hc)

/-! ### `flagged`, `isLocked`, `parentsOf` : congruence, fuel irrelevance, monotonicity -/

theorem all_congr_mem {α} {l : List α} {p q : α → Bool} (h : ∀ a, a ∈ l → p a = q a) : l.all p = l.all q := by
  induction l with
  | nil => rfl
  | cons a l ih =>
    simp only [List.all_cons]
    rw [h a (List.mem_cons_self), ih (fun b hb => h b (List.mem_cons_of_mem _ hb))]

theorem flatMap_congr_mem {α β} {l : List α} {f g : α → List β} (h : ∀ a, a ∈ l → f a = g a) :
    l.flatMap f = l.flatMap g := by
  induction l with
  | nil => rfl
  | cons a l ih =>
    simp only [List.flatMap_cons]
    rw [h a (List.mem_cons_self), ih (fun b hb => h b (List.mem_cons_of_mem _ hb))]

theorem flagged_iff (h : Heap) (i : Nat) : flagged h i = true ↔ (h.node i).flag = some true := by
  unfold flagged; simp

theorem isLockedF_fuel (h : Heap) (o : Ordered h) : ∀ n m i, i < n → i < m → isLockedF n h i = isLockedF m h i := by
  intro n
  induction n with
  | zero => intro m i hi; omega
  | succ n ih =>
    intro m i hn hm
    cases m with
    | zero => omega
    | succ m =>
      simp only [isLockedF]
      cases (h.node i).flag with
      | some b => rfl
      | none =>
        simp only []
        congr 1
        apply all_congr_mem
        intro j hj
        have hji := o i j hj
        exact ih m j (by omega) (by omega)

theorem isLocked_of_flagged (h : Heap) (i : Nat) (hf : flagged h i = true) : isLocked h i = true := by
  rw [flagged_iff] at hf
  simp [isLocked, isLockedF, hf]

/-- a plain node (flag never `None`) is locked iff its flag is set -/
theorem isLocked_of_some (h : Heap) (i : Nat) (b : Bool) (hf : (h.node i).flag = some b) : isLocked h i = b := by
  simp [isLocked, isLockedF, hf]

/-- `is_locked` depends only on flags and graph -/
theorem isLockedF_congr (h h' : Heap) (hk : ∀ i, kidIds h' i = kidIds h i)
    (hfl : ∀ i, (h'.node i).flag = (h.node i).flag) : ∀ n i, isLockedF n h' i = isLockedF n h i := by
  intro n
  induction n with
  | zero => intro i; rfl
  | succ n ih =>
    intro i
    simp only [isLockedF, hfl, hk]
    cases (h.node i).flag with
    | some b => rfl
    | none => simp only []; congr 1; exact all_congr_mem (fun j _ => ih j)

theorem parentsOfF_fuel (h : Heap) (o : Ordered h) :
    ∀ n m i, i < n → i < m → parentsOfF n h i = parentsOfF m h i := by
  intro n
  induction n with
  | zero => intro m i hi; omega
  | succ n ih =>
    intro m i hn hm
    cases m with
    | zero => omega
    | succ m =>
      simp only [parentsOfF]
      split
      · congr 1
        apply flatMap_congr_mem
        intro j hj
        have hji := o i j hj
        exact ih m j (by omega) (by omega)
      · rfl

theorem parentsOf_plain (h : Heap) (i : Nat) (hl : (h.node i).lazy = false) :
    parentsOf h i = (h.node i).parents := by
  simp [parentsOf, parentsOfF, hl]

theorem mem_parentsOf_lazy (h : Heap) (o : Ordered h) (i : Nat) (hl : (h.node i).lazy = true) (x : Nat) :
    x ∈ parentsOf h i ↔ x ≠ i ∧ ∃ j, j ∈ kidIds h i ∧ x ∈ parentsOf h j := by
  have key : ∀ j, j ∈ kidIds h i → parentsOfF i h j = parentsOf h j := fun j hj =>
    parentsOfF_fuel h o i (j + 1) j (o i j hj) (by omega)
  unfold parentsOf
  rw [show parentsOfF (i + 1) h i = ((kidIds h i).flatMap (fun j => parentsOfF i h j)).filter (fun p => p != i) by
    simp [parentsOfF, hl]]
  simp only [List.mem_filter, List.mem_flatMap, bne_iff_ne, ne_eq]
  constructor
  · rintro ⟨⟨j, hj, hx⟩, hne⟩
    exact ⟨hne, j, hj, by rw [← parentsOf, ← key j hj]; exact hx⟩
  · rintro ⟨hne, j, hj, hx⟩
    exact ⟨⟨j, hj, by rw [key j hj]; exact hx⟩, hne⟩

/-- membership in `_lock_parents_weakrefs` only depends on the nodes' own lists, pointwise -/
theorem parentsOfF_mem_congr (h h' : Heap) (s : SameShape h h') (x : Nat)
    (hp : ∀ m, x ∈ (h.node m).parents → x ∈ (h'.node m).parents) :
    ∀ n i, x ∈ parentsOfF n h i → x ∈ parentsOfF n h' i := by
  intro n
  induction n with
  | zero => intro i hx; simp [parentsOfF] at hx
  | succ n ih =>
    intro i hx
    simp only [parentsOfF, s.lazy, s.kidIds] at hx ⊢
    split at hx
    · rename_i hl
      simp only [hl, if_true]
      simp only [List.mem_filter, List.mem_flatMap] at hx ⊢
      obtain ⟨⟨j, hj, hxj⟩, hne⟩ := hx
      exact ⟨⟨j, hj, ih j hxj⟩, hne⟩
    · rename_i hl
      simp only [hl]
      exact hp i hx

theorem Le.parentsOf {h h' : Heap} (l : Le h h') (i x : Nat) (hx : x ∈ parentsOf h i) : x ∈ parentsOf h' i :=
  parentsOfF_mem_congr h h' l.1 x (fun m => l.2.2 m x) (i + 1) i hx

theorem Le.flagged {h h' : Heap} (l : Le h h') (i : Nat) (hx : flagged h i = true) : flagged h' i = true :=
  l.2.1 i hx

/-! ### folds of `Le`-steps -/

theorem foldl_le (g : Heap → Nat → Heap) (hg : ∀ acc j, Le acc (g acc j)) :
    ∀ (ks : List Nat) (h : Heap), Le h (ks.foldl g h) := by
  intro ks
  induction ks with
  | nil => intro h; exact Le.refl h
  | cons k ks ih => intro h; exact (hg h k).trans (ih (g h k))

/-- every element of the list is processed once on a heap above the start, and the result is above it -/
theorem foldl_le_mem (g : Heap → Nat → Heap) (hg : ∀ acc j, Le acc (g acc j)) :
    ∀ (ks : List Nat) (h : Heap) (j : Nat), j ∈ ks →
      ∃ acc, Le h acc ∧ Le (g acc j) (ks.foldl g h) := by
  intro ks
  induction ks with
  | nil => intro h j hj; cases hj
  | cons k ks ih =>
    intro h j hj
    rcases List.mem_cons.mp hj with rfl | hj
    · exact ⟨h, Le.refl h, foldl_le g hg ks _⟩
    · obtain ⟨acc, l1, l2⟩ := ih (g h k) j hj
      exact ⟨acc, (hg h k).trans l1, l2⟩

end TdVerif.C05
