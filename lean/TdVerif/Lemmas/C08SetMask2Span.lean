/-
  C08 — writes with a rank-2 mask SPANNING the stack dim (model: Model/C08SetMask2.lean
  `lazySetCoreM`): for every kept position `(i, j)` member `j` is written at the index with the mask
  replaced by the integer `i`.  Tensor level: `mask2_span_coord`, `set_stack_mask2_span`;
  sequential member writes: `writeEach_append`, `span_row_write`, the invariant `SpanInv`
  (`spanInv_step`, `spanInv_rows`); `setitem_refines_mask2_span`.
-/
import TdVerif.Lemmas.C08SetMask2
namespace TdVerif.C08

theorem eraseIdx_take_drop {β} (o : List β) (cd : Nat) (h : cd < o.length) :
    (o.eraseIdx cd).take cd = o.take cd ∧ (o.eraseIdx cd).drop cd = o.drop (cd + 1) :=
  ⟨take_eraseIdx_self o cd, drop_eraseIdx_self o cd⟩

/-- **where a rank-2 mask SPANNING the stack dim sends a result coordinate**: position `k` of the
mask's result dim lies in row `i` at place `p`; the `p`-th kept entry of that row is member `j`;
the coordinate read in the stack is the one read in member `j` by the index with the mask replaced
by the integer `i`, with `j` inserted at the stack dim -/
theorem mask2_span_coord (sh : Shape) (n md : Nat) (hmd : md < sh.length) (pre post : List Ix) (m : T Bool)
    (hpre : BasicPre pre) (hpd : preDims pre = md) (hm : m.shape = [at0 sh md, n])
    (s : Shape) (hs : idxShape (pre ++ .mask m :: post) (sh.insertIdx (md + 1) n) = some s)
    (o : List Nat) (ho : InB o s) :
    ∃ i p j, blockOf ((List.range (at0 sh md)).map fun i => (nonzero (m.select 0 i)).length) (at0 o (outRank pre)) = (i, p) ∧
      i < at0 sh md ∧ p < (nonzero (m.select 0 i)).length ∧ (nonzero (m.select 0 i))[p]? = some [j] ∧ j < n ∧
      idxCoord (pre ++ .mask m :: post) (sh.insertIdx (md + 1) n) o =
        (idxCoord (pre ++ .int (i : Int) :: post) sh (o.eraseIdx (outRank pre))).insertIdx (md + 1) j := by
  obtain ⟨ps, qs, hps, hqs, hplen, hs', _, _⟩ := span_shapes sh n md hmd pre post m hpre hpd hm s hs
  rw [hs'] at ho
  have hol : o.length = ps.length + 1 + qs.length := by rw [InB.length ho]; simp; omega
  have hcd : outRank pre < o.length := by omega
  have hk : at0 o (outRank pre) < (nonzero m).length := by
    apply InB.at0_lt ho; rw [← hplen]; simp
  obtain ⟨hi, hp, hget⟩ := mask2_dec m (at0 sh md) n hm _ hk
  obtain ⟨i, hbi⟩ : ∃ i, i = (blockOf ((List.range (at0 sh md)).map fun i => (nonzero (m.select 0 i)).length) (at0 o (outRank pre))).1 := ⟨_, rfl⟩
  obtain ⟨p, hbp⟩ : ∃ p, p = (blockOf ((List.range (at0 sh md)).map fun i => (nonzero (m.select 0 i)).length) (at0 o (outRank pre))).2 := ⟨_, rfl⟩
  rw [← hbi] at hi hp hget
  rw [← hbp] at hp hget
  have hrow : (m.select 0 i).shape = [n] := by simp [T.select, hm]
  have hnz1 := nonzero_rank1 (m.select 0 i) n hrow
  -- the p-th kept entry of row i
  obtain ⟨j, hj, hjn⟩ : ∃ j, (nonzero (m.select 0 i))[p]? = some [j] ∧ j < n := by
    have hall : ∀ x ∈ nonzero (m.select 0 i), ∃ j, x = [j] ∧ j < n := by
      intro x hx
      rw [hnz1] at hx
      simp only [List.mem_map, List.mem_filter, List.mem_range] at hx
      obtain ⟨j, ⟨hjn, _⟩, hje⟩ := hx
      exact ⟨j, hje.symm, hjn⟩
    obtain ⟨j, hje, hjn⟩ := hall _ (List.getElem_mem hp)
    exact ⟨j, by rw [List.getElem?_eq_getElem hp, hje], hjn⟩
  refine ⟨i, p, j, by rw [hbi, hbp], hi, hp, hj, hjn, ?_⟩
  rw [hj] at hget
  simp only [Option.map_some] at hget
  have hS : md ≤ (sh.insertIdx (md + 1) n).length := by rw [List.length_insertIdx_of_le_length (by omega)]; omega
  rw [idxCoord_pre pre _ (sh.insertIdx (md + 1) n) o hpre (by rw [hpd]; exact hS) (by omega),
    idxCoord_pre pre _ sh (o.eraseIdx (outRank pre)) hpre (by rw [hpd]; omega)
      (by rw [List.length_eraseIdx_of_lt hcd]; omega)]
  rw [hpd, take_insertIdx_succ sh md n hmd, drop_insertIdx_succ sh md n hmd,
    take_eraseIdx_self, drop_eraseIdx_self, List.drop_eq_getElem_cons hmd]
  have hsm : sh[md] = at0 sh md := by simp [at0, List.getElem?_eq_getElem hmd]
  rw [hsm]
  have hod : o.drop (outRank pre) = at0 o (outRank pre) :: o.drop (outRank pre + 1) := by
    rw [List.drop_eq_getElem_cons hcd]; simp [at0, List.getElem?_eq_getElem hcd]
  rw [hod]
  simp only [idxCoord, hm, List.length_cons, List.length_nil, at0, List.getElem?_cons_zero,
    Option.getD_some, List.tail_cons, List.drop_succ_cons, List.drop_zero]
  have hgetm : (nonzero m)[o[outRank pre]?.getD 0]? = some [i, j] := by
    have := hget; simp only [at0] at this; exact this
  rw [hgetm, normInt_nat i _ hi]
  simp only [Option.getD_some]
  have hP : (idxCoord pre (sh.take md) (o.take (outRank pre))).length = md := by
    have hsp := (InB_append_iff ps _ o).mp ho
    rw [idxCoord_length pre (sh.take md) ps _ hps (by rw [← hplen]; exact hsp.1)]
    simp; omega
  have e : idxCoord pre (sh.take md) (o.take (outRank pre)) ++ i :: idxCoord post (sh.drop (md + 1)) (o.drop (outRank pre + 1))
      = (idxCoord pre (sh.take md) (o.take (outRank pre)) ++ [i]) ++ idxCoord post (sh.drop (md + 1)) (o.drop (outRank pre + 1)) := by simp
  rw [e, insertIdx_append_mid _ _ _ (md + 1) (by simp [hP])]
  simp


/-- the `p`-th entry kept by row `i` of the mask -/
def keptAt (m : T Bool) (n i p : Nat) : Nat := (((List.range n).filter fun j => m.get [i, j])[p]?).getD n

theorem insertIdx_eraseIdx_set'' (c : List Nat) (d x : Nat) (h : d < c.length) :
    (c.eraseIdx d).insertIdx d x = c.set d x := by
  have := insertIdx_eraseIdx_self (c.set d x) d (by simpa using h)
  have h2 : at0 (c.set d x) d = x := by simp [at0, h]
  rw [h2, List.eraseIdx_set_eq] at this
  exact this

/-- **T-level write refinement, rank-2 mask spanning the stack dim**: if every member `j` has been
written, for every row `i` that keeps it (as its `p`-th kept entry), at the index with the mask
replaced by the integer `i`, with position `start_i + p` of the value — and nowhere else —, the
stack has been written through the whole mask with the whole value -/
theorem set_stack_mask2_span [Inhabited α] (ms ms' : List (T α)) (sh : Shape) (md : Nat) (pre post : List Ix)
    (m : T Bool)
    (hsh : ∀ t ∈ ms, t.shape = sh) (hne : ms ≠ []) (hmd : md < sh.length)
    (hpre : BasicPre pre) (hpd : preDims pre = md) (hm : m.shape = [at0 sh md, ms.length])
    (v : T α) (hs : idxShape (pre ++ .mask m :: post) (sh.insertIdx (md + 1) ms.length) = some v.shape)
    (hlen' : ms'.length = ms.length) (hsh' : ∀ t ∈ ms', t.shape = sh)
    (cnts : List Nat) (hcnts : cnts = (List.range (at0 sh md)).map fun i => (nonzero (m.select 0 i)).length)
    (hhit : ∀ i p j (hj : j < ms'.length), i < at0 sh md → p < (nonzero (m.select 0 i)).length →
      (nonzero (m.select 0 i))[p]? = some [j] →
      ∀ o'', InB o'' (v.shape.eraseIdx (outRank pre)) →
        (ms'[j]).get (idxCoord (pre ++ .int (i : Int) :: post) sh o'')
          = v.get (o''.insertIdx (outRank pre) ((cnts.take i).sum + p)))
    (hframe : ∀ j (h1 : j < ms.length) (h2 : j < ms'.length) (c : List Nat), InB c sh →
      (∀ i p, i < at0 sh md → p < (nonzero (m.select 0 i)).length → (nonzero (m.select 0 i))[p]? = some [j] →
        ∀ o'', InB o'' (v.shape.eraseIdx (outRank pre)) → idxCoord (pre ++ .int (i : Int) :: post) sh o'' ≠ c) →
      (ms'[j]).get c = (ms[j]).get c) :
    IsSetT (pre ++ .mask m :: post) (T.stack ms (md + 1)) v (T.stack ms' (md + 1)) := by
  have hsdle : md + 1 ≤ sh.length := hmd
  have hhead := head_shape_of_all ms sh hsh hne
  have hstk : (T.stack ms (md + 1)).shape = sh.insertIdx (md + 1) ms.length := by rw [T.stack_shape, hhead]
  have hne' : ms' ≠ [] := by
    intro hh; rw [hh] at hlen'; simp at hlen'; exact hne (List.length_eq_zero_iff.mp hlen'.symm)
  have hstk' : (T.stack ms' (md + 1)).shape = sh.insertIdx (md + 1) ms.length := by
    rw [T.stack_shape, head_shape_of_all ms' sh hsh' hne', hlen']
  obtain ⟨ps, qs, hps, hqs, hplen, hs', _, _⟩ := span_shapes sh ms.length md hmd pre post m hpre hpd hm v.shape hs
  have hcdv : outRank pre < v.shape.length := by rw [hs']; simp; omega
  have hnz : (nonzero m).length = cnts.sum := by
    rw [nonzero_rank2 m _ _ hm, length_flatMap_sum, hcnts]; simp
  have hbasic_shape : ∀ i, i < at0 sh md →
      idxShape (pre ++ .int (i : Int) :: post) sh = some (ps ++ qs) := by
    intro i hi
    rw [idxShape_pre pre _ sh hpre (by rw [hpd]; omega), hpd, hps]
    simp only [Option.bind_some]
    rw [List.drop_eq_getElem_cons hmd]
    have : sh[md] = at0 sh md := by simp [at0, List.getElem?_eq_getElem hmd]
    simp [idxShape, this, normInt_nat i _ hi, hqs]
  have herase : v.shape.eraseIdx (outRank pre) = ps ++ qs := by
    rw [hs', ← hplen]; simp [List.eraseIdx_append_of_length_le]
  refine ⟨by rw [hstk', hstk], ?_, ?_⟩
  · -- hit
    intro o ho
    rw [hstk]
    obtain ⟨i, p, j, hb, hi, hp, hj, hjn, hcoord⟩ :=
      mask2_span_coord sh ms.length md hmd pre post m hpre hpd hm v.shape hs o ho
    rw [← hcnts] at hb
    have hcd : outRank pre < o.length := by rw [InB.length ho]; exact hcdv
    have hkk : at0 o (outRank pre) < cnts.sum := by
      rw [← hnz]; apply InB.at0_lt ho; rw [hs', ← hplen]; simp
    obtain ⟨_, _, hsum⟩ := blockOf_spec cnts _ hkk
    rw [hb] at hsum
    simp only at hsum
    have hj' : j < ms'.length := by omega
    have ho'' : InB (o.eraseIdx (outRank pre)) (v.shape.eraseIdx (outRank pre)) := InB.eraseIdx _ ho
    have hlenY : (idxCoord (pre ++ .int (i : Int) :: post) sh (o.eraseIdx (outRank pre))).length = sh.length :=
      idxCoord_length _ sh _ _ (hbasic_shape i hi) (by rw [← herase]; exact ho'')
    rw [hcoord, T.stack_get, at0_insertIdx_self _ _ _ (by rw [hlenY]; exact hsdle),
      List.eraseIdx_insertIdx_self, List.getElem?_eq_getElem hj', Option.getD_some]
    rw [hhit i p j hj' hi hp hj _ ho'', hsum, insertIdx_eraseIdx_self o _ hcd]
  · -- frame
    intro c hc hnot
    rw [hstk] at hc hnot
    have hcl : c.length = sh.length + 1 := by rw [InB.length hc, List.length_insertIdx_of_le_length hsdle]
    have hj : at0 c (md + 1) < ms.length := InB.at0_lt_of_insert c sh (md + 1) ms.length hsdle hc
    have hj' : at0 c (md + 1) < ms'.length := by omega
    rw [T.stack_get, T.stack_get, List.getElem?_eq_getElem hj, List.getElem?_eq_getElem hj']
    simp only [Option.getD_some]
    have hc' : InB (c.eraseIdx (md + 1)) sh := by
      have := InB.eraseIdx (md + 1) hc
      rwa [List.eraseIdx_insertIdx_self] at this
    apply hframe _ hj hj' _ hc'
    intro i p hi hp hkept o'' ho'' heq
    -- the value coordinate that would hit `c`
    have hil : i < cnts.length := by rw [hcnts]; simpa using hi
    have hcnt_i : cnts[i]?.getD 0 = (nonzero (m.select 0 i)).length := by
      rw [hcnts, List.getElem?_map, List.getElem?_range hi]; rfl
    have hblock := blockOf_inv cnts i p hil (by rw [hcnt_i]; exact hp)
    have hpos_lt : (cnts.take i).sum + p < cnts.sum := by
      have h1 : cnts.sum = (cnts.take i).sum + (cnts.drop i).sum := by
        rw [← List.sum_append, List.take_append_drop]
      have h2 : (cnts.drop i).sum ≥ cnts[i]?.getD 0 := by
        rw [List.drop_eq_getElem_cons hil, List.sum_cons, List.getElem?_eq_getElem hil]
        simp
      omega
    obtain ⟨o, hodef⟩ : ∃ o, o = o''.insertIdx (outRank pre) ((cnts.take i).sum + p) := ⟨_, rfl⟩
    have ho''l : outRank pre ≤ o''.length := by
      rw [InB.length ho'', List.length_eraseIdx_of_lt hcdv]; omega
    have ho : InB o v.shape := by
      rw [hodef]
      have := InB.insertIdx (c := o'') (s := v.shape.eraseIdx (outRank pre)) (outRank pre)
        ((cnts.take i).sum + p) (nonzero m).length
        (by rw [List.length_eraseIdx_of_lt hcdv]; omega) (by rw [hnz]; exact hpos_lt) ho''
      have e : (v.shape.eraseIdx (outRank pre)).insertIdx (outRank pre) (nonzero m).length = v.shape := by
        rw [herase, hs', ← hplen]
        exact insertIdx_append_mid _ _ _ _ rfl
      rwa [e] at this
    apply hnot o ho
    obtain ⟨i2, p2, j2, hb2, _, _, hj2, _, hcoord⟩ :=
      mask2_span_coord sh ms.length md hmd pre post m hpre hpd hm v.shape hs o ho
    rw [← hcnts] at hb2
    have hato : at0 o (outRank pre) = (cnts.take i).sum + p := by
      rw [hodef]; exact at0_insertIdx_self _ _ _ ho''l
    rw [hato, hblock] at hb2
    simp only [Prod.mk.injEq] at hb2
    obtain ⟨rfl, rfl⟩ := hb2
    rw [hkept] at hj2
    have hjj : at0 c (md + 1) = j2 := by simpa using hj2
    have hoe : o.eraseIdx (outRank pre) = o'' := by
      rw [hodef, List.eraseIdx_insertIdx_self]
    rw [hoe, heq, ← hjj, insertIdx_eraseIdx_self c (md + 1) (by omega)] at hcoord
    exact hcoord


theorem writeEach_append : ∀ (a b : List (Nat × List Ix × TD α)) (ms : List (TD α)),
    writeEach (a ++ b) ms = (writeEach a ms).bind (writeEach b)
  | [], b, ms => by simp [writeEach]
  | (i, out, v) :: r, b, ms => by
    simp only [List.cons_append, writeEach]
    cases memberSet ms out i v with
    | none => simp
    | some ms1 => simp [writeEach_append r b ms1]

/-- the positions a row of the mask keeps are pairwise distinct -/
theorem kept_inj (n : Nat) (pr : Nat → Bool) (p p' : Nat)
    (hp : p < ((List.range n).filter pr).length) (hp' : p' < ((List.range n).filter pr).length)
    (h : (((List.range n).filter pr)[p]?).getD n = (((List.range n).filter pr)[p']?).getD n) : p = p' := by
  have hn : ((List.range n).filter pr).Nodup := List.Nodup.sublist List.filter_sublist List.nodup_range
  rw [List.getElem?_eq_getElem hp, List.getElem?_eq_getElem hp'] at h
  exact (List.getElem_inj hn).mp (by simpa using h)

/-- **one row of a spanning mask write**: the members the row keeps are written, each once, at the
index with the mask replaced by the integer `i`; the other members are untouched -/
theorem span_row_write (cur nxt : List (TD α)) (n : Nat) (hn : cur.length = n) (kept : List Nat)
    (hkept : kept = (List.range n).filter pr) (out : List Ix) (piece : Nat → TD α)
    (h : writeEach ((List.range kept.length).map fun p => (kept[p]?.getD n, out, piece p)) cur = some nxt) :
    nxt.length = cur.length ∧
    (∀ p (hp : p < kept.length), ∃ (hj : kept[p] < cur.length) (m' : TD α),
      (cur[kept[p]]).setitem out (piece p) = some m' ∧ nxt[kept[p]]? = some m') ∧
    (∀ j, j ∉ kept → nxt[j]? = cur[j]?) := by
  have hnd : (((List.range kept.length).map fun p => (kept[p]?.getD n, out, piece p)).map Prod.fst).Nodup := by
    rw [List.map_map]
    apply nodup_map_range
    intro p p' hp hp' heq
    simp only [Function.comp] at heq
    subst hkept
    exact kept_inj n pr p p' hp hp' heq
  obtain ⟨hl, hw, hnot⟩ := writeEach_spec _ _ _ h hnd
  refine ⟨hl, ?_, ?_⟩
  · intro p hp
    obtain ⟨hlt, m', h1, h2⟩ := hw (kept[p]?.getD n, out, piece p)
      (List.mem_map.mpr ⟨p, List.mem_range.mpr hp, rfl⟩)
    have e : kept[p]?.getD n = kept[p] := by rw [List.getElem?_eq_getElem hp]; rfl
    simp only [e] at hlt h1 h2
    exact ⟨hlt, m', h1, h2⟩
  · intro j hj
    apply hnot
    simp only [List.map_map, List.mem_map, List.mem_range, Function.comp, not_exists, not_and]
    intro p hp heq
    apply hj
    rw [List.getElem?_eq_getElem hp] at heq
    simp only [Option.getD_some] at heq
    rw [← heq]; exact List.getElem_mem _


/-- the integer that replaced the mask is where the write lands along the dim the mask started at -/
theorem idxCoord_pre_int_at (sh : Shape) (md : Nat) (hmd : md < sh.length) (pre post : List Ix) (hpre : BasicPre pre)
    (hpd : preDims pre = md) (i : Nat) (hi : i < at0 sh md) (s : Shape)
    (hs : idxShape (pre ++ .int (i : Int) :: post) sh = some s) (o : List Nat) (ho : InB o s) :
    at0 (idxCoord (pre ++ .int (i : Int) :: post) sh o) md = i := by
  have hfac := idxShape_pre pre (.int (i : Int) :: post) sh hpre (by rw [hpd]; omega)
  rw [hs, hpd] at hfac
  cases hps : idxShape pre (sh.take md) with
  | none => simp [hps] at hfac
  | some ps =>
  simp only [hps, Option.bind_some] at hfac
  have hplen : ps.length = outRank pre :=
    idxShape_pre_length pre (sh.take md) ps hpre (by rw [hpd]; simp; omega) hps
  rw [List.drop_eq_getElem_cons hmd] at hfac
  have hsm : sh[md] = at0 sh md := by simp [at0, List.getElem?_eq_getElem hmd]
  simp only [idxShape, hsm, normInt_nat i _ hi, Option.isSome_some, if_true] at hfac
  cases hqs : idxShape post (sh.drop (md + 1)) with
  | none => simp [hqs] at hfac
  | some qs =>
  simp only [hqs, Option.map_some, Option.some.injEq] at hfac
  subst hfac
  have hol : o.length = ps.length + qs.length := by rw [InB.length ho]; simp
  rw [idxCoord_pre pre _ sh o hpre (by rw [hpd]; omega) (by omega), hpd, List.drop_eq_getElem_cons hmd, hsm]
  have hsp := (InB_append_iff ps qs o).mp ho
  have hP : (idxCoord pre (sh.take md) (o.take (outRank pre))).length = md := by
    rw [idxCoord_length pre (sh.take md) ps _ hps (by rw [← hplen]; exact hsp.1)]; simp; omega
  simp only [idxCoord, normInt_nat i _ hi, Option.getD_some, at0]
  rw [List.getElem?_append_right (by omega), hP]
  simp

theorem basic_pre_int_post (pre post : List Ix) (hpre : BasicPre pre) (hpost : Basic post) (i : Int) :
    Basic (pre ++ .int i :: post) := by
  intro it hit
  simp only [List.mem_append, List.mem_cons] at hit
  rcases hit with h | rfl | h
  · exact basicPre_basic pre hpre it h
  · simp [Ix.isAdv]
  · exact hpost it h


/-- the members row `i` of the mask keeps, in order -/
def keptOf (m : T Bool) (n i : Nat) : List Nat := (List.range n).filter fun j => m.get [i, j]

/-- the writes of row `i` -/
def spanRow (m : T Bool) (n : Nat) (pre post : List Ix) (v : TD α) (cd : Nat) (starts : Nat → Nat) (i : Nat) :
    List (Nat × List Ix × TD α) :=
  (List.range (keptOf m n i).length).map fun p =>
    ((keptOf m n i)[p]?.getD n, pre ++ .int (i : Int) :: post, v.select cd (starts i + p))

/-- what holds after the rows `dn` have been written: every member has the batch size / keys /
leaf shapes it had, the kept positions of the rows in `dn` hold the value, everything else is
what it was in `ms0` -/
def SpanInv [Inhabited α] (b : Shape) (keys : List String) (feat : String → Shape) (n : Nat) (pre post : List Ix) (m : T Bool)
    (v : TD α) (psqs : Shape) (cd : Nat) (starts : Nat → Nat) (ms0 : List (TD α)) (dn : List Nat) (cur : List (TD α)) : Prop :=
  cur.length = n ∧
  (∀ j (hj : j < cur.length), (cur[j]).batch = b ∧ (cur[j]).keys = keys ∧ ∀ k ∈ keys, ((cur[j]).leaf k).shape = b ++ feat k) ∧
  ∀ k ∈ keys, ∀ j (hj : j < cur.length) (hj0 : j < ms0.length),
    (∀ i ∈ dn, ∀ p : Nat, (keptOf m n i)[p]? = some j → ∀ o'' : List Nat, InB o'' (psqs ++ feat k) →
      ((cur[j]).leaf k).get (idxCoord (pre ++ .int (i : Int) :: post) (b ++ feat k) o'')
        = (v.leaf k).get (o''.insertIdx cd (starts i + p))) ∧
    (∀ c, InB c (b ++ feat k) →
      (∀ i ∈ dn, ∀ p : Nat, (keptOf m n i)[p]? = some j → ∀ o'' : List Nat, InB o'' (psqs ++ feat k) →
        idxCoord (pre ++ .int (i : Int) :: post) (b ++ feat k) o'' ≠ c) →
      ((cur[j]).leaf k).get c = ((ms0[j]).leaf k).get c)


theorem keptOf_nodup (m : T Bool) (n i : Nat) : (keptOf m n i).Nodup :=
  List.Nodup.sublist List.filter_sublist List.nodup_range

theorem keptOf_inj (m : T Bool) (n i p p' j : Nat) (h : (keptOf m n i)[p]? = some j) (h' : (keptOf m n i)[p']? = some j) :
    p = p' := by
  have hp : p < (keptOf m n i).length := by
    rcases Nat.lt_or_ge p (keptOf m n i).length with h1 | h1
    · exact h1
    · simp [List.getElem?_eq_none h1] at h
  have hp' : p' < (keptOf m n i).length := by
    rcases Nat.lt_or_ge p' (keptOf m n i).length with h1 | h1
    · exact h1
    · simp [List.getElem?_eq_none h1] at h'
  rw [List.getElem?_eq_getElem hp] at h
  rw [List.getElem?_eq_getElem hp'] at h'
  exact (List.getElem_inj (keptOf_nodup m n i)).mp (by rw [Option.some.inj h, Option.some.inj h'])

/-- **writing one more row keeps the invariant** -/
theorem spanInv_step [Inhabited α] (b : Shape) (keys : List String) (feat : String → Shape) (n md : Nat)
    (pre post : List Ix) (m : T Bool) (v : TD α) (psqs : Shape) (cd : Nat) (starts : Nat → Nat) (ms0 : List (TD α))
    (hmdb : md < b.length) (hpre : BasicPre pre) (hpd : preDims pre = md) (hpost : Basic post)
    (hout : ∀ i, i < at0 b md → idxShape (pre ++ .int (i : Int) :: post) b = some psqs)
    (hvk : v.keys = keys) (hcdv : cd < v.batch.length) (hvb : v.batch.eraseIdx cd = psqs)
    (hvl : ∀ k ∈ keys, (v.leaf k).shape = v.batch ++ feat k)
    (dn : List Nat) (cur nxt : List (TD α)) (i : Nat) (hi : i < at0 b md) (hidn : i ∉ dn)
    (hdn : ∀ i' ∈ dn, i' < at0 b md)
    (hinv : SpanInv b keys feat n pre post m v psqs cd starts ms0 dn cur)
    (h : writeEach (spanRow m n pre post v cd starts i) cur = some nxt) :
    SpanInv b keys feat n pre post m v psqs cd starts ms0 (dn ++ [i]) nxt := by
  obtain ⟨hlen, hunif, hkeys⟩ := hinv
  unfold spanRow at h
  obtain ⟨hl, hw, hnot⟩ := span_row_write (pr := fun j => m.get [i, j]) cur nxt n hlen (keptOf m n i) rfl _ _ h
  have hbasic : Basic (pre ++ .int (i : Int) :: post) := basic_pre_int_post pre post hpre hpost _
  -- what a kept member becomes
  have hkeptfacts : ∀ p (hp : p < (keptOf m n i).length), ∃ (hj : (keptOf m n i)[p] < cur.length)
      (hj' : (keptOf m n i)[p] < nxt.length),
      (nxt[(keptOf m n i)[p]]).batch = b ∧ (nxt[(keptOf m n i)[p]]).keys = keys ∧
      ∀ k ∈ keys, (nxt[(keptOf m n i)[p]]).leaf k
        = setT (pre ++ .int (i : Int) :: post) ((cur[(keptOf m n i)[p]]).leaf k) ((v.leaf k).select cd (starts i + p)) := by
    intro p hp
    obtain ⟨hj, m', h1, h2⟩ := hw p hp
    have hj' : (keptOf m n i)[p] < nxt.length := by omega
    have hm' : nxt[(keptOf m n i)[p]] = m' := by
      rw [List.getElem?_eq_getElem hj'] at h2; exact Option.some.inj h2
    obtain ⟨so, _, _, _, hb', hk', hl'⟩ := TD.setitem_some _ _ _ _ h1
    obtain ⟨ub, uk, _⟩ := hunif _ hj
    refine ⟨hj, hj', by rw [hm', hb', ub], by rw [hm', hk', uk], ?_⟩
    intro k hk
    rw [hm', hl' k]
    have : (v.select cd (starts i + p)).keys.contains k = true := by
      show v.keys.contains k = true
      rw [hvk]; simpa using hk
    rw [if_pos this]; rfl
  have hshape_piece : ∀ k ∈ keys, ∀ q, ((v.leaf k).select cd q).shape = psqs ++ feat k := by
    intro k hk q
    show (v.leaf k).shape.eraseIdx cd = _
    rw [hvl k hk, List.eraseIdx_append_of_lt_length hcdv, hvb]
  have houtk : ∀ k, idxShape (pre ++ .int (i : Int) :: post) (b ++ feat k) = some (psqs ++ feat k) :=
    fun k => idxShape_append (feat k) _ _ _ (hout i hi)
  refine ⟨by rw [hl, hlen], ?_, ?_⟩
  · -- uniformity
    intro j hj
    by_cases hjk : j ∈ keptOf m n i
    · obtain ⟨p, hp, rfl⟩ := List.getElem_of_mem hjk
      obtain ⟨_, _, hb', hk', hl'⟩ := hkeptfacts p hp
      refine ⟨hb', hk', ?_⟩
      intro k hk
      rw [hl' k hk]
      exact (hunif _ (by omega)).2.2 k hk
    · have hj2 : j < cur.length := by omega
      have := hnot j hjk
      rw [List.getElem?_eq_getElem hj, List.getElem?_eq_getElem hj2] at this
      rw [Option.some.inj this]
      exact hunif j hj2
  · intro k hk j hj hj0
    have hj2 : j < cur.length := by omega
    obtain ⟨hhit, hframe⟩ := hkeys k hk j hj2 hj0
    by_cases hjk : j ∈ keptOf m n i
    · -- a member the row keeps
      obtain ⟨p, hp, hpj⟩ := List.getElem_of_mem hjk
      obtain ⟨_, hj', _, _, hl'⟩ := hkeptfacts p hp
      have hleaf : (nxt[j]).leaf k = setT (pre ++ .int (i : Int) :: post) ((cur[j]).leaf k)
          ((v.leaf k).select cd (starts i + p)) := by
        have := hl' k hk
        simp only [hpj] at this
        exact this
      have hcurshape : ((cur[j]).leaf k).shape = b ++ feat k := (hunif j hj2).2.2 k hk
      have hset : IsSetT (pre ++ .int (i : Int) :: post) ((cur[j]).leaf k) ((v.leaf k).select cd (starts i + p))
          (setT (pre ++ .int (i : Int) :: post) ((cur[j]).leaf k) ((v.leaf k).select cd (starts i + p))) := by
        apply setT_isSet
        intro o o' ho ho' heq
        rw [hcurshape] at heq
        rw [hshape_piece k hk] at ho ho'
        exact idxCoord_inj_basic _ _ _ hbasic (houtk k) o o' ho ho' heq
      have hpget : (keptOf m n i)[p]? = some j := by rw [List.getElem?_eq_getElem hp, hpj]
      refine ⟨?_, ?_⟩
      · intro i' hi' p' hp' o'' ho''
        rw [hleaf]
        simp only [List.mem_append, List.mem_singleton] at hi'
        rcases hi' with hi' | rfl
        · -- an earlier row: its target is not touched by row `i`
          have hne : i' ≠ i := fun hh => hidn (hh ▸ hi')
          rw [hset.frame _ (by
              rw [hcurshape]
              exact idxCoord_inB _ _ _ _ (idxShape_append (feat k) _ _ _ (hout i' (hdn i' hi'))) ho'')
            (by
              intro o ho heq
              rw [hcurshape] at heq
              rw [hshape_piece k hk] at ho
              have h1 := idxCoord_pre_int_at (b ++ feat k) md (by simp; omega) pre post hpre hpd i
                (by simp only [at0]; rw [List.getElem?_append_left hmdb]; exact hi) _ (houtk k) o ho
              have h2 := idxCoord_pre_int_at (b ++ feat k) md (by simp; omega) pre post hpre hpd i'
                (by simp only [at0]; rw [List.getElem?_append_left hmdb]; exact hdn i' hi') _
                (idxShape_append (feat k) _ _ _ (hout i' (hdn i' hi'))) o'' ho''
              rw [heq, h2] at h1
              exact hne h1)]
          exact hhit i' hi' p' hp' o'' ho''
        · -- row `i` itself
          have hpp : p' = p := keptOf_inj m n i' p' p j hp' hpget
          subst hpp
          have := hset.hit o'' (by rw [hshape_piece k hk]; exact ho'')
          rw [hcurshape] at this
          rw [this]
          rfl
      · intro c hc hnothit
        rw [hleaf, hset.frame c (by rw [hcurshape]; exact hc) (by
          intro o ho heq
          rw [hcurshape] at heq
          rw [hshape_piece k hk] at ho
          exact hnothit i (by simp) p hpget o ho heq)]
        apply hframe c hc
        intro i' hi' p' hp' o'' ho''
        exact hnothit i' (by simp [hi']) p' hp' o'' ho''
    · -- untouched member
      have hsame : nxt[j] = cur[j] := by
        have := hnot j hjk
        rw [List.getElem?_eq_getElem hj, List.getElem?_eq_getElem hj2] at this
        exact Option.some.inj this
      rw [hsame]
      refine ⟨?_, ?_⟩
      · intro i' hi' p' hp' o'' ho''
        simp only [List.mem_append, List.mem_singleton] at hi'
        rcases hi' with hi' | rfl
        · exact hhit i' hi' p' hp' o'' ho''
        · exfalso
          apply hjk
          have hp'lt : p' < (keptOf m n i').length := by
            rcases Nat.lt_or_ge p' (keptOf m n i').length with h1 | h1
            · exact h1
            · simp [List.getElem?_eq_none h1] at hp'
          rw [List.getElem?_eq_getElem hp'lt] at hp'
          rw [← Option.some.inj hp']; exact List.getElem_mem _
      · intro c hc hnothit
        apply hframe c hc
        intro i' hi' p' hp' o'' ho''
        exact hnothit i' (by simp [hi']) p' hp' o'' ho''


/-- writing the rows one after the other keeps the invariant -/
theorem spanInv_rows [Inhabited α] (b : Shape) (keys : List String) (feat : String → Shape) (n md : Nat)
    (pre post : List Ix) (m : T Bool) (v : TD α) (psqs : Shape) (cd : Nat) (starts : Nat → Nat) (ms0 : List (TD α))
    (hmdb : md < b.length) (hpre : BasicPre pre) (hpd : preDims pre = md) (hpost : Basic post)
    (hout : ∀ i, i < at0 b md → idxShape (pre ++ .int (i : Int) :: post) b = some psqs)
    (hvk : v.keys = keys) (hcdv : cd < v.batch.length) (hvb : v.batch.eraseIdx cd = psqs)
    (hvl : ∀ k ∈ keys, (v.leaf k).shape = v.batch ++ feat k) :
    ∀ (rows dn : List Nat) (cur fin : List (TD α)),
      SpanInv b keys feat n pre post m v psqs cd starts ms0 dn cur →
      (∀ i ∈ rows, i ∉ dn ∧ i < at0 b md) → rows.Nodup → (∀ i' ∈ dn, i' < at0 b md) →
      writeEach (rows.flatMap (spanRow m n pre post v cd starts)) cur = some fin →
      SpanInv b keys feat n pre post m v psqs cd starts ms0 (dn ++ rows) fin
  | [], dn, cur, fin, hinv, _, _, _, h => by
    simp only [List.flatMap_nil, writeEach, Option.some.injEq] at h
    subst h
    simpa using hinv
  | i :: rest, dn, cur, fin, hinv, hrows, hnd, hdn, h => by
    rw [List.flatMap_cons, writeEach_append] at h
    obtain ⟨cur1, h1, h2⟩ := Option.bind_eq_some_iff.mp h
    obtain ⟨hidn, hi⟩ := hrows i (by simp)
    have hstep := spanInv_step b keys feat n md pre post m v psqs cd starts ms0 hmdb hpre hpd hpost hout hvk hcdv hvb hvl
      dn cur cur1 i hi hidn hdn hinv h1
    simp only [List.nodup_cons] at hnd
    have := spanInv_rows b keys feat n md pre post m v psqs cd starts ms0 hmdb hpre hpd hpost hout hvk hcdv hvb hvl
      rest (dn ++ [i]) cur1 fin hstep
      (by
        intro i' hi'
        refine ⟨?_, (hrows i' (by simp [hi'])).2⟩
        simp only [List.mem_append, List.mem_singleton, not_or]
        exact ⟨(hrows i' (by simp [hi'])).1, fun hh => hnd.1 (hh ▸ hi')⟩)
      hnd.2
      (by
        intro i' hi'
        simp only [List.mem_append, List.mem_singleton] at hi'
        rcases hi' with hi' | rfl
        · exact hdn i' hi'
        · exact hi)
      h2
    simpa [List.append_assoc] using this


theorem nonzero_row_kept (m : T Bool) (nmd n i : Nat) (hm : m.shape = [nmd, n]) :
    nonzero (m.select 0 i) = (keptOf m n i).map fun j => [j] := by
  have hrow : (m.select 0 i).shape = [n] := by simp [T.select, hm]
  rw [nonzero_rank1 _ n hrow]
  rfl

theorem nz_kept_iff (m : T Bool) (nmd n i p j : Nat) (hm : m.shape = [nmd, n]) :
    (nonzero (m.select 0 i))[p]? = some [j] ↔ (keptOf m n i)[p]? = some j := by
  rw [nonzero_row_kept m nmd n i hm, List.getElem?_map]
  cases (keptOf m n i)[p]? with
  | none => simp
  | some x => simp

theorem splitLoop_pre_mask_span_splitDim (sd n : Nat) (shape : Shape) (m : T Bool) (hm2 : m.shape.length = 2)
    (post : List Ix) (hpost : ∀ it ∈ post, it ≠ Ix.ell) : ∀ (pre : List Ix) (i : Nat) (st st' : SplitSt),
    BasicPre pre → st.cursor + preDims pre + 1 = sd →
    splitLoop sd n shape (pre ++ .mask m :: post) i st = some st' →
    st'.splitDim = (st'.maskLoc : Int) - st'.numSingle
  | [], i, st, st', _, hc, h => by
    have hc0 : st.cursor + 1 = sd := by simpa [preDims] using hc
    have hne : ¬ st.cursor = sd := by omega
    have hlt : st.cursor < sd := by omega
    have hsp : st.cursor < sd ∧ sd < st.cursor + 2 := ⟨hlt, by omega⟩
    obtain ⟨st2, h1, _, h3⟩ := splitLoop_after sd n shape post (i + 1)
      { st with numSquash := st.numSquash + 1, hasBool := true, sel := .range 0 1 (shape[st.cursor]?.getD 0),
                splitDim := (i : Int) - st.numSingle, maskLoc := i, maskDim := st.cursor,
                out := st.out ++ [.mask m], cursor := st.cursor + 2 } (by simp; omega) hpost
    have hh : splitLoop sd n shape (.mask m :: post) i st = some st2 := by
      simpa [splitLoop, splitStep, hne, hm2, hlt, hsp] using h1
    simp only [List.nil_append] at h
    rw [hh] at h
    obtain rfl := Option.some.inj h
    rw [h3.splitDim, h3.maskLoc, h3.numSingle]
  | .none :: r, i, st, st', hb, hc, h => by
    simp only [List.cons_append, splitLoop, splitStep, Option.bind_some] at h
    exact splitLoop_pre_mask_span_splitDim sd n shape m hm2 post hpost r (i + 1) _ st'
      (by simpa [BasicPre] using hb) (by simpa [preDims] using hc) h
  | .int k :: r, i, st, st', hb, hc, h => by
    have hc0 : ¬ st.cursor = sd := by simp [preDims] at hc; omega
    simp only [List.cons_append, splitLoop, splitStep, hc0, if_false, Option.bind_some] at h
    exact splitLoop_pre_mask_span_splitDim sd n shape m hm2 post hpost r (i + 1) _ st'
      (by simpa [BasicPre] using hb) (by simp [preDims] at hc ⊢; omega) h
  | .slice a b c :: r, i, st, st', hb, hc, h => by
    have hc0 : ¬ st.cursor = sd := by simp [preDims] at hc; omega
    simp only [List.cons_append, splitLoop, splitStep, hc0, if_false, Option.bind_some] at h
    exact splitLoop_pre_mask_span_splitDim sd n shape m hm2 post hpost r (i + 1) _ st'
      (by simpa [BasicPre] using hb) (by simp [preDims] at hc ⊢; omega) h
  | .tens _ :: _, _, _, _, hb, _, _ => by simp [BasicPre] at hb
  | .mask _ :: _, _, _, _, hb, _, _ => by simp [BasicPre] at hb
  | .ell :: _, _, _, _, hb, _, _ => by simp [BasicPre] at hb


/-- **Writes with a rank-2 mask spanning the stack dim** (`lazy[pre…, mask2d, post…] = v`, the mask
covering the dim before the stack dim and the stack dim): for every kept position `(i, j)` member `j`
is written, at the index with the mask replaced by the integer `i`, with the matching position of
the value (split along `mask_loc - num_single`, row after row); the dense stack of the members
afterwards is `IsSetT` of the dense stack before. -/
theorem setitem_refines_mask2_span [Inhabited α] (L : Lazy α) (b : Shape) (keys : List String) (feat : String → Shape)
    (hU : Uniform L b keys feat) (hne0 : L.members ≠ []) (pre post : List Ix) (m : T Bool)
    (hpre : BasicPre pre) (hpd : preDims pre + 1 = L.sd) (hpost : Basic post)
    (hm : m.shape = [at0 b (preDims pre), L.members.length])
    (v : TD α) (hvk : v.keys = keys) (hvl : ∀ k ∈ keys, (v.leaf k).shape = v.batch ++ feat k)
    (hbd : idxShape (pre ++ .mask m :: post) (absL L).batch = some v.batch)
    (L' : Lazy α) (h : lazySetCoreM L (pre ++ .mask m :: post) v = some L') :
    L'.sd = L.sd ∧ Uniform L' b keys feat ∧ L'.members.length = L.members.length ∧
    ∀ k ∈ keys, IsSetT (pre ++ .mask m :: post) ((absL L).leaf k) (v.leaf k) ((absL L').leaf k) := by
  obtain ⟨md, hmd⟩ : ∃ md, md = preDims pre := ⟨_, rfl⟩
  have hpostne : ∀ it ∈ post, it ≠ Ix.ell := fun it h => (hpost it h).2
  have hsd : L.sd = md + 1 := by omega
  have hmdb : md < b.length := by have := hU.hsd; omega
  have hB : (absL L).batch = b.insertIdx (md + 1) L.members.length := by
    rw [absL_batch_eq L b keys feat hU hne0, hsd]
  have hLB : L.batch = b.insertIdx (md + 1) L.members.length := hB
  rw [hB] at hbd
  obtain ⟨ps, qs, hps, hqs, hplen, hs', _, hso⟩ :=
    span_shapes b L.members.length md hmdb pre post m hpre hmd.symm (by rw [hmd]; exact hm) v.batch hbd
  have hcdv : outRank pre < v.batch.length := by rw [hs']; simp; omega
  have hvbe : v.batch.eraseIdx (outRank pre) = ps ++ qs := by
    rw [hs', ← hplen]; simp [List.eraseIdx_append_of_length_le]
  have hout : ∀ i, i < at0 b md → idxShape (pre ++ .int (i : Int) :: post) b = some (ps ++ qs) := by
    intro i hi
    rw [idxShape_pre pre _ b hpre (by rw [← hmd]; omega), ← hmd, hps]
    simp only [Option.bind_some]
    rw [List.drop_eq_getElem_cons hmdb]
    have : b[md] = at0 b md := by simp [at0, List.getElem?_eq_getElem hmdb]
    simp [idxShape, this, normInt_nat i _ hi, hqs]
  -- the loop
  have hnmd : at0 L.batch md = at0 b md := by
    rw [hLB]; exact at0_insertIdx_lt b (md + 1) _ _ (by omega) (by omega)
  obtain ⟨st', hloop, hout', hhb, hml, hmdim, hsel, hcat⟩ :=
    splitLoop_pre_mask_span L.sd L.members.length L.batch m (by rw [hm]; rfl) post hpostne pre 0 {} hpre
      (by simp; omega) rfl
  have hsdim := splitLoop_pre_mask_span_splitDim L.sd L.members.length L.batch m (by rw [hm]; rfl) post hpostne
    pre 0 {} st' hpre (by simp; omega) hloop
  simp only [List.nil_append, Nat.zero_add] at hout' hml
  have hmaskAt : st'.out[st'.maskLoc]? = some (.mask m) := by rw [hout', hml]; simp
  have hsd1 : L.sd - 1 = md := by omega
  have hids : (st'.sel.ids L.members.length).length = at0 b md := by
    rw [hsel, hsd1]; simp [Sel.ids]; exact hnmd
  have hsplit : splitIndex L (pre ++ .mask m :: post) = some st' := by
    unfold splitIndex
    simp [hloop, hhb, hmaskAt, hids, hm, ← hmd]
  have hcat' : (st'.maskLoc : Int) - st'.numSingle = (outRank pre : Int) := by
    have := hcat; simpa using this
  have hsd' : st'.splitDim = (outRank pre : Int) := by rw [hsdim, hcat']
  rw [← hLB] at hbd
  unfold lazySetCoreM at h
  simp only [hsplit, hhb, if_true, hmaskAt, hm, hbd, Option.bind_some, hsd', hmdim, hsd1] at h
  have hneg : ¬ ((outRank pre : Int) < 0) := by omega
  have hnsd : ¬ md = L.sd := by omega
  simp only [ne_eq, not_true_eq_false, hneg, or_self, if_false, Int.toNat_natCast, hnsd] at h
  simp only [Option.map_eq_some_iff] at h
  obtain ⟨ms', hw, rfl⟩ := h
  obtain ⟨cnts, hcnts⟩ : ∃ cnts, cnts = (List.range (at0 b md)).map fun i => (nonzero (m.select 0 i)).length := ⟨_, rfl⟩
  rw [← hmd] at hw
  rw [← hcnts] at hw
  -- the writes, row by row
  have hwrows : writeEach ((List.range (at0 b md)).flatMap
      (spanRow m L.members.length pre post v (outRank pre) (fun i => (pieceStarts cnts 0)[i]?.getD 0))) L.members = some ms' := by
    rw [← hw]
    congr 1
    apply flatMap_congr_mem
    intro i _
    simp only [spanRow, keptOf]
    apply List.map_congr_left
    intro p _
    rw [hout', hml, set_append_mid]
  have hinv0 : SpanInv b keys feat L.members.length pre post m v (ps ++ qs) (outRank pre)
      (fun i => (pieceStarts cnts 0)[i]?.getD 0) L.members [] L.members := by
    refine ⟨rfl, ?_, ?_⟩
    · intro j hj
      have hmem : L.members[j] ∈ L.members := List.getElem_mem _
      exact ⟨hU.hbatch _ hmem, hU.hkeys _ hmem, hU.hleaf _ hmem⟩
    · intro k _ j _ _
      exact ⟨by intro i hi; simp at hi, by intro c _ _; rfl⟩
  have hinv := spanInv_rows b keys feat L.members.length md pre post m v (ps ++ qs) (outRank pre)
    (fun i => (pieceStarts cnts 0)[i]?.getD 0) L.members hmdb hpre hmd.symm hpost hout hvk hcdv hvbe hvl
    (List.range (at0 b md)) [] L.members ms' hinv0
    (by intro i hi; exact ⟨by simp, List.mem_range.mp hi⟩) List.nodup_range (by intro i hi; simp at hi) hwrows
  simp only [List.nil_append] at hinv
  obtain ⟨hl, hunif, hkeysI⟩ := hinv
  have hne' : ms' ≠ [] := by
    intro hh; rw [hh] at hl; exact hne0 (List.length_eq_zero_iff.mp hl.symm)
  have hU' : Uniform (⟨ms', L.sd⟩ : Lazy α) b keys feat := by
    refine ⟨?_, ?_, ?_, hU.hsd⟩
    · intro x hx
      obtain ⟨j, hj, rfl⟩ := List.getElem_of_mem hx
      have hj2 : j < ms'.length := hj
      exact (hunif j hj2).1
    · intro x hx
      obtain ⟨j, hj, rfl⟩ := List.getElem_of_mem hx
      have hj2 : j < ms'.length := hj
      exact (hunif j hj2).2.1
    · intro x hx k hk
      obtain ⟨j, hj, rfl⟩ := List.getElem_of_mem hx
      have hj2 : j < ms'.length := hj
      exact (hunif j hj2).2.2 k hk
  refine ⟨rfl, hU', hl, ?_⟩
  intro k hk
  show IsSetT _ (T.stack (L.members.map fun x => x.leaf k) L.sd) (v.leaf k) (T.stack (ms'.map fun x => x.leaf k) L.sd)
  rw [hsd]
  have hat : at0 (b ++ feat k) md = at0 b md := by
    simp only [at0]; rw [List.getElem?_append_left hmdb]
  have hvshape : (v.leaf k).shape.eraseIdx (outRank pre) = (ps ++ qs) ++ feat k := by
    rw [hvl k hk, List.eraseIdx_append_of_lt_length hcdv, hvbe]
  have hstart : ∀ i, i < at0 b md → (pieceStarts cnts 0)[i]?.getD 0 = (cnts.take i).sum := by
    intro i hi
    rw [pieceStarts_get cnts 0 i (by rw [hcnts]; simpa using hi)]
    simp
  have key := set_stack_mask2_span (L.members.map fun x => x.leaf k) (ms'.map fun x => x.leaf k) (b ++ feat k) md pre post m
    (leaf_shapes L b keys feat hU k hk) (by simpa using hne0) (by simp; omega) hpre hmd.symm
    (by rw [hat, List.length_map, hmd]; exact hm) (v.leaf k)
    (by
      rw [List.length_map, hvl k hk, insertIdx_append_left _ _ _ _ (by omega)]
      apply idxShape_append
      rw [← hLB]; exact hbd)
    (by simp [hl])
    (by
      intro t ht
      simp only [List.mem_map] at ht
      obtain ⟨x, hx, rfl⟩ := ht
      obtain ⟨j, hj, rfl⟩ := List.getElem_of_mem hx
      exact (hunif j hj).2.2 k hk)
    cnts (by rw [hat]; exact hcnts)
    (by
      intro i p j hj hi hp hnz o'' ho''
      simp only [List.length_map] at hj
      rw [hat] at hi
      simp only [List.getElem_map]
      have hkp := (nz_kept_iff m _ _ i p j hm).mp hnz
      rw [hvshape] at ho''
      have := (hkeysI k hk j hj (by omega)).1 i (List.mem_range.mpr hi) p hkp o'' ho''
      simp only [hstart i hi] at this
      exact this)
    (by
      intro j h1 h2 c hc hnot
      simp only [List.length_map] at h1 h2
      simp only [List.getElem_map]
      apply (hkeysI k hk j h2 h1).2 c hc
      intro i hi p hkp o'' ho''
      have hi' : i < at0 b md := List.mem_range.mp hi
      have hp : p < (nonzero (m.select 0 i)).length := by
        rw [nonzero_row_kept m _ _ i hm, List.length_map]
        rcases Nat.lt_or_ge p (keptOf m L.members.length i).length with h3 | h3
        · exact h3
        · simp [List.getElem?_eq_none h3] at hkp
      exact hnot i p (by rw [hat]; exact hi') hp ((nz_kept_iff m _ _ i p j hm).mpr hkp) o''
        (by rw [hvshape]; exact ho''))
  simpa using key

end TdVerif.C08
