/-
  C08 — reads with a rank-2 mask SPANNING the stack dim (the mask starts one dim before it):
  `__getitem__` reads `self[(:,)*mask_dim + (i,)][_idx]` for every position `i` of that dim — a lazy
  stack whose stack dim moved one to the left, indexed with row `i` of the mask (a rank-1 mask on its
  stack dim) — and concatenates the results along `mask_loc - num_single`.
-/
import TdVerif.Lemmas.C08IdxBounds
import TdVerif.Lemmas.C08Out2
import TdVerif.Lemmas.C08Mask
import TdVerif.Lemmas.C08View
namespace TdVerif.C08

theorem idxCoord_pre_length : ∀ (pre : List Ix) (S : Shape) (c : List Nat), BasicPre pre →
    preDims pre = S.length → c.length = outRank pre → (idxCoord pre S c).length = S.length
  | [], S, c, _, hl, hc => by
    simp [preDims] at hl
    have : S = [] := List.length_eq_zero_iff.mp hl.symm
    subst this
    simp [outRank] at hc
    simp [idxCoord, hc]
  | .none :: r, S, c, hb, hl, hc => by
    rw [outRank_cons] at hc
    simp only [Ix.outRank_none] at hc
    simp only [idxCoord]
    exact idxCoord_pre_length r S c.tail (by simpa [BasicPre] using hb) (by simpa [preDims] using hl)
      (by simp; omega)
  | .int k :: r, [], c, hb, hl, hc => by simp [preDims] at hl
  | .int k :: r, d :: S, c, hb, hl, hc => by
    rw [outRank_cons] at hc
    simp only [Ix.outRank_int, Nat.zero_add] at hc
    simp only [idxCoord, List.length_cons]
    rw [idxCoord_pre_length r S c (by simpa [BasicPre] using hb) (by simpa [preDims] using hl) hc]
  | .slice a b c' :: r, [], c, hb, hl, hc => by simp [preDims] at hl
  | .slice a b c' :: r, d :: S, c, hb, hl, hc => by
    rw [outRank_cons] at hc
    simp only [Ix.outRank_slice] at hc
    simp only [idxCoord, List.length_cons]
    rw [idxCoord_pre_length r S c.tail (by simpa [BasicPre] using hb) (by simpa [preDims] using hl)
      (by simp; omega)]
  | .tens _ :: _, _, _, hb, _, _ => by simp [BasicPre] at hb
  | .mask _ :: _, _, _, hb, _, _ => by simp [BasicPre] at hb
  | .ell :: _, _, _, hb, _, _ => by simp [BasicPre] at hb


/-- a stack of the slices of `t` along `d` reads like `t` wherever position `d` of the coordinate is
a valid slice number -/
theorem stack_unbind_get [Inhabited α] (t : T α) (d : Nat) (x : List Nat) (hd : d < x.length)
    (hx : at0 x d < at0 t.shape d) : (T.stack (t.unbind d) d).get x = t.get x := by
  rw [T.stack_get]
  simp only [T.unbind]
  rw [List.getElem?_map, List.getElem?_range (by simpa [at0] using hx)]
  simp only [Option.map_some, Option.getD_some, T.select]
  rw [insertIdx_eraseIdx_self x d hd]

/-- **T-level read refinement, rank-2 mask starting at any dim `d`**: indexing `t` with a mask over
the dims `(d, d+1)` is the cat, along the result position of the mask, of the slices of `t` along
`d` indexed with the rows of the mask -/
theorem idx_mask2_any [Inhabited α] (t : T α) (d : Nat) (pre post : List Ix) (m : T Bool) (w : Nat)
    (hd : d + 1 < t.shape.length) (hn : 0 < at0 t.shape d)
    (hpre : BasicPre pre) (hpd : preDims pre = d) (hm : m.shape = [at0 t.shape d, w])
    (s : Shape) (hs : idxShape (pre ++ .mask m :: post) t.shape = some s) :
    T.catList ((List.range (at0 t.shape d)).map fun i =>
        idxT (pre ++ .mask (m.select 0 i) :: post) (t.select d i)) (outRank pre)
      ≈ₜ idxT (pre ++ .mask m :: post) t := by
  have hdl : d < t.shape.length := by omega
  let ms := t.unbind d
  have hlen : ms.length = at0 t.shape d := by simp [ms, T.unbind, at0]
  have hsh : ∀ u ∈ ms, u.shape = t.shape.eraseIdx d := by
    intro u hu
    simp only [ms, T.unbind, List.mem_map] at hu
    obtain ⟨a, _, rfl⟩ := hu; rfl
  have hins : (t.shape.eraseIdx d).insertIdx d ms.length = t.shape := by
    rw [hlen]; exact insertIdx_eraseIdx_self t.shape d hdl
  have key := idx_stack_mask2 ms (t.shape.eraseIdx d) d pre post m w hsh
    (by intro hh; rw [hh] at hlen; simp at hlen; omega)
    (by rw [List.length_eraseIdx_of_lt hdl]; omega) hpre hpd (by rw [hlen]; exact hm) s
    (by rw [hins]; exact hs)
  have hlist : ((List.range ms.length).map fun i =>
        idxT (pre ++ .mask (m.select 0 i) :: post) (ms[i]?.getD default))
      = (List.range (at0 t.shape d)).map fun i => idxT (pre ++ .mask (m.select 0 i) :: post) (t.select d i) := by
    rw [hlen]
    apply List.map_congr_left
    intro i hi
    simp only [List.mem_range] at hi
    simp only [ms, T.unbind]
    rw [List.getElem?_map, List.getElem?_range (by simpa [at0] using hi)]
    rfl
  rw [hlist] at key
  refine T.Eqv.trans key ?_
  have hstk : (T.stack ms d).shape = t.shape := by
    rw [T.stack_shape, head_shape_of_all _ _ hsh (by intro hh; rw [hh] at hlen; simp at hlen; omega)]
    exact hins
  refine ⟨by simp [idxT_shape, hstk], ?_⟩
  intro c hc
  rw [idxT_shape, hstk, hs] at hc
  simp only [Option.getD_some] at hc
  show (T.stack ms d).get (idxCoord _ (T.stack ms d).shape c) = t.get (idxCoord _ t.shape c)
  rw [hstk]
  -- the shape of the result, factored
  have hfac := idxShape_pre pre (.mask m :: post) t.shape hpre (by rw [hpd]; omega)
  rw [hs, hpd] at hfac
  cases hps : idxShape pre (t.shape.take d) with
  | none => simp [hps] at hfac
  | some ps =>
  simp only [hps, Option.bind_some] at hfac
  have hplen : ps.length = outRank pre :=
    idxShape_pre_length pre (t.shape.take d) ps hpre (by rw [hpd]; simp; omega) hps
  simp only [idxShape, hm] at hfac
  split at hfac
  case isFalse => simp at hfac
  simp only [List.length_cons, List.length_nil, Nat.zero_add, Nat.reduceAdd, List.drop_drop] at hfac
  cases hqs : idxShape post (t.shape.drop (d + 2)) with
  | none => simp [hqs] at hfac
  | some qs =>
  simp only [hqs, Option.map_some, Option.some.injEq] at hfac
  have hs' : s = ps ++ ((nonzero m).length :: qs) := by simpa using hfac
  rw [hs'] at hc
  have hcsplit := (InB_append_iff ps ((nonzero m).length :: qs) c).mp hc
  have hclen : c.length = ps.length + 1 + qs.length := by rw [InB.length hc]; simp; omega
  -- the coordinate read by the index
  rw [idxCoord_pre pre (.mask m :: post) t.shape c hpre (by rw [hpd]; omega) (by omega), hpd]
  have hL : (idxCoord pre (t.shape.take d) (c.take (outRank pre))).length = d := by
    rw [idxCoord_pre_length pre (t.shape.take d) (c.take (outRank pre)) hpre (by rw [hpd]; simp; omega)
      (by simp; omega)]
    simp; omega
  have hk : at0 (c.drop (outRank pre)) 0 < (nonzero m).length := by
    have h2 := hcsplit.2
    rw [hplen] at h2
    cases hcd : c.drop (outRank pre) with
    | nil => rw [hcd] at h2; simp [InB] at h2
    | cons k rest => rw [hcd] at h2; simpa [at0] using h2.1
  obtain ⟨hi, hk', hget⟩ := mask2_dec m (at0 t.shape d) w hm _ hk
  obtain ⟨i0, hi0⟩ : ∃ i0, i0 = (blockOf ((List.range (at0 t.shape d)).map fun i => (nonzero (m.select 0 i)).length)
      (at0 (c.drop (outRank pre)) 0)).1 := ⟨_, rfl⟩
  rw [← hi0] at hi hk' hget
  rw [List.getElem?_eq_getElem hk'] at hget
  simp only [Option.map_some] at hget
  have hsecond : ∃ tail, idxCoord (.mask m :: post) (t.shape.drop d) (c.drop (outRank pre)) = i0 :: tail := by
    simp only [idxCoord]
    rw [hget]
    exact ⟨_, rfl⟩
  obtain ⟨tail, htail⟩ := hsecond
  rw [htail]
  apply stack_unbind_get
  · simp only [List.length_append, hL, List.length_cons]; omega
  · simp only [at0]
    rw [List.getElem?_append_right (by omega), hL, Nat.sub_self]
    simpa using hi


theorem splitRec_full_int : ∀ (md sd : Nat) (i : Int), md < sd →
    splitRec sd (List.replicate md Ix.full ++ [.int i]) = ⟨List.replicate md Ix.full ++ [.int i], none, sd - 1⟩
  | 0, sd + 1, i, _ => by simp [splitRec]
  | md + 1, sd + 1, i, h => by
    have ih := splitRec_full_int md sd i (by omega)
    simp only [List.replicate_succ, List.cons_append, Ix.full, splitRec]
    simp only [Ix.full] at ih
    rw [ih]
    simp
    omega
  | _, 0, _, h => by omega

/-- every member of `res`, the members of a uniform stack indexed by one index `out`, has the indexed
batch size, the keys and the indexed leaf shapes -/
theorem memberIndex_uniform (L : Lazy α) (b : Shape) (keys : List String) (feat : String → Shape)
    (hU : Uniform L b keys feat) (out : List Ix) (i : Nat) (x : TD α) (h : memberIndex L out i = some x) :
    ∃ so, idxShape out b = some so ∧ x.batch = so ∧ x.keys = keys ∧
      ∀ k ∈ keys, (x.leaf k).shape = so ++ feat k := by
  obtain ⟨hi, so, hso, rfl⟩ := memberIndex_some L b keys feat hU out i x h
  have hm : L.members[i] ∈ L.members := List.getElem_mem _
  refine ⟨so, hso, rfl, (hU.hkeys _ hm : (L.members[i]).keys = keys), ?_⟩
  intro k hk
  show (idxT out ((L.members[i]).leaf k)).shape = _
  rw [idxT_shape, hU.hleaf _ hm k hk, idxShape_append (feat k) out b so hso]
  rfl

/-- **the sub-read `L[:, …, :, i]` with the full slices all before the stack dim**: a lazy stack of
all the members indexed alike, its stack dim one to the left, uniform -/
theorem get_full_int_structure [Inhabited α] (L : Lazy α) (b : Shape) (keys : List String)
    (feat : String → Shape) (hU : Uniform L b keys feat) (hne0 : L.members ≠ []) (md i : Nat)
    (hmd : md < L.sd) (hi : i < at0 b md) (r : LRes α)
    (hr : lazyGetCore L (List.replicate md Ix.full ++ [.int (i : Int)]) = some r) :
    ∃ Li, r = .lazy Li ∧ Li.sd = L.sd - 1 ∧ Li.members.length = L.members.length ∧
      Uniform Li (b.eraseIdx md) keys feat := by
  obtain ⟨ix, hix⟩ : ∃ ix, ix = List.replicate md Ix.full ++ [Ix.int (i : Int)] := ⟨_, rfl⟩
  rw [← hix] at hr
  have hp : Plain L.sd ix := by rw [hix]; exact plain_full_int md L.sd i
  have hne : ∀ it ∈ ix, it ≠ Ix.ell := by
    intro it hit
    rw [hix] at hit
    simp only [List.mem_append, List.mem_replicate, List.mem_singleton] at hit
    rcases hit with ⟨_, rfl⟩ | rfl <;> simp [Ix.full]
  have hadv : ix.countP Ix.isAdv = 0 := by
    rw [hix]; simp [List.countP_append, List.countP_replicate, Ix.full, Ix.isAdv]
  have hsr : splitRec L.sd ix = ⟨ix, none, L.sd - 1⟩ := by rw [hix]; exact splitRec_full_int md L.sd i hmd
  have hB := splitLoop_before L.sd L.members.length L.batch ix L.sd 0 {} (by simp) hp hne
    (by simp [hadv]) rfl rfl rfl rfl
  obtain ⟨st', hloop, hspec⟩ := hB.2 .all false false (by rw [hsr]; rfl)
  have hq : (L.sd : Int) - st'.numSingle + st'.numNone - st'.numSquash = ((L.sd - 1 : Nat) : Int) := by
    have := hspec.q; simp [Q, hsr] at this; omega
  have hout : st'.out = ix := by have := hspec.out; simpa [hsr] using this
  unfold lazyGetCore splitIndex at hr
  simp only [hloop, Option.bind_some, hspec.hasBool, Bool.false_eq_true, if_false, hspec.isNd,
    hspec.isInteger, hspec.sel, hout, hq, Sel.ids] at hr
  cases hres : allSome ((List.range L.members.length).map (memberIndex L ix)) with
  | none => simp [hres] at hr
  | some res =>
    simp only [hres, Option.bind_some, Option.map_eq_some_iff] at hr
    obtain ⟨Li, hLi, rfl⟩ := hr
    obtain ⟨m0, rest, _, hLi', _⟩ := lazyStack_some res (L.sd - 1) Li hLi
    obtain ⟨hl, hget⟩ := allSome_map_getElem _ _ _ hres
    simp only [List.length_range] at hl hget
    subst hLi'
    refine ⟨_, rfl, rfl, hl, ?_⟩
    -- the indexed batch size
    have hbl : md < b.length := by have := hU.hsd; omega
    have hso : idxShape ix b = some (b.eraseIdx md) := by rw [hix]; exact idxShape_full_int md b i hbl hi
    have hmem : ∀ x ∈ res, x.batch = b.eraseIdx md ∧ x.keys = keys ∧
        ∀ k ∈ keys, (x.leaf k).shape = b.eraseIdx md ++ feat k := by
      intro x hx
      obtain ⟨j, hj, rfl⟩ := List.getElem_of_mem hx
      have := hget j hj (by rw [← hl]; exact hj)
      simp only [List.getElem_range] at this
      obtain ⟨so', hso', hb', hk', hl'⟩ := memberIndex_uniform L b keys feat hU ix j _ this
      rw [hso] at hso'
      obtain rfl := Option.some.inj hso'
      exact ⟨hb', hk', hl'⟩
    refine ⟨fun x hx => (hmem x hx).1, fun x hx => (hmem x hx).2.1, fun x hx => (hmem x hx).2.2, ?_⟩
    show L.sd - 1 ≤ (b.eraseIdx md).length
    rw [List.length_eraseIdx_of_lt hbl]
    have := hU.hsd
    omega


/-- the loop on `pre ++ mask :: post` for a basic prefix that stops ONE dim before the stack dim
and a rank-2 mask (spanning that dim and the stack dim) -/
theorem splitLoop_pre_mask_span (sd n : Nat) (shape : Shape) (m : T Bool) (hm2 : m.shape.length = 2)
    (post : List Ix) (hpost : ∀ it ∈ post, it ≠ Ix.ell) : ∀ (pre : List Ix) (i : Nat) (st : SplitSt),
    BasicPre pre → st.cursor + preDims pre + 1 = sd → i = st.out.length →
    ∃ st', splitLoop sd n shape (pre ++ .mask m :: post) i st = some st' ∧
      st'.out = st.out ++ (pre ++ .mask m :: post) ∧ st'.hasBool = true ∧
      st'.maskLoc = i + pre.length ∧ st'.maskDim = sd - 1 ∧
      st'.sel = .range 0 1 (shape[sd - 1]?.getD 0) ∧
      (st'.maskLoc : Int) - st'.numSingle = (i : Int) - st.numSingle + outRank pre
  | [], i, st, _, hc, hi => by
    have hc0 : st.cursor + 1 = sd := by simpa [preDims] using hc
    have hne : ¬ st.cursor = sd := by omega
    have hlt : st.cursor < sd := by omega
    have hsp : st.cursor < sd ∧ sd < st.cursor + 2 := ⟨hlt, by omega⟩
    obtain ⟨st', h1, h2, h3⟩ := splitLoop_after sd n shape post (i + 1)
      { st with numSquash := st.numSquash + 1, hasBool := true, sel := .range 0 1 (shape[st.cursor]?.getD 0),
                splitDim := (i : Int) - st.numSingle, maskLoc := i, maskDim := st.cursor,
                out := st.out ++ [.mask m], cursor := st.cursor + 2 } (by simp; omega) hpost
    have hmd := splitLoop_after_maskDim sd n shape post (i + 1) _ st' (by simp; omega) h1
    have hcur : st.cursor = sd - 1 := by omega
    refine ⟨st', ?_, by simpa using h2, ?_, ?_, ?_, ?_, ?_⟩
    · simpa [splitLoop, splitStep, hne, hm2, hlt, hsp] using h1
    · simpa using h3.hasBool
    · simpa using h3.maskLoc
    · rw [hmd]; simpa using hcur
    · have := h3.sel; simp only at this; rw [this, hcur]
    · have a := h3.maskLoc; have b := h3.numSingle
      simp only at a b
      rw [a, b]; simp [outRank]
  | .none :: r, i, st, hb, hc, hi => by
    obtain ⟨st', h1, h2, h3, h4, h5, h6, h7⟩ := splitLoop_pre_mask_span sd n shape m hm2 post hpost r (i + 1)
      { st with out := st.out ++ [.none], numNone := st.numNone + (if st.cursor ≤ sd then 1 else 0) }
      (by simpa [BasicPre] using hb) (by simpa [preDims] using hc) (by simp [hi])
    refine ⟨st', by simpa [splitLoop, splitStep] using h1, by simpa using h2, h3, ?_, h5, h6, ?_⟩
    · rw [h4]; simp; omega
    · rw [h7, outRank_cons]; simp; omega
  | .int k :: r, i, st, hb, hc, hi => by
    have hc0 : ¬ st.cursor = sd := by simp [preDims] at hc; omega
    have hc1 : st.cursor < sd := by simp [preDims] at hc; omega
    obtain ⟨st', h1, h2, h3, h4, h5, h6, h7⟩ := splitLoop_pre_mask_span sd n shape m hm2 post hpost r (i + 1)
      { st with numSingle := if st.cursor < sd then st.numSingle + 1 else st.numSingle,
                out := st.out ++ [.int k], cursor := st.cursor + 1 }
      (by simpa [BasicPre] using hb) (by simp [preDims] at hc ⊢; omega) (by simp [hi])
    refine ⟨st', by simpa [splitLoop, splitStep, hc0] using h1, by simpa using h2, h3, ?_, h5, h6, ?_⟩
    · rw [h4]; simp; omega
    · rw [h7, outRank_cons]; simp [hc1]; omega
  | .slice a b c :: r, i, st, hb, hc, hi => by
    have hc0 : ¬ st.cursor = sd := by simp [preDims] at hc; omega
    obtain ⟨st', h1, h2, h3, h4, h5, h6, h7⟩ := splitLoop_pre_mask_span sd n shape m hm2 post hpost r (i + 1)
      { st with out := st.out ++ [.slice a b c], cursor := st.cursor + 1 }
      (by simpa [BasicPre] using hb) (by simp [preDims] at hc ⊢; omega) (by simp [hi])
    refine ⟨st', by simpa [splitLoop, splitStep, hc0] using h1, by simpa using h2, h3, ?_, h5, h6, ?_⟩
    · rw [h4]; simp; omega
    · rw [h7, outRank_cons]; simp; omega
  | .tens _ :: _, _, _, hb, _, _ => by simp [BasicPre] at hb
  | .mask _ :: _, _, _, hb, _, _ => by simp [BasicPre] at hb
  | .ell :: _, _, _, hb, _, _ => by simp [BasicPre] at hb


theorem splitRec_pre_mask (row : T Bool) (post : List Ix) : ∀ (pre : List Ix) (sd : Nat), BasicPre pre →
    preDims pre = sd → (splitRec sd (pre ++ .mask row :: post)).item = some (.mask row) ∧
      (splitRec sd (pre ++ .mask row :: post)).out = pre ++ post ∧
      (splitRec sd (pre ++ .mask row :: post)).pos = outRank pre
  | [], sd, _, h => by
    have : sd = 0 := by simpa [preDims] using h.symm
    subst this
    simp [splitRec, outRank]
  | .none :: r, sd, hb, h => by
    obtain ⟨h1, h2, h3⟩ := splitRec_pre_mask row post r sd (by simpa [BasicPre] using hb) (by simpa [preDims] using h)
    simp only [List.cons_append, splitRec]
    refine ⟨h1, by rw [h2], ?_⟩
    rw [h3, outRank_cons]; simp; omega
  | .int k :: r, sd, hb, h => by
    obtain ⟨sd', rfl⟩ : ∃ sd', sd = sd' + 1 := ⟨preDims r, by simpa [preDims] using h.symm⟩
    obtain ⟨h1, h2, h3⟩ := splitRec_pre_mask row post r sd' (by simpa [BasicPre] using hb) (by simpa [preDims] using h)
    simp only [List.cons_append, splitRec]
    refine ⟨h1, by rw [h2], ?_⟩
    rw [h3, outRank_cons]; simp
  | .slice a b c :: r, sd, hb, h => by
    obtain ⟨sd', rfl⟩ : ∃ sd', sd = sd' + 1 := ⟨preDims r, by simpa [preDims] using h.symm⟩
    obtain ⟨h1, h2, h3⟩ := splitRec_pre_mask row post r sd' (by simpa [BasicPre] using hb) (by simpa [preDims] using h)
    simp only [List.cons_append, splitRec]
    refine ⟨h1, by rw [h2], ?_⟩
    rw [h3, outRank_cons]; simp; omega
  | .tens _ :: _, _, hb, _ => by simp [BasicPre] at hb
  | .mask _ :: _, _, hb, _ => by simp [BasicPre] at hb
  | .ell :: _, _, hb, _ => by simp [BasicPre] at hb

theorem plainM_pre_mask (row : T Bool) (hrow : row.shape.length = 1) (post : List Ix) : ∀ (pre : List Ix) (sd : Nat),
    BasicPre pre → preDims pre = sd → PlainM sd (pre ++ .mask row :: post)
  | [], sd, _, h => by
    have : sd = 0 := by simpa [preDims] using h.symm
    subst this
    simp [PlainM, hrow]
  | .none :: r, sd, hb, h => by
    simp only [List.cons_append, PlainM]
    exact plainM_pre_mask row hrow post r sd (by simpa [BasicPre] using hb) (by simpa [preDims] using h)
  | .int k :: r, sd, hb, h => by
    obtain ⟨sd', rfl⟩ : ∃ sd', sd = sd' + 1 := ⟨preDims r, by simpa [preDims] using h.symm⟩
    simp only [List.cons_append, PlainM]
    exact plainM_pre_mask row hrow post r sd' (by simpa [BasicPre] using hb) (by simpa [preDims] using h)
  | .slice a b c :: r, sd, hb, h => by
    obtain ⟨sd', rfl⟩ : ∃ sd', sd = sd' + 1 := ⟨preDims r, by simpa [preDims] using h.symm⟩
    simp only [List.cons_append, PlainM]
    exact plainM_pre_mask row hrow post r sd' (by simpa [BasicPre] using hb) (by simpa [preDims] using h)
  | .tens _ :: _, _, hb, _ => by simp [BasicPre] at hb
  | .mask _ :: _, _, hb, _ => by simp [BasicPre] at hb
  | .ell :: _, _, hb, _ => by simp [BasicPre] at hb

theorem basicPre_noAdv : ∀ (pre : List Ix), BasicPre pre → pre.countP Ix.isAdv = 0 ∧ ∀ it ∈ pre, it ≠ Ix.ell
  | [], _ => by simp
  | .none :: r, hb => by
    obtain ⟨h1, h2⟩ := basicPre_noAdv r (by simpa [BasicPre] using hb)
    refine ⟨by simp [List.countP_cons, Ix.isAdv, h1], ?_⟩
    intro it hit
    simp only [List.mem_cons] at hit
    rcases hit with rfl | hit
    · simp
    · exact h2 it hit
  | .int k :: r, hb => by
    obtain ⟨h1, h2⟩ := basicPre_noAdv r (by simpa [BasicPre] using hb)
    refine ⟨by simp [List.countP_cons, Ix.isAdv, h1], ?_⟩
    intro it hit
    simp only [List.mem_cons] at hit
    rcases hit with rfl | hit
    · simp
    · exact h2 it hit
  | .slice a b c :: r, hb => by
    obtain ⟨h1, h2⟩ := basicPre_noAdv r (by simpa [BasicPre] using hb)
    refine ⟨by simp [List.countP_cons, Ix.isAdv, h1], ?_⟩
    intro it hit
    simp only [List.mem_cons] at hit
    rcases hit with rfl | hit
    · simp
    · exact h2 it hit
  | .tens _ :: _, hb => by simp [BasicPre] at hb
  | .mask _ :: _, hb => by simp [BasicPre] at hb
  | .ell :: _, hb => by simp [BasicPre] at hb


theorem eraseIdx_append_mid {β} (pre post : List β) (x : β) : (pre ++ x :: post).eraseIdx pre.length = pre ++ post := by
  induction pre with
  | nil => simp
  | cons a r ih => simp [ih]

/-- **structure of a read with a rank-1 mask on the stack dim**: the members the mask keeps, each
indexed by the other items, stacked at the result position of the mask — or an empty stack -/
theorem get_mask1_structure [Inhabited α] (Li : Lazy α) (pre post : List Ix) (row : T Bool)
    (hpre : BasicPre pre) (hpd : preDims pre = Li.sd) (hpost : ∀ it ∈ post, it ≠ Ix.ell)
    (hrow : row.shape = [Li.members.length]) (r : LRes α)
    (hr : lazyGetCore Li (pre ++ .mask row :: post) = some r) :
    ∃ res, allSome (((List.range Li.members.length).filter fun i => row.get [i]).map
        (memberIndex Li (pre ++ post))) = some res ∧
      ((res = [] ∧ ∃ bb, r = .empty bb) ∨ (res ≠ [] ∧ r = .lazy ⟨res, outRank pre⟩)) := by
  obtain ⟨st', hloop, hout, hhb, hml, hmd, hsel, hcat⟩ :=
    splitLoop_pre_mask Li.sd Li.members.length Li.batch row post hpost pre 0 {} hpre (by simpa using hpd) rfl
  simp only [List.nil_append, Nat.zero_add] at hout hml
  have hmaskAt : st'.out[st'.maskLoc]? = some (.mask row) := by rw [hout, hml]; simp
  have hids : (st'.sel.ids Li.members.length).length = Li.members.length := by rw [hsel]; simp [Sel.ids]
  have hsplit : splitIndex Li (pre ++ .mask row :: post) = some st' := by
    unfold splitIndex
    simp [hloop, hhb, hmaskAt, hids, hrow]
  have hcat' : (st'.maskLoc : Int) - st'.numSingle = (outRank pre : Int) := by
    have := hcat; simpa using this
  unfold lazyGetCore at hr
  simp only [hsplit, Option.bind_some, hhb, if_true, hmaskAt, hcat', hrow] at hr
  have hneg : ¬ ((outRank pre : Int) < 0) := by omega
  simp only [hneg, if_false, ne_eq, not_true_eq_false, Int.toNat_natCast] at hr
  rw [hout, hml, eraseIdx_append_mid] at hr
  have hfun : (fun i => (Li.members[i]?).bind fun mm => mm.index (pre ++ post)) = memberIndex Li (pre ++ post) := by
    funext i; rw [memberIndex_eq]
  rw [hfun] at hr
  cases hres : allSome (((List.range Li.members.length).filter fun i => row.get [i]).map
      (memberIndex Li (pre ++ post))) with
  | none => rw [hres] at hr; simp at hr
  | some res =>
    rw [hres] at hr
    simp only [Option.bind_some] at hr
    refine ⟨res, rfl, ?_⟩
    cases res with
    | nil =>
      left
      simp only [Option.map_eq_some_iff] at hr
      obtain ⟨bsz, _, rfl⟩ := hr
      exact ⟨rfl, _, rfl⟩
    | cons x xs =>
      right
      simp only [Option.some.injEq] at hr
      exact ⟨by simp, hr.symm⟩

end TdVerif.C08

namespace TdVerif.C08

theorem at0_insertIdx_lt (b : Shape) (sd n i : Nat) (h : i < sd) (hsd : sd ≤ b.length) :
    at0 (b.insertIdx sd n) i = at0 b i := by
  simp only [at0]
  rw [List.getElem?_insertIdx_of_lt h]

theorem span_unroll [Inhabited α] (L : Lazy α) (b : Shape) (keys : List String) (feat : String → Shape)
    (hU : Uniform L b keys feat) (hne0 : L.members ≠ [])
    (pre post : List Ix) (m : T Bool)
    (hpre : BasicPre pre) (hpd : preDims pre + 1 = L.sd) (hpost : ∀ it ∈ post, it ≠ Ix.ell)
    (hm : m.shape = [at0 b (preDims pre), L.members.length])
    (r : LRes α) (hr : lazyGetCoreM L (pre ++ .mask m :: post) = some r) :
    ∃ rs : List (LRes α), rs.length = at0 b (preDims pre) ∧ catResults rs (outRank pre) = some r ∧
      ∀ i (hi : i < rs.length), ∃ Li, lazyGetCore L (List.replicate (preDims pre) Ix.full ++ [.int (i : Int)]) = some (.lazy Li) ∧
        lazyGetCore Li (pre ++ .mask (m.select 0 i) :: post) = some rs[i] := by
  have hLB : L.batch = b.insertIdx L.sd L.members.length := absL_batch_eq L b keys feat hU hne0
  have hnmd : at0 L.batch (preDims pre) = at0 b (preDims pre) := by
    rw [hLB]; exact at0_insertIdx_lt b L.sd _ _ (by omega) hU.hsd
  obtain ⟨st', hloop, hout, hhb, hml, hmdim, hsel, hcat⟩ :=
    splitLoop_pre_mask_span L.sd L.members.length L.batch m (by rw [hm]; rfl) post hpost pre 0 {} hpre
      (by simp; omega) rfl
  simp only [List.nil_append, Nat.zero_add] at hout hml
  have hmaskAt : st'.out[st'.maskLoc]? = some (.mask m) := by rw [hout, hml]; simp
  have hsd1 : L.sd - 1 = preDims pre := by omega
  have hids : (st'.sel.ids L.members.length).length = at0 b (preDims pre) := by
    rw [hsel, hsd1]; simp [Sel.ids]; exact hnmd
  have hsplit : splitIndex L (pre ++ .mask m :: post) = some st' := by
    unfold splitIndex
    simp [hloop, hhb, hmaskAt, hids, hm]
  have hcat' : (st'.maskLoc : Int) - st'.numSingle = (outRank pre : Int) := by
    have := hcat; simpa using this
  unfold lazyGetCoreM at hr
  simp only [hsplit, hhb, if_true, hmaskAt, hm, List.length_cons, List.length_nil, hcat', hids, hmdim, hsd1] at hr
  have hneg : ¬ ((outRank pre : Int) < 0) := by omega
  have hnsd : ¬ preDims pre = L.sd := by omega
  simp only [hneg, if_false, Nat.reduceAdd, if_true, Int.toNat_natCast, hnsd] at hr
  have hsub : ∀ i, subMaskIdx st'.out st'.maskLoc m i = pre ++ .mask (m.select 0 i) :: post := by
    intro i; unfold subMaskIdx; rw [hout, hml, set_append_mid]
  simp only [hsub] at hr
  obtain ⟨rs, hrs, hcatr⟩ := Option.bind_eq_some_iff.mp hr
  obtain ⟨hl, hget⟩ := allSome_map_getElem _ _ _ hrs
  simp only [List.length_range] at hl hget
  refine ⟨rs, hl, hcatr, ?_⟩
  intro i hi
  have := hget i hi (by omega)
  simp only [List.getElem_range] at this
  obtain ⟨r1, hr1, hF⟩ := Option.bind_eq_some_iff.mp this
  cases r1 with
  | «lazy» Li => exact ⟨Li, hr1, hF⟩
  | member _ => simp at hF
  | lazy2 _ _ => simp at hF
  | empty _ => simp at hF


theorem take_insertIdx_succ (b : Shape) (md n : Nat) (h : md < b.length) :
    (b.insertIdx (md + 1) n).take md = b.take md := by
  apply List.ext_getElem?
  intro i
  simp only [List.getElem?_take]
  by_cases hi : i < md
  · simp [hi, List.getElem?_insertIdx_of_lt (show i < md + 1 by omega)]
  · simp [hi]

theorem drop_insertIdx_succ (b : Shape) (md n : Nat) (h : md < b.length) :
    (b.insertIdx (md + 1) n).drop md = at0 b md :: n :: b.drop (md + 1) := by
  apply List.ext_getElem?
  intro i
  rw [List.getElem?_drop, List.getElem?_insertIdx]
  rcases i with _ | _ | i
  · simp [at0, List.getElem?_eq_getElem h]
  · simp
    omega
  · have h1 : ¬ md + (i + 1 + 1) < md + 1 := by omega
    have h2 : ¬ md + (i + 1 + 1) = md + 1 := by omega
    simp only [h1, h2, if_false, List.getElem?_cons_succ, List.getElem?_drop]
    congr 1; omega

/-- the shapes behind a read with a rank-2 mask over the dims `(md, md+1)` of a stack with member
batch size `b`, `n` members and stack dim `md + 1` -/
theorem span_shapes (b : Shape) (n md : Nat) (hmd : md < b.length) (pre post : List Ix) (m : T Bool)
    (hpre : BasicPre pre) (hpd : preDims pre = md) (hm : m.shape = [at0 b md, n])
    (s : Shape) (hs : idxShape (pre ++ .mask m :: post) (b.insertIdx (md + 1) n) = some s) :
    ∃ ps qs, idxShape pre (b.take md) = some ps ∧ idxShape post (b.drop (md + 1)) = some qs ∧
      ps.length = outRank pre ∧ s = ps ++ (nonzero m).length :: qs ∧
      (∀ i, idxShape (pre ++ .mask (m.select 0 i) :: post) ((b.eraseIdx md).insertIdx md n)
        = some (ps ++ (nonzero (m.select 0 i)).length :: qs)) ∧
      idxShape (pre ++ post) (b.eraseIdx md) = some (ps ++ qs) := by
  have hfac := idxShape_pre pre (.mask m :: post) (b.insertIdx (md + 1) n) hpre
    (by rw [hpd, List.length_insertIdx_of_le_length (by omega)]; omega)
  rw [hs, hpd, take_insertIdx_succ b md n hmd, drop_insertIdx_succ b md n hmd] at hfac
  cases hps : idxShape pre (b.take md) with
  | none => simp [hps] at hfac
  | some ps =>
  simp only [hps, Option.bind_some] at hfac
  have hplen : ps.length = outRank pre :=
    idxShape_pre_length pre (b.take md) ps hpre (by rw [hpd]; simp; omega) hps
  simp only [idxShape, hm] at hfac
  split at hfac
  case isFalse => simp at hfac
  simp only [List.length_cons, List.length_nil, Nat.zero_add, Nat.reduceAdd, List.drop_succ_cons,
    List.drop_zero] at hfac
  cases hqs : idxShape post (b.drop (md + 1)) with
  | none => simp [hqs] at hfac
  | some qs =>
  simp only [hqs, Option.map_some, Option.some.injEq] at hfac
  refine ⟨ps, qs, rfl, rfl, hplen, by simpa using hfac, ?_, ?_⟩
  · intro i
    have hl : md ≤ (b.eraseIdx md).length := by rw [List.length_eraseIdx_of_lt hmd]; omega
    rw [idxShape_pre pre _ _ hpre (by rw [hpd, List.length_insertIdx_of_le_length hl]; omega), hpd,
      take_insertIdx_self _ _ _ hl, drop_insertIdx_self _ _ _ hl, take_eraseIdx_self, drop_eraseIdx_self, hps]
    simp only [Option.bind_some, idxShape]
    have hrow : (m.select 0 i).shape = [n] := by simp [T.select, hm]
    simp [hrow, hqs]
  · rw [idxShape_pre pre post _ hpre (by rw [hpd, List.length_eraseIdx_of_lt hmd]; omega), hpd,
      take_eraseIdx_self, drop_eraseIdx_self, hps]
    simp [hqs]


/-- the members a per-row result contributes to the cat -/
def lazyMembers : LRes α → List (TD α)
  | .lazy Li => Li.members
  | _ => []

theorem catResults_lazy (rs : List (LRes α)) (cd : Nat) (r : LRes α) (h : catResults rs cd = some r)
    (hgood : ∀ x ∈ rs, (∃ Lr, x = .lazy Lr) ∨ (∃ bb, x = .empty bb))
    (hne : rs.flatMap lazyMembers ≠ []) :
    r = .lazy ⟨rs.flatMap lazyMembers, cd⟩ := by
  unfold catResults at h
  split at h
  · rename_i hany
    exfalso
    obtain ⟨x, hx, hbad⟩ := List.any_eq_true.mp hany
    rcases hgood x hx with ⟨Lr, rfl⟩ | ⟨bb, rfl⟩ <;> simp at hbad
  cases rs with
  | nil => simp at h
  | cons r0 rest =>
    simp only at h
    generalize hg : List.flatMap _ (r0 :: rest) = ms at h
    have hms : ms = (r0 :: rest).flatMap lazyMembers := by
      rw [← hg]; congr 1
    rw [hms] at h
    cases hmm : (r0 :: rest).flatMap lazyMembers with
    | nil => exact absurd hmm hne
    | cons x xs =>
      rw [hmm] at h
      simp only [Option.map_eq_some_iff] at h
      obtain ⟨L', hL', rfl⟩ := h
      obtain ⟨rfl, _⟩ := lazyStack_some' _ _ _ hL'
      rfl

/-- **one row of a spanning rank-2 mask**: the lazy stack `L[:, …, :, i]` indexed with row `i` of the
mask contributes the kept members, each indexed by the other items; stacked along the result
position of the mask they are the dense slice indexed with that row -/
theorem span_row [Inhabited α] (L : Lazy α) (b : Shape) (keys : List String) (feat : String → Shape)
    (hU : Uniform L b keys feat) (hne0 : L.members ≠ []) (pre post : List Ix) (m : T Bool)
    (hpre : BasicPre pre) (hpd : preDims pre + 1 = L.sd) (hpost : Basic post)
    (hm : m.shape = [at0 b (preDims pre), L.members.length])
    (ps qs : Shape) (hplen : ps.length = outRank pre) (i : Nat) (hi : i < at0 b (preDims pre))
    (hrowshape : idxShape (pre ++ .mask (m.select 0 i) :: post)
        ((b.eraseIdx (preDims pre)).insertIdx (preDims pre) L.members.length)
      = some (ps ++ (nonzero (m.select 0 i)).length :: qs))
    (hso : idxShape (pre ++ post) (b.eraseIdx (preDims pre)) = some (ps ++ qs))
    (Li : Lazy α) (h1 : lazyGetCore L (List.replicate (preDims pre) Ix.full ++ [.int (i : Int)]) = some (.lazy Li))
    (ri : LRes α) (h2 : lazyGetCore Li (pre ++ .mask (m.select 0 i) :: post) = some ri) :
    ((∃ Lr, ri = .lazy Lr) ∨ (∃ bb, ri = .empty bb)) ∧
    (lazyMembers ri).length = (nonzero (m.select 0 i)).length ∧
    (∀ x ∈ lazyMembers ri, x.batch = ps ++ qs ∧ x.keys = keys ∧ ∀ k ∈ keys, (x.leaf k).shape = (ps ++ qs) ++ feat k) ∧
    (lazyMembers ri ≠ [] → ∀ k ∈ keys,
      T.stack ((lazyMembers ri).map fun x => x.leaf k) (outRank pre)
        ≈ₜ idxT (pre ++ .mask (m.select 0 i) :: post) (((absL L).leaf k).select (preDims pre) i)) := by
  have hLB : L.batch = b.insertIdx L.sd L.members.length := absL_batch_eq L b keys feat hU hne0
  have hmdb : preDims pre < b.length := by have := hU.hsd; omega
  have hnmd : at0 L.batch (preDims pre) = at0 b (preDims pre) := by
    rw [hLB]; exact at0_insertIdx_lt b L.sd _ _ (by omega) hU.hsd
  have hmdL : preDims pre < L.batch.length := by
    rw [hLB, List.length_insertIdx_of_le_length hU.hsd]; omega
  -- the first read
  obtain ⟨Li', hLi', hsdi, hleni, hUi⟩ := get_full_int_structure L b keys feat hU hne0 (preDims pre) i
    (by omega) hi _ h1
  obtain rfl : Li = Li' := by injection hLi'
  obtain ⟨hbi, hki, hleafi⟩ := get_full_int_refines L b keys feat hU hne0 (preDims pre) i hmdL
    (by rw [hnmd]; exact hi) _ h1
  have hnei : Li.members ≠ [] := by
    intro hh; rw [hh] at hleni; exact hne0 (List.length_eq_zero_iff.mp hleni.symm)
  have hsdi' : Li.sd = preDims pre := by omega
  have hrow : (m.select 0 i).shape = [Li.members.length] := by simp [T.select, hm, hleni]
  -- the second read
  obtain ⟨res, hres, hcase⟩ := get_mask1_structure Li pre post (m.select 0 i) hpre hsdi'.symm
    (fun it h => (hpost it h).2) hrow ri h2
  obtain ⟨hresl, hresget⟩ := allSome_map_getElem _ _ _ hres
  have hcnt : res.length = (nonzero (m.select 0 i)).length := by
    rw [hresl, nonzero_rank1 _ _ hrow]; simp
  have hresmem : ∀ x ∈ res, x.batch = ps ++ qs ∧ x.keys = keys ∧ ∀ k ∈ keys, (x.leaf k).shape = (ps ++ qs) ++ feat k := by
    intro x hx
    obtain ⟨j, hj, rfl⟩ := List.getElem_of_mem hx
    have := hresget j hj (by rw [← hresl]; exact hj)
    obtain ⟨so', hso', hb', hk', hl'⟩ := memberIndex_uniform Li _ keys feat hUi (pre ++ post) _ _ this
    rw [hso] at hso'
    obtain rfl := Option.some.inj hso'
    exact ⟨hb', hk', hl'⟩
  rcases hcase with ⟨hnil, bb, rfl⟩ | ⟨hnn, rfl⟩
  · subst hnil
    refine ⟨Or.inr ⟨bb, rfl⟩, by simpa [lazyMembers] using hcnt, by simp [lazyMembers], by simp [lazyMembers]⟩
  · refine ⟨Or.inl ⟨_, rfl⟩, by simpa [lazyMembers] using hcnt, by simpa [lazyMembers] using hresmem, ?_⟩
    intro _ k hk
    show T.stack (res.map fun x => x.leaf k) (outRank pre) ≈ₜ _
    -- stage 3 on the sub-stack
    have hbLi : (absL Li).batch = (b.eraseIdx (preDims pre)).insertIdx (preDims pre) L.members.length := by
      rw [absL_batch_eq Li _ keys feat hUi hnei, hsdi', hleni]
    have hdi : (absL Li).index (pre ++ .mask (m.select 0 i) :: post)
        = some ((absL Li).mapLeaves (ps ++ (nonzero (m.select 0 i)).length :: qs)
            (idxT (pre ++ .mask (m.select 0 i) :: post))) := by
      unfold TD.index
      rw [hbLi, hrowshape]; rfl
    obtain ⟨hpa, hpne⟩ := basicPre_noAdv pre hpre
    have hpostadv : post.countP Ix.isAdv = 0 := by
      simpa [List.countP_eq_zero] using fun it h => (hpost it h).1
    have hitem := (splitRec_pre_mask (m.select 0 i) post pre Li.sd hpre hsdi'.symm).1
    have hok := getitem_refines_mask1 Li _ keys feat hUi hnei (pre ++ .mask (m.select 0 i) :: post)
      (plainM_pre_mask _ (by rw [hrow]; rfl) post pre Li.sd hpre hsdi'.symm)
      (by
        intro it hit
        simp only [List.mem_append, List.mem_cons] at hit
        rcases hit with h | rfl | h
        · exact hpne it h
        · simp
        · exact (hpost it h).2)
      (by simp [AtMostOneAdv, List.countP_append, List.countP_cons, hpa, hpostadv, Ix.isAdv])
      (m.select 0 i) hitem _ h2 _ hdi
    have hok' : absL (⟨res, outRank pre⟩ : Lazy α) ≈ (absL Li).mapLeaves _ (idxT (pre ++ .mask (m.select 0 i) :: post)) := hok
    have hkk : k ∈ (absL (⟨res, outRank pre⟩ : Lazy α)).keys := by
      rw [hok'.2.1]; show k ∈ (absL Li).keys
      rw [absL_keys Li _ keys feat hUi hnei]; exact hk
    refine T.Eqv.trans (hok'.2.2 k hkk) ?_
    show idxT _ ((absL Li).leaf k) ≈ₜ _
    have hshLi : ((absL Li).leaf k).shape = ((b.eraseIdx (preDims pre)).insertIdx (preDims pre) L.members.length) ++ feat k := by
      rw [absL_leaf_shape' Li _ keys feat hUi hnei k hk]
      show (absL Li).batch ++ feat k = _
      rw [hbLi]
    exact idxT_congr _ (hleafi k hk) _ (by rw [hshLi]; exact idxShape_append (feat k) _ _ _ hrowshape)


theorem eraseIdx_insertIdx_succ (b : Shape) (md n : Nat) (h : md < b.length) :
    (b.insertIdx (md + 1) n).eraseIdx md = (b.eraseIdx md).insertIdx md n := by
  have hl : md ≤ (b.eraseIdx md).length := by rw [List.length_eraseIdx_of_lt h]; omega
  apply List.ext_getElem?
  intro i
  have L1 : ((b.insertIdx (md + 1) n).eraseIdx md)[i]? = if i < md then b[i]? else if i = md then some n else b[i]? := by
    rw [List.getElem?_eraseIdx]
    by_cases h1 : i < md
    · rw [if_pos h1, if_pos h1, List.getElem?_insertIdx_of_lt (by omega)]
    · rw [if_neg h1, if_neg h1, List.getElem?_insertIdx]
      by_cases h3 : i = md
      · subst h3; simp; omega
      · have h4 : ¬ i + 1 < md + 1 := by omega
        have h5 : ¬ i + 1 = md + 1 := by omega
        simp [h3, h4, h5]
  have R1 : ((b.eraseIdx md).insertIdx md n)[i]? = if i < md then b[i]? else if i = md then some n else b[i]? := by
    rw [List.getElem?_insertIdx]
    by_cases h1 : i < md
    · simp [h1, List.getElem?_eraseIdx]
    · by_cases h3 : i = md
      · subst h3; simp [hl]
      · have h6 : ¬ i - 1 < md := by omega
        have h7 : i - 1 + 1 = i := by omega
        simp [h1, h3, List.getElem?_eraseIdx, h6, h7]
  rw [L1, R1]

/-- **Reads with a rank-2 mask spanning the stack dim** (`lazy[pre…, mask2d, post…]`, the mask
covering the dim before the stack dim and the stack dim itself; ints / slices / None around it):
what `__getitem__` builds — for every position `i` of the dim the mask starts at, the lazy stack
`self[(:,)*mask_dim + (i,)]` indexed with row `i` of the mask (a rank-1 mask on ITS stack dim), the
results concatenated along `mask_loc - num_single` — materialises to the dense index.  (A mask that
keeps nothing returns an empty stack, which only has a batch size: excluded by `hsome`.) -/
theorem getitem_refines_mask2_span [Inhabited α] (L : Lazy α) (b : Shape) (keys : List String) (feat : String → Shape)
    (hU : Uniform L b keys feat) (hne0 : L.members ≠ []) (pre post : List Ix) (m : T Bool)
    (hpre : BasicPre pre) (hpd : preDims pre + 1 = L.sd) (hpost : Basic post)
    (hm : m.shape = [at0 b (preDims pre), L.members.length]) (hsome : 0 < (nonzero m).length)
    (r : LRes α) (hr : lazyGetCoreM L (pre ++ .mask m :: post) = some r)
    (d : TD α) (hd : (absL L).index (pre ++ .mask m :: post) = some d) :
    absR r ≈ d := by
  obtain ⟨md, hmd⟩ : ∃ md, md = preDims pre := ⟨_, rfl⟩
  have hpostne : ∀ it ∈ post, it ≠ Ix.ell := fun it h => (hpost it h).2
  have hsd : L.sd = md + 1 := by omega
  have hmdb : md < b.length := by have := hU.hsd; omega
  have hB : (absL L).batch = b.insertIdx (md + 1) L.members.length := by
    rw [absL_batch_eq L b keys feat hU hne0, hsd]
  -- the dense side
  simp only [TD.index, Option.map_eq_some_iff] at hd
  obtain ⟨s, hs, rfl⟩ := hd
  rw [hB] at hs
  obtain ⟨ps, qs, hps, hqs, hplen, hs', hrowsh, hso⟩ :=
    span_shapes b L.members.length md hmdb pre post m hpre hmd.symm (by rw [hmd]; exact hm) s hs
  rw [hmd] at hrowsh hso
  -- the lazy side
  obtain ⟨rs, hrl, hcat, hrows⟩ := span_unroll L b keys feat hU hne0 pre post m hpre hpd hpostne hm r hr
  have hrowfacts : ∀ i (hi : i < rs.length),
      ((∃ Lr, rs[i] = .lazy Lr) ∨ (∃ bb, rs[i] = .empty bb)) ∧
      (lazyMembers rs[i]).length = (nonzero (m.select 0 i)).length ∧
      (∀ x ∈ lazyMembers rs[i], x.batch = ps ++ qs ∧ x.keys = keys ∧ ∀ k ∈ keys, (x.leaf k).shape = (ps ++ qs) ++ feat k) ∧
      (lazyMembers rs[i] ≠ [] → ∀ k ∈ keys,
        T.stack ((lazyMembers rs[i]).map fun x => x.leaf k) (outRank pre)
          ≈ₜ idxT (pre ++ .mask (m.select 0 i) :: post) (((absL L).leaf k).select (preDims pre) i)) := by
    intro i hi
    obtain ⟨Li, h1, h2⟩ := hrows i hi
    exact span_row L b keys feat hU hne0 pre post m hpre hpd hpost hm ps qs hplen i (by rw [← hrl]; exact hi)
      (hrowsh i) hso Li h1 rs[i] h2
  -- how many members each row contributes
  have hnz : (nonzero m).length = ((List.range rs.length).map fun i => (nonzero (m.select 0 i)).length).sum := by
    rw [nonzero_rank2 m _ _ hm, length_flatMap_sum, hrl]; simp
  have hlenrow : ∀ i (hi : i < rs.length), (lazyMembers rs[i]).length = (nonzero (m.select 0 i)).length :=
    fun i hi => (hrowfacts i hi).2.1
  have hmslen : (rs.flatMap lazyMembers).length = (nonzero m).length := by
    rw [hnz, List.length_flatMap]
    congr 1
    apply List.ext_getElem
    · simp
    · intro i h1 h2
      simp only [List.length_map] at h1
      simp [hlenrow i h1]
  have hmsne : rs.flatMap lazyMembers ≠ [] := by
    intro hh; rw [hh] at hmslen; simp at hmslen; omega
  have hr' := catResults_lazy rs (outRank pre) r hcat
    (by intro x hx; obtain ⟨i, hi, rfl⟩ := List.getElem_of_mem hx; exact (hrowfacts i hi).1) hmsne
  subst hr'
  have hmem : ∀ x ∈ rs.flatMap lazyMembers, x.batch = ps ++ qs ∧ x.keys = keys ∧
      ∀ k ∈ keys, (x.leaf k).shape = (ps ++ qs) ++ feat k := by
    intro x hx
    simp only [List.mem_flatMap] at hx
    obtain ⟨ri, hri, hxr⟩ := hx
    obtain ⟨i, hi, rfl⟩ := List.getElem_of_mem hri
    exact (hrowfacts i hi).2.2.1 x hxr
  have hkeysL : (absL L).keys = keys := absL_keys L b keys feat hU hne0
  show stackTD (rs.flatMap lazyMembers) (outRank pre) ≈ _
  refine ⟨?_, ?_, ?_⟩
  · show ((rs.flatMap lazyMembers).head?.map TD.batch |>.getD []).insertIdx (outRank pre) _ = s
    rw [head_of_all TD.batch [] (ps ++ qs) _ hmsne (fun x hx => (hmem x hx).1), hmslen, ← hplen,
      insertIdx_append_mid _ _ _ _ rfl, hs']
  · show ((rs.flatMap lazyMembers).head?.map TD.keys |>.getD []) = (absL L).keys
    rw [head_of_all TD.keys [] keys _ hmsne (fun x hx => (hmem x hx).2.1), hkeysL]
  · intro k hk
    have hk' : k ∈ keys := by
      have : (stackTD (rs.flatMap lazyMembers) (outRank pre)).keys = keys :=
        head_of_all TD.keys [] keys _ hmsne (fun x hx => (hmem x hx).2.1)
      rw [this] at hk; exact hk
    show T.stack ((rs.flatMap lazyMembers).map fun x => x.leaf k) (outRank pre) ≈ₜ idxT _ ((absL L).leaf k)
    obtain ⟨t, ht⟩ : ∃ t, t = (absL L).leaf k := ⟨_, rfl⟩
    rw [← ht]
    have htsh : t.shape = b.insertIdx (md + 1) L.members.length ++ feat k := by
      rw [ht, absL_leaf_shape' L b keys feat hU hne0 k hk']
      show (absL L).batch ++ feat k = _
      rw [hB]
    have htl : md + 1 < t.shape.length := by
      rw [htsh, List.length_append, List.length_insertIdx_of_le_length (by omega)]; omega
    have hat : at0 t.shape md = at0 b md := by
      rw [htsh]; simp only [at0]
      rw [List.getElem?_append_left (by rw [List.length_insertIdx_of_le_length (by omega)]; omega),
        List.getElem?_insertIdx_of_lt (by omega)]
    have hnpos : 0 < at0 b md := by
      rw [hmd, ← hrl]
      apply Nat.pos_of_ne_zero
      intro h0
      have h00 : (nonzero m).length = 0 := by rw [hnz, h0]; simp
      omega
    have hsel : ∀ i, (t.select md i).shape = (b.eraseIdx md).insertIdx md L.members.length ++ feat k := by
      intro i
      show t.shape.eraseIdx md = _
      rw [htsh, List.eraseIdx_append_of_lt_length (by rw [List.length_insertIdx_of_le_length (by omega)]; omega),
        eraseIdx_insertIdx_succ b md _ hmdb]
    -- cat of the dense rows = the dense index
    have key := idx_mask2_any t md pre post m L.members.length htl (by rw [hat]; exact hnpos) hpre hmd.symm
      (by rw [hat, hmd]; exact hm) (s ++ feat k) (by rw [htsh]; exact idxShape_append (feat k) _ _ _ hs)
    rw [hat] at key
    refine T.Eqv.trans ?_ key
    -- the lazily stacked members = cat of the dense rows
    rw [List.map_flatMap, flatMap_eq_range, hrl, ← hmd]
    have hbase : outRank pre < (ps ++ 0 :: (qs ++ feat k)).length := by simp; omega
    apply stack_pieces_catList (ps ++ 0 :: (qs ++ feat k)) (outRank pre) hbase (List.range (at0 b md))
      (fun i => idxT (pre ++ .mask (m.select 0 i) :: post) (t.select md i))
      _ (List.ne_nil_of_length_pos (by simpa using hnpos))
    · intro i _
      show (idxT _ (t.select md i)).shape = _
      rw [idxT_shape, hsel i, idxShape_append (feat k) _ _ _ (by rw [hmd]; exact hrowsh i)]
      simp only [Option.getD_some]
      rw [← hplen, List.append_assoc, List.cons_append, set_append_at_len]
      simp [at0]
    · intro i hi
      simp only [List.mem_range] at hi
      have hi' : i < rs.length := by rw [hrl, ← hmd]; exact hi
      rw [List.getElem?_eq_getElem hi']
      simp only [Option.map_some, Option.getD_some, List.length_map]
      rw [hlenrow i hi', idxT_shape, hsel i, idxShape_append (feat k) _ _ _ (by rw [hmd]; exact hrowsh i)]
      simp only [Option.getD_some, at0]
      rw [← hplen, List.append_assoc, List.cons_append, List.getElem?_append_right (Nat.le_refl _)]
      simp
    · intro i hi p hp
      simp only [List.mem_range] at hi
      have hi' : i < rs.length := by rw [hrl, ← hmd]; exact hi
      have hfi : ((rs[i]?.map fun x => (lazyMembers x).map fun y => y.leaf k).getD [])
          = (lazyMembers rs[i]).map fun y => y.leaf k := by
        rw [List.getElem?_eq_getElem hi']; rfl
      have hp' : p < ((lazyMembers rs[i]).map fun y => y.leaf k).length := by rw [← hfi]; exact hp
      have hne' : lazyMembers rs[i] ≠ [] := by
        intro hh; rw [hh] at hp'; simp at hp'
      have hstk := (hrowfacts i hi').2.2.2 hne' k hk'
      rw [← ht, ← hmd] at hstk
      have hshapes : ∀ y ∈ (lazyMembers rs[i]).map fun y => y.leaf k, y.shape = (ps ++ qs) ++ feat k := by
        intro y hy
        simp only [List.mem_map] at hy
        obtain ⟨x, hx, rfl⟩ := hy
        exact ((hrowfacts i hi').2.2.1 x hx).2.2 k hk'
      have hcdle : outRank pre ≤ ((ps ++ qs) ++ feat k).length := by simp; omega
      have h1 := select_stack _ _ (outRank pre) p hshapes hcdle hp'
      have hstkshape : (T.stack ((lazyMembers rs[i]).map fun y => y.leaf k) (outRank pre)).shape
          = ((ps ++ qs) ++ feat k).insertIdx (outRank pre) ((lazyMembers rs[i]).map fun y => y.leaf k).length := by
        rw [T.stack_shape, head_of_all T.shape [] _ _ (by intro hh; rw [hh] at hp'; simp at hp') hshapes]
      have h2 := T.select_congr hstk (outRank pre) p
        (by rw [hstkshape, List.length_insertIdx_of_le_length hcdle]; omega)
        (by rw [hstkshape, at0_insertIdx_self _ _ _ hcdle]; exact hp')
      have hget : ((rs[i]?.map fun x => (lazyMembers x).map fun y => y.leaf k).getD [])[p]
          = ((lazyMembers rs[i]).map fun y => y.leaf k)[p] := by
        congr 1
      rw [hget]
      exact T.Eqv.trans (T.Eqv.symm'' h1) h2
    · have : (List.range (at0 b md)).map (fun i => at0 (idxT (pre ++ .mask (m.select 0 i) :: post) (t.select md i)).shape (outRank pre))
          = (List.range (at0 b md)).map fun i => (nonzero (m.select 0 i)).length := by
        apply List.map_congr_left
        intro i _
        rw [idxT_shape, hsel i, idxShape_append (feat k) _ _ _ (by rw [hmd]; exact hrowsh i)]
        simp only [Option.getD_some, at0]
        rw [← hplen, List.append_assoc, List.cons_append, List.getElem?_append_right (Nat.le_refl _)]
        simp
      rw [this, hmd, ← hrl, ← hnz]
      exact hsome

end TdVerif.C08

namespace TdVerif.C08

theorem catResults_empty (rs : List (LRes α)) (cd : Nat) (r : LRes α) (h : catResults rs cd = some r)
    (hall : ∀ x ∈ rs, ∃ bb, x = .empty bb) :
    ∃ b0 rest, rs = .empty b0 :: rest ∧ r = .empty b0 := by
  unfold catResults at h
  split at h
  · rename_i hany
    exfalso
    obtain ⟨x, hx, hbad⟩ := List.any_eq_true.mp hany
    obtain ⟨bb, rfl⟩ := hall x hx
    simp at hbad
  cases rs with
  | nil => simp at h
  | cons r0 rest =>
    simp only at h
    generalize hg : List.flatMap _ (r0 :: rest) = ms at h
    have hms : ms = [] := by
      rw [← hg]
      apply List.flatMap_eq_nil_iff.mpr
      intro x hx
      obtain ⟨bb, rfl⟩ := hall x hx
      rfl
    rw [hms] at h
    obtain ⟨b0, rfl⟩ := hall r0 (by simp)
    simp only [Option.some.injEq] at h
    exact ⟨b0, rest, rfl, h.symm⟩

theorem sum_eq_zero_all : ∀ (l : List Nat), l.sum = 0 → ∀ x ∈ l, x = 0
  | [], _, x, hx => by simp at hx
  | a :: r, h, x, hx => by
    simp only [List.sum_cons] at h
    simp only [List.mem_cons] at hx
    rcases hx with rfl | hx
    · omega
    · exact sum_eq_zero_all r (by omega) x hx

/-- a row of the mask that keeps nothing: the sub-read returns an empty stack with the dense batch size -/
theorem span_row_empty [Inhabited α] (L : Lazy α) (b : Shape) (keys : List String) (feat : String → Shape)
    (hU : Uniform L b keys feat) (hne0 : L.members ≠ []) (pre post : List Ix) (m : T Bool)
    (hpre : BasicPre pre) (hpd : preDims pre + 1 = L.sd) (hpost : Basic post)
    (hm : m.shape = [at0 b (preDims pre), L.members.length])
    (ps qs : Shape) (i : Nat) (hi : i < at0 b (preDims pre))
    (hrowshape : idxShape (pre ++ .mask (m.select 0 i) :: post)
        ((b.eraseIdx (preDims pre)).insertIdx (preDims pre) L.members.length)
      = some (ps ++ (nonzero (m.select 0 i)).length :: qs))
    (hzero : (nonzero (m.select 0 i)).length = 0)
    (Li : Lazy α) (h1 : lazyGetCore L (List.replicate (preDims pre) Ix.full ++ [.int (i : Int)]) = some (.lazy Li))
    (ri : LRes α) (h2 : lazyGetCore Li (pre ++ .mask (m.select 0 i) :: post) = some ri) :
    ri = .empty (ps ++ 0 :: qs) := by
  obtain ⟨Li', hLi', hsdi, hleni, hUi⟩ := get_full_int_structure L b keys feat hU hne0 (preDims pre) i
    (by omega) hi _ h1
  obtain rfl : Li = Li' := by injection hLi'
  have hnei : Li.members ≠ [] := by
    intro hh; rw [hh] at hleni; exact hne0 (List.length_eq_zero_iff.mp hleni.symm)
  have hsdi' : Li.sd = preDims pre := by omega
  have hrow : (m.select 0 i).shape = [Li.members.length] := by simp [T.select, hm, hleni]
  obtain ⟨res, hres, hcase⟩ := get_mask1_structure Li pre post (m.select 0 i) hpre hsdi'.symm
    (fun it h => (hpost it h).2) hrow ri h2
  obtain ⟨hresl, _⟩ := allSome_map_getElem _ _ _ hres
  have hcnt : res.length = 0 := by
    have h3 : (nonzero (m.select 0 i)).length
        = ((List.range Li.members.length).filter fun j => (m.select 0 i).get [j]).length := by
      rw [nonzero_rank1 _ _ hrow]; simp
    rw [hresl, ← h3]; exact hzero
  have hresnil : res = [] := List.length_eq_zero_iff.mp hcnt
  rcases hcase with ⟨_, bb, rfl⟩ | ⟨hnn, _⟩
  · -- the batch size, from stage 3
    have hbLi : (absL Li).batch = (b.eraseIdx (preDims pre)).insertIdx (preDims pre) L.members.length := by
      rw [absL_batch_eq Li _ keys feat hUi hnei, hsdi', hleni]
    have hdi : (absL Li).index (pre ++ .mask (m.select 0 i) :: post)
        = some ((absL Li).mapLeaves (ps ++ (nonzero (m.select 0 i)).length :: qs)
            (idxT (pre ++ .mask (m.select 0 i) :: post))) := by
      unfold TD.index
      rw [hbLi, hrowshape]; rfl
    obtain ⟨hpa, hpne⟩ := basicPre_noAdv pre hpre
    have hpostadv : post.countP Ix.isAdv = 0 := by
      simpa [List.countP_eq_zero] using fun it h => (hpost it h).1
    have hitem := (splitRec_pre_mask (m.select 0 i) post pre Li.sd hpre hsdi'.symm).1
    have hok := getitem_refines_mask1 Li _ keys feat hUi hnei (pre ++ .mask (m.select 0 i) :: post)
      (plainM_pre_mask _ (by rw [hrow]; rfl) post pre Li.sd hpre hsdi'.symm)
      (by
        intro it hit
        simp only [List.mem_append, List.mem_cons] at hit
        rcases hit with h | rfl | h
        · exact hpne it h
        · simp
        · exact (hpost it h).2)
      (by simp [AtMostOneAdv, List.countP_append, List.countP_cons, hpa, hpostadv, Ix.isAdv])
      (m.select 0 i) hitem _ h2 _ hdi
    have hbb : bb = ps ++ (nonzero (m.select 0 i)).length :: qs := hok
    rw [hbb, hzero]
  · exact absurd hresnil hnn

/-- **Reads with a rank-2 mask spanning the stack dim that keeps nothing**: an empty stack whose
batch size is the dense one -/
theorem getitem_mask2_span_none [Inhabited α] (L : Lazy α) (b : Shape) (keys : List String) (feat : String → Shape)
    (hU : Uniform L b keys feat) (hne0 : L.members ≠ []) (pre post : List Ix) (m : T Bool)
    (hpre : BasicPre pre) (hpd : preDims pre + 1 = L.sd) (hpost : Basic post)
    (hm : m.shape = [at0 b (preDims pre), L.members.length]) (hnone : (nonzero m).length = 0)
    (r : LRes α) (hr : lazyGetCoreM L (pre ++ .mask m :: post) = some r)
    (d : TD α) (hd : (absL L).index (pre ++ .mask m :: post) = some d) :
    r = .empty d.batch := by
  obtain ⟨md, hmd⟩ : ∃ md, md = preDims pre := ⟨_, rfl⟩
  have hpostne : ∀ it ∈ post, it ≠ Ix.ell := fun it h => (hpost it h).2
  have hsd : L.sd = md + 1 := by omega
  have hmdb : md < b.length := by have := hU.hsd; omega
  have hB : (absL L).batch = b.insertIdx (md + 1) L.members.length := by
    rw [absL_batch_eq L b keys feat hU hne0, hsd]
  simp only [TD.index, Option.map_eq_some_iff] at hd
  obtain ⟨s, hs, rfl⟩ := hd
  rw [hB] at hs
  obtain ⟨ps, qs, hps, hqs, hplen, hs', hrowsh, hso⟩ :=
    span_shapes b L.members.length md hmdb pre post m hpre hmd.symm (by rw [hmd]; exact hm) s hs
  rw [hmd] at hrowsh
  obtain ⟨rs, hrl, hcat, hrows⟩ := span_unroll L b keys feat hU hne0 pre post m hpre hpd hpostne hm r hr
  have hnz : (nonzero m).length = ((List.range rs.length).map fun i => (nonzero (m.select 0 i)).length).sum := by
    rw [nonzero_rank2 m _ _ hm, length_flatMap_sum, hrl]; simp
  have hzero : ∀ i, i < rs.length → (nonzero (m.select 0 i)).length = 0 := by
    intro i hi
    apply sum_eq_zero_all _ (by rw [← hnz]; exact hnone)
    exact List.mem_map.mpr ⟨i, List.mem_range.mpr hi, rfl⟩
  have hall : ∀ i (hi : i < rs.length), rs[i] = .empty (ps ++ 0 :: qs) := by
    intro i hi
    obtain ⟨Li, h1, h2⟩ := hrows i hi
    exact span_row_empty L b keys feat hU hne0 pre post m hpre hpd hpost hm ps qs i (by rw [← hrl]; exact hi)
      (hrowsh i) (hzero i hi) Li h1 rs[i] h2
  obtain ⟨b0, rest, hrs, rfl⟩ := catResults_empty rs (outRank pre) r hcat
    (by intro x hx; obtain ⟨i, hi, rfl⟩ := List.getElem_of_mem hx; exact ⟨_, hall i hi⟩)
  have h0 := hall 0 (by rw [hrs]; simp)
  simp only [hrs, List.getElem_cons_zero, LRes.empty.injEq] at h0
  show LRes.empty b0 = LRes.empty s
  rw [h0, hs', hnone]

end TdVerif.C08
