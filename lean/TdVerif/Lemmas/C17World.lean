/-
C17 — lemmas about the heap-of-objects model (`Model/C17World.lean`).
-/
import TdVerif.Model.C17World

namespace TdVerif.C17
open TdVerif.C02

theorem exitBlock_unrecorded (name : String) (c : Call) (isSelf : Bool) (y out : St) :
    exitBlock name c false isSelf y out = .ok out := by simp [exitBlock]

theorem footprint_congr (w1 w2 : World) (j : Nat) (h : w1.objs j = w2.objs j) : footprint w1 j = footprint w2 j := by
  simp [footprint, h]

theorem World.ext' (a b : World) (h1 : a.next = b.next) (h2 : a.vars = b.vars) (h3 : ∀ i, a.objs i = b.objs i) : a = b := by
  cases a; cases b; simp at *; exact ⟨funext h3, h1, h2⟩

end TdVerif.C17
