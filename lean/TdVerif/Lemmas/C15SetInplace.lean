/-
  C15 — `_set` with the `inplace` flag and tuple keys.
-/
import TdVerif.Lemmas.C15Update

namespace TdVerif.C15
variable {T V : Type}

theorem wf_setTensor (fields : List String) (tc : TC (TDm T V) V) (key : String) (e : Entry T V) (hwf : WF fields tc)
    (hk : key ∈ fields) : WF fields (setTensor tc key e) := by
  refine ⟨?_, ?_, ?_, ?_, ?_⟩
  · intro k hk'
    rcases ((keys_setTensor tc key e k).1).mp hk' with rfl | h1
    · exact hk
    · exact hwf.td_sub k h1
  · intro k hk'
    exact hwf.nt_sub k (((keys_setTensor tc key e k).2).mp hk').2
  · intro f hf
    by_cases hfk : f = key
    · exact Or.inl (((keys_setTensor tc key e f).1).mpr (Or.inl hfk))
    · rcases hwf.cover f hf with h1 | h1
      · exact Or.inl (((keys_setTensor tc key e f).1).mpr (Or.inr h1))
      · exact Or.inr (((keys_setTensor tc key e f).2).mpr ⟨hfk, h1⟩)
  · intro k hk' hnt
    have hnt' := ((keys_setTensor tc key e k).2).mp hnt
    rcases ((keys_setTensor tc key e k).1).mp hk' with rfl | h1
    · exact hnt'.1 rfl
    · exact hwf.disj k h1 hnt'.2
  · exact nodup_keys_assocDel key tc.nt hwf.nt_nodup

theorem wf_setNone (fields : List String) (tc : TC (TDm T V) V) (key : String) (hwf : WF fields tc)
    (hk : key ∈ fields) : WF fields (setNone tc key) := by
  refine ⟨?_, ?_, ?_, ?_, ?_⟩
  · intro k hk'
    exact hwf.td_sub k (((keys_setNone tc key k).1).mp hk').2
  · intro k hk'
    rcases ((keys_setNone tc key k).2).mp hk' with rfl | h1
    · exact hk
    · exact hwf.nt_sub k h1
  · intro f hf
    by_cases hfk : f = key
    · exact Or.inr (((keys_setNone tc key f).2).mpr (Or.inl hfk))
    · rcases hwf.cover f hf with h1 | h1
      · exact Or.inl (((keys_setNone tc key f).1).mpr ⟨hfk, h1⟩)
      · exact Or.inr (((keys_setNone tc key f).2).mpr (Or.inr h1))
  · intro k hk' hnt
    have htd := ((keys_setNone tc key k).1).mp hk'
    rcases ((keys_setNone tc key k).2).mp hnt with rfl | h1
    · exact htd.1 rfl
    · exact hwf.disj k htd.2 h1
  · exact nodup_keys_assocSet key none tc.nt hwf.nt_nodup

/-- a successful `set_tensor` is the primitive write; under lock it only happens in place on an existing entry -/
theorem tdSetEntry_ok (inplace copyOk : Bool) (tc tc' : TC (TDm T V) V) (key : String) (e : Entry T V)
    (h : tdSetEntry inplace copyOk tc key e = .ok tc') :
    tc' = setTensor tc key e ∧ (tc.td.locked = true → inplace = true ∧ key ∈ tc.td.keys) := by
  unfold tdSetEntry at h
  by_cases hc : (inplace && tc.td.keys.contains key) = true
  · rw [if_pos hc] at h
    cases copyOk <;> simp at h
    simp only [Bool.and_eq_true] at hc
    exact ⟨h.symm, fun _ => ⟨hc.1, by simpa using hc.2⟩⟩
  · rw [if_neg hc] at h
    cases hl : tc.td.locked <;> simp [hl] at h
    exact ⟨h.symm, fun h' => by cases h'⟩

/-- every successful `_set` (any `inplace`) is one of the two primitive writes on a declared field; a locked instance is
only ever written in place on an existing entry -/
theorem setFieldI_shape (fields : List String) (o : Opts) (h : Hint) (inplace : Bool) (ck : CopyOk) (pinned : Bool)
    (tc tc' : TC (TDm T V) V) (key : String) (a : SetArg T V) (hs : setFieldI fields o h inplace ck pinned tc key a = .ok tc') :
    key ∈ fields ∧ (tc.td.locked = true → inplace = true ∧ key ∈ tc.td.keys)
    ∧ ((∃ e, tc' = setTensor tc key e) ∨ (tc' = setNone tc key ∧ tc.td.locked = false)) := by
  unfold setFieldI at hs
  by_cases hlk : (tc.td.locked && !(inplace && tc.td.keys.contains key)) = true
  · rw [if_pos hlk] at hs; cases hs
  · rw [if_neg hlk] at hs
    have hlock : tc.td.locked = true → inplace = true ∧ key ∈ tc.td.keys := by
      intro hl
      rw [hl] at hlk
      simp only [Bool.true_and, Bool.not_eq_true', Bool.not_eq_false, Bool.and_eq_true] at hlk
      exact ⟨hlk.1, by simpa using hlk.2⟩
    by_cases hk : (!fields.contains key) = true
    · rw [if_pos hk] at hs; cases hs
    · rw [if_neg hk] at hs
      have hkf : key ∈ fields := by simpa using hk
      refine ⟨hkf, hlock, ?_⟩
      cases hp : setPlan o h ck a with
      | err e => rw [hp] at hs; cases hs
      | placeholder =>
        rw [hp] at hs
        simp only [runSetPlan] at hs
        by_cases hi : (inplace && tc.td.keys.contains key) = true
        · rw [if_pos hi] at hs; cases hs
        · rw [if_neg hi] at hs
          cases hs
          refine Or.inr ⟨rfl, ?_⟩
          cases hl : tc.td.locked with
          | false => rfl
          | true =>
            obtain ⟨h1, h2⟩ := hlock hl
            have : tc.td.keys.contains key = true := by simpa using h2
            rw [h1, this] at hi
            simp at hi
      | entry c e viaTail nonTensor =>
        rw [hp] at hs
        simp only [runSetPlan] at hs
        split at hs
        · cases hs
        · exact Or.inl ⟨e, (tdSetEntry_ok inplace c tc tc' key e hs).1⟩

/-- with `inplace = False` the function is the `_set` of attribute assignment -/
theorem setFieldI_false (fields : List String) (o : Opts) (h : Hint) (ck : CopyOk) (pinned : Bool)
    (tc : TC (TDm T V) V) (key : String) (a : SetArg T V) :
    setFieldI fields o h false ck pinned tc key a = setField fields o h tc key a := by
  unfold setFieldI setField
  cases hl : tc.td.locked
  · simp only [Bool.false_and, Bool.false_eq_true, ↓reduceIte]
    by_cases hk : fields.contains key = true
    · simp only [hk, Bool.not_true, Bool.false_eq_true, ↓reduceIte]
      unfold setPlan
      cases ho : o.autocast <;> cases hkind : a.kind <;> cases h <;>
        (try (cases hn : o.nocast)) <;> (try (cases hc : a.castAccepted)) <;> (try (cases hc2 : a.castOther)) <;>
        simp [runSetPlan, tdSetEntry, hl]
    · have hk2 : key ∉ fields := by simpa using hk
      simp [hk2]
  · simp

end TdVerif.C15
