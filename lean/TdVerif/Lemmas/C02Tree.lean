/-
  C02: the per-op facts needed by the whole-tree theorem `shape_op_coherent_all` (Props/C02):
  a "good call" succeeds on a leaf, is again a good call on a nested tensordict, and is what the batch arithmetic produces.
-/
import TdVerif.Lemmas.C02Meta
import TdVerif.Lemmas.C02Expand

namespace TdVerif.C02
variable {α : Type}

/-- G2: the same closure on a nested tensordict of batch `bs ++ ext` is again a good call, producing `bs' ++ ext` -/
theorem goodCall_nested (call : LeafCall) (bs bs' : Shape) (g : GoodCall call bs bs') (ext : Shape) (nm2 : Names) :
    ∃ nm3 call2, opMeta (opOfCall call (bs ++ ext)) (bs ++ ext) nm2 = .ok (some (bs' ++ ext, nm3, call2)) ∧
      GoodCall call2 (bs ++ ext) (bs' ++ ext) := by
  have hlen : (bs ++ ext).length = bs.length + ext.length := by simp
  cases g with
  | transpose i j _ hij hj =>
    have hsw := swap_append_left bs ext i j (by omega) hj
    have hB : GoodCall (.transpose i j) (bs ++ ext) (swap bs i j ++ ext) := by rw [← hsw]; exact GoodCall.transpose i j _ hij (by omega)
    suffices hA : ∃ nm3, opMeta (opOfCall (.transpose i j) (bs ++ ext)) (bs ++ ext) nm2 = .ok (some (swap bs i j ++ ext, nm3, .transpose i j)) by
      obtain ⟨nm3, hA⟩ := hA; exact ⟨nm3, _, hA, hB⟩
    simp only [opOfCall, opMeta]
    unfold transposeMeta
    have hr : ¬ ((i : Int) < 0 ∨ (j : Int) < 0 ∨ (i : Int) ≥ ((bs ++ ext).length : Nat) ∨ (j : Int) ≥ ((bs ++ ext).length : Nat)) := by
      rw [hlen]; omega
    have h1 : ¬ ((i : Int) < 0) := by omega
    have h2 : ¬ ((j : Int) < 0) := by omega
    have hmin : (min (i : Int) (j : Int)).toNat = i := by omega
    have hmax : (max (i : Int) (j : Int)).toNat = j := by omega
    have hne : ¬ (i = j) := by omega
    have hg1 : ¬ ((i : Int) ≥ ((bs ++ ext).length : Nat)) := by rw [hlen]; omega
    have hg2 : ¬ ((j : Int) ≥ ((bs ++ ext).length : Nat)) := by rw [hlen]; omega
    simp only [h1, h2, hg1, hg2, or_self, if_false, hmin, hmax, hne, hsw]
    exact ⟨_, rfl⟩
  | unsqueeze i _ hi =>
    have hsw := insertIdx_append_left bs ext i 1 hi
    have hB : GoodCall (.unsqueeze i) (bs ++ ext) (bs.insertIdx i 1 ++ ext) := by rw [← hsw]; exact GoodCall.unsqueeze i _ (by omega)
    suffices hA : ∃ nm3, opMeta (opOfCall (.unsqueeze i) (bs ++ ext)) (bs ++ ext) nm2 = .ok (some (bs.insertIdx i 1 ++ ext, nm3, .unsqueeze i)) by
      obtain ⟨nm3, hA⟩ := hA; exact ⟨nm3, _, hA, hB⟩
    simp only [opOfCall, opMeta]
    unfold unsqueezeMeta
    have h1 : ¬ ((i : Int) < 0) := by omega
    have hr : ¬ ((i : Int) > ((bs ++ ext).length : Nat) ∨ (i : Int) < 0) := by rw [hlen]; omega
    have hg1 : ¬ ((i : Int) > ((bs ++ ext).length : Nat)) := by rw [hlen]; omega
    simp only [h1, hg1, or_self, if_false, Int.toNat_natCast, hsw]
    exact ⟨_, rfl⟩
  | squeeze i _ hi h1 =>
    have hsw : (bs ++ ext).eraseIdx i = bs.eraseIdx i ++ ext := List.eraseIdx_append_of_lt_length hi ext
    have hg : (bs ++ ext).getD i 0 = 1 := by
      rw [List.getD_eq_getElem?_getD, List.getElem?_append_left hi, ← List.getD_eq_getElem?_getD]; exact h1
    have hB : GoodCall (.squeeze i) (bs ++ ext) (bs.eraseIdx i ++ ext) := by rw [← hsw]; exact GoodCall.squeeze i _ (by omega) hg
    suffices hA : ∃ nm3, opMeta (opOfCall (.squeeze i) (bs ++ ext)) (bs ++ ext) nm2 = .ok (some (bs.eraseIdx i ++ ext, nm3, .squeeze i)) by
      obtain ⟨nm3, hA⟩ := hA; exact ⟨nm3, _, hA, hB⟩
    simp only [opOfCall, opMeta]
    unfold squeezeMeta maybeCorrectNegDim
    have hn : ¬ ((i : Int) < 0) := by omega
    have hr : ¬ ((i : Int) < 0 ∨ (i : Int) ≥ ((bs ++ ext).length : Nat)) := by rw [hlen]; omega
    have hg1 : ¬ ((i : Int) ≥ ((bs ++ ext).length : Nat)) := by rw [hlen]; omega
    simp only [hn, hg1, or_self, if_false, bind, Except.bind, Int.toNat_natCast, hg, ne_eq, not_true_eq_false, pure, Except.pure, hsw]
    exact ⟨_, rfl⟩
  | flatten a b _ hab hb =>
    have e1 : (bs ++ ext).take a = bs.take a := by rw [List.take_append_of_le_length (by omega)]
    have e2 : ((bs ++ ext).drop a).take (b + 1 - a) = (bs.drop a).take (b + 1 - a) := by
      rw [List.drop_append_of_le_length (by omega), List.take_append_of_le_length (by simp; omega)]
    have e3 : (bs ++ ext).drop (b + 1) = bs.drop (b + 1) ++ ext := by rw [List.drop_append_of_le_length (by omega)]
    have hres : (bs ++ ext).take a ++ [prod (((bs ++ ext).drop a).take (b + 1 - a))] ++ (bs ++ ext).drop (b + 1)
        = (bs.take a ++ [prod ((bs.drop a).take (b + 1 - a))] ++ bs.drop (b + 1)) ++ ext := by
      rw [e1, e2, e3]; simp
    have hB : GoodCall (.flatten a b) (bs ++ ext) ((bs.take a ++ [prod ((bs.drop a).take (b + 1 - a))] ++ bs.drop (b + 1)) ++ ext) := by
      rw [← hres]; exact GoodCall.flatten a b _ hab (by omega)
    suffices hA : ∃ nm3, opMeta (opOfCall (.flatten a b) (bs ++ ext)) (bs ++ ext) nm2 = .ok (some ((bs.take a ++ [prod ((bs.drop a).take (b + 1 - a))] ++ bs.drop (b + 1)) ++ ext, nm3, .flatten a b)) by
      obtain ⟨nm3, hA⟩ := hA; exact ⟨nm3, _, hA, hB⟩
    simp only [opOfCall, opMeta]
    unfold flattenMeta
    have h1 : ¬ ((a : Int) < 0) := by omega
    have h2 : ¬ ((b : Int) < 0) := by omega
    have h3 : ¬ ((b : Int) ≥ ((bs ++ ext).length : Nat)) := by rw [hlen]; omega
    have h4 : ¬ ((b : Int) ≤ (a : Int)) := by omega
    simp only [h1, h2, h3, h4, if_false, Int.toNat_natCast, hres]
    exact ⟨_, rfl⟩


  | permute p _ hp hid =>
    have hpl : p.length = bs.length := by simpa using hp.length_eq
    have hpad := padPerm_perm p bs.length ext.length hp
    have hq : (p ++ List.range' bs.length ext.length).Perm (List.range (bs ++ ext).length) := by rw [hlen]; exact hpad
    have hqid : p ++ List.range' bs.length ext.length ≠ List.range (bs ++ ext).length := by
      intro h
      apply hid
      have : List.range (bs ++ ext).length = List.range bs.length ++ List.range' bs.length ext.length := by
        rw [hlen, List.range_eq_range', List.range_eq_range']
        have := List.range'_append (s := 0) (m := bs.length) (n := ext.length) (step := 1)
        simp at this; exact this.symm
      rw [this] at h
      exact List.append_inj_left h (by simp [hpl])
    have hshape : (p ++ List.range' bs.length ext.length).map (fun i => (bs ++ ext).getD i 0) = p.map (fun i => bs.getD i 0) ++ ext := by
      have h1 := permShape_take p bs.length ext.length (bs ++ ext) hp hlen
      have h2 := permShape_drop p bs.length ext.length (bs ++ ext) hp hlen
      have := (List.take_append_drop bs.length ((p ++ List.range' bs.length ext.length).map (fun i => (bs ++ ext).getD i 0))).symm
      rw [h1, h2] at this
      rw [this]; simp
    have hop : opOfCall (.permute p) (bs ++ ext) = .permute (natsToInts (p ++ List.range' bs.length ext.length)) := by
      simp only [opOfCall, hpl, hlen, Nat.add_sub_cancel_left]
    have hm := permuteMeta_of_perm_full (p ++ List.range' bs.length ext.length) (bs ++ ext) nm2 hq hqid
    refine ⟨nm2.map (fun l => (p ++ List.range' bs.length ext.length).map (fun i => l.getD i none)),
      .permute (p ++ List.range' bs.length ext.length), ?_, ?_⟩
    · simp only [hop, opMeta, hm, hshape]
    · rw [← hshape]; exact GoodCall.permute _ _ hq hqid
  | view _ _ hprod hne =>
    have hdrop : (bs ++ ext).drop bs.length = ext := by simp
    have hp2 : prod (bs' ++ ext) = prod (bs ++ ext) := by rw [prod_append, prod_append, hprod]
    have hne2 : bs' ++ ext ≠ bs ++ ext := fun h => hne (List.append_cancel_right h)
    refine ⟨none, .view (bs' ++ ext) (bs ++ ext).length, ?_, GoodCall.view _ _ hp2 hne2⟩
    simp only [opOfCall, opMeta, hdrop]
    unfold viewMeta
    simp only [natsToInts_any_neg, natsToInts_toNat, Bool.false_eq_true, if_false, bind, Except.bind, pure, Except.pure, hne2, if_true]
  | reshape _ _ hprod hne =>
    have hdrop : (bs ++ ext).drop bs.length = ext := by simp
    have hp2 : prod (bs' ++ ext) = prod (bs ++ ext) := by rw [prod_append, prod_append, hprod]
    have hne2 : bs' ++ ext ≠ bs ++ ext := fun h => hne (List.append_cancel_right h)
    refine ⟨none, .reshape (bs' ++ ext) (bs ++ ext).length, ?_, GoodCall.reshape _ _ hp2 hne2⟩
    simp only [opOfCall, opMeta, hdrop]
    unfold viewMeta
    simp only [natsToInts_any_neg, natsToInts_toNat, Bool.false_eq_true, if_false, bind, Except.bind, pure, Except.pure, hne2]

  | expand _ _ hl hc =>
    -- the nested tensordict is expanded to `bs' ++ ext`: its own extra dims are appended to the target shape
    have hsum : bs'.length + ext.length - (bs.length + ext.length) = bs'.length - bs.length := by omega
    have hc2 : ∀ i, i < (bs ++ ext).length →
        (bs ++ ext).getD i 0 = 1 ∨ (bs' ++ ext).getD ((bs' ++ ext).length - (bs ++ ext).length + i) 0 = (bs ++ ext).getD i 0 := by
      intro i hi
      simp only [List.length_append, hsum]
      by_cases hib : i < bs.length
      · have := hc i hib
        have e1 : (bs ++ ext).getD i 0 = bs.getD i 0 := by
          simp [List.getD_eq_getElem?_getD, List.getElem?_append_left hib]
        have e2 : (bs' ++ ext).getD (bs'.length - bs.length + i) 0 = bs'.getD (bs'.length - bs.length + i) 0 := by
          simp [List.getD_eq_getElem?_getD, List.getElem?_append_left (show bs'.length - bs.length + i < bs'.length by omega)]
        rw [e1, e2]; exact this
      · right
        have e1 : (bs ++ ext).getD i 0 = ext.getD (i - bs.length) 0 := by
          simp [List.getD_eq_getElem?_getD, List.getElem?_append_right (Nat.le_of_not_lt hib)]
        have e2 : (bs' ++ ext).getD (bs'.length - bs.length + i) 0 = ext.getD (i - bs.length) 0 := by
          rw [List.getD_eq_getElem?_getD, List.getElem?_append_right (by omega)]
          rw [show bs'.length - bs.length + i - bs'.length = i - bs.length by omega, ← List.getD_eq_getElem?_getD]
        rw [e1, e2]
    have hop : opOfCall (.expand bs' bs.length) (bs ++ ext) = .expand (natsToInts (bs' ++ ext)) := by
      simp only [opOfCall, hlen, Nat.add_sub_cancel_left]
      by_cases he : ext.length > 0
      · simp only [he, if_true]
        congr 2
        rw [show bs.length + ext.length - ext.length = bs.length by omega]; simp
      · have : ext = [] := List.eq_nil_of_length_eq_zero (by omega)
        subst this; simp
    have hm := expandMeta_nats (bs' ++ ext) (bs ++ ext) nm2 (by simp; omega) hc2
    refine ⟨nm2.map (fun l => List.replicate ((bs' ++ ext).length - (bs ++ ext).length) none ++ l),
      .expand (bs' ++ ext) (bs ++ ext).length, by simp only [hop, opMeta, hm], GoodCall.expand _ _ (by simp; omega) hc2⟩

/-- G3: whatever the batch arithmetic of transpose / unsqueeze / squeeze(dim) / flatten accepts (without returning `self`)
is a good call for the batch size it computed -/
theorem goodCall_of_meta (op : Op) (bs bs' : Shape) (nm nm' : Names) (call : LeafCall)
    (hop : match op with | .transpose _ _ => True | .unsqueeze _ => True | .squeeze (some _) => True | .flatten _ _ => True | _ => False)
    (h : opMeta op bs nm = .ok (some (bs', nm', call))) : GoodCall call bs bs' := by
  cases op with
  | transpose d0 d1 =>
    simp only [opMeta] at h
    unfold transposeMeta at h
    simp only [] at h
    generalize (if d0 < 0 then (bs.length : Int) + d0 else d0) = a at h
    generalize (if d1 < 0 then (bs.length : Int) + d1 else d1) = b at h
    by_cases hr : a < 0 ∨ b < 0 ∨ a ≥ (bs.length : Int) ∨ b ≥ (bs.length : Int)
    · rw [if_pos hr] at h; cases h
    · rw [if_neg hr] at h
      by_cases hne : (min a b).toNat = (max a b).toNat
      · rw [if_pos hne] at h; cases h
      · rw [if_neg hne] at h
        simp only [Except.ok.injEq, Option.some.injEq, Prod.mk.injEq] at h
        obtain ⟨rfl, _, rfl⟩ := h
        apply GoodCall.transpose <;> omega
  | unsqueeze d =>
    simp only [opMeta] at h
    unfold unsqueezeMeta at h
    simp only [] at h
    generalize (if d < 0 then (bs.length : Int) + d + 1 else d) = a at h
    by_cases hr : a > (bs.length : Int) ∨ a < 0
    · rw [if_pos hr] at h; cases h
    · rw [if_neg hr] at h
      simp only [Except.ok.injEq, Option.some.injEq, Prod.mk.injEq] at h
      obtain ⟨rfl, _, rfl⟩ := h
      apply GoodCall.unsqueeze; omega
  | squeeze d =>
    cases d with
    | none => exact absurd hop (by simp)
    | some d =>
      simp only [opMeta] at h
      unfold squeezeMeta maybeCorrectNegDim at h
      simp only [bind, Except.bind, pure, Except.pure] at h
      generalize (if d < 0 then (bs.length : Int) + d else d) = a at h
      by_cases hr : a < 0 ∨ a ≥ (bs.length : Int)
      · rw [if_pos hr] at h; cases h
      · rw [if_neg hr] at h
        simp only [] at h
        by_cases h1 : bs.getD a.toNat 0 ≠ 1
        · rw [if_pos h1] at h; cases h
        · rw [if_neg h1] at h
          simp only [Except.ok.injEq, Option.some.injEq, Prod.mk.injEq] at h
          obtain ⟨rfl, _, rfl⟩ := h
          apply GoodCall.squeeze
          · omega
          · simpa using h1
  | flatten a b =>
    simp only [opMeta] at h
    unfold flattenMeta at h
    simp only [] at h
    generalize (if a < 0 then (bs.length : Int) + a else a) = s at h
    generalize (if b < 0 then (bs.length : Int) + b else b) = e at h
    by_cases h1 : s < 0
    · rw [if_pos h1] at h; cases h
    · rw [if_neg h1] at h
      by_cases h2 : e < 0
      · rw [if_pos h2] at h; cases h
      · rw [if_neg h2] at h
        by_cases h3 : e ≥ (bs.length : Int)
        · rw [if_pos h3] at h; cases h
        · rw [if_neg h3] at h
          by_cases h4 : e ≤ s
          · rw [if_pos h4] at h; cases h
          · rw [if_neg h4] at h
            simp only [Except.ok.injEq, Option.some.injEq, Prod.mk.injEq] at h
            obtain ⟨rfl, _, rfl⟩ := h
            apply GoodCall.flatten <;> omega
  | permute _ => exact absurd hop (by simp)
  | unflatten _ _ => exact absurd hop (by simp)
  | view _ => exact absurd hop (by simp)
  | reshape _ => exact absurd hop (by simp)
  | expand _ => exact absurd hop (by simp)


theorem prefix_split (bs bs2 : Shape) (h : bs2.take bs.length = bs) : ∃ ext, bs2 = bs ++ ext :=
  ⟨bs2.drop bs.length, by
    have := (List.take_append_drop bs.length bs2).symm
    rw [h] at this; exact this⟩

theorem goodCall_not_unflatten (call : LeafCall) (bs bs' : Shape) (g : GoodCall call bs bs') (bs2 : Shape) :
    ∀ d sz, opOfCall call bs2 ≠ .unflatten d sz := by
  intro d sz
  cases g <;> simp [opOfCall]



theorem goodCall_of_meta_permute (dims : List Int) (bs bs' : Shape) (nm nm' : Names) (call : LeafCall)
    (h : opMeta (.permute dims) bs nm = .ok (some (bs', nm', call))) : GoodCall call bs bs' := by
  simp only [opMeta] at h
  unfold permuteMeta at h
  simp only [] at h
  generalize hdl : dims.map (fun d => if d ≥ 0 then d else (bs.length : Int) + d) = dl at h
  by_cases h1 : dl.any (fun d => d < 0 ∨ d ≥ (bs.length : Int)) = true
  · rw [if_pos h1] at h; cases h
  · rw [if_neg h1] at h
    by_cases h2 : dl.length ≠ bs.length
    · rw [if_pos h2] at h; cases h
    · rw [if_neg h2] at h
      by_cases h3 : (dl.map Int.toNat).mergeSort ≠ List.range (dl.map Int.toNat).length
      · rw [if_pos h3] at h; cases h
      · rw [if_neg h3] at h
        by_cases h4 : (dl.map Int.toNat).length = 0 ∧ bs.length = 0
        · rw [if_pos h4] at h; cases h
        · rw [if_neg h4] at h
          by_cases h5 : dl.map Int.toNat = List.range (dl.map Int.toNat).length
          · rw [if_pos h5] at h; cases h
          · rw [if_neg h5] at h
            simp only [Except.ok.injEq, Option.some.injEq, Prod.mk.injEq] at h
            obtain ⟨rfl, _, rfl⟩ := h
            have hpl : (dl.map Int.toNat).length = bs.length := by simp; omega
            have hperm := perm_range_of_mergeSort (dl.map Int.toNat) (by simpa using h3)
            rw [hpl] at hperm h5
            rw [hpl, List.drop_length, List.append_nil]
            exact GoodCall.permute _ _ hperm h5

theorem goodCall_of_meta_view (v : Bool) (shape : List Int) (bs bs' : Shape) (nm nm' : Names) (call : LeafCall)
    (hprod : prod bs' = prod bs)
    (h : viewMeta v shape bs nm = .ok (some (bs', nm', call))) : GoodCall call bs bs' := by
  have key : ∀ sh : Shape, (if sh = bs then (Except.ok none : Except Err (Option (Shape × Names × LeafCall)))
      else Except.ok (some (sh, none, if v = true then LeafCall.view sh bs.length else LeafCall.reshape sh bs.length)))
      = .ok (some (bs', nm', call)) → GoodCall call bs bs' := by
    intro sh h
    by_cases hs : sh = bs
    · rw [if_pos hs] at h; cases h
    · rw [if_neg hs] at h
      simp only [Except.ok.injEq, Option.some.injEq, Prod.mk.injEq] at h
      obtain ⟨rfl, _, rfl⟩ := h
      cases v
      · exact GoodCall.reshape _ _ hprod hs
      · exact GoodCall.view _ _ hprod hs
  unfold viewMeta at h
  simp only [bind, Except.bind, pure, Except.pure] at h
  by_cases hneg : shape.any (· < 0) = true
  · simp only [hneg, if_true] at h
    cases hi : inferSizeImpl shape (prod bs) with
    | error e => simp [hi] at h
    | ok sh => simp only [hi] at h; exact key sh h
  · simp only [hneg, Bool.false_eq_true, if_false] at h
    exact key _ h


variable {α : Type} in
theorem goodCall_of_meta_expand (shape : List Int) (bs bs' : Shape) (nm nm' : Names) (call : LeafCall)
    (h : opMeta (.expand shape) bs nm = .ok (some (bs', nm', call))) : GoodCall call bs bs' := by
  simp only [opMeta] at h
  unfold expandMeta at h
  simp only [bind, Except.bind, pure, Except.pure, throw, throwThe, MonadExceptOf.throw] at h
  by_cases h1 : shape.length < bs.length
  · rw [if_pos h1] at h; cases h
  rw [if_neg h1] at h
  cases hr : expandResolve bs shape with
  | error e => simp [hr] at h
  | ok sh =>
    simp only [hr] at h
    have hlen : sh.length = shape.length := ((expandResolve_eq_rule bs shape sh).1 hr).1
    have hl : bs.length ≤ sh.length := by omega
    by_cases h2 : ((bs.zip (sh.drop (sh.length - bs.length))).any (fun x => decide (x.1 ≠ 1 ∧ x.2 ≠ x.1))) = true
    · rw [if_pos h2] at h; cases h
    rw [if_neg h2] at h
    simp only [Except.ok.injEq, Option.some.injEq, Prod.mk.injEq] at h
    obtain ⟨rfl, _, rfl⟩ := h
    have hchk := (expand_check_iff bs sh hl).1 (by simpa using h2)
    refine GoodCall.expand sh bs hl ?_
    intro i hi
    have := hchk (sh.length - bs.length + i) (by omega) (by omega)
    rw [show sh.length - bs.length + i - (sh.length - bs.length) = i by omega] at this
    exact this


end TdVerif.C02
