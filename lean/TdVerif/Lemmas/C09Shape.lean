/-
  Helper lemmas for the C09 shape model.
-/
import TdVerif.Model.C09Shape

namespace TdVerif.C09
variable {α : Type}

/-- reducing batch dims of a leaf leaves the feature dims alone -/
theorem reduceShape_append (batch feat : Shape) (ds : List Nat) (keep : Bool)
    (h : ∀ d ∈ ds, d < batch.length) :
    reduceShape (batch ++ feat) ds keep = reduceShape batch ds keep ++ feat := by
  have hfeat : ∀ p ∈ feat.zipIdx batch.length, ds.contains p.2 = false := by
    intro p hp
    have := List.mem_zipIdx hp
    cases hc : ds.contains p.2 with
    | false => rfl
    | true =>
      have := h p.2 (by simpa using hc)
      omega
  unfold reduceShape
  cases keep with
  | true =>
    simp only [↓reduceIte, List.zipIdx_append, List.map_append]
    congr 1
    have : (feat.zipIdx (0 + batch.length)).map (fun p => if ds.contains p.2 = true then 1 else p.1)
        = (feat.zipIdx (0 + batch.length)).map (·.1) := by
      apply List.map_congr_left
      intro p hp
      have := hfeat p (by simpa using hp)
      simp only [this]; simp
    rw [this]; simp
  | false =>
    simp only [Bool.false_eq_true, ↓reduceIte, List.zipIdx_append, List.filter_append, List.map_append]
    congr 1
    have : (feat.zipIdx (0 + batch.length)).filter (fun p => !ds.contains p.2) = feat.zipIdx (0 + batch.length) := by
      rw [List.filter_eq_self]
      intro p hp
      have := hfeat p (by simpa using hp)
      simp only [this]; simp
    rw [this]; simp

theorem correctNegDim_lt (d : Int) (ndim n : Nat) (h : correctNegDim d ndim = .ok n) : n < ndim := by
  unfold correctNegDim at h
  simp only at h
  by_cases hc : (if d < 0 then (ndim : Int) + d else d) < 0 ∨ (if d < 0 then (ndim : Int) + d else d) ≥ ndim
  · simp [hc] at h
  · simp only [hc, ↓reduceIte] at h
    injection h with h
    split at hc <;> split at h <;> omega

theorem mapM_correct_lt (ds : List Int) (ndim : Nat) (ns : List Nat)
    (h : mapMExcept (fun d => correctNegDim d ndim) ds = .ok ns) : ∀ n ∈ ns, n < ndim := by
  induction ds generalizing ns with
  | nil => simp [mapMExcept] at h; subst h; simp
  | cons d rest ih =>
    simp only [mapMExcept] at h
    cases hd : correctNegDim d ndim with
    | error e => simp [hd] at h
    | ok n =>
      simp only [hd] at h
      cases hr : mapMExcept (fun d => correctNegDim d ndim) rest with
      | error e => simp [hr] at h
      | ok ns' =>
        simp only [hr] at h; injection h with h; subst h
        intro m hm
        rcases List.mem_cons.mp hm with e | hm'
        · subst e; exact correctNegDim_lt d ndim _ hd
        · exact ih ns' hr m hm'

theorem procDim_range (cfg : RedCfg) (dim : DimArg) (ndim : Nat) (p : PDim) (h : procDim cfg dim ndim = .ok p) :
    (∀ d, p = .one d → d < ndim) ∧ (∀ ds, p = .many ds → ∀ d ∈ ds, d < ndim) := by
  unfold procDim at h
  cases dim with
  | noDefault => simp at h; subst h; simp
  | none => simp at h; split at h <;> simp at h; subst h; simp
  | feature => simp at h; subst h; simp
  | int d =>
    simp only at h
    cases hd : correctNegDim d ndim with
    | error e => simp [hd] at h
    | ok n =>
      simp only [hd] at h
      have := correctNegDim_lt d ndim n hd
      split at h <;> (injection h with h; subst h; simp; try exact this)
  | tuple ds =>
    simp only at h
    split at h
    · cases hm : mapMExcept (fun d => correctNegDim d ndim) ds with
      | error e => simp [hm] at h
      | ok ns =>
        simp only [hm] at h; injection h with h; subst h
        simp; exact mapM_correct_lt ds ndim ns hm
    · cases h

theorem unsqueezeLastN_shape (t : T α) (n : Nat) : (t.unsqueezeLastN n).shape = t.shape ++ List.replicate n 1 := by
  induction n generalizing t with
  | zero => simp [T.unsqueezeLastN]
  | succ n ih =>
    simp only [T.unsqueezeLastN, ih, T.unsqueezeLast, List.append_assoc]
    congr 1

theorem unsqueezeLastN_get (t : T α) (n : Nat) (c : List Nat) :
    (t.unsqueezeLastN n).get c = t.get (c.take (c.length - n)) := by
  induction n generalizing t with
  | zero => simp [T.unsqueezeLastN]
  | succ n ih =>
    simp only [T.unsqueezeLastN, ih, T.unsqueezeLast]
    congr 1
    rw [List.dropLast_eq_take, List.take_take]
    congr 1
    simp; omega

/-- the coordinate of the source read for result coordinate `c`: the *leading* `rank` coordinates of `c`
(size-1 dims read at 0) -/
def leadingCoord (src : Shape) (c : List Nat) : List Nat :=
  List.zipWith (fun d i => if d = 1 then 0 else i) src (c.take src.length)

theorem leadingCoord_congr (s : Shape) (c c' : List Nat) (h : c.take s.length = c'.take s.length) :
    leadingCoord s c = leadingCoord s c' := by simp [leadingCoord, h]

end TdVerif.C09
