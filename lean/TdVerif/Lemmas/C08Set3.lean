/-
  C08 — writes with an item on the stack dim whose result occupies ANY number of dims
  (`set_stack_gen`), instantiated for a rank-2 integer tensor (`set_two_case`,
  `setitem_refines_tens2`).
-/
import TdVerif.Lemmas.C08Set
namespace TdVerif.C08

theorem InB_append_iff : ∀ (a b : Shape) (o : List Nat),
    InB o (a ++ b) ↔ InB (o.take a.length) a ∧ InB (o.drop a.length) b
  | [], b, o => by simp [InB]
  | x :: a, b, [] => by simp [InB]
  | x :: a, b, y :: o => by
    simp only [List.cons_append, InB, List.length_cons, List.take_succ_cons, List.drop_succ_cons]
    rw [InB_append_iff a b o]
    constructor
    · intro ⟨h1, h2, h3⟩; exact ⟨⟨h1, h2⟩, h3⟩
    · intro ⟨⟨h1, h2⟩, h3⟩; exact ⟨h1, h2, h3⟩

theorem InB_append_mk (a b : Shape) (x y : List Nat) (hx : InB x a) (hy : InB y b) : InB (x ++ y) (a ++ b) := by
  rw [InB_append_iff]
  have hl := InB.length hx
  rw [← hl]
  simpa using ⟨hx, hy⟩

end TdVerif.C08
namespace TdVerif.C08

theorem take_drop_three (o : List Nat) (p r : Nat) :
    o.take p ++ ((o.drop p).take r ++ o.drop (p + r)) = o := by
  rw [← List.drop_drop, List.take_append_drop, List.take_append_drop]

theorem take_append_len {β} (a b : List β) (p : Nat) (h : a.length = p) : (a ++ b).take p = a := by
  subst h; simp

theorem drop_append_len {β} (a b : List β) (p : Nat) (h : a.length = p) : (a ++ b).drop p = b := by
  subst h; simp

theorem take_append_mid (a m b : List Nat) (p : Nat) (h : a.length = p) :
    ((a ++ (m ++ b)).drop p).take m.length = m ∧ (a ++ (m ++ b)).take p = a ∧
      (a ++ (m ++ b)).drop (p + m.length) = b := by
  subst h
  refine ⟨by simp, by simp, ?_⟩
  rw [← List.drop_drop]; simp

/-- T-level write refinement for ANY item on the stack dim whose result occupies `ish.length`
dims at position `pos` (a slice: 1, an integer tensor of rank r: r): writing `v` through the index
on the dense stack is writing, for every middle coordinate `mid`, the piece of `v` at `mid` into
member `ids mid` through the member index — and leaving the other members alone. -/
theorem set_stack_gen [Inhabited α] (ms ms' : List (T α)) (sh : Shape) (sd : Nat) (ix : List Ix)
    (hsh : ∀ m ∈ ms, m.shape = sh) (hne : ms ≠ []) (hsd : sd ≤ sh.length) (hp : PlainM sd ix)
    (s so : Shape) (hs : idxShape ix (sh.insertIdx sd ms.length) = some s)
    (hso : idxShape (splitRec sd ix).out sh = some so) (hpos : (splitRec sd ix).pos ≤ so.length)
    (ish : Shape) (ids : List Nat → Nat)
    (hrank : ((splitRec sd ix).item.getD Ix.full).outRank = ish.length)
    (hishape : itemShape ((splitRec sd ix).item.getD Ix.full) ms.length = some ish)
    (hmid : ∀ mid, itemCoord ((splitRec sd ix).item.getD Ix.full) ms.length mid = ids mid)
    (v : T α) (hv : v.shape = s)
    (hlen' : ms'.length = ms.length)
    (hsel : ∀ mid, InB mid ish → ∃ (h : ids mid < ms.length) (piece : T α), piece.shape = so ∧
      (∀ c, InB c so → piece.get c = v.get (c.take (splitRec sd ix).pos ++ (mid ++ c.drop (splitRec sd ix).pos))) ∧
      IsSetT (splitRec sd ix).out (ms[ids mid]) piece (ms'[ids mid]'(hlen' ▸ h)))
    (hnot : ∀ i (h : i < ms.length), (∀ mid, InB mid ish → ids mid ≠ i) → ms'[i]'(hlen' ▸ h) = ms[i]) :
    IsSetT ix (T.stack ms sd) v (T.stack ms' sd) := by
  have hhead := head_shape_of_all ms sh hsh hne
  have hsplit := shape_splitM ms.length ix sd sh hsd hp
  rw [hs, hso, hishape] at hsplit
  simp only [Option.bind_some, Option.map_some, Option.some.injEq] at hsplit
  have hs3 : s = so.take (splitRec sd ix).pos ++ (ish ++ so.drop (splitRec sd ix).pos) := by
    rw [hsplit, List.append_assoc]
  have hposl : (so.take (splitRec sd ix).pos).length = (splitRec sd ix).pos := by simp [hpos]
  have hso3 : so = so.take (splitRec sd ix).pos ++ so.drop (splitRec sd ix).pos := (List.take_append_drop _ _).symm
  -- decomposition of a value coordinate
  have hdec : ∀ o, InB o s → InB (o.take (splitRec sd ix).pos) (so.take (splitRec sd ix).pos) ∧
      InB ((o.drop (splitRec sd ix).pos).take ish.length) ish ∧
      InB (o.drop ((splitRec sd ix).pos + ish.length)) (so.drop (splitRec sd ix).pos) := by
    intro o ho
    rw [hs3, InB_append_iff, hposl] at ho
    obtain ⟨h1, h2⟩ := ho
    rw [InB_append_iff] at h2
    refine ⟨h1, h2.1, ?_⟩
    have := h2.2
    rwa [List.drop_drop] at this
  have hrest : ∀ o, InB o s →
      InB (o.take (splitRec sd ix).pos ++ o.drop ((splitRec sd ix).pos + ish.length)) so := by
    intro o ho
    obtain ⟨h1, _, h3⟩ := hdec o ho
    have := InB_append_mk _ _ _ _ h1 h3
    rwa [← hso3] at this
  -- every member keeps its shape
  have hshape' : ∀ i (h : i < ms.length), (ms'[i]'(hlen' ▸ h)).shape = sh := by
    intro i h
    by_cases hex : ∃ mid, InB mid ish ∧ ids mid = i
    · obtain ⟨mid, hm, rfl⟩ := hex
      obtain ⟨h', piece, _, _, hset⟩ := hsel mid hm
      rw [hset.shape]; exact hsh _ (List.getElem_mem _)
    · rw [hnot i h (fun mid hm hij => hex ⟨mid, hm, hij⟩)]; exact hsh _ (List.getElem_mem _)
  have hne' : ms' ≠ [] := by
    intro h; rw [h] at hlen'; exact hne (List.length_eq_zero_iff.mp hlen'.symm)
  have hhead' : (ms'.head?.map T.shape).getD [] = sh := by
    apply head_shape_of_all ms' sh _ hne'
    intro m hm
    obtain ⟨i, hi, rfl⟩ := List.getElem_of_mem hm
    exact hshape' i (hlen' ▸ hi)
  have hSt : (T.stack ms sd).shape = sh.insertIdx sd ms.length := by rw [T.stack_shape, hhead]
  refine ⟨by rw [T.stack_shape, T.stack_shape, hhead, hhead', hlen'], ?_, ?_⟩
  · -- hit
    intro o ho
    rw [hv] at ho
    rw [hSt]
    have hfit := fits_of_inB ix _ s o hs ho
    obtain ⟨h1, h2⟩ := coord_splitM ms.length ix sd sh o hsd hp hfit
    rw [hrank, hmid] at h1
    rw [hrank] at h2
    obtain ⟨_, hmidB, _⟩ := hdec o ho
    obtain ⟨hlt, piece, hps, hpg, hset⟩ := hsel _ hmidB
    rw [T.stack_get, h1, h2, List.getElem?_eq_getElem (hlen' ▸ hlt), Option.getD_some]
    have hc' := hrest o ho
    have := hset.hit _ (hps ▸ hc')
    rw [hsh _ (List.getElem_mem _)] at this
    rw [this, hpg _ hc']
    congr 1
    have hol : (splitRec sd ix).pos ≤ o.length := by
      have := InB.length ho
      rw [this, hs3]; simp; omega
    have htl : (o.take (splitRec sd ix).pos).length = (splitRec sd ix).pos := by simp [hol]
    have e1 := take_append_len (o.take (splitRec sd ix).pos) (o.drop ((splitRec sd ix).pos + ish.length)) _ htl
    have e2 := drop_append_len (o.take (splitRec sd ix).pos) (o.drop ((splitRec sd ix).pos + ish.length)) _ htl
    rw [e1, e2]
    exact take_drop_three o _ _
  · -- frame
    intro c hc hno
    rw [hSt] at hc hno
    have hi : at0 c sd < ms.length := InB.at0_lt_of_insert c sh sd ms.length hsd hc
    have hc' : InB (c.eraseIdx sd) sh := by
      have := InB.eraseIdx sd hc
      rwa [List.eraseIdx_insertIdx_self] at this
    rw [T.stack_get, T.stack_get, List.getElem?_eq_getElem (hlen' ▸ hi), List.getElem?_eq_getElem hi,
      Option.getD_some, Option.getD_some]
    by_cases hex : ∃ mid, InB mid ish ∧ ids mid = at0 c sd
    · obtain ⟨mid, hm, hij⟩ := hex
      obtain ⟨hlt, piece, hps, hpg, hset⟩ := hsel mid hm
      have hfr := hset.frame (c.eraseIdx sd) (by rw [hsh _ (List.getElem_mem _)]; exact hc') (by
        intro o' ho' heq
        rw [hps] at ho'
        -- the value coordinate that would hit `c`
        have ho3 : InB (o'.take (splitRec sd ix).pos) (so.take (splitRec sd ix).pos) ∧
            InB (o'.drop (splitRec sd ix).pos) (so.drop (splitRec sd ix).pos) := by
          have := ho'
          rw [hso3, InB_append_iff, hposl] at this
          exact this
        have hoI : InB (o'.take (splitRec sd ix).pos ++ (mid ++ o'.drop (splitRec sd ix).pos)) s := by
          rw [hs3]
          exact InB_append_mk _ _ _ _ ho3.1 (InB_append_mk _ _ _ _ hm ho3.2)
        apply hno _ (hv ▸ hoI)
        have hfit := fits_of_inB ix _ s _ hs hoI
        obtain ⟨h1, h2⟩ := coord_splitM ms.length ix sd sh _ hsd hp hfit
        have hol : (o'.take (splitRec sd ix).pos).length = (splitRec sd ix).pos := by
          rw [InB.length ho3.1]; exact hposl
        have hml : mid.length = ish.length := InB.length hm
        obtain ⟨t1, t2, t3⟩ := take_append_mid (o'.take (splitRec sd ix).pos) mid (o'.drop (splitRec sd ix).pos) _ hol
        rw [hrank, ← hml, t1, hmid] at h1
        rw [hrank, ← hml, t2, t3, List.take_append_drop] at h2
        rw [hsh _ (List.getElem_mem _)] at heq
        apply eq_of_at0_eraseIdx _ _ sd
        · rw [idxCoord_length ix _ s _ hs hoI, InB.length hc]
        · rw [idxCoord_length ix _ s _ hs hoI, List.length_insertIdx_of_le_length hsd]; omega
        · rw [h1, hij]
        · rw [h2, heq])
      have e1 : ms'[at0 c sd]'(hlen' ▸ hi) = ms'[ids mid]'(hlen' ▸ hlt) := by congr 1; exact hij.symm
      have e2 : ms[at0 c sd] = ms[ids mid] := by congr 1; exact hij.symm
      rw [e1, e2]; exact hfr
    · rw [hnot _ hi (fun mid hm hij => hex ⟨mid, hm, hij⟩)]

end TdVerif.C08
namespace TdVerif.C08

theorem InB_two (mid : List Nat) (k1 k2 : Nat) (h : InB mid [k1, k2]) :
    ∃ a b, mid = [a, b] ∧ a < k1 ∧ b < k2 := by
  match mid, h with
  | [a, b], h => exact ⟨a, b, rfl, h.1, h.2.1⟩

theorem nodup_flatMap_range2 (f : Nat → Nat → Nat) (k2 : Nat) : ∀ (k1 : Nat),
    (∀ a b a' b', a < k1 → b < k2 → a' < k1 → b' < k2 → f a b = f a' b' → a = a' ∧ b = b') →
    ((List.range k1).flatMap fun a => (List.range k2).map fun b => f a b).Nodup
  | 0, _ => by simp
  | k + 1, hinj => by
    rw [List.range_succ, List.flatMap_append]
    simp only [List.flatMap_cons, List.flatMap_nil, List.append_nil]
    rw [List.nodup_append]
    refine ⟨nodup_flatMap_range2 f k2 k (fun a b a' b' ha hb ha' hb' h => hinj a b a' b' (by omega) hb (by omega) hb' h),
      nodup_map_range _ k2 (fun b b' hb hb' h => (hinj k b k b' (by omega) hb (by omega) hb' h).2), ?_⟩
    intro x hx y hy hxy
    simp only [List.mem_flatMap, List.mem_map, List.mem_range] at hx hy
    obtain ⟨a, ha, b, hb, rfl⟩ := hx
    obtain ⟨b', hb', rfl⟩ := hy
    have := (hinj a b k b' (by omega) hb (by omega) hb' hxy).1
    omega

end TdVerif.C08
namespace TdVerif.C08

/-- TensorDict-level write refinement for a rank-2 integer tensor (distinct entries) on the stack dim -/
theorem set_two_case [Inhabited α] (L : Lazy α) (b : Shape) (keys : List String) (feat : String → Shape)
    (hU : Uniform L b keys feat) (hne : L.members ≠ []) (ix : List Ix) (hp : Plain L.sd ix)
    (bd : Shape) (hbd : idxShape ix (b.insertIdx L.sd L.members.length) = some bd)
    (t : T Int) (k1 k2 : Nat) (hit : (splitRec L.sd ix).item.getD Ix.full = .tens t) (hkt : t.shape = [k1, k2])
    (hok : tensOk t L.members.length = true)
    (hinj : ∀ a b' a' b'', a < k1 → b' < k2 → a' < k1 → b'' < k2 →
      (normInt (t.get [a, b']) L.members.length).getD 0 = (normInt (t.get [a', b'']) L.members.length).getD 0 →
      a = a' ∧ b' = b'')
    (hnd : NoDupTargets (splitRec L.sd ix).out)
    (v : TD α) (hvk : v.keys = keys)
    (hvl : ∀ k ∈ keys, (v.leaf k).shape = bd ++ feat k)
    (ms' : List (TD α))
    (hw : writeAll (splitRec L.sd ix).out
      ((List.range k1).flatMap fun a => (List.range k2).map fun b' =>
        ((normInt (t.get [a, b']) L.members.length).getD 0,
         (v.select (splitRec L.sd ix).pos a).select (splitRec L.sd ix).pos b')) L.members = some ms') :
    Uniform ⟨ms', L.sd⟩ b keys feat ∧ ms'.length = L.members.length ∧
    ∀ k ∈ keys, IsSetT ix ((absL L).leaf k) (v.leaf k) ((absL (⟨ms', L.sd⟩ : Lazy α)).leaf k) := by
  have hpm := Plain.toM ix L.sd hp
  have hnodup : (((List.range k1).flatMap fun a => (List.range k2).map fun b' =>
        ((normInt (t.get [a, b']) L.members.length).getD 0,
         (v.select (splitRec L.sd ix).pos a).select (splitRec L.sd ix).pos b')).map Prod.fst).Nodup := by
    rw [List.map_flatMap]
    simp only [List.map_map, Function.comp]
    exact nodup_flatMap_range2 (fun a b' => (normInt (t.get [a, b']) L.members.length).getD 0) k2 k1 hinj
  obtain ⟨hlen', hsel, hnot⟩ := writeAll_spec _ _ _ _ hw hnodup
  have hselab : ∀ a b', a < k1 → b' < k2 →
      ∃ (h : (normInt (t.get [a, b']) L.members.length).getD 0 < L.members.length) (m' : TD α),
      (L.members[(normInt (t.get [a, b']) L.members.length).getD 0]).setitem (splitRec L.sd ix).out
        ((v.select (splitRec L.sd ix).pos a).select (splitRec L.sd ix).pos b') = some m' ∧
      ms'[(normInt (t.get [a, b']) L.members.length).getD 0]? = some m' := by
    intro a b' ha hb
    exact hsel (_, _) (List.mem_flatMap.mpr ⟨a, List.mem_range.mpr ha, List.mem_map.mpr ⟨b', List.mem_range.mpr hb, rfl⟩⟩)
  have hnotj : ∀ i, (∀ a b', a < k1 → b' < k2 → (normInt (t.get [a, b']) L.members.length).getD 0 ≠ i) →
      ms'[i]? = L.members[i]? := by
    intro i h
    apply hnot
    rw [List.map_flatMap]
    simp only [List.map_map, Function.comp, List.mem_flatMap, List.mem_map, List.mem_range, not_exists, not_and]
    intro a ha b' hb heq
    exact h a b' ha hb heq
  have hsplit := shape_splitM L.members.length ix L.sd b hU.hsd hpm
  rw [hbd] at hsplit
  cases hso : idxShape (splitRec L.sd ix).out b with
  | none => simp [hso] at hsplit
  | some so =>
  have hpos := pos_leM ix L.sd b so hU.hsd hpm hso
  have hish : itemShape ((splitRec L.sd ix).item.getD Ix.full) L.members.length = some [k1, k2] := by
    simp [hit, itemShape, hkt, hok]
  have hsp := hsplit
  rw [hso, hish] at hsp
  simp only [Option.bind_some, Option.map_some, Option.some.injEq] at hsp
  have hbd2 : bd = (so.insertIdx (splitRec L.sd ix).pos k2).insertIdx (splitRec L.sd ix).pos k1 := by
    rw [hsp, insertIdx_twice _ _ _ _ hpos]
  -- what a selected member becomes
  have hselm : ∀ a b' (ha : a < k1) (hb : b' < k2),
      ∃ (h : (normInt (t.get [a, b']) L.members.length).getD 0 < L.members.length) (m' : TD α),
      ms'[(normInt (t.get [a, b']) L.members.length).getD 0]? = some m' ∧ m'.batch = b ∧ m'.keys = keys ∧
      ∀ k ∈ keys, m'.leaf k = setT (splitRec L.sd ix).out ((L.members[(normInt (t.get [a, b']) L.members.length).getD 0]).leaf k)
        (((v.leaf k).select (splitRec L.sd ix).pos a).select (splitRec L.sd ix).pos b') := by
    intro a b' ha hb
    obtain ⟨h, m', hset, hget⟩ := hselab a b' ha hb
    obtain ⟨so', _, _, _, hb', hk', hl'⟩ := TD.setitem_some _ _ _ _ hset
    have hmem : L.members[(normInt (t.get [a, b']) L.members.length).getD 0] ∈ L.members := List.getElem_mem h
    refine ⟨h, m', hget, by rw [hb', hU.hbatch _ hmem], by rw [hk', hU.hkeys _ hmem], ?_⟩
    intro k hk
    rw [hl' k]
    have : ((v.select (splitRec L.sd ix).pos a).select (splitRec L.sd ix).pos b').keys.contains k = true := by
      show v.keys.contains k = true
      rw [hvk]; simpa using hk
    rw [if_pos this]; rfl
  have hmem' : ∀ m ∈ ms', m.batch = b ∧ m.keys = keys ∧ ∀ k ∈ keys, (m.leaf k).shape = b ++ feat k := by
    intro m hm
    obtain ⟨i, hi, rfl⟩ := List.getElem_of_mem hm
    have hi' : i < L.members.length := hlen' ▸ hi
    by_cases hex : ∃ a b', a < k1 ∧ b' < k2 ∧ (normInt (t.get [a, b']) L.members.length).getD 0 = i
    · obtain ⟨a, b', ha, hb, rfl⟩ := hex
      obtain ⟨h, m', hget, hb', hk', hl'⟩ := hselm a b' ha hb
      rw [List.getElem?_eq_getElem hi] at hget
      have hmm := Option.some.inj hget
      rw [hmm]
      refine ⟨hb', hk', ?_⟩
      intro k hk
      rw [hl' k hk]
      exact hU.hleaf _ (List.getElem_mem h) k hk
    · have := hnotj i (fun a b' ha hb hij => hex ⟨a, b', ha, hb, hij⟩)
      rw [List.getElem?_eq_getElem hi, List.getElem?_eq_getElem hi'] at this
      have hmm : ms'[i] = L.members[i] := Option.some.inj this
      rw [hmm]
      have hmem : L.members[i] ∈ L.members := List.getElem_mem hi'
      exact ⟨hU.hbatch _ hmem, hU.hkeys _ hmem, hU.hleaf _ hmem⟩
  refine ⟨⟨fun m hm => (hmem' m hm).1, fun m hm => (hmem' m hm).2.1, fun m hm => (hmem' m hm).2.2, hU.hsd⟩,
    hlen', ?_⟩
  intro k hk
  show IsSetT ix (T.stack (L.members.map fun m => m.leaf k) L.sd) (v.leaf k)
    (T.stack (ms'.map fun m => m.leaf k) L.sd)
  have hms : (L.members.map fun m => m.leaf k).length = L.members.length := by simp
  have hbdf : idxShape ix ((b ++ feat k).insertIdx L.sd (L.members.map fun m => m.leaf k).length)
      = some (bd ++ feat k) := by
    rw [hms, insertIdx_append_of_le _ _ _ _ hU.hsd]; exact idxShape_append _ _ _ _ hbd
  have hsof := idxShape_append (feat k) _ _ _ hso
  have hposf : (splitRec L.sd ix).pos ≤ (so ++ feat k).length := by simp; omega
  apply set_stack_gen (L.members.map fun m => m.leaf k) (ms'.map fun m => m.leaf k) (b ++ feat k) L.sd ix
    (by
      intro t' ht
      simp only [List.mem_map] at ht
      obtain ⟨m, hm, rfl⟩ := ht
      exact hU.hleaf m hm k hk)
    (by simpa using hne)
    (by simp; have := hU.hsd; omega) hpm (bd ++ feat k) (so ++ feat k) hbdf hsof hposf
    [k1, k2] (fun mid => (normInt (t.get mid) L.members.length).getD 0)
    (by rw [hit]; show t.shape.length = 2; rw [hkt]; rfl) (by rw [hms]; exact hish) (by intro mid; rw [hms]; simp [hit, itemCoord])
    (v.leaf k) (hvl k hk) (by simp [hlen'])
  · intro mid hmid
    obtain ⟨a, b', rfl, ha, hb⟩ := InB_two mid k1 k2 hmid
    obtain ⟨h, m', hget, hb', hk', hl'⟩ := hselm a b' ha hb
    have hi : (normInt (t.get [a, b']) L.members.length).getD 0 < ms'.length := hlen' ▸ h
    rw [List.getElem?_eq_getElem hi] at hget
    have hmm := Option.some.inj hget
    have hvs : (((v.leaf k).select (splitRec L.sd ix).pos a).select (splitRec L.sd ix).pos b').shape = so ++ feat k := by
      show ((v.leaf k).shape.eraseIdx _).eraseIdx _ = _
      rw [hvl k hk, hbd2, ← insertIdx_append_of_le _ _ _ _ (by rw [List.length_insertIdx_of_le_length hpos]; omega),
        List.eraseIdx_insertIdx_self, ← insertIdx_append_of_le _ _ _ _ hpos, List.eraseIdx_insertIdx_self]
    refine ⟨by rw [hms]; exact h, _, hvs, ?_, ?_⟩
    · intro c hc
      show (v.leaf k).get ((c.insertIdx (splitRec L.sd ix).pos b').insertIdx (splitRec L.sd ix).pos a) = _
      have hcl : (splitRec L.sd ix).pos ≤ c.length := by rw [InB.length hc]; exact hposf
      rw [insertIdx_twice _ _ _ _ hcl]
      simp
    · simp only [List.getElem_map, hmm, hl' k hk]
      apply setT_isSet
      intro o o' ho ho' heq
      have hshape : ((L.members[(normInt (t.get [a, b']) L.members.length).getD 0]).leaf k).shape = b ++ feat k :=
        hU.hleaf _ (List.getElem_mem h) k hk
      rw [hshape] at heq
      rw [hvs] at ho ho'
      exact hnd _ _ hsof o o' ho ho' heq
  · intro i hi hno
    have hi' : i < L.members.length := by simpa using hi
    have := hnotj i (fun a b' ha hb => hno [a, b'] ⟨ha, hb, trivial⟩)
    rw [List.getElem?_eq_getElem (hlen' ▸ hi'), List.getElem?_eq_getElem hi'] at this
    simp only [List.getElem_map]
    rw [Option.some.inj this]

end TdVerif.C08
namespace TdVerif.C08

theorem flatMap_congr_mem {β γ} : ∀ (l : List β) (f g : β → List γ), (∀ a ∈ l, f a = g a) → l.flatMap f = l.flatMap g
  | [], _, _, _ => rfl
  | a :: l, f, g, h => by
    simp only [List.flatMap_cons]
    rw [h a (by simp), flatMap_congr_mem l f g (fun x hx => h x (List.mem_cons_of_mem _ hx))]

theorem tensOk_isSome2 (t : T Int) (n k1 k2 a b : Nat) (hk : t.shape = [k1, k2]) (ha : a < k1) (hb : b < k2)
    (h : tensOk t n = true) : ∃ i, normInt (t.get [a, b]) n = some i := by
  unfold tensOk at h
  rw [hk] at h
  have := List.all_eq_true.mp h [a, b] ((mem_allCoords_iff _ _).mpr (by simp [InB, ha, hb]))
  exact Option.isSome_iff_exists.mp this

/-- **Writes with a rank-2 integer tensor (distinct entries) on the stack dim**: the value is
unbound twice along `unbind_dim` and entry `(a, b)` goes to member `t[a, b]` through the member
index; the dense stack of the members afterwards is `dense[ix] = v`. -/
theorem setitem_refines_tens2 [Inhabited α] (L : Lazy α) (b : Shape) (keys : List String)
    (feat : String → Shape) (hU : Uniform L b keys feat) (hne0 : L.members ≠ []) (ix : List Ix)
    (hp : Plain L.sd ix) (hne : ∀ it ∈ ix, it ≠ Ix.ell) (hadv : AtMostOneAdv ix)
    (hnd : NoDupTargets (splitRec L.sd ix).out)
    (t : T Int) (k1 k2 : Nat) (hitem : (splitRec L.sd ix).item = some (.tens t)) (hkt : t.shape = [k1, k2])
    (hdist : ∀ a b' a' b'', a < k1 → b' < k2 → a' < k1 → b'' < k2 →
      normInt (t.get [a, b']) L.members.length = normInt (t.get [a', b'']) L.members.length → a = a' ∧ b' = b'')
    (v : TD α) (hvk : v.keys = keys) (hvl : ∀ k ∈ keys, (v.leaf k).shape = v.batch ++ feat k)
    (bd : Shape) (hbd : idxShape ix (absL L).batch = some bd)
    (L' : Lazy α) (h : lazySetCore L ix v = some L') :
    L'.sd = L.sd ∧ Uniform L' b keys feat ∧ L'.members.length = L.members.length ∧
    ∀ k ∈ keys, IsSetT ix ((absL L).leaf k) (v.leaf k) ((absL L').leaf k) := by
  obtain ⟨hb, _⟩ := head_batch_of_uniform L b keys feat hU hne0
  have hbatch : (absL L).batch = b.insertIdx L.sd L.members.length := by
    show ((L.members.head?.map TD.batch).getD []).insertIdx L.sd L.members.length = _
    rw [hb]
  have hLb : L.batch = b.insertIdx L.sd L.members.length := hbatch
  rw [hbatch] at hbd
  have hB := splitLoop_before L.sd L.members.length L.batch ix L.sd 0 {} (by simp) hp hne
    (by simpa [AtMostOneAdv] using hadv) rfl rfl rfl rfl
  unfold lazySetCore splitIndex at h
  rw [hLb, hbd] at h
  simp only [Option.bind_some] at h
  split at h
  · simp at h
  rename_i hvb
  have hvb : v.batch = bd := by simpa using hvb
  rw [hvb] at hvl
  have hsel : selOf L.members.length (splitRec L.sd ix).item = some (.tens t, false, true) := by
    simp [hitem, selOf]
  obtain ⟨st', hloop, hspec⟩ := hB.2 _ _ _ hsel
  have hq : (L.sd : Int) - st'.numSingle + st'.numNone - st'.numSquash = (splitRec L.sd ix).pos := by
    have := hspec.q; simp [Q] at this; omega
  rw [← hLb] at h
  simp only [hloop, Option.bind_some, hspec.hasBool, Bool.false_eq_true, if_false, hspec.isNd,
    hspec.isInteger, hspec.sel, hspec.out, List.nil_append, hq] at h
  have hneg : ¬ (((splitRec L.sd ix).pos : Int) < 0) := by omega
  simp only [hneg, if_false, Int.toNat_natCast] at h
  have hnoadv := out_no_adv ix L.sd t hadv hitem
  simp only [if_true, hnoadv, Bool.false_eq_true, if_false, hkt] at h
  split at h
  · simp at h
  simp only [Option.map_eq_some_iff] at h
  obtain ⟨ms', hw, rfl⟩ := h
  have hsplit := shape_split L.members.length ix L.sd b hU.hsd hp
  rw [hbd] at hsplit
  have hok : tensOk t L.members.length = true := by
    cases hso : idxShape (splitRec L.sd ix).out b with
    | none => simp [hso] at hsplit
    | some so =>
      simp only [hso, hitem, Option.getD_some, itemShape, Option.bind_some] at hsplit
      by_cases hh : t.shape ≠ [] ∧ tensOk t L.members.length = true
      · exact hh.2
      · simp [hh] at hsplit
  have hsome : ∀ a b', a < k1 → b' < k2 → ∃ i, normInt (t.get [a, b']) L.members.length = some i :=
    fun a b' ha hb' => tensOk_isSome2 t _ k1 k2 a b' hkt ha hb' hok
  have hw' : writeAll (splitRec L.sd ix).out
      ((List.range k1).flatMap fun a => (List.range k2).map fun b' =>
        ((normInt (t.get [a, b']) L.members.length).getD 0,
         (v.select (splitRec L.sd ix).pos a).select (splitRec L.sd ix).pos b')) L.members = some ms' := by
    rw [← hw]; congr 1
    apply flatMap_congr_mem
    intro a ha
    apply List.map_congr_left
    intro b' hb'
    obtain ⟨i, hi⟩ := hsome a b' (List.mem_range.mp ha) (List.mem_range.mp hb')
    simp [hi]
  obtain ⟨h1, h2, h3⟩ := set_two_case L b keys feat hU hne0 ix hp bd hbd t k1 k2 (by simp [hitem]) hkt hok
    (by
      intro a b' a' b'' ha hb' ha' hb'' heq
      obtain ⟨i, hi⟩ := hsome a b' ha hb'
      obtain ⟨i', hi'⟩ := hsome a' b'' ha' hb''
      apply hdist a b' a' b'' ha hb' ha' hb''
      rw [hi, hi'] at heq ⊢
      simpa using heq)
    hnd v hvk hvl ms' hw'
  exact ⟨rfl, h1, h2, h3⟩

end TdVerif.C08
