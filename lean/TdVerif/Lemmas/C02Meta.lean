/-
  Closed forms of the batch-size arithmetic of the C02 model (`*Meta`), used by Props/C02 and Props/C17.
-/
import TdVerif.Lemmas.C02Coord

namespace TdVerif.C02

theorem swap_swap (l : List Nat) (i j : Nat) (hi : i < l.length) (hj : j < l.length) : swap (swap l i j) i j = l := by
  unfold swap
  apply List.ext_getElem?; intro k
  simp [List.getElem?_set, List.getD_eq_getElem?_getD]
  grind

theorem normDim_none {n : Nat} {d : Int} (h : normDim n d = none) :
    (if d < 0 then (n : Int) + d else d) < 0 ∨ (if d < 0 then (n : Int) + d else d) ≥ n := by
  unfold normDim at h
  grind

/-- closed form of the batch size `transpose` computes -/
theorem transposeMeta_shape (d0 d1 : Int) (bs : Shape) (nm : Names) :
    resShape bs (transposeMeta d0 d1 bs nm) =
      match normDim bs.length d0, normDim bs.length d1 with
      | some i, some j => some (swap bs i j)
      | _, _ => none := by
  rcases h0 : normDim bs.length d0 with _ | i
  · have := normDim_none h0
    unfold transposeMeta resShape
    simp only []
    rw [if_pos (by omega)]
  · rcases h1 : normDim bs.length d1 with _ | j
    · have := normDim_none h1
      unfold transposeMeta resShape
      simp only []
      rw [if_pos (by omega)]
    · obtain ⟨ha, hi⟩ := normDim_some h0
      obtain ⟨hb, hj⟩ := normDim_some h1
      have hmin : (min (i : Int) (j : Int)).toNat = min i j := by omega
      have hmax : (max (i : Int) (j : Int)).toNat = max i j := by omega
      have hr : ¬ ((i : Int) < 0 ∨ (j : Int) < 0 ∨ (i : Int) ≥ bs.length ∨ (j : Int) ≥ bs.length) := by omega
      unfold transposeMeta resShape
      simp only [ha, hb, hmin, hmax, hr, if_false]
      by_cases hij : i = j
      · subst hij; simp [swap_self]
      · have hne : ¬ (min i j = max i j) := by omega
        simp only [hne, if_false]
        rcases Nat.lt_or_ge i j with hlt | hge
        · rw [Nat.min_eq_left (by omega), Nat.max_eq_right (by omega)]
        · rw [Nat.min_eq_right (by omega), Nat.max_eq_left (by omega), swap_comm]

theorem unsqueezeMeta_shape (d : Int) (bs : Shape) (nm : Names) :
    resShape bs (unsqueezeMeta d bs nm) =
      match normDim (bs.length + 1) d with
      | some i => some (bs.insertIdx i 1)
      | none => none := by
  unfold unsqueezeMeta normDim resShape
  grind

theorem squeezeMeta_shape (d : Int) (bs : Shape) (nm : Names) :
    resShape bs (squeezeMeta (some d) bs nm) =
      match normDim bs.length d with
      | some i => some (if bs.getD i 0 = 1 then bs.eraseIdx i else bs)
      | none => none := by
  unfold squeezeMeta maybeCorrectNegDim normDim resShape
  simp only [bind, Except.bind, pure, Except.pure]
  grind

theorem flattenMeta_shape (a b : Int) (bs : Shape) (nm : Names) :
    resShape bs (flattenMeta a b bs nm) =
      match normDim bs.length a, normDim bs.length b with
      | some i, some j =>
        if i < j then some (bs.take i ++ [prod ((bs.drop i).take (j + 1 - i))] ++ bs.drop (j + 1)) else none
      | _, _ => none := by
  unfold flattenMeta normDim resShape
  grind

theorem natsToInts_any_neg (sz : Shape) : (natsToInts sz).any (· < 0) = false := by
  simp [natsToInts, List.any_eq_false]

theorem natsToInts_toNat (sz : Shape) : (natsToInts sz).map Int.toNat = sz := by
  simp [natsToInts, List.map_map, Function.comp_def]

theorem unflattenMeta_shape (d : Int) (sz : Shape) (bs : Shape) (nm : Names) :
    resShape bs (unflattenMeta d (natsToInts sz) bs nm) =
      match normDim bs.length d with
      | some i => some (bs.take i ++ sz ++ bs.drop (i + 1))
      | none => none := by
  unfold unflattenMeta maybeCorrectNegDim normDim resShape
  simp only [bind, Except.bind, pure, Except.pure, natsToInts_any_neg, natsToInts_toNat, throw, throwThe, MonadExceptOf.throw]
  grind

theorem viewMeta_shape (v : Bool) (sh : Shape) (bs : Shape) (nm : Names) :
    resShape bs (viewMeta v (natsToInts sh) bs nm) = some sh := by
  unfold viewMeta resShape
  simp only [bind, Except.bind, pure, Except.pure, natsToInts_any_neg, natsToInts_toNat, throw, throwThe, MonadExceptOf.throw]
  grind

theorem take_getD_drop (l : List Nat) (i : Nat) (hi : i < l.length) : l.take i ++ [l.getD i 0] ++ l.drop (i + 1) = l := by
  have : l.getD i 0 = l[i] := by simp [List.getD_eq_getElem?_getD, List.getElem?_eq_getElem hi]
  rw [this]; simp

/-! ### permute: torch's wrap-and-check loop -/


theorem wrapPerm_ok_iff (n : Nat) : ∀ (dims : List Int) (acc r : List Nat),
    wrapPerm n dims acc = .ok r ↔
      ((∀ d ∈ dims, (wrapDim n d).isSome = true) ∧ (dims.map (wrapVal n)).Nodup ∧
        (∀ d ∈ dims, wrapVal n d ∉ acc) ∧ r = acc.reverse ++ dims.map (wrapVal n))
  | [], acc, r => by
    simp only [wrapPerm, List.not_mem_nil, false_imp_iff, implies_true, List.map_nil, List.nodup_nil, List.append_nil, true_and,
      Except.ok.injEq]
    exact eq_comm
  | d :: ds, acc, r => by
    simp only [wrapPerm]
    rcases hw : wrapDim n d with _ | i
    · simp [hw]
    · have hv : wrapVal n d = i := by simp [wrapVal, hw]
      by_cases hm : i ∈ acc
      · simp only [hm, if_true]
        constructor
        · intro h; cases h
        · rintro ⟨_, _, h3, _⟩
          exact absurd hm (by have := h3 d (by simp); rwa [hv] at this)
      · simp only [hm, if_false]
        rw [wrapPerm_ok_iff n ds (i :: acc) r]
        simp only [List.mem_cons, forall_eq_or_imp, hw, Option.isSome_some, true_and, List.map_cons,
          List.nodup_cons, hv, List.reverse_cons, List.append_assoc, List.singleton_append, not_or]
        constructor
        · rintro ⟨h1, h2, h3, h4⟩
          refine ⟨h1, ⟨?_, h2⟩, ⟨hm, fun x hx => (h3 x hx).2⟩, h4⟩
          intro hin
          obtain ⟨x, hx, hxe⟩ := List.mem_map.1 hin
          exact (h3 x hx).1 hxe
        · rintro ⟨h1, ⟨h2a, h2⟩, ⟨_, h3⟩, h4⟩
          refine ⟨h1, h2, ?_, h4⟩
          intro x hx
          refine ⟨?_, h3 x hx⟩
          intro he
          exact h2a (List.mem_map.2 ⟨x, hx, he⟩)


theorem wrapDim_eq_normDim {n : Nat} (hn : n ≠ 0) (d : Int) : wrapDim n d = normDim n d := by
  simp [wrapDim, hn]

/-- Meta's own normalisation agrees with `wrapDim` for a non-empty batch -/
theorem meta_norm_inrange {n : Nat} (hn : n ≠ 0) (d : Int) :
    (¬ ((if d ≥ 0 then d else (n : Int) + d) < 0 ∨ (if d ≥ 0 then d else (n : Int) + d) ≥ n)) ↔ (wrapDim n d).isSome = true := by
  rw [wrapDim_eq_normDim hn]; unfold normDim; grind

theorem meta_norm_val {n : Nat} (hn : n ≠ 0) (d : Int) (h : (wrapDim n d).isSome = true) :
    (if d ≥ 0 then d else (n : Int) + d).toNat = wrapVal n d := by
  unfold wrapVal; rw [wrapDim_eq_normDim hn] at h ⊢; unfold normDim at h ⊢; grind

theorem wrapVal_lt {n : Nat} (hn : n ≠ 0) (d : Int) (h : (wrapDim n d).isSome = true) : wrapVal n d < n := by
  unfold wrapVal; rw [wrapDim_eq_normDim hn] at h ⊢; unfold normDim at h ⊢; grind



/-- closed form of `permute` on an explicit non-identity permutation: batch, names and the leaf call -/
theorem permuteMeta_of_perm_full (q : List Nat) (bs : Shape) (nm : Names) (hq : q.Perm (List.range bs.length))
    (hid : q ≠ List.range bs.length) :
    permuteMeta (natsToInts q) bs nm =
      .ok (some (q.map (fun i => bs.getD i 0), nm.map (fun l => q.map (fun i => l.getD i none)), .permute q)) := by
  have hlen : q.length = bs.length := by simpa using hq.length_eq
  have hlt : ∀ x ∈ q, x < bs.length := fun x hx => by simpa using (hq.mem_iff.1 hx)
  unfold permuteMeta
  have h1 : (natsToInts q).map (fun d => if d ≥ 0 then d else (bs.length : Int) + d) = natsToInts q := by
    simp [natsToInts, List.map_map, Function.comp_def]
  simp only [h1]
  have h2 : (natsToInts q).any (fun d => d < 0 ∨ d ≥ (bs.length : Int)) = false := by
    simp only [natsToInts, List.any_eq_false, List.mem_map]
    rintro d ⟨x, hx, rfl⟩
    have := hlt x hx
    simp; omega
  have h3 : (natsToInts q).length = bs.length := by simp [natsToInts, hlen]
  have h4 : (natsToInts q).map Int.toNat = q := by simp [natsToInts, List.map_map, Function.comp_def]
  have h5 : q.mergeSort = List.range q.length := by rw [hlen]; exact mergeSort_of_perm_range q _ hq
  have hne : ¬ (q.length = 0 ∧ bs.length = 0) := by
    intro h
    apply hid
    have : q = [] := List.length_eq_zero_iff.1 h.1
    rw [this, h.2]; rfl
  have hid' : ¬ (q = List.range q.length) := by rw [hlen]; exact hid
  simp only [h2, h3, h4, h5, Bool.false_eq_true, if_false, ne_eq, not_true_eq_false, hne, hid']
  rw [hlen, List.drop_length, List.append_nil]


/-! ### split sizes -/

theorem lt_ceil_iff (max k j : Nat) (hk : 0 < k) : j < (max + k - 1) / k ↔ j * k < max := by
  rw [show j < (max + k - 1) / k ↔ j + 1 ≤ (max + k - 1) / k from Iff.rfl, Nat.le_div_iff_mul_le hk]
  rw [Nat.add_mul]; omega

theorem splitLoop_sizes (k max : Nat) (hk : 0 < k) : ∀ (fuel j : Nat), max - min max (j * k) ≤ fuel →
    (splitLoop k max fuel (min max (j * k))).map Prod.snd =
      (List.range' j ((max + k - 1) / k - j)).map (fun i => min k (max - i * k))
  | 0, j, h => by
    have hge : ¬ (j * k < max) := by omega
    have : (max + k - 1) / k - j = 0 := by
      have h1 : ¬ (j < (max + k - 1) / k) := fun hh => hge ((lt_ceil_iff max k j hk).1 hh)
      omega
    simp [splitLoop, this]
  | fuel + 1, j, h => by
    unfold splitLoop
    by_cases hlt : j * k < max
    · have hidx : min max (j * k) = j * k := by omega
      have hc : j < (max + k - 1) / k := (lt_ceil_iff max k j hk).2 hlt
      have hnext : min max (j * k + k) = min max ((j + 1) * k) := by rw [Nat.add_mul]; simp
      rw [hidx]
      simp only [hlt, if_true, List.map_cons]
      rw [hnext, splitLoop_sizes k max hk fuel (j + 1) (by rw [Nat.add_mul] at *; omega)]
      have hr : (max + k - 1) / k - j = ((max + k - 1) / k - (j + 1)) + 1 := by omega
      rw [hr, List.range'_succ, List.map_cons]
      congr 1
      rw [Nat.add_mul]; omega
    · have hidx : min max (j * k) = max := by omega
      have : (max + k - 1) / k - j = 0 := by
        have h1 : ¬ (j < (max + k - 1) / k) := fun hh => hlt ((lt_ceil_iff max k j hk).1 hh)
        omega
      rw [hidx]
      simp [this]



end TdVerif.C02
