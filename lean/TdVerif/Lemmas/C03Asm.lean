/-
  C03 lemmas, part 2: the second loop of `_getitem_batch_size` (`Td.asm`) against torch's output dims.
-/
import TdVerif.Lemmas.C03Scan

namespace TdVerif.C03
open TorchSpec Td

def hasAdv (P : List Piece) : Bool := !(advShapes P).isEmpty

/-- with the broadcast block already emitted, `B` plays no role -/
theorem outDims_true_irrel (B B' : Shape) (P : List Piece) : outDims B true P = outDims B' true P := by
  induction P with
  | nil => rfl
  | cons p r ih => cases p <;> simp [outDims, ih]

@[simp] theorem outDims_map_full (B : Shape) (f : Bool) (dims : Shape) :
    outDims B f (dims.map Piece.full) = dims := by
  induction dims with
  | nil => rfl
  | cons n r ih => simp [outDims, Piece.full, ih]

/-- the batch size the second loop will have produced, from its current state -/
def asmSpec (pend : Option Shape) (dj : Bool) (out : List Nat) (P : List Piece) : List Nat :=
  match pend with
  | none => out ++ outDims [] true P
  | some B =>
    if hasAdv P then (if dj then B ++ out ++ outDims B true P else out ++ outDims B false P)
    else out ++ outDims B true P

theorem asmSpec_new (pend dj out P) : asmSpec pend dj (out ++ [1]) P = asmSpec pend dj out (.new :: P) := by
  cases pend <;> simp [asmSpec, outDims, hasAdv, advShapes] <;> split <;> simp <;> split <;> simp

theorem asmSpec_sl (pend dj out P n s st len) :
    asmSpec pend dj (out ++ [len]) P = asmSpec pend dj out (.sl n s st len :: P) := by
  cases pend <;> simp [asmSpec, outDims, hasAdv, advShapes] <;> split <;> simp <;> split <;> simp

theorem asmSpec_sel (pend dj out P n i) : asmSpec pend dj out P = asmSpec pend dj out (.sel n i :: P) := by
  cases pend <;> simp [asmSpec, outDims, hasAdv, advShapes]

theorem asmSpec_adv_some (B dj out P ns s cols) :
    asmSpec none dj (if dj then B ++ out else out ++ B) P = asmSpec (some B) dj out (.adv ns s cols :: P) := by
  cases dj <;> simp [asmSpec, outDims, hasAdv, advShapes, outDims_true_irrel [] B]

theorem asmSpec_adv_none (dj out P ns s cols) :
    asmSpec none dj out P = asmSpec none dj out (.adv ns s cols :: P) := by
  simp [asmSpec, outDims]

end TdVerif.C03

namespace TdVerif.C03
open TorchSpec Td

theorem getElem?_pre (pre : List Nat) (n : Nat) (ds : List Nat) (k : Nat) (hk : k = pre.length) :
    (pre ++ n :: ds)[k]? = some n := by
  subst hk; simp

theorem pySliceLen_of_indices {a b c : Option Int} {n : Nat} {s e st : Int}
    (h : SliceSpec.indices a b c n = .ok (s, e, st)) :
    pySliceLen a b c n = .ok (SliceSpec.rangeLen s e st).toNat := by
  simp [pySliceLen, h]

/-- second loop of `_getitem_batch_size`, for any state reached after the dims `pre` -/
theorem asm_spec (items : List Ix) : ∀ (e : Nat) (dims : Shape) (P : List Piece) (pre : List Nat) (st : Asm) (dj : Bool),
    noEll items = true → walk e dims items = .ok P → st.cnt = pre.length →
    ∃ st', asm (pre ++ dims) dj items st = .ok st' ∧
      st'.out ++ (pre ++ dims).drop st'.cnt = asmSpec st.pend dj st.out P := by
  induction items with
  | nil =>
    intro e dims P pre st dj _ h hc
    simp [walk] at h; subst h
    refine ⟨st, by simp [asm], ?_⟩
    cases hp : st.pend <;> simp [asmSpec, hc, hasAdv]
  | cons x r ih =>
    intro e dims P pre st dj hn h hc
    simp only [noEll_cons, Bool.and_eq_true] at hn
    obtain ⟨hx, hr⟩ := hn
    cases x with
    | none =>
      simp only [walk] at h
      obtain ⟨P', h1, rfl⟩ := map_ok h
      obtain ⟨st', h2, h3⟩ := ih e dims P' pre { st with out := st.out ++ [1] } dj hr h1 hc
      exact ⟨st', by simpa [asm] using h2, by rw [h3]; exact asmSpec_new ..⟩
    | ell => simp at hx
    | int i =>
      cases dims with
      | nil => simp [walk] at h
      | cons n ds =>
        simp only [walk] at h
        obtain ⟨P', h1, rfl, -⟩ := consSel_ok h
        obtain ⟨st', h2, h3⟩ := ih e ds P' (pre ++ [n]) { st with cnt := st.cnt + 1 } dj hr h1 (by simp [hc])
        refine ⟨st', ?_, ?_⟩
        · simpa [asm, itemShape, countStep] using h2
        · simp only [List.append_assoc, List.singleton_append] at h3; rw [h3]; exact asmSpec_sel ..
    | slice a b c =>
      cases dims with
      | nil => simp [walk] at h
      | cons n ds =>
        simp only [walk] at h
        obtain ⟨P', s, e', st1, h1, -, hi, rfl⟩ := consSlice_ok h
        obtain ⟨st', h2, h3⟩ := ih e ds P' (pre ++ [n])
          { st with out := st.out ++ [(SliceSpec.rangeLen s e' st1).toNat], cnt := st.cnt + 1 } dj hr h1 (by simp [hc])
        refine ⟨st', ?_, ?_⟩
        · simpa [asm, itemShape, countStep, getElem?_pre pre n ds st.cnt hc, pySliceLen_of_indices hi] using h2
        · simp only [List.append_assoc, List.singleton_append] at h3; rw [h3]; exact asmSpec_sl ..
    | list l =>
      cases dims with
      | nil => simp [walk] at h
      | cons n ds =>
        simp only [walk] at h
        obtain ⟨P', h1, rfl⟩ := consAdv_ok h
        cases hp : st.pend with
        | none =>
          obtain ⟨st', h2, h3⟩ := ih e ds P' (pre ++ [n]) { st with cnt := st.cnt + 1 } dj hr h1 (by simp [hc])
          refine ⟨st', ?_, ?_⟩
          · simpa [asm, itemShape, countStep, hp] using h2
          · simp only [List.append_assoc, List.singleton_append] at h3; rw [h3]; simp only [hp]; exact asmSpec_adv_none ..
        | some B =>
          obtain ⟨st', h2, h3⟩ := ih e ds P' (pre ++ [n])
            { out := if dj then B ++ st.out else st.out ++ B, cnt := st.cnt + 1, pend := none } dj hr h1 (by simp [hc])
          refine ⟨st', ?_, ?_⟩
          · simpa [asm, itemShape, countStep, hp] using h2
          · simp only [List.append_assoc, List.singleton_append] at h3; rw [h3]; exact asmSpec_adv_some ..
    | range a b c =>
      cases dims with
      | nil => simp [walk] at h
      | cons n ds =>
        simp only [walk] at h
        obtain ⟨P', h1, rfl⟩ := consAdv_ok h
        cases hp : st.pend with
        | none =>
          obtain ⟨st', h2, h3⟩ := ih e ds P' (pre ++ [n]) { st with cnt := st.cnt + 1 } dj hr h1 (by simp [hc])
          refine ⟨st', ?_, ?_⟩
          · simpa [asm, itemShape, countStep, hp] using h2
          · simp only [List.append_assoc, List.singleton_append] at h3; rw [h3]; simp only [hp]; exact asmSpec_adv_none ..
        | some B =>
          obtain ⟨st', h2, h3⟩ := ih e ds P' (pre ++ [n])
            { out := if dj then B ++ st.out else st.out ++ B, cnt := st.cnt + 1, pend := none } dj hr h1 (by simp [hc])
          refine ⟨st', ?_, ?_⟩
          · simpa [asm, itemShape, countStep, hp] using h2
          · simp only [List.append_assoc, List.singleton_append] at h3; rw [h3]; exact asmSpec_adv_some ..
    | tensor s d =>
      cases dims with
      | nil => simp [walk] at h
      | cons n ds =>
        cases s with
        | nil =>
          simp only [walk] at h
          obtain ⟨P', h1, rfl, -⟩ := consSel_ok h
          obtain ⟨st', h2, h3⟩ := ih e ds P' (pre ++ [n]) { st with cnt := st.cnt + 1 } dj hr h1 (by simp [hc])
          refine ⟨st', ?_, ?_⟩
          · simpa [asm, itemShape, countStep] using h2
          · simp only [List.append_assoc, List.singleton_append] at h3; rw [h3]; exact asmSpec_sel ..
        | cons m s =>
          simp only [walk] at h
          obtain ⟨P', h1, rfl⟩ := consAdv_ok h
          cases hp : st.pend with
          | none =>
            obtain ⟨st', h2, h3⟩ := ih e ds P' (pre ++ [n]) { st with cnt := st.cnt + 1 } dj hr h1 (by simp [hc])
            refine ⟨st', ?_, ?_⟩
            · simpa [asm, itemShape, countStep, hp] using h2
            · simp only [List.append_assoc, List.singleton_append] at h3; rw [h3]; simp only [hp]; exact asmSpec_adv_none ..
          | some B =>
            obtain ⟨st', h2, h3⟩ := ih e ds P' (pre ++ [n])
              { out := if dj then B ++ st.out else st.out ++ B, cnt := st.cnt + 1, pend := none } dj hr h1 (by simp [hc])
            refine ⟨st', ?_, ?_⟩
            · simpa [asm, itemShape, countStep, hp] using h2
            · simp only [List.append_assoc, List.singleton_append] at h3; rw [h3]; exact asmSpec_adv_some ..
    | mask s d =>
      simp only [walk] at h
      split at h
      · rename_i hs
        obtain ⟨P', h1, rfl⟩ := map_ok h
        have hd : dims = s ++ dims.drop s.length := by
          conv => lhs; rw [← List.take_append_drop s.length dims, hs.2]
        cases hp : st.pend with
        | none =>
          obtain ⟨st', h2, h3⟩ := ih e (dims.drop s.length) P' (pre ++ s) { st with cnt := st.cnt + s.length } dj hr h1 (by simp [hc])
          refine ⟨st', ?_, ?_⟩
          · rw [hd]; simpa [asm, itemShape, countStep, hp] using h2
          · rw [hd]; simp only [List.append_assoc] at h3; rw [h3]; simp only [hp]; exact asmSpec_adv_none ..
        | some B =>
          obtain ⟨st', h2, h3⟩ := ih e (dims.drop s.length) P' (pre ++ s)
            { out := if dj then B ++ st.out else st.out ++ B, cnt := st.cnt + s.length, pend := none } dj hr h1 (by simp [hc])
          refine ⟨st', ?_, ?_⟩
          · rw [hd]; simpa [asm, itemShape, countStep, hp] using h2
          · rw [hd]; simp only [List.append_assoc] at h3; rw [h3]; exact asmSpec_adv_some ..
      · cases h

end TdVerif.C03

namespace TdVerif.C03
open TorchSpec Td

theorem outDims_false_of_noAdv (B : Shape) (P : List Piece) (h : hasAdv P = false) :
    outDims B false P = outDims B true P := by
  induction P with
  | nil => rfl
  | cons p r ih =>
    cases p <;> simp_all [outDims, hasAdv, advShapes]

theorem finalize_ok {P : List Piece} {R : IndexResult} (h : finalize P = .ok R) :
    ∃ B, broadcastAll (advShapes P) = some B ∧ R.shape = outShape P B ∧ R.src = srcCoord P B ∧
      R.view = (advShapes P).isEmpty := by
  unfold finalize at h
  split at h
  · cases h
  · rename_i B hB
    refine ⟨B, hB, ?_⟩
    simp only at h
    split at h
    · cases h
    · split at h
      · cases h
      · cases h; exact ⟨rfl, rfl, rfl⟩

/-- `_getitem_batch_size` on an Ellipsis-free tuple computes torch's result shape -/
theorem getitemBatchSize_tuple (bs : Shape) (items : List Ix) (e : Nat) (P : List Piece) (R : IndexResult)
    (hn : noEll items = true) (hw : walk e bs items = .ok P) (hf : finalize P = .ok R) :
    getitemBatchSize bs (.tuple items) = .ok R.shape := by
  obtain ⟨B, hB, hshape, -, -⟩ := finalize_ok hf
  obtain ⟨hs, hd⟩ := scan_init items e bs P hn hw
  simp only [getitemBatchSize, PyIndex.items, hs, hd]
  cases hA : (advShapes P).isEmpty
  · -- at least one index array
    simp only [hB]
    obtain ⟨st', h2, h3⟩ := asm_spec items e bs P [] { out := [], cnt := 0, pend := some B } (!contiguous (kinds P)) hn hw rfl
    simp only [List.nil_append] at h2 h3
    simp only [Bool.false_eq_true, if_false, h2, h3, hshape, asmSpec, hasAdv, hA, outShape]
    cases contiguous (kinds P) <;> simp
  · obtain ⟨st', h2, h3⟩ := asm_spec items e bs P [] { out := [], cnt := 0, pend := none } (!contiguous (kinds P)) hn hw rfl
    simp only [List.nil_append] at h2 h3
    have hB' : B = [] := by
      have : advShapes P = [] := by simpa using hA
      rw [this] at hB; simpa [broadcastAll] using hB.symm
    have hna : hasAdv P = false := by simp [hasAdv, hA]
    simp only [if_true, h2, h3, hshape, asmSpec, outShape, hB', outDims_false_of_noAdv [] P hna]
    cases contiguous (kinds P) <;> simp

end TdVerif.C03
