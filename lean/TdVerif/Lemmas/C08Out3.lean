/-
  C08 — `torch.stack(items, dim, out=<lazy stack>)` with `dim ≠ out.stack_dim` (`_stack_onto_`, the
  `update_at_` branch; model: Model/C08Out.lean `lazyStackOnto`): item `i` is written at
  `out[(:,)*dim + (i,)]`, one index write after the other; afterwards the members of `out` hold the
  dense stack of the items.  Also `setitem_refines_basic`: the side conditions of the index-write
  refinement discharged for a basic index.
-/
import TdVerif.Lemmas.C08Out2
import TdVerif.Lemmas.C08Set
import TdVerif.Lemmas.C08Two
namespace TdVerif.C08

theorem basic_plain : ∀ (ix : List Ix) (sd : Nat), Basic ix → Plain sd ix := by
  intro ix
  induction ix with
  | nil => intro sd _; trivial
  | cons a r ih =>
    intro sd h
    have ha := h a (by simp)
    have hr := fun sd' => ih sd' (fun x hx => h x (by simp [hx]))
    cases a with
    | none => exact hr sd
    | ell => exact absurd rfl ha.2
    | mask m => simp [Ix.isAdv] at ha
    | int k => cases sd <;> simp [Plain, hr _]
    | slice x y z => cases sd <;> simp [Plain, hr _]
    | tens t => simp [Ix.isAdv] at ha

/-- index writes with a basic index (ints, slices, None): the side conditions of
`setitem_refines_core` hold, the dense stack afterwards is `IsSetT` of the one before -/
theorem setitem_refines_basic [Inhabited α] (L : Lazy α) (b : Shape) (keys : List String)
    (feat : String → Shape) (hU : Uniform L b keys feat) (hne0 : L.members ≠ []) (ix : List Ix)
    (hbasic : Basic ix)
    (v : TD α) (hvk : v.keys = keys) (hvl : ∀ k ∈ keys, (v.leaf k).shape = v.batch ++ feat k)
    (bd : Shape) (hbd : idxShape ix (absL L).batch = some bd)
    (L' : Lazy α) (h : lazySetCore L ix v = some L') :
    L'.sd = L.sd ∧ Uniform L' b keys feat ∧ L'.members.length = L.members.length ∧
    ∀ k ∈ keys, IsSetT ix ((absL L).leaf k) (v.leaf k) ((absL L').leaf k) := by
  have hcount : ix.countP Ix.isAdv = 0 := by
    simpa [List.countP_eq_zero] using fun it h => (hbasic it h).1
  have hadv : AtMostOneAdv ix := by unfold AtMostOneAdv; omega
  have hout : Basic (splitRec L.sd ix).out := fun it hit => hbasic it (splitRec_out_mem ix L.sd it hit)
  have hdist : ∀ t, (splitRec L.sd ix).item = some (.tens t) → ∃ k, t.shape = [k] ∧
      ∀ j j', j < k → j' < k →
        normInt (t.get [j]) L.members.length = normInt (t.get [j']) L.members.length → j = j' := by
    intro t ht
    have := (hbasic _ (splitRec_item_mem ix L.sd _ ht)).1
    simp [Ix.isAdv] at this
  exact setitem_refines_core L b keys feat hU hne0 ix (basic_plain ix L.sd hbasic)
    (fun it h => (hbasic it h).2) hadv (noDupTargets_of_basic _ hout) hdist v hvk hvl bd hbd L' h

theorem basic_full_int (k : Nat) (i : Int) : Basic (List.replicate k Ix.full ++ [.int i]) := by
  intro it hit
  simp only [List.mem_append, List.mem_replicate, List.mem_singleton] at hit
  rcases hit with ⟨_, rfl⟩ | rfl <;> simp [Ix.full, Ix.isAdv]

theorem convertEllipsis_noEll (ix : List Ix) (rank : Nat) (h : ix.countP Ix.isEll = 0) :
    convertEllipsis ix rank = some ix := by
  unfold convertEllipsis
  simp [h]


/-- one step of `_stack_onto_` along a dim other than the stack dim: `out[(:,)*dim + (i,)] = item`
rewrites slice `i` along `dim` of the dense stack and nothing else -/
theorem stack_onto_step [Inhabited α] (O : Lazy α) (b : Shape) (keys : List String) (feat : String → Shape)
    (hU : Uniform O b keys feat) (hne0 : O.members ≠ [])
    (dim i : Nat) (hdim : dim < O.batch.length) (hi : i < at0 O.batch dim)
    (v : TD α) (hvk : v.keys = keys) (hvb : v.batch = O.batch.eraseIdx dim)
    (hvl : ∀ k ∈ keys, (v.leaf k).shape = v.batch ++ feat k)
    (O' : Lazy α) (h : lazySet O (List.replicate dim Ix.full ++ [.int (i : Int)]) v = some O') :
    O'.sd = O.sd ∧ Uniform O' b keys feat ∧ O'.members.length = O.members.length ∧
    ∀ k ∈ keys, ∀ c, InB c (O.batch ++ feat k) →
      ((absL O').leaf k).get c =
        if at0 c dim = i then (v.leaf k).get (c.eraseIdx dim) else ((absL O).leaf k).get c := by
  unfold lazySet at h
  rw [convertEllipsis_noEll _ _ (by simp [List.countP_append, List.countP_replicate, Ix.full, Ix.isEll])] at h
  simp only [Option.bind_some] at h
  have hbd : idxShape (List.replicate dim Ix.full ++ [.int (i : Int)]) (absL O).batch = some (O.batch.eraseIdx dim) :=
    idxShape_full_int dim O.batch i hdim hi
  obtain ⟨h1, h2, h3, h4⟩ := setitem_refines_basic O b keys feat hU hne0 _ (basic_full_int dim i) v hvk hvl _ hbd O' h
  refine ⟨h1, h2, h3, ?_⟩
  intro k hk c hc
  have hs := absL_leaf_shape' O b keys feat hU hne0 k hk
  have hset := h4 k hk
  have hdl : dim < ((absL O).leaf k).shape.length := by rw [hs, List.length_append]; omega
  have hil : i < at0 ((absL O).leaf k).shape dim := by
    rw [hs]; simp only [at0]; rw [List.getElem?_append_left hdim]; exact hi
  have hcl : c.length = (O.batch ++ feat k).length := InB.length hc
  have hdc : dim < c.length := by rw [hcl, List.length_append]; omega
  by_cases hci : at0 c dim = i
  · rw [if_pos hci]
    have ho : InB (c.eraseIdx dim) (v.leaf k).shape := by
      rw [hvl k hk, hvb, ← List.eraseIdx_append_of_lt_length hdim]
      exact InB.eraseIdx dim hc
    have := hset.hit (c.eraseIdx dim) ho
    rw [idxCoord_full_int dim _ i (c.eraseIdx dim) hdl hil
      (by rw [List.length_eraseIdx_of_lt hdc]; omega)] at this
    rw [← hci, insertIdx_eraseIdx_self c dim hdc] at this
    exact this
  · rw [if_neg hci]
    apply hset.frame c (by rw [hs]; exact hc)
    intro o ho hoc
    have hol : dim ≤ o.length := by
      have := InB.length ho
      rw [hvl k hk, hvb, List.length_append, List.length_eraseIdx_of_lt hdim] at this
      omega
    rw [idxCoord_full_int dim _ i o hdl hil hol] at hoc
    apply hci
    rw [← hoc]
    simp [at0, List.getElem?_insertIdx_self, hol]

/-- **`torch.stack(items, dim, out=O)` with `dim ≠ O.stack_dim`** (`_stack_onto_`, the `update_at_`
branch): after item `i` has been written at `O[(:,)*dim + (i,)]` for every `i`, the members of `O`
hold the dense stack of the items. -/
theorem stack_onto_fold [Inhabited α] (b : Shape) (keys : List String) (feat : String → Shape) (B : Shape)
    (sd n dim : Nat) (hdim : dim < B.length) (g : Nat → TD α) :
    ∀ (items : List (TD α)) (s : Nat) (O O' : Lazy α),
      Uniform O b keys feat → O.members ≠ [] → O.sd = sd → O.members.length = n → O.batch = B →
      (∀ j (hj : j < items.length), items[j] = g (s + j)) →
      (∀ j, j < s + items.length → (g j).keys = keys ∧ (g j).batch = B.eraseIdx dim ∧
        ∀ k ∈ keys, ((g j).leaf k).shape = (g j).batch ++ feat k) →
      s + items.length ≤ at0 B dim →
      (items.zipIdx s).foldlM (fun (O : Lazy α) (p : TD α × Nat) =>
        lazySet O (List.replicate dim Ix.full ++ [.int (p.2 : Int)]) p.1) O = some O' →
      Uniform O' b keys feat ∧ O'.sd = sd ∧ O'.members.length = n ∧ O'.batch = B ∧
      ∀ k ∈ keys, ∀ c, InB c (B ++ feat k) →
        ((absL O').leaf k).get c =
          if s ≤ at0 c dim ∧ at0 c dim < s + items.length then ((g (at0 c dim)).leaf k).get (c.eraseIdx dim)
          else ((absL O).leaf k).get c
  | [], s, O, O', hU, _, hsd, hn, hB, _, _, _, h => by
    simp only [List.zipIdx_nil, List.foldlM_nil, Option.pure_def, Option.some.injEq] at h
    subst h
    refine ⟨hU, hsd, hn, hB, ?_⟩
    intro k _ c _
    rw [if_neg (by simp)]
  | it :: rest, s, O, O', hU, hne0, hsd, hn, hB, hg, hgood, hle, h => by
    simp only [List.zipIdx_cons, List.foldlM_cons, Option.bind_eq_bind] at h
    cases h1 : lazySet O (List.replicate dim Ix.full ++ [.int (s : Int)]) it with
    | none => rw [h1] at h; simp at h
    | some O1 =>
      rw [h1] at h
      simp only [Option.bind_some] at h
      have hit : it = g s := by
        have := hg 0 (by simp)
        simpa using this
      obtain ⟨hk, hb, hl⟩ := hgood s (by simp)
      have hs_lt : s < at0 B dim := by simp at hle; omega
      obtain ⟨e1, e2, e3, e4⟩ := stack_onto_step O b keys feat hU hne0 dim s (by rw [hB]; exact hdim)
        (by rw [hB]; exact hs_lt) it (by rw [hit]; exact hk) (by rw [hit, hB]; exact hb)
        (by rw [hit]; exact hl) O1 h1
      have hne1 : O1.members ≠ [] := by
        intro hh; rw [hh] at e3; exact hne0 (List.length_eq_zero_iff.mp e3.symm)
      have hB1 : O1.batch = B := by
        rw [← hB]
        show (absL O1).batch = (absL O).batch
        rw [absL_batch_eq O1 b keys feat e2 hne1, absL_batch_eq O b keys feat hU hne0, e1, e3]
      obtain ⟨r1, r2, r3, r4, r5⟩ := stack_onto_fold b keys feat B sd n dim hdim g rest (s + 1) O1 O' e2 hne1
        (by rw [e1, hsd]) (by rw [e3, hn]) hB1
        (by intro j hj; have := hg (j + 1) (by simp; omega); simp only [List.getElem_cons_succ] at this
            rw [this]; congr 1; omega)
        (by intro j hj; exact hgood j (by simp at hj ⊢; omega))
        (by simp at hle ⊢; omega) h
      refine ⟨r1, r2, r3, r4, ?_⟩
      intro k hk' c hc
      rw [r5 k hk' c hc]
      have e4' := e4 k hk' c (by rw [hB]; exact hc)
      simp only [List.length_cons]
      by_cases hc1 : s + 1 ≤ at0 c dim ∧ at0 c dim < s + 1 + rest.length
      · rw [if_pos hc1, if_pos (by omega)]
      · rw [if_neg hc1, e4']
        by_cases hc2 : at0 c dim = s
        · rw [if_pos hc2, if_pos (by omega), hc2, hit]
        · rw [if_neg hc2, if_neg (by omega)]


theorem stack_out_other_dim [Inhabited α] (out : Lazy α) (b : Shape) (keys : List String) (feat : String → Shape)
    (hU : Uniform out b keys feat) (hne0 : out.members ≠ [])
    (items : List (TD α)) (dim : Nat) (hdim : dim < out.batch.length) (hne : dim ≠ out.sd)
    (hlen : items.length = at0 out.batch dim) (hpos : items ≠ [])
    (hitems : ∀ it ∈ items, it.keys = keys ∧ it.batch = out.batch.eraseIdx dim ∧
      ∀ k ∈ keys, (it.leaf k).shape = it.batch ++ feat k)
    (out' : Lazy α) (h : lazyStackOnto out items dim = some out') :
    out'.sd = out.sd ∧ Uniform out' b keys feat ∧ out'.members.length = out.members.length ∧
      absL out' ≈ stackTD items dim := by
  unfold lazyStackOnto at h
  rw [if_neg hne] at h
  obtain ⟨r1, r2, r3, r4, r5⟩ := stack_onto_fold b keys feat out.batch out.sd out.members.length dim hdim
    (fun j => items[j]?.getD default) items 0 out out' hU hne0 rfl rfl rfl
    (by intro j hj; simp [List.getElem?_eq_getElem hj])
    (by
      intro j hj
      have hj' : j < items.length := by omega
      simp only [List.getElem?_eq_getElem hj', Option.getD_some]
      exact hitems _ (List.getElem_mem _))
    (by omega) h
  refine ⟨r2, r1, r3, ?_⟩
  have hne1 : out'.members ≠ [] := by
    intro hh; rw [hh] at r3; exact hne0 (List.length_eq_zero_iff.mp r3.symm)
  have hhead : ∀ (gg : TD α → Shape) (v : Shape), (∀ it ∈ items, gg it = v) →
      (items.head?.map gg).getD [] = v := fun gg v hh => head_of_all gg [] v items hpos hh
  refine ⟨?_, ?_, ?_⟩
  · show out'.batch = ((items.head?.map TD.batch).getD []).insertIdx dim items.length
    rw [r4, hhead TD.batch _ (fun it hit => (hitems it hit).2.1), hlen, insertIdx_eraseIdx_self _ _ hdim]
  · show (absL out').keys = (items.head?.map TD.keys).getD []
    rw [absL_keys out' b keys feat r1 hne1, head_of_all TD.keys [] keys items hpos (fun it hit => (hitems it hit).1)]
  · intro k hk
    have hk' : k ∈ keys := by rw [absL_keys out' b keys feat r1 hne1] at hk; exact hk
    have hs := absL_leaf_shape' out' b keys feat r1 hne1 k hk'
    rw [r4] at hs
    have hshape : (T.stack (items.map fun m => m.leaf k) dim).shape = out.batch ++ feat k := by
      rw [T.stack_shape, head_shape_of_all _ (out.batch.eraseIdx dim ++ feat k)
        (by
          intro t ht
          simp only [List.mem_map] at ht
          obtain ⟨it, hit, rfl⟩ := ht
          rw [(hitems it hit).2.2 k hk', (hitems it hit).2.1])
        (by simpa using hpos), List.length_map, hlen,
        insertIdx_append_left _ _ _ _ (by rw [List.length_eraseIdx_of_lt hdim]; omega),
        insertIdx_eraseIdx_self _ _ hdim]
    refine ⟨by rw [hs]; exact hshape.symm, ?_⟩
    intro c hc
    rw [hs] at hc
    have hcd : at0 c dim < items.length := by
      rw [hlen]
      apply InB.at0_lt hc dim
      rw [List.getElem?_append_left hdim]
      simp [at0, hdim]
    rw [r5 k hk' c hc, if_pos ⟨by omega, by omega⟩]
    show _ = (T.stack (items.map fun m => m.leaf k) dim).get c
    rw [T.stack_get, List.getElem?_map, List.getElem?_eq_getElem hcd]
    rfl

end TdVerif.C08
