/-
  `infer_size_impl`: the generated definitions (Gen/PyFuns.lean) equal the hand model
  (Model/InferSize.lean `infer`), and the hand model equals the closed-form decision table.
-/
import TdVerif.Gen.PyFuns
import TdVerif.Model.InferSize
import TdVerif.Lemmas.C18Fold

namespace TdVerif.InferSize
open TdVerif.Fold

theorem scanM_step_eq_scan : ∀ (l : List Int) (i : Nat) (st : St), scanM step l i st = scan l i st
  | [], _, _ => rfl
  | x :: xs, i, st => by
    simp only [scanM, scan]
    congr 1; funext st'; exact scanM_step_eq_scan xs (i + 1) st'

/-- any loop body that is pointwise `step` on `shape[i]` (the form py2lean emits, whatever its `let`s)
makes the `foldlM` over `range(len(shape))` the structural `scan` -/
theorem foldlM_eq_scan (shape : List Int) (g : St → Nat → Except String St)
    (hg : ∀ st i, g st i = step st i (shape.getD i 0)) (st : St) :
    (List.range shape.length).foldlM (m := Except String) g st = scan shape 0 st := by
  have : g = fun st i => step st i (shape.getD i 0) := by funext st i; exact hg st i
  subst this
  rw [foldlM_range_getD, scanM_step_eq_scan]

theorem match_eq_bind (r : Except String St) (k : St → Except String (List Int)) :
    (match r with | .error e => .error e | .ok (a, b) => k (a, b)) = r >>= k := by
  cases r <;> rfl

theorem gen_eq_infer (shape : List Int) (numel : Int) : Gen.inferSizeImpl shape numel = infer shape numel := by
  unfold Gen.inferSizeImpl infer
  simp only []
  rw [foldlM_eq_scan shape _ (by
    intro st i; rcases st with ⟨d, n⟩
    simp only [step, Int.ofNat_eq_natCast, Int.toNat_natCast]
    split <;> rfl)]
  cases scan shape 0 (none, 1) with
  | error e => rfl
  | ok st =>
    rcases st with ⟨d, n⟩
    simp only [bind, Except.bind, post]
    split
    · rfl
    · cases d <;> rfl

theorem genLocal_eq_infer (shape : List Int) (numel : Int) : Gen.inferSizeImplLocal shape numel = infer shape numel := by
  unfold Gen.inferSizeImplLocal infer
  simp only []
  rw [foldlM_eq_scan shape _ (by
    intro st i; rcases st with ⟨d, n⟩
    simp only [step, Int.ofNat_eq_natCast, Int.toNat_natCast]
    split <;> rfl)]
  cases scan shape 0 (none, 1) with
  | error e => rfl
  | ok st =>
    rcases st with ⟨d, n⟩
    simp only [bind, Except.bind, post]
    split
    · rfl
    · cases d <;> rfl

/-! ### the loop in closed form (loop invariant: `newsize` = product of the non-placeholder entries seen,
`infer_dim` = index of the only `-1` seen) -/

theorem nonneg_iff (l : List Int) : (∀ x ∈ l, 0 ≤ x) ↔ (∀ x ∈ l, -1 ≤ x) ∧ l.count (-1) = 0 := by
  induction l with
  | nil => simp
  | cons x xs ih =>
    simp only [List.mem_cons, forall_eq_or_imp, ih, List.count_cons]
    constructor
    · rintro ⟨h0, h1, h2⟩
      refine ⟨⟨by omega, h1⟩, ?_⟩
      have : (x == -1) = false := by simp; omega
      simp [this, h2]
    · rintro ⟨⟨h0, h1⟩, h2⟩
      by_cases hx : x = -1
      · simp [hx] at h2
      · have : (x == -1) = false := by simp [hx]
        simp [this] at h2
        exact ⟨by omega, h1, h2⟩

/-- once a `-1` has been seen: every further entry must be ≥ 0 -/
theorem scan_some (v : Int) : ∀ (suf : List Int) (k : Nat) (ns : Int),
    scan suf k (some v, ns) =
      if (∀ x ∈ suf, 0 ≤ x) then .ok (some v, ns * others suf) else .error "AssertionError"
  | [], k, ns => by simp [scan, others]
  | x :: xs, k, ns => by
    simp only [scan, step]
    by_cases h1 : x = -1
    · subst h1; simp [bind, Except.bind]
    · by_cases h2 : x ≥ 0
      · simp only [h1, h2, if_true, if_false, bind, Except.bind, scan_some v xs (k + 1) (ns * x), others]
        simp only [List.mem_cons, forall_eq_or_imp, Int.mul_assoc]
        have : 0 ≤ x := h2
        simp [this]
      · simp only [h1, h2, if_false, bind, Except.bind]
        have : ¬ (∀ y ∈ x :: xs, 0 ≤ y) := by
          intro h; exact h2 (h x (by simp))
        rw [if_neg this]

theorem wellformed_cons_neg1 (xs : List Int) : Wellformed (-1 :: xs) ↔ ∀ x ∈ xs, 0 ≤ x := by
  rw [nonneg_iff]
  simp only [Wellformed, List.mem_cons, forall_eq_or_imp, List.count_cons_self]
  constructor
  · rintro ⟨⟨_, h⟩, hc⟩; exact ⟨h, by omega⟩
  · rintro ⟨h, hc⟩; exact ⟨⟨by omega, h⟩, by omega⟩

theorem count_cons_ne (x : Int) (xs : List Int) (h : x ≠ -1) : (x :: xs).count (-1) = xs.count (-1) := by
  have : (x == -1) = false := by simp [h]
  simp [List.count_cons, this]

theorem wellformed_cons_nonneg (x : Int) (xs : List Int) (h : 0 ≤ x) : Wellformed (x :: xs) ↔ Wellformed xs := by
  simp only [Wellformed, List.mem_cons, forall_eq_or_imp, count_cons_ne x xs (by omega)]
  constructor
  · rintro ⟨⟨_, h1⟩, h2⟩; exact ⟨h1, h2⟩
  · rintro ⟨h1, h2⟩; exact ⟨⟨by omega, h1⟩, h2⟩

theorem slot_cons_ne (x : Int) (xs : List Int) (h : x ≠ -1) : slot (x :: xs) = slot xs + 1 := by
  have : (x == -1) = false := by simp [h]
  simp [slot, List.findIdx_cons, this]

/-- before any `-1` has been seen -/
theorem scan_none : ∀ (suf : List Int) (k : Nat) (ns : Int),
    scan suf k (none, ns) =
      if Wellformed suf then
        .ok (if suf.count (-1) = 0 then none else some (Int.ofNat (k + slot suf)), ns * others suf)
      else .error "AssertionError"
  | [], k, ns => by simp [scan, others, Wellformed]
  | x :: xs, k, ns => by
    simp only [scan, step]
    by_cases h1 : x = -1
    · subst h1
      simp only [if_true, bind, Except.bind, scan_some, wellformed_cons_neg1, others, slot]
      simp [List.findIdx_cons]
    · by_cases h2 : x ≥ 0
      · have h2' : 0 ≤ x := h2
        simp only [h1, h2, if_true, if_false, bind, Except.bind, scan_none xs (k + 1) (ns * x), others,
          wellformed_cons_nonneg x xs h2', count_cons_ne x xs h1, slot_cons_ne x xs h1, Int.mul_assoc]
        have : k + 1 + slot xs = k + (slot xs + 1) := by omega
        rw [this]
      · simp only [h1, h2, if_false, bind, Except.bind]
        have : ¬ Wellformed (x :: xs) := by
          intro h; have := h.1 x (by simp); omega
        rw [if_neg this]

theorem others_nonneg : ∀ (l : List Int), (∀ x ∈ l, -1 ≤ x) → 0 ≤ others l
  | [], _ => by simp [others]
  | x :: xs, h => by
    have ih := others_nonneg xs (fun y hy => h y (by simp [hy]))
    have hx := h x (by simp)
    simp only [others]
    split
    · exact ih
    · exact Int.mul_nonneg (by omega) ih

/-- the hand model equals the decision table -/
theorem infer_eq_closedForm (shape : List Int) (numel : Int) : infer shape numel = closedForm shape numel := by
  unfold infer closedForm
  rw [scan_none]
  by_cases hw : Wellformed shape
  · have hP := others_nonneg shape hw.1
    simp only [hw, if_true, not_true, if_false, bind, Except.bind, post, Int.one_mul]
    by_cases hc : shape.count (-1) = 0
    · simp only [hc, if_true, Option.isSome_none, Bool.false_eq_true, false_and, or_false]
      by_cases hn : numel = others shape <;> simp [hn]
    · simp only [hc, if_false, Option.isSome_some, true_and]
      by_cases hn : numel = others shape
      · simp only [hn, true_or, not_true, if_false, if_true]
        by_cases h0 : others shape = 0
        · simp [h0]
        · simp [h0]
      · simp only [hn, false_or, if_false]
        by_cases hd : 0 < others shape ∧ others shape ∣ numel
        · have hm : Int.fmod numel (others shape) = 0 := by
            rw [Int.fmod_eq_emod_of_nonneg _ hP]; exact Int.emod_eq_zero_of_dvd hd.2
          have hne : others shape ≠ 0 := by omega
          have hgt : others shape > 0 := hd.1
          simp only [hd, hm, and_self, not_true, if_false, if_true, hne, Int.fdiv_eq_ediv_of_nonneg _ hP]
          simp
        · have : ¬ (others shape > 0 ∧ Int.fmod numel (others shape) = 0) := by
            rintro ⟨h1, h2⟩
            apply hd
            refine ⟨h1, ?_⟩
            rw [Int.fmod_eq_emod_of_nonneg _ hP] at h2
            exact Int.dvd_of_emod_eq_zero h2
          simp only [this, not_false_eq_true, if_true, hd, if_false]
  · simp [hw, bind, Except.bind]

/-! ### arithmetic of the filled shape -/

theorem others_eq_prod : ∀ (l : List Int), (∀ x ∈ l, 0 ≤ x) → others l = l.prod
  | [], _ => by simp [others]
  | x :: xs, h => by
    have ih := others_eq_prod xs (fun y hy => h y (by simp [hy]))
    have hx := h x (by simp)
    have : x ≠ -1 := by omega
    simp [others, this, ih]

/-- what writing `v` into the placeholder position does -/
theorem set_slot_spec (v : Int) : ∀ (l : List Int), Wellformed l → l.count (-1) ≠ 0 →
    (l.set (slot l) v).prod = v * others l ∧ (0 ≤ v → ∀ x ∈ l.set (slot l) v, 0 ≤ x)
      ∧ slot l < l.length ∧ l[slot l]? = some (-1) ∧ (∀ i : Nat, l[i]? = some (-1) → i = slot l)
  | [], _, hc => by simp at hc
  | x :: xs, hw, hc => by
    by_cases hx : x = -1
    · subst hx
      have hnn := (wellformed_cons_neg1 xs).1 hw
      have hno : ∀ i : Nat, xs[i]? ≠ some (-1) := by
        intro i hi
        have := hnn (-1) (List.mem_of_getElem? hi)
        omega
      refine ⟨?_, ?_, ?_, ?_, ?_⟩
      · simp [slot, List.findIdx_cons, others, others_eq_prod xs hnn]
      · intro hv y hy
        simp [slot, List.findIdx_cons] at hy
        rcases hy with rfl | hy
        · exact hv
        · exact hnn y hy
      · simp [slot, List.findIdx_cons]
      · simp [slot, List.findIdx_cons]
      · intro i hi
        cases i with
        | zero => simp [slot, List.findIdx_cons]
        | succ j => simp at hi; exact absurd hi (hno j)
    · have hx0 : 0 ≤ x := by have := hw.1 x (by simp); omega
      have hw' := (wellformed_cons_nonneg x xs hx0).1 hw
      have hc' : xs.count (-1) ≠ 0 := by rwa [count_cons_ne x xs hx] at hc
      obtain ⟨h1, h2, h3, h4, h5⟩ := set_slot_spec v xs hw' hc'
      rw [slot_cons_ne x xs hx]
      refine ⟨?_, ?_, ?_, ?_, ?_⟩
      · simp only [List.set_cons_succ, List.prod_cons, h1, others, hx, if_false]
        rw [Int.mul_left_comm]
      · intro hv y hy
        simp only [List.set_cons_succ, List.mem_cons] at hy
        rcases hy with rfl | hy
        · exact hx0
        · exact h2 hv y hy
      · simp; omega
      · simpa using h4
      · intro i hi
        cases i with
        | zero => simp at hi; exact absurd hi hx
        | succ j => simp at hi; have := h5 j hi; omega

end TdVerif.InferSize
