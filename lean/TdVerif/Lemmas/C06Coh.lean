/-
  C06 — cache coherence: definitions and the per-event facts.
-/
import TdVerif.Lemmas.C06Struct

namespace TdVerif.C06
open TdVerif.C05

/-- only a live object that holds a lock of its own has anything memoised -/
def Clean (s : CState) : Prop := ∀ i, (live s.heap i && flagged s.heap i) = false → s.cache i = []

/-- memoised tensordict-valued results are allocated objects -/
def ObjBounded (s : CState) : Prop := ∀ i q o, (q, Res.object o) ∈ s.cache i → o < s.heap.size

/-- **every memoised entry is what a fresh computation would return now**: values are equal to the recomputed value;
a memoised tensordict holds exactly the entries a fresh computation would build. -/
def Coherent (sem : Sem) (s : CState) : Prop :=
  ∀ i q r, (q, r) ∈ s.cache i →
    match r with
    | .value c => c = freshValue sem s.heap i q ∧ q.allocates = false
    | .object o => bindings (s.heap.node o) = (sem.build q.sem (content s.heap i)).map (fun e => (e.1, e.2.1)) ∧
        (s.heap.node o).kids = [] ∧ q.allocates = true

structure CInv (sem : Sem) (s : CState) : Prop where
  inv : Inv s.heap
  clean : Clean s
  objs : ObjBounded s
  coh : Coherent sem s

/-- `o` is a tensordict that some cache would hand out again -/
def IsResult (s : CState) (o : Nat) : Prop := ∃ i q, (q, Res.object o) ∈ s.cache i

theorem cacheActive_eq_flagged (h : Heap) (i : Nat) : cacheActive h i = flagged h i := by
  unfold cacheActive flagged isLocked
  cases hf : (h.node i).flag with
  | none => simp [isLockedF, hf]
  | some b => cases b <;> simp [isLockedF, hf]

theorem eraseAt_self (c : Cache) (i : Nat) : eraseAt c i i = [] := by simp [eraseAt]
theorem eraseAt_cases (c : Cache) (i j : Nat) : eraseAt c i j = [] ∨ eraseAt c i j = c j := by
  unfold eraseAt; split
  · exact .inl rfl
  · exact .inr rfl

theorem eraseMany_cases : ∀ (l : List Nat) (c : Cache) (j : Nat), eraseMany c l j = [] ∨ eraseMany c l j = c j := by
  intro l
  induction l with
  | nil => intro c j; exact .inr rfl
  | cons a l ih =>
    intro c j
    show eraseMany (eraseAt c a) l j = [] ∨ eraseMany (eraseAt c a) l j = c j
    rcases ih (eraseAt c a) j with x | x
    · exact .inl x
    · rcases eraseAt_cases c a j with y | y
      · exact .inl (by rw [x, y])
      · exact .inr (by rw [x, y])

theorem eraseMany_mem : ∀ (l : List Nat) (c : Cache) (j : Nat), j ∈ l → eraseMany c l j = [] := by
  intro l
  induction l with
  | nil => intro c j hj; cases hj
  | cons a l ih =>
    intro c j hj
    show eraseMany (eraseAt c a) l j = []
    rcases List.mem_cons.mp hj with rfl | hj
    · rcases eraseMany_cases l (eraseAt c j) j with x | x
      · exact x
      · rw [x, eraseAt_self]
    · exact ih _ j hj

/-- `_erase_cache_up` only erases -/
theorem eraseUpF_cases : ∀ n h c i j, eraseUpF n h c i j = [] ∨ eraseUpF n h c i j = c j := by
  intro n
  induction n with
  | zero => intro h c i j; exact eraseAt_cases c i j
  | succ n ih =>
    intro h c i j
    simp only [eraseUpF]
    have key : ∀ (l : List Nat) (acc : Cache), (acc j = [] ∨ acc j = c j) →
        (l.foldl (fun acc p => eraseUpF n h acc p) acc j = [] ∨ l.foldl (fun acc p => eraseUpF n h acc p) acc j = c j) := by
      intro l
      induction l with
      | nil => intro acc ha; exact ha
      | cons p l ihl =>
        intro acc ha
        apply ihl
        show eraseUpF n h acc p j = [] ∨ eraseUpF n h acc p j = c j
        rcases ih h acc p j with x | x
        · exact .inl x
        · rw [x]; exact ha
    exact key _ _ (eraseAt_cases c i j)

theorem eraseUpF_keeps_empty (n : Nat) (h : Heap) (c : Cache) (i j : Nat) (hj : c j = []) : eraseUpF n h c i j = [] := by
  rcases eraseUpF_cases n h c i j with x | x
  · exact x
  · rw [x, hj]

theorem foldl_eraseUp_keeps_empty (n : Nat) (h : Heap) (j : Nat) :
    ∀ (l : List Nat) (acc : Cache), acc j = [] → l.foldl (fun acc p => eraseUpF n h acc p) acc j = [] := by
  intro l
  induction l with
  | nil => intro acc ha; exact ha
  | cons p l ih => intro acc ha; exact ih _ (eraseUpF_keeps_empty n h acc p j ha)

/-- `_erase_cache_up` reaches every live flagged container above `i` (through the direct containers, which the lock-graph
invariant keeps registered) -/
theorem eraseUpF_reaches (h : Heap) (hinv : Inv h) :
    ∀ (p i : Nat), Reach h p i → live h p = true → flagged h p = true →
      ∀ n c, p < i + (n + 1) → eraseUpF n h c i p = [] := by
  intro p i r
  induction r with
  | refl =>
    intro _ _ n c _
    rcases eraseUpF_cases n h c p p with x | x
    · exact x
    · cases n with
      | zero => simp [eraseUpF, eraseAt_self]
      | succ n =>
        simp only [eraseUpF]
        exact foldl_eraseUp_keeps_empty n h p _ _ (eraseAt_self c p)
  | step rb hc ih =>
    rename_i b c'
    intro hl hf n c hn
    have ⟨hlb, hfb⟩ := closed_reach hinv hl hf b rb
    have hbc := hinv.ordered b c' hc
    have hpb := rb.le hinv.ordered
    have hmem : b ∈ (parentsOf h c').filter (fun p => live h p) := by
      rw [List.mem_filter]; exact ⟨(hinv.closed b c' hlb hfb hc).2, hlb⟩
    cases n with
    | zero => omega
    | succ n =>
      simp only [eraseUpF]
      -- the fold visits `b`; afterwards `p` stays erased
      have key : ∀ (l : List Nat) (acc : Cache), b ∈ l →
          l.foldl (fun acc q => eraseUpF n h acc q) acc p = [] := by
        intro l
        induction l with
        | nil => intro acc hb; cases hb
        | cons q l ihl =>
          intro acc hb
          rcases List.mem_cons.mp hb with rfl | hb
          · exact foldl_eraseUp_keeps_empty n h p l _ (ih hl hf n acc (by omega))
          · exact ihl _ hb
      exact key _ _ hmem

/-- coherence carries over to a state whose caches are a subset and whose kept entries see the same subtree -/
theorem coherent_transfer (sem : Sem) (s s' : CState)
    (hc : ∀ i, s'.cache i = [] ∨ s'.cache i = s.cache i)
    (hcont : ∀ i, s.cache i ≠ [] → s'.cache i ≠ [] → content s'.heap i = content s.heap i)
    (hobj : ∀ o, IsResult s o → (s'.heap.node o).kids = (s.heap.node o).kids ∧
      payload (s'.heap.node o) = payload (s.heap.node o))
    (h : Coherent sem s) : Coherent sem s' := by
  intro i q r hmem
  have hne' : s'.cache i ≠ [] := fun e => by rw [e] at hmem; cases hmem
  have heq : s'.cache i = s.cache i := by
    rcases hc i with x | x
    · exact absurd x hne'
    · exact x
  rw [heq] at hmem
  have hne : s.cache i ≠ [] := fun e => by rw [e] at hmem; cases hmem
  have hct := hcont i hne hne'
  have := h i q r hmem
  cases r with
  | value c => simp only at this ⊢; unfold freshValue at this ⊢; rw [hct]; exact this
  | object o =>
    simp only at this ⊢
    obtain ⟨a, b⟩ := hobj o ⟨i, q, hmem⟩
    rw [hct, a, payload_bindings b]; exact this

end TdVerif.C06
