/-
  C06 — cache coherence: definitions and the per-event facts.
-/
import TdVerif.Lemmas.C06Struct

namespace TdVerif.C06
open TdVerif.C05

/-- only a live object that holds a lock of its own has anything memoised -/
def Clean (s : CState) : Prop := ∀ i, (live s.heap i && flagged s.heap i) = false → s.cache i = []

/-- memoised tensordict-valued results are allocated objects -/
def ObjBounded (s : CState) : Prop := ∀ i q o, (q, Res.object o) ∈ s.cache i → o < s.heap.size

/-- **every memoised entry is what a fresh computation would return now**: values are equal to the recomputed value;
a memoised tensordict holds exactly the entries a fresh computation would build. -/
def Coherent (sem : Sem) (s : CState) : Prop :=
  ∀ i q r, (q, r) ∈ s.cache i →
    match r with
    | .value c => c = freshValue sem s.heap i q ∧ q.allocates = false
    | .object o => bindings (s.heap.node o) = (sem.build q.sem (content s.heap i)).map (fun e => (e.1, e.2.1)) ∧
        (s.heap.node o).kids = [] ∧ q.allocates = true

structure CInv (sem : Sem) (s : CState) : Prop where
  inv : Inv s.heap
  clean : Clean s
  objs : ObjBounded s
  coh : Coherent sem s

/-- `o` is a tensordict that some cache would hand out again -/
def IsResult (s : CState) (o : Nat) : Prop := ∃ i q, (q, Res.object o) ∈ s.cache i

theorem cacheActive_eq_flagged (h : Heap) (i : Nat) : cacheActive h i = flagged h i := by
  unfold cacheActive flagged isLocked
  cases hf : (h.node i).flag with
  | none => simp [isLockedF, hf]
  | some b => cases b <;> simp [isLockedF, hf]

theorem eraseAt_self (c : Cache) (i : Nat) : eraseAt c i i = [] := by simp [eraseAt]
theorem eraseAt_cases (c : Cache) (i j : Nat) : eraseAt c i j = [] ∨ eraseAt c i j = c j := by
  unfold eraseAt; split
  · exact .inl rfl
  · exact .inr rfl

theorem eraseMany_cases : ∀ (l : List Nat) (c : Cache) (j : Nat), eraseMany c l j = [] ∨ eraseMany c l j = c j := by
  intro l
  induction l with
  | nil => intro c j; exact .inr rfl
  | cons a l ih =>
    intro c j
    show eraseMany (eraseAt c a) l j = [] ∨ eraseMany (eraseAt c a) l j = c j
    rcases ih (eraseAt c a) j with x | x
    · exact .inl x
    · rcases eraseAt_cases c a j with y | y
      · exact .inl (by rw [x, y])
      · exact .inr (by rw [x, y])

theorem eraseMany_mem : ∀ (l : List Nat) (c : Cache) (j : Nat), j ∈ l → eraseMany c l j = [] := by
  intro l
  induction l with
  | nil => intro c j hj; cases hj
  | cons a l ih =>
    intro c j hj
    show eraseMany (eraseAt c a) l j = []
    rcases List.mem_cons.mp hj with rfl | hj
    · rcases eraseMany_cases l (eraseAt c j) j with x | x
      · exact x
      · rw [x, eraseAt_self]
    · exact ih _ j hj

theorem mem_foldl_addNew (x : Nat) : ∀ (l acc : List Nat), (x ∈ acc ∨ x ∈ l) → x ∈ l.foldl addNew acc := by
  intro l
  induction l with
  | nil => intro acc h; rcases h with h | h; exact h; cases h
  | cons a l ih =>
    intro acc h
    apply ih
    rcases h with h | h
    · left; unfold addNew; split
      · exact h
      · exact List.mem_append_left _ h
    · rcases List.mem_cons.mp h with rfl | h
      · left; unfold addNew; split
        · rename_i hc; simpa using hc
        · exact List.mem_append_right _ (by simp)
      · exact .inr h

theorem mem_dedup {x : Nat} {l : List Nat} (h : x ∈ l) : x ∈ dedup l := mem_foldl_addNew x l [] (.inr h)

theorem of_mem_foldl_addNew (x : Nat) : ∀ (l acc : List Nat), x ∈ l.foldl addNew acc → x ∈ acc ∨ x ∈ l := by
  intro l
  induction l with
  | nil => intro acc h; exact .inl h
  | cons a l ih =>
    intro acc h
    rcases ih (addNew acc a) h with h1 | h1
    · unfold addNew at h1
      split at h1
      · exact .inl h1
      · rcases List.mem_append.mp h1 with h2 | h2
        · exact .inl h2
        · right; simp at h2; simp [h2]
    · exact .inr (List.mem_cons_of_mem _ h1)

theorem of_mem_dedup {x : Nat} {l : List Nat} (h : x ∈ dedup l) : x ∈ l := by
  rcases of_mem_foldl_addNew x l [] h with h | h
  · cases h
  · exact h

theorem mem_parentsUp {h : Heap} {fr : List Nat} {i p : Nat} (hi : i ∈ fr) (hp : p ∈ parentsOf h i) (hl : live h p = true) :
    p ∈ parentsUp h fr := by
  unfold parentsUp
  apply mem_dedup
  exact List.mem_flatMap.mpr ⟨i, hi, List.mem_filter.mpr ⟨hp, by simpa using hl⟩⟩

theorem eraseLv_cases : ∀ n h c fr j, eraseLv n h c fr j = [] ∨ eraseLv n h c fr j = c j := by
  intro n
  induction n with
  | zero => intro h c fr j; exact eraseMany_cases fr c j
  | succ n ih =>
    intro h c fr j
    simp only [eraseLv]
    rcases ih h (eraseMany c fr) (parentsUp h fr) j with x | x
    · exact .inl x
    · rcases eraseMany_cases fr c j with y | y
      · exact .inl (by rw [x, y])
      · exact .inr (by rw [x, y])

theorem eraseLv_keeps_empty (n : Nat) (h : Heap) (c : Cache) (fr : List Nat) (j : Nat) (hj : c j = []) : eraseLv n h c fr j = [] := by
  rcases eraseLv_cases n h c fr j with x | x
  · exact x
  · rw [x, hj]

theorem eraseLv_mem (n : Nat) (h : Heap) (c : Cache) (fr : List Nat) (j : Nat) (hj : j ∈ fr) : eraseLv n h c fr j = [] := by
  cases n with
  | zero => exact eraseMany_mem _ _ _ hj
  | succ n => simp only [eraseLv]; exact eraseLv_keeps_empty n h _ _ j (eraseMany_mem _ _ _ hj)

/-- `_erase_cache_up` only erases -/
theorem eraseUpF_cases (n : Nat) (h : Heap) (c : Cache) (i j : Nat) : eraseUpF n h c i j = [] ∨ eraseUpF n h c i j = c j :=
  eraseLv_cases n h c [i] j

theorem eraseUpF_keeps_empty (n : Nat) (h : Heap) (c : Cache) (i j : Nat) (hj : c j = []) : eraseUpF n h c i j = [] :=
  eraseLv_keeps_empty n h c [i] j hj

/-- a generation that contains `i` reaches every live flagged container above `i` -/
theorem eraseLv_reaches (h : Heap) (hinv : Inv h) :
    ∀ (p i : Nat), Reach h p i → live h p = true → flagged h p = true →
      ∀ n c fr, i ∈ fr → p < i + (n + 1) → eraseLv n h c fr p = [] := by
  intro p i r
  induction r with
  | refl => intro _ _ n c fr hi _; exact eraseLv_mem n h c fr p hi
  | step rb hc ih =>
    rename_i b c'
    intro hl hf n c fr hi hn
    have ⟨hlb, hfb⟩ := closed_reach hinv hl hf b rb
    have hbc := hinv.ordered b c' hc
    have hpb := rb.le hinv.ordered
    have hmem : b ∈ parentsUp h fr := mem_parentsUp hi (hinv.closed b c' hlb hfb hc).2 hlb
    cases n with
    | zero => omega
    | succ n =>
      simp only [eraseLv]
      exact ih hl hf n _ _ hmem (by omega)

/-- `_erase_cache_up` reaches every live flagged container above `i` (through the direct containers, which the lock-graph
invariant keeps registered) -/
theorem eraseUpF_reaches (h : Heap) (hinv : Inv h) :
    ∀ (p i : Nat), Reach h p i → live h p = true → flagged h p = true →
      ∀ n c, p < i + (n + 1) → eraseUpF n h c i p = [] :=
  fun p i r hl hf n c hn => eraseLv_reaches h hinv p i r hl hf n c [i] (by simp) hn

/-- coherence carries over to a state whose caches are a subset and whose kept entries see the same subtree -/
theorem coherent_transfer (sem : Sem) (s s' : CState)
    (hc : ∀ i, s'.cache i = [] ∨ s'.cache i = s.cache i)
    (hcont : ∀ i, s.cache i ≠ [] → s'.cache i ≠ [] → content s'.heap i = content s.heap i)
    (hobj : ∀ o, IsResult s o → (s'.heap.node o).kids = (s.heap.node o).kids ∧
      payload (s'.heap.node o) = payload (s.heap.node o))
    (h : Coherent sem s) : Coherent sem s' := by
  intro i q r hmem
  have hne' : s'.cache i ≠ [] := fun e => by rw [e] at hmem; cases hmem
  have heq : s'.cache i = s.cache i := by
    rcases hc i with x | x
    · exact absurd x hne'
    · exact x
  rw [heq] at hmem
  have hne : s.cache i ≠ [] := fun e => by rw [e] at hmem; cases hmem
  have hct := hcont i hne hne'
  have := h i q r hmem
  cases r with
  | value c => simp only at this ⊢; unfold freshValue at this ⊢; rw [hct]; exact this
  | object o =>
    simp only at this ⊢
    obtain ⟨a, b⟩ := hobj o ⟨i, q, hmem⟩
    rw [hct, a, payload_bindings b]; exact this

end TdVerif.C06
