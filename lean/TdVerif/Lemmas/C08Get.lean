/-
  C08 — TensorDict-level read refinement: `absR (lazyGetCore L ix) ≈ (absL L).index ix`.
-/
import TdVerif.Lemmas.C08Split
namespace TdVerif.C08

theorem allSome_eq_some {β} : ∀ (l : List (Option β)) (r : List β), allSome l = some r ↔ l = r.map some
  | [], r => by cases r <;> simp [allSome]
  | none :: l, r => by cases r <;> simp [allSome]
  | some x :: l, r => by
    cases r with
    | nil => simp [allSome]
    | cons y r =>
      simp only [allSome, Option.map_eq_some_iff, List.map_cons, List.cons.injEq, Option.some.injEq]
      constructor
      · rintro ⟨r', h1, h2, h3⟩
        exact ⟨h2, h3 ▸ (allSome_eq_some l r').mp h1⟩
      · rintro ⟨h1, h2⟩
        exact ⟨r, (allSome_eq_some l r).mpr h2, h1, rfl⟩

theorem idxT_nil (t : T α) : idxT [] t = t := rfl

theorem TD.index_nil (m : TD α) : m.index [] = some m := rfl

theorem memberIndex_eq (L : Lazy α) (out : List Ix) (i : Nat) :
    memberIndex L out i = (L.members[i]?).bind (·.index out) := by
  unfold memberIndex
  cases L.members[i]? with
  | none => rfl
  | some m =>
    cases out with
    | nil => simp [TD.index_nil]
    | cons a r => simp

theorem idxShape_append (f : Shape) : ∀ (ix : List Ix) (sh s : Shape),
    idxShape ix sh = some s → idxShape ix (sh ++ f) = some (s ++ f)
  | [], sh, s, h => by simp [idxShape] at h ⊢; exact h
  | .none :: r, sh, s, h => by
    simp only [idxShape, Option.map_eq_some_iff] at h ⊢
    obtain ⟨s', hs', rfl⟩ := h
    exact ⟨s' ++ f, idxShape_append f r sh s' hs', rfl⟩
  | .ell :: r, sh, s, h => by simp [idxShape] at h
  | .mask m :: r, sh, s, h => by
    simp only [idxShape] at h ⊢
    split at h
    case isFalse => simp at h
    case isTrue hc =>
      simp only [Option.map_eq_some_iff] at h
      obtain ⟨s', hs', rfl⟩ := h
      have hk : m.shape.length ≤ sh.length := by
        have := congrArg List.length hc.2
        simp at this; omega
      rw [if_pos ⟨hc.1, by rw [List.take_append_of_le_length hk]; exact hc.2⟩]
      rw [List.drop_append_of_le_length hk, idxShape_append f r _ s' hs']
      rfl
  | .int _ :: _, [], _, h => by simp [idxShape] at h
  | .slice .. :: _, [], _, h => by simp [idxShape] at h
  | .tens _ :: _, [], _, h => by simp [idxShape] at h
  | .int i :: r, d :: sh, s, h => by
    simp only [idxShape, List.cons_append] at h ⊢
    split at h
    · rename_i hc; rw [if_pos hc]; exact idxShape_append f r sh s h
    · simp at h
  | .slice a b c :: r, d :: sh, s, h => by
    simp only [idxShape, List.cons_append] at h ⊢
    split at h
    · rename_i x st len heq
      split at h
      · rename_i hc
        simp only [Option.map_eq_some_iff] at h
        obtain ⟨s', hs', rfl⟩ := h
        rw [if_pos hc, idxShape_append f r sh s' hs']; rfl
      · simp at h
    · simp at h
  | .tens t :: r, d :: sh, s, h => by
    simp only [idxShape, List.cons_append] at h ⊢
    split at h
    · rename_i hc
      simp only [Option.map_eq_some_iff] at h
      obtain ⟨s', hs', rfl⟩ := h
      rw [if_pos hc, idxShape_append f r sh s' hs']; simp
    · simp at h

/-- the property's quantifier: members with one batch size, one key list, one shape per key -/
structure Uniform (L : Lazy α) (b : Shape) (keys : List String) (feat : String → Shape) : Prop where
  hbatch : ∀ m ∈ L.members, m.batch = b
  hkeys : ∀ m ∈ L.members, m.keys = keys
  hleaf : ∀ m ∈ L.members, ∀ k ∈ keys, (m.leaf k).shape = b ++ feat k
  hsd : L.sd ≤ b.length

theorem lazyStack_some (items : List (TD α)) (p : Nat) (L' : Lazy α)
    (h : lazyStack items (p : Int) = some L') :
    ∃ m rest, items = m :: rest ∧ L' = ⟨items, p⟩ ∧ p ≤ m.batch.length := by
  unfold lazyStack at h
  cases items with
  | nil => simp at h
  | cons m rest =>
    simp only [] at h
    have hneg : ¬ ((p : Int) < 0) := by omega
    simp only [hneg, if_false] at h
    split at h
    · simp at h
    · rename_i hc
      split at h
      · simp at h
        refine ⟨m, rest, rfl, h.symm, ?_⟩
        omega
      · simp at h

theorem memberIndex_some (L : Lazy α) (b : Shape) (keys : List String) (feat : String → Shape)
    (hU : Uniform L b keys feat) (out : List Ix) (i : Nat) (x : TD α)
    (h : memberIndex L out i = some x) :
    ∃ (hi : i < L.members.length) (so : Shape), idxShape out b = some so ∧
      x = (L.members[i]).mapLeaves so (idxT out) := by
  rw [memberIndex_eq] at h
  cases hm : L.members[i]? with
  | none => simp [hm] at h
  | some m =>
    have hi : i < L.members.length := by
      rcases Nat.lt_or_ge i L.members.length with h' | h'
      · exact h'
      · simp [List.getElem?_eq_none h'] at hm
    have hmm : L.members[i] = m := by
      rw [List.getElem?_eq_getElem hi] at hm; exact Option.some.inj hm
    simp only [hm, Option.bind_some, TD.index, Option.map_eq_some_iff] at h
    obtain ⟨so, hso, rfl⟩ := h
    rw [hU.hbatch m (hmm ▸ List.getElem_mem hi)] at hso
    exact ⟨hi, so, hso, by rw [hmm]⟩

theorem insertIdx_append_of_le {β} (x : β) (f : List β) : ∀ (l : List β) (i : Nat), i ≤ l.length →
    (l ++ f).insertIdx i x = l.insertIdx i x ++ f
  | l, 0, _ => by simp
  | [], i + 1, h => by simp at h
  | a :: l, i + 1, h => by simp [insertIdx_append_of_le x f l i (by simpa using h)]

theorem absL_batch [Inhabited α] (L : Lazy α) : (absL L).batch = L.batch := rfl

theorem head_batch_of_uniform (L : Lazy α) (b : Shape) (keys : List String) (feat : String → Shape)
    (hU : Uniform L b keys feat) (hne : L.members ≠ []) :
    (L.members.head?.map TD.batch).getD [] = b ∧ (L.members.head?.map TD.keys).getD [] = keys := by
  cases hm : L.members with
  | nil => exact absurd hm hne
  | cons m r =>
    have := hU.hbatch m (by simp [hm])
    have := hU.hkeys m (by simp [hm])
    simp [*]

theorem get_slice_case [Inhabited α] (L : Lazy α) (b : Shape) (keys : List String) (feat : String → Shape)
    (hU : Uniform L b keys feat) (ix : List Ix) (hp : Plain L.sd ix)
    (a bb c : Option Int) (hit : (splitRec L.sd ix).item.getD Ix.full = .slice a bb c)
    (s0 stp : Int) (len : Nat) (hn : sliceNorm a bb c L.members.length = some (s0, stp, len))
    (res : List (TD α))
    (hres : allSome (((List.range len).map (sliceAt s0 stp)).map (memberIndex L (splitRec L.sd ix).out)) = some res)
    (L' : Lazy α) (hL' : lazyStack res ((splitRec L.sd ix).pos : Int) = some L')
    (d : TD α) (hd : (absL L).index ix = some d) :
    absL L' ≈ d := by
  obtain ⟨m0, rest, hres0, rfl, hpos⟩ := lazyStack_some res _ L' hL'
  have hmap := (allSome_eq_some _ _).mp hres
  have hlen : len = res.length := by
    have := congrArg List.length hmap; simpa using this
  have hlen0 : 0 < len := by rw [hlen, hres0]; simp
  have hj : ∀ j (h : j < len), memberIndex L (splitRec L.sd ix).out (sliceAt s0 stp j) = some (res[j]'(hlen ▸ h)) := by
    intro j h
    have := congrArg (fun l => l[j]?) hmap
    simp [h, hlen ▸ h] at this
    exact this
  -- the common result shape of the members
  obtain ⟨hi0, so, hso, hr0⟩ := memberIndex_some L b keys feat hU _ _ _ (hj 0 hlen0)
  have hne : L.members ≠ [] := by intro h; simp [h] at hi0
  obtain ⟨hb, hk⟩ := head_batch_of_uniform L b keys feat hU hne
  have hjj : ∀ j (h : j < len), ∃ (hi : sliceAt s0 stp j < L.members.length),
      res[j]'(hlen ▸ h) = (L.members[sliceAt s0 stp j]).mapLeaves so (idxT (splitRec L.sd ix).out) := by
    intro j h
    obtain ⟨hi, so', hso', hr⟩ := memberIndex_some L b keys feat hU _ _ _ (hj j h)
    rw [hso] at hso'; cases hso'
    exact ⟨hi, hr⟩
  -- the dense side
  simp only [TD.index, Option.map_eq_some_iff] at hd
  obtain ⟨bd, hbd, rfl⟩ := hd
  have hbatch : (absL L).batch = b.insertIdx L.sd L.members.length := by
    show ((L.members.head?.map TD.batch).getD []).insertIdx L.sd L.members.length = _
    rw [hb]
  rw [hbatch] at hbd
  have hsplit := shape_split L.members.length ix L.sd b hU.hsd hp
  rw [hbd, hso, hit] at hsplit
  simp only [itemShape, hn, Option.bind_some] at hsplit
  have hstp : 0 < stp := by
    by_cases h : 0 < stp
    · exact h
    · simp [h] at hsplit
  simp only [hstp, if_true, Option.map_some, Option.some.injEq] at hsplit
  have hm0 : m0 = (L.members[sliceAt s0 stp 0]'hi0).mapLeaves so (idxT (splitRec L.sd ix).out) := by
    have := hr0; simp only [hres0, List.getElem_cons_zero] at this; exact this
  refine ⟨?_, ?_, ?_⟩
  · -- batch
    show ((res.head?.map TD.batch).getD []).insertIdx (splitRec L.sd ix).pos res.length = bd
    rw [hsplit, ← hlen, hres0]
    simp only [List.head?_cons, Option.map_some, Option.getD_some, hm0, TD.mapLeaves]
    rw [insertIdx_eq_take_drop _ _ _ (by simpa [hm0, TD.mapLeaves] using hpos)]
  · -- keys
    show (res.head?.map TD.keys).getD [] = (L.members.head?.map TD.keys).getD []
    rw [hk, hres0]
    simp only [List.head?_cons, Option.map_some, Option.getD_some, hm0, TD.mapLeaves]
    exact hU.hkeys _ (List.getElem_mem _)
  · intro k hkk
    have hkeys : k ∈ keys := by
      have : (absL (⟨res, (splitRec L.sd ix).pos⟩ : Lazy α)).keys = keys := by
        show (res.head?.map TD.keys).getD [] = keys
        rw [hres0]
        simp only [List.head?_cons, Option.map_some, Option.getD_some, hm0, TD.mapLeaves]
        exact hU.hkeys _ (List.getElem_mem _)
      rw [this] at hkk; exact hkk
    show T.stack (res.map fun m => m.leaf k) (splitRec L.sd ix).pos
        ≈ₜ idxT ix (T.stack (L.members.map fun m => m.leaf k) L.sd)
    have hlist : (res.map fun m => m.leaf k) = (List.range len).map fun j =>
        idxT (splitRec L.sd ix).out ((L.members.map fun m => m.leaf k)[sliceAt s0 stp j]?.getD default) := by
      apply List.ext_getElem
      · simp [hlen]
      · intro j h1 h2
        have hjl : j < len := by simpa using h2
        obtain ⟨hi, hr⟩ := hjj j hjl
        simp only [List.getElem_map, List.getElem_range, hr, TD.mapLeaves, List.getElem?_map,
          List.getElem?_eq_getElem hi, Option.map_some, Option.getD_some]
    rw [hlist]
    have hms : (L.members.map fun m => m.leaf k).length = L.members.length := by simp
    have := idx_stack_slice (L.members.map fun m => m.leaf k) (b ++ feat k) L.sd ix
      (by
        intro t ht
        simp only [List.mem_map] at ht
        obtain ⟨m, hm, rfl⟩ := ht
        exact hU.hleaf m hm k hkeys)
      (by simp; have := hU.hsd; omega) hp (bd ++ feat k) (so ++ feat k)
      (by rw [hms, insertIdx_append_of_le _ _ _ _ hU.hsd]; exact idxShape_append _ _ _ _ hbd)
      (idxShape_append _ _ _ _ hso)
      (by simp; have : (splitRec L.sd ix).pos ≤ so.length := by simpa [hm0, TD.mapLeaves] using hpos
          omega)
      a bb c hit s0 stp len (by rw [hms]; exact hn) hlen0
      (by intro j hjl; rw [hms]; exact (hjj j hjl).1)
    exact this

theorem get_int_case [Inhabited α] (L : Lazy α) (b : Shape) (keys : List String) (feat : String → Shape)
    (hU : Uniform L b keys feat) (ix : List Ix) (hp : Plain L.sd ix)
    (kk : Int) (hit : (splitRec L.sd ix).item.getD Ix.full = .int kk)
    (j : Nat) (hn : normInt kk L.members.length = some j)
    (x : TD α) (hx : memberIndex L (splitRec L.sd ix).out j = some x)
    (d : TD α) (hd : (absL L).index ix = some d) :
    x ≈ d := by
  obtain ⟨hi, so, hso, rfl⟩ := memberIndex_some L b keys feat hU _ _ _ hx
  have hne : L.members ≠ [] := by intro h; simp [h] at hi
  obtain ⟨hb, hk⟩ := head_batch_of_uniform L b keys feat hU hne
  simp only [TD.index, Option.map_eq_some_iff] at hd
  obtain ⟨bd, hbd, rfl⟩ := hd
  have hbatch : (absL L).batch = b.insertIdx L.sd L.members.length := by
    show ((L.members.head?.map TD.batch).getD []).insertIdx L.sd L.members.length = _
    rw [hb]
  rw [hbatch] at hbd
  have hsplit := shape_split L.members.length ix L.sd b hU.hsd hp
  rw [hbd, hso, hit] at hsplit
  simp [itemShape, hn] at hsplit
  refine ⟨?_, ?_, ?_⟩
  · simp [TD.mapLeaves, hsplit]
  · show (L.members[j]).keys = (L.members.head?.map TD.keys).getD []
    rw [hk]; exact hU.hkeys _ (List.getElem_mem _)
  · intro k hkk
    have hkeys : k ∈ keys := by
      have : (L.members[j]).keys = keys := hU.hkeys _ (List.getElem_mem _)
      simpa [TD.mapLeaves, this] using hkk
    show idxT (splitRec L.sd ix).out ((L.members[j]).leaf k)
        ≈ₜ idxT ix (T.stack (L.members.map fun m => m.leaf k) L.sd)
    have hms : (L.members.map fun m => m.leaf k).length = L.members.length := by simp
    have := idx_stack_int (L.members.map fun m => m.leaf k) (b ++ feat k) L.sd ix
      (by
        intro t ht
        simp only [List.mem_map] at ht
        obtain ⟨m, hm, rfl⟩ := ht
        exact hU.hleaf m hm k hkeys)
      (by simp; have := hU.hsd; omega) hp (bd ++ feat k) (so ++ feat k)
      (by rw [hms, insertIdx_append_of_le _ _ _ _ hU.hsd]; exact idxShape_append _ _ _ _ hbd)
      (idxShape_append _ _ _ _ hso) kk hit j (by rw [hms]; exact hn) (by rw [hms]; exact hi)
    simpa [List.getElem?_eq_getElem hi] using this

theorem recomposeRow_some (L : Lazy α) (b : Shape) (keys : List String) (feat : String → Shape)
    (hU : Uniform L b keys feat) (out : List Ix) (p : Nat) (row : List Int) (L1 : Lazy α)
    (h : recomposeRow L out (p : Int) row = some L1) :
    ∃ (res : List (TD α)) (so : Shape), L1 = ⟨res, p⟩ ∧ res.length = row.length ∧ 0 < row.length ∧
      idxShape out b = some so ∧ p ≤ so.length ∧
      ∀ j (h1 : j < row.length) (h2 : j < res.length),
        ∃ (hi : (normInt row[j] L.members.length).getD 0 < L.members.length),
          res[j] = (L.members[(normInt row[j] L.members.length).getD 0]).mapLeaves so (idxT out) := by
  unfold recomposeRow at h
  cases hres : allSome (row.map fun j => (normInt j L.members.length).bind (memberIndex L out)) with
  | none => simp [hres] at h
  | some res =>
    simp only [hres, Option.bind_some] at h
    obtain ⟨m0, rest, hres0, rfl, hpos⟩ := lazyStack_some res _ L1 h
    have hmap := (allSome_eq_some _ _).mp hres
    have hlen : row.length = res.length := by
      have := congrArg List.length hmap; simpa using this
    have hlen0 : 0 < row.length := by rw [hlen, hres0]; simp
    have hj : ∀ j (h1 : j < row.length) (h2 : j < res.length),
        (normInt row[j] L.members.length).bind (memberIndex L out) = some res[j] := by
      intro j h1 h2
      have := congrArg (fun l => l[j]?) hmap
      simpa [h1, h2] using this
    have hj' : ∀ j (h1 : j < row.length) (h2 : j < res.length), ∃ so,
        ∃ (hi : (normInt row[j] L.members.length).getD 0 < L.members.length), idxShape out b = some so ∧
          res[j] = (L.members[(normInt row[j] L.members.length).getD 0]).mapLeaves so (idxT out) := by
      intro j h1 h2
      have := hj j h1 h2
      cases hn : normInt row[j] L.members.length with
      | none => simp [hn] at this
      | some i =>
        simp only [hn, Option.bind_some] at this
        obtain ⟨hi, so, hso, hr⟩ := memberIndex_some L b keys feat hU _ _ _ this
        exact ⟨so, by simpa using hi, hso, by simpa using hr⟩
    obtain ⟨so, hi0, hso, hr0⟩ := hj' 0 hlen0 (hlen ▸ hlen0)
    refine ⟨res, so, rfl, hlen.symm, hlen0, hso, ?_, ?_⟩
    · have : m0 = res[0]'(hlen ▸ hlen0) := by simp [hres0]
      rw [this, hr0] at hpos
      simpa [TD.mapLeaves] using hpos
    · intro j h1 h2
      obtain ⟨so', hi, hso', hr⟩ := hj' j h1 h2
      rw [hso] at hso'; cases hso'
      exact ⟨hi, hr⟩

theorem get_tens1_case [Inhabited α] (L : Lazy α) (b : Shape) (keys : List String) (feat : String → Shape)
    (hU : Uniform L b keys feat) (ix : List Ix) (hp : Plain L.sd ix)
    (t : T Int) (k : Nat) (hit : (splitRec L.sd ix).item.getD Ix.full = .tens t) (hk : t.shape = [k])
    (L1 : Lazy α)
    (hrow : recomposeRow L (splitRec L.sd ix).out ((splitRec L.sd ix).pos : Int)
      ((List.range k).map fun j => t.get [j]) = some L1)
    (d : TD α) (hd : (absL L).index ix = some d) :
    absL L1 ≈ d := by
  obtain ⟨res, so, rfl, hlen, hlen0, hso, hpos, hj⟩ := recomposeRow_some L b keys feat hU _ _ _ _ hrow
  simp only [List.length_map, List.length_range] at hlen hlen0
  have hjj : ∀ j (h : j < k), ∃ (hi : (normInt (t.get [j]) L.members.length).getD 0 < L.members.length),
      res[j]'(hlen ▸ h) = (L.members[(normInt (t.get [j]) L.members.length).getD 0]).mapLeaves so
        (idxT (splitRec L.sd ix).out) := by
    intro j h
    have := hj j (by simpa using h) (hlen ▸ h)
    simpa using this
  obtain ⟨hi0, hr0⟩ := hjj 0 hlen0
  have hne : L.members ≠ [] := by intro h; simp [h] at hi0
  obtain ⟨hb, hkk⟩ := head_batch_of_uniform L b keys feat hU hne
  simp only [TD.index, Option.map_eq_some_iff] at hd
  obtain ⟨bd, hbd, rfl⟩ := hd
  have hbatch : (absL L).batch = b.insertIdx L.sd L.members.length := by
    show ((L.members.head?.map TD.batch).getD []).insertIdx L.sd L.members.length = _
    rw [hb]
  rw [hbatch] at hbd
  have hsplit := shape_split L.members.length ix L.sd b hU.hsd hp
  rw [hbd, hso, hit] at hsplit
  simp only [itemShape, Option.bind_some] at hsplit
  split at hsplit
  case isFalse => simp at hsplit
  simp only [hk, Option.map_some, Option.some.injEq] at hsplit
  have hres0 : ∃ rest, res = (L.members[(normInt (t.get [0]) L.members.length).getD 0]).mapLeaves so
        (idxT (splitRec L.sd ix).out) :: rest := by
    cases res with
    | nil => simp at hlen; omega
    | cons x rest => exact ⟨rest, by simpa using hr0⟩
  obtain ⟨rest, hres0⟩ := hres0
  refine ⟨?_, ?_, ?_⟩
  · show ((res.head?.map TD.batch).getD []).insertIdx (splitRec L.sd ix).pos res.length = bd
    rw [hsplit, hlen, hres0]
    simp only [List.head?_cons, Option.map_some, Option.getD_some, TD.mapLeaves]
    rw [insertIdx_eq_take_drop _ _ _ hpos]
  · show (res.head?.map TD.keys).getD [] = (L.members.head?.map TD.keys).getD []
    rw [hkk, hres0]
    simp only [List.head?_cons, Option.map_some, Option.getD_some, TD.mapLeaves]
    exact hU.hkeys _ (List.getElem_mem _)
  · intro key hkey
    have hkeys : key ∈ keys := by
      have : (absL (⟨res, (splitRec L.sd ix).pos⟩ : Lazy α)).keys = keys := by
        show (res.head?.map TD.keys).getD [] = keys
        rw [hres0]
        simp only [List.head?_cons, Option.map_some, Option.getD_some, TD.mapLeaves]
        exact hU.hkeys _ (List.getElem_mem _)
      rw [this] at hkey; exact hkey
    show T.stack (res.map fun m => m.leaf key) (splitRec L.sd ix).pos
        ≈ₜ idxT ix (T.stack (L.members.map fun m => m.leaf key) L.sd)
    have hms : (L.members.map fun m => m.leaf key).length = L.members.length := by simp
    have hlist : (res.map fun m => m.leaf key) = (List.range k).map fun j =>
        idxT (splitRec L.sd ix).out ((L.members.map fun m => m.leaf key)[
          (normInt (t.get [j]) (L.members.map fun m => m.leaf key).length).getD 0]?.getD default) := by
      apply List.ext_getElem
      · simp [hlen]
      · intro j h1 h2
        have hjl : j < k := by simpa using h2
        obtain ⟨hi, hr⟩ := hjj j hjl
        simp only [List.getElem_map, List.getElem_range, hr, TD.mapLeaves, List.getElem?_map, hms,
          List.getElem?_eq_getElem hi, Option.map_some, Option.getD_some]
    rw [hlist]
    exact idx_stack_tens1 (L.members.map fun m => m.leaf key) (b ++ feat key) L.sd ix
      (by
        intro t ht
        simp only [List.mem_map] at ht
        obtain ⟨m, hm, rfl⟩ := ht
        exact hU.hleaf m hm key hkeys)
      (by simpa using hne)
      (by simp; have := hU.hsd; omega) hp (bd ++ feat key) (so ++ feat key)
      (by rw [hms, insertIdx_append_of_le _ _ _ _ hU.hsd]; exact idxShape_append _ _ _ _ hbd)
      (idxShape_append _ _ _ _ hso)
      (by simp; omega)
      t k hit hk hlen0
      (by intro j hjl; rw [hms]; exact (hjj j hjl).1)

theorem get_tens2_case [Inhabited α] (L : Lazy α) (b : Shape) (keys : List String) (feat : String → Shape)
    (hU : Uniform L b keys feat) (ix : List Ix) (hp : Plain L.sd ix)
    (t : T Int) (k1 k2 : Nat) (hit : (splitRec L.sd ix).item.getD Ix.full = .tens t) (hk : t.shape = [k1, k2])
    (rows : List (Lazy α))
    (hrows : allSome ((List.range k1).map fun a =>
        recomposeRow L (splitRec L.sd ix).out ((splitRec L.sd ix).pos : Int)
          ((List.range k2).map fun b => t.get [a, b])) = some rows)
    (hk1 : 0 < k1)
    (d : TD α) (hd : (absL L).index ix = some d) :
    stackTD (rows.map absL) (splitRec L.sd ix).pos ≈ d := by
  have hmap := (allSome_eq_some _ _).mp hrows
  have hlen : k1 = rows.length := by
    have := congrArg List.length hmap; simpa using this
  have hrow : ∀ a (h : a < k1), recomposeRow L (splitRec L.sd ix).out ((splitRec L.sd ix).pos : Int)
          ((List.range k2).map fun b => t.get [a, b]) = some (rows[a]'(hlen ▸ h)) := by
    intro a h
    have := congrArg (fun l => l[a]?) hmap
    simpa [h, hlen ▸ h] using this
  -- every row
  have hrr : ∀ a (h : a < k1), ∃ (res : List (TD α)) (so : Shape),
      rows[a]'(hlen ▸ h) = ⟨res, (splitRec L.sd ix).pos⟩ ∧ res.length = k2 ∧ 0 < k2 ∧
      idxShape (splitRec L.sd ix).out b = some so ∧ (splitRec L.sd ix).pos ≤ so.length ∧
      ∀ j (h2 : j < k2) (h3 : j < res.length),
        ∃ (hi : (normInt (t.get [a, j]) L.members.length).getD 0 < L.members.length),
          res[j] = (L.members[(normInt (t.get [a, j]) L.members.length).getD 0]).mapLeaves so
            (idxT (splitRec L.sd ix).out) := by
    intro a h
    obtain ⟨res, so, h1, h2, h3, h4, h5, h6⟩ := recomposeRow_some L b keys feat hU _ _ _ _ (hrow a h)
    simp only [List.length_map, List.length_range] at h2 h3
    refine ⟨res, so, h1, h2, h3, h4, h5, ?_⟩
    intro j hj2 hj3
    have := h6 j (by simpa using hj2) hj3
    simpa using this
  obtain ⟨res0, so, hr0, hl0, hk2, hso, hpos, hj0⟩ := hrr 0 hk1
  obtain ⟨hi0, _⟩ := hj0 0 hk2 (hl0 ▸ hk2)
  have hne : L.members ≠ [] := by intro h; simp [h] at hi0
  obtain ⟨hb, hkk⟩ := head_batch_of_uniform L b keys feat hU hne
  simp only [TD.index, Option.map_eq_some_iff] at hd
  obtain ⟨bd, hbd, rfl⟩ := hd
  have hbatch : (absL L).batch = b.insertIdx L.sd L.members.length := by
    show ((L.members.head?.map TD.batch).getD []).insertIdx L.sd L.members.length = _
    rw [hb]
  rw [hbatch] at hbd
  have hsplit := shape_split L.members.length ix L.sd b hU.hsd hp
  rw [hbd, hso, hit] at hsplit
  simp only [itemShape, Option.bind_some] at hsplit
  split at hsplit
  case isFalse => simp at hsplit
  simp only [hk, Option.map_some, Option.some.injEq] at hsplit
  -- the first row, first member
  have hrows0 : ∃ rest, rows = ⟨res0, (splitRec L.sd ix).pos⟩ :: rest := by
    cases rows with
    | nil => simp at hlen; omega
    | cons x rest => exact ⟨rest, by simpa using hr0⟩
  obtain ⟨rrest, hrows0⟩ := hrows0
  have hres00 : ∃ rest, res0 = (L.members[(normInt (t.get [0, 0]) L.members.length).getD 0]).mapLeaves so
        (idxT (splitRec L.sd ix).out) :: rest := by
    obtain ⟨_, hr⟩ := hj0 0 hk2 (hl0 ▸ hk2)
    cases res0 with
    | nil => simp at hl0; omega
    | cons x rest => exact ⟨rest, by simpa using hr⟩
  obtain ⟨rest0, hres00⟩ := hres00
  have hkeysEq : (stackTD (rows.map absL) (splitRec L.sd ix).pos).keys = keys := by
    show ((rows.map absL).head?.map TD.keys).getD [] = keys
    rw [hrows0]
    simp only [List.map_cons, List.head?_cons, Option.map_some, Option.getD_some]
    show (res0.head?.map TD.keys).getD [] = keys
    rw [hres00]
    simp only [List.head?_cons, Option.map_some, Option.getD_some, TD.mapLeaves]
    exact hU.hkeys _ (List.getElem_mem _)
  refine ⟨?_, ?_, ?_⟩
  · show (((rows.map absL).head?.map TD.batch).getD []).insertIdx (splitRec L.sd ix).pos (rows.map absL).length = bd
    rw [hsplit, List.length_map, ← hlen, hrows0]
    simp only [List.map_cons, List.head?_cons, Option.map_some, Option.getD_some]
    show (((res0.head?.map TD.batch).getD []).insertIdx (splitRec L.sd ix).pos res0.length).insertIdx
      (splitRec L.sd ix).pos k1 = _
    rw [hl0, hres00]
    simp only [List.head?_cons, Option.map_some, Option.getD_some, TD.mapLeaves]
    rw [insertIdx_twice _ _ _ _ hpos]
  · rw [hkeysEq]
    show keys = (L.members.head?.map TD.keys).getD []
    rw [hkk]
  · intro key hkey
    rw [hkeysEq] at hkey
    show T.stack ((rows.map absL).map fun m => m.leaf key) (splitRec L.sd ix).pos
        ≈ₜ idxT ix (T.stack (L.members.map fun m => m.leaf key) L.sd)
    have hms : (L.members.map fun m => m.leaf key).length = L.members.length := by simp
    have hlist : ((rows.map absL).map fun m => m.leaf key) = (List.range k1).map fun a =>
        T.stack ((List.range k2).map fun bb => idxT (splitRec L.sd ix).out
          (pick (L.members.map fun m => m.leaf key) (t.get [a, bb]))) (splitRec L.sd ix).pos := by
      apply List.ext_getElem
      · simp [hlen]
      · intro a h1 h2
        have hal : a < k1 := by simpa using h2
        obtain ⟨res, so', hra, hla, _, hso', _, hja⟩ := hrr a hal
        rw [hso] at hso'; cases hso'
        simp only [List.getElem_map, List.getElem_range, hra]
        show T.stack (res.map fun m => m.leaf key) (splitRec L.sd ix).pos = _
        congr 1
        apply List.ext_getElem
        · simp [hla]
        · intro j h3 h4
          have hjl : j < k2 := by simpa using h4
          obtain ⟨hi, hr⟩ := hja j hjl (hla ▸ hjl)
          simp only [List.getElem_map, List.getElem_range, hr, TD.mapLeaves, pick, List.getElem?_map, hms,
            List.getElem?_eq_getElem hi, Option.map_some, Option.getD_some]
    rw [hlist]
    exact idx_stack_tens2 (L.members.map fun m => m.leaf key) (b ++ feat key) L.sd ix
      (by
        intro t ht
        simp only [List.mem_map] at ht
        obtain ⟨m, hm, rfl⟩ := ht
        exact hU.hleaf m hm key hkey)
      (by simpa using hne)
      (by simp; have := hU.hsd; omega) hp (bd ++ feat key) (so ++ feat key)
      (by rw [hms, insertIdx_append_of_le _ _ _ _ hU.hsd]; exact idxShape_append _ _ _ _ hbd)
      (idxShape_append _ _ _ _ hso)
      (by simp; omega)
      t k1 k2 hit hk hk1 hk2
      (by
        intro a bb ha hbb
        rw [hms]
        obtain ⟨res, so', hra, hla, _, _, _, hja⟩ := hrr a ha
        exact (hja bb hbb (hla ▸ hbb)).1)


def Ix.isMask : Ix → Bool | .mask _ => true | _ => false

theorem splitLoop_numSquash (sd n : Nat) (shape : Shape) : ∀ (ix : List Ix) (i : Nat) (st st' : SplitSt),
    (∀ it ∈ ix, it.isMask = false) → splitLoop sd n shape ix i st = some st' → st'.numSquash = st.numSquash
  | [], i, st, st', _, h => by simp [splitLoop] at h; rw [← h]
  | it :: r, i, st, st', hm, h => by
    have hm' : ∀ it ∈ r, it.isMask = false := fun x hx => hm x (by simp [hx])
    simp only [splitLoop] at h
    cases hs : splitStep sd n shape st i it with
    | none => simp [hs] at h
    | some st1 =>
      simp only [hs, Option.bind_some] at h
      have ih := splitLoop_numSquash sd n shape r (i + 1) st1 st' hm' h
      rw [ih]
      cases it with
      | mask m => have := hm (.mask m) (by simp); simp [Ix.isMask] at this
      | ell => simp [splitStep] at hs
      | none => simp [splitStep] at hs; rw [← hs]
      | int k =>
        simp only [splitStep] at hs
        split at hs
        · simp only [Option.map_eq_some_iff] at hs; obtain ⟨j, _, rfl⟩ := hs; rfl
        · simp at hs; rw [← hs]
      | slice a b c =>
        simp only [splitStep] at hs
        split at hs
        · simp only [Option.map_eq_some_iff] at hs; obtain ⟨j, _, rfl⟩ := hs; rfl
        · simp at hs; rw [← hs]
      | tens t =>
        simp only [splitStep] at hs
        split at hs
        · simp at hs; rw [← hs]
        · simp at hs; rw [← hs]
          by_cases h1 : st.cursor < sd <;> by_cases h2 : st.encountered = true <;> simp [h1, h2]

theorem splitRec_item_mem : ∀ (ix : List Ix) (sd : Nat) (it : Ix), (splitRec sd ix).item = some it → it ∈ ix
  | [], sd, it, h => by simp [splitRec] at h
  | .none :: r, sd, it, h => by simp [splitRec] at h; exact List.mem_cons_of_mem _ (splitRec_item_mem r sd it h)
  | .int k :: r, 0, it, h => by simp [splitRec] at h; simp [← h]
  | .slice a b c :: r, 0, it, h => by simp [splitRec] at h; simp [← h]
  | .tens t :: r, 0, it, h => by simp [splitRec] at h; simp [← h]
  | .mask m :: r, 0, it, h => by simp [splitRec] at h; simp [← h]
  | .ell :: r, 0, it, h => by simp [splitRec] at h; simp [← h]
  | .int k :: r, sd + 1, it, h => by simp [splitRec] at h; exact List.mem_cons_of_mem _ (splitRec_item_mem r sd it h)
  | .slice a b c :: r, sd + 1, it, h => by simp [splitRec] at h; exact List.mem_cons_of_mem _ (splitRec_item_mem r sd it h)
  | .tens t :: r, sd + 1, it, h => by simp [splitRec] at h; exact List.mem_cons_of_mem _ (splitRec_item_mem r sd it h)
  | .ell :: r, sd + 1, it, h => by simp [splitRec] at h; exact List.mem_cons_of_mem _ (splitRec_item_mem r sd it h)
  | .mask m :: r, sd + 1, it, h => by simp [splitRec] at h; exact List.mem_cons_of_mem _ (splitRec_item_mem r _ it h)

theorem no_adv_of_countP_zero (r : List Ix) (h : r.countP Ix.isAdv = 0) : ∀ it ∈ r, it.isAdv = false := by
  simpa [List.countP_eq_zero] using h

theorem tens_mem_no_mask : ∀ (ix : List Ix) (t : T Int), ix.countP Ix.isAdv ≤ 1 → Ix.tens t ∈ ix →
    ∀ it ∈ ix, it.isMask = false
  | [], _, _, h => by simp at h
  | a :: r, t, hc, hm => by
    intro it hit
    simp only [List.countP_cons] at hc
    by_cases ha : a.isAdv = true
    · have hr : r.countP Ix.isAdv = 0 := by
        rw [if_pos ha] at hc; omega
      have hna := no_adv_of_countP_zero r hr
      have htr : Ix.tens t ∉ r := fun h => by have := hna _ h; simp [Ix.isAdv] at this
      have hat : a = Ix.tens t := by
        rcases List.mem_cons.mp hm with h | h
        · exact h.symm
        · exact absurd h htr
      rcases List.mem_cons.mp hit with h | h
      · rw [h, hat]; rfl
      · have := hna it h
        cases it <;> simp [Ix.isAdv, Ix.isMask] at this ⊢
    · have hmr : Ix.tens t ∈ r := by
        rcases List.mem_cons.mp hm with h | h
        · rw [← h] at ha; simp [Ix.isAdv] at ha
        · exact h
      have ih := tens_mem_no_mask r t (by rw [if_neg ha] at hc; simpa using hc) hmr
      rcases List.mem_cons.mp hit with h | h
      · rw [h]; cases a <;> simp [Ix.isAdv, Ix.isMask] at ha ⊢
      · exact ih it h

theorem range_map_sliceAt_full (n : Nat) : (List.range n).map (sliceAt 0 1) = List.range n := by
  apply List.ext_getElem <;> simp [sliceAt]

/-- Read refinement for an Ellipsis-free index whose masks do not touch the stack dim:
whatever `__getitem__` returns (it may raise) materialises to what indexing the dense stack
returns (when that accepts). -/
theorem getitem_refines_core [Inhabited α] (L : Lazy α) (b : Shape) (keys : List String)
    (feat : String → Shape) (hU : Uniform L b keys feat) (ix : List Ix)
    (hp : Plain L.sd ix) (hne : ∀ it ∈ ix, it ≠ Ix.ell) (hadv : AtMostOneAdv ix)
    (r : LRes α) (hr : lazyGetCore L ix = some r)
    (d : TD α) (hd : (absL L).index ix = some d) : absR r ≈ d := by
  have hB := splitLoop_before L.sd L.members.length L.batch ix L.sd 0 {} (by simp) hp hne
    (by simpa [AtMostOneAdv] using hadv) rfl rfl rfl rfl
  unfold lazyGetCore splitIndex at hr
  cases hsel : selOf L.members.length (splitRec L.sd ix).item with
  | none => simp [hB.1 hsel] at hr
  | some p =>
    obtain ⟨sel, ii, nd⟩ := p
    obtain ⟨st', hloop, hspec⟩ := hB.2 sel ii nd hsel
    have hq : (L.sd : Int) - st'.numSingle + st'.numNone - st'.numSquash = (splitRec L.sd ix).pos := by
      have := hspec.q; simp [Q] at this; omega
    simp only [hloop, Option.bind_some, hspec.hasBool, Bool.false_eq_true, if_false, hspec.isNd,
      hspec.isInteger, hspec.sel, hspec.out, List.nil_append] at hr
    -- by the item addressed to the stack dim
    cases hitem : (splitRec L.sd ix).item with
    | none =>
      simp only [hitem, selOf, Option.some.injEq, Prod.mk.injEq] at hsel
      obtain ⟨rfl, rfl, rfl⟩ := hsel
      simp only [Bool.false_eq_true, if_false, hq, Sel.ids] at hr
      cases hres : allSome ((List.range L.members.length).map (memberIndex L (splitRec L.sd ix).out)) with
      | none => simp [hres] at hr
      | some res =>
        simp only [hres, Option.bind_some, Option.map_eq_some_iff] at hr
        obtain ⟨L', hL', rfl⟩ := hr
        have hn := sliceNorm_full L.members.length
        rw [← range_map_sliceAt_full] at hres
        exact get_slice_case L b keys feat hU ix hp none none none (by simp [hitem, Ix.full]) 0 1 _ hn res hres L' hL' d hd
    | some it =>
      cases it with
      | int k =>
        simp only [hitem, selOf, Option.map_eq_some_iff, Prod.mk.injEq] at hsel
        obtain ⟨j, hj, rfl, rfl, rfl⟩ := hsel
        simp only [Bool.false_eq_true, if_false, if_true, Option.map_eq_some_iff] at hr
        obtain ⟨x, hx, rfl⟩ := hr
        exact get_int_case L b keys feat hU ix hp k (by simp [hitem]) j hj x hx d hd
      | slice a bb c =>
        simp only [hitem, selOf, Option.map_eq_some_iff, Prod.mk.injEq] at hsel
        obtain ⟨⟨s0, stp, len⟩, hn, rfl, rfl, rfl⟩ := hsel
        simp only [Bool.false_eq_true, if_false, hq, Sel.ids] at hr
        cases hres : allSome (((List.range len).map (sliceAt s0 stp)).map (memberIndex L (splitRec L.sd ix).out)) with
        | none => rw [hres] at hr; simp at hr
        | some res =>
          simp only [hres, Option.bind_some, Option.map_eq_some_iff] at hr
          obtain ⟨L', hL', rfl⟩ := hr
          exact get_slice_case L b keys feat hU ix hp a bb c (by simp [hitem]) s0 stp len hn res hres L' hL' d hd
      | tens t =>
        simp only [hitem, selOf, Option.some.injEq, Prod.mk.injEq] at hsel
        obtain ⟨rfl, rfl, rfl⟩ := hsel
        have hnm := tens_mem_no_mask ix t (by simpa [AtMostOneAdv] using hadv) (splitRec_item_mem ix L.sd _ hitem)
        have hsq : st'.numSquash = 0 := by
          have := splitLoop_numSquash L.sd L.members.length L.batch ix 0 {} st' hnm hloop
          simpa using this
        have hq' : (L.sd : Int) - st'.numSingle + st'.numNone = (splitRec L.sd ix).pos := by
          rw [hsq] at hq; simpa using hq
        simp only [if_true, hq'] at hr
        split at hr
        · simp at hr
        · split at hr
          · rename_i k hk
            simp only [Option.map_eq_some_iff] at hr
            obtain ⟨L1, hL1, rfl⟩ := hr
            exact get_tens1_case L b keys feat hU ix hp t k (by simp [hitem]) hk L1 hL1 d hd
          · rename_i k1 k2 hk
            cases hrows : allSome ((List.range k1).map fun a =>
                recomposeRow L (splitRec L.sd ix).out ((splitRec L.sd ix).pos : Int)
                  ((List.range k2).map fun bb => t.get [a, bb])) with
            | none => rw [hrows] at hr; simp at hr
            | some rows =>
              rw [hrows] at hr
              simp only [Option.bind_some] at hr
              cases rows with
              | nil => simp at hr
              | cons r0 rrest =>
                have hk1 : 0 < k1 := by
                  have := congrArg List.length ((allSome_eq_some _ _).mp hrows)
                  simp at this; omega
                simp only [] at hr
                have hneg : ¬ (((splitRec L.sd ix).pos : Int) < 0) := by omega
                simp only [hneg, if_false] at hr
                split at hr
                · simp at hr
                · simp only [Option.some.injEq] at hr
                  rw [← hr]
                  simp only [Int.toNat_natCast]
                  exact get_tens2_case L b keys feat hU ix hp t k1 k2 (by simp [hitem]) hk _ hrows hk1 d hd
          · simp at hr
      | none => simp [hitem, selOf] at hsel
      | ell => simp [hitem, selOf] at hsel
      | mask m => simp [hitem, selOf] at hsel

end TdVerif.C08
