/-
  C08 — shape operations on a stack of stacks: the one-level argument (`absL_map`) lifted over
  members that are lazy stacks (`abs2_map`), then `unsqueeze`, `permute`, `transpose`.
-/
import TdVerif.Lemmas.C08Two
namespace TdVerif.C08

/-- `stackTD` respects `≈` member by member; the members of `ys` share keys and per-key shapes -/
theorem stackTD_congr' [Inhabited α] (xs ys : List (TD α)) (keys : List String) (shapes : String → Shape)
    (sd : Nat) (hlen : xs.length = ys.length) (hne : ys ≠ [])
    (hyk : ∀ y ∈ ys, y.keys = keys)
    (hyl : ∀ y ∈ ys, ∀ k ∈ keys, (y.leaf k).shape = shapes k) (hsd : ∀ k ∈ keys, sd ≤ (shapes k).length)
    (h : ∀ i (h1 : i < xs.length) (h2 : i < ys.length), xs[i] ≈ ys[i]) :
    stackTD xs sd ≈ stackTD ys sd := by
  obtain ⟨y0, yr, hy0⟩ : ∃ y0 yr, ys = y0 :: yr := by
    cases ys with
    | nil => exact absurd rfl hne
    | cons a r => exact ⟨a, r, rfl⟩
  obtain ⟨x0, xr, hx0⟩ : ∃ x0 xr, xs = x0 :: xr := by
    cases xs with
    | nil => rw [hy0] at hlen; simp at hlen
    | cons a r => exact ⟨a, r, rfl⟩
  have h0 : x0 ≈ y0 := by
    have := h 0 (by rw [hx0]; simp) (by rw [hy0]; simp)
    simpa [hx0, hy0] using this
  refine ⟨?_, ?_, ?_⟩
  · show ((xs.head?.map TD.batch).getD []).insertIdx sd xs.length = ((ys.head?.map TD.batch).getD []).insertIdx sd ys.length
    rw [hx0, hy0] at hlen ⊢
    simp only [List.head?_cons, Option.map_some, Option.getD_some, h0.1, hlen]
  · show (xs.head?.map TD.keys).getD [] = (ys.head?.map TD.keys).getD []
    rw [hx0, hy0]; simp [h0.2.1]
  · intro k hk
    have hkx : (stackTD xs sd).keys = keys := by
      show (xs.head?.map TD.keys).getD [] = keys
      rw [hx0]; simp only [List.head?_cons, Option.map_some, Option.getD_some]
      rw [h0.2.1]; exact hyk y0 (by rw [hy0]; simp)
    rw [hkx] at hk
    show T.stack (xs.map fun m => m.leaf k) sd ≈ₜ T.stack (ys.map fun m => m.leaf k) sd
    apply T.stack_congr _ _ (shapes k) sd (by simp [hlen]) (by simpa using hne)
    · intro t ht
      simp only [List.mem_map] at ht
      obtain ⟨y, hy, rfl⟩ := ht
      exact hyl y hy k hk
    · exact hsd k hk
    · intro i h1 h2
      simp only [List.length_map] at h1 h2
      have hxy := h i h1 h2
      simp only [List.getElem_map]
      apply hxy.2.2 k
      rw [hxy.2.1, hyk _ (List.getElem_mem _)]; exact hk

/-- generic lifting for a stack of stacks: when every inner stack, mapped by the inner operation,
materialises to its dense stack mapped leaf-wise by `φ`, the re-stacked results materialise to
the dense operation `Φ` on the dense stack of dense stacks (as `absL_map` says for plain members) -/
theorem abs2_map [Inhabited α] (Lo : Lazy2 α) (bIn : Shape) (keys : List String) (feat : String → Shape)
    (sdIn nIn : Nat) (hU : Uniform2 Lo bIn keys feat sdIn nIn) (hne0 : Lo.members ≠ [])
    (gb : Shape → Shape) (φ Φ : T α → T α) (sd' : Nat) (B : Shape)
    (hφs : ∀ t t' : T α, t.shape = t'.shape → (φ t).shape = (φ t').shape)
    (hsd' : ∀ k ∈ keys, ∀ t : T α, t.shape = (bIn.insertIdx sdIn nIn) ++ feat k → sd' ≤ (φ t).shape.length)
    (ms' : List (Lazy α)) (hlen : ms'.length = Lo.members.length)
    (hin : ∀ i (h1 : i < ms'.length) (h2 : i < Lo.members.length),
      absL ms'[i] ≈ (absL Lo.members[i]).mapLeaves (gb (absL Lo.members[i]).batch) φ)
    (hbatch : (gb (bIn.insertIdx sdIn nIn)).insertIdx sd' Lo.members.length = B)
    (hleaf : ∀ k ∈ keys, T.stack (((denseOf Lo).members.map fun m => m.leaf k).map φ) sd'
      ≈ₜ Φ (T.stack ((denseOf Lo).members.map fun m => m.leaf k) Lo.sd)) :
    abs2 (⟨ms', sd'⟩ : Lazy2 α) ≈ (abs2 Lo).mapLeaves B Φ := by
  have hUd := denseOf_uniform Lo bIn keys feat sdIn nIn hU
  have hned : (denseOf Lo).members ≠ [] := by simpa [denseOf] using hne0
  have hdense := absL_map (denseOf Lo) _ keys feat hUd hned gb φ Φ sd' B
    (by simpa [denseOf] using hbatch) hleaf
  rw [← abs2_eq] at hdense
  refine TD.Eqv.trans ?_ hdense
  show stackTD (ms'.map absL) sd' ≈ stackTD ((denseOf Lo).members.map fun m => m.mapLeaves (gb m.batch) φ) sd'
  obtain ⟨d0, dr, hd0⟩ : ∃ d0 dr, (denseOf Lo).members = d0 :: dr := by
    cases h : (denseOf Lo).members with
    | nil => exact absurd h hned
    | cons a r => exact ⟨a, r, rfl⟩
  apply stackTD_congr' _ _ keys (fun k => (φ (d0.leaf k)).shape) sd'
    (by simp [denseOf, hlen]) (by simpa using hned)
  · intro y hy
    simp only [List.mem_map] at hy
    obtain ⟨m, hm, rfl⟩ := hy
    exact hUd.hkeys m hm
  · intro y hy k hk
    simp only [List.mem_map] at hy
    obtain ⟨m, hm, rfl⟩ := hy
    show (φ (m.leaf k)).shape = _
    apply hφs
    rw [hUd.hleaf m hm k hk, hUd.hleaf d0 (by rw [hd0]; simp) k hk]
  · intro k hk
    exact hsd' k hk _ (hUd.hleaf d0 (by rw [hd0]; simp) k hk)
  · intro i h1 h2
    simp only [List.length_map] at h1 h2
    have h2' : i < Lo.members.length := by simpa [denseOf] using h2
    have := hin i h1 h2'
    simpa [denseOf] using this

end TdVerif.C08
namespace TdVerif.C08

theorem lazyStack2_some (items : List (Lazy α)) (p : Nat) (L' : Lazy2 α)
    (h : lazyStack2 items p = some L') : L' = ⟨items, p⟩ ∧ items ≠ [] := by
  unfold lazyStack2 at h
  cases items with
  | nil => simp at h
  | cons m rest =>
    simp only at h
    split at h
    · simp at h
    · split at h
      · simp only [Option.some.injEq] at h
        exact ⟨h.symm, by simp⟩
      · simp at h

theorem allSome_map_getElem {β γ} (l : List β) (f : β → Option γ) (r : List γ)
    (h : allSome (l.map f) = some r) :
    r.length = l.length ∧ ∀ i (h1 : i < r.length) (h2 : i < l.length), f l[i] = some r[i] := by
  have hmap := (allSome_eq_some _ _).mp h
  have hlen : r.length = l.length := by
    have := congrArg List.length hmap; simpa using this.symm
  refine ⟨hlen, ?_⟩
  intro i h1 h2
  have := congrArg (fun x => x[i]?) hmap
  simpa [h1, h2] using this

/-- **`unsqueeze` on a stack of stacks** -/
theorem unsqueeze2_refines [Inhabited α] (Lo : Lazy2 α) (bIn : Shape) (keys : List String) (feat : String → Shape)
    (sdIn nIn : Nat) (hU : Uniform2 Lo bIn keys feat sdIn nIn) (hne0 : Lo.members ≠ []) (dim : Int)
    (Lo' : Lazy2 α) (h : lazyUnsqueeze2 Lo dim = some Lo') :
    ∃ d : Nat, (d : Int) = (if dim < 0 then (Lo.batch.length : Int) + dim + 1 else dim) ∧
      d ≤ Lo.batch.length ∧ abs2 Lo' ≈ (abs2 Lo).unsqueeze d := by
  have hUd := denseOf_uniform Lo bIn keys feat sdIn nIn hU
  have hned : (denseOf Lo).members ≠ [] := by simpa [denseOf] using hne0
  have hB := absL_batch_eq (denseOf Lo) _ keys feat hUd hned
  have hlenD : (denseOf Lo).members.length = Lo.members.length := by simp [denseOf]
  have hr : Lo.batch.length = (bIn.insertIdx sdIn nIn).length + 1 := by
    rw [← denseOf_batch]
    show (absL (denseOf Lo)).batch.length = _
    rw [hB, List.length_insertIdx_of_le_length hUd.hsd]
  have hinner : ∀ Li ∈ Lo.members, Uniform Li bIn keys feat ∧ Li.members ≠ [] ∧ Li.batch.length = (bIn.insertIdx sdIn nIn).length := by
    intro Li hLi
    obtain ⟨hUi, hsdi, hni⟩ := hU.inner Li hLi
    have hnei : Li.members ≠ [] := by
      intro hm; rw [hm] at hni; simp at hni; have := hU.hn; omega
    refine ⟨hUi, hnei, ?_⟩
    show (absL Li).batch.length = _
    rw [absL_batch_eq Li bIn keys feat hUi hnei, hsdi, hni]
  unfold lazyUnsqueeze2 at h
  dsimp only at h
  generalize hnd : (if dim < 0 then (Lo.batch.length : Int) + dim + 1 else dim) = nd at h ⊢
  by_cases hrange : nd > (Lo.batch.length : Int) ∨ nd < 0
  · rw [if_pos hrange] at h; simp at h
  rw [if_neg hrange] at h
  refine ⟨nd.toNat, by omega, by omega, ?_⟩
  -- the inner unsqueeze at a non-negative dim `e`
  have inner_at : ∀ (e : Nat) (ms : List (Lazy α)),
      allSome (Lo.members.map fun Li => lazyUnsqueeze Li (e : Int)) = some ms →
      ms.length = Lo.members.length ∧ ∀ i (h1 : i < ms.length) (h2 : i < Lo.members.length),
        absL ms[i] ≈ (absL Lo.members[i]).mapLeaves ((absL Lo.members[i]).batch.insertIdx e 1) (fun t => t.unsqueeze e) := by
    intro e ms hms
    obtain ⟨hl, hget⟩ := allSome_map_getElem _ _ _ hms
    refine ⟨hl, ?_⟩
    intro i h1 h2
    obtain ⟨hUi, hnei, _⟩ := hinner _ (List.getElem_mem h2)
    obtain ⟨d, hd, _, hres⟩ := unsqueeze_refines _ bIn keys feat hUi hnei (e : Int) _ (hget i h1 h2)
    have : d = e := by
      have h0 : ¬ ((e : Int) < 0) := by omega
      rw [if_neg h0] at hd; omega
    subst this
    exact hres
  split at h
  · rename_i hgt
    cases hms : allSome (Lo.members.map fun Li => lazyUnsqueeze Li ((nd.toNat - 1 : Nat) : Int)) with
    | none => rw [hms] at h; simp at h
    | some ms =>
      rw [hms] at h
      simp only [Option.bind_some] at h
      obtain ⟨rfl, _⟩ := lazyStack2_some _ _ _ h
      obtain ⟨hl, hin⟩ := inner_at _ _ hms
      obtain ⟨e, he⟩ : ∃ e, nd.toNat = e + 1 := ⟨nd.toNat - 1, by omega⟩
      apply abs2_map Lo bIn keys feat sdIn nIn hU hne0 (fun s => s.insertIdx (nd.toNat - 1) 1)
        (fun t => t.unsqueeze (nd.toNat - 1)) (fun t => t.unsqueeze nd.toNat) Lo.sd _
        (by intro t t' hh; simp [T.unsqueeze, hh])
        (by
          intro k hk t ht
          show Lo.sd ≤ (t.shape.insertIdx (nd.toNat - 1) 1).length
          rw [ht, List.length_insertIdx_of_le_length (by simp; omega)]
          have := hUd.hsd; simp; omega)
        ms hl hin
      · rw [abs2_eq, hB, he]; simp only [Nat.add_sub_cancel]
        rw [hlenD]
        exact (List.insertIdx_comm _ _ (by show Lo.sd ≤ e; have : (denseOf Lo).sd = Lo.sd := rfl; omega) (by have := hUd.hsd; have : (denseOf Lo).sd = Lo.sd := rfl; omega)).symm
      · intro k hk
        have hhead := head_shape_of_all _ _ (leaf_shapes (denseOf Lo) _ keys feat hUd k hk) (by simpa using hned)
        exact unsqueeze_stack_gt ((denseOf Lo).members.map fun m => m.leaf k) Lo.sd nd.toNat (by simpa using hned) hgt
          (by rw [hhead]; simp; omega)
  · rename_i hle
    cases hms : allSome (Lo.members.map fun Li => lazyUnsqueeze Li (nd.toNat : Int)) with
    | none => rw [hms] at h; simp at h
    | some ms =>
      rw [hms] at h
      simp only [Option.bind_some] at h
      obtain ⟨rfl, _⟩ := lazyStack2_some _ _ _ h
      obtain ⟨hl, hin⟩ := inner_at _ _ hms
      have hle' : nd.toNat ≤ Lo.sd := by omega
      apply abs2_map Lo bIn keys feat sdIn nIn hU hne0 (fun s => s.insertIdx nd.toNat 1)
        (fun t => t.unsqueeze nd.toNat) (fun t => t.unsqueeze nd.toNat) (Lo.sd + 1) _
        (by intro t t' hh; simp [T.unsqueeze, hh])
        (by
          intro k hk t ht
          show Lo.sd + 1 ≤ (t.shape.insertIdx nd.toNat 1).length
          have := hUd.hsd
          have hs : (denseOf Lo).sd = Lo.sd := rfl
          rw [ht, List.length_insertIdx_of_le_length (by simp; omega)]
          simp; omega)
        ms hl hin
      · rw [abs2_eq, hB, hlenD]
        exact List.insertIdx_comm _ _ hle' hUd.hsd
      · intro k hk
        have hhead := head_shape_of_all _ _ (leaf_shapes (denseOf Lo) _ keys feat hUd k hk) (by simpa using hned)
        exact unsqueeze_stack_le ((denseOf Lo).members.map fun m => m.leaf k) Lo.sd nd.toNat (by simpa using hned) hle'
          (by rw [hhead]; simp; have := hUd.hsd; have hs : (denseOf Lo).sd = Lo.sd := rfl; omega)

end TdVerif.C08

namespace TdVerif.C08

/-- the dims of the members permuted by `memberPerm p sd` inside every inner stack, the results
stacked where `sd` sits in `p` -/
theorem permute_members2 [Inhabited α] (Lo : Lazy2 α) (bIn : Shape) (keys : List String) (feat : String → Shape)
    (sdIn nIn : Nat) (hU : Uniform2 Lo bIn keys feat sdIn nIn) (hne0 : Lo.members ≠ [])
    (p : List Nat) (hp : IsPerm p ((bIn.insertIdx sdIn nIn).length + 1))
    (ms' : List (Lazy α)) (hlen : ms'.length = Lo.members.length)
    (hin : ∀ i (h1 : i < ms'.length) (h2 : i < Lo.members.length),
      absL ms'[i] ≈ (absL Lo.members[i]).permute (memberPerm p Lo.sd)) :
    abs2 (⟨ms', p.idxOf Lo.sd⟩ : Lazy2 α) ≈ (abs2 Lo).permute p := by
  have hUd := denseOf_uniform Lo bIn keys feat sdIn nIn hU
  have hned : (denseOf Lo).members ≠ [] := by simpa [denseOf] using hne0
  have hB := absL_batch_eq (denseOf Lo) _ keys feat hUd hned
  have hlenD : (denseOf Lo).members.length = Lo.members.length := by simp [denseOf]
  have hsdD : (denseOf Lo).sd = Lo.sd := rfl
  have hsd : Lo.sd < (bIn.insertIdx sdIn nIn).length + 1 := by have := hUd.hsd; omega
  rw [TD.permute_eq]
  refine abs2_map Lo bIn keys feat sdIn nIn hU hne0
    (fun s : Shape => (memberPerm p Lo.sd).map fun j => s[j]?.getD 0)
    (fun t => t.permute (extPerm (memberPerm p Lo.sd) t.shape.length))
    (fun t => t.permute (extPerm p t.shape.length)) (p.idxOf Lo.sd)
    (p.map fun j => (abs2 Lo).batch[j]?.getD 0)
    (by intro t t' hh; simp [T.permute, hh])
    (by
      intro k hk t ht
      have h1 : p.idxOf Lo.sd < p.length := List.idxOf_lt_length_of_mem (hp.mem _ hsd)
      rw [hp.len] at h1
      have h0 : p.idxOf Lo.sd < p.length := List.idxOf_lt_length_of_mem (hp.mem _ hsd)
      have hm : (memberPerm p Lo.sd).length = (bIn.insertIdx sdIn nIn).length := by
        simp only [memberPerm, List.length_map, List.length_eraseIdx_of_lt h0, hp.len]; omega
      simp [T.permute, ht, extPerm]
      omega)
    ms' hlen (by intro i h1 h2; have := hin i h1 h2; rwa [TD.permute_eq] at this) ?_ ?_
  · rw [abs2_eq, hB, hlenD]; exact (perm_shape _ Lo.members.length Lo.sd p hUd.hsd hp).symm
  · intro k hk
    have hshapes := leaf_shapes (denseOf Lo) _ keys feat hUd k hk
    have hne : ((denseOf Lo).members.map fun m => m.leaf k) ≠ [] := by simpa using hned
    have hhead := head_shape_of_all _ _ hshapes hne
    have hlenS : (T.stack ((denseOf Lo).members.map fun m => m.leaf k) Lo.sd).shape.length = ((bIn.insertIdx sdIn nIn) ++ feat k).length + 1 := by
      rw [T.stack_shape, hhead, List.length_insertIdx_of_le_length (by simp; have := hUd.hsd; omega)]
    have hP := extPerm_isPerm p ((bIn.insertIdx sdIn nIn).length + 1) (((bIn.insertIdx sdIn nIn) ++ feat k).length + 1) hp (by simp)
    have := permute_stack ((denseOf Lo).members.map fun m => m.leaf k) ((bIn.insertIdx sdIn nIn) ++ feat k) Lo.sd
      (extPerm p (((bIn.insertIdx sdIn nIn) ++ feat k).length + 1)) hshapes hne (by simp; have := hUd.hsd; omega) hP
    rw [memberPerm_ext p ((bIn.insertIdx sdIn nIn).length + 1) _ Lo.sd hp hsd (by simp), idxOf_ext p _ Lo.sd (hp.mem _ hsd)] at this
    simp only [Nat.add_sub_cancel] at this
    show T.stack (((denseOf Lo).members.map fun m => m.leaf k).map fun t => t.permute (extPerm (memberPerm p Lo.sd) t.shape.length)) _
      ≈ₜ (T.stack ((denseOf Lo).members.map fun m => m.leaf k) Lo.sd).permute (extPerm p (T.stack ((denseOf Lo).members.map fun m => m.leaf k) Lo.sd).shape.length)
    rw [hlenS]
    have hcongr : (((denseOf Lo).members.map fun m => m.leaf k).map fun t => t.permute (extPerm (memberPerm p Lo.sd) t.shape.length))
        = ((denseOf Lo).members.map fun m => m.leaf k).map fun t => t.permute (extPerm (memberPerm p Lo.sd) ((bIn.insertIdx sdIn nIn) ++ feat k).length) := by
      apply List.map_congr_left
      intro t ht
      rw [hshapes t ht]
    rw [hcongr]
    exact this

end TdVerif.C08
namespace TdVerif.C08

theorem map_cast_norm_toNat (p : List Nat) (r : Nat) :
    ((p.map fun (d : Nat) => (d : Int)).map fun d => if d ≥ 0 then d else (r : Int) + d).map Int.toNat = p := by
  induction p with
  | nil => rfl
  | cons a l ih =>
    simp only [List.map_cons] at ih ⊢
    rw [ih]
    have : ((a : Int) ≥ 0) := by omega
    simp [this]

/-- **`permute` on a stack of stacks** -/
theorem permute2_refines [Inhabited α] (Lo : Lazy2 α) (bIn : Shape) (keys : List String) (feat : String → Shape)
    (sdIn nIn : Nat) (hU : Uniform2 Lo bIn keys feat sdIn nIn) (hne0 : Lo.members ≠ []) (dims : List Int)
    (Lo' : Lazy2 α) (h : lazyPermute2 Lo dims = some Lo') :
    ∃ p : List Nat, IsPerm p Lo.batch.length ∧
      p = (dims.map fun d => if d ≥ 0 then d else (Lo.batch.length : Int) + d).map Int.toNat ∧
      abs2 Lo' ≈ (abs2 Lo).permute p := by
  have hUd := denseOf_uniform Lo bIn keys feat sdIn nIn hU
  have hned : (denseOf Lo).members ≠ [] := by simpa [denseOf] using hne0
  have hB := absL_batch_eq (denseOf Lo) _ keys feat hUd hned
  have hsdD : (denseOf Lo).sd = Lo.sd := rfl
  have hr : Lo.batch.length = (bIn.insertIdx sdIn nIn).length + 1 := by
    rw [← denseOf_batch]
    show (absL (denseOf Lo)).batch.length = _
    rw [hB, List.length_insertIdx_of_le_length hUd.hsd]
  unfold lazyPermute2 at h
  dsimp only at h
  generalize hdl : (dims.map fun d => if d ≥ 0 then d else (Lo.batch.length : Int) + d) = dl at h ⊢
  split at h
  · simp at h
  rename_i h1
  split at h
  · simp at h
  rename_i h2
  have h1' : (∀ d ∈ dl, 0 ≤ d ∧ d < (Lo.batch.length : Int)) ∧ dl.length = Lo.batch.length := by
    constructor
    · intro d hd
      have : ¬ (dl.any fun d => decide (d < 0 ∨ d ≥ (Lo.batch.length : Int))) = true := fun hh => h1 (Or.inl hh)
      rw [List.any_eq_true] at this
      have hnd : ¬ (d < 0 ∨ d ≥ (Lo.batch.length : Int)) := fun hh => this ⟨d, hd, by simpa using hh⟩
      omega
    · by_cases hl : dl.length = Lo.batch.length
      · exact hl
      · exact absurd (Or.inr hl) h1
  have hp : IsPerm (dl.map Int.toNat) Lo.batch.length := by
    refine ⟨?_, by simp [h1'.2], ?_, ?_⟩
    · by_cases hn : (dl.map Int.toNat).Nodup
      · exact hn
      · exact absurd (Or.inr hn) h2
    · intro j hj
      have : ¬ ((List.range Lo.batch.length).any fun j => !(dl.map Int.toNat).contains j) = true := fun hh => h2 (Or.inl hh)
      rw [List.any_eq_true] at this
      have hc : (dl.map Int.toNat).contains j = true := by
        cases hcc : (dl.map Int.toNat).contains j
        · exact absurd ⟨j, List.mem_range.mpr hj, by rw [hcc]; rfl⟩ this
        · rfl
      simpa using hc
    · intro j hj
      simp only [List.mem_map] at hj
      obtain ⟨d, hd, rfl⟩ := hj
      have := h1'.1 d hd
      omega
  refine ⟨dl.map Int.toNat, hp, rfl, ?_⟩
  generalize dl.map Int.toNat = p at *
  have hsd : Lo.sd ∈ p := hp.mem _ (by have := hUd.hsd; omega)
  have hmp : ((p.filter (· != Lo.sd)).map fun d => if d < Lo.sd then d else d - 1) = memberPerm p Lo.sd := by
    unfold memberPerm
    rw [filter_ne_eq_eraseIdx p Lo.sd hp.nodup hsd]
    rfl
  rw [hmp] at h
  cases hms : allSome (Lo.members.map fun Li => lazyPermute Li ((memberPerm p Lo.sd).map fun (d : Nat) => (d : Int))) with
  | none => rw [hms] at h; simp at h
  | some ms =>
    rw [hms] at h
    simp only [Option.bind_some] at h
    obtain ⟨rfl, _⟩ := lazyStack2_some _ _ _ h
    obtain ⟨hl, hget⟩ := allSome_map_getElem _ _ _ hms
    apply permute_members2 Lo bIn keys feat sdIn nIn hU hne0 p (hr ▸ hp) ms hl
    intro i i1 i2
    obtain ⟨hUi, hsdi, hni⟩ := hU.inner _ (List.getElem_mem i2)
    have hnei : (Lo.members[i]).members ≠ [] := by
      intro hm; rw [hm] at hni; simp at hni; have := hU.hn; omega
    obtain ⟨q, _, hq, hres⟩ := permute_refines _ bIn keys feat hUi hnei _ _ (hget i i1 i2)
    rw [map_cast_norm_toNat] at hq
    rw [hq] at hres
    exact hres

end TdVerif.C08

namespace TdVerif.C08

/-- **`transpose` on a stack of stacks** (every pair of dims, any sign spelling) -/
theorem transpose2_refines [Inhabited α] (Lo : Lazy2 α) (bIn : Shape) (keys : List String) (feat : String → Shape)
    (sdIn nIn : Nat) (hU : Uniform2 Lo bIn keys feat sdIn nIn) (hne0 : Lo.members ≠ []) (dim0 dim1 : Int)
    (Lo' : Lazy2 α) (h : lazyTranspose2 Lo dim0 dim1 = some Lo') :
    ∃ x y : Nat, (x : Int) = (if dim0 < 0 then (Lo.batch.length : Int) + dim0 else dim0) ∧
      (y : Int) = (if dim1 < 0 then (Lo.batch.length : Int) + dim1 else dim1) ∧
      x < Lo.batch.length ∧ y < Lo.batch.length ∧
      abs2 Lo' ≈ (abs2 Lo).transpose (min x y) (max x y) := by
  have hUd := denseOf_uniform Lo bIn keys feat sdIn nIn hU
  have hned : (denseOf Lo).members ≠ [] := by simpa [denseOf] using hne0
  have hB := absL_batch_eq (denseOf Lo) _ keys feat hUd hned
  have hlenD : (denseOf Lo).members.length = Lo.members.length := by simp [denseOf]
  have hsdD : (denseOf Lo).sd = Lo.sd := rfl
  generalize hbI : bIn.insertIdx sdIn nIn = bI at hUd hB
  have hr : Lo.batch.length = bI.length + 1 := by
    rw [← denseOf_batch]
    show (absL (denseOf Lo)).batch.length = _
    rw [hB, List.length_insertIdx_of_le_length hUd.hsd]
  have hsdle : Lo.sd ≤ bI.length := hUd.hsd
  have hinner : ∀ Li ∈ Lo.members, Uniform Li bIn keys feat ∧ Li.members ≠ [] ∧ (absL Li).batch = bI := by
    intro Li hLi
    obtain ⟨hUi, hsdi, hni⟩ := hU.inner Li hLi
    have hnei : Li.members ≠ [] := by
      intro hm; rw [hm] at hni; simp at hni; have := hU.hn; omega
    refine ⟨hUi, hnei, ?_⟩
    rw [absL_batch_eq Li bIn keys feat hUi hnei, hsdi, hni, hbI]
  unfold lazyTranspose2 at h
  dsimp only at h
  generalize ha0 : (if dim0 < 0 then (Lo.batch.length : Int) + dim0 else dim0) = a0 at h ⊢
  generalize hb0 : (if dim1 < 0 then (Lo.batch.length : Int) + dim1 else dim1) = b0 at h ⊢
  by_cases hrange : a0 < 0 ∨ b0 < 0 ∨ a0 ≥ (Lo.batch.length : Int) ∨ b0 ≥ (Lo.batch.length : Int)
  · rw [if_pos hrange] at h; simp at h
  rw [if_neg hrange] at h
  refine ⟨a0.toNat, b0.toNat, by omega, by omega, by omega, by omega, ?_⟩
  have hmin : (min a0 b0).toNat = min a0.toNat b0.toNat := by omega
  have hmax : (max a0 b0).toNat = max a0.toNat b0.toNat := by omega
  rw [hmin, hmax] at h
  generalize hA : min a0.toNat b0.toNat = A at h ⊢
  generalize hBB : max a0.toNat b0.toNat = B at h ⊢
  have hAB : A ≤ B := by omega
  have hBr : B < bI.length + 1 := by omega
  have hrn : (Lo.batch.length : Int).toNat = bI.length + 1 := by omega
  have leafEq : ∀ k ∈ keys, ∀ m ∈ (denseOf Lo).members.map (fun m => m.leaf k), m.shape = bI ++ feat k :=
    fun k hk => leaf_shapes (denseOf Lo) bI keys feat hUd k hk
  by_cases heq : A = B
  · rw [if_pos heq] at h
    simp only [Option.some.injEq] at h
    subst h
    subst heq
    refine ⟨by show (abs2 Lo).batch = swapAt (abs2 Lo).batch A A; rw [swapAt_self], rfl, ?_⟩
    intro k _
    refine ⟨by show _ = swapAt _ A A; rw [swapAt_self], ?_⟩
    intro c _
    show _ = ((abs2 Lo).leaf k).get (swapAt c A A)
    rw [swapAt_self]
  rw [if_neg heq] at h
  have hlt : A < B := by omega
  have hidm : ∀ i (h2 : i < Lo.members.length),
      absL Lo.members[i] ≈ (absL Lo.members[i]).mapLeaves (id (absL Lo.members[i]).batch) id := by
    intro i h2; exact TD.Eqv.refl _
  by_cases h1 : A = Lo.sd
  · rw [if_pos h1] at h
    by_cases h2 : B = A + 1
    · rw [if_pos h2] at h
      obtain ⟨rfl, _⟩ := lazyStack2_some _ _ _ h
      apply abs2_map Lo bIn keys feat sdIn nIn hU hne0 id id (fun t => t.transpose A B) B _
        (by intro t t' hh; exact hh)
        (by intro k hk t ht; show B ≤ t.shape.length; rw [ht, hbI]; simp; omega)
        Lo.members rfl (fun i _ h2 => hidm i h2)
      · rw [hbI, abs2_eq, hB, hlenD, hsdD, ← h1, h2]; exact (swap_shape_adjacent bI _ A (by omega)).symm
      · intro k hk
        apply stack_reindex ((denseOf Lo).members.map fun m => m.leaf k) (bI ++ feat k) Lo.sd B (leafEq k hk)
          (by simpa using hned) id (fun t => t.transpose A B) id (fun c => swapAt c A B) id (fun s => swapAt s A B)
          (fun _ _ => rfl) (fun _ => rfl) (fun _ _ => rfl) (fun _ => rfl)
        · simp only [List.length_map, id]
          rw [← h1, h2, swap_shape_adjacent _ _ A (by simp; omega)]
        · simp; omega
        · intro c hc
          have hcl := InB.length hc
          simp only [List.length_map, id] at hcl
          rw [List.length_insertIdx_of_le_length (by simp; omega)] at hcl
          rw [← h1, h2]
          exact swap_adjacent c A (by rw [hcl]; simp; omega)
    · rw [if_neg h2, hrn] at h
      simp only [Nat.add_sub_cancel] at h
      cases hms : allSome (Lo.members.map fun Li => lazyPermute Li ((rollPerm bI.length (B - 1) A).map fun (d : Nat) => (d : Int))) with
      | none => rw [hms] at h; simp at h
      | some ms =>
        rw [hms] at h
        simp only [Option.bind_some] at h
        obtain ⟨rfl, _⟩ := lazyStack2_some _ _ _ h
        obtain ⟨hl, hget⟩ := allSome_map_getElem _ _ _ hms
        have hleafLen : ∀ k ∈ (abs2 Lo).keys, (abs2 Lo).batch.length ≤ ((abs2 Lo).leaf k).shape.length := by
          intro k hk
          obtain ⟨_, hkk⟩ := head_batch_of_uniform (denseOf Lo) bI keys feat hUd hned
          have hkeys : k ∈ keys := by rw [← hkk]; exact hk
          have hhead := head_shape_of_all _ _ (leafEq k hkeys) (by simpa using hned)
          show _ ≤ (T.stack ((denseOf Lo).members.map fun m => m.leaf k) Lo.sd).shape.length
          rw [T.stack_shape, hhead, abs2_eq, hB, List.length_insertIdx_of_le_length hUd.hsd,
            List.length_insertIdx_of_le_length (by simp; omega)]
          simp
        have hsw := TD.permute_swap (abs2 Lo) A B (by rw [abs2_eq, hB, List.length_insertIdx_of_le_length hUd.hsd]; omega)
          (by rw [abs2_eq, hB, List.length_insertIdx_of_le_length hUd.hsd]; omega) hleafLen
        rw [abs2_eq, hB, List.length_insertIdx_of_le_length hUd.hsd, ← abs2_eq] at hsw
        subst hbI
        have hp := swapRange_isPerm ((bIn.insertIdx sdIn nIn).length + 1) A B (by omega) hBr
        have hroll := memberPerm_swap_left ((bIn.insertIdx sdIn nIn).length + 1) A B hlt hBr
        have hidx : (swapAt (List.range ((bIn.insertIdx sdIn nIn).length + 1)) A B).idxOf Lo.sd = B := by
          rw [← h1, idxOf_swapRange _ A B A (by omega) hBr (by omega)]
          unfold swapF; simp
        have := permute_members2 Lo bIn keys feat sdIn nIn hU hne0 _ hp ms hl (by
          intro i i1 i2
          obtain ⟨hUi, hnei, _⟩ := hinner _ (List.getElem_mem i2)
          obtain ⟨q, _, hq, hres⟩ := permute_refines _ bIn keys feat hUi hnei _ _ (hget i i1 i2)
          rw [map_cast_norm_toNat] at hq
          rw [hq] at hres
          rw [← h1, hroll]
          simpa using hres)
        rw [hidx] at this
        refine TD.Eqv.trans this ?_
        exact hsw
  · rw [if_neg h1] at h
    by_cases h2 : B = Lo.sd
    · rw [if_pos h2] at h
      by_cases h3 : A + 1 = B
      · rw [if_pos h3] at h
        obtain ⟨rfl, _⟩ := lazyStack2_some _ _ _ h
        apply abs2_map Lo bIn keys feat sdIn nIn hU hne0 id id (fun t => t.transpose A B) A _
          (by intro t t' hh; exact hh)
          (by intro k hk t ht; show A ≤ t.shape.length; rw [ht, hbI]; simp; omega)
          Lo.members rfl (fun i _ h2 => hidm i h2)
        · rw [hbI, abs2_eq, hB, hlenD, hsdD, ← h2, ← h3]; exact (swap_shape_adjacent' bI _ A (by omega)).symm
        · intro k hk
          apply stack_reindex ((denseOf Lo).members.map fun m => m.leaf k) (bI ++ feat k) Lo.sd A (leafEq k hk)
            (by simpa using hned) id (fun t => t.transpose A B) id (fun c => swapAt c A B) id (fun s => swapAt s A B)
            (fun _ _ => rfl) (fun _ => rfl) (fun _ _ => rfl) (fun _ => rfl)
          · simp only [List.length_map, id]
            rw [← h2, ← h3, swap_shape_adjacent' _ _ A (by simp; omega)]
          · simp; omega
          · intro c hc
            have hcl := InB.length hc
            simp only [List.length_map, id] at hcl
            rw [List.length_insertIdx_of_le_length (by simp; omega)] at hcl
            rw [← h2, ← h3]
            exact swap_adjacent' c A (by rw [hcl]; simp; omega)
      · rw [if_neg h3, hrn] at h
        simp only [Nat.add_sub_cancel] at h
        cases hms : allSome (Lo.members.map fun Li => lazyPermute Li ((rollPerm bI.length A (B - 1)).map fun (d : Nat) => (d : Int))) with
        | none => rw [hms] at h; simp at h
        | some ms =>
          rw [hms] at h
          simp only [Option.bind_some] at h
          obtain ⟨rfl, _⟩ := lazyStack2_some _ _ _ h
          obtain ⟨hl, hget⟩ := allSome_map_getElem _ _ _ hms
          have hleafLen : ∀ k ∈ (abs2 Lo).keys, (abs2 Lo).batch.length ≤ ((abs2 Lo).leaf k).shape.length := by
            intro k hk
            obtain ⟨_, hkk⟩ := head_batch_of_uniform (denseOf Lo) bI keys feat hUd hned
            have hkeys : k ∈ keys := by rw [← hkk]; exact hk
            have hhead := head_shape_of_all _ _ (leafEq k hkeys) (by simpa using hned)
            show _ ≤ (T.stack ((denseOf Lo).members.map fun m => m.leaf k) Lo.sd).shape.length
            rw [T.stack_shape, hhead, abs2_eq, hB, List.length_insertIdx_of_le_length hUd.hsd,
              List.length_insertIdx_of_le_length (by simp; omega)]
            simp
          have hsw := TD.permute_swap (abs2 Lo) A B (by rw [abs2_eq, hB, List.length_insertIdx_of_le_length hUd.hsd]; omega)
            (by rw [abs2_eq, hB, List.length_insertIdx_of_le_length hUd.hsd]; omega) hleafLen
          rw [abs2_eq, hB, List.length_insertIdx_of_le_length hUd.hsd, ← abs2_eq] at hsw
          subst hbI
          have hp := swapRange_isPerm ((bIn.insertIdx sdIn nIn).length + 1) A B (by omega) hBr
          have hroll := memberPerm_swap_right ((bIn.insertIdx sdIn nIn).length + 1) A B hlt hBr
          have hidx : (swapAt (List.range ((bIn.insertIdx sdIn nIn).length + 1)) A B).idxOf Lo.sd = A := by
            rw [← h2, idxOf_swapRange _ A B B (by omega) hBr hBr]
            unfold swapF; simp
          have := permute_members2 Lo bIn keys feat sdIn nIn hU hne0 _ hp ms hl (by
            intro i i1 i2
            obtain ⟨hUi, hnei, _⟩ := hinner _ (List.getElem_mem i2)
            obtain ⟨q, _, hq, hres⟩ := permute_refines _ bIn keys feat hUi hnei _ _ (hget i i1 i2)
            rw [map_cast_norm_toNat] at hq
            rw [hq] at hres
            rw [← h2, hroll]
            simpa using hres)
          rw [hidx] at this
          exact TD.Eqv.trans this hsw
    · rw [if_neg h2] at h
      cases hms : allSome (Lo.members.map fun Li => lazyTranspose Li ((if A < Lo.sd then A else A - 1 : Nat) : Int) ((if B < Lo.sd then B else B - 1 : Nat) : Int)) with
      | none => rw [hms] at h; simp at h
      | some ms =>
        rw [hms] at h
        simp only [Option.bind_some] at h
        obtain ⟨rfl, _⟩ := lazyStack2_some _ _ _ h
        obtain ⟨hl, hget⟩ := allSome_map_getElem _ _ _ hms
        apply abs2_map Lo bIn keys feat sdIn nIn hU hne0
          (fun s => swapAt s (if A < Lo.sd then A else A - 1) (if B < Lo.sd then B else B - 1))
          (fun t => t.transpose (if A < Lo.sd then A else A - 1) (if B < Lo.sd then B else B - 1))
          (fun t => t.transpose A B) Lo.sd _
          (by intro t t' hh; simp [T.transpose, hh])
          (by intro k hk t ht; show Lo.sd ≤ (swapAt t.shape _ _).length; rw [length_swapAt, ht, hbI]; simp; omega)
          ms hl
          (by
            intro i i1 i2
            obtain ⟨hUi, hnei, hbi⟩ := hinner _ (List.getElem_mem i2)
            obtain ⟨x, y, hx, hy, hxr, hyr, hres⟩ := transpose_refines_full _ bIn keys feat hUi hnei _ _ _ (hget i i1 i2)
            have hx' : x = (if A < Lo.sd then A else A - 1) := by
              have : ¬ (((if A < Lo.sd then A else A - 1 : Nat) : Int) < 0) := by omega
              rw [if_neg this] at hx; omega
            have hy' : y = (if B < Lo.sd then B else B - 1) := by
              have : ¬ (((if B < Lo.sd then B else B - 1 : Nat) : Int) < 0) := by omega
              rw [if_neg this] at hy; omega
            have hle : x ≤ y := by rw [hx', hy']; split <;> split <;> omega
            rw [Nat.min_eq_left hle, Nat.max_eq_right hle, hx', hy'] at hres
            exact hres)
        · rw [hbI, abs2_eq, hB, hlenD, hsdD]; exact (swap_shape_other bI _ A B Lo.sd hsdle (by omega) (by omega) h1 h2).symm
        · intro k hk
          apply stack_reindex ((denseOf Lo).members.map fun m => m.leaf k) (bI ++ feat k) Lo.sd Lo.sd (leafEq k hk)
            (by simpa using hned) _ (fun t => t.transpose A B)
            (fun c => swapAt c (if A < Lo.sd then A else A - 1) (if B < Lo.sd then B else B - 1)) (fun c => swapAt c A B)
            (fun s => swapAt s (if A < Lo.sd then A else A - 1) (if B < Lo.sd then B else B - 1)) (fun s => swapAt s A B)
            (fun _ _ => rfl) (fun _ => rfl) (fun _ _ => rfl) (fun _ => rfl)
          · simp only [List.length_map]
            exact swap_shape_other _ _ A B Lo.sd (by simp; omega) (by simp; omega) (by simp; omega) h1 h2
          · simp [length_swapAt]; omega
          · intro c hc
            have hcl := InB.length hc
            simp only [List.length_map] at hcl
            rw [List.length_insertIdx_of_le_length (by simp [length_swapAt]; omega), length_swapAt] at hcl
            exact swap_erase_other c A B Lo.sd (by rw [hcl]; simp; omega) (by rw [hcl]; simp; omega)
              (by rw [hcl]; simp; omega) h1 h2

end TdVerif.C08
