import TdVerif.Model.C11StateDict

namespace TdVerif.C11

theorem stateDictKids_keys : ∀ kids : List (String × PT), (stateDictKids kids).map (·.1) = kids.map (·.1)
  | [] => rfl
  | (k, t) :: rest => by simp [stateDictKids, stateDictKids_keys rest]

theorem zerosLikeKids_keys : ∀ kids : List (String × PT), (zerosLikeKids kids).map (·.1) = kids.map (·.1)
  | [] => rfl
  | (k, t) :: rest => by simp [zerosLikeKids, zerosLikeKids_keys rest]

theorem any_key_iff {β} (l : List (String × β)) (k : String) : (l.any fun q => q.1 == k) = true ↔ k ∈ l.map (·.1) := by
  simp only [List.any_eq_true, List.mem_map, beq_iff_eq]

theorem sameKeys_of_keys_eq (es : List (String × SD)) (dk : List (String × PT))
    (h : es.map (·.1) = dk.map (·.1)) : sameKeys es dk = true := by
  simp only [sameKeys, Bool.and_eq_true, List.all_eq_true]
  constructor
  · intro p hp
    rw [any_key_iff, ← h]
    exact List.mem_map.2 ⟨p, hp, rfl⟩
  · intro q hq
    rw [any_key_iff, h]
    exact List.mem_map.2 ⟨q, hq, rfl⟩

/-- writing key `k` that sits between `done` and `rest` (and nowhere else) replaces that entry only -/
theorem setKid_mid (done rest : List (String × PT)) (k : String) (old v : PT)
    (h1 : k ∉ done.map (·.1)) (h2 : k ∉ rest.map (·.1)) :
    setKid (done ++ (k, old) :: rest) k v = done ++ (k, v) :: rest := by
  have hany : ((done ++ (k, old) :: rest).any fun q => q.1 == k) = true := by simp
  simp only [setKid, hany, if_true, List.map_append, List.map_cons, beq_self_eq_true]
  have hd : done.map (fun q => if q.1 == k then (k, v) else q) = done := by
    conv => rhs; rw [← List.map_id done]
    apply List.map_congr_left
    intro q hq
    have : q.1 ≠ k := fun e => h1 (e ▸ List.mem_map.2 ⟨q, hq, rfl⟩)
    simp [this]
  have hr : rest.map (fun q => if q.1 == k then (k, v) else q) = rest := by
    conv => rhs; rw [← List.map_id rest]
    apply List.map_congr_left
    intro q hq
    have : q.1 ≠ k := fun e => h2 (e ▸ List.mem_map.2 ⟨q, hq, rfl⟩)
    simp [this]
  rw [hd, hr]

theorem lookup_mid (done rest : List (String × PT)) (k : String) (old : PT) (h1 : k ∉ done.map (·.1)) :
    (done ++ (k, old) :: rest).lookup k = some old := by
  induction done with
  | nil => simp
  | cons q done ih =>
    obtain ⟨k', t'⟩ := q
    simp only [List.map_cons, List.mem_cons, not_or] at h1
    have : (k == k') = false := beq_false_of_ne h1.1
    simp only [List.cons_append, List.lookup, this]
    exact ih h1.2

mutual
theorem stateDict_roundtrip_aux : ∀ (t : PT), NodupKeys t → loadSD (stateDict t) (zerosLike t) = some t
  | .leaf v, _ => by simp [stateDict, loadSD]
  | .node b n d l kids, h => by
    simp only [NodupKeys] at h
    have hk : (stateDictKids kids).map (·.1) = (zerosLikeKids kids).map (·.1) := by
      rw [stateDictKids_keys, zerosLikeKids_keys]
    have hdev : (d.isSome && d.isSome && d != d) = false := by cases d <;> simp
    simp only [stateDict, zerosLike, loadSD, sameKeys_of_keys_eq _ _ hk, Bool.true_eq_false, if_false, hdev]
    have := stateDict_roundtrip_kids b n d kids [] (by simpa using h.1) h.2
    simp only [List.nil_append] at this
    simp [this]
theorem stateDict_roundtrip_kids (db : List Nat) (dn : Option (List String)) (dd : Option String) :
    ∀ (rest done : List (String × PT)), ((done ++ rest).map (·.1)).Nodup → NodupKeysKids rest →
      loadSDEntries db dn dd (stateDictKids rest) (done ++ zerosLikeKids rest) = some (done ++ rest)
  | [], done, _, _ => by simp [stateDictKids, zerosLikeKids, loadSDEntries]
  | (k, t) :: rest, done, hn, hs => by
    simp only [NodupKeysKids] at hs
    have hn' := hn
    simp only [List.map_append, List.map_cons] at hn'
    have hsplit := List.nodup_append.1 hn'
    have h1 : k ∉ done.map (·.1) := fun hm => hsplit.2.2 k hm k (by simp) rfl
    have h2 : k ∉ rest.map (·.1) := (List.nodup_cons.1 hsplit.2.1).1
    have h2' : k ∉ (zerosLikeKids rest).map (·.1) := by rw [zerosLikeKids_keys]; exact h2
    have hnext : ((done ++ [(k, t)] ++ rest).map (·.1)).Nodup := by simpa [List.append_assoc] using hn
    have ih := stateDict_roundtrip_kids db dn dd rest (done ++ [(k, t)]) hnext hs.2
    cases t with
    | leaf v =>
      simp only [stateDictKids, zerosLikeKids, stateDict, zerosLike, loadSDEntries]
      rw [setKid_mid done (zerosLikeKids rest) k (.leaf 0) (.leaf v) h1 h2']
      simpa [List.append_assoc] using ih
    | node b n d l kids =>
      have hrt := stateDict_roundtrip_aux (.node b n d l kids) hs.1
      simp only [stateDict, zerosLike] at hrt
      simp only [stateDictKids, zerosLikeKids, stateDict, zerosLike, loadSDEntries]
      rw [lookup_mid done (zerosLikeKids rest) k _ h1]
      simp only [Option.getD_some, hrt]
      rw [setKid_mid done (zerosLikeKids rest) k _ (.node b n d l kids) h1 h2']
      simpa [List.append_assoc] using ih
end

end TdVerif.C11
