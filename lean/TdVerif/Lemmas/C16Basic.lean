/-
  C16 — basic lemmas about the representation (`getAtList`, `inB`, list surgery).
-/
import TdVerif.Model.C16NonTensor

namespace TdVerif.C16
namespace NT
variable {O : Type}

theorem getAtList_eq : ∀ (ms : List (NT O)) (i : Nat) (c : List Nat),
    getAtList ms i c = (ms[i]?).bind (fun m => getAt m c)
  | [], i, c => by simp [getAtList]
  | m :: r, 0, c => by simp [getAtList]
  | m :: r, i + 1, c => by simp [getAtList, getAtList_eq r i c]

theorem getAt_stack (ms : List (NT O)) (d : Nat) (c : List Nat) :
    getAt (.stack ms d) c = (c[d]?).bind (fun i => (ms[i]?).bind (fun m => getAt m (c.eraseIdx d))) := by
  simp only [getAt]
  cases c[d]? with
  | none => rfl
  | some i => simp [getAtList_eq]

theorem getAt_shared (o : O) (s : Shape) (c : List Nat) :
    getAt (.shared o s) c = if inB c s then some o else none := by
  simp [getAt]

theorem inB_length : ∀ {c : List Nat} {s : Shape}, inB c s = true → c.length = s.length
  | [], [], _ => rfl
  | [], _ :: _, h => by simp [inB] at h
  | _ :: _, [], h => by simp [inB] at h
  | i :: c, n :: s, h => by
    simp only [inB, Bool.and_eq_true] at h
    simp [inB_length h.2]

theorem inB_cons (i n : Nat) (c : List Nat) (s : Shape) :
    inB (i :: c) (n :: s) = (decide (i < n) && inB c s) := rfl

end NT
end TdVerif.C16

namespace TdVerif.C16
namespace NT
variable {O : Type}

/-- a coordinate of a shape with `n` inserted at position `d` = a position `< n` at `d` plus a coordinate of the rest -/
theorem inB_insertIdx : ∀ (d : Nat) (s : Shape) (n : Nat) (c : List Nat), d ≤ s.length →
    inB c (s.insertIdx d n) = (match c[d]? with
      | some i => decide (i < n) && inB (c.eraseIdx d) s
      | none => false)
  | 0, s, n, [], _ => by simp [inB]
  | 0, s, n, i :: c, _ => by simp [inB]
  | d + 1, [], n, c, h => by simp at h
  | d + 1, m :: s, n, [], _ => by simp [inB]
  | d + 1, m :: s, n, j :: c, h => by
    have ih := inB_insertIdx d s n c (by simpa using h)
    simp only [List.insertIdx_succ_cons, inB, ih, List.getElem?_cons_succ, List.eraseIdx_cons_succ]
    cases c[d]? with
    | none => simp
    | some i => simp [Bool.and_left_comm]

theorem getElem?_replicate' {α : Type} (n i : Nat) (x : α) :
    (List.replicate n x)[i]? = if i < n then some x else none := by
  by_cases h : i < n <;> simp [h, List.getElem?_replicate]

/-- promoting a shared entry (`maybe_to_stack`) does not change the array it stands for -/
theorem fromShared_getAt (o : O) : ∀ (s : Shape) (c : List Nat),
    getAt (fromShared o s) c = if inB c s then some o else none
  | [], c => by simp [fromShared, getAt]
  | n :: s, [] => by simp [fromShared, getAt_stack, inB]
  | n :: s, i :: c => by
    simp only [fromShared, getAt_stack, List.getElem?_cons_zero, Option.bind_some, List.eraseIdx_cons_zero,
      getElem?_replicate', inB]
    by_cases h : i < n
    · simp [h, fromShared_getAt o s c]
    · simp [h]

theorem fromShared_shape (o : O) : ∀ (s : Shape), (∀ n ∈ s, n ≠ 0) → shape (fromShared o s) = s
  | [], _ => rfl
  | n :: s, h => by
    have hn : n ≠ 0 := h n (by simp)
    obtain ⟨k, rfl⟩ := Nat.exists_eq_succ_of_ne_zero hn
    have ih := fromShared_shape o s (fun m hm => h m (by simp [hm]))
    simp [fromShared, List.replicate_succ, shape, ih]

end NT
end TdVerif.C16

namespace TdVerif.C16
namespace NT
variable {O : Type}

theorem maybeToStackList_getElem? : ∀ (ms : List (NT O)) (i : Nat),
    (maybeToStackList ms)[i]? = (ms[i]?).map maybeToStack
  | [], i => by simp [maybeToStackList]
  | m :: r, 0 => by simp [maybeToStackList]
  | m :: r, i + 1 => by simp [maybeToStackList, maybeToStackList_getElem? r i]

theorem maybeToStackList_length : ∀ (ms : List (NT O)), (maybeToStackList ms).length = ms.length
  | [] => rfl
  | m :: r => by simp [maybeToStackList, maybeToStackList_length r]

mutual
theorem maybeToStack_getAt : ∀ (r : NT O) (c : List Nat), getAt (maybeToStack r) c = getAt r c
  | .shared o s, c => by simp [maybeToStack, fromShared_getAt, getAt_shared]
  | .stack ms d, c => by
    simp only [maybeToStack, getAt_stack, maybeToStackList_getElem?]
    cases c[d]? with
    | none => rfl
    | some i =>
      simp only [Option.bind_some]
      exact maybeToStackList_getAt ms i (c.eraseIdx d)
theorem maybeToStackList_getAt : ∀ (ms : List (NT O)) (i : Nat) (c : List Nat),
    ((ms[i]?).map maybeToStack).bind (fun m => getAt m c) = (ms[i]?).bind (fun m => getAt m c)
  | [], i, c => by simp
  | m :: r, 0, c => by simp [maybeToStack_getAt m c]
  | m :: r, i + 1, c => by simpa using maybeToStackList_getAt r i c
end

/-- every dim of the batch shape is positive (no empty batch) -/
def posShape (s : Shape) : Prop := ∀ n ∈ s, n ≠ 0

mutual
theorem maybeToStack_shape : ∀ (r : NT O), wf r = true → posShape (shape r) → shape (maybeToStack r) = shape r
  | .shared o s, _, hp => by simpa [maybeToStack, shape] using fromShared_shape o s hp
  | .stack [] d, h, _ => by simp [wf] at h
  | .stack (m :: ms) d, h, hp => by
    simp only [wf, Bool.and_eq_true, decide_eq_true_eq] at h
    have hm : posShape (shape m) := by
      intro n hn
      apply hp n
      simp only [shape]
      exact List.mem_insertIdx h.1.2 |>.mpr (Or.inr hn)
    simp only [maybeToStack, maybeToStackList, shape, maybeToStackList_length, maybeToStack_shape m h.1.1 hm]
end

end NT
end TdVerif.C16
