/-
  Helper lemmas for the lazy-stack part of C19: two insertions commute the way
  `LazyStackedTensorDict._remove_batch_dim` re-indexes `stack_dim` / `out_dim`, and erasing next to an insertion.
-/
import TdVerif.Model.C19Lazy
import TdVerif.Lemmas.C19Vmap

namespace TdVerif.C19

/-- the stack-dim / out-dim adjustment of `_remove_batch_dim`: unwrapping the members at `out_dim - 1` and keeping
`stack_dim` (when `out_dim > stack_dim`), or unwrapping at `out_dim` and moving the stack to `stack_dim + 1`,
is inserting the stack size at `s` first and the vmap size at `o` afterwards -/
theorem insert_two {α} (m : List α) (s o : Nat) (n B : α) (hs : s ≤ m.length) (ho : o ≤ m.length + 1) :
    (if o > s then (m.insertIdx (o - 1) B).insertIdx s n else (m.insertIdx o B).insertIdx (s + 1) n)
      = (m.insertIdx s n).insertIdx o B := by
  split
  · rename_i h
    have := List.insertIdx_comm (l := m) n B (i := s) (j := o - 1) (by omega) (by omega)
    have ho' : o - 1 + 1 = o := by omega
    rw [ho'] at this
    exact this.symm
  · rename_i h
    exact List.insertIdx_comm (l := m) B n (i := o) (j := s) (by omega) hs

theorem eraseIdx_insertIdx_lt {α} (m : List α) (sd i : Nat) (n : α) (hi : i < sd) (hsd : sd ≤ m.length) :
    (m.insertIdx sd n).eraseIdx i = (m.eraseIdx i).insertIdx (sd - 1) n := by
  have h := List.insertIdx_eraseIdx_of_ge (a := n) (as := m) (i := i) (j := sd - 1) (by omega) (by omega)
  have : sd - 1 + 1 = sd := by omega
  rw [this] at h
  exact h.symm

theorem eraseIdx_insertIdx_gt {α} (m : List α) (sd i : Nat) (n : α) (hi : sd < i) (him : i ≤ m.length) :
    (m.insertIdx sd n).eraseIdx i = (m.eraseIdx (i - 1)).insertIdx sd n := by
  have h := List.insertIdx_eraseIdx_of_le (a := n) (as := m) (i := i - 1) (j := sd) (by omega) (by omega)
  have : i - 1 + 1 = i := by omega
  rw [this] at h
  exact h.symm

theorem getD_insertIdx_lt {α} (m : List α) (sd i : Nat) (n d : α) (hi : i < sd) :
    (m.insertIdx sd n).getD i d = m.getD i d := by
  simp [List.getD, List.getElem?_insertIdx_of_lt hi]

theorem getD_insertIdx_gt {α} (m : List α) (sd i : Nat) (n d : α) (hi : sd < i) (hsd : sd ≤ m.length) :
    (m.insertIdx sd n).getD i d = m.getD (i - 1) d := by
  simp [List.getD, List.getElem?_insertIdx_of_gt hi]

/-! ### a slice of a stack is the stack of the slices (coordinate maps) -/

theorem getD_map {α β} (f : α → β) (l : List α) (k : Nat) (d : α) (d' : β) (h : k < l.length) :
    (l.map f).getD k d' = f (l.getD k d) := by
  simp [List.getD, h]

theorem headD_map {α β} (f : α → β) (l : List α) (d : α) (d' : β) (h : 0 < l.length) :
    (l.map f).headD d' = f (l.headD d) := by
  cases l with
  | nil => simp at h
  | cons a l => rfl

/-- slicing a stack along its own stack dimension gives the member -/
theorem select_stack_same (ts : List T) (sd k : Nat) (hk : k < ts.length)
    (hsd : sd ≤ (ts.headD default).shape.length)
    (hshape : ∀ t ∈ ts, t.shape = (ts.headD default).shape) :
    (select (stack ts sd) sd k).Eqv (ts.getD k default) := by
  have hmem : ts.getD k default ∈ ts := by
    simp only [List.getD, List.getElem?_eq_getElem hk, Option.getD_some]; exact List.getElem_mem hk
  constructor
  · simp only [select, stack, List.eraseIdx_insertIdx_self]; exact (hshape _ hmem).symm
  · intro c hc
    simp only [select, stack, List.eraseIdx_insertIdx_self] at hc ⊢
    have hlen : sd ≤ c.length := by rw [hc.1]; exact hsd
    rw [getD_insertIdx_self c sd k 0 hlen]

/-- slicing a stack along a dimension before the stack dimension: stack (one position earlier) of the slices -/
theorem select_stack_lt (ts : List T) (sd i k : Nat) (hne : 0 < ts.length) (hi : i < sd)
    (hsd : sd ≤ (ts.headD default).shape.length) :
    (select (stack ts sd) i k).Eqv (stack (ts.map (fun t => select t i k)) (sd - 1)) := by
  have hh : (ts.map (fun t => select t i k)).headD default = select (ts.headD default) i k :=
    headD_map (fun t => select t i k) ts default default hne
  have hR : (stack (ts.map (fun t => select t i k)) (sd - 1)).shape
      = ((ts.headD default).shape.eraseIdx i).insertIdx (sd - 1) ts.length := by
    show ((ts.map (fun t => select t i k)).headD default).shape.insertIdx (sd - 1) (ts.map (fun t => select t i k)).length = _
    rw [hh, List.length_map]; rfl
  have hshape : (select (stack ts sd) i k).shape = (stack (ts.map (fun t => select t i k)) (sd - 1)).shape := by
    rw [hR]
    exact eraseIdx_insertIdx_lt _ sd i _ hi hsd
  refine ⟨hshape, ?_⟩
  intro c hc
  rw [hshape, hR] at hc
  have hs1 : sd - 1 ≤ ((ts.headD default).shape.eraseIdx i).length := by
    rw [List.length_eraseIdx]; split <;> omega
  have hkn : c.getD (sd - 1) 0 < ts.length := InB.at_inserted hc hs1
  have hclen : c.length = (ts.headD default).shape.length := by
    have := hc.1
    rw [List.length_insertIdx_of_le_length hs1, List.length_eraseIdx] at this
    split at this <;> omega
  have hg : (c.insertIdx i k).getD sd 0 = c.getD (sd - 1) 0 := getD_insertIdx_gt c i sd k 0 hi (by omega)
  have he : (c.insertIdx i k).eraseIdx sd = (c.eraseIdx (sd - 1)).insertIdx i k := by
    have h := List.insertIdx_eraseIdx_of_le (a := k) (as := c) (i := sd - 1) (j := i) (by omega) (by omega)
    have : sd - 1 + 1 = sd := by omega
    rw [this] at h
    exact h.symm
  show (stack ts sd).get (c.insertIdx i k) = ((ts.map (fun t => select t i k)).getD (c.getD (sd - 1) 0) default).get (c.eraseIdx (sd - 1))
  rw [getD_map (fun t => select t i k) ts _ default default hkn]
  simp only [select, stack, hg, he]

/-- slicing a stack along a dimension after the stack dimension: stack (same position) of the slices one position earlier -/
theorem select_stack_gt (ts : List T) (sd i k : Nat) (hne : 0 < ts.length) (hi : sd < i)
    (hir : i ≤ (ts.headD default).shape.length) :
    (select (stack ts sd) i k).Eqv (stack (ts.map (fun t => select t (i - 1) k)) sd) := by
  have hh : (ts.map (fun t => select t (i - 1) k)).headD default = select (ts.headD default) (i - 1) k :=
    headD_map (fun t => select t (i - 1) k) ts default default hne
  have hR : (stack (ts.map (fun t => select t (i - 1) k)) sd).shape
      = ((ts.headD default).shape.eraseIdx (i - 1)).insertIdx sd ts.length := by
    show ((ts.map (fun t => select t (i - 1) k)).headD default).shape.insertIdx sd (ts.map (fun t => select t (i - 1) k)).length = _
    rw [hh, List.length_map]; rfl
  have hshape : (select (stack ts sd) i k).shape = (stack (ts.map (fun t => select t (i - 1) k)) sd).shape := by
    rw [hR]
    exact eraseIdx_insertIdx_gt _ sd i _ hi hir
  refine ⟨hshape, ?_⟩
  intro c hc
  rw [hshape, hR] at hc
  have hs1 : sd ≤ ((ts.headD default).shape.eraseIdx (i - 1)).length := by
    rw [List.length_eraseIdx]; split <;> omega
  have hkn : c.getD sd 0 < ts.length := InB.at_inserted hc hs1
  have hclen : c.length = (ts.headD default).shape.length := by
    have := hc.1
    rw [List.length_insertIdx_of_le_length hs1, List.length_eraseIdx] at this
    split at this <;> omega
  have hg : (c.insertIdx i k).getD sd 0 = c.getD sd 0 := getD_insertIdx_lt c i sd k 0 hi
  have he : (c.insertIdx i k).eraseIdx sd = (c.eraseIdx sd).insertIdx (i - 1) k := by
    have h := List.insertIdx_eraseIdx_of_ge (a := k) (as := c) (i := sd) (j := i - 1) (by omega) (by omega)
    have : i - 1 + 1 = i := by omega
    rw [this] at h
    exact h.symm
  show (stack ts sd).get (c.insertIdx i k) = ((ts.map (fun t => select t (i - 1) k)).getD (c.getD sd 0) default).get (c.eraseIdx sd)
  rw [getD_map (fun t => select t (i - 1) k) ts _ default default hkn]
  simp only [select, stack, hg, he]

end TdVerif.C19
