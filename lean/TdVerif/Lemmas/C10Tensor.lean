import TdVerif.Model.C10Tensor
import TdVerif.Lemmas.C12Chunk

namespace TdVerif.C10
open TdVerif.C12 (Slots gather gather_range')

/-- reading the first `v.length` cells of a file that starts with `v` gives `v` -/
theorem read_prefix (v t : List Nat) : (List.range v.length).filterMap ((v ++ t)[·]?) = v := by
  have := gather_range' (v ++ t) v.length 0
  rw [← List.range_eq_range'] at this
  simpa [gather] using this

theorem fileBytes_write_self (fs : FS) (p : Path) (b : List Nat) : fileBytes (fs.write p (.bytes b)) p = b := by
  simp [fileBytes, Slots.write]

theorem fileBytes_write_other (fs : FS) (p q : Path) (f : File) (h : q ≠ p) : fileBytes (fs.write p f) q = fileBytes fs q := by
  simp [fileBytes, Slots.write, h]

/-- after `from_file` + `copy_`, the file starts with the content (a longer former file keeps its tail) -/
theorem mapAndCopy_prefix (fs : FS) (dst : Path) (v : List Nat) :
    ∃ t, fileBytes (mapAndCopy fs dst v.length (some v)) dst = v ++ t := by
  refine ⟨List.drop v.length (if (fileBytes fs dst).length < v.length then
      (fileBytes fs dst).set 0 0 ++ List.replicate (v.length - (fileBytes fs dst).length) 0 else fileBytes fs dst), ?_⟩
  simp [mapAndCopy, fileBytes_write_self]

theorem mapAndCopy_other (fs : FS) (dst q : Path) (n : Nat) (c : Option (List Nat)) (h : q ≠ dst) :
    mapAndCopy fs dst n c q = fs q := by
  simp [mapAndCopy, Slots.write, h]

end TdVerif.C10
