/-
  C01 — a lazily stacked root: every operation keeps every member coherent with the common batch size and device
-/
import TdVerif.Model.C01Lazy
import TdVerif.Lemmas.C01

namespace TdVerif.C01

/-- what every member of a coherent stack satisfies -/
def Good (bs : Shape) (dv : Option Nat) (x : M) : Prop :=
  Coherent x ∧ x.isNode = true ∧ x.shape = bs ∧ ∀ d, x.onDev d = (dv == some d)

theorem Good.of_keeps {bs dv} {x x' : M} (h : Good bs dv x) (hk : KeepsMeta x x') (hn : x'.isNode = true) : Good bs dv x' :=
  ⟨hk.2.2, hn, by rw [hk.1]; exact h.2.2.1, fun d => by rw [hk.2.1]; exact h.2.2.2 d⟩

theorem eachMember_good (f : M → M × Out) (bs : Shape) (dv : Option Nat)
    (hf : ∀ m, Good bs dv m → Good bs dv (f m).1) (ms : List M) (h : ∀ x ∈ ms, Good bs dv x) :
    ∀ x ∈ (eachMember f ms).1, Good bs dv x := by
  induction ms with
  | nil => simp [eachMember]
  | cons m r ih =>
    simp only [eachMember]
    have hm := hf m (h m (by simp))
    cases hfm : f m with
    | mk m' o =>
      rw [hfm] at hm
      cases o with
      | err e =>
        intro x hx
        simp only [List.mem_cons] at hx
        rcases hx with rfl | hx
        · exact hm
        · exact h x (List.mem_cons_of_mem _ hx)
      | ok =>
        have ih' := ih (fun x hx => h x (List.mem_cons_of_mem _ hx))
        cases hr : eachMember f r with
        | mk r' o' =>
          rw [hr] at ih'
          intro x hx
          simp only [List.mem_cons] at hx
          rcases hx with rfl | hx
          · exact hm
          · exact ih' x hx

theorem eachMember_length (f : M → M × Out) (ms : List M) : (eachMember f ms).1.length = ms.length := by
  induction ms with
  | nil => simp [eachMember]
  | cons m r ih =>
    simp only [eachMember]
    cases hfm : f m with
    | mk m' o =>
      cases o with
      | err e => simp
      | ok =>
        cases hr : eachMember f r with
        | mk r' o' => rw [hr] at ih; simp [ih]

theorem setNamesM_isNode (v : Option DimNames) (m : M) (h : m.isNode = true) : (setNamesM v m).1.isNode = true := by
  cases m with
  | leaf s d => simp [M.isNode] at h
  | node bs dv ns kids =>
    simp only [setNamesM]
    cases v with
    | none => simp [M.isNode]
    | some l =>
      simp only []
      split
      · simp [M.isNode]
      · simp [M.isNode]
      · split <;> simp [M.isNode]

theorem setPath_isNode (b : Bool) (p : Path) (v m : M) (h : m.isNode = true) : (setPath b p v m).1.isNode = true := by
  cases m with
  | leaf s d => simp [M.isNode] at h
  | node bs dv ns kids =>
    match p with
    | [] => simp [setPath, M.isNode]
    | [k] =>
      simp only [setPath]
      split <;> (try split) <;> simp [M.isNode]
    | k :: k2 :: rest =>
      simp only [setPath]
      split <;> simp [M.isNode]

theorem delPath_isNode (p : Path) (m : M) (h : m.isNode = true) : (delPath p m).1.isNode = true := by
  cases m with
  | leaf s d => simp [M.isNode] at h
  | node bs dv ns kids =>
    match p with
    | [] => simp [delPath, M.isNode]
    | [k] => simp only [delPath]; split <;> simp [M.isNode]
    | k :: k2 :: rest => simp only [delPath]; split <;> simp [M.isNode]


theorem renamePath_isNode (old new : Path) (m : M) (h : m.isNode = true) : (renamePath old new m).1.isNode = true := by
  unfold renamePath
  split
  · exact h
  · split
    · split <;> exact h
    · split
      · exact h
      · split
        · exact h
        · rename_i v hv
          split
          · cases hd : delPath old m with
            | mk t1 o1 =>
              have h1 : t1.isNode = true := by have := delPath_isNode old m h; rw [hd] at this; exact this
              cases o1 with
              | err e => exact h1
              | ok => exact setPath_isNode true new v t1 h1
          · simp only []
            cases hs : setPath (decide (new.length = 1) || isPrefix new.dropLast old) new v m with
            | mk t1 o1 =>
              have h1 : t1.isNode = true := by
                have := setPath_isNode (decide (new.length = 1) || isPrefix new.dropLast old) new v m h; rw [hs] at this; exact this
              cases o1 with
              | err e => exact h1
              | ok =>
                simp only []
                split
                · exact h1
                · exact delPath_isNode old t1 h1

theorem mem_insertAt {α} (i : Nat) (a x : α) (l : List α) : x ∈ insertAt i a l ↔ x = a ∨ x ∈ l := by
  unfold insertAt
  simp only [List.mem_append, List.mem_cons]
  constructor
  · rintro (h | h | h)
    · exact Or.inr (List.mem_of_mem_take h)
    · exact Or.inl h
    · exact Or.inr (List.mem_of_mem_drop h)
  · rintro (h | h)
    · exact Or.inr (Or.inl h)
    · rw [← List.take_append_drop i l] at h
      rcases List.mem_append.mp h with h | h
      · exact Or.inl h
      · exact Or.inr (Or.inr h)

/-- removing the stack dim from a shape that starts with the batch size of the stack leaves a shape that starts with the
batch size of the members -/
theorem takeEq_unbind (s bs : Shape) (sd n : Nat) (hsd : sd ≤ bs.length) (h : takeEq s (insertAt sd n bs) = true) :
    takeEq (s.eraseIdx sd) bs = true := by
  rw [takeEq_iff_prefix] at h ⊢
  obtain ⟨rest, rfl⟩ := h
  refine ⟨rest, ?_⟩
  unfold insertAt
  have hlen : (bs.take sd).length = sd := by simp [List.length_take]; omega
  rw [List.append_assoc, List.eraseIdx_append_of_length_le (by omega)]
  simp [hlen]
  rw [← List.append_assoc, List.take_append_drop]


theorem good_device {bs dv} {x : M} (h : Good bs dv x) : ∃ xbs xns xk, x = .node xbs dv xns xk := by
  obtain ⟨_, hn, _, hd⟩ := h
  cases x with
  | leaf s d => simp [M.isNode] at hn
  | node xbs xdv xns xk =>
    refine ⟨xbs, xns, xk, ?_⟩
    have : xdv = dv := by
      cases dv with
      | none =>
        cases xdv with
        | none => rfl
        | some a => have := hd a; simp [M.onDev] at this
      | some b => have := hd b; simpa [M.onDev] using this
    rw [this]

theorem lz_device (L : LZ) (bs : Shape) (dv : Option Nat) (h : ∀ x ∈ L.members, Good bs dv x) (hne : L.members ≠ []) :
    L.device = dv := by
  unfold LZ.device
  cases hm : L.members with
  | nil => exact absurd hm hne
  | cons m r =>
    obtain ⟨xbs, xns, xk, rfl⟩ := good_device (h m (by rw [hm]; simp))
    simp only []
    have : r.all (fun m => match m with | .node _ dv' _ _ => dv' == dv | .leaf .. => false) = true := by
      rw [List.all_eq_true]
      intro x hx
      obtain ⟨b, n, k, rfl⟩ := good_device (h x (by rw [hm]; exact List.mem_cons_of_mem _ hx))
      simp
    split
    · rfl
    · rename_i hx; exact absurd this hx

theorem lz_batchSize (L : LZ) (bs : Shape) (dv : Option Nat) (h : ∀ x ∈ L.members, Good bs dv x) (hne : L.members ≠ []) :
    L.batchSize = insertAt L.sd L.members.length bs := by
  unfold LZ.batchSize
  cases hm : L.members with
  | nil => exact absurd hm hne
  | cons m r =>
    have := (h m (by rw [hm]; simp)).2.2.1
    simp only [this]

theorem valShape_leaf (lbs s : Shape) (d : Nat) (v1 : M) (h : valShape lbs (.leaf s d) = .ok v1) : v1 = .leaf s d := by
  unfold valShape at h
  split at h
  · simp at h
  · simp at h; exact h.symm

theorem valDev_leaf (dv : Option Nat) (s : Shape) (d : Nat) (v2 : M) (h : valDev dv (.leaf s d) = .ok v2) :
    ∃ d', v2 = .leaf s d' ∧ ∀ x, dv = some x → d' = x := by
  unfold valDev at h
  cases dv with
  | none => simp at h; exact ⟨d, h.symm, by simp⟩
  | some x =>
    simp only at h
    split at h
    · rename_i hon
      simp at h
      exact ⟨d, h.symm, fun y hy => by simp at hy; subst hy; simpa [M.onDev] using hon⟩
    · simp only [toDev] at h
      split at h
      · simp at h
      · simp at h; exact ⟨x, h.symm, fun y hy => by simp at hy; exact hy⟩

theorem delLoop_good (key : Path) (bs : Shape) (dv : Option Nat) (ms : List M) (d : Bool) (e : Option Err)
    (h : ∀ x ∈ ms, Good bs dv x) : ∀ x ∈ (delLoop key ms d e).1, Good bs dv x := by
  induction ms generalizing d e with
  | nil => simp [delLoop]
  | cons m r ih =>
    have hm := h m (by simp)
    have hk := delPath_spec key m hm.1
    have hn := delPath_isNode key m hm.2.1
    have hg : Good bs dv (delPath key m).1 := hm.of_keeps hk hn
    have hr : ∀ x ∈ r, Good bs dv x := fun x hx => h x (List.mem_cons_of_mem _ hx)
    simp only [delLoop]
    cases hd : delPath key m with
    | mk m' o =>
      rw [hd] at hg
      cases o with
      | ok =>
        simp only []
        intro x hx
        simp only [List.mem_cons] at hx
        rcases hx with rfl | hx
        · exact hg
        · exact ih true e hr x hx
      | err er =>
        cases er <;> simp only [] <;> intro x hx <;> simp only [List.mem_cons] at hx <;> rcases hx with rfl | hx
        all_goals first | exact hg | exact hr x hx | exact ih d (some .key) hr x hx

/-- every operation of the stack keeps every member coherent, with the common batch size and device -/
theorem lstep_coherent (L : LZ) (op : LOp) (hc : LCoherent L)
    (hv : ∀ i m, op = .insert i m → Coherent m ∧ (L.members = [] → L.sd ≤ m.shape.length)) : LCoherent (lstep L op).1 := by
  obtain ⟨bs, dv, hgood, hsd⟩ := hc
  have hg : ∀ x ∈ L.members, Good bs dv x := hgood
  cases op with
  | setBatch nb => exact ⟨bs, dv, hgood, hsd⟩
  | rename o n =>
    simp only [lstep, renameL]
    have := eachMember_good (renamePath o n) bs dv
      (fun m hm => hm.of_keeps (renamePath_spec o n m hm.1) (renamePath_isNode o n m hm.2.1)) L.members hg
    have hl := eachMember_length (renamePath o n) L.members
    cases he : eachMember (renamePath o n) L.members with
    | mk ms o' =>
      rw [he] at this hl
      refine ⟨bs, dv, this, fun hne => hsd ?_⟩
      intro h0; rw [h0] at hl; simp at hl; exact hne (by simpa using hl)
  | del key =>
    simp only [lstep, delL]
    have := delLoop_good key bs dv L.members false none hg
    have hnil : L.members = [] → (delLoop key L.members false none).1 = [] := by intro h0; rw [h0]; simp [delLoop]
    cases hd : delLoop key L.members false none with
    | mk ms rest =>
      rw [hd] at this hnil
      have hres : LCoherent { L with members := ms } :=
        ⟨bs, dv, this, fun hne => hsd (fun h0 => hne (hnil h0))⟩
      obtain ⟨b, e1, e2⟩ := rest
      cases e2 <;> cases b <;> cases e1 <;> exact hres
  | setNames v =>
    simp only [lstep, setNamesL]
    have key : ∀ w, LCoherent { L with members := (eachMember (setNamesM w) L.members).1 } ∧
        ∀ sn, LCoherent { L with members := (eachMember (setNamesM w) L.members).1, sname := sn } := by
      intro w
      have := eachMember_good (setNamesM w) bs dv
        (fun m hm => hm.of_keeps (setNamesM_spec w m hm.1) (setNamesM_isNode w m hm.2.1)) L.members hg
      have hl := eachMember_length (setNamesM w) L.members
      have hne' : (eachMember (setNamesM w) L.members).1 ≠ [] → L.members ≠ [] := by
        intro hne h0; rw [h0] at hne; simp [eachMember] at hne
      exact ⟨⟨bs, dv, this, fun hne => hsd (hne' hne)⟩, fun sn => ⟨bs, dv, this, fun hne => hsd (hne' hne)⟩⟩
    cases v with
    | none =>
      simp only []
      cases he : eachMember (setNamesM none) L.members with
      | mk ms o =>
        have := key none; rw [he] at this
        cases o <;> simp only [] <;> first | exact this.1 | exact this.2 _
    | some l =>
      simp only []
      split
      · exact ⟨bs, dv, hgood, hsd⟩
      · split
        · exact ⟨bs, dv, hgood, hsd⟩
        · cases he : eachMember (setNamesM (some (l.eraseIdx L.sd))) L.members with
          | mk ms o =>
            have := key (some (l.eraseIdx L.sd)); rw [he] at this
            cases o <;> simp only [] <;> first | exact this.2 _ | exact ⟨bs, dv, hgood, hsd⟩
  | insert i m =>
    obtain ⟨hcm, hsdm⟩ := hv i m rfl
    simp only [lstep, insertL]
    cases m with
    | leaf s d => exact ⟨bs, dv, hgood, hsd⟩
    | node mbs mdv mns mkids =>
      simp only []
      cases hm : L.members with
      | nil =>
        simp only []
        refine ⟨mbs, mdv, ?_, fun _ => by simpa [M.shape, hm] using hsdm hm⟩
        intro x hx; simp at hx; subst hx
        exact ⟨hcm, rfl, rfl, fun d => rfl⟩
      | cons first r =>
        simp only []
        have hf := hg first (by rw [hm]; simp)
        obtain ⟨fbs, fns, fk, rfl⟩ := good_device hf
        have hfbs : fbs = bs := hf.2.2.1
        simp only []
        have hsd' : L.sd ≤ bs.length := hsd (by rw [hm]; simp)
        split
        · exact ⟨bs, dv, hgood, hsd⟩
        · rename_i hdv
          split
          · exact ⟨bs, dv, hgood, hsd⟩
          · rename_i hbs
            have hdv' : dv = mdv := by simpa using hdv
            have hbs' : fbs = mbs := by simpa using hbs
            have hgm : Good bs dv (.node mbs mdv mns mkids) :=
              ⟨hcm, rfl, by simp [M.shape, ← hbs', hfbs], fun d => by simp [M.onDev, hdv']⟩
            have hins : ∀ m', Good bs dv m' → LCoherent { L with members := insertAt i m' (M.node fbs dv fns fk :: r) } := by
              intro m' hm'
              refine ⟨bs, dv, ?_, fun _ => hsd'⟩
              intro x hx
              rcases (mem_insertAt i m' x _).mp hx with rfl | hx
              · exact hm'
              · exact hg x (by rw [hm]; exact hx)
            split
            · exact hins _ hgm
            · split
              · exact ⟨bs, dv, hgood, hsd⟩
              · cases hs : setNamesM (some (M.node fbs dv fns fk).namesList) (.node mbs mdv mns mkids) with
                | mk m' o =>
                  have hk := setNamesM_spec (some (M.node fbs dv fns fk).namesList) _ hcm
                  have hn := setNamesM_isNode (some (M.node fbs dv fns fk).namesList) (.node mbs mdv mns mkids) rfl
                  rw [hs] at hk hn
                  cases o with
                  | ok => exact hins m' (hgm.of_keeps hk hn)
                  | err e => exact ⟨bs, dv, hgood, hsd⟩
  | set key s d =>
    simp only [lstep, setL]
    cases key with
    | nil => exact ⟨bs, dv, hgood, hsd⟩
    | cons k rest =>
      simp only []
      cases hvs : valShape L.batchSize (.leaf s d) with
      | error e => exact ⟨bs, dv, hgood, hsd⟩
      | ok v1 =>
        have hv1 := valShape_leaf _ _ _ _ hvs
        subst hv1
        have hte := (valShape_spec L.batchSize (.leaf s d) (.leaf s d) (Coherent.leaf _ _) hvs).1
        simp only []
        cases hvd : valDev L.device (.leaf s d) with
        | error e => exact ⟨bs, dv, hgood, hsd⟩
        | ok v2 =>
          obtain ⟨d', rfl, hd'⟩ := valDev_leaf _ _ _ _ hvd
          simp only [unbindLeaf]
          by_cases hne : L.members = []
          · rw [hne]; simp only [eachMember]
            exact ⟨bs, dv, by simp, by simp⟩
          · have hsd' := hsd hne
            have hfit : fits bs dv (.leaf (s.eraseIdx L.sd) d') := by
              refine ⟨?_, fun x hx => ?_⟩
              · rw [lz_batchSize L bs dv hg hne] at hte
                exact takeEq_unbind s bs L.sd _ hsd' hte
              · have := hd' x (by rw [lz_device L bs dv hg hne]; exact hx)
                simp [M.onDev, this]
            have hf : ∀ m, Good bs dv m → Good bs dv (setMember k rest (.leaf (s.eraseIdx L.sd) d') m).1 := by
              intro m hm
              cases rest with
              | nil =>
                obtain ⟨xbs, xns, xk, rfl⟩ := good_device hm
                have hxb : xbs = bs := hm.2.2.1
                subst hxb
                exact ⟨hm.1.kset k hfit (Coherent.leaf _ _), rfl, rfl, hm.2.2.2⟩
              | cons k2 r2 =>
                simp only [setMember]
                exact hm.of_keeps (setPath_false_spec _ _ m hm.1 (Coherent.leaf _ _)) (setPath_isNode _ _ _ m hm.2.1)
            have := eachMember_good _ bs dv hf L.members hg
            cases he : eachMember (setMember k rest (.leaf (s.eraseIdx L.sd) d')) L.members with
            | mk ms o =>
              rw [he] at this
              exact ⟨bs, dv, this, fun _ => hsd'⟩

end TdVerif.C01
