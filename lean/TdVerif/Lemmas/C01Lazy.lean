/-
  C01 — a lazily stacked root: every operation keeps every member coherent with the common batch size and device
-/
import TdVerif.Model.C01Lazy
import TdVerif.Lemmas.C01

namespace TdVerif.C01

/-- what every member of a coherent stack satisfies -/
def Good (bs : Shape) (dv : Option Nat) (x : M) : Prop :=
  Coherent x ∧ x.isNode = true ∧ x.shape = bs ∧ ∀ d, x.onDev d = (dv == some d)

theorem Good.of_keeps {bs dv} {x x' : M} (h : Good bs dv x) (hk : KeepsMeta x x') (hn : x'.isNode = true) : Good bs dv x' :=
  ⟨hk.2.2, hn, by rw [hk.1]; exact h.2.2.1, fun d => by rw [hk.2.1]; exact h.2.2.2 d⟩

theorem eachMember_good (f : M → M × Out) (bs : Shape) (dv : Option Nat)
    (hf : ∀ m, Good bs dv m → Good bs dv (f m).1) (ms : List M) (h : ∀ x ∈ ms, Good bs dv x) :
    ∀ x ∈ (eachMember f ms).1, Good bs dv x := by
  induction ms with
  | nil => simp [eachMember]
  | cons m r ih =>
    simp only [eachMember]
    have hm := hf m (h m (by simp))
    cases hfm : f m with
    | mk m' o =>
      rw [hfm] at hm
      cases o with
      | err e =>
        intro x hx
        simp only [List.mem_cons] at hx
        rcases hx with rfl | hx
        · exact hm
        · exact h x (List.mem_cons_of_mem _ hx)
      | ok =>
        have ih' := ih (fun x hx => h x (List.mem_cons_of_mem _ hx))
        cases hr : eachMember f r with
        | mk r' o' =>
          rw [hr] at ih'
          intro x hx
          simp only [List.mem_cons] at hx
          rcases hx with rfl | hx
          · exact hm
          · exact ih' x hx

theorem eachMember_length (f : M → M × Out) (ms : List M) : (eachMember f ms).1.length = ms.length := by
  induction ms with
  | nil => simp [eachMember]
  | cons m r ih =>
    simp only [eachMember]
    cases hfm : f m with
    | mk m' o =>
      cases o with
      | err e => simp
      | ok =>
        cases hr : eachMember f r with
        | mk r' o' => rw [hr] at ih; simp [ih]

theorem setNamesM_isNode (v : Option DimNames) (m : M) (h : m.isNode = true) : (setNamesM v m).1.isNode = true := by
  cases m with
  | leaf s d => simp [M.isNode] at h
  | node bs dv ns kids =>
    simp only [setNamesM]
    cases v with
    | none => simp [M.isNode]
    | some l =>
      simp only []
      split
      · simp [M.isNode]
      · simp [M.isNode]
      · split <;> simp [M.isNode]

theorem setPath_isNode (b : Bool) (p : Path) (v m : M) (h : m.isNode = true) : (setPath b p v m).1.isNode = true := by
  cases m with
  | leaf s d => simp [M.isNode] at h
  | node bs dv ns kids =>
    match p with
    | [] => simp [setPath, M.isNode]
    | [k] =>
      simp only [setPath]
      split <;> (try split) <;> simp [M.isNode]
    | k :: k2 :: rest =>
      simp only [setPath]
      split <;> simp [M.isNode]

theorem delPath_isNode (p : Path) (m : M) (h : m.isNode = true) : (delPath p m).1.isNode = true := by
  cases m with
  | leaf s d => simp [M.isNode] at h
  | node bs dv ns kids =>
    match p with
    | [] => simp [delPath, M.isNode]
    | [k] => simp only [delPath]; split <;> simp [M.isNode]
    | k :: k2 :: rest => simp only [delPath]; split <;> simp [M.isNode]


theorem renamePath_isNode (old new : Path) (m : M) (h : m.isNode = true) : (renamePath old new m).1.isNode = true := by
  unfold renamePath
  split
  · exact h
  · split
    · split <;> exact h
    · split
      · exact h
      · split
        · exact h
        · rename_i v hv
          split
          · cases hd : delPath old m with
            | mk t1 o1 =>
              have h1 : t1.isNode = true := by have := delPath_isNode old m h; rw [hd] at this; exact this
              cases o1 with
              | err e => exact h1
              | ok => exact setPath_isNode true new v t1 h1
          · simp only []
            cases hs : setPath (decide (new.length = 1) || isPrefix new.dropLast old) new v m with
            | mk t1 o1 =>
              have h1 : t1.isNode = true := by
                have := setPath_isNode (decide (new.length = 1) || isPrefix new.dropLast old) new v m h; rw [hs] at this; exact this
              cases o1 with
              | err e => exact h1
              | ok =>
                simp only []
                split
                · exact h1
                · exact delPath_isNode old t1 h1

theorem mem_insertAt {α} (i : Nat) (a x : α) (l : List α) : x ∈ insertAt i a l ↔ x = a ∨ x ∈ l := by
  unfold insertAt
  simp only [List.mem_append, List.mem_cons]
  constructor
  · rintro (h | h | h)
    · exact Or.inr (List.mem_of_mem_take h)
    · exact Or.inl h
    · exact Or.inr (List.mem_of_mem_drop h)
  · rintro (h | h)
    · exact Or.inr (Or.inl h)
    · rw [← List.take_append_drop i l] at h
      rcases List.mem_append.mp h with h | h
      · exact Or.inl h
      · exact Or.inr (Or.inr h)

/-- removing the stack dim from a shape that starts with the batch size of the stack leaves a shape that starts with the
batch size of the members -/
theorem takeEq_unbind (s bs : Shape) (sd n : Nat) (hsd : sd ≤ bs.length) (h : takeEq s (insertAt sd n bs) = true) :
    takeEq (s.eraseIdx sd) bs = true := by
  rw [takeEq_iff_prefix] at h ⊢
  obtain ⟨rest, rfl⟩ := h
  refine ⟨rest, ?_⟩
  unfold insertAt
  have hlen : (bs.take sd).length = sd := by simp [List.length_take]; omega
  rw [List.append_assoc, List.eraseIdx_append_of_length_le (by omega)]
  simp [hlen]
  rw [← List.append_assoc, List.take_append_drop]


theorem good_device {bs dv} {x : M} (h : Good bs dv x) : ∃ xbs xns xk, x = .node xbs dv xns xk := by
  obtain ⟨_, hn, _, hd⟩ := h
  cases x with
  | leaf s d => simp [M.isNode] at hn
  | node xbs xdv xns xk =>
    refine ⟨xbs, xns, xk, ?_⟩
    have : xdv = dv := by
      cases dv with
      | none =>
        cases xdv with
        | none => rfl
        | some a => have := hd a; simp [M.onDev] at this
      | some b => have := hd b; simpa [M.onDev] using this
    rw [this]

theorem lz_device (L : LZ) (bs : Shape) (dv : Option Nat) (h : ∀ x ∈ L.members, Good bs dv x) (hne : L.members ≠ []) :
    L.device = dv := by
  unfold LZ.device
  cases hm : L.members with
  | nil => exact absurd hm hne
  | cons m r =>
    obtain ⟨xbs, xns, xk, rfl⟩ := good_device (h m (by rw [hm]; simp))
    simp only []
    have : r.all (fun m => match m with | .node _ dv' _ _ => dv' == dv | .leaf .. => false) = true := by
      rw [List.all_eq_true]
      intro x hx
      obtain ⟨b, n, k, rfl⟩ := good_device (h x (by rw [hm]; exact List.mem_cons_of_mem _ hx))
      simp
    split
    · rfl
    · rename_i hx; exact absurd this hx

theorem lz_batchSize (L : LZ) (bs : Shape) (dv : Option Nat) (h : ∀ x ∈ L.members, Good bs dv x) (hne : L.members ≠ []) :
    L.batchSize = insertAt L.sd L.members.length bs := by
  unfold LZ.batchSize
  cases hm : L.members with
  | nil => exact absurd hm hne
  | cons m r =>
    have := (h m (by rw [hm]; simp)).2.2.1
    simp only [this]

theorem valShape_leaf (lbs s : Shape) (d : Nat) (v1 : M) (h : valShape lbs (.leaf s d) = .ok v1) : v1 = .leaf s d := by
  unfold valShape at h
  split at h
  · simp at h
  · simp at h; exact h.symm

theorem valDev_leaf (dv : Option Nat) (s : Shape) (d : Nat) (v2 : M) (h : valDev dv (.leaf s d) = .ok v2) :
    ∃ d', v2 = .leaf s d' ∧ ∀ x, dv = some x → d' = x := by
  unfold valDev at h
  cases dv with
  | none => simp at h; exact ⟨d, h.symm, by simp⟩
  | some x =>
    simp only at h
    split at h
    · rename_i hon
      simp at h
      exact ⟨d, h.symm, fun y hy => by simp at hy; subst hy; simpa [M.onDev] using hon⟩
    · simp only [toDev] at h
      split at h
      · simp at h
      · simp at h; exact ⟨x, h.symm, fun y hy => by simp at hy; exact hy⟩

theorem delLoop_good (key : Path) (bs : Shape) (dv : Option Nat) (ms : List M) (d : Bool) (e : Option Err)
    (h : ∀ x ∈ ms, Good bs dv x) : ∀ x ∈ (delLoop key ms d e).1, Good bs dv x := by
  induction ms generalizing d e with
  | nil => simp [delLoop]
  | cons m r ih =>
    have hm := h m (by simp)
    have hk := delPath_spec key m hm.1
    have hn := delPath_isNode key m hm.2.1
    have hg : Good bs dv (delPath key m).1 := hm.of_keeps hk hn
    have hr : ∀ x ∈ r, Good bs dv x := fun x hx => h x (List.mem_cons_of_mem _ hx)
    simp only [delLoop]
    cases hd : delPath key m with
    | mk m' o =>
      rw [hd] at hg
      cases o with
      | ok =>
        simp only []
        intro x hx
        simp only [List.mem_cons] at hx
        rcases hx with rfl | hx
        · exact hg
        · exact ih true e hr x hx
      | err er =>
        cases er <;> simp only [] <;> intro x hx <;> simp only [List.mem_cons] at hx <;> rcases hx with rfl | hx
        all_goals first | exact hg | exact hr x hx | exact ih d (some .key) hr x hx

/-- every operation of the stack keeps every member coherent, with the common batch size and device -/
theorem lstep_coherent (L : LZ) (op : LOp) (hc : LCoherent L)
    (hv : ∀ i m, op = .insert i m → Coherent m ∧ (L.members = [] → L.sd ≤ m.shape.length)) : LCoherent (lstep L op).1 := by
  obtain ⟨bs, dv, hgood, hsd⟩ := hc
  have hg : ∀ x ∈ L.members, Good bs dv x := hgood
  cases op with
  | setBatch nb => exact ⟨bs, dv, hgood, hsd⟩
  | rename o n =>
    simp only [lstep, renameL]
    have := eachMember_good (renamePath o n) bs dv
      (fun m hm => hm.of_keeps (renamePath_spec o n m hm.1) (renamePath_isNode o n m hm.2.1)) L.members hg
    have hl := eachMember_length (renamePath o n) L.members
    cases he : eachMember (renamePath o n) L.members with
    | mk ms o' =>
      rw [he] at this hl
      refine ⟨bs, dv, this, fun hne => hsd ?_⟩
      intro h0; rw [h0] at hl; simp at hl; exact hne (by simpa using hl)
  | del key =>
    simp only [lstep, delL]
    have := delLoop_good key bs dv L.members false none hg
    have hnil : L.members = [] → (delLoop key L.members false none).1 = [] := by intro h0; rw [h0]; simp [delLoop]
    cases hd : delLoop key L.members false none with
    | mk ms rest =>
      rw [hd] at this hnil
      have hres : LCoherent { L with members := ms } :=
        ⟨bs, dv, this, fun hne => hsd (fun h0 => hne (hnil h0))⟩
      obtain ⟨b, e1, e2⟩ := rest
      cases e2 <;> cases b <;> cases e1 <;> exact hres
  | setNames v =>
    simp only [lstep, setNamesL]
    have key : ∀ w, LCoherent { L with members := (eachMember (setNamesM w) L.members).1 } ∧
        ∀ sn, LCoherent { L with members := (eachMember (setNamesM w) L.members).1, sname := sn } := by
      intro w
      have := eachMember_good (setNamesM w) bs dv
        (fun m hm => hm.of_keeps (setNamesM_spec w m hm.1) (setNamesM_isNode w m hm.2.1)) L.members hg
      have hl := eachMember_length (setNamesM w) L.members
      have hne' : (eachMember (setNamesM w) L.members).1 ≠ [] → L.members ≠ [] := by
        intro hne h0; rw [h0] at hne; simp [eachMember] at hne
      exact ⟨⟨bs, dv, this, fun hne => hsd (hne' hne)⟩, fun sn => ⟨bs, dv, this, fun hne => hsd (hne' hne)⟩⟩
    cases v with
    | none =>
      simp only []
      cases he : eachMember (setNamesM none) L.members with
      | mk ms o =>
        have := key none; rw [he] at this
        cases o <;> simp only [] <;> first | exact this.1 | exact this.2 _
    | some l =>
      simp only []
      split
      · exact ⟨bs, dv, hgood, hsd⟩
      · split
        · exact ⟨bs, dv, hgood, hsd⟩
        · cases he : eachMember (setNamesM (some (l.eraseIdx L.sd))) L.members with
          | mk ms o =>
            have := key (some (l.eraseIdx L.sd)); rw [he] at this
            cases o <;> simp only [] <;> first | exact this.2 _ | exact ⟨bs, dv, hgood, hsd⟩
  | insert i m =>
    obtain ⟨hcm, hsdm⟩ := hv i m rfl
    simp only [lstep, insertL]
    cases m with
    | leaf s d => exact ⟨bs, dv, hgood, hsd⟩
    | node mbs mdv mns mkids =>
      simp only []
      cases hm : L.members with
      | nil =>
        simp only []
        refine ⟨mbs, mdv, ?_, fun _ => by simpa [M.shape, hm] using hsdm hm⟩
        intro x hx; simp at hx; subst hx
        exact ⟨hcm, rfl, rfl, fun d => rfl⟩
      | cons first r =>
        simp only []
        have hf := hg first (by rw [hm]; simp)
        obtain ⟨fbs, fns, fk, rfl⟩ := good_device hf
        have hfbs : fbs = bs := hf.2.2.1
        simp only []
        have hsd' : L.sd ≤ bs.length := hsd (by rw [hm]; simp)
        split
        · exact ⟨bs, dv, hgood, hsd⟩
        · rename_i hdv
          split
          · exact ⟨bs, dv, hgood, hsd⟩
          · rename_i hbs
            have hdv' : dv = mdv := by simpa using hdv
            have hbs' : fbs = mbs := by simpa using hbs
            have hgm : Good bs dv (.node mbs mdv mns mkids) :=
              ⟨hcm, rfl, by simp [M.shape, ← hbs', hfbs], fun d => by simp [M.onDev, hdv']⟩
            have hins : ∀ m', Good bs dv m' → LCoherent { L with members := insertAt i m' (M.node fbs dv fns fk :: r) } := by
              intro m' hm'
              refine ⟨bs, dv, ?_, fun _ => hsd'⟩
              intro x hx
              rcases (mem_insertAt i m' x _).mp hx with rfl | hx
              · exact hm'
              · exact hg x (by rw [hm]; exact hx)
            split
            · exact hins _ hgm
            · split
              · exact ⟨bs, dv, hgood, hsd⟩
              · cases hs : setNamesM (some (M.node fbs dv fns fk).namesList) (.node mbs mdv mns mkids) with
                | mk m' o =>
                  have hk := setNamesM_spec (some (M.node fbs dv fns fk).namesList) _ hcm
                  have hn := setNamesM_isNode (some (M.node fbs dv fns fk).namesList) (.node mbs mdv mns mkids) rfl
                  rw [hs] at hk hn
                  cases o with
                  | ok => exact hins m' (hgm.of_keeps hk hn)
                  | err e => exact ⟨bs, dv, hgood, hsd⟩
  | set key s d =>
    simp only [lstep, setL]
    cases key with
    | nil => exact ⟨bs, dv, hgood, hsd⟩
    | cons k rest =>
      simp only []
      cases hvs : valShape L.batchSize (.leaf s d) with
      | error e => exact ⟨bs, dv, hgood, hsd⟩
      | ok v1 =>
        have hv1 := valShape_leaf _ _ _ _ hvs
        subst hv1
        have hte := (valShape_spec L.batchSize (.leaf s d) (.leaf s d) (Coherent.leaf _ _) hvs).1
        simp only []
        cases hvd : valDev L.device (.leaf s d) with
        | error e => exact ⟨bs, dv, hgood, hsd⟩
        | ok v2 =>
          obtain ⟨d', rfl, hd'⟩ := valDev_leaf _ _ _ _ hvd
          simp only [unbindLeaf]
          by_cases hne : L.members = []
          · rw [hne]; simp only [eachMember]
            exact ⟨bs, dv, by simp, by simp⟩
          · have hsd' := hsd hne
            have hfit : fits bs dv (.leaf (s.eraseIdx L.sd) d') := by
              refine ⟨?_, fun x hx => ?_⟩
              · rw [lz_batchSize L bs dv hg hne] at hte
                exact takeEq_unbind s bs L.sd _ hsd' hte
              · have := hd' x (by rw [lz_device L bs dv hg hne]; exact hx)
                simp [M.onDev, this]
            have hf : ∀ m, Good bs dv m → Good bs dv (setMember k rest (.leaf (s.eraseIdx L.sd) d') m).1 := by
              intro m hm
              cases rest with
              | nil =>
                obtain ⟨xbs, xns, xk, rfl⟩ := good_device hm
                have hxb : xbs = bs := hm.2.2.1
                subst hxb
                exact ⟨hm.1.kset k hfit (Coherent.leaf _ _), rfl, rfl, hm.2.2.2⟩
              | cons k2 r2 =>
                simp only [setMember]
                exact hm.of_keeps (setPath_false_spec _ _ m hm.1 (Coherent.leaf _ _)) (setPath_isNode _ _ _ m hm.2.1)
            have := eachMember_good _ bs dv hf L.members hg
            cases he : eachMember (setMember k rest (.leaf (s.eraseIdx L.sd) d')) L.members with
            | mk ms o =>
              rw [he] at this
              exact ⟨bs, dv, this, fun _ => hsd'⟩


/-! ### the dim names of a stack stay readable

`stack.names` raises when the members disagree ("Not all dim names match"). No operation of the model makes them disagree:
`set` / `del_` / `rename_key_` do not touch the dim names of the members themselves, a names assignment gives every member the
same names or — refused — gives them all back (`_dim_names_snapshot`), `insert` / `append` compare or adopt the names. -/

/-- all members carry the same dim names -/
def NamesAgree (L : LZ) : Prop := ∃ ns, ∀ x ∈ L.members, x.namesList = ns

theorem namesAgree_iff_readable (L : LZ) : NamesAgree L ↔ ∃ ns, L.names = .ok ns := by
  unfold NamesAgree LZ.names
  cases L.members with
  | nil => simp
  | cons m r =>
    simp only []
    constructor
    · rintro ⟨ns, h⟩
      have hall : (r.all fun m' => m'.namesList == m.namesList) = true := by
        rw [List.all_eq_true]
        intro x hx
        have h1 := h x (List.mem_cons_of_mem _ hx)
        have h2 := h m (by simp)
        simp [h1, h2]
      rw [if_pos hall]
      exact ⟨_, rfl⟩
    · rintro ⟨ns, h⟩
      split at h
      · rename_i hall
        rw [List.all_eq_true] at hall
        refine ⟨m.namesList, ?_⟩
        intro x hx
        simp only [List.mem_cons] at hx
        rcases hx with rfl | hx
        · rfl
        · simpa using hall x hx
      · simp at h

theorem setPath_namesList (b : Bool) (p : Path) (v m : M) (h : b = true ∨ 2 ≤ p.length) :
    (setPath b p v m).1.namesList = m.namesList := by
  cases m with
  | leaf s d =>
    match p with
    | [] => simp [setPath]
    | _ :: _ => simp [setPath]
  | node bs dv ns kids =>
    match p with
    | [] => simp [setPath]
    | [k] =>
      rcases h with rfl | h
      · simp [setPath, M.namesList]
      · simp at h
    | k :: k2 :: rest =>
      simp only [setPath]
      split <;> simp [M.namesList]

theorem delPath_namesList (p : Path) (m : M) : (delPath p m).1.namesList = m.namesList := by
  cases m with
  | leaf s d =>
    match p with
    | [] => simp [delPath]
    | _ :: _ => simp [delPath]
  | node bs dv ns kids =>
    match p with
    | [] => simp [delPath, M.namesList]
    | [k] => simp only [delPath]; split <;> simp [M.namesList]
    | k :: k2 :: rest => simp only [delPath]; split <;> simp [M.namesList]

theorem renamePath_namesList (old new : Path) (m : M) : (renamePath old new m).1.namesList = m.namesList := by
  unfold renamePath
  split
  · rfl
  · split
    · split <;> rfl
    · split
      · rfl
      · split
        · rfl
        · rename_i v hv
          split
          · cases hd : delPath old m with
            | mk t1 o1 =>
              have h1 : t1.namesList = m.namesList := by have := delPath_namesList old m; rw [hd] at this; exact this
              cases o1 with
              | err e => exact h1
              | ok => exact (setPath_namesList true new v t1 (Or.inl rfl)).trans h1
          · rename_i hnew
            simp only []
            have hb : (decide (new.length = 1) || isPrefix new.dropLast old) = true ∨ 2 ≤ new.length := by
              by_cases h1 : new.length = 1
              · left; simp [h1]
              · right
                cases new with
                | nil => simp_all
                | cons a t =>
                  cases t with
                  | nil => simp at h1
                  | cons b t' => simp
            cases hs : setPath (decide (new.length = 1) || isPrefix new.dropLast old) new v m with
            | mk t1 o1 =>
              have h1 : t1.namesList = m.namesList := by
                have := setPath_namesList (decide (new.length = 1) || isPrefix new.dropLast old) new v m hb
                rw [hs] at this; exact this
              cases o1 with
              | err e => exact h1
              | ok =>
                simp only []
                split
                · exact h1
                · exact (delPath_namesList old t1).trans h1

theorem setMember_namesList (k : String) (rest : Path) (piece m : M) : (setMember k rest piece m).1.namesList = m.namesList := by
  cases rest with
  | nil => cases m <;> simp [setMember, M.namesList]
  | cons a t =>
    simp only [setMember]
    exact setPath_namesList false _ piece _ (Or.inr (by simp))

theorem eachMember_namesList (f : M → M × Out) (hf : ∀ m, (f m).1.namesList = m.namesList) (ms : List M) :
    (eachMember f ms).1.map M.namesList = ms.map M.namesList := by
  induction ms with
  | nil => simp [eachMember]
  | cons m r ih =>
    simp only [eachMember]
    have hm := hf m
    cases hfm : f m with
    | mk m' o =>
      rw [hfm] at hm
      cases o with
      | err e => simp [hm]
      | ok =>
        cases hr : eachMember f r with
        | mk r' o' => rw [hr] at ih; simp at ih; simp [hm, ih]

theorem delLoop_namesList (key : Path) (ms : List M) (d : Bool) (e : Option Err) :
    (delLoop key ms d e).1.map M.namesList = ms.map M.namesList := by
  induction ms generalizing d e with
  | nil => simp [delLoop]
  | cons m r ih =>
    simp only [delLoop]
    have hm := delPath_namesList key m
    cases hd : delPath key m with
    | mk m' o =>
      rw [hd] at hm
      cases o with
      | ok =>
        simp only []
        have := ih true e
        cases hr : delLoop key r true e with
        | mk r' rest => obtain ⟨d', e', x⟩ := rest; rw [hr] at this; simp at this; simp [hm, this]
      | err er =>
        cases er <;> simp only [] <;>
          first
          | (have := ih d (some .key)
             cases hr : delLoop key r d (some .key) with
             | mk r' rest => obtain ⟨d', e', x⟩ := rest; rw [hr] at this; simp at this; simp [hm, this])
          | simp [hm]

theorem agree_of_map {ms ms' : List M} {ns : DimNames} (hmap : ms'.map M.namesList = ms.map M.namesList)
    (h : ∀ x ∈ ms, x.namesList = ns) : ∀ x ∈ ms', x.namesList = ns := by
  intro x hx
  have : x.namesList ∈ ms'.map M.namesList := List.mem_map_of_mem hx
  rw [hmap, List.mem_map] at this
  obtain ⟨y, hy, hyx⟩ := this
  rw [← hyx]; exact h y hy

theorem eachMember_ok (f : M → M × Out) (ms ms' : List M) (h : eachMember f ms = (ms', .ok)) :
    ∀ x' ∈ ms', ∃ x ∈ ms, f x = (x', .ok) := by
  induction ms generalizing ms' with
  | nil => simp [eachMember] at h; subst h; simp
  | cons m r ih =>
    simp only [eachMember] at h
    cases hfm : f m with
    | mk m' o =>
      rw [hfm] at h
      cases o with
      | err e => simp at h
      | ok =>
        cases hr : eachMember f r with
        | mk r' o' =>
          rw [hr] at h
          simp at h
          obtain ⟨rfl, rfl⟩ := h
          intro x' hx'
          simp only [List.mem_cons] at hx'
          rcases hx' with rfl | hx'
          · exact ⟨m, by simp, hfm⟩
          · obtain ⟨x, hx, hfx⟩ := ih r' hr x' hx'
            exact ⟨x, List.mem_cons_of_mem _ hx, hfx⟩

/-- the dim names a member reads after an accepted names assignment: a function of the assigned names and of the number of
batch dims only -/
def namesAfter (v : Option DimNames) (n : Nat) : DimNames :=
  match v with
  | none => List.replicate n none
  | some l => if namesCheck l n = .erase then List.replicate n none else l

theorem setNamesM_ok_namesList (v : Option DimNames) (bs dv ns kids) (m' : M)
    (h : setNamesM v (.node bs dv ns kids) = (m', .ok)) : m'.namesList = namesAfter v bs.length := by
  cases v with
  | none => simp [setNamesM] at h; subst h; simp [M.namesList, namesAfter]
  | some l =>
    simp only [setNamesM] at h
    split at h
    · rename_i hc
      simp at h; subst h; simp [M.namesList, namesAfter, hc]
    · simp at h
    · rename_i hc
      split at h
      · simp at h
      · simp at h; subst h; simp [M.namesList, namesAfter, hc]

theorem countNone_le (v : DimNames) : countNone v ≤ v.length := by
  unfold countNone; exact List.length_filter_le _ _

theorem all_none_of_count (v : DimNames) (h : countNone v = v.length) : v = List.replicate v.length none := by
  induction v with
  | nil => rfl
  | cons a t ih =>
    cases a with
    | none =>
      have : countNone t = t.length := by simp [countNone] at h ⊢; exact h
      simp [List.replicate_succ, ← ih this]
    | some s =>
      have h1 := countNone_le t
      simp [countNone] at h h1
      omega

theorem eachMember_out_ok (f : M → M × Out) (ms : List M) (h : ∀ x ∈ ms, (f x).2 = .ok) : (eachMember f ms).2 = .ok := by
  induction ms with
  | nil => simp [eachMember]
  | cons m r ih =>
    simp only [eachMember]
    have hm := h m (by simp)
    cases hfm : f m with
    | mk m' o =>
      rw [hfm] at hm
      simp at hm; subst hm
      simp only []
      have := ih (fun x hx => h x (List.mem_cons_of_mem _ hx))
      cases hr : eachMember f r with
      | mk r' o' => rw [hr] at this; simpa using this

theorem namesCheck_erase {v : DimNames} {n : Nat} (h : namesCheck v n = .erase) : countNone v = n := by
  by_cases h0 : countNone v = n
  · exact h0
  · exfalso
    unfold namesCheck at h
    simp only [h0, if_false] at h
    repeat' split at h
    all_goals simp at h

theorem namesList_length {bs dv ns kids} (h : Coherent (.node bs dv ns kids)) : (M.node bs dv ns kids).namesList.length = bs.length := by
  simp only [M.namesList]
  cases ns with
  | none => simp
  | some l => simp [h.names_len l rfl]

/-- no operation on a coherent stack whose dim names can be read makes them unreadable -/
theorem lstep_namesAgree (L : LZ) (op : LOp) (hc : LCoherent L) (ha : NamesAgree L) : NamesAgree (lstep L op).1 := by
  obtain ⟨bs, dv, hgood, hsd⟩ := hc
  obtain ⟨ns, hns⟩ := ha
  cases op with
  | setBatch nb => exact ⟨ns, hns⟩
  | rename o n =>
    simp only [lstep, renameL]
    have := eachMember_namesList (renamePath o n) (renamePath_namesList o n) L.members
    cases he : eachMember (renamePath o n) L.members with
    | mk ms o' => rw [he] at this; exact ⟨ns, agree_of_map this hns⟩
  | del key =>
    simp only [lstep, delL]
    have := delLoop_namesList key L.members false none
    cases hd : delLoop key L.members false none with
    | mk ms rest =>
      rw [hd] at this
      have hres : NamesAgree { L with members := ms } := ⟨ns, agree_of_map this hns⟩
      obtain ⟨b, e1, e2⟩ := rest
      cases e2 <;> cases b <;> cases e1 <;> exact hres
  | set key s d =>
    simp only [lstep, setL]
    cases key with
    | nil => exact ⟨ns, hns⟩
    | cons k rest =>
      simp only []
      cases hvs : valShape L.batchSize (.leaf s d) with
      | error e => exact ⟨ns, hns⟩
      | ok v1 =>
        simp only []
        cases hvd : valDev L.device v1 with
        | error e => exact ⟨ns, hns⟩
        | ok v2 =>
          simp only []
          have := eachMember_namesList (setMember k rest (unbindLeaf L.sd v2)) (setMember_namesList k rest _) L.members
          cases he : eachMember (setMember k rest (unbindLeaf L.sd v2)) L.members with
          | mk ms o' => rw [he] at this; exact ⟨ns, agree_of_map this hns⟩
  | setNames v =>
    simp only [lstep, setNamesL]
    have key : ∀ w ms, eachMember (setNamesM w) L.members = (ms, .ok) → ∀ x ∈ ms, x.namesList = namesAfter w bs.length := by
      intro w ms he x' hx'
      obtain ⟨x, hx, hfx⟩ := eachMember_ok _ _ _ he x' hx'
      have hg := hgood x hx
      obtain ⟨xbs, xns, xk, rfl⟩ := good_device hg
      have hxb : xbs = bs := hg.2.2.1
      rw [← hxb]
      exact setNamesM_ok_namesList w xbs dv xns xk x' hfx
    cases v with
    | none =>
      simp only []
      have hok : (eachMember (setNamesM none) L.members).2 = .ok := by
        apply eachMember_out_ok
        intro x hx
        obtain ⟨xbs, xns, xk, rfl⟩ := good_device (hgood x hx)
        simp [setNamesM]
      cases he : eachMember (setNamesM none) L.members with
      | mk ms o =>
        rw [he] at hok
        simp at hok; subst hok
        exact ⟨_, key none ms he⟩
    | some l =>
      simp only []
      split
      · exact ⟨ns, hns⟩
      · split
        · exact ⟨ns, hns⟩
        · cases he : eachMember (setNamesM (some (l.eraseIdx L.sd))) L.members with
          | mk ms o =>
            cases o with
            | ok => exact ⟨_, key _ ms he⟩
            | err e => exact ⟨ns, hns⟩
  | insert i m =>
    simp only [lstep, insertL]
    cases m with
    | leaf s d => exact ⟨ns, hns⟩
    | node mbs mdv mns mkids =>
      simp only []
      cases hm : L.members with
      | nil =>
        simp only []
        exact ⟨(M.node mbs mdv mns mkids).namesList, by intro x hx; simp at hx; subst hx; rfl⟩
      | cons first r =>
        simp only []
        have hf := hgood first (by rw [hm]; simp)
        obtain ⟨fbs, fns, fk, rfl⟩ := good_device hf
        simp only []
        have hns' : ∀ x ∈ M.node fbs dv fns fk :: r, x.namesList = ns := by rw [← hm]; exact hns
        have hfirst : (M.node fbs dv fns fk).namesList = ns := hns' _ (by simp)
        have hins : ∀ m', m'.namesList = ns → NamesAgree { L with members := insertAt i m' (M.node fbs dv fns fk :: r) } := by
          intro m' hm'
          refine ⟨ns, ?_⟩
          intro x hx
          rcases (mem_insertAt i m' x _).mp hx with rfl | hx
          · exact hm'
          · exact hns' x hx
        split
        · exact ⟨ns, hns⟩
        · split
          · exact ⟨ns, hns⟩
          · rename_i hbs
            have hbs' : fbs = mbs := by simpa using hbs
            split
            · rename_i heq
              exact hins _ ((by simpa using heq : (M.node mbs mdv mns mkids).namesList = (M.node fbs dv fns fk).namesList).trans hfirst)
            · split
              · exact ⟨ns, hns⟩
              · cases hs : setNamesM (some (M.node fbs dv fns fk).namesList) (.node mbs mdv mns mkids) with
                | mk m' o =>
                  cases o with
                  | err e => exact ⟨ns, hns⟩
                  | ok =>
                    apply hins m'
                    have h1 := setNamesM_ok_namesList _ mbs mdv mns mkids m' hs
                    rw [h1, hfirst]
                    simp only [namesAfter]
                    split
                    · rename_i hcheck
                      have hlen : ns.length = mbs.length := by
                        rw [← hfirst, namesList_length hf.1, hbs']
                      have hcn : countNone ns = ns.length := by rw [namesCheck_erase hcheck, hlen]
                      rw [← hlen]; exact (all_none_of_count ns hcn).symm
                    · rfl

end TdVerif.C01
