/-
  `_parse_to_py`: the imperative binding loop equals the declarative `Fits` relation.
-/
import TdVerif.Model.ParseTo

namespace TdVerif.ParseTo

theorem bindKw_iff (names : List String) : ∀ (kw bound0 b : List (String × Val)),
    bindKw names kw bound0 = some b ↔
      (b = bound0 ++ kw ∧ ∀ i (h : i < kw.length),
        lookup (bound0 ++ kw.take i) (kw[i]).1 = none ∧ ((kw[i]).1 ∈ names ∨ (kw[i]).1 = "memory_format"))
  | [], bound0, b => by
    simp [bindKw]; exact eq_comm
  | (k, v) :: rest, bound0, b => by
    simp only [bindKw]
    have ih := bindKw_iff names rest (bound0 ++ [(k, v)]) b
    by_cases hc : ((lookup bound0 k).isSome || (!names.contains k && k != "memory_format")) = true
    · rw [if_pos hc]
      constructor
      · intro h; cases h
      · rintro ⟨_, h⟩
        have h0 := h 0 (by simp)
        simp only [List.take_zero, List.append_nil, List.getElem_cons_zero] at h0
        simp only [Bool.or_eq_true, Bool.and_eq_true, Bool.not_eq_true', bne_iff_ne, ne_eq] at hc
        rcases hc with hc | ⟨hc1, hc2⟩
        · rw [h0.1] at hc; simp at hc
        · rcases h0.2 with h2 | h2
          · have : names.contains k = true := by simpa using h2
            rw [this] at hc1; cases hc1
          · exact absurd h2 hc2
    · rw [if_neg hc, ih]
      simp only [Bool.or_eq_true, Bool.and_eq_true, Bool.not_eq_true', bne_iff_ne, ne_eq, not_or, not_and,
        Bool.not_eq_true, Option.isSome_eq_false_iff, Option.isNone_iff_eq_none] at hc
      have hk : k ∈ names ∨ k = "memory_format" := by
        by_cases h1 : names.contains k = true
        · left; simpa using h1
        · right
          have := hc.2 (by simpa using h1)
          simpa using this
      constructor
      · rintro ⟨hb, h⟩
        refine ⟨by simp [hb], ?_⟩
        intro i hi
        cases i with
        | zero => simpa using ⟨hc.1, hk⟩
        | succ j =>
          have := h j (by simpa using hi)
          simpa [List.append_assoc] using this
      · rintro ⟨hb, h⟩
        refine ⟨by simp [hb], ?_⟩
        intro i hi
        have := h (i + 1) (by simpa using hi)
        simpa [List.append_assoc] using this

/-- one iteration of the signature loop succeeds exactly when the call fits the signature -/
theorem trySig_iff (s : Sig) (c : Call) (r : Res) :
    trySig s c = some r ↔ ∃ bound, Fits s c bound ∧ r = finish bound := by
  unfold trySig Fits
  by_cases hlen : c.pos.length > s.names.length
  · simp only [hlen, if_true]
    constructor
    · intro h; cases h
    · rintro ⟨_, ⟨h, _⟩, _⟩; omega
  · simp only [hlen, if_false]
    cases hb : bindKw s.names c.kw (s.names.zip c.pos) with
    | none =>
      simp only
      constructor
      · intro h; cases h
      · rintro ⟨bound, ⟨_, h2, h3, _⟩, _⟩
        have := (bindKw_iff s.names c.kw (s.names.zip c.pos) bound).2 ⟨h2, h3⟩
        rw [hb] at this; cases this
    | some bound =>
      have hbd := (bindKw_iff s.names c.kw (s.names.zip c.pos) bound).1 hb
      simp only
      by_cases hreq : (s.names.take s.required).all (fun n => (lookup bound n).isSome) = true
      · by_cases hty : bound.all (fun (k, v) => argOk k v (s.required == 0)) = true
        · simp only [hreq, hty, Bool.not_true, Bool.false_eq_true, if_false, Option.some.injEq]
          constructor
          · intro h
            refine ⟨bound, ⟨by omega, hbd.1, hbd.2, ?_, ?_⟩, h.symm⟩
            · simpa [List.all_eq_true] using hreq
            · intro kv hkv
              have := (List.all_eq_true.1 hty) kv hkv
              simpa using this
          · rintro ⟨bound', ⟨_, h2, _, _, _⟩, hr⟩
            rw [hr, h2, ← hbd.1]
        · simp only [hreq, hty, Bool.not_true, Bool.false_eq_true, if_false, Bool.not_false, if_true]
          constructor
          · intro h; cases h
          · rintro ⟨bound', ⟨_, h2, _, _, h5⟩, _⟩
            exfalso; apply hty
            rw [List.all_eq_true]
            intro kv hkv
            have : bound' = bound := by rw [h2, hbd.1]
            subst this
            simpa using h5 kv hkv
      · simp only [hreq, Bool.not_false, if_true]
        constructor
        · intro h; cases h
        · rintro ⟨bound', ⟨_, h2, _, h4, _⟩, _⟩
          exfalso; apply hreq
          have : bound' = bound := by rw [h2, hbd.1]
          subst this
          simpa [List.all_eq_true] using h4

end TdVerif.ParseTo

namespace TdVerif.ParseTo

/-- the signature loop returns the result of the first signature that the call fits -/
theorem firstFit (c : Call) : ∀ (l : List Sig),
    (∃ i, ∃ (h : i < l.length), ∃ bound, Fits l[i] c bound ∧ (∀ j (hj : j < i), ¬ ∃ b, Fits (l[j]'(by omega)) c b)
        ∧ l.findSome? (fun s => trySig s c) = some (finish bound))
    ∨ ((∀ s ∈ l, ¬ ∃ b, Fits s c b) ∧ l.findSome? (fun s => trySig s c) = none)
  | [] => by simp
  | s :: rest => by
    cases h : trySig s c with
    | some r =>
      obtain ⟨bound, hf, hr⟩ := (trySig_iff s c r).1 h
      left
      refine ⟨0, by simp, bound, by simpa using hf, by intro j hj; omega, ?_⟩
      simp [List.findSome?, h, hr]
    | none =>
      have hno : ¬ ∃ b, Fits s c b := by
        rintro ⟨b, hb⟩
        have := (trySig_iff s c (finish b)).2 ⟨b, hb, rfl⟩
        rw [h] at this; cases this
      rcases firstFit c rest with ⟨i, hi, bound, hf, hlt, hres⟩ | ⟨hall, hres⟩
      · left
        refine ⟨i + 1, by simpa using hi, bound, by simpa using hf, ?_, by simp [List.findSome?, h, hres]⟩
        intro j hj
        cases j with
        | zero => simpa using hno
        | succ k => simpa using hlt k (by omega)
      · right
        refine ⟨?_, by simp [List.findSome?, h, hres]⟩
        intro s' hs'
        rcases List.mem_cons.1 hs' with rfl | hs'
        · exact hno
        · exact hall s' hs'

end TdVerif.ParseTo

namespace TdVerif.ParseTo

theorem head_mem_bound (s : Sig) (c : Call) (b : List (String × Val)) (a0 : Val) (rest : List Val)
    (n0 : String) (ns : List String) (hs : s.names = n0 :: ns) (hp : c.pos = a0 :: rest) (h : Fits s c b) :
    argOk n0 a0 (s.required == 0) = true := by
  obtain ⟨_, hb, _, _, hall⟩ := h
  apply hall (n0, a0)
  rw [hb, hs, hp]
  simp

/-- overload resolution is unambiguous: two signatures can both fit a call only when the first positional
argument is a python int (a device index for the first signature, a number for the third) or there is no
positional argument — and in the latter case both bind the same values -/
theorem fits_unambiguous (c : Call) (i j : Nat) (hi : i < sigs.length) (hj : j < sigs.length)
    (bi bj : List (String × Val)) (fi : Fits sigs[i] c bi) (fj : Fits sigs[j] c bj)
    (hint : ∀ n rest, c.pos ≠ .pyInt n :: rest) : finish bi = finish bj := by
  cases hp : c.pos with
  | nil =>
    have e1 : bi = c.kw := by rw [fi.2.1, hp]; simp
    have e2 : bj = c.kw := by rw [fj.2.1, hp]; simp
    rw [e1, e2]
  | cons a0 rest =>
    have hne : ∀ n, a0 ≠ .pyInt n := fun n h => hint n rest (by rw [hp, h])
    have hij : i = j := by
      simp only [sigs, List.length_cons, List.length_nil] at hi hj
      have ci : i = 0 ∨ i = 1 ∨ i = 2 := by omega
      have cj : j = 0 ∨ j = 1 ∨ j = 2 := by omega
      rcases ci with rfl | rfl | rfl <;> rcases cj with rfl | rfl | rfl <;> first
        | rfl
        | (exfalso
           have h1 := head_mem_bound _ c _ a0 rest _ _ rfl hp fi
           have h2 := head_mem_bound _ c _ a0 rest _ _ rfl hp fj
           simp only [sigs, List.getElem_cons_zero, List.getElem_cons_succ] at h1 h2
           unfold argOk at h1 h2
           cases a0 <;> first | (simp at h1 h2; done) | (exact absurd rfl (hne _)))
    subst hij
    rw [fi.2.1, fj.2.1]

end TdVerif.ParseTo
