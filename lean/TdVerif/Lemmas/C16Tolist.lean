/-
  C16 — `tolist()` returns the payloads in batch (row-major) order.
-/
import TdVerif.Lemmas.C16Unbind

namespace TdVerif.C16
namespace NT
variable {O : Type}

/-- the nested list only reads coordinates `pre ++ c` with `c` of the rank of the remaining shape -/
theorem nestOf_congr (dflt : O) : ∀ (s : Shape) (pre1 pre2 : List Nat) (g1 g2 : List Nat → Option O),
    (∀ c, c.length = s.length → g1 (pre1 ++ c) = g2 (pre2 ++ c)) →
    nestOf g1 dflt s pre1 = nestOf g2 dflt s pre2
  | [], pre1, pre2, g1, g2, h => by
    have := h [] rfl
    simp only [List.append_nil] at this
    simp [nestOf, this]
  | n :: s, pre1, pre2, g1, g2, h => by
    simp only [nestOf]
    congr 1
    apply List.map_congr_left
    intro i _
    apply nestOf_congr dflt s
    intro c hc
    have := h (i :: c) (by simp [hc])
    simpa using this

theorem tolistN_spec (dflt : O) : ∀ (n : Nat) (r : NT O), wf r = true → (shape r).length = n →
    tolistN n r = nestOf (getAt r) dflt (shape r) []
  | 0, r, hw, hn => by
    cases r with
    | shared o s =>
      simp only [shape] at hn
      have hs : s = [] := List.eq_nil_of_length_eq_zero hn
      subst hs
      simp [tolistN, nestOf, shape, getAt_shared, inB]
    | stack ms d =>
      obtain ⟨m0, r0, rfl, hd, _⟩ := wf_stack hw
      rw [shape_stack_cons, List.length_insertIdx_of_le_length hd] at hn
      omega
  | n + 1, r, hw, hn => by
    have hdim : 0 < (shape r).length := by omega
    obtain ⟨hlen, hpieces, hget⟩ := unbind_spec r 0 hw hdim
    -- the shape is `s0 :: tail`
    cases hs : shape r with
    | nil => rw [hs] at hn; simp at hn
    | cons s0 tail =>
      have hnot : ∀ o, r ≠ .shared o [] := by
        intro o h; rw [h] at hs; simp [shape] at hs
      have hunfold : tolistN (n + 1) r = .list ((unbind r 0).map (tolistN n)) := by
        cases r with
        | shared o s =>
          cases s with
          | nil => exact absurd rfl (hnot o)
          | cons a b => simp [tolistN]
        | stack ms d => simp [tolistN]
      rw [hunfold]
      simp only [nestOf]
      congr 1
      rw [hs] at hlen hpieces hget hn
      simp only [List.getD_cons_zero] at hlen
      simp only [List.eraseIdx_cons_zero] at hpieces
      apply List.ext_getElem?
      intro i
      simp only [List.getElem?_map]
      by_cases hi : i < s0
      · have hi' : i < (unbind r 0).length := by omega
        rw [List.getElem?_eq_getElem hi', List.getElem?_range hi]
        simp only [Option.map_some]
        congr 1
        have hp := hpieces _ (List.getElem_mem hi')
        rw [tolistN_spec dflt n _ hp.1 (by rw [hp.2]; simpa using hn), hp.2]
        apply nestOf_congr
        intro c hc
        simp only [List.nil_append, List.singleton_append]
        have := hget i c (by simp only [List.length_cons] at hn ⊢; omega)
        rw [List.getElem?_eq_getElem hi'] at this
        simpa using this
      · have h1 : (unbind r 0)[i]? = none := by
          rw [List.getElem?_eq_none_iff]; omega
        have h2 : (List.range s0)[i]? = none := by
          rw [List.getElem?_eq_none_iff]; simp; omega
        simp [h1, h2]

end NT
end TdVerif.C16
