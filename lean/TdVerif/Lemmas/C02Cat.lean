/-
  Helper lemmas for C02 stack / cat / split round trips: `locate` against `offsets`, zip indexing, mapM lengths.
-/
import TdVerif.Lemmas.C02Expand

namespace TdVerif.C02
variable {α : Type}

theorem locate_spec : ∀ (sizes : List Nat) (acc x : Nat), x < sizes.sum →
    ∃ n off, sizes[(T.locate sizes x).1]? = some n ∧ (T.locate sizes x).2 < n ∧
      (offsets sizes acc)[(T.locate sizes x).1]? = some off ∧ off + (T.locate sizes x).2 = acc + x
  | [], _, x, h => by simp at h
  | n :: ns, acc, x, h => by
    unfold T.locate
    by_cases hx : x < n
    · simp only [hx, if_true]
      exact ⟨n, acc, by simp, hx, by simp [offsets], rfl⟩
    · simp only [hx, if_false]
      have h' : x - n < ns.sum := by simp at h; omega
      obtain ⟨m, off, h1, h2, h3, h4⟩ := locate_spec ns (acc + n) (x - n) h'
      refine ⟨m, off, by simpa using h1, h2, by simpa [offsets] using h3, by omega⟩

theorem offsets_length : ∀ (sizes : List Nat) (acc : Nat), (offsets sizes acc).length = sizes.length
  | [], _ => rfl
  | n :: ns, acc => by simp [offsets, offsets_length ns]

theorem getElem?_zip' {β γ : Type} : ∀ (l1 : List β) (l2 : List γ) (k : Nat),
    (l1.zip l2)[k]? = match l1[k]?, l2[k]? with | some a, some b => some (a, b) | _, _ => none
  | [], _, k => by simp
  | _ :: _, [], k => by cases k <;> simp
  | a :: l1, b :: l2, 0 => by simp
  | a :: l1, b :: l2, k + 1 => by simp [getElem?_zip' l1 l2 k]

theorem split_piece_sizes (t : T α) (sizes : List Nat) (d : Nat) (hd : d < t.shape.length) :
    (t.splitWithSizes sizes d).map (fun p => p.shape.getD d 0) = sizes := by
  unfold T.splitWithSizes
  apply List.ext_getElem?; intro k
  simp only [List.getElem?_map]
  rw [getElem?_zip']
  by_cases hk : k < sizes.length
  · have ho : k < (offsets sizes 0).length := by rw [offsets_length]; exact hk
    rw [List.getElem?_eq_getElem hk, List.getElem?_eq_getElem ho]
    simp [T.narrow, List.getD_eq_getElem?_getD, hd]
  · rw [List.getElem?_eq_none (Nat.le_of_not_lt hk)]
    cases (offsets sizes 0)[k]? <;> simp

theorem length_mapM_option {β γ : Type} (f : β → Option γ) : ∀ (l : List β) (r : List γ), l.mapM f = some r → r.length = l.length
  | [], r, h => by simp at h; subst h; rfl
  | a :: l, r, h => by
    rw [List.mapM_cons] at h
    cases hfa : f a with
    | none => simp [hfa] at h
    | some b =>
      cases hl : l.mapM f with
      | none => simp [hfa, hl] at h
      | some bs =>
        simp [hfa, hl] at h
        subst h
        simp [length_mapM_option f l bs hl]

theorem take_drop_comm {β : Type} (l : List β) (k n : Nat) (hk : k ≤ n) : (l.drop k).take (n - k) = (l.take n).drop k := by
  rw [List.take_drop]; congr 2; omega


theorem index_shape_of_check (ish bs : Shape) (dim : Nat) (hl : ish.length = bs.length)
    (h : ¬ ((List.range (min ish.length bs.length)).any fun i => decide (i ≠ dim ∧ ish.getD i 0 ≠ bs.getD i 0)) = true) :
    ish = bs.set dim (ish.getD dim 0) := by
  apply List.ext_getElem?; intro k
  simp only [List.any_eq_true, List.mem_range, decide_eq_true_eq, not_exists, not_and] at h
  by_cases hk : k < bs.length
  · by_cases hkd : dim = k
    · subst hkd; simp [List.getElem?_set, hk, List.getD_eq_getElem?_getD, List.getElem?_eq_getElem (hl ▸ hk)]
    · have := h k (by rw [hl]; simpa using hk)
      have hne : k ≠ dim := fun e => hkd e.symm
      have heq : ish[k]?.getD 0 = bs[k]?.getD 0 := by simpa [List.getD_eq_getElem?_getD] using this hne
      simp only [List.getElem?_set, hkd, if_false]
      rw [List.getElem?_eq_getElem (hl ▸ hk), List.getElem?_eq_getElem hk] at heq ⊢
      simpa using heq
  · rw [List.getElem?_eq_none (by omega), List.getElem?_eq_none (by simp; omega)]

theorem lookupEntry_isSome_iff (k : String) : ∀ (es : List (String × TD α)), (lookupEntry k es).isSome = (es.map (·.1)).contains k
  | [] => rfl
  | (k', e) :: rest => by
    simp only [lookupEntry, List.map_cons, List.contains_cons]
    by_cases h : k' = k
    · subst h; simp
    · have : (k == k') = false := by simp [Ne.symm h]
      simp only [h, if_false, this, Bool.false_or]; exact lookupEntry_isSome_iff k rest

/-- when every operand has the key set of the first one, every key of the first one is found in every operand -/
theorem filterMap_lookup_length (first : List (String × TD α)) (others : List (List (String × TD α)))
    (h : sameKeySets first others = true) (k : String) (hk : k ∈ first.map (·.1)) :
    (others.filterMap (lookupEntry k)).length = others.length := by
  induction others with
  | nil => rfl
  | cons o rest ih =>
    simp only [sameKeySets, List.all_cons, Bool.and_eq_true] at h
    have hin : (o.map (·.1)).contains k = true := by
      have := h.1.2
      rw [List.all_eq_true] at this
      exact this k hk
    have hs : (lookupEntry k o).isSome = true := by rw [lookupEntry_isSome_iff]; exact hin
    obtain ⟨v, hv⟩ := Option.isSome_iff_exists.1 hs
    simp only [List.filterMap_cons, hv, List.length_cons]
    rw [ih (by simpa [sameKeySets] using h.2)]


theorem mapM_asLeaf_shapes : ∀ (vals : List (TD α)) (ts : List (T α)), vals.mapM asLeaf = some ts → ts.length = vals.length :=
  fun vals ts h => length_mapM_option _ _ _ h


theorem lookupEntry_coherent (k : String) (b : Shape) : ∀ (es : List (String × TD α)) (v : TD α),
    CoherentList b es → lookupEntry k es = some v → PrefixOK b v ∧ Coherent v
  | [], _, _, h => by simp [lookupEntry] at h
  | (k', e) :: rest, v, hc, h => by
    simp only [CoherentList] at hc
    simp only [lookupEntry] at h
    by_cases hk : k' = k
    · simp only [hk, if_true, Option.some.injEq] at h; subst h; exact ⟨hc.1, hc.2.1⟩
    · simp only [hk, if_false] at h; exact lookupEntry_coherent k b rest v hc.2.2 h

/-- when the key is found in every operand, the found values line up with the operands -/
theorem filterMap_lookup_vals (k : String) (dim : Nat) : ∀ (others : List (List (String × TD α))) (obs : List Shape),
    OpsOK obs others → (∀ b ∈ obs, dim < b.length) →
    (others.filterMap (lookupEntry k)).length = others.length → ValsOK dim obs (others.filterMap (lookupEntry k))
  | [], [], _, _, _ => ⟨rfl, by simp⟩
  | [], _ :: _, h, _, _ => by simp [OpsOK] at h
  | _ :: _, [], h, _, _ => by simp [OpsOK] at h
  | o :: rest, b :: obs, h, hn, hl => by
    have hle := List.length_filterMap_le (lookupEntry k) rest
    cases hv : lookupEntry k o with
    | none => simp [List.filterMap_cons, hv] at hl; omega
    | some v =>
      simp only [List.filterMap_cons, hv, List.length_cons, Nat.add_right_cancel_iff] at hl
      have hrest : OpsOK obs rest := ⟨by have := h.1; simpa using this, fun p hp => h.2 p (by simp [hp])⟩
      have ih := filterMap_lookup_vals k dim rest obs hrest (fun b' hb' => hn b' (by simp [hb'])) hl
      have hco := h.2 (o, b) (by simp)
      obtain ⟨hp, hcv⟩ := lookupEntry_coherent k b o v hco hv
      refine ⟨by simp [List.filterMap_cons, hv, ih.1], ?_⟩
      intro p hp'
      simp only [List.filterMap_cons, hv, List.zip_cons_cons, List.mem_cons] at hp'
      rcases hp' with rfl | hp'
      · exact ⟨hn b (by simp), hp, hcv⟩
      · exact ih.2 p hp'

theorem getD_of_take {l b : List Nat} {dim : Nat} (h : l.take b.length = b) (hd : dim < b.length) : l.getD dim 0 = b.getD dim 0 := by
  have : (l.take b.length)[dim]? = b[dim]? := by rw [h]
  rw [List.getElem?_take] at this
  simp only [hd, if_true] at this
  simp [List.getD_eq_getElem?_getD, this]

/-- the leaves found in the operands have, along `dim`, the operands' batch sizes -/
theorem leaf_sizes_sum (dim : Nat) : ∀ (vals : List (TD α)) (ts : List (T α)) (obs : List Shape),
    vals.mapM asLeaf = some ts → ValsOK dim obs vals →
    (ts.map (fun u => u.shape.getD dim 0)).sum = (obs.map (·.getD dim 0)).sum
  | [], ts, obs, h, hv => by
    simp at h; subst h
    have : obs = [] := List.eq_nil_of_length_eq_zero (by simpa using hv.1)
    subst this; rfl
  | v :: vals, ts, [], _, hv => by simp [ValsOK] at hv
  | v :: vals, ts, b :: obs, h, hv => by
    rw [List.mapM_cons] at h
    cases hv1 : asLeaf v with
    | none => simp [hv1] at h
    | some t =>
      cases hm : vals.mapM asLeaf with
      | none => simp [hv1, hm] at h
      | some ts' =>
        simp [hv1, hm] at h
        subst h
        have hvt : v = .leaf t := by cases v <;> simp [asLeaf] at hv1; subst hv1; rfl
        subst hvt
        have h0 := hv.2 (.leaf t, b) (by simp)
        have hrest : ValsOK dim obs vals := ⟨by have := hv.1; simpa using this, fun p hp => hv.2 p (by simp [hp])⟩
        simp only [List.map_cons, List.sum_cons]
        rw [leaf_sizes_sum dim vals ts' obs hm hrest]
        have h01 : dim < b.length := h0.1
        have h02 : t.shape.take b.length = b := by simpa [PrefixOK] using h0.2.1
        have := getD_of_take h02 h01
        omega


/-- the nested tensordicts found in the operands: their batch sizes agree with the operands' along `dim`, and they are coherent -/
theorem nested_sizes_sum (dim : Nat) : ∀ (vals : List (TD α)) (os : List (Shape × List (String × TD α))) (obs : List Shape),
    vals.mapM nodeView = some os → ValsOK dim obs vals →
    (os.map (fun o => o.1.getD dim 0)).sum = (obs.map (·.getD dim 0)).sum ∧
      OpsOK (os.map (·.1)) (os.map (·.2)) ∧ (∀ o ∈ os, dim < o.1.length)
  | [], os, obs, h, hv => by
    simp at h; subst h
    have : obs = [] := List.eq_nil_of_length_eq_zero (by simpa using hv.1)
    subst this; exact ⟨rfl, ⟨rfl, by simp⟩, by simp⟩
  | v :: vals, os, [], _, hv => by simp [ValsOK] at hv
  | v :: vals, os, b :: obs, h, hv => by
    rw [List.mapM_cons] at h
    cases hv1 : nodeView v with
    | none => simp [hv1] at h
    | some o =>
      cases hm : vals.mapM nodeView with
      | none => simp [hv1, hm] at h
      | some os' =>
        simp [hv1, hm] at h
        subst h
        obtain ⟨b2, nm2, es2, rfl, rfl⟩ : ∃ b2 nm2 es2, v = .node b2 nm2 es2 ∧ o = (b2, es2) := by
          cases v with
          | leaf t => simp [nodeView] at hv1
          | node b2 nm2 es2 => simp [nodeView] at hv1; exact ⟨b2, nm2, es2, rfl, hv1.symm⟩
        have h0 := hv.2 (.node b2 nm2 es2, b) (by simp)
        have hrest : ValsOK dim obs vals := ⟨by have := hv.1; simpa using this, fun p hp => hv.2 p (by simp [hp])⟩
        obtain ⟨ih1, ih2, ih3⟩ := nested_sizes_sum dim vals os' obs hm hrest
        have h01 : dim < b.length := h0.1
        have h02 : b2.take b.length = b := by simpa [PrefixOK] using h0.2.1
        have hlen : b.length ≤ b2.length := by have := congrArg List.length h02; simp at this; omega
        have hg := getD_of_take h02 h01
        refine ⟨?_, ⟨by simp [ih2.1], ?_⟩, ?_⟩
        · simp only [List.map_cons, List.sum_cons]; rw [ih1]; omega
        · intro p hp
          simp only [List.map_cons, List.zip_cons_cons, List.mem_cons] at hp
          rcases hp with rfl | hp
          · simpa [Coherent] using h0.2.2
          · exact ih2.2 p hp
        · intro o ho
          simp only [List.mem_cons] at ho
          rcases ho with rfl | ho
          · simp; omega
          · exact ih3 o ho



theorem eraseDims_append {β : Type} (B ext : List β) (ds : List Nat) (h : ∀ d ∈ ds, d < B.length) :
    eraseDims (B ++ ext) ds = eraseDims B ds ++ ext := by
  unfold eraseDims
  rw [List.zipIdx_append, List.filter_append, List.map_append]
  congr 1
  have : (ext.zipIdx B.length).filter (fun p => !ds.contains p.2) = ext.zipIdx B.length := by
    apply List.filter_eq_self.2
    intro p hp
    have hge : B.length ≤ p.2 := by
      have := List.mem_zipIdx hp
      omega
    simp only [Bool.not_eq_true', List.contains_eq_mem, decide_eq_false_iff_not]
    intro hin
    have := h p.2 hin
    omega
  rw [Nat.zero_add, this]
  simp


theorem inferSize_ofNats_some (sz : Shape) (m : Nat) (s : Shape) (h : inferSize (natsToInts sz) m = some s) : s = sz := by
  unfold inferSize natsToInts at h
  have h1 : (sz.map Int.ofNat).any (· < -1) = false := by
    simp [List.any_eq_false]
  have h2 : (sz.map Int.ofNat).filter (· ≠ -1) = sz.map Int.ofNat := by
    apply List.filter_eq_self.2; intro x hx; simp at hx ⊢; obtain ⟨y, _, rfl⟩ := hx; omega
  have h3 : (sz.map Int.ofNat).count (-1) = 0 := by
    apply List.count_eq_zero.2; intro hx; simp at hx
  have h4 : (sz.map Int.ofNat).map Int.toNat = sz := by simp [List.map_map, Function.comp_def]
  simp only [h1, h2, h3, h4] at h
  by_cases hp : prod sz = m
  · simp [hp] at h; exact h.symm
  · simp [hp] at h

theorem eraseDims_length_le {β : Type} (l : List β) (ds : List Nat) : (eraseDims l ds).length ≤ l.length := by
  unfold eraseDims
  rw [List.length_map]
  exact Nat.le_trans (List.length_filter_le _ _) (by simp)

theorem zipIdx_filter_fst {β : Type} (p : β → Bool) : ∀ (l : List β) (k : Nat),
    ((l.zipIdx k).filter (fun q => p q.1)).map (·.1) = l.filter p
  | [], _ => rfl
  | x :: l, k => by
    simp only [List.zipIdx_cons, List.filter_cons]
    by_cases hx : p x = true
    · simp [hx, zipIdx_filter_fst p l (k + 1)]
    · simp [hx, zipIdx_filter_fst p l (k + 1)]

/-- erasing the positions of the size-1 dims is filtering them out -/
theorem eraseDims_ones (bs : Shape) :
    eraseDims bs ((List.range bs.length).filter fun i => bs.getD i 0 = 1) = bs.filter (· ≠ 1) := by
  unfold eraseDims
  rw [← zipIdx_filter_fst (fun x => decide (x ≠ 1)) bs 0]
  congr 1
  apply List.filter_congr
  intro q hq
  obtain ⟨x, i⟩ := q
  have hm := List.mem_zipIdx hq
  simp only [Nat.zero_add, Nat.sub_zero] at hm
  obtain ⟨_, hi, hx⟩ := hm
  have hg : bs.getD i 0 = x := by
    simp [List.getD_eq_getElem?_getD, List.getElem?_eq_getElem hi, hx]
  simp only [List.contains_eq_mem, List.mem_filter, List.mem_range, decide_eq_true_eq, hg, hi, true_and]
  by_cases h1 : x = 1 <;> simp [h1]


end TdVerif.C02
