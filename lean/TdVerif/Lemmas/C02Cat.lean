/-
  Helper lemmas for C02 stack / cat / split round trips: `locate` against `offsets`, zip indexing, mapM lengths.
-/
import TdVerif.Lemmas.C02Expand

namespace TdVerif.C02
variable {α : Type}

theorem locate_spec : ∀ (sizes : List Nat) (acc x : Nat), x < sizes.sum →
    ∃ n off, sizes[(T.locate sizes x).1]? = some n ∧ (T.locate sizes x).2 < n ∧
      (offsets sizes acc)[(T.locate sizes x).1]? = some off ∧ off + (T.locate sizes x).2 = acc + x
  | [], _, x, h => by simp at h
  | n :: ns, acc, x, h => by
    unfold T.locate
    by_cases hx : x < n
    · simp only [hx, if_true]
      exact ⟨n, acc, by simp, hx, by simp [offsets], rfl⟩
    · simp only [hx, if_false]
      have h' : x - n < ns.sum := by simp at h; omega
      obtain ⟨m, off, h1, h2, h3, h4⟩ := locate_spec ns (acc + n) (x - n) h'
      refine ⟨m, off, by simpa using h1, h2, by simpa [offsets] using h3, by omega⟩

theorem offsets_length : ∀ (sizes : List Nat) (acc : Nat), (offsets sizes acc).length = sizes.length
  | [], _ => rfl
  | n :: ns, acc => by simp [offsets, offsets_length ns]

theorem getElem?_zip' {β γ : Type} : ∀ (l1 : List β) (l2 : List γ) (k : Nat),
    (l1.zip l2)[k]? = match l1[k]?, l2[k]? with | some a, some b => some (a, b) | _, _ => none
  | [], _, k => by simp
  | _ :: _, [], k => by cases k <;> simp
  | a :: l1, b :: l2, 0 => by simp
  | a :: l1, b :: l2, k + 1 => by simp [getElem?_zip' l1 l2 k]

theorem split_piece_sizes (t : T α) (sizes : List Nat) (d : Nat) (hd : d < t.shape.length) :
    (t.splitWithSizes sizes d).map (fun p => p.shape.getD d 0) = sizes := by
  unfold T.splitWithSizes
  apply List.ext_getElem?; intro k
  simp only [List.getElem?_map]
  rw [getElem?_zip']
  by_cases hk : k < sizes.length
  · have ho : k < (offsets sizes 0).length := by rw [offsets_length]; exact hk
    rw [List.getElem?_eq_getElem hk, List.getElem?_eq_getElem ho]
    simp [T.narrow, List.getD_eq_getElem?_getD, hd]
  · rw [List.getElem?_eq_none (Nat.le_of_not_lt hk)]
    cases (offsets sizes 0)[k]? <;> simp

theorem length_mapM_option {β γ : Type} (f : β → Option γ) : ∀ (l : List β) (r : List γ), l.mapM f = some r → r.length = l.length
  | [], r, h => by simp at h; subst h; rfl
  | a :: l, r, h => by
    rw [List.mapM_cons] at h
    cases hfa : f a with
    | none => simp [hfa] at h
    | some b =>
      cases hl : l.mapM f with
      | none => simp [hfa, hl] at h
      | some bs =>
        simp [hfa, hl] at h
        subst h
        simp [length_mapM_option f l bs hl]

theorem take_drop_comm {β : Type} (l : List β) (k n : Nat) (hk : k ≤ n) : (l.drop k).take (n - k) = (l.take n).drop k := by
  rw [List.take_drop]; congr 2; omega


end TdVerif.C02
