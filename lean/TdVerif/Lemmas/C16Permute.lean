/-
  C16 — `permute` on the representation commutes with the abstraction.
-/
import TdVerif.Lemmas.C16ShapeOps

namespace TdVerif.C16
namespace NT
variable {O : Type}

/-- `p` lists every dim `0 … n-1` exactly once (`p[k]` = source dim shown at output position `k`) -/
def IsPerm (p : List Nat) (n : Nat) : Prop :=
  p.length = n ∧ p.Nodup ∧ (∀ k ∈ p, k < n) ∧ (∀ j, j < n → j ∈ p)

/-- SPEC: the source coordinate read by output coordinate `c` of a permuted array: source dim `j` takes the
component shown at the output position where `p` lists `j` -/
def unperm (p : List Nat) (c : List Nat) : List Nat :=
  (List.range p.length).map (fun j => c.getD (p.idxOf j) 0)

theorem inB_iff : ∀ (c : List Nat) (s : Shape),
    inB c s = true ↔ c.length = s.length ∧ ∀ k, k < c.length → c.getD k 0 < s.getD k 0
  | [], [] => by simp [inB]
  | [], _ :: _ => by simp [inB]
  | _ :: _, [] => by simp [inB]
  | i :: c, n :: s => by
    simp only [inB, Bool.and_eq_true, decide_eq_true_eq, inB_iff c s, List.length_cons, Nat.add_right_cancel_iff]
    constructor
    · rintro ⟨h0, hl, hk⟩
      refine ⟨hl, ?_⟩
      intro k hk'
      cases k with
      | zero => simpa using h0
      | succ k => simpa using hk k (by omega)
    · rintro ⟨hl, hk⟩
      refine ⟨by simpa using hk 0 (by omega), hl, ?_⟩
      intro k hk'
      simpa using hk (k + 1) (by omega)

theorem idxOf_getElem_nodup {p : List Nat} (hnd : p.Nodup) (k : Nat) (hk : k < p.length) : p.idxOf p[k] = k := by
  have h1 : p.idxOf p[k] < p.length := List.idxOf_lt_length_of_mem (List.getElem_mem hk)
  have h2 : p[p.idxOf p[k]] = p[k] := List.getElem_idxOf h1
  exact (List.getElem_inj (h₀ := h1) (h₁ := hk) hnd).mp h2

theorem perm_idx {p : List Nat} {n : Nat} (hp : IsPerm p n) (j : Nat) (hj : j < n) :
    p.idxOf j < n ∧ p[p.idxOf j]? = some j := by
  have hmem := hp.2.2.2 j hj
  have h1 : p.idxOf j < p.length := List.idxOf_lt_length_of_mem hmem
  refine ⟨by rw [← hp.1]; exact h1, ?_⟩
  rw [List.getElem?_eq_getElem h1, List.getElem_idxOf h1]

theorem unperm_length (p c : List Nat) : (unperm p c).length = p.length := by simp [unperm]

theorem unperm_getD (p c : List Nat) (j : Nat) (hj : j < p.length) : (unperm p c).getD j 0 = c.getD (p.idxOf j) 0 := by
  simp [unperm, List.getD_eq_getElem?_getD, List.getElem?_map, List.getElem?_range hj]

theorem inB_perm (p : List Nat) (n : Nat) (hp : IsPerm p n) (s : Shape) (hs : s.length = n) (c : List Nat)
    (hc : c.length = n) :
    inB c (p.map (fun k => s.getD k 0)) = inB (unperm p c) s := by
  rw [Bool.eq_iff_iff, inB_iff, inB_iff]
  simp only [List.length_map, unperm_length, hp.1, hs, hc, true_and]
  constructor
  · intro h j hj
    have hj' : j < p.length := by rw [hp.1]; exact hj
    obtain ⟨hk, hpk⟩ := perm_idx hp j hj
    rw [unperm_getD p c j hj']
    have := h (p.idxOf j) hk
    have hm : (p.map (fun k => s.getD k 0)).getD (p.idxOf j) 0 = s.getD j 0 := by
      simp [List.getD_eq_getElem?_getD, List.getElem?_map, hpk]
    rwa [hm] at this
  · intro h k hk
    have hk' : k < p.length := by rw [hp.1]; exact hk
    have hjn : p[k] < n := hp.2.2.1 _ (List.getElem_mem hk')
    have := h p[k] hjn
    rw [unperm_getD p c _ (by rw [hp.1]; exact hjn), idxOf_getElem_nodup hp.2.1 k hk'] at this
    have hm : (p.map (fun k => s.getD k 0)).getD k 0 = s.getD p[k] 0 := by
      simp [List.getD_eq_getElem?_getD, List.getElem?_map, List.getElem?_eq_getElem hk']
    rwa [hm]


/-! the permutation handed to the members of a stack -/

/-- renumbering of the dims other than the stack dim `d` -/
def ren (d k : Nat) : Nat := if k < d then k else k - 1

def subPerm (p : List Nat) (d : Nat) : List Nat := (p.filter (· ≠ d)).map (ren d)

theorem filter_ne_eq_eraseIdx : ∀ (p : List Nat) (d : Nat), p.Nodup → d ∈ p →
    p.filter (· ≠ d) = p.eraseIdx (p.idxOf d)
  | [], d, _, h => by simp at h
  | x :: p, d, hnd, hmem => by
    simp only [List.nodup_cons] at hnd
    by_cases hx : x = d
    · subst hx
      have : p.filter (· ≠ x) = p := by
        rw [List.filter_eq_self]
        intro a ha
        have : a ≠ x := by intro h; subst h; exact hnd.1 ha
        simpa using this
      simp [List.filter, List.idxOf_cons]
      intro a ha h; subst h; exact hnd.1 ha
    · have hd : d ∈ p := by
        rcases List.mem_cons.mp hmem with h | h
        · exact absurd h.symm hx
        · exact h
      have hb : (x == d) = false := by simpa using hx
      simp only [List.filter, ne_eq, hx, not_false_eq_true, decide_true, List.idxOf_cons, hb, cond_false,
        List.eraseIdx_cons_succ, List.cons.injEq, true_and]
      exact filter_ne_eq_eraseIdx p d hnd.2 hd

theorem subPerm_eq (p : List Nat) (d : Nat) (hnd : p.Nodup) (hd : d ∈ p) :
    subPerm p d = (p.eraseIdx (p.idxOf d)).map (ren d) := by
  unfold subPerm
  rw [filter_ne_eq_eraseIdx p d hnd hd]

/-- elements of `p` other than at the position of `d` are different from `d` -/
theorem mem_eraseIdx_ne {p : List Nat} {d a : Nat} (hnd : p.Nodup) (hd : d ∈ p) (ha : a ∈ p.eraseIdx (p.idxOf d)) :
    a ≠ d ∧ a ∈ p := by
  obtain ⟨i, hi, hpi⟩ := List.mem_eraseIdx_iff_getElem?.mp ha
  refine ⟨?_, List.mem_of_getElem? hpi⟩
  intro h
  subst h
  obtain ⟨hil, hia⟩ := List.getElem?_eq_some_iff.mp hpi
  have := idxOf_getElem_nodup hnd i hil
  rw [hia] at this
  exact hi this.symm

theorem ren_inj {d a b : Nat} (ha : a ≠ d) (hb : b ≠ d) (h : ren d a = ren d b) : a = b := by
  unfold ren at h
  split at h <;> split at h <;> omega

theorem subPerm_isPerm (p : List Nat) (n d : Nat) (hp : IsPerm p n) (hd : d < n) : IsPerm (subPerm p d) (n - 1) := by
  obtain ⟨hl, hnd, hb, hs⟩ := hp
  have hdm : d ∈ p := hs d hd
  have hns : p.idxOf d < p.length := List.idxOf_lt_length_of_mem hdm
  rw [subPerm_eq p d hnd hdm]
  refine ⟨?_, ?_, ?_, ?_⟩
  · rw [List.length_map, List.length_eraseIdx, if_pos hns, hl]
  · have h1 : (p.eraseIdx (p.idxOf d)).Nodup := List.Nodup.sublist (List.eraseIdx_sublist _ _) hnd
    rw [List.Nodup, List.pairwise_map]
    rw [List.Nodup, List.Pairwise.and_mem] at h1
    refine List.Pairwise.imp ?_ h1
    intro a b ⟨ha, hb', hab⟩ heq
    exact hab (ren_inj (mem_eraseIdx_ne hnd hdm ha).1 (mem_eraseIdx_ne hnd hdm hb').1 heq)
  · intro k hk
    obtain ⟨a, ha, rfl⟩ := List.mem_map.mp hk
    obtain ⟨hne, hap⟩ := mem_eraseIdx_ne hnd hdm ha
    have := hb a hap
    unfold ren
    split <;> omega
  · intro j hj
    let a := if j < d then j else j + 1
    have han : a < n := by show (if j < d then j else j + 1) < n; split <;> omega
    have hane : a ≠ d := by show (if j < d then j else j + 1) ≠ d; split <;> omega
    have hap : a ∈ p := hs a han
    have hai : p.idxOf a < p.length := List.idxOf_lt_length_of_mem hap
    have hmem : a ∈ p.eraseIdx (p.idxOf d) := by
      rw [List.mem_eraseIdx_iff_getElem?]
      refine ⟨p.idxOf a, ?_, by rw [List.getElem?_eq_getElem hai, List.getElem_idxOf hai]⟩
      intro h
      have h1 : p[p.idxOf a] = a := List.getElem_idxOf hai
      have h2 : p[p.idxOf d] = d := List.getElem_idxOf hns
      have : p[p.idxOf a] = p[p.idxOf d] := by simp [h]
      rw [h1, h2] at this
      exact hane this
    refine List.mem_map.mpr ⟨a, hmem, ?_⟩
    show ren d (if j < d then j else j + 1) = j
    unfold ren
    split <;> (try split) <;> omega


theorem map_insertIdx' {α β : Type} (f : α → β) : ∀ (l : List α) (i : Nat) (a : α),
    (l.insertIdx i a).map f = (l.map f).insertIdx i (f a)
  | _, 0, _ => by simp
  | [], _ + 1, _ => by simp
  | x :: l, i + 1, a => by simp [map_insertIdx' f l i a]

theorem idxOf_of_getElem? {l : List Nat} (hnd : l.Nodup) {k x : Nat} (h : l[k]? = some x) : l.idxOf x = k := by
  obtain ⟨hk, hx⟩ := List.getElem?_eq_some_iff.mp h
  rw [← hx]
  exact idxOf_getElem_nodup hnd k hk

theorem eraseIdx_get_shift {α : Type} (l : List α) (ns q : Nat) (hq : q ≠ ns) :
    (l.eraseIdx ns)[if q < ns then q else q - 1]? = l[q]? := by
  rw [List.getElem?_eraseIdx]
  by_cases h : q < ns
  · simp [h]
  · have h1 : ¬ (q - 1 < ns) := by omega
    have h2 : q - 1 + 1 = q := by omega
    simp [h, h1, h2]

theorem unperm_getElem? (p c : List Nat) (j : Nat) :
    (unperm p c)[j]? = if j < p.length then some (c.getD (p.idxOf j) 0) else none := by
  unfold unperm
  rw [List.getElem?_map]
  by_cases h : j < p.length
  · simp [h, List.getElem?_range h]
  · have : (List.range p.length)[j]? = none := by
      rw [List.getElem?_eq_none_iff, List.length_range]; omega
    simp [h, this]

/-- the coordinate the members of a stack are read at -/
theorem unperm_eraseIdx (p : List Nat) (n d : Nat) (hp : IsPerm p n) (hd : d < n) (c : List Nat) :
    (unperm p c).eraseIdx d = unperm (subPerm p d) (c.eraseIdx (p.idxOf d)) := by
  have hsub := subPerm_isPerm p n d hp hd
  obtain ⟨hl, hnd, hb, hs⟩ := hp
  have hdm : d ∈ p := hs d hd
  have hns : p.idxOf d < p.length := List.idxOf_lt_length_of_mem hdm
  apply List.ext_getElem?
  intro j
  rw [List.getElem?_eraseIdx, unperm_getElem?, unperm_getElem?, unperm_getElem?, hsub.1, hl]
  by_cases hj : j < n - 1
  · let a := if j < d then j else j + 1
    have han : a < n := by show (if j < d then j else j + 1) < n; split <;> omega
    have hane : a ≠ d := by show (if j < d then j else j + 1) ≠ d; split <;> omega
    have hra : ren d a = j := by
      show ren d (if j < d then j else j + 1) = j
      unfold ren
      split <;> (try split) <;> omega
    have hap : a ∈ p := hs a han
    have hai : p.idxOf a < p.length := List.idxOf_lt_length_of_mem hap
    have hqne : p.idxOf a ≠ p.idxOf d := by
      intro h
      have h1 : p[p.idxOf a] = a := List.getElem_idxOf hai
      have h2 : p[p.idxOf d] = d := List.getElem_idxOf hns
      have : p[p.idxOf a] = p[p.idxOf d] := by simp [h]
      rw [h1, h2] at this
      exact hane this
    have hpa : p[p.idxOf a]? = some a := by rw [List.getElem?_eq_getElem hai, List.getElem_idxOf hai]
    have hsubj : (subPerm p d)[if p.idxOf a < p.idxOf d then p.idxOf a else p.idxOf a - 1]? = some j := by
      rw [subPerm_eq p d hnd hdm, List.getElem?_map, eraseIdx_get_shift p _ _ hqne, hpa]
      simp [hra]
    have hidx := idxOf_of_getElem? hsub.2.1 hsubj
    have hlhs : (if j < d then (if j < n then some (c.getD (p.idxOf j) 0) else none)
        else if j + 1 < n then some (c.getD (p.idxOf (j + 1)) 0) else none) = some (c.getD (p.idxOf a) 0) := by
      show _ = some (c.getD (p.idxOf (if j < d then j else j + 1)) 0)
      by_cases h : j < d
      · have : j < n := by omega
        simp [h, this]
      · have : j + 1 < n := by omega
        simp [h, this]
    rw [hlhs, if_pos hj, hidx, List.getD_eq_getElem?_getD, List.getD_eq_getElem?_getD,
      eraseIdx_get_shift c _ _ hqne]
  · have h1 : ¬ j < d := by omega
    have h2 : ¬ j + 1 < n := by omega
    simp [hj, h1, h2]


theorem permuteList_getElem? : ∀ (ms : List (NT O)) (p : List Nat) (i : Nat),
    (permuteList ms p)[i]? = (ms[i]?).map (fun m => permute m p)
  | [], p, i => by simp [permuteList]
  | m :: r, p, 0 => by simp [permuteList]
  | m :: r, p, i + 1 => by simp [permuteList, permuteList_getElem? r p i]

theorem permuteList_length : ∀ (ms : List (NT O)) (p : List Nat), (permuteList ms p).length = ms.length
  | [], _ => rfl
  | m :: r, p => by simp [permuteList, permuteList_length r p]

theorem mem_permuteList : ∀ (ms : List (NT O)) (p : List Nat) (y : NT O), y ∈ permuteList ms p →
    ∃ m ∈ ms, y = permute m p
  | [], p, y, h => by simp [permuteList] at h
  | m :: r, p, y, h => by
    simp only [permuteList, List.mem_cons] at h
    rcases h with rfl | h
    · exact ⟨m, by simp, rfl⟩
    · obtain ⟨m', hm', rfl⟩ := mem_permuteList r p y h
      exact ⟨m', by simp [hm'], rfl⟩

/-- what `permute(p)` promises -/
def PermuteOk (r : NT O) (p : List Nat) : Prop :=
  wf (permute r p) = true ∧ shape (permute r p) = p.map (fun k => (shape r).getD k 0)
  ∧ ∀ c, c.length = p.length → getAt (permute r p) c = getAt r (unperm p c)

mutual
theorem permute_spec : ∀ (r : NT O) (p : List Nat), wf r = true → IsPerm p (shape r).length → PermuteOk r p
  | .shared o s, p, _, hp => by
    simp only [shape] at hp
    refine ⟨rfl, rfl, ?_⟩
    intro c hc
    simp only [permute, getAt_shared]
    rw [inB_perm p s.length hp s rfl c (by rw [hc, hp.1])]
  | .stack ms d, p, hw, hp => by
    obtain ⟨m0, r0, rfl, hd, hmem⟩ := wf_stack hw
    have hrank : ((shape m0).insertIdx d (r0.length + 1)).length = (shape m0).length + 1 :=
      List.length_insertIdx_of_le_length hd _
    rw [shape_stack_cons, hrank] at hp
    have hdn : d < (shape m0).length + 1 := by omega
    have hsub := subPerm_isPerm p _ d hp hdn
    simp only [Nat.add_sub_cancel] at hsub
    have hdm : d ∈ p := hp.2.2.2 d hdn
    have hns : p.idxOf d < p.length := List.idxOf_lt_length_of_mem hdm
    have hok : ∀ m ∈ m0 :: r0, PermuteOk m (subPerm p d) := by
      intro m hm
      have := hmem m hm
      exact permute_members (m0 :: r0) (subPerm p d) m hm this.1 (by rw [this.2]; exact hsub)
    have hpe : permute (.stack (m0 :: r0) d) p = .stack (permuteList (m0 :: r0) (subPerm p d)) (p.idxOf d) := by
      simp only [permute, posOf, subPerm]
      rfl
    have hmem' : ∀ y ∈ permuteList (m0 :: r0) (subPerm p d),
        wf y = true ∧ shape y = (subPerm p d).map (fun k => (shape m0).getD k 0) := by
      intro y hy
      obtain ⟨m, hm, rfl⟩ := mem_permuteList _ _ _ hy
      exact ⟨(hok m hm).1, by rw [(hok m hm).2.1, (hmem m hm).2]⟩
    have hne' : permuteList (m0 :: r0) (subPerm p d) ≠ [] := by simp [permuteList]
    obtain ⟨hw1, hs1⟩ := wf_stack_intro _ (p.idxOf d) _ hne'
      (by rw [List.length_map, hsub.1, ← Nat.lt_succ_iff]; rw [hp.1] at hns; exact hns) hmem'
    unfold PermuteOk
    rw [hpe]
    refine ⟨hw1, ?_, ?_⟩
    · rw [hs1, permuteList_length, shape_stack_cons, List.length_cons]
      have hpd : p[p.idxOf d]? = some d := by rw [List.getElem?_eq_getElem hns, List.getElem_idxOf hns]
      conv => rhs; rw [← insertIdx_eraseIdx_getElem? p (p.idxOf d) d hpd]
      rw [map_insertIdx']
      have hfd : ((shape m0).insertIdx d (r0.length + 1)).getD d 0 = r0.length + 1 := by
        simp [List.getD_eq_getElem?_getD, List.getElem?_insertIdx_self, hd]
      rw [hfd, subPerm_eq p d hp.2.1 hdm, List.map_map]
      congr 1
      apply List.map_congr_left
      intro a ha
      obtain ⟨hne, _⟩ := mem_eraseIdx_ne hp.2.1 hdm ha
      simp only [Function.comp]
      rw [getD_insertIdx_ne (shape m0) d (r0.length + 1) a hd hne]
      rfl
    · intro c hc
      rw [getAt_stack, getAt_stack, unperm_eraseIdx p _ d hp hdn c, unperm_getElem?, if_pos (by rw [hp.1]; exact hdn)]
      have hcn : (p.idxOf d) < c.length := by rw [hc]; exact hns
      rw [List.getElem?_eq_getElem hcn]
      simp only [Option.bind_some, permuteList_getElem?]
      have hgd : c.getD (p.idxOf d) 0 = c[p.idxOf d] := by
        simp [List.getD_eq_getElem?_getD, List.getElem?_eq_getElem hcn]
      rw [hgd]
      cases hmk : (m0 :: r0)[c[p.idxOf d]]? with
      | none => simp
      | some m =>
        simp only [Option.map_some, Option.bind_some]
        have hm : m ∈ m0 :: r0 := List.mem_of_getElem? hmk
        exact (hok m hm).2.2 _ (by rw [List.length_eraseIdx, if_pos hcn, hc, hsub.1, hp.1]; rfl)

theorem permute_members : ∀ (ms : List (NT O)) (p : List Nat) (m : NT O), m ∈ ms → wf m = true →
    IsPerm p (shape m).length → PermuteOk m p
  | [], _, m, hm, _, _ => by simp at hm
  | m0 :: r, p, m, hm, hw, hp => by
    rcases List.mem_cons.mp hm with h | h
    · have : PermuteOk m0 p := permute_spec m0 p (h ▸ hw) (h ▸ hp)
      exact h ▸ this
    · exact permute_members r p m h hw hp
end


end NT
end TdVerif.C16
