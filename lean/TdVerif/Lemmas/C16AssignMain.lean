/-
  C16 — the write theorem on the promoted representation: `assign` writes exactly the positions the index names
  (with the corresponding objects of the value) and leaves every other position alone.
-/
import TdVerif.Lemmas.C16Assign

namespace TdVerif.C16
namespace NT
variable {O : Type}

/-- positions an item selects, in output order -/
def itemPositions : RIx → List Nat
  | .fixed i => [i]
  | .range lo st len => (List.range len).map (rangePos lo st)
  | .pick l => l
  | .newaxis => []

/-- no position is selected twice (an index list without duplicates; slices never repeat) and no `None` item -/
def WriteIx (rix : List RIx) : Prop := (∀ x ∈ rix, (itemPositions x).Nodup) ∧ RIx.newaxis ∉ rix

structure AssignOk (r0 : NT O) (rix : List RIx) (v r' : NT O) : Prop where
  wf' : wf r' = true
  scalar' : allScalar r' = true
  shape' : shape r' = shape r0
  written : ∀ c' c, srcCoord rix c' = some c → getAt r' c = getAt v c'
  frame : ∀ c, (∀ c', srcCoord rix c' ≠ some c) → getAt r' c = getAt r0 c

theorem wfList_intro (s : Shape) : ∀ (l : List (NT O)), (∀ y ∈ l, wf y = true ∧ shape y = s) → wfList s l = true
  | [], _ => rfl
  | z :: zs, hz => by
    have hz0 := hz z (by simp)
    simp only [wfList, hz0.1, hz0.2, Bool.true_and, decide_true, wfList_intro s zs (fun y hy => hz y (by simp [hy]))]

/-- a non-empty list of well-formed members of one shape is a well-formed stack -/
theorem wf_stack_intro (ms : List (NT O)) (d : Nat) (s : Shape) (hne : ms ≠ []) (hd : d ≤ s.length)
    (hm : ∀ m ∈ ms, wf m = true ∧ shape m = s) :
    wf (.stack ms d) = true ∧ shape (.stack ms d) = s.insertIdx d ms.length := by
  cases ms with
  | nil => exact absurd rfl hne
  | cons m0 r =>
    have h0 := hm m0 (by simp)
    refine ⟨?_, by simp [shape, h0.2]⟩
    simp only [wf, h0.1, Bool.true_and, Bool.and_eq_true, decide_eq_true_eq]
    exact ⟨by rw [h0.2]; exact hd, by rw [h0.2]; exact wfList_intro s r (fun y hy => hm y (by simp [hy]))⟩

theorem mem_set_cases {α : Type} (l : List α) (i : Nat) (x y : α) (h : y ∈ l.set i x) : y = x ∨ y ∈ l := by
  rcases List.mem_or_eq_of_mem_set h with h | h
  · exact Or.inr h
  · exact Or.inl h

theorem nCons_append : ∀ (a b : List RIx), nCons (a ++ b) = nCons a + nCons b
  | [], b => by simp [nCons]
  | x :: a, b => by simp [nCons, nCons_append a b, Nat.add_assoc]

theorem itemPositions_getElem? (x : RIx) (hx : x.consumes = true) (hf : ∀ i, x ≠ .fixed i) (k : Nat) :
    (itemPositions x)[k]? = itemPos x k := by
  cases x with
  | fixed i => exact absurd rfl (hf i)
  | newaxis => simp [RIx.consumes] at hx
  | range lo st len =>
    simp only [itemPositions, itemPos, List.getElem?_map]
    by_cases hk : k < len
    · simp [hk, List.getElem?_range hk]
    · have : (List.range len)[k]? = none := by rw [List.getElem?_eq_none_iff]; simp; omega
      simp [hk, this]
  | pick l => simp [itemPositions, itemPos]

theorem nodup_getElem?_inj {α : Type} {l : List α} (h : l.Nodup) {i j : Nat} {x : α}
    (hi : l[i]? = some x) (hj : l[j]? = some x) : i = j := by
  obtain ⟨hil, hix⟩ := List.getElem?_eq_some_iff.mp hi
  obtain ⟨hjl, hjx⟩ := List.getElem?_eq_some_iff.mp hj
  exact (List.getElem_inj (h₀ := hil) (h₁ := hjl) h).mp (hix.trans hjx.symm)

/-- an integer at the stack dim: one member is written with the whole value -/
theorem stack_fixed_assign (ms : List (NT O)) (s : Shape) (b a : List RIx) (i : Nat) (m m' v : NT O)
    (hne : ms ≠ []) (hd : nCons b ≤ s.length)
    (hms : ∀ y ∈ ms, wf y = true ∧ shape y = s ∧ allScalar y = true)
    (hm : ms[i]? = some m) (hok : AssignOk m (b ++ a) v m') :
    AssignOk (.stack ms (nCons b)) (b ++ .fixed i :: a) v (.stack (ms.set i m') (nCons b)) := by
  have hsm : shape m = s := (hms m (List.mem_of_getElem? hm)).2.1
  have hmem' : ∀ y ∈ ms.set i m', wf y = true ∧ shape y = s ∧ allScalar y = true := by
    intro y hy
    rcases mem_set_cases ms i m' y hy with rfl | hy
    · exact ⟨hok.wf', by rw [hok.shape', hsm], hok.scalar'⟩
    · exact hms y hy
  have hne' : ms.set i m' ≠ [] := by
    intro h; apply hne; simpa using congrArg List.length h
  obtain ⟨hw0, hs0⟩ := wf_stack_intro ms (nCons b) s hne hd (fun y hy => ⟨(hms y hy).1, (hms y hy).2.1⟩)
  obtain ⟨hw1, hs1⟩ := wf_stack_intro (ms.set i m') (nCons b) s hne' hd (fun y hy => ⟨(hmem' y hy).1, (hmem' y hy).2.1⟩)
  have hil : i < ms.length := (List.getElem?_eq_some_iff.mp hm).1
  refine ⟨hw1, ?_, by rw [hs1, hs0]; simp, ?_, ?_⟩
  · simp only [allScalar]
    exact allScalarList_of_mem _ (fun y hy => (hmem' y hy).2.2)
  · intro c' c hc
    rw [srcCoord_mid_fixed] at hc
    cases hcm : srcCoord (b ++ a) c' with
    | none => simp [hcm] at hc
    | some cm =>
      simp only [hcm, Option.map_some, Option.some.injEq] at hc
      subst hc
      have hl : nCons b ≤ cm.length := by
        rw [srcCoord_length _ _ _ hcm, nCons_append]; omega
      rw [getAt_stack_insert _ _ _ _ hl, List.getElem?_set_self hil]
      simpa using hok.written c' cm hcm
  · intro c hfr
    rw [getAt_stack, getAt_stack]
    cases hcd : c[nCons b]? with
    | none => rfl
    | some j =>
      simp only [Option.bind_some]
      by_cases hji : j = i
      · subst hji
        rw [List.getElem?_set_self hil, hm]
        simp only [Option.bind_some]
        apply hok.frame
        intro c' hc'
        apply hfr c'
        rw [srcCoord_mid_fixed, hc']
        simp [insertIdx_eraseIdx_getElem? c (nCons b) j hcd]
      · rw [List.getElem?_set_ne (fun h => hji h.symm)]


/-- a slice / duplicate-free index list at the stack dim: each selected member is written with its piece of the value
(the value unbound along the output dim the item produces), the others are untouched -/
theorem stack_multi_assign (ms ms' : List (NT O)) (s : Shape) (b a : List RIx) (x : RIx) (v : NT O)
    (hx : x.consumes = true) (hf : ∀ i, x ≠ .fixed i)
    (hne : ms ≠ []) (hd : nCons b ≤ s.length)
    (hms : ∀ y ∈ ms, wf y = true ∧ shape y = s ∧ allScalar y = true)
    (hnd : (itemPositions x).Nodup) (hvalidP : ∀ p ∈ itemPositions x, p < ms.length)
    (pieces : List (NT O)) (hpl : pieces.length = (itemPositions x).length)
    (hrank : (shape v).length = (outShape (b ++ x :: a)).length)
    (hpiece : ∀ (k : Nat) (pc : NT O), pieces[k]? = some pc → ∀ c'', c''.length + 1 = (shape v).length →
      getAt pc c'' = getAt v (c''.insertIdx (outShape b).length k))
    (hlen : ms'.length = ms.length)
    (hmem : ∀ (j : Nat) (m : NT O), ms[j]? = some m →
      (lastPiece (itemPositions x) pieces j = none → ms'[j]? = some m)
      ∧ (∀ pc, lastPiece (itemPositions x) pieces j = some pc → ∃ m', ms'[j]? = some m' ∧ AssignOk m (b ++ a) pc m')) :
    AssignOk (.stack ms (nCons b)) (b ++ x :: a) v (.stack ms' (nCons b)) := by
  have hmem' : ∀ y ∈ ms', wf y = true ∧ shape y = s ∧ allScalar y = true := by
    intro y hy
    obtain ⟨j, hj⟩ := List.getElem?_of_mem hy
    have hjl : j < ms.length := by rw [← hlen]; exact (List.getElem?_eq_some_iff.mp hj).1
    have hmj := hms _ (List.getElem_mem hjl)
    have := hmem j ms[j] (List.getElem?_eq_getElem hjl)
    cases hlp : lastPiece (itemPositions x) pieces j with
    | none =>
      have h1 := this.1 hlp
      rw [hj] at h1
      injection h1 with h1
      subst h1
      exact hmj
    | some pc =>
      obtain ⟨m', h1, hok⟩ := this.2 pc hlp
      rw [hj] at h1
      injection h1 with h1
      subst h1
      exact ⟨hok.wf', by rw [hok.shape', hmj.2.1], hok.scalar'⟩
  have hne' : ms' ≠ [] := by
    intro h; apply hne
    have : ms.length = 0 := by rw [← hlen, h]; rfl
    exact List.eq_nil_of_length_eq_zero this
  obtain ⟨hw0, hs0⟩ := wf_stack_intro ms (nCons b) s hne hd (fun y hy => ⟨(hms y hy).1, (hms y hy).2.1⟩)
  obtain ⟨hw1, hs1⟩ := wf_stack_intro ms' (nCons b) s hne' hd (fun y hy => ⟨(hmem' y hy).1, (hmem' y hy).2.1⟩)
  refine ⟨hw1, ?_, by rw [hs1, hs0, hlen], ?_, ?_⟩
  · simp only [allScalar]
    exact allScalarList_of_mem _ (fun y hy => (hmem' y hy).2.2)
  · -- written positions
    intro c' c hc
    have hc'len : c'.length = (shape v).length := by
      rw [hrank]; exact srcCoord_out_length _ _ _ hc
    rw [srcCoord_mid_multi b a x hx hf] at hc
    cases hk : c'[(outShape b).length]? with
    | none => simp [hk] at hc
    | some k =>
      simp only [hk, Option.bind_some] at hc
      cases hp : itemPos x k with
      | none => simp [hp] at hc
      | some p =>
        simp only [hp, Option.bind_some] at hc
        cases hcm : srcCoord (b ++ a) (c'.eraseIdx (outShape b).length) with
        | none => simp [hcm] at hc
        | some cm =>
          simp only [hcm, Option.map_some, Option.some.injEq] at hc
          subst hc
          have hl : nCons b ≤ cm.length := by
            rw [srcCoord_length _ _ _ hcm, nCons_append]; omega
          rw [getAt_stack_insert _ _ _ _ hl]
          -- the member at position `p` received piece `k`
          have hPk : (itemPositions x)[k]? = some p := by rw [itemPositions_getElem? x hx hf, hp]
          rcases lastPiece_cases (itemPositions x) pieces p hpl hnd with ⟨hnot, _⟩ | ⟨k2, pc, h1, h2, h3⟩
          · exact absurd (List.mem_of_getElem? hPk) hnot
          · have hkk : k2 = k := nodup_getElem?_inj hnd h1 hPk
            subst hkk
            have hpl' : p < ms.length := hvalidP p (List.mem_of_getElem? hPk)
            obtain ⟨m', hm', hok⟩ := (hmem p ms[p] (List.getElem?_eq_getElem hpl')).2 pc h3
            rw [hm']
            simp only [Option.bind_some]
            rw [hok.written _ cm hcm]
            have hlen2 : (c'.eraseIdx (outShape b).length).length + 1 = (shape v).length := by
              have hlt : (outShape b).length < c'.length := (List.getElem?_eq_some_iff.mp hk).1
              rw [List.length_eraseIdx, if_pos hlt, ← hc'len]; omega
            rw [hpiece k2 pc h2 _ hlen2, insertIdx_eraseIdx_getElem? c' _ k2 hk]
  · -- untouched positions
    intro c hfr
    rw [getAt_stack, getAt_stack]
    cases hcd : c[nCons b]? with
    | none => rfl
    | some j =>
      simp only [Option.bind_some]
      cases hmj : ms[j]? with
      | none =>
        have : ms'[j]? = none := by
          rw [List.getElem?_eq_none_iff] at hmj ⊢; omega
        rw [this]
      | some m =>
        rcases lastPiece_cases (itemPositions x) pieces j hpl hnd with ⟨_, hnone⟩ | ⟨k, pc, h1, h2, h3⟩
        · rw [(hmem j m hmj).1 hnone]
        · obtain ⟨m', hm', hok⟩ := (hmem j m hmj).2 pc h3
          rw [hm']
          simp only [Option.bind_some]
          apply hok.frame
          intro c'' hc''
          apply hfr (c''.insertIdx (outShape b).length k)
          have hnb : (outShape b).length ≤ c''.length := by
            rw [srcCoord_out_length _ _ _ hc'', outShape_append]; simp
          rw [srcCoord_mid_multi b a x hx hf, List.getElem?_insertIdx_self, if_pos hnb]
          simp only [Option.bind_some]
          rw [← itemPositions_getElem? x hx hf, h1]
          simp only [Option.bind_some, List.eraseIdx_insertIdx_self, hc'', Option.map_some]
          rw [insertIdx_eraseIdx_getElem? c (nCons b) j hcd]


theorem validItem_positions (x : RIx) (n : Nat) (h : validItem x n = true) : ∀ p ∈ itemPositions x, p < n := by
  cases x with
  | fixed i => intro p hp; simp [itemPositions] at hp; subst hp; simpa [validItem] using h
  | newaxis => simp [validItem] at h
  | range lo st len =>
    intro p hp
    simp only [itemPositions, List.mem_map, List.mem_range] at hp
    obtain ⟨k, hk, rfl⟩ := hp
    simp only [validItem, List.all_eq_true, List.mem_range, Bool.and_eq_true, decide_eq_true_eq] at h
    exact (h k hk).2
  | pick l =>
    intro p hp
    simp only [validItem, List.all_eq_true, decide_eq_true_eq] at h
    exact h p hp

theorem selectPositions_eq (n : Nat) (x : RIx) (h : validItem x n = true) :
    selectPositions n x = some (itemPositions x) := by
  rw [selectPositions_valid n x h]
  cases x <;> simp [itemPositions] <;> simp [validItem] at h

theorem writeIx_split (b a : List RIx) (x : RIx) (h : WriteIx (b ++ x :: a)) :
    WriteIx (b ++ a) ∧ (itemPositions x).Nodup := by
  refine ⟨⟨?_, ?_⟩, h.1 x (by simp)⟩
  · intro y hy
    apply h.1 y
    simp only [List.mem_append, List.mem_cons] at hy ⊢
    rcases hy with hy | hy
    · exact Or.inl hy
    · exact Or.inr (Or.inr hy)
  · intro hn
    apply h.2
    simp only [List.mem_append, List.mem_cons] at hn ⊢
    rcases hn with hn | hn
    · exact Or.inl hn
    · exact Or.inr (Or.inr hn)

mutual
/-- THE WRITE THEOREM on the promoted representation -/
theorem assign_ok : ∀ (r0 : NT O) (rix : List RIx) (v r' : NT O), wf r0 = true → allScalar r0 = true →
    validIx rix (shape r0) = true → WriteIx rix → wf v = true → shape v = outShape rix →
    assign r0 rix v = .ok r' → AssignOk r0 rix v r'
  | .shared o s, rix, v, r', _, hsc, hv, hwr, _, hsv, h => by
    simp only [allScalar, List.isEmpty_iff] at hsc
    subst hsc
    simp only [shape] at hv
    -- the index is empty
    have hrix : rix = [] := by
      cases rix with
      | nil => rfl
      | cons x r =>
        cases x with
        | newaxis => exact absurd (by simp) hwr.2
        | fixed i => simp [validIx] at hv
        | range lo st len => simp [validIx] at hv
        | pick l => simp [validIx] at hv
    subst hrix
    simp only [outShape] at hsv
    cases v with
    | stack ms d => simp [assign] at h
    | shared o' s' =>
      simp only [shape] at hsv
      subst hsv
      simp only [assign] at h
      injection h with h
      subst h
      refine ⟨rfl, rfl, rfl, ?_, ?_⟩
      · intro c' c hc
        cases c' with
        | nil => simp only [srcCoord, Option.some.injEq] at hc; subst hc; rfl
        | cons k t => simp [srcCoord] at hc
      · intro c hfr
        cases c with
        | nil => exact absurd rfl (hfr [])
        | cons k t => simp [getAt_shared, inB]
  | .stack ms d, rix, v, r', hw, hsc, hv, hwr, hwv, hsv, h => by
    obtain ⟨m0, r0s, rfl, hd, hmem⟩ := wf_stack hw
    simp only [assign] at h
    cases hsp : splitAt rix d with
    | none => simp [hsp] at h
    | some t =>
      obtain ⟨b, x, a⟩ := t
      obtain ⟨rfl, hx, hb⟩ := splitAt_spec rix d b x a hsp
      simp only [hsp] at h
      rw [shape_stack_cons] at hv
      obtain ⟨n, hn, hvx, hvr⟩ := validIx_split b x a _ hv hx
      rw [hb] at hn hvr
      rw [List.getElem?_insertIdx_self, if_pos hd] at hn
      rw [List.eraseIdx_insertIdx_self] at hvr
      injection hn with hn
      subst hn
      subst hb
      obtain ⟨hwr', hnd⟩ := writeIx_split b a x hwr
      have hms : ∀ y ∈ m0 :: r0s, wf y = true ∧ shape y = shape m0 ∧ allScalar y = true := by
        intro y hy
        simp only [allScalar] at hsc
        exact ⟨(hmem y hy).1, (hmem y hy).2, allScalarList_mem _ hsc y hy⟩
      by_cases hfx : ∃ i, x = .fixed i
      · obtain ⟨i, rfl⟩ := hfx
        simp only at h
        cases hn' : assignNth (m0 :: r0s) i (b ++ a) v with
        | error e => simp [hn', Except.map] at h
        | ok ms' =>
          simp only [hn', Except.map] at h
          injection h with h
          subst h
          obtain ⟨m, m', hm, ha, rfl⟩ := assignNth_spec _ _ _ _ _ hn'
          have hsv' : shape v = outShape (b ++ a) := by
            rw [hsv, outShape_append, outShape_append]; simp [outShape, RIx.outDim]
          have hok := assign_ok_nth (m0 :: r0s) i (b ++ a) (shape m0) v m m' hms hvr hwr' hwv hsv' hm ha
          exact stack_fixed_assign (m0 :: r0s) (shape m0) b a i m m' v (by simp) hd hms hm hok
      · have hf : ∀ i, x ≠ .fixed i := fun i hi => hfx ⟨i, hi⟩
        have hsel := selectPositions_eq (r0s.length + 1) x hvx
        have hlen1 : ∃ len, x.outDim = [len] ∧ (itemPositions x).length = len := by
          cases x with
          | fixed i => exact absurd rfl (hf i)
          | newaxis => simp [RIx.consumes] at hx
          | range lo st len => exact ⟨len, rfl, by simp [itemPositions]⟩
          | pick l => exact ⟨l.length, rfl, by simp [itemPositions]⟩
        obtain ⟨len, hod, hplen⟩ := hlen1
        have hmid := outShape_mid b a x hx hf len hod
        have hnb : (outShape b).length ≤ (outShape (b ++ a)).length := by
          rw [outShape_append]; simp
        have hrankv : (shape v).length = (outShape (b ++ a)).length + 1 := by
          rw [hsv, hmid, List.length_insertIdx_of_le_length hnb]
        obtain ⟨hul, hup, hug⟩ := unbind_spec v (outShape b).length hwv (by omega)
        have hh : (match x with
            | .fixed i => (assignNth (m0 :: r0s) i (b ++ a) v).map (fun ms' => NT.stack ms' (nCons b))
            | item => match selectPositions (m0 :: r0s).length item with
              | none => .error .index
              | some P =>
                if (unbind v (outShape b).length).length ≠ P.length then .error .shape
                else (assignMembers (m0 :: r0s) 0 P (unbind v (outShape b).length) (b ++ a)).map (fun ms' => NT.stack ms' (nCons b)))
            = .ok r' := h
        have hh2 : (if (unbind v (outShape b).length).length ≠ (itemPositions x).length then (.error .shape : Except IErr (NT O))
            else (assignMembers (m0 :: r0s) 0 (itemPositions x) (unbind v (outShape b).length) (b ++ a)).map
              (fun ms' => NT.stack ms' (nCons b))) = .ok r' := by
          cases x with
          | fixed i => exact absurd rfl (hf i)
          | newaxis => simp [RIx.consumes] at hx
          | range lo st len' => simpa [List.length_cons, hsel] using hh
          | pick l => simpa [List.length_cons, hsel] using hh
        by_cases hpl : (unbind v (outShape b).length).length = (itemPositions x).length
        · simp only [hpl, ne_eq, not_true_eq_false, ↓reduceIte] at hh2
          cases ham : assignMembers (m0 :: r0s) 0 (itemPositions x) (unbind v (outShape b).length) (b ++ a) with
          | error e => simp [ham, Except.map] at hh2
          | ok ms' =>
            simp only [ham, Except.map] at hh2
            injection hh2 with hh2
            subst hh2
            obtain ⟨hl, hj⟩ := assignMembers_spec _ _ _ _ _ _ ham
            have hshape_piece : (shape v).eraseIdx (outShape b).length = outShape (b ++ a) := by
              rw [hsv, hmid, List.eraseIdx_insertIdx_self]
            refine stack_multi_assign (m0 :: r0s) ms' (shape m0) b a x v hx hf (by simp) hd hms hnd
              (validItem_positions x _ hvx) (unbind v (outShape b).length) hpl (by rw [hsv]) ?_ hl ?_
            · intro k pc hk c'' hc''
              have := hug k c'' hc''
              rw [hk] at this
              simpa using this
            · intro j m hm
              have := hj j m hm
              simp only [Nat.zero_add] at this
              refine ⟨this.1, ?_⟩
              intro pc hpc
              obtain ⟨m', ha, hm'⟩ := this.2 pc hpc
              refine ⟨m', hm', ?_⟩
              -- the piece is one of the value's pieces: well formed, of the members' index shape
              have hpcmem : pc ∈ unbind v (outShape b).length := by
                rcases lastPiece_cases (itemPositions x) (unbind v (outShape b).length) j hpl hnd with ⟨_, hnone⟩ | ⟨k, pc', _, h2, h3⟩
                · rw [hnone] at hpc; cases hpc
                · rw [h3] at hpc; injection hpc with hpc; subst hpc; exact List.mem_of_getElem? h2
              have hpp := hup pc hpcmem
              exact assign_ok_nth (m0 :: r0s) j (b ++ a) (shape m0) pc m m' hms hvr hwr' hpp.1
                (by rw [hpp.2, hshape_piece]) hm ha
        · simp [hpl] at hh2
theorem assign_ok_nth : ∀ (ms : List (NT O)) (i : Nat) (rix : List RIx) (s : Shape) (v m m' : NT O),
    (∀ y ∈ ms, wf y = true ∧ shape y = s ∧ allScalar y = true) → validIx rix s = true → WriteIx rix →
    wf v = true → shape v = outShape rix → ms[i]? = some m → assign m rix v = .ok m' → AssignOk m rix v m'
  | [], i, _, _, _, _, _, _, _, _, _, _, hm, _ => by simp at hm
  | m0 :: r, 0, rix, s, v, m, m', hms, hv, hwr, hwv, hsv, hm, ha => by
    simp only [List.getElem?_cons_zero, Option.some.injEq] at hm
    have h0 := hms m0 (by simp)
    have : AssignOk m0 rix v m' := assign_ok m0 rix v m' h0.1 h0.2.2 (by rw [h0.2.1]; exact hv) hwr hwv hsv (hm ▸ ha)
    exact hm ▸ this
  | m0 :: r, i + 1, rix, s, v, m, m', hms, hv, hwr, hwv, hsv, hm, ha => by
    simp only [List.getElem?_cons_succ] at hm
    exact assign_ok_nth r i rix s v m m' (fun y hy => hms y (by simp [hy])) hv hwr hwv hsv hm ha
end


theorem mem_coords : ∀ (s : Shape) (c : List Nat), inB c s = true → c ∈ coords s
  | [], [], _ => by simp [coords]
  | [], _ :: _, h => by simp [inB] at h
  | _ :: _, [], h => by simp [inB] at h
  | n :: s, i :: c, h => by
    simp only [inB, Bool.and_eq_true, decide_eq_true_eq] at h
    simp only [coords, List.mem_flatMap, List.mem_range, List.mem_map]
    exact ⟨i, h.1, c, mem_coords s c h.2, rfl⟩

/-- THE WRITE THEOREM for `_set_at_str` (non-tensor branch) -/
theorem setAt_ok [DecidableEq O] (r v r' : NT O) (rix : List RIx) (hw : wf r = true) (hp : posShape (shape r))
    (hv : validIx rix (shape r) = true) (hwr : WriteIx rix) (hwv : wf v = true) (hsv : shape v = outShape rix)
    (h : setAt r rix v = .ok r') :
    shape r' = shape r ∧ wf r' = true
    ∧ (∀ c' c, srcCoord rix c' = some c → getAt r' c = getAt v c')
    ∧ (∀ c, (∀ c', srcCoord rix c' ≠ some c) → getAt r' c = getAt r c) := by
  unfold setAt at h
  cases hcur : index r rix with
  | error e => simp [hcur] at h
  | ok cur =>
    simp only [hcur] at h
    by_cases hsame : sameContent cur v = true
    · simp only [hsame, ↓reduceIte] at h
      injection h with h
      subst h
      refine ⟨rfl, hw, ?_, fun _ _ => rfl⟩
      intro c' c hc
      have hget := index_getAt r rix cur hw hv hcur c'
      rw [hc] at hget
      simp only [Option.bind_some] at hget
      rw [← hget]
      -- the indexed part already holds the value
      simp only [sameContent, Bool.and_eq_true, decide_eq_true_eq, List.all_eq_true] at hsame
      have hin : inB c' (shape cur) = true := by
        rw [(index_shape r rix cur hw hv hcur).1, ← srcCoord_isSome, hc]; rfl
      exact hsame.2 c' (mem_coords _ _ hin)
    · simp only [hsame, Bool.false_eq_true, ↓reduceIte] at h
      have hsh := maybeToStack_shape r hw hp
      have hok := assign_ok (maybeToStack r) rix v r' (maybeToStack_wf r hw hp) (maybeToStack_allScalar r)
        (by rw [hsh]; exact hv) hwr hwv hsv h
      refine ⟨by rw [hok.shape', hsh], hok.wf', hok.written, ?_⟩
      intro c hfr
      rw [hok.frame c hfr, maybeToStack_getAt]


end NT
end TdVerif.C16
