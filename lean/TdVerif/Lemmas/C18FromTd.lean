/-
  the two Python set builders of Model/CheckKeys.lean produce the same list (`pySetComp_eq_pySet`), `pySet` is idempotent
  and commutes with filter; the `_from_tensordict` key validation agrees on both branches.
-/
import TdVerif.Lemmas.C18CheckKeys
import TdVerif.Model.FromTd

namespace TdVerif.CheckKeys

theorem pySet_filter (p : String → Bool) : ∀ l : List String, pySet (l.filter p) = (pySet l).filter p
  | [] => rfl
  | x :: xs => by
    by_cases hx : p x = true
    · simp only [List.filter_cons, hx, if_true, pySet, pySet_filter p xs, List.filter_filter]
      congr 1
      apply List.filter_congr
      intro y _; simp [Bool.and_comm]
    · have hx' : p x = false := by simpa using hx
      simp only [List.filter_cons, hx', pySet, List.filter_filter, Bool.false_eq_true, if_false]
      rw [pySet_filter p xs]
      apply List.filter_congr
      intro y _
      by_cases hy : y = x
      · subst hy; simp [hx']
      · simp [hy]

theorem pySet_idem : ∀ l : List String, pySet (pySet l) = pySet l
  | [] => rfl
  | x :: xs => by
    simp only [pySet, pySet_filter, pySet_idem xs, List.filter_filter]
    congr 1
    apply List.filter_congr
    intro y _; simp

theorem foldl_insert_eq (l : List String) : ∀ acc : List String,
    l.foldl (fun acc x => if x ∈ acc then acc else acc ++ [x]) acc = acc ++ (pySet l).filter (fun y => !acc.contains y) := by
  induction l with
  | nil => intro acc; simp [pySet]
  | cons x xs ih =>
    intro acc
    simp only [List.foldl_cons, pySet]
    by_cases hx : x ∈ acc
    · simp only [hx, if_true, ih acc, List.filter_cons, List.contains_eq_mem, decide_true, Bool.not_true,
        Bool.false_eq_true, if_false, List.filter_filter]
      congr 1
      apply List.filter_congr
      intro y _
      by_cases hy : y = x
      · subst hy; simp [hx]
      · simp [hy]
    · simp only [hx, if_false, ih (acc ++ [x]), List.filter_cons, List.contains_eq_mem, decide_false, Bool.not_false,
        if_true, List.filter_filter, List.append_assoc, List.singleton_append]
      congr 2
      apply List.filter_congr
      intro y _
      simp only [List.mem_append, List.mem_singleton, decide_not, Bool.decide_or, Bool.not_or, Bool.and_comm]

/-- the two set builders produce the same list (first occurrences, in order) -/
theorem pySetComp_eq_pySet (l : List String) : pySetComp l = pySet l := by
  unfold pySetComp
  rw [foldl_insert_eq]
  simp

end TdVerif.CheckKeys

namespace TdVerif.FromTd
open TdVerif.CheckKeys

theorem from_td_agree (tkeys exp : List String) (nt : Option (List (String × Bool))) :
    fromTdCompile tkeys exp nt = fromTdEager tkeys exp nt := by
  unfold fromTdCompile fromTdEager
  simp only [pySetComp_eq_pySet, pySet_idem]

theorem loop_keeps (tk : List String) : ∀ (ntk : List String) (d d' : List (String × Bool)),
    loop tk ntk d = some d' → ∀ kv ∈ d, kv.1 ∉ tk → kv ∈ d'
  | [], d, d', h => by simp [loop] at h; subst h; intro kv hkv _; exact hkv
  | k :: rest, d, d', h => by
    intro kv hkv hnot
    simp only [loop] at h
    by_cases hk : tk.contains k = true
    · simp only [hk, Bool.not_true, Bool.false_eq_true, if_false] at h
      by_cases hl : lookupNT d k = some true
      · simp only [hl, if_true] at h
        refine loop_keeps tk rest _ d' h kv ?_ hnot
        simp only [List.mem_filter, hkv, true_and, decide_eq_true_eq]
        intro he; apply hnot; rw [he]; simpa using hk
      · simp [hl] at h
    · have hk' : tk.contains k = false := by simpa using hk
      simp only [hk', Bool.not_false, if_true] at h
      exact loop_keeps tk rest d d' h kv hkv hnot

/-- an accepted call accounts for every field of the class: it is a tensor entry or it has a non-tensor binding -/
theorem from_td_ok_covers (tkeys exp : List String) (nt : Option (List (String × Bool))) (d' : List (String × Bool))
    (h : fromTdEager tkeys exp nt = .ok d') : ∀ k ∈ exp, k ∈ tkeys ∨ k ∈ d'.map (·.1) := by
  intro k hk
  by_cases hkt : k ∈ tkeys
  · exact .inl hkt
  · right
    have hktk : k ∉ pySet tkeys := by rwa [mem_pySet]
    have hkek : k ∈ pySet exp := by rwa [mem_pySet]
    unfold fromTdEager at h
    cases nt with
    | none =>
      simp only [finishFT, loop] at h
      split at h
      · cases h
      · simp only [Out.ok.injEq] at h
        subst h
        simp only [List.nil_append, List.map_map, List.mem_map, List.mem_filter, Function.comp]
        exact ⟨k, ⟨hkek, by simpa using hktk⟩, rfl⟩
    | some d =>
      simp only [finishFT] at h
      cases hl : loop (pySet tkeys) (pySet (d.map (·.1))) d with
      | none => simp [hl] at h
      | some dl =>
        simp only [hl] at h
        split at h
        · cases h
        · simp only [Out.ok.injEq] at h
          subst h
          simp only [List.map_append, List.mem_append, List.map_map, List.mem_map, List.mem_filter, Function.comp]
          by_cases hkd : k ∈ d.map (·.1)
          · left
            obtain ⟨kv, hkv, hkve⟩ := List.mem_map.1 hkd
            exact ⟨kv, loop_keeps _ _ d dl hl kv hkv (by rw [hkve]; exact hktk), hkve⟩
          · right
            refine ⟨k, ⟨hkek, ?_⟩, rfl⟩
            simp only [pyUnion, List.contains_eq_mem, List.mem_append, List.mem_filter, mem_pySet, Bool.not_eq_true', decide_eq_false_iff_not, not_or, not_and]
            exact ⟨hkt, fun h1 _ => absurd h1 hkd⟩

end TdVerif.FromTd
