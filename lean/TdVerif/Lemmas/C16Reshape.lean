/-
  C16 — reshape family on the representation: flatten of consecutive dims (repeated unbind), unflatten (repeated chunk),
  general reshape through the flat stack; all related to the row-major rank `ravel`.
-/
import TdVerif.Lemmas.C16Permute

namespace TdVerif.C16
namespace NT
variable {O : Type}

/-! list facts -/

theorem flatMap_uniform {α β : Type} (f : α → List β) (n : Nat) : ∀ (l : List α), (∀ x ∈ l, (f x).length = n) →
    (l.flatMap f).length = l.length * n
    ∧ ∀ (q p : Nat), p < n → (l.flatMap f)[q * n + p]? = (l[q]?).bind (fun x => (f x)[p]?)
  | [], _ => by simp
  | x :: l, h => by
    have hx : (f x).length = n := h x (by simp)
    obtain ⟨ihl, ihg⟩ := flatMap_uniform f n l (fun y hy => h y (by simp [hy]))
    refine ⟨by simp [List.flatMap_cons, hx, ihl, Nat.succ_mul, Nat.add_comm], ?_⟩
    intro q p hp
    rw [List.flatMap_cons]
    cases q with
    | zero =>
      simp only [Nat.zero_mul, Nat.zero_add, List.getElem?_cons_zero, Option.bind_some]
      rw [List.getElem?_append_left (by rw [hx]; exact hp)]
    | succ q =>
      have e : (q + 1) * n + p = (f x).length + (q * n + p) := by
        rw [hx, Nat.succ_mul]; omega
      rw [e, List.getElem?_append_right (by omega)]
      simp only [Nat.add_sub_cancel_left, List.getElem?_cons_succ]
      exact ihg q p hp

theorem mem_flatMap_of {α β : Type} (f : α → List β) (l : List α) (y : β) (h : y ∈ l.flatMap f) : ∃ x ∈ l, y ∈ f x := by
  simpa [List.mem_flatMap] using h

theorem take_succ_drop (s : Shape) (i m : Nat) (hi : i < s.length) :
    (s.drop i).take (m + 1) = s.getD i 0 :: ((s.eraseIdx i).drop i).take m := by
  induction s generalizing i with
  | nil => simp at hi
  | cons a s ih =>
    cases i with
    | zero => simp
    | succ i =>
      simp only [List.length_cons, Nat.add_lt_add_iff_right] at hi
      simpa using ih i hi

theorem take_drop_eraseIdx (s : Shape) (i m : Nat) (hi : i < s.length) :
    (s.eraseIdx i).take i ++ (s.eraseIdx i).drop (i + m) = s.take i ++ s.drop (i + (m + 1)) := by
  induction s generalizing i with
  | nil => simp at hi
  | cons a s ih =>
    cases i with
    | zero => simp [Nat.add_comm]
    | succ i =>
      simp only [List.length_cons, Nat.add_lt_add_iff_right] at hi
      have := ih i hi
      simp only [List.eraseIdx_cons_succ, List.take_succ_cons, List.cons_append, List.cons.injEq, true_and]
      have e1 : i + 1 + m = (i + m) + 1 := by omega
      have e2 : i + 1 + (m + 1) = (i + (m + 1)) + 1 := by omega
      rw [e1, e2, List.drop_succ_cons, List.drop_succ_cons]
      exact this

theorem inB_cons_iff (p : Nat) (c : List Nat) (n : Nat) (s : Shape) :
    inB (p :: c) (n :: s) = true ↔ p < n ∧ inB c s = true := by
  simp [inB]

theorem inB_nil_left (s : Shape) : inB [] s = true ↔ s = [] := by
  cases s <;> simp [inB]

/-! flatten -/

/-- what the unbind loop of the flatten branch produces: `m` dims starting at `i` opened, row-major -/
theorem unbindLevels_spec : ∀ (m : Nat) (tds : List (NT O)) (i : Nat) (s : Shape),
    (∀ t ∈ tds, wf t = true ∧ shape t = s) → i + m ≤ s.length →
    (unbindLevels m tds i).length = tds.length * prodL ((s.drop i).take m)
    ∧ (∀ t ∈ unbindLevels m tds i, wf t = true ∧ shape t = s.take i ++ s.drop (i + m))
    ∧ ∀ (q : Nat) (mid c : List Nat), inB mid ((s.drop i).take m) = true → c.length + m = s.length →
        ((unbindLevels m tds i)[q * prodL ((s.drop i).take m) + ravel mid ((s.drop i).take m)]?).bind (fun t => getAt t c)
          = (tds[q]?).bind (fun t => getAt t (c.take i ++ mid ++ c.drop i))
  | 0, tds, i, s, hts, _ => by
    simp only [unbindLevels, List.take_zero, prodL, Nat.mul_one, Nat.add_zero]
    refine ⟨trivial, ?_, ?_⟩
    · intro t ht
      exact ⟨(hts t ht).1, by rw [(hts t ht).2, List.take_append_drop]⟩
    · intro q mid c hmid _
      have : mid = [] := by cases mid <;> simp_all [inB]
      subst this
      simp [ravel, List.take_append_drop]
  | m + 1, tds, i, s, hts, him => by
    have hi : i < s.length := by omega
    -- one level of unbinding
    have hub : ∀ t ∈ tds, UnbindOk t i := fun t ht => unbind_spec t i (hts t ht).1 (by rw [(hts t ht).2]; exact hi)
    have hlen : ∀ t ∈ tds, (unbind t i).length = s.getD i 0 := by
      intro t ht; rw [(hub t ht).1, (hts t ht).2]
    obtain ⟨hfl, hfg⟩ := flatMap_uniform (fun t => unbind t i) (s.getD i 0) tds hlen
    have hts' : ∀ t ∈ tds.flatMap (fun t => unbind t i), wf t = true ∧ shape t = s.eraseIdx i := by
      intro y hy
      obtain ⟨t, ht, hyt⟩ := mem_flatMap_of _ _ _ hy
      have := (hub t ht).2.1 y hyt
      rw [(hts t ht).2] at this
      exact this
    have him' : i + m ≤ (s.eraseIdx i).length := by rw [List.length_eraseIdx, if_pos hi]; omega
    obtain ⟨ihl, ihs, ihg⟩ := unbindLevels_spec m (tds.flatMap (fun t => unbind t i)) i (s.eraseIdx i) hts' him'
    have hdims := take_succ_drop s i m hi
    simp only [unbindLevels]
    rw [hdims]
    simp only [prodL]
    refine ⟨?_, ?_, ?_⟩
    · rw [ihl, hfl, Nat.mul_assoc]
    · intro t ht
      have := ihs t ht
      rw [take_drop_eraseIdx s i m hi] at this
      exact this
    · intro q mid c hmid hc
      cases mid with
      | nil => simp [inB] at hmid
      | cons p mid' =>
        obtain ⟨hp, hmid'⟩ := (inB_cons_iff p mid' _ _).mp hmid
        have hcl : c.length + m = (s.eraseIdx i).length := by rw [List.length_eraseIdx, if_pos hi]; omega
        have key := ihg (q * s.getD i 0 + p) mid' c hmid' hcl
        have eidx : q * (s.getD i 0 * prodL (((s.eraseIdx i).drop i).take m)) + ravel (p :: mid') (s.getD i 0 :: ((s.eraseIdx i).drop i).take m)
            = (q * s.getD i 0 + p) * prodL (((s.eraseIdx i).drop i).take m) + ravel mid' (((s.eraseIdx i).drop i).take m) := by
          simp only [ravel]
          rw [Nat.add_mul, Nat.mul_assoc, Nat.add_assoc]
        rw [eidx, key, hfg q p hp]
        cases hq : tds[q]? with
        | none => simp
        | some t =>
          simp only [Option.bind_some]
          have ht : t ∈ tds := List.mem_of_getElem? hq
          have hml : mid'.length = m := by
            have := inB_length hmid'
            rw [this, List.length_take, List.length_drop, List.length_eraseIdx, if_pos hi]; omega
          have hc2 : (c.take i ++ mid' ++ c.drop i).length + 1 = (shape t).length := by
            rw [(hts t ht).2]
            simp only [List.length_append, List.length_take, List.length_drop]
            omega
          rw [(hub t ht).2.2 p _ hc2]
          congr 1
          have hti : (c.take i).length = i := by rw [List.length_take]; omega
          have := insertIdx_append_mid (c.take i) (mid' ++ c.drop i) p
          rw [hti] at this
          rw [List.append_assoc, this]
          simp

/-- what flattening the dims `i … j` promises -/
def FlattenOk (r : NT O) (i j : Nat) : Prop :=
  wf (flattenDims r i j) = true
  ∧ shape (flattenDims r i j) = (shape r).take i ++ prodL (((shape r).drop i).take (j + 1 - i)) :: (shape r).drop (j + 1)
  ∧ ∀ (pre mid post : List Nat), pre.length = i → inB mid (((shape r).drop i).take (j + 1 - i)) = true →
      (pre ++ mid ++ post).length = (shape r).length →
      getAt (flattenDims r i j) (pre ++ ravel mid (((shape r).drop i).take (j + 1 - i)) :: post) = getAt r (pre ++ mid ++ post)

theorem flatten_spec (r : NT O) (i j : Nat) (hw : wf r = true) (hij : i ≤ j) (hj : j < (shape r).length)
    (hpos : 0 < prodL (((shape r).drop i).take (j + 1 - i))) : FlattenOk r i j := by
  have hm : i + (j + 1 - i) ≤ (shape r).length := by omega
  obtain ⟨hl, hs, hg⟩ := unbindLevels_spec (j + 1 - i) [r] i (shape r) (by intro t ht; simp at ht; subst ht; exact ⟨hw, rfl⟩) hm
  simp only [List.length_cons, List.length_nil, Nat.zero_add, Nat.one_mul] at hl
  have hne : unbindLevels (j + 1 - i) [r] i ≠ [] := by
    intro h; rw [h] at hl; simp at hl; omega
  have hti : ((shape r).take i).length = i := by rw [List.length_take]; omega
  obtain ⟨hw1, hs1⟩ := wf_stack_intro _ i _ hne (by rw [List.length_append, hti]; omega) hs
  have hij1 : i + (j + 1 - i) = j + 1 := by omega
  unfold FlattenOk flattenDims
  refine ⟨hw1, ?_, ?_⟩
  · rw [hs1, hl]
    have := insertIdx_append_mid ((shape r).take i) ((shape r).drop (i + (j + 1 - i))) (prodL (((shape r).drop i).take (j + 1 - i)))
    rw [hti] at this
    rw [this, hij1]
  · intro pre mid post hpre hmid hlen
    rw [getAt_stack]
    have h1 : (pre ++ ravel mid (((shape r).drop i).take (j + 1 - i)) :: post)[i]?
        = some (ravel mid (((shape r).drop i).take (j + 1 - i))) := by
      rw [List.getElem?_append_right (by omega)]; simp [hpre]
    have h2 : (pre ++ ravel mid (((shape r).drop i).take (j + 1 - i)) :: post).eraseIdx i = pre ++ post := by
      rw [List.eraseIdx_append_of_length_le (by omega)]; simp [hpre]
    rw [h1, h2]
    simp only [Option.bind_some]
    have hml : mid.length = j + 1 - i := by
      rw [inB_length hmid, List.length_take, List.length_drop]; omega
    have hcl : (pre ++ post).length + (j + 1 - i) = (shape r).length := by
      simp only [List.length_append] at hlen ⊢; omega
    have := hg 0 mid (pre ++ post) hmid hcl
    simp only [Nat.zero_mul, Nat.zero_add, List.getElem?_cons_zero, Option.bind_some] at this
    rw [this]
    congr 1
    rw [← hpre]; simp

/-! the transposed re-stack used by `unbind` / `split` along a dim that is not the stack dim -/

theorem restack_spec (ms : List (NT O)) (f : NT O → List (NT O)) (cnt sd : Nat) (hne : ms ≠ [])
    (hcnt : ∀ m ∈ ms, (f m).length = cnt) :
    ((transposeLists (ms.map f)).map (fun vals => NT.stack vals sd)).length = cnt
    ∧ ∀ (p : Nat), p < cnt → ∃ col : List (NT O),
        ((transposeLists (ms.map f)).map (fun vals => NT.stack vals sd))[p]? = some (.stack col sd)
        ∧ col.length = ms.length ∧ ∀ (k : Nat), col[k]? = (ms[k]?).bind (fun m => (f m)[p]?) := by
  have hk : ∀ row ∈ ms.map f, row.length = cnt := by
    intro row hrow
    obtain ⟨m, hm, rfl⟩ := List.mem_map.mp hrow
    exact hcnt m hm
  have hrows : ms.map f ≠ [] := by simpa using hne
  obtain ⟨hlen, hel⟩ := transposeLists_spec _ _ hk hrows
  refine ⟨by rw [List.length_map, hlen], ?_⟩
  intro p hp
  have hpl : p < (transposeLists (ms.map f)).length := by rw [hlen]; exact hp
  refine ⟨(transposeLists (ms.map f))[p], by rw [List.getElem?_map, List.getElem?_eq_getElem hpl]; rfl, ?_⟩
  have hcolel : ∀ (k : Nat), ((transposeLists (ms.map f))[p])[k]? = (ms[k]?).bind (fun m => (f m)[p]?) := by
    intro k
    have := hel p k
    rw [List.getElem?_eq_getElem hpl, List.getElem?_map] at this
    simp only [Option.bind_some] at this
    rw [this]
    cases ms[k]? <;> simp
  refine ⟨?_, hcolel⟩
  apply Nat.le_antisymm
  · apply Nat.le_of_not_lt
    intro hlt
    have h1 := hcolel ms.length
    rw [List.getElem?_eq_getElem (by omega)] at h1
    simp at h1
  · apply Nat.le_of_not_lt
    intro hlt
    have h1 := hcolel ((transposeLists (ms.map f))[p]).length
    rw [List.getElem?_eq_none_iff.mpr (Nat.le_refl _), List.getElem?_eq_getElem hlt] at h1
    simp only [Option.bind_some] at h1
    have : p < (f ms[((transposeLists (ms.map f))[p]).length]).length := by
      rw [hcnt _ (List.getElem_mem hlt)]; exact hp
    rw [List.getElem?_eq_getElem this] at h1
    cases h1

theorem lt_ceilDiv_iff (len n p : Nat) (hn : 0 < n) : p < ceilDiv len n ↔ p * n < len := by
  unfold ceilDiv
  rw [Nat.lt_iff_add_one_le, Nat.le_div_iff_mul_le hn, Nat.succ_mul]
  omega

theorem splitList_eq_map : ∀ (ms : List (NT O)) (n d : Nat), splitList ms n d = ms.map (fun m => splitNT m n d)
  | [], _, _ => rfl
  | m :: r, n, d => by simp [splitList, splitList_eq_map r n d]

theorem set_insertIdx_self {α : Type} : ∀ (l : List α) (i : Nat) (a b : α), i ≤ l.length →
    (l.insertIdx i a).set i b = l.insertIdx i b
  | _, 0, _, _, _ => by simp
  | [], _ + 1, _, _, h => by simp at h
  | x :: l, i + 1, a, b, h => by
    simp only [List.length_cons, Nat.add_le_add_iff_right] at h
    simp [set_insertIdx_self l i a b h]

/-! split -/

/-- what `split(n, d)` promises (dims of positive size, `n > 0`): `ceil(len / n)` pieces, piece `p` has size
`min n (len - p n)` along `d` and shows the entry shifted by `p n` along `d` -/
def SplitOk (r : NT O) (n d : Nat) : Prop :=
  (splitNT r n d).length = ceilDiv ((shape r).getD d 0) n
  ∧ (∀ (p : Nat), p < ceilDiv ((shape r).getD d 0) n → ∃ t, (splitNT r n d)[p]? = some t ∧ wf t = true
      ∧ shape t = (shape r).set d (min n ((shape r).getD d 0 - p * n)))
  ∧ ∀ (p : Nat) (c : List Nat), c.length = (shape r).length →
      ((splitNT r n d)[p]?).bind (fun t => getAt t c)
        = if c.getD d 0 < n then getAt r (c.set d (c.getD d 0 + p * n)) else none

theorem getD_set_self (l : List Nat) (d v : Nat) (hd : d < l.length) : (l.set d v).getD d 0 = v := by
  simp [List.getD_eq_getElem?_getD, List.getElem?_set, hd]

theorem getD_set_ne (l : List Nat) (d k v : Nat) (hk : k ≠ d) : (l.set d v).getD k 0 = l.getD k 0 := by
  simp [List.getD_eq_getElem?_getD, List.getElem?_set, Ne.symm hk]

theorem inB_set_piece (s c : List Nat) (d n p : Nat) (hd : d < s.length) (hc : c.length = s.length) (hn : 0 < n) :
    (p < ceilDiv (s.getD d 0) n ∧ inB c (s.set d (min n (s.getD d 0 - p * n))) = true)
      ↔ (c.getD d 0 < n ∧ inB (c.set d (c.getD d 0 + p * n)) s = true) := by
  rw [inB_iff, inB_iff, lt_ceilDiv_iff _ _ _ hn]
  simp only [List.length_set, hc, true_and]
  constructor
  · rintro ⟨hp, h⟩
    have hdd := h d hd
    rw [getD_set_self s d _ hd] at hdd
    refine ⟨by omega, ?_⟩
    intro k hk
    by_cases hkd : k = d
    · subst hkd
      rw [getD_set_self c k _ (by omega)]; omega
    · rw [getD_set_ne c d k _ hkd]
      have := h k hk
      rwa [getD_set_ne s d k _ hkd] at this
  · rintro ⟨hlt, h⟩
    have hdd := h d hd
    rw [getD_set_self c d _ (by omega)] at hdd
    refine ⟨by omega, ?_⟩
    intro k hk
    by_cases hkd : k = d
    · subst hkd
      rw [getD_set_self s k _ hd]; omega
    · rw [getD_set_ne s d k _ hkd]
      have := h k hk
      rwa [getD_set_ne c d k _ hkd] at this

theorem getElem?_range_map {β : Type} (g : Nat → β) (cnt p : Nat) :
    ((List.range cnt).map g)[p]? = if p < cnt then some (g p) else none := by
  rw [List.getElem?_map]
  by_cases h : p < cnt
  · simp [h, List.getElem?_range h]
  · have : (List.range cnt)[p]? = none := by rw [List.getElem?_eq_none_iff, List.length_range]; omega
    simp [h, this]

theorem getD_eraseIdx_other (c : List Nat) (d sd : Nat) (h : d ≠ sd) :
    (c.eraseIdx sd).getD (if d < sd then d else d - 1) 0 = c.getD d 0 := by
  simp only [List.getD_eq_getElem?_getD, List.getElem?_eraseIdx]
  by_cases h1 : d < sd
  · simp [h1]
  · have h2 : ¬ d - 1 < sd := by omega
    have e : d - 1 + 1 = d := by omega
    simp [h1, h2, e]

theorem set_eraseIdx_other (c : List Nat) (d sd v : Nat) (h : d ≠ sd) :
    (c.set d v).eraseIdx sd = (c.eraseIdx sd).set (if d < sd then d else d - 1) v := by
  by_cases h1 : d < sd
  · simp only [h1, if_true]
    exact List.eraseIdx_set_gt h1
  · simp only [h1, if_false]
    exact List.eraseIdx_set_lt (by omega)

theorem insertIdx_set_lt {α : Type} : ∀ (S : List α) (d sd : Nat) (v L : α), d < sd → sd ≤ S.length →
    (S.set d v).insertIdx sd L = (S.insertIdx sd L).set d v
  | [], _, sd, _, _, h1, h2 => by simp at h2; omega
  | x :: S, d, 0, _, _, h1, _ => by omega
  | x :: S, 0, sd + 1, v, L, _, _ => by simp
  | x :: S, d + 1, sd + 1, v, L, h1, h2 => by
    simp only [List.length_cons, Nat.add_le_add_iff_right] at h2
    simp [insertIdx_set_lt S d sd v L (by omega) h2]

theorem insertIdx_set_ge {α : Type} : ∀ (S : List α) (d sd : Nat) (v L : α), sd ≤ d → d < S.length →
    (S.set d v).insertIdx sd L = (S.insertIdx sd L).set (d + 1) v
  | [], _, _, _, _, _, h2 => by simp at h2
  | x :: S, d, 0, v, L, _, _ => by simp
  | x :: S, 0, sd + 1, _, _, h1, _ => by omega
  | x :: S, d + 1, sd + 1, v, L, h1, h2 => by
    simp only [List.length_cons, Nat.add_lt_add_iff_right] at h2
    simp [insertIdx_set_ge S d sd v L (by omega) h2]

theorem insertIdx_set_other {α : Type} (S : List α) (d sd : Nat) (v L : α) (h : d ≠ sd) (hsd : sd ≤ S.length)
    (hsub : (if d < sd then d else d - 1) < S.length) :
    (S.set (if d < sd then d else d - 1) v).insertIdx sd L = (S.insertIdx sd L).set d v := by
  by_cases h1 : d < sd
  · simp only [h1, if_true] at hsub ⊢
    exact insertIdx_set_lt S d sd v L h1 hsd
  · simp only [h1, if_false] at hsub ⊢
    have := insertIdx_set_ge S (d - 1) sd v L (by omega) hsub
    have e : d - 1 + 1 = d := by omega
    rwa [e] at this

theorem getElem?_of_lt_getD (c : List Nat) (d : Nat) (h : d < c.length) : c[d]? = some (c.getD d 0) := by
  simp [List.getD_eq_getElem?_getD, List.getElem?_eq_getElem h]

mutual
theorem split_spec : ∀ (r : NT O) (n d : Nat), wf r = true → d < (shape r).length → 0 < n → SplitOk r n d
  | .shared o s, n, d, _, hd, hn => by
    simp only [shape] at hd
    unfold SplitOk
    simp only [splitNT, shape]
    refine ⟨by simp, ?_, ?_⟩
    · intro p hp
      exact ⟨_, by rw [getElem?_range_map, if_pos hp], rfl, rfl⟩
    · intro p c hc
      rw [getElem?_range_map]
      have key := inB_set_piece s c d n p hd hc hn
      by_cases hp : p < ceilDiv (s.getD d 0) n
      · rw [if_pos hp, Option.bind_some, getAt_shared]
        by_cases hin : inB c (s.set d (min n (s.getD d 0 - p * n))) = true
        · obtain ⟨h1, h2⟩ := key.mp ⟨hp, hin⟩
          rw [if_pos hin, if_pos h1, getAt_shared, if_pos h2]
        · rw [if_neg hin]
          by_cases h1 : c.getD d 0 < n
          · rw [if_pos h1, getAt_shared]
            have h2 : ¬ inB (c.set d (c.getD d 0 + p * n)) s = true := fun h => hin (key.mpr ⟨h1, h⟩).2
            rw [if_neg h2]
          · rw [if_neg h1]
      · rw [if_neg hp, Option.bind_none]
        by_cases h1 : c.getD d 0 < n
        · rw [if_pos h1, getAt_shared]
          have h2 : ¬ inB (c.set d (c.getD d 0 + p * n)) s = true := fun h => hp (key.mpr ⟨h1, h⟩).1
          rw [if_neg h2]
        · rw [if_neg h1]
  | .stack ms sd, n, d, hw, hd, hn => by
    obtain ⟨m0, r0, rfl, hsd, hmem⟩ := wf_stack hw
    rw [shape_stack_cons] at hd
    have hrank : ((shape m0).insertIdx sd (r0.length + 1)).length = (shape m0).length + 1 :=
      List.length_insertIdx_of_le_length hsd _
    unfold SplitOk
    rw [shape_stack_cons]
    by_cases hdd : d = sd
    · -- along the stack dim: slices of the member list
      subst hdd
      have hlen : ((shape m0).insertIdx d (r0.length + 1)).getD d 0 = (m0 :: r0).length := by
        simp [List.getD_eq_getElem?_getD, List.getElem?_insertIdx_self, hsd]
      have hsp : splitNT (.stack (m0 :: r0) d) n d
          = (List.range (ceilDiv (m0 :: r0).length n)).map (fun p => NT.stack (((m0 :: r0).drop (p * n)).take n) d) := by
        simp [splitNT]
      rw [hsp, hlen]
      refine ⟨by simp, ?_, ?_⟩
      · intro p hp
        refine ⟨_, by rw [getElem?_range_map, if_pos hp], ?_⟩
        have hpn : p * n < (m0 :: r0).length := (lt_ceilDiv_iff _ _ _ hn).mp hp
        have hne : ((m0 :: r0).drop (p * n)).take n ≠ [] := by
          intro h
          have := congrArg List.length h
          rw [List.length_take, List.length_drop] at this
          simp only [List.length_nil] at this
          omega
        have hsub : ∀ m ∈ ((m0 :: r0).drop (p * n)).take n, wf m = true ∧ shape m = shape m0 := by
          intro m hm
          exact hmem m (List.mem_of_mem_drop (List.mem_of_mem_take hm))
        obtain ⟨hw1, hs1⟩ := wf_stack_intro _ d (shape m0) hne hsd hsub
        refine ⟨hw1, ?_⟩
        rw [hs1, set_insertIdx_self _ _ _ _ hsd, List.length_take, List.length_drop]
      · intro p c hc
        rw [hrank] at hc
        rw [getElem?_range_map]
        have hdc : d < c.length := by omega
        have hcd := getElem?_of_lt_getD c d hdc
        by_cases hk : c.getD d 0 < n
        · rw [if_pos hk, getAt_stack, List.getElem?_set, if_pos rfl, if_pos hdc, List.eraseIdx_set_eq, Option.bind_some]
          by_cases hp : p < ceilDiv (m0 :: r0).length n
          · rw [if_pos hp, Option.bind_some, getAt_stack, hcd, Option.bind_some, List.getElem?_take, if_pos hk,
              List.getElem?_drop, Nat.add_comm]
          · rw [if_neg hp, Option.bind_none]
            have hpn : ¬ p * n < (m0 :: r0).length := fun h => hp ((lt_ceilDiv_iff _ _ _ hn).mpr h)
            have : (m0 :: r0)[c.getD d 0 + p * n]? = none := by
              rw [List.getElem?_eq_none_iff]; omega
            rw [this]; rfl
        · rw [if_neg hk]
          by_cases hp : p < ceilDiv (m0 :: r0).length n
          · rw [if_pos hp, Option.bind_some, getAt_stack, hcd, Option.bind_some, List.getElem?_take, if_neg hk]
            rfl
          · rw [if_neg hp, Option.bind_none]
    · -- along another dim: re-stack the members' pieces
      have hsubrank : (if d < sd then d else d - 1) < (shape m0).length := by
        rw [hrank] at hd
        split <;> omega
      have hok : ∀ m ∈ m0 :: r0, SplitOk m n (if d < sd then d else d - 1) := by
        intro m hm
        have := hmem m hm
        exact split_members (m0 :: r0) n _ m hm this.1 (by rw [this.2]; exact hsubrank) hn
      have hgetD : ((shape m0).insertIdx sd (r0.length + 1)).getD d 0 = (shape m0).getD (if d < sd then d else d - 1) 0 := by
        simp only [List.getD_eq_getElem?_getD, List.getElem?_insertIdx]
        by_cases h1 : d < sd
        · simp [h1]
        · simp [h1, hdd]
      have hcnt : ∀ m ∈ m0 :: r0, (splitNT m n (if d < sd then d else d - 1)).length
          = ceilDiv ((shape m0).getD (if d < sd then d else d - 1) 0) n := by
        intro m hm
        rw [(hok m hm).1, (hmem m hm).2]
      have hsp : splitNT (.stack (m0 :: r0) sd) n d
          = (transposeLists ((m0 :: r0).map (fun m => splitNT m n (if d < sd then d else d - 1)))).map (fun vals => NT.stack vals sd) := by
        simp only [splitNT, hdd, if_false]
        rw [splitList_eq_map]
      obtain ⟨hl, hcols⟩ := restack_spec (m0 :: r0) (fun m => splitNT m n (if d < sd then d else d - 1)) _ sd (by simp) hcnt
      rw [hsp, hgetD]
      refine ⟨hl, ?_, ?_⟩
      · intro p hp
        obtain ⟨col, hcol, hcl, hck⟩ := hcols p hp
        refine ⟨_, hcol, ?_⟩
        have hne : col ≠ [] := by
          intro h; rw [h] at hcl; simp at hcl
        have hmemc : ∀ y ∈ col, wf y = true ∧ shape y = (shape m0).set (if d < sd then d else d - 1)
            (min n ((shape m0).getD (if d < sd then d else d - 1) 0 - p * n)) := by
          intro y hy
          obtain ⟨k, hk⟩ := List.getElem?_of_mem hy
          rw [hck k] at hk
          cases hmk : (m0 :: r0)[k]? with
          | none => rw [hmk] at hk; simp at hk
          | some m =>
            rw [hmk] at hk
            simp only [Option.bind_some] at hk
            have hm : m ∈ m0 :: r0 := List.mem_of_getElem? hmk
            obtain ⟨t, ht, hwt, hst⟩ := (hok m hm).2.1 p (by rw [(hmem m hm).2]; exact hp)
            rw [ht] at hk
            cases hk
            exact ⟨hwt, by rw [hst, (hmem m hm).2]⟩
        obtain ⟨hw1, hs1⟩ := wf_stack_intro col sd _ hne (by rw [List.length_set]; exact hsd) hmemc
        refine ⟨hw1, ?_⟩
        rw [hs1, hcl]
        exact insertIdx_set_other (shape m0) d sd _ _ hdd hsd hsubrank
      · intro p c hc
        rw [hrank] at hc
        have hsdc : sd < c.length := by omega
        have hcsd := getElem?_of_lt_getD c sd hsdc
        have hcsub := getD_eraseIdx_other c d sd hdd
        have hset := set_eraseIdx_other c d sd (c.getD d 0 + p * n) hdd
        have hne' : ¬ d = sd := hdd
        -- the right-hand side, member by member
        have hrhs : (if c.getD d 0 < n then getAt (.stack (m0 :: r0) sd) (c.set d (c.getD d 0 + p * n)) else none)
            = ((m0 :: r0)[c.getD sd 0]?).bind (fun m => ((splitNT m n (if d < sd then d else d - 1))[p]?).bind
                (fun t => getAt t (c.eraseIdx sd))) := by
          cases hmk : (m0 :: r0)[c.getD sd 0]? with
          | none =>
            rw [Option.bind_none]
            by_cases hk : c.getD d 0 < n
            · rw [if_pos hk, getAt_stack, List.getElem?_set, if_neg hne', hcsd, Option.bind_some, hmk, Option.bind_none]
            · rw [if_neg hk]
          | some m =>
            rw [Option.bind_some]
            have hm : m ∈ m0 :: r0 := List.mem_of_getElem? hmk
            have hcl' : (c.eraseIdx sd).length = (shape m).length := by
              rw [(hmem m hm).2, List.length_eraseIdx, if_pos hsdc]; omega
            rw [(hok m hm).2.2 p (c.eraseIdx sd) hcl', hcsub]
            by_cases hk : c.getD d 0 < n
            · rw [if_pos hk, if_pos hk, getAt_stack, List.getElem?_set, if_neg hne', hcsd, Option.bind_some, hmk,
                Option.bind_some, hset]
            · rw [if_neg hk, if_neg hk]
        rw [hrhs]
        by_cases hp : p < ceilDiv ((shape m0).getD (if d < sd then d else d - 1) 0) n
        · obtain ⟨col, hcol, hcl, hck⟩ := hcols p hp
          rw [hcol, Option.bind_some, getAt_stack, hcsd, Option.bind_some, hck]
          cases (m0 :: r0)[c.getD sd 0]? <;> rfl
        · have hnone : ((transposeLists ((m0 :: r0).map (fun m => splitNT m n (if d < sd then d else d - 1)))).map
              (fun vals => NT.stack vals sd))[p]? = none := by
            rw [List.getElem?_eq_none_iff, hl]; omega
          rw [hnone, Option.bind_none]
          cases hmk : (m0 :: r0)[c.getD sd 0]? with
          | none => rfl
          | some m =>
            rw [Option.bind_some]
            have hm : m ∈ m0 :: r0 := List.mem_of_getElem? hmk
            have : (splitNT m n (if d < sd then d else d - 1))[p]? = none := by
              rw [List.getElem?_eq_none_iff, hcnt m hm]; omega
            rw [this]; rfl

theorem split_members : ∀ (ms : List (NT O)) (n d : Nat) (m : NT O), m ∈ ms → wf m = true →
    d < (shape m).length → 0 < n → SplitOk m n d
  | [], _, _, m, hm, _, _, _ => by simp at hm
  | m0 :: r, n, d, m, hm, hw, hd, hn => by
    rcases List.mem_cons.mp hm with h | h
    · have : SplitOk m0 n d := split_spec m0 n d (h ▸ hw) (h ▸ hd) hn
      exact h ▸ this
    · exact split_members r n d m h hw hd hn
end

/-! unflatten -/

theorem set_append_cons {α : Type} : ∀ (pre post : List α) (q v : α), (pre ++ q :: post).set pre.length v = pre ++ v :: post
  | [], _, _, _ => rfl
  | x :: pre, post, q, v => by simp [set_append_cons pre post q v]

theorem take_len_add_append {α : Type} : ∀ (A l : List α) (m : Nat), (A ++ l).take (A.length + m) = A ++ l.take m
  | [], l, m => by simp
  | x :: A, l, m => by
    have e : (x :: A).length + m = (A.length + m) + 1 := by simp; omega
    rw [e]; simp [take_len_add_append A l m]

theorem drop_len_add_append {α : Type} : ∀ (A l : List α) (m : Nat), (A ++ l).drop (A.length + m) = l.drop m
  | [], l, m => by simp
  | x :: A, l, m => by
    have e : (x :: A).length + m = (A.length + m) + 1 := by simp; omega
    rw [e]; simp [drop_len_add_append A l m]


theorem ceilDiv_mul_left (n R : Nat) (hn : 0 < n) : ceilDiv (n * R) n = R := by
  unfold ceilDiv
  apply Nat.div_eq_of_lt_le
  · rw [Nat.mul_comm]; omega
  · rw [Nat.succ_mul, Nat.mul_comm]; omega

theorem ceilDiv_mul_right (n R : Nat) (hR : 0 < R) : ceilDiv (n * R) R = n := by
  unfold ceilDiv
  apply Nat.div_eq_of_lt_le
  · omega
  · rw [Nat.succ_mul]; omega

theorem prodL_append : ∀ (a b : List Nat), prodL (a ++ b) = prodL a * prodL b
  | [], b => by simp [prodL]
  | x :: a, b => by simp [prodL, prodL_append a b, Nat.mul_assoc]

theorem ravel_lt : ∀ (c : List Nat) (s : Shape), inB c s = true → ravel c s < prodL s
  | [], [], _ => by simp [ravel, prodL]
  | [], _ :: _, h => by simp [inB] at h
  | _ :: _, [], h => by simp [inB] at h
  | p :: c, d :: s, h => by
    obtain ⟨hp, hc⟩ := (inB_cons_iff p c d s).mp h
    have ih := ravel_lt c s hc
    simp only [ravel, prodL]
    have : (p + 1) * prodL s ≤ d * prodL s := Nat.mul_le_mul_right _ hp
    rw [Nat.succ_mul] at this
    omega

/-- one step of the unflatten loop: dim `k` of size `n * R` becomes the two dims `n, R` -/
theorem chunk_stack_spec (r : NT O) (k n R : Nat) (hw : wf r = true) (hk : k < (shape r).length) (hn : 0 < n) (hR : 0 < R)
    (hlen : (shape r).getD k 0 = n * R) :
    wf (.stack (chunk r n k) k) = true
    ∧ shape (.stack (chunk r n k) k) = (shape r).take k ++ n :: R :: (shape r).drop (k + 1)
    ∧ ∀ (pre post : List Nat) (p q : Nat), pre.length = k → (pre ++ q :: post).length = (shape r).length → q < R →
        getAt (.stack (chunk r n k) k) (pre ++ p :: q :: post) = getAt r (pre ++ (p * R + q) :: post) := by
  have hch : chunk r n k = splitNT r R k := by
    unfold chunk; rw [hlen, ceilDiv_mul_left n R hn]
  obtain ⟨hl, hpieces, hget⟩ := split_spec r R k hw hk hR
  rw [hlen, ceilDiv_mul_right n R hR] at hl hpieces
  have hne : splitNT r R k ≠ [] := by
    intro h; rw [h] at hl; simp at hl; omega
  have hmem : ∀ t ∈ splitNT r R k, wf t = true ∧ shape t = (shape r).set k R := by
    intro t ht
    obtain ⟨p, hp⟩ := List.getElem?_of_mem ht
    have hpn : p < n := by
      have := (List.getElem?_eq_some_iff.mp hp).1
      omega
    obtain ⟨t', ht', hwt, hst⟩ := hpieces p hpn
    rw [hp] at ht'
    cases ht'
    refine ⟨hwt, ?_⟩
    rw [hst]
    have h1 : (p + 1) * R ≤ n * R := Nat.mul_le_mul_right _ hpn
    rw [Nat.succ_mul] at h1
    have : min R (n * R - p * R) = R := by omega
    rw [this]
  rw [hch]
  obtain ⟨hw1, hs1⟩ := wf_stack_intro _ k _ hne (by rw [List.length_set]; omega) hmem
  refine ⟨hw1, ?_, ?_⟩
  · rw [hs1, hl]
    -- (s.set k R).insertIdx k n = s.take k ++ n :: R :: s.drop (k+1)
    have e1 : (shape r).set k R = (shape r).take k ++ R :: (shape r).drop (k + 1) := by
      rw [List.set_eq_take_append_cons_drop, if_pos hk]
    have hti : ((shape r).take k).length = k := by rw [List.length_take]; omega
    have := insertIdx_append_mid ((shape r).take k) (R :: (shape r).drop (k + 1)) n
    rw [hti] at this
    rw [e1, this]
  · intro pre post p q hpre hlen' hq
    rw [getAt_stack]
    have h1 : (pre ++ p :: q :: post)[k]? = some p := by
      rw [List.getElem?_append_right (by omega)]; simp [hpre]
    have h2 : (pre ++ p :: q :: post).eraseIdx k = pre ++ q :: post := by
      rw [List.eraseIdx_append_of_length_le (by omega)]; simp [hpre]
    rw [h1, h2, Option.bind_some]
    have hgd : (pre ++ q :: post).getD k 0 = q := by
      rw [List.getD_eq_getElem?_getD, List.getElem?_append_right (by omega)]; simp [hpre]
    have := hget p (pre ++ q :: post) hlen'
    rw [hgd, if_pos hq] at this
    rw [this]
    congr 1
    rw [← hpre, set_append_cons, Nat.add_comm]

/-- what the unflatten loop promises: dim `k` of size `prodL sizes * R` becomes the dims `sizes ++ [R]`, row-major -/
theorem unflattenLoop_spec : ∀ (sizes : List Nat) (r : NT O) (k R : Nat), wf r = true → k < (shape r).length →
    (∀ n ∈ sizes, 0 < n) → 0 < R → (shape r).getD k 0 = prodL sizes * R →
    wf (unflattenLoop sizes r k) = true
    ∧ shape (unflattenLoop sizes r k) = (shape r).take k ++ sizes ++ R :: (shape r).drop (k + 1)
    ∧ ∀ (pre mid post : List Nat) (q : Nat), pre.length = k → inB (mid ++ [q]) (sizes ++ [R]) = true →
        (pre ++ q :: post).length = (shape r).length →
        getAt (unflattenLoop sizes r k) (pre ++ mid ++ q :: post) = getAt r (pre ++ ravel (mid ++ [q]) (sizes ++ [R]) :: post)
  | [], r, k, R, hw, hk, _, hR, hlen => by
    simp only [unflattenLoop, List.append_nil, List.nil_append]
    refine ⟨hw, ?_, ?_⟩
    · simp only [prodL, Nat.one_mul] at hlen
      have : (shape r).take k ++ R :: (shape r).drop (k + 1) = (shape r).set k R := by
        rw [List.set_eq_take_append_cons_drop, if_pos hk]
      rw [this]
      apply List.ext_getElem?
      intro i
      rw [List.getElem?_set]
      by_cases h : k = i
      · subst h
        simp only [if_true, hk]
        rw [← hlen]; simp [List.getD_eq_getElem?_getD, List.getElem?_eq_getElem hk]
      · simp [h]
    · intro pre mid post q _ hmid _
      have hm : mid = [] := by
        have := inB_length hmid
        simp only [List.length_append, List.length_cons, List.length_nil] at this
        exact List.eq_nil_of_length_eq_zero (by omega)
      subst hm
      simp [ravel, prodL]
  | n :: rest, r, k, R, hw, hk, hpos, hR, hlen => by
    have hn : 0 < n := hpos n (by simp)
    have hrest : ∀ x ∈ rest, 0 < x := fun x hx => hpos x (by simp [hx])
    have hR' : 0 < prodL rest * R := by
      have : 0 < prodL rest := by
        clear hlen
        induction rest with
        | nil => simp [prodL]
        | cons a t ih =>
          simp only [prodL]
          exact Nat.mul_pos (hrest a (by simp)) (ih (fun x hx => hpos x (by simp at hx ⊢; rcases hx with h | h <;> simp [h]))
            (fun x hx => hrest x (by simp [hx])))
      exact Nat.mul_pos this hR
    have hlen' : (shape r).getD k 0 = n * (prodL rest * R) := by
      rw [hlen]; simp [prodL, Nat.mul_assoc]
    obtain ⟨hw1, hs1, hg1⟩ := chunk_stack_spec r k n (prodL rest * R) hw hk hn hR' hlen'
    have hti : ((shape r).take k).length = k := by rw [List.length_take]; omega
    have hk1 : k + 1 < (shape (.stack (chunk r n k) k)).length := by
      rw [hs1]; simp [hti]
    have hlen1 : (shape (.stack (chunk r n k) k)).getD (k + 1) 0 = prodL rest * R := by
      rw [hs1, List.getD_eq_getElem?_getD, List.getElem?_append_right (by omega)]
      simp [hti]
    obtain ⟨hw2, hs2, hg2⟩ := unflattenLoop_spec rest (.stack (chunk r n k) k) (k + 1) R hw1 hk1 hrest hR hlen1
    simp only [unflattenLoop]
    refine ⟨hw2, ?_, ?_⟩
    · rw [hs2, hs1]
      have t1 := take_len_add_append ((shape r).take k) (n :: prodL rest * R :: (shape r).drop (k + 1)) 1
      have d1 := drop_len_add_append ((shape r).take k) (n :: prodL rest * R :: (shape r).drop (k + 1)) 2
      rw [hti] at t1 d1
      rw [t1, d1]
      simp
    · intro pre mid post q hpre hmid hlenc
      cases mid with
      | nil =>
        have := inB_length hmid
        simp at this
      | cons p mid' =>
        have hmid' : inB (mid' ++ [q]) (rest ++ [R]) = true := by
          have := (inB_cons_iff p (mid' ++ [q]) n (rest ++ [R])).mp (by simpa using hmid)
          exact this.2
        have hlt := ravel_lt _ _ hmid'
        rw [prodL_append] at hlt
        simp only [prodL, Nat.mul_one] at hlt
        have hlenc' : ((pre ++ [p]) ++ q :: post).length = (shape (.stack (chunk r n k) k)).length := by
          rw [hs1]
          simp only [List.length_append, List.length_cons, List.length_take, List.length_drop, List.length_nil] at hlenc ⊢
          omega
        have := hg2 (pre ++ [p]) mid' post q (by simp [hpre]) hmid' hlenc'
        have e : pre ++ (p :: mid') ++ q :: post = (pre ++ [p]) ++ mid' ++ q :: post := by simp
        rw [e, this]
        have e2 : (pre ++ [p]) ++ ravel (mid' ++ [q]) (rest ++ [R]) :: post = pre ++ p :: ravel (mid' ++ [q]) (rest ++ [R]) :: post := by simp
        rw [e2, hg1 pre post p _ hpre (by simpa using hlenc) hlt]
        congr 2
        simp only [List.cons_append, ravel, prodL_append, prodL, Nat.mul_one]

/-! row-major rank: algebra -/

theorem inB_append : ∀ (a b : List Nat) (sa sb : Shape), a.length = sa.length →
    inB (a ++ b) (sa ++ sb) = (inB a sa && inB b sb)
  | [], b, [], sb, _ => by simp [inB]
  | [], _, _ :: _, _, h => by simp at h
  | _ :: _, _, [], _, h => by simp at h
  | p :: a, b, d :: sa, sb, h => by
    simp only [List.length_cons, Nat.add_right_cancel_iff] at h
    simp [inB, inB_append a b sa sb h, Bool.and_assoc]

theorem ravel_append : ∀ (a b : List Nat) (sa sb : Shape), a.length = sa.length →
    ravel (a ++ b) (sa ++ sb) = ravel a sa * prodL sb + ravel b sb
  | [], b, [], sb, _ => by simp [ravel]
  | [], _, _ :: _, _, h => by simp at h
  | _ :: _, _, [], _, h => by simp at h
  | p :: a, b, d :: sa, sb, h => by
    simp only [List.length_cons, Nat.add_right_cancel_iff] at h
    simp only [List.cons_append, ravel, ravel_append a b sa sb h, prodL_append]
    rw [Nat.add_mul, Nat.mul_assoc, Nat.add_assoc]

theorem ravel_inj : ∀ (c c2 : List Nat) (s : Shape), inB c s = true → inB c2 s = true → ravel c s = ravel c2 s → c = c2
  | [], [], [], _, _, _ => rfl
  | [], _ :: _, [], _, h, _ => by simp [inB] at h
  | _ :: _, _, [], h, _, _ => by simp [inB] at h
  | [], _, _ :: _, h, _, _ => by simp [inB] at h
  | _ :: _, [], _ :: _, _, h, _ => by simp [inB] at h
  | p :: c, p2 :: c2, d :: s, h1, h2, he => by
    obtain ⟨_, hc⟩ := (inB_cons_iff p c d s).mp h1
    obtain ⟨_, hc2⟩ := (inB_cons_iff p2 c2 d s).mp h2
    have l1 := ravel_lt c s hc
    have l2 := ravel_lt c2 s hc2
    simp only [ravel] at he
    have hP : 0 < prodL s := by omega
    have hp : p = p2 := by
      have e1 : (prodL s * p + ravel c s) / prodL s = p := by
        rw [Nat.mul_add_div hP, Nat.div_eq_of_lt l1, Nat.add_zero]
      have e2 : (prodL s * p2 + ravel c2 s) / prodL s = p2 := by
        rw [Nat.mul_add_div hP, Nat.div_eq_of_lt l2, Nat.add_zero]
      rw [Nat.mul_comm p, Nat.mul_comm p2] at he
      rw [← e1, ← e2, he]
    subst hp
    have : ravel c s = ravel c2 s := by omega
    rw [ravel_inj c c2 s hc hc2 this]

theorem inB_split3 (c : List Nat) (A M B : Shape) (h : inB c (A ++ M ++ B) = true) :
    ∃ pre mid post, c = pre ++ mid ++ post ∧ inB pre A = true ∧ inB mid M = true ∧ inB post B = true := by
  have hl := inB_length h
  simp only [List.length_append] at hl
  refine ⟨c.take A.length, (c.drop A.length).take M.length, c.drop (A.length + M.length), ?_, ?_⟩
  · rw [List.append_assoc, ← List.drop_drop, List.take_append_drop, List.take_append_drop]
  · have e : c = c.take A.length ++ ((c.drop A.length).take M.length ++ c.drop (A.length + M.length)) := by
      rw [← List.drop_drop, List.take_append_drop, List.take_append_drop]
    rw [e, List.append_assoc, inB_append _ _ A (M ++ B) (by rw [List.length_take]; omega),
      inB_append _ _ M B (by rw [List.length_take, List.length_drop]; omega)] at h
    simp only [Bool.and_eq_true] at h
    exact ⟨h.1, h.2.1, h.2.2⟩

theorem prodL_pos_iff : ∀ (l : List Nat), 0 < prodL l ↔ ∀ n ∈ l, 0 < n
  | [] => by simp [prodL]
  | x :: l => by
    simp only [prodL, List.mem_cons, forall_eq_or_imp, ← prodL_pos_iff l]
    constructor
    · intro h
      exact ⟨Nat.pos_of_mul_pos_right h, Nat.pos_of_mul_pos_left h⟩
    · rintro ⟨h1, h2⟩
      exact Nat.mul_pos h1 h2

/-- two entries show the same objects in the same row-major order -/
def RowMajorSame (r u : NT O) : Prop :=
  ∀ (c c' : List Nat), inB c (shape r) = true → inB c' (shape u) = true → ravel c (shape r) = ravel c' (shape u) →
    getAt u c' = getAt r c

theorem RowMajorSame.trans {r f u : NT O} (h1 : RowMajorSame r f) (h2 : RowMajorSame f u) (N : Nat)
    (hf : shape f = [N]) (hN : N = prodL (shape r)) : RowMajorSame r u := by
  intro c c' hc hc' he
  have hlt := ravel_lt c _ hc
  have hcf : inB [ravel c (shape r)] (shape f) = true := by
    rw [hf, hN]; simp [inB, hlt]
  have e1 : ravel c (shape r) = ravel [ravel c (shape r)] (shape f) := by
    rw [hf]; simp [ravel, prodL]
  rw [h2 [ravel c (shape r)] c' hcf hc' (by rw [← e1, he]), h1 c [ravel c (shape r)] hc hcf e1]

theorem checkIsFlatten_sound (new old : Shape) (i j : Nat) (h : checkIsFlatten new old = some (i, j)) :
    i < new.length ∧ new.length ≤ old.length ∧ j = i + (old.length - new.length) ∧ new.take i = old.take i
    ∧ new.drop (i + 1) = old.drop (j + 1) ∧ new.getD i 0 = prodL ((old.drop i).take (j + 1 - i)) := by
  unfold checkIsFlatten at h
  split at h
  · rename_i hc
    obtain ⟨l1, a, l2, hr, hf, _⟩ := List.findSome?_eq_some_iff.mp h
    have ha : a < new.length := by
      have : a ∈ List.range new.length := by rw [hr]; simp
      exact List.mem_range.mp this
    simp only at hf
    split at hf
    · rename_i hcond
      cases hf
      exact ⟨ha, hc.2, rfl, hcond.1, hcond.2.1, hcond.2.2⟩
    · cases hf
  · cases h

/-- the flatten branch in relational form -/
theorem flatten_rowMajor (r : NT O) (s' : Shape) (i j : Nat) (hw : wf r = true) (hpos : 0 < prodL (shape r))
    (hi : i < s'.length) (hle : s'.length ≤ (shape r).length) (hj : j = i + ((shape r).length - s'.length))
    (h1 : s'.take i = (shape r).take i) (h2 : s'.drop (i + 1) = (shape r).drop (j + 1))
    (h3 : s'.getD i 0 = prodL (((shape r).drop i).take (j + 1 - i))) :
    wf (flattenDims r i j) = true ∧ shape (flattenDims r i j) = s' ∧ RowMajorSame r (flattenDims r i j) := by
  have hij : i ≤ j := by omega
  have hjr : j < (shape r).length := by omega
  have hallpos := (prodL_pos_iff _).mp hpos
  have hdpos : 0 < prodL (((shape r).drop i).take (j + 1 - i)) := by
    rw [prodL_pos_iff]
    intro n hn
    exact hallpos n (List.mem_of_mem_drop (List.mem_of_mem_take hn))
  obtain ⟨hw1, hs1, hg1⟩ := flatten_spec r i j hw hij hjr hdpos
  have hs' : s' = (shape r).take i ++ prodL (((shape r).drop i).take (j + 1 - i)) :: (shape r).drop (j + 1) := by
    have e : s' = s'.take i ++ s'.drop i := (List.take_append_drop i s').symm
    rw [List.drop_eq_getElem_cons hi] at e
    have hgi : s'[i] = s'.getD i 0 := by simp [List.getD_eq_getElem?_getD, List.getElem?_eq_getElem hi]
    rw [hgi, h1, h2, h3] at e
    exact e
  have hsplit : shape r = (shape r).take i ++ ((shape r).drop i).take (j + 1 - i) ++ (shape r).drop (j + 1) := by
    have e1 : (shape r).drop (j + 1) = ((shape r).drop i).drop (j + 1 - i) := by
      rw [List.drop_drop]; congr 1; omega
    rw [e1, List.append_assoc, List.take_append_drop, List.take_append_drop]
  refine ⟨hw1, by rw [hs1, ← hs'], ?_⟩
  intro c c' hc hc' he
  rw [hs1] at hc' he
  rw [hsplit] at hc
  obtain ⟨pre, mid, post, rfl, hpre, hmid, hpost⟩ := inB_split3 c _ _ _ hc
  have hprel : pre.length = i := by rw [inB_length hpre, List.length_take]; omega
  have hprel' : pre.length = ((shape r).take i).length := inB_length hpre
  have hmidl : mid.length = (((shape r).drop i).take (j + 1 - i)).length := inB_length hmid
  have hklt := ravel_lt mid _ hmid
  -- the flattened coordinate of c
  have hc'' : inB (pre ++ ravel mid (((shape r).drop i).take (j + 1 - i)) :: post)
      ((shape r).take i ++ prodL (((shape r).drop i).take (j + 1 - i)) :: (shape r).drop (j + 1)) = true := by
    rw [inB_append _ _ _ _ hprel']
    simp [inB, hpre, hpost, hklt]
  have hrav : ravel (pre ++ ravel mid (((shape r).drop i).take (j + 1 - i)) :: post)
      ((shape r).take i ++ prodL (((shape r).drop i).take (j + 1 - i)) :: (shape r).drop (j + 1))
      = ravel (pre ++ mid ++ post) (shape r) := by
    conv => rhs; rw [hsplit]
    rw [ravel_append _ _ _ _ hprel', List.append_assoc, List.append_assoc, ravel_append _ _ _ _ hprel',
      ravel_append _ _ _ _ hmidl]
    simp only [ravel, prodL_append, prodL]
  have heq : c' = pre ++ ravel mid (((shape r).drop i).take (j + 1 - i)) :: post :=
    ravel_inj _ _ _ hc' hc'' (by rw [hrav, ← he])
  rw [heq]
  have hlc := inB_length hc
  rw [← hsplit] at hlc
  exact hg1 pre mid post hprel hmid hlc

theorem exists_concat {α : Type} : ∀ (l : List α), 0 < l.length → ∃ l0 x, l = l0 ++ [x]
  | [], h => by simp at h
  | [x], _ => ⟨[], x, rfl⟩
  | x :: y :: l, _ => by
    obtain ⟨l0, z, h⟩ := exists_concat (y :: l) (by simp)
    exact ⟨x :: l0, z, by rw [h]; rfl⟩

/-- the unflatten branch in relational form (`s = shape r` is `s'` with its dims `i … j` merged) -/
theorem unflatten_rowMajor (r : NT O) (s' : Shape) (i j : Nat) (hw : wf r = true) (hpos' : 0 < prodL s')
    (hi : i < (shape r).length) (hle : (shape r).length ≤ s'.length) (hj : j = i + (s'.length - (shape r).length))
    (h1 : (shape r).take i = s'.take i) (h2 : (shape r).drop (i + 1) = s'.drop (j + 1))
    (h3 : (shape r).getD i 0 = prodL ((s'.drop i).take (j + 1 - i))) :
    wf (unflattenLoop ((s'.drop i).take (j - i)) r i) = true ∧ shape (unflattenLoop ((s'.drop i).take (j - i)) r i) = s'
    ∧ RowMajorSame r (unflattenLoop ((s'.drop i).take (j - i)) r i) := by
  have hjs : j < s'.length := by omega
  have hallpos := (prodL_pos_iff _).mp hpos'
  -- the new dims: sizes ++ [R]
  have hnew : (s'.drop i).take (j + 1 - i) = (s'.drop i).take (j - i) ++ [s'.getD j 0] := by
    have e : j + 1 - i = (j - i) + 1 := by omega
    rw [e, List.take_add_one]
    congr 1
    rw [List.getElem?_drop]
    have : i + (j - i) = j := by omega
    rw [this, List.getElem?_eq_getElem hjs]
    simp [List.getD_eq_getElem?_getD, List.getElem?_eq_getElem hjs]
  have hsz : ∀ n ∈ (s'.drop i).take (j - i), 0 < n :=
    fun n hn => hallpos n (List.mem_of_mem_drop (List.mem_of_mem_take hn))
  have hR : 0 < s'.getD j 0 := by
    apply hallpos
    rw [List.getD_eq_getElem?_getD, List.getElem?_eq_getElem hjs]
    exact List.getElem_mem hjs
  have hlen : (shape r).getD i 0 = prodL ((s'.drop i).take (j - i)) * s'.getD j 0 := by
    rw [h3, hnew, prodL_append]; simp [prodL]
  obtain ⟨hw1, hs1, hg1⟩ := unflattenLoop_spec _ r i (s'.getD j 0) hw hi hsz hR hlen
  have hsplit' : s' = s'.take i ++ (s'.drop i).take (j + 1 - i) ++ s'.drop (j + 1) := by
    have e1 : s'.drop (j + 1) = (s'.drop i).drop (j + 1 - i) := by
      rw [List.drop_drop]; congr 1; omega
    rw [e1, List.append_assoc, List.take_append_drop, List.take_append_drop]
  have hsu : shape (unflattenLoop ((s'.drop i).take (j - i)) r i) = s' := by
    rw [hs1, h1, h2]
    conv => rhs; rw [hsplit', hnew]
    simp
  have hs : shape r = s'.take i ++ prodL ((s'.drop i).take (j + 1 - i)) :: s'.drop (j + 1) := by
    have e : shape r = (shape r).take i ++ (shape r).drop i := (List.take_append_drop i _).symm
    rw [List.drop_eq_getElem_cons hi] at e
    have hgi : (shape r)[i] = (shape r).getD i 0 := by simp [List.getD_eq_getElem?_getD, List.getElem?_eq_getElem hi]
    rw [hgi, h1, h2, h3] at e
    exact e
  refine ⟨hw1, hsu, ?_⟩
  intro c c' hc hc' he
  rw [hsu] at hc' he
  rw [hsplit'] at hc'
  obtain ⟨pre, mid, post, rfl, hpre, hmid, hpost⟩ := inB_split3 c' _ _ _ hc'
  have hprel' : pre.length = (s'.take i).length := inB_length hpre
  have hprel : pre.length = i := by rw [hprel', List.length_take]; omega
  have hmidl : mid.length = ((s'.drop i).take (j + 1 - i)).length := inB_length hmid
  have hklt := ravel_lt mid _ hmid
  have hc'' : inB (pre ++ ravel mid ((s'.drop i).take (j + 1 - i)) :: post)
      (s'.take i ++ prodL ((s'.drop i).take (j + 1 - i)) :: s'.drop (j + 1)) = true := by
    rw [inB_append _ _ _ _ hprel']
    simp [inB, hpre, hpost, hklt]
  have hrav : ravel (pre ++ ravel mid ((s'.drop i).take (j + 1 - i)) :: post)
      (s'.take i ++ prodL ((s'.drop i).take (j + 1 - i)) :: s'.drop (j + 1))
      = ravel (pre ++ mid ++ post) s' := by
    conv => rhs; rw [hsplit']
    rw [ravel_append _ _ _ _ hprel', List.append_assoc, List.append_assoc, ravel_append _ _ _ _ hprel',
      ravel_append _ _ _ _ hmidl]
    simp only [ravel, prodL_append, prodL]
  rw [hs] at hc he
  have heq : c = pre ++ ravel mid ((s'.drop i).take (j + 1 - i)) :: post :=
    ravel_inj _ _ _ hc hc'' (by rw [hrav, he])
  rw [heq]
  -- split mid into its leading part and its last component
  have hmpos : 0 < mid.length := by rw [hmidl, hnew]; simp
  obtain ⟨mid0, q, rfl⟩ := exists_concat mid hmpos
  have hlenc : (pre ++ q :: post).length = (shape r).length := by
    have := inB_length hc''
    rw [← hs] at this
    simpa using this
  have := hg1 pre mid0 post q hprel (by rw [← hnew]; exact hmid) hlenc
  rw [← hnew] at this
  rw [← this]
  simp

/-- `_view` on a stack, whichever branch it takes: the result has the target shape and shows the same objects in the
same row-major order -/
theorem viewStack_spec (r : NT O) (s' : Shape) (u : NT O) (hw : wf r = true) (hpos : 0 < prodL (shape r))
    (hpos' : 0 < prodL s') (h : viewStack r s' = some u) : wf u = true ∧ shape u = s' ∧ RowMajorSame r u := by
  unfold viewStack at h
  cases hf : checkIsFlatten s' (shape r) with
  | some ij =>
    obtain ⟨i, j⟩ := ij
    rw [hf] at h
    simp only [Option.some.injEq] at h
    subst h
    obtain ⟨a1, a2, a3, a4, a5, a6⟩ := checkIsFlatten_sound _ _ _ _ hf
    exact flatten_rowMajor r s' i j hw hpos a1 a2 a3 a4 a5 a6
  | none =>
    rw [hf] at h
    simp only at h
    cases hu : checkIsFlatten (shape r) s' with
    | some ij =>
      obtain ⟨i, j⟩ := ij
      rw [hu] at h
      simp only [Option.some.injEq] at h
      subst h
      obtain ⟨a1, a2, a3, a4, a5, a6⟩ := checkIsFlatten_sound _ _ _ _ hu
      exact unflatten_rowMajor r s' i j hw hpos' a1 a2 a3 a4 a5 a6
    | none =>
      rw [hu] at h
      cases h

/-- what `reshape` promises -/
theorem reshapeNT_spec (r : NT O) (s' : Shape) (u : NT O) (hw : wf r = true) (hpos : 0 < prodL (shape r))
    (hpos' : 0 < prodL s') (h : reshapeNT r s' = .ok u) : wf u = true ∧ shape u = s' ∧ RowMajorSame r u := by
  cases r with
  | shared o s =>
    simp only [reshapeNT] at h
    split at h
    · cases h
      refine ⟨rfl, rfl, ?_⟩
      intro c c' hc hc' _
      simp only [shape] at hc hc'
      rw [getAt_shared, getAt_shared, if_pos hc, if_pos hc']
    · cases h
  | stack ms d =>
    simp only [reshapeNT] at h
    split at h
    · rename_i hcond
      cases hfl : viewStack (.stack ms d) [prodL (shape (.stack ms d))] with
      | none => rw [hfl] at h; cases h
      | some flat =>
        rw [hfl] at h
        simp only at h
        cases hv : viewStack flat s' with
        | none => rw [hv] at h; cases h
        | some u' =>
          rw [hv] at h
          cases h
          have hN : 0 < prodL [prodL (shape (.stack ms d))] := by simp [prodL]; exact hpos
          obtain ⟨hwf, hsf, hrf⟩ := viewStack_spec _ _ _ hw hpos hN hfl
          have hposf : 0 < prodL (shape flat) := by rw [hsf]; exact hN
          obtain ⟨hwu, hsu, hru⟩ := viewStack_spec _ _ _ hwf hposf hpos' hv
          exact ⟨hwu, hsu, RowMajorSame.trans hrf hru _ hsf rfl⟩
    · cases hv : viewStack (.stack ms d) s' with
      | none => rw [hv] at h; cases h
      | some u' =>
        rw [hv] at h
        cases h
        exact viewStack_spec _ _ _ hw hpos hpos' hv

/-! totality: with matching numel `reshape` always takes one of the modelled branches -/

theorem checkIsFlatten_all (s : Shape) (hs : s ≠ []) : checkIsFlatten [prodL s] s = some (0, s.length - 1) := by
  have hl : 0 < s.length := List.length_pos_iff.mpr hs
  unfold checkIsFlatten
  have e1 : s.length - 1 + 1 = s.length := by omega
  simp [List.range_succ_eq_map, hl, e1, Nat.succ_le_of_lt hl]

theorem checkIsFlatten_self (s : Shape) (hs : s ≠ []) : ∃ ij, checkIsFlatten s s = some ij := by
  cases s with
  | nil => exact absurd rfl hs
  | cons x t =>
    unfold checkIsFlatten
    refine ⟨(0, 0), ?_⟩
    simp [List.range_succ_eq_map, prodL]

theorem viewStack_flat_total (r : NT O) (hr : shape r ≠ []) : ∃ f, viewStack r [prodL (shape r)] = some f := by
  unfold viewStack
  rw [checkIsFlatten_all _ hr]
  exact ⟨_, rfl⟩

theorem reshapeNT_total (r : NT O) (s' : Shape) (hw : wf r = true) (hs' : s' ≠ []) (hr : shape r ≠ [])
    (hpos : 0 < prodL (shape r)) (hprod : prodL s' = prodL (shape r)) : ∃ u, reshapeNT r s' = .ok u := by
  cases r with
  | shared o s =>
    simp only [reshapeNT, shape] at hprod ⊢
    rw [if_pos hprod]
    exact ⟨_, rfl⟩
  | stack ms d =>
    simp only [reshapeNT]
    split
    · rename_i hcond
      obtain ⟨flat, hfl⟩ := viewStack_flat_total (.stack ms d) hr
      rw [hfl]
      simp only
      have hN : 0 < prodL [prodL (shape (.stack ms d))] := by simp [prodL]; exact hpos
      obtain ⟨_, hsf, _⟩ := viewStack_spec _ _ _ hw hpos hN hfl
      have h1 : checkIsFlatten s' (shape flat) = none := by
        rw [hsf]
        unfold checkIsFlatten
        have : ¬ s'.length ≤ 1 := by omega
        simp [this]
      have h2 : checkIsFlatten (shape flat) s' = some (0, s'.length - 1) := by
        rw [hsf, ← hprod]
        exact checkIsFlatten_all s' hs'
      have : viewStack flat s' = some (unflattenLoop ((s'.drop 0).take (s'.length - 1 - 0)) flat 0) := by
        unfold viewStack
        rw [h1, h2]
      rw [this]
      exact ⟨_, rfl⟩
    · rename_i hcond
      have hsome : ∃ u, viewStack (.stack ms d) s' = some u := by
        unfold viewStack
        cases hf : checkIsFlatten s' (shape (.stack ms d)) with
        | some ij => exact ⟨_, rfl⟩
        | none =>
          simp only
          cases hu : checkIsFlatten (shape (.stack ms d)) s' with
          | some ij => exact ⟨_, rfl⟩
          | none =>
            exfalso
            -- one of the side conditions of the interception fails: each case contradicts `none`
            by_cases c1 : 1 < s'.length
            · by_cases c2 : 1 < (shape (.stack ms d)).length
              · by_cases c3 : s' = shape (.stack ms d)
                · obtain ⟨ij, hij⟩ := checkIsFlatten_self s' hs'
                  rw [← c3, hij] at hf
                  cases hf
                · exact hcond ⟨c1, c2, c3, hprod, hf, hu⟩
              · -- rank 1: the entry shape is [numel]
                have hl1 : (shape (.stack ms d)).length = 1 := by
                  have := List.length_pos_iff.mpr hr; omega
                obtain ⟨y, hy⟩ : ∃ y, shape (.stack ms d) = [y] := by
                  match hsh : shape (.stack ms d), hl1 with
                  | [y], _ => exact ⟨y, rfl⟩
                have hyv : y = prodL s' := by rw [hprod, hy]; simp [prodL]
                rw [hy, hyv, checkIsFlatten_all s' hs'] at hu
                cases hu
            · have hl1 : s'.length = 1 := by
                have := List.length_pos_iff.mpr hs'; omega
              obtain ⟨x, hx⟩ : ∃ x, s' = [x] := by
                match hsh : s', hl1 with
                | [x], _ => exact ⟨x, rfl⟩
              have hxv : x = prodL (shape (.stack ms d)) := by rw [← hprod, hx]; simp [prodL]
              rw [hx, hxv, checkIsFlatten_all _ hr] at hf
              cases hf
      obtain ⟨u, hu⟩ := hsome
      rw [hu]
      exact ⟨_, rfl⟩

end NT
end TdVerif.C16
